----------------------------- MODULE SlicerImage -----------------------------
(* Image level of property C05: one call of vbi3_raw_decoder_decode() / vbi_raw_decode() on a raw
   image of count[0] + count[1] rows of bytes_per_line bytes and an output array of max_lines
   records (vbi_raw_decode: max_lines = number of rows).

   The decoder walks over the scan lines i = 0 .. rows-1 (first field, then second field), keeps a
   pointer `raw` to the row of the current scan line - sequential images: one row further each
   time; interlaced images: two rows further, and the pointer is set to the second row when the
   second field begins - and hands the row to the bit slicers of the services expected on that
   line (module SlicerBounds: a slicer call stays inside its row).  A scan line yields at most one
   sliced record; the loop ends when the array is full.  Which lines carry a decodable signal is
   image content: `sig` is any set of scan lines.

   All lengths are in rows (units of bytes_per_line).  The caller may ask for ANY geometry; the
   decoder is only created for valid sampling parameters (_vbi_sampling_par_valid_log, called by
   vbi3_raw_decoder_new / _set_sampling_par / vbi_raw_decoder_add_services): at least one row;
   interlaced only with count[0] = count[1] > 0 (action Admit / Reject).  Rule = "any" is the
   decoder WITHOUT that admission rule: the loop is the same, RowInside fails (MC_SlicerImage_any
   must find that) - i.e. the rule is what keeps the row pointer inside the image, and `far`
   tells for every geometry whether the loop stays inside.

   Properties:  RowInside  - the row handed to a slicer lies inside the image
                OwnRow     - ... and is the storage position of that scan line
                OutBound   - never more than max_lines records and never more than rows
                OneEach    - at most one record per scan line, in scan line order             *)
EXTENDS Naturals, Sequences, FiniteSets, TLC

CONSTANTS MaxCount,    \* rows per field: 0..MaxCount
          MaxExtra,    \* max_lines: 0..rows + MaxExtra
          Rule         \* "coded": admission as _vbi_sampling_par_valid_log; "any": every geometry with a row

VARIABLES c0, c1,      \* count[0], count[1]
          il,          \* interlaced
          maxl,        \* max_lines
          svc,         \* TRUE: the decoder has services to look for
          sig,         \* scan lines carrying a decodable signal
          pc,          \* "new", "rejected", "loop", "done"
          i,           \* scan line
          raw,         \* row the pointer stands on
          at,          \* row handed to the slicers in the last step
          recs,        \* scan lines for which a record was stored, in order
          far          \* ghost: highest row handed to a slicer so far + 1 (0: none yet)
vars == <<c0, c1, il, maxl, svc, sig, pc, i, raw, at, recs, far>>
params == <<c0, c1, il, maxl, svc, sig>>

Rows  == c0 + c1
Pitch == IF il = 1 THEN 2 ELSE 1
out   == Len(recs)

\* where scan line j is stored
StoragePos(j) == IF j < c0 THEN j * Pitch
                 ELSE IF il = 1 THEN 2 * (j - c0) + 1 ELSE j

\* _vbi_sampling_par_valid_log, geometry part
Valid == /\ c0 + c1 > 0
         /\ (il = 1 => (c0 = c1 /\ c0 > 0))
Admitted == IF Rule = "coded" THEN Valid ELSE c0 + c1 > 0

Init == /\ c0 \in 0..MaxCount /\ c1 \in 0..MaxCount
        /\ il \in {0, 1}
        /\ maxl \in 0..(c0 + c1 + MaxExtra)
        /\ svc \in BOOLEAN
        /\ sig \in SUBSET (0..(c0 + c1 - 1))
        /\ pc = "new" /\ i = 0 /\ raw = 0 /\ at = 0 /\ recs = <<>> /\ far = 0

Admit ==               \* the decoder accepts the sampling parameters
  /\ pc = "new" /\ Admitted
  /\ pc' = "loop" /\ UNCHANGED <<params, i, raw, at, recs, far>>

Reject ==              \* vbi3_raw_decoder_new returns NULL / add_services admits no service: nothing is ever decoded
  /\ pc = "new" /\ ~Admitted
  /\ pc' = "rejected" /\ UNCHANGED <<params, i, raw, at, recs, far>>

NoServices ==          \* nothing to look for: returns 0 at once
  /\ pc = "loop" /\ i = 0 /\ ~svc
  /\ pc' = "done" /\ UNCHANGED <<params, i, raw, at, recs, far>>

Full ==                \* sliced >= sliced_end
  /\ pc = "loop" /\ svc /\ i < Rows /\ out >= maxl
  /\ pc' = "done" /\ UNCHANGED <<params, i, raw, at, recs, far>>

Line ==                \* one scan line through the slicers of its pattern
  /\ pc = "loop" /\ svc /\ i < Rows /\ out < maxl
  /\ LET r == IF il = 1 /\ i = c0 THEN 1 ELSE raw IN
       /\ at' = r /\ raw' = r + Pitch
       /\ far' = IF r + 1 > far THEN r + 1 ELSE far
  /\ recs' = IF i \in sig THEN Append(recs, i) ELSE recs
  /\ i' = i + 1
  /\ UNCHANGED <<params, pc>>

End ==
  /\ pc = "loop" /\ svc /\ i = Rows
  /\ pc' = "done" /\ UNCHANGED <<params, i, raw, at, recs, far>>

Next == Admit \/ Reject \/ NoServices \/ Full \/ Line \/ End
Spec == Init /\ [][Next]_vars

TypeOK == /\ c0 \in 0..MaxCount /\ c1 \in 0..MaxCount /\ il \in {0, 1} /\ maxl \in Nat /\ svc \in BOOLEAN
          /\ sig \subseteq 0..(Rows - 1) /\ pc \in {"new", "rejected", "loop", "done"} /\ i \in 0..Rows /\ raw \in Nat /\ at \in Nat
          /\ recs \in Seq(0..(Rows - 1)) /\ far \in Nat
RowInside == i > 0 => at < Rows
FarInside == far <= Rows                      \* the same over the whole call
OnlyValidDecoded == pc \in {"loop", "done"} => Admitted
RejectedIdle == pc = "rejected" => i = 0 /\ recs = <<>> /\ far = 0
OwnRow    == i > 0 => at = StoragePos(i - 1)
OutBound  == out <= maxl /\ out <= Rows
OneEach   == \A a, b \in 1..out : a < b => recs[a] < recs[b]
\* what the caller sees in the end: the first max_lines signal lines
Result    == pc = "done" => /\ out = (IF svc THEN (IF Cardinality(sig) < maxl THEN Cardinality(sig) ELSE maxl) ELSE 0)
                            /\ \A a \in 1..out : recs[a] \in sig
=============================================================================
