----------------------------- MODULE SlicerImage -----------------------------
(* Image level of property C05: one call of vbi3_raw_decoder_decode() / vbi_raw_decode() on a raw
   image of count[0] + count[1] rows of bytes_per_line bytes and an output array of max_lines
   records (vbi_raw_decode: max_lines = number of rows).

   The decoder walks over the scan lines i = 0 .. rows-1 (first field, then second field), keeps a
   pointer `raw` to the row of the current scan line - sequential images: one row further each
   time; interlaced images: two rows further, and the pointer is set to the second row when the
   second field begins - and hands the row to the bit slicers of the services expected on that
   line (module SlicerBounds: a slicer call stays inside its row).  A scan line yields at most one
   sliced record; the loop ends when the array is full.  Which lines carry a decodable signal is
   image content: `sig` is any set of scan lines.

   All lengths are in rows (units of bytes_per_line).  Valid sampling parameters
   (_vbi_sampling_par_valid_log): at least one row; interlaced only with count[0] = count[1] > 0.

   Properties:  RowInside  - the row handed to a slicer lies inside the image
                OwnRow     - ... and is the storage position of that scan line
                OutBound   - never more than max_lines records and never more than rows
                OneEach    - at most one record per scan line, in scan line order             *)
EXTENDS Naturals, Sequences, FiniteSets, TLC

CONSTANTS MaxCount,    \* rows per field: 0..MaxCount
          MaxExtra     \* max_lines: 0..rows + MaxExtra

VARIABLES c0, c1,      \* count[0], count[1]
          il,          \* interlaced
          maxl,        \* max_lines
          svc,         \* TRUE: the decoder has services to look for
          sig,         \* scan lines carrying a decodable signal
          pc,          \* "loop", "done"
          i,           \* scan line
          raw,         \* row the pointer stands on
          at,          \* row handed to the slicers in the last step
          recs         \* scan lines for which a record was stored, in order
vars == <<c0, c1, il, maxl, svc, sig, pc, i, raw, at, recs>>
params == <<c0, c1, il, maxl, svc, sig>>

Rows  == c0 + c1
Pitch == IF il = 1 THEN 2 ELSE 1
out   == Len(recs)

\* where scan line j is stored
StoragePos(j) == IF j < c0 THEN j * Pitch
                 ELSE IF il = 1 THEN 2 * (j - c0) + 1 ELSE j

Init == /\ c0 \in 0..MaxCount /\ c1 \in 0..MaxCount /\ c0 + c1 > 0
        /\ il \in {0, 1} /\ (il = 1 => (c0 = c1 /\ c0 > 0))
        /\ maxl \in 0..(c0 + c1 + MaxExtra)
        /\ svc \in BOOLEAN
        /\ sig \in SUBSET (0..(c0 + c1 - 1))
        /\ pc = "loop" /\ i = 0 /\ raw = 0 /\ at = 0 /\ recs = <<>>

NoServices ==          \* nothing to look for: returns 0 at once
  /\ pc = "loop" /\ i = 0 /\ ~svc
  /\ pc' = "done" /\ UNCHANGED <<params, i, raw, at, recs>>

Full ==                \* sliced >= sliced_end
  /\ pc = "loop" /\ svc /\ i < Rows /\ out >= maxl
  /\ pc' = "done" /\ UNCHANGED <<params, i, raw, at, recs>>

Line ==                \* one scan line through the slicers of its pattern
  /\ pc = "loop" /\ svc /\ i < Rows /\ out < maxl
  /\ LET r == IF il = 1 /\ i = c0 THEN 1 ELSE raw IN
       /\ at' = r /\ raw' = r + Pitch
  /\ recs' = IF i \in sig THEN Append(recs, i) ELSE recs
  /\ i' = i + 1
  /\ UNCHANGED <<params, pc>>

End ==
  /\ pc = "loop" /\ svc /\ i = Rows
  /\ pc' = "done" /\ UNCHANGED <<params, i, raw, at, recs>>

Next == NoServices \/ Full \/ Line \/ End
Spec == Init /\ [][Next]_vars

TypeOK == /\ c0 \in 0..MaxCount /\ c1 \in 0..MaxCount /\ il \in {0, 1} /\ maxl \in Nat /\ svc \in BOOLEAN
          /\ sig \subseteq 0..(Rows - 1) /\ pc \in {"loop", "done"} /\ i \in 0..Rows /\ raw \in Nat /\ at \in Nat
          /\ recs \in Seq(0..(Rows - 1))
RowInside == i > 0 => at < Rows
OwnRow    == i > 0 => at = StoragePos(i - 1)
OutBound  == out <= maxl /\ out <= Rows
OneEach   == \A a, b \in 1..out : a < b => recs[a] < recs[b]
\* what the caller sees in the end: the first max_lines signal lines
Result    == pc = "done" => /\ out = (IF svc THEN (IF Cardinality(sig) < maxl THEN Cardinality(sig) ELSE maxl) ELSE 0)
                            /\ \A a \in 1..out : recs[a] \in sig
=============================================================================
