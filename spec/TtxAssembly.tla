---------------------------- MODULE TtxAssembly ----------------------------
(* Reception of Level 1 Teletext pages (EN 300 706 section 9.3, Annex A.1/B.6) as the property C02
   states it, i.e. from the transmitter's side; the decoder under test is vbi_decode_teletext()
   and store_lop() in src/packet.c with the cache of src/cache.c, read back with
   vbi_fetch_vt_page().

   A network sends, per magazine, page headers, rows in any order (or not at all), optionally a
   FLOF packet X/27/0, and time-filling headers.  In serial mode the magazines take turns page by
   page, in parallel mode their packets interleave freely.  A page is TERMINATED by the next
   header of its own magazine that carries another page number.  At that moment - the decoder may
   be earlier in serial mode, never later - the stored page must be

       rows received in this transmission  +  (unless the erase flag was set) the rows of the
       previously stored version of the same page and subpage,

   one page event must have been raised for it, and a wildcard subpage fetch must return it.

   Row contents are abstract (content ids, 0 = blank/not sent); their presentation is TtxFormatL1. *)
EXTENDS Naturals, Sequences, FiniteSets, TLC

CONSTANTS Mags,          \* magazines in use, e.g. {1, 2}
          Pages,         \* set of page descriptors <<pgno, subs>>: see MC module
          Rows,          \* row numbers used
          Cids,          \* content ids
          Flofs,         \* link set ids (0 = none sent)
          MaxPk,         \* packets per behaviour
          FaultKinds,    \* C03: subset of {"hpage", "hctrl", "rpar", "mrag"}; {} = error-free transmission
          MaxFaults

None == [pg |-> 0]

VARIABLES mode,        \* "serial" | "parallel"
          open,        \* per magazine: the page in transmission or None
          lastm,       \* magazine of the last header (serial mode: only this one may send rows)
          cache,       \* set of stored pages [pg, sub, rows, flof]
          latest,      \* per page number: subpage stored last
          term,        \* pages terminated by the last packet: what a fetch must return now
          nfault,      \* damaged packets so far
          npk, lastAct
vars == <<mode, open, lastm, cache, latest, term, nfault, npk, lastAct>>

PgnoOf(p) == p[1]
SubsOf(p) == p[2]
MagOf(pg) == pg \div 256
Blank == [r \in Rows |-> 0]

Init == /\ mode \in {"serial", "parallel"} /\ open = [m \in Mags |-> None] /\ lastm = 0
        /\ cache = {} /\ latest = [p \in {PgnoOf(x) : x \in Pages} |-> 0] /\ term = <<>>
        /\ npk = 0 /\ nfault = 0 /\ lastAct = [a |-> "init"]

Stored(pg, sub) == {c \in cache : c.pg = pg /\ c.sub = sub}

\* the version to store when the page o is terminated
Merge(o) ==
  LET old == Stored(o.pg, o.sub)
      base == IF o.erase \/ old = {} THEN Blank ELSE (CHOOSE c \in old : TRUE).rows
      bflof == IF o.erase \/ old = {} THEN 0 ELSE (CHOOSE c \in old : TRUE).flof
  IN [pg |-> o.pg, sub |-> o.sub, nat |-> o.nat,
      rows |-> [r \in Rows |-> IF o.rows[r] # 0 THEN o.rows[r] ELSE base[r]],
      flof |-> IF o.flof # 0 THEN o.flof ELSE bflof]

Terminate(m) ==   \* effect on cache / latest / term of terminating the open page of magazine m
  IF open[m] = None THEN /\ UNCHANGED <<cache, latest>> /\ term' = <<>>
  ELSE LET v == Merge(open[m]) IN
       /\ cache' = (cache \ Stored(v.pg, v.sub)) \cup {v}
       /\ latest' = [latest EXCEPT ![v.pg] = v.sub]
       /\ term' = <<v>>

\* page header: terminates the open page of its magazine (another page number) and opens p/sub
Header(p, sub, erase, nat) ==
  LET pg == PgnoOf(p)  m == MagOf(pg) IN
  /\ sub \in SubsOf(p)
  /\ open[m] = None \/ open[m].pg # pg
  /\ Terminate(m)
  /\ open' = [open EXCEPT ![m] = [pg |-> pg, sub |-> sub, erase |-> erase, nat |-> nat, rows |-> Blank, flof |-> 0]]
  /\ lastm' = m /\ UNCHANGED <<mode, nfault>>
  /\ npk' = npk + 1 /\ lastAct' = [a |-> "Header", pg |-> pg, sub |-> sub, erase |-> erase, nat |-> nat]

\* time-filling header of magazine m: terminates, opens nothing
Filler(m) ==
  /\ open[m] # None
  /\ Terminate(m)
  /\ open' = [open EXCEPT ![m] = None] /\ lastm' = m /\ UNCHANGED <<mode, nfault>>
  /\ npk' = npk + 1 /\ lastAct' = [a |-> "Filler", m |-> m]

Row(m, r, c) ==
  /\ (mode = "serial" => lastm = m)
  /\ open[m] # None \/ FaultKinds # {}          \* after a damaged header the rows of the lost page still arrive: ignored
  /\ open' = IF open[m] # None THEN [open EXCEPT ![m].rows[r] = c] ELSE open
  /\ term' = <<>> /\ UNCHANGED <<mode, lastm, cache, latest, nfault>>
  /\ npk' = npk + 1 /\ lastAct' = [a |-> "Row", m |-> m, r |-> r, c |-> c]

Flof(m, f) ==
  /\ open[m] # None /\ (mode = "serial" => lastm = m) /\ f # 0
  /\ open' = [open EXCEPT ![m].flof = f]
  /\ term' = <<>> /\ UNCHANGED <<mode, lastm, cache, latest, nfault>>
  /\ npk' = npk + 1 /\ lastAct' = [a |-> "Flof", m |-> m, f |-> f]


-----------------------------------------------------------------------------
(* C03: damaged packets.  A single bit error in a Hamming protected byte is corrected, i.e. it is
   the error-free behaviour above (the check flips every bit of every protected byte of generated
   transmissions).  Two bit errors in one byte are detected: *)
\* ... in the page number of a header: the pages in progress of ALL magazines are abandoned
HeaderPageBad(p) ==
  LET m == MagOf(PgnoOf(p)) IN
  /\ "hpage" \in FaultKinds /\ nfault < MaxFaults
  /\ open' = [x \in Mags |-> None] /\ term' = <<>> /\ lastm' = m
  /\ UNCHANGED <<mode, cache, latest>> /\ nfault' = nfault + 1
  /\ npk' = npk + 1 /\ lastAct' = [a |-> "HeaderPageBad", pg |-> PgnoOf(p)]
\* ... in the subcode or control bits of a header: the header still terminates the open page of its magazine,
\* the new page is not received
HeaderCtrlBad(p) ==
  LET pg == PgnoOf(p)  m == MagOf(pg) IN
  /\ "hctrl" \in FaultKinds /\ nfault < MaxFaults
  /\ open[m] = None \/ open[m].pg # pg
  /\ Terminate(m)
  /\ open' = [open EXCEPT ![m] = None] /\ lastm' = m /\ UNCHANGED mode /\ nfault' = nfault + 1
  /\ npk' = npk + 1 /\ lastAct' = [a |-> "HeaderCtrlBad", pg |-> pg]
\* a non-header packet with an uncorrectable address changes nothing.  A row with a parity error never reaches the
\* stored page; the row buffer of the page in transmission holds one reception per row (packet.c keeps the last one and
\* gates it at termination, lop_parity_check), so a good copy of the SAME row received earlier in the SAME transmission
\* is forgotten and the row falls back to the previously stored version or stays blank - both outcomes the statement
\* allows ("the row keeps its earlier content or stays blank").
RowBad(kind, m, r, c) ==
  /\ kind \in FaultKinds /\ nfault < MaxFaults /\ (mode = "serial" => lastm = m)
  /\ open' = IF kind = "rpar" /\ open[m] # None THEN [open EXCEPT ![m].rows[r] = 0] ELSE open
  /\ term' = <<>> /\ UNCHANGED <<mode, lastm, cache, latest>> /\ nfault' = nfault + 1
  /\ npk' = npk + 1 /\ lastAct' = [a |-> "RowBad", kind |-> kind, m |-> m, r |-> r, c |-> c]

Next == \/ \E p \in Pages, s \in 0..2, e \in BOOLEAN, n \in {0, 1} : Header(p, s, e, n)
        \/ \E p \in Pages : HeaderPageBad(p) \/ HeaderCtrlBad(p)
        \/ \E k \in {"rpar", "mrag"}, m \in Mags, r \in Rows, c \in Cids : RowBad(k, m, r, c)
        \/ \E m \in Mags : Filler(m)
        \/ \E m \in Mags, r \in Rows, c \in Cids : Row(m, r, c)
        \/ \E m \in Mags, f \in Flofs : Flof(m, f)
Spec == Init /\ [][Next]_vars
Bounded == npk < MaxPk

-----------------------------------------------------------------------------
\* sanity of the reference itself
OneVersion == \A c, d \in cache : (c.pg = d.pg /\ c.sub = d.sub) => c = d
LatestStored == \A p \in DOMAIN latest : latest[p] # 0 \/ Stored(p, 0) # {} \/ \A c \in cache : c.pg # p
\* C03: only transmitted page / subpage numbers are ever stored
OnlyTransmitted == \A c \in cache : \E p \in Pages : c.pg = PgnoOf(p) /\ c.sub \in SubsOf(p)
\* C03: a damaged packet never adds or changes content: every row of a terminated version is blank, the stored version's
\* row, or a content received intact in this transmission (checked with the ghost of intact receptions = open.rows before)
BadRowContained == [][lastAct'.a = "RowBad" => \A m \in Mags : open[m] # None =>
                        \A r \in Rows : open'[m].rows[r] \in {0, open[m].rows[r]}]_vars
\* rows not retransmitted keep their content unless the erase flag was set (action property)
KeepsRows == [][\A i \in 1..Len(term') : LET v == term'[i]  o == open[MagOf(v.pg)] IN
                  \A r \in Rows : (o.rows[r] = 0 /\ ~o.erase /\ Stored(v.pg, v.sub) # {}) =>
                                     v.rows[r] = (CHOOSE c \in Stored(v.pg, v.sub) : TRUE).rows[r]]_vars
=============================================================================
