CONSTANTS Prog <- RdPaths ResetLocking = "release" EventUnlock = TRUE HandlerFetch = TRUE Arm = 2 GapLocked = TRUE ResizeSameUnlocks = FALSE
SPECIFICATION Spec
INVARIANTS LockBalance
