CONSTANTS Clients = {1, 2, 3} Services = {"a"} Supported = {"a"} Base = 1 S = 1 MaxFrames = 4 Threaded = FALSE LevelsUsed = {1} Discards = {FALSE} Faulty = {1}
SPECIFICATION Spec
INVARIANTS TypeOK RefCount CursorOK QueueOrder Buffers Delivery InOrder DeviceOpen CanCapture
PROPERTIES Filtered LossOnlyWhenFull OnlyBlockedLose OthersKept
CHECK_DEADLOCK FALSE
