CONSTANTS NK = 3 KeyCls <- Cls3 KeyTyp <- Typ3 Bytes = {64, 98} L = 32 MaxEv = 0 ErrPairs <- ErrFew HalfGuard = TRUE
SPECIFICATION TSpec
INVARIANTS TypeOK Delivered InBounds LengthOK NoCross CurAgree InfoOK EvOK
POSTCONDITION TraceAccepted
CHECK_DEADLOCK FALSE
