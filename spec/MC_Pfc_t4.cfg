CONSTANTS CiStart = 14 K = 6 NP = 2 Sizes = {0, 1, 4, 7} Fills = {0, 1} MaxBlocks = 4 Faults = {"none", "drop", "err2"} Units = {"bp"} Policies = {"strict", "lenient"} UnitBlocks = 0 TailCheck = TRUE Foreign = {"none", "page", "stream", "mag"} TailAtForeign = TRUE Noise = {0} NoisePos = {"all"} NoiseFaults = {"none"}
SPECIFICATION LeapSpec
INVARIANTS Sound Complete Resume
CHECK_DEADLOCK FALSE
