CONSTANTS NP = 3 MaxSub = 1 MaxOcc = 1 MaxCalls = 4
  AllowTurn = TRUE AllowUpdate = FALSE SecondWrapStops = TRUE ClampSub = TRUE
SPECIFICATION GSpec
CONSTRAINT Dump
CHECK_DEADLOCK FALSE
