------------------------------- MODULE Locks -------------------------------
(* Cross-thread use of the service decoder (vbi_decoder) and the legacy raw decoder
   (vbi_raw_decoder) as documented by libzvbi 0.2:

     - one thread feeds vbi_decode(); other threads call vbi_fetch_cc_page() and
       vbi_channel_switched(); event handlers run in the decoding thread and may themselves
       call vbi_fetch_cc_page() ("safe to do", caption.c);
     - one thread calls vbi_raw_decode(); others vbi_raw_decoder_add_services(),
       _remove_services(), _check_services().

   The module is shaped like the code.  Every C function that takes part is an operator that
   yields its instruction sequence (lock / unlock of a named mutex, read / write of a part of a
   shared region, event callback, branch); a thread executes the instructions of its API calls
   one at a time, so TLC explores every interleaving at the granularity of single lock
   operations and single accesses.

     vbi_decode            src/vbi.c:423       prologue (chswcd countdown), then per sliced line
     vbi_decode_caption    src/caption.c:1259  lock cc.mutex ... unlock
     caption_send_event    src/caption.c:47    unlock cc.mutex; vbi_send_event; lock cc.mutex
     vbi_send_event        src/vbi.c:367       lock event_mutex; handlers; unlock
     vbi_chsw_reset        src/vbi.c:495       channel_switched; events; chswcd := 0 under chswcd_mutex
     vbi_caption_channel_switched  caption.c:1434   rewrites all caption pages
     vbi_fetch_cc_page     src/caption.c:1601  lock; copy page; reset dirty; unlock
     vbi_channel_switched  src/vbi.c:580       chswcd := 1 under chswcd_mutex
     store_lop             src/packet.c:1575-1612   chswcd := 0 / read, under chswcd_mutex
     vbi_raw_decode ... vbi_raw_decoder_resize      src/decoder.c, all under rd->mutex

   Shared regions and the mutex that guards each (Guard): the caption display memories
   "cc.pages" (parts a, b: two halves of the visible page; dirty) - cc.mutex; "chswcd" -
   chswcd_mutex; the raw decoder's job table "rd.jobs" (parts svc: the services word, jobs:
   job array and line pattern) - rd->mutex.  "rd.par" (the sampling geometry in the public
   struct) is read by vbi_raw_decode() before it takes the mutex; none of the documented
   concurrent operations writes it (vbi_raw_decoder_resize does, see MC_Locks_resize.cfg).

   Constants select the code variant:
     ResetLocking  "asfound"  vbi_caption_channel_switched() does not take cc.mutex (D11)
                   "lockonly" it takes cc.mutex, callers unchanged (the XDS path calls
                              vbi_chsw_reset() with cc.mutex held)
                   "release"  it takes cc.mutex and the XDS path drops cc.mutex around
                              vbi_chsw_reset() the way caption_send_event() does (the repair)
     EventUnlock   TRUE as coded; FALSE = mutex kept across the caption event callback
     HandlerFetch  event handlers may call vbi_fetch_cc_page()
     Arm           value the dropped-frame branch of vbi_decode() arms the countdown with (40 in the code, small in MC)
     GapLocked     TRUE as coded: that branch tests and arms chswcd inside chswcd_mutex; FALSE = test outside the mutex
     ResizeSameUnlocks  TRUE as coded: the early return of vbi_raw_decoder_resize() (unchanged geometry) unlocks

   Every exit path of an API function is an instruction sequence of its own (early returns of resize, add with nothing
   new, remove of an absent service, reset), so that LockBalance - a thread between two API calls owns no mutex - is
   checked on each of them.  SwitchServed: a request of vbi_channel_switched() stays in chswcd (value 1) until the next
   regular frame serves it (or a reset / matching Teletext header clears it as coded); nothing may overwrite it.
*)
EXTENDS Naturals, Sequences, FiniteSets, TLC

CONSTANTS Prog,           \* [thread |-> sequence of API calls]
          ResetLocking, EventUnlock, HandlerFetch, Arm, GapLocked, ResizeSameUnlocks

Threads == DOMAIN Prog
Free == "-"
Mutexes == {"cc", "chsw", "ev", "rd"}
Guard == ("cc.pages" :> "cc") @@ ("chswcd" :> "chsw") @@ ("rd.jobs" :> "rd")

VARIABLES ops,        \* per thread: API calls still to make
          code,       \* per thread: instructions of the call in progress
          holder,     \* per mutex: owning thread or Free
          page,       \* caption display memory of one channel: [a, b] version numbers, dirty flag
          ver,        \* version counter (content written by the decoding thread)
          chswcd,     \* channel switch countdown
          svc, jobs,  \* raw decoder: services word, job table (sets of services)
          par,        \* raw decoder geometry (a counter)
          loc,        \* per thread locals
          published,  \* ghost: page contents at the points where the decoding thread had cc.mutex released
          req         \* ghost: a channel switch request is waiting to be served
vars == <<ops, code, holder, page, ver, chswcd, svc, jobs, par, loc, published, req>>

-----------------------------------------------------------------------------
\* transition functions of the shared scalars (also used by Trace_Locks)
TickVal(v)   == IF v > 0 THEN v - 1 ELSE v                 \* vbi_decode: if (chswcd > 0 && --chswcd == 0) reset
TickFires(v) == v = 1
GapVal(v)    == IF v = 0 THEN Arm ELSE v                   \* vbi_decode, dropped frames: if (chswcd == 0) chswcd = 40
AddVal(cur, s)    == cur \cup s
RemoveVal(cur, s) == cur \ s

-----------------------------------------------------------------------------
\* instructions
\* (fn: the C function whose VERIF_REGION marker stands for the access)
I(i, a, b, c, fn) == [i |-> i, a |-> a, b |-> b, c |-> c, fn |-> fn]
Lk(m)            == I("lock", m, "", "", "")
Ul(m)            == I("unlock", m, "", "", "")
Rd(r, p, fn)     == I("rd", r, p, "", fn)
Wr(r, p, f, fn)  == I("wr", r, p, f, fn)
Cb               == I("cb", "", "", "", "handler")
Maybe(c)         == I("maybe", c, "", "", "")     \* data dependent branch: run c or skip
IfReset(c)       == I("ifreset", c, "", "", "")   \* run c iff the countdown just reached zero
IfZero(c)        == I("ifzero", c, "", "", "")    \* run c iff the value of chswcd read before was zero
J(k, s)      == [k |-> k, s |-> s]            \* how a write changes the job table

\* ---- service decoder
vbi_send_event == <<Lk("ev"), Cb, Ul("ev")>>
caption_send_event == IF EventUnlock THEN <<Ul("cc")>> \o vbi_send_event \o <<Lk("cc")>> ELSE vbi_send_event

vbi_fetch_cc_page == <<Lk("cc"), Rd("cc.pages", "a", "vbi_fetch_cc_page"), Rd("cc.pages", "b", "vbi_fetch_cc_page"),
                       Wr("cc.pages", "dirty", "clear", "vbi_fetch_cc_page"), Ul("cc"), I("fetched", "", "", "", "")>>

\* held: the caller holds cc.mutex
vbi_caption_channel_switched(held) ==
  IF ResetLocking = "asfound"
  THEN <<Wr("cc.pages", "a", "erase", "vbi_caption_channel_switched"), Wr("cc.pages", "b", "erase", "erase_memory")>>
       \o (IF held THEN <<>> ELSE <<I("pub", "", "", "", "")>>)
  ELSE <<Lk("cc"), Wr("cc.pages", "a", "erase", "vbi_caption_channel_switched"), Wr("cc.pages", "b", "erase", "erase_memory"), Ul("cc")>>

\* identified # 0 on the XDS path (no NETWORK event from here); the ASPECT event depends on aspect_source
vbi_chsw_reset(held, identified) ==
  vbi_caption_channel_switched(held)
  \o (IF identified THEN <<>> ELSE <<Maybe(vbi_send_event)>>)
  \o <<Maybe(vbi_send_event)>>
  \o <<Lk("chsw"), Wr("chswcd", "v", "zero", "vbi_chsw_reset"), Ul("chsw")>>

\* caption.c:508, xds_decoder() reached from vbi_decode_caption() with cc.mutex held
xds_network_changed ==
  IF ResetLocking = "release"
  THEN <<Ul("cc")>> \o vbi_chsw_reset(FALSE, TRUE) \o <<Lk("cc")>>
  ELSE vbi_chsw_reset(TRUE, TRUE)

vbi_decode_prologue == <<Lk("chsw"), Wr("chswcd", "v", "tick", "vbi_decode"), Ul("chsw"), IfReset(vbi_chsw_reset(FALSE, FALSE))>>

\* a frame whose time stamp is out of step (dropped frames): the branch arms the countdown itself, no tick, no reset;
\* vbi_teletext_desync / vbi_caption_desync touch decoder-private state only
vbi_decode_gap_prologue ==
  IF GapLocked THEN <<Lk("chsw"), Wr("chswcd", "v", "arm", "vbi_decode"), Ul("chsw")>>
  ELSE <<Rd("chswcd", "v", "vbi_decode"), IfZero(<<Lk("chsw"), Wr("chswcd", "v", "armforce", "vbi_decode"), Ul("chsw")>>)>>
DecGap == vbi_decode_gap_prologue \o <<Lk("cc"), Ul("cc")>>

\* a frame with a caption pair that completes a word (put_char -> word_break -> update, render -> event)
DecText == vbi_decode_prologue
           \o <<Lk("cc"), Wr("cc.pages", "a", "fresh", "put_char"), Wr("cc.pages", "b", "cur", "word_break"),
                 Wr("cc.pages", "dirty", "set", "render")>>
           \o caption_send_event \o <<Ul("cc")>>
\* a frame with a control code that rewrites the displayed memory (caption_command: erase, end of caption, roll-up)
\* and goes on after the event
DecCmd == vbi_decode_prologue
          \o <<Lk("cc"), Wr("cc.pages", "a", "fresh", "caption_command"), Wr("cc.pages", "dirty", "set", "clear")>>
          \o caption_send_event
          \o <<Wr("cc.pages", "b", "cur", "erase_memory"), Wr("cc.pages", "dirty", "set", "roll_up")>>
          \o caption_send_event \o <<Ul("cc")>>
\* a frame with a null pair
DecNull == vbi_decode_prologue \o <<Lk("cc"), Ul("cc")>>
\* a frame with the XDS pair that completes a changed network name
DecXdsNet == vbi_decode_prologue \o <<Lk("cc")>> \o xds_network_changed \o caption_send_event \o <<Ul("cc")>>
\* a frame with a Teletext header closing a page: store_lop() same header / inconclusive / different header
DecTtxSame  == vbi_decode_prologue \o <<Lk("chsw"), Wr("chswcd", "v", "zero", "store_lop"), Ul("chsw")>>
DecTtxIncon == vbi_decode_prologue \o <<Lk("chsw"), Rd("chswcd", "v", "store_lop"), Ul("chsw")>>
DecTtxOther == vbi_decode_prologue \o vbi_chsw_reset(FALSE, FALSE)

vbi_channel_switched == <<Lk("chsw"), Wr("chswcd", "v", "one", "vbi_channel_switched"), Ul("chsw")>>

\* ---- legacy raw decoder (decoder.c on top of raw_decoder.c)
SSP == "vbi3_raw_decoder_set_sampling_par"
set_sampling_par == <<Rd("rd.jobs", "svc", SSP),                                 \* services = rd->services
                      Wr("rd.jobs", "jobs", J("empty", {}), "vbi3_raw_decoder_reset"),      \* pattern freed
                      Wr("rd.jobs", "svc", J("empty", {}), "vbi3_raw_decoder_reset"),
                      Wr("rd.jobs", "jobs", J("saved", {}), "vbi3_raw_decoder_add_services"),  \* re-add
                      Wr("rd.jobs", "svc", J("saved", {}), "vbi3_raw_decoder_add_services")>>
vbi_raw_decode == <<Rd("rd.par", "count", "vbi_raw_decode"), Lk("rd"), Rd("rd.jobs", "svc", "vbi3_raw_decoder_decode"),
                    Rd("rd.jobs", "jobs", "vbi3_raw_decoder_decode"), Ul("rd"), I("decoded", "", "", "", "")>>
vbi_raw_decoder_add_services(s) == <<Lk("rd")>> \o set_sampling_par
                                   \o <<Wr("rd.jobs", "jobs", J("add", s), "vbi3_raw_decoder_add_services"),
                                         Wr("rd.jobs", "svc", J("add", s), "vbi3_raw_decoder_add_services"), Ul("rd")>>
vbi_raw_decoder_remove_services(s) == <<Lk("rd"), Wr("rd.jobs", "jobs", J("rem", s), "vbi3_raw_decoder_remove_services"),
                                        Wr("rd.jobs", "svc", J("rem", s), "vbi3_raw_decoder_remove_services"), Ul("rd")>>
vbi_raw_decoder_check_services == <<Lk("rd"), Rd("rd.par", "count", "vbi_raw_decoder_check_services"), Ul("rd")>>
\* exit paths of their own
\* add with nothing new: vbi3_raw_decoder_add_services returns early ("No services to add")
vbi_raw_decoder_add_nothing == <<Lk("rd")>> \o set_sampling_par \o <<Rd("rd.jobs", "svc", "vbi3_raw_decoder_add_services"), Ul("rd")>>
\* resize with the geometry the decoder already has: early return inside the critical section (decoder.c:556-561)
vbi_raw_decoder_resize_same == <<Lk("rd"), Rd("rd.par", "count", "vbi_raw_decoder_resize")>> \o (IF ResizeSameUnlocks THEN <<Ul("rd")>> ELSE <<>>)
\* resize to a geometry without lines: the sampling parameters are invalid, set_sampling_par resets and returns 0
vbi_raw_decoder_resize_zero == <<Lk("rd"), Rd("rd.par", "count", "vbi_raw_decoder_resize"), Wr("rd.par", "count", "bump", "vbi_raw_decoder_resize"),
                                 Rd("rd.jobs", "svc", SSP), Wr("rd.jobs", "jobs", J("empty", {}), "vbi3_raw_decoder_reset"),
                                 Wr("rd.jobs", "svc", J("empty", {}), "vbi3_raw_decoder_reset"), Ul("rd")>>
vbi_raw_decoder_reset == <<Lk("rd"), Wr("rd.jobs", "jobs", J("empty", {}), "vbi3_raw_decoder_reset"),
                           Wr("rd.jobs", "svc", J("empty", {}), "vbi3_raw_decoder_reset"), Ul("rd")>>
vbi_raw_decoder_resize == <<Lk("rd"), Rd("rd.par", "count", "vbi_raw_decoder_resize"), Wr("rd.par", "count", "bump", "vbi_raw_decoder_resize")>>
                          \o set_sampling_par \o <<Ul("rd")>>

CodeOf(op) ==
  CASE op.op = "DecText"     -> DecText
    [] op.op = "DecCmd"      -> DecCmd
    [] op.op = "DecNull"     -> DecNull
    [] op.op = "DecGap"      -> DecGap
    [] op.op = "DecXdsNet"   -> DecXdsNet
    [] op.op = "DecTtxSame"  -> DecTtxSame
    [] op.op = "DecTtxIncon" -> DecTtxIncon
    [] op.op = "DecTtxOther" -> DecTtxOther
    [] op.op = "Fetch"       -> vbi_fetch_cc_page
    [] op.op = "Switch"      -> vbi_channel_switched
    [] op.op = "RawDecode"   -> vbi_raw_decode
    [] op.op = "Add"         -> vbi_raw_decoder_add_services(op.s)
    [] op.op = "Remove"      -> vbi_raw_decoder_remove_services(op.s)
    [] op.op = "Check"       -> vbi_raw_decoder_check_services
    [] op.op = "Resize"      -> vbi_raw_decoder_resize
    [] op.op = "AddNothing"  -> vbi_raw_decoder_add_nothing
    [] op.op = "ResizeSame"  -> vbi_raw_decoder_resize_same
    [] op.op = "ResizeZero"  -> vbi_raw_decoder_resize_zero
    [] op.op = "Reset"       -> vbi_raw_decoder_reset

\* the thread that feeds vbi_decode
IsDecoder(t) == \E k \in 1..Len(Prog[t]) : Prog[t][k].op \in {"DecText", "DecCmd", "DecNull", "DecGap", "DecXdsNet", "DecTtxSame", "DecTtxIncon", "DecTtxOther"}

-----------------------------------------------------------------------------
Loc0 == [a |-> 0, b |-> 0, cd |-> 0, got |-> <<>>, reset |-> FALSE, saved |-> {}, s1 |-> {}, s2 |-> {}, dec |-> <<>>]
InitSvc == {}
Init == /\ ops = Prog /\ code = [t \in Threads |-> <<>>]
        /\ holder = [m \in Mutexes |-> Free]
        /\ page = [a |-> 0, b |-> 0, dirty |-> FALSE] /\ ver = 0 /\ chswcd = 0
        /\ svc = InitSvc /\ jobs = InitSvc /\ par = 0
        /\ loc = [t \in Threads |-> Loc0]
        /\ published = {<<0, 0>>} /\ req = FALSE

\* mutex primitives (also used by Trace_Locks on the recorded events)
Acquire(t, m) == holder[m] = Free /\ holder' = [holder EXCEPT ![m] = t]
Release(t, m) == holder[m] = t /\ holder' = [holder EXCEPT ![m] = Free]
Holds(t, r)   == holder[Guard[r]] = t

Head1(t) == Head(code[t])
Busy(t) == code[t] # <<>>
Pop(t) == code' = [code EXCEPT ![t] = Tail(@)]
Push(t, c) == code' = [code EXCEPT ![t] = c \o Tail(@)]

StartOp(t) == /\ ~Busy(t) /\ ops[t] # <<>>
              /\ code' = [code EXCEPT ![t] = CodeOf(Head(ops[t]))]
              /\ ops' = [ops EXCEPT ![t] = Tail(@)]
              /\ UNCHANGED <<holder, page, ver, chswcd, svc, jobs, par, loc, published, req>>

\* pthread_mutex_lock: blocks while the mutex is owned (also by the caller itself: default mutexes do not recurse)
Lock(t) == /\ Busy(t) /\ Head1(t).i = "lock"
           /\ Acquire(t, Head1(t).a)
           /\ Pop(t) /\ UNCHANGED <<ops, page, ver, chswcd, svc, jobs, par, loc, published, req>>

Unlock(t) == /\ Busy(t) /\ Head1(t).i = "unlock"
             /\ Release(t, Head1(t).a)
             \* the decoding thread leaves a point where others may look at the pages
             /\ published' = IF Head1(t).a = "cc" /\ IsDecoder(t) THEN published \cup {<<page.a, page.b>>} ELSE published
             /\ Pop(t) /\ UNCHANGED <<ops, page, ver, chswcd, svc, jobs, par, loc, req>>

Publish(t) == /\ Busy(t) /\ Head1(t).i = "pub"
              /\ published' = published \cup {<<page.a, page.b>>}
              /\ Pop(t) /\ UNCHANGED <<ops, holder, page, ver, chswcd, svc, jobs, par, loc, req>>

Read(t) == /\ Busy(t) /\ Head1(t).i = "rd"
           /\ LET h == Head1(t) IN
              loc' = [loc EXCEPT ![t] =
                        CASE h.a = "cc.pages" /\ h.b = "a" -> [@ EXCEPT !.a = page.a]
                          [] h.a = "cc.pages" /\ h.b = "b" -> [@ EXCEPT !.b = page.b]
                          [] h.a = "chswcd" -> [@ EXCEPT !.cd = chswcd]
                          [] h.a = "rd.jobs" /\ h.b = "svc" -> [@ EXCEPT !.s1 = svc, !.saved = svc]
                          [] h.a = "rd.jobs" /\ h.b = "jobs" -> [@ EXCEPT !.s2 = jobs]
                          [] OTHER -> @]
           /\ Pop(t) /\ UNCHANGED <<ops, holder, page, ver, chswcd, svc, jobs, par, published, req>>

SetVal(cur, f, t) == CASE f.k = "empty" -> {}
                       [] f.k = "saved" -> loc[t].saved
                       [] f.k = "add" -> AddVal(cur, f.s)
                       [] f.k = "rem" -> RemoveVal(cur, f.s)

Write(t) ==
  /\ Busy(t) /\ Head1(t).i = "wr"
  /\ LET h == Head1(t) IN
     /\ page' = CASE h.a = "cc.pages" /\ h.c = "fresh" -> [page EXCEPT !.a = ver + 1]
                  [] h.a = "cc.pages" /\ h.c = "cur"   -> [page EXCEPT !.b = ver]
                  [] h.a = "cc.pages" /\ h.c = "erase" -> IF h.b = "a" THEN [page EXCEPT !.a = 0] ELSE [page EXCEPT !.b = 0]
                  [] h.a = "cc.pages" /\ h.c = "set"   -> [page EXCEPT !.dirty = TRUE]
                  [] h.a = "cc.pages" /\ h.c = "clear" -> [page EXCEPT !.dirty = FALSE]
                  [] OTHER -> page
     /\ ver' = IF h.a = "cc.pages" /\ h.c = "fresh" THEN ver + 1 ELSE ver
     /\ chswcd' = CASE h.a = "chswcd" /\ h.c = "tick" -> TickVal(chswcd)
                    [] h.a = "chswcd" /\ h.c = "zero" -> 0
                    [] h.a = "chswcd" /\ h.c = "one"  -> 1
                    [] h.a = "chswcd" /\ h.c = "arm"  -> GapVal(chswcd)
                    [] h.a = "chswcd" /\ h.c = "armforce" -> Arm
                    [] OTHER -> chswcd
     /\ req' = CASE h.a = "chswcd" /\ h.c = "one" -> TRUE
                 [] h.a = "chswcd" /\ h.c = "zero" -> FALSE                          \* cleared as coded (reset, matching header)
                 [] h.a = "chswcd" /\ h.c = "tick" /\ TickFires(chswcd) -> FALSE     \* served: the reset follows
                 [] OTHER -> req
     /\ loc' = IF h.a = "chswcd" /\ h.c = "tick" THEN [loc EXCEPT ![t].reset = TickFires(chswcd)] ELSE loc
     /\ svc'  = IF h.a = "rd.jobs" /\ h.b = "svc"  THEN SetVal(svc, h.c, t) ELSE svc
     /\ jobs' = IF h.a = "rd.jobs" /\ h.b = "jobs" THEN SetVal(jobs, h.c, t) ELSE jobs
     /\ par' = IF h.a = "rd.par" THEN par + 1 ELSE par
  /\ Pop(t) /\ UNCHANGED <<ops, holder, published>>


\* an event handler runs in the calling thread; it may fetch a caption page
Callback(t) == /\ Busy(t) /\ Head1(t).i = "cb"
               /\ \/ Pop(t)
                  \/ HandlerFetch /\ Push(t, vbi_fetch_cc_page)
               /\ UNCHANGED <<ops, holder, page, ver, chswcd, svc, jobs, par, loc, published, req>>

Branch(t) == /\ Busy(t)
             /\ \/ Head1(t).i = "maybe" /\ (Pop(t) \/ Push(t, Head1(t).a))
                \/ Head1(t).i = "ifreset" /\ (IF loc[t].reset THEN Push(t, Head1(t).a) ELSE Pop(t))
                \/ Head1(t).i = "ifzero" /\ (IF loc[t].cd = 0 THEN Push(t, Head1(t).a) ELSE Pop(t))
             /\ UNCHANGED <<ops, holder, page, ver, chswcd, svc, jobs, par, loc, published, req>>

\* return of vbi_fetch_cc_page / vbi_raw_decode: what the caller got
Return(t) == /\ Busy(t)
             /\ \/ Head1(t).i = "fetched" /\ loc' = [loc EXCEPT ![t].got = <<loc[t].a, loc[t].b>>]
                \/ Head1(t).i = "decoded" /\ loc' = [loc EXCEPT ![t].dec = <<loc[t].s1, loc[t].s2>>]
             /\ Pop(t) /\ UNCHANGED <<ops, holder, page, ver, chswcd, svc, jobs, par, published, req>>

AllDone == \A t \in Threads : ~Busy(t) /\ ops[t] = <<>>
Next == \/ \E t \in Threads : StartOp(t) \/ Lock(t) \/ Unlock(t) \/ Publish(t) \/ Read(t) \/ Write(t)
                              \/ Callback(t) \/ Branch(t) \/ Return(t)
        \/ AllDone /\ UNCHANGED vars       \* so that TLC's deadlock check reports real deadlocks only
Spec == Init /\ [][Next]_vars

-----------------------------------------------------------------------------
\* Properties
IsAccess(t) == Busy(t) /\ Head1(t).i \in {"rd", "wr"}

\* lockset discipline: every access to a guarded region happens while the thread holds the region's mutex
LocksetOK == \A t \in Threads : (IsAccess(t) /\ Head1(t).a \in DOMAIN Guard) => Holds(t, Head1(t).a)

\* no data race: never two conflicting accesses to the same location enabled at once
NoRace == \A t1, t2 \in Threads :
             (t1 # t2 /\ IsAccess(t1) /\ IsAccess(t2) /\ Head1(t1).a = Head1(t2).a /\ Head1(t1).b = Head1(t2).b)
             => (Head1(t1).i = "rd" /\ Head1(t2).i = "rd")

\* event callbacks run without cc.mutex (what makes a fetching handler legal)
CallbackUnlocked == \A t \in Threads : (Busy(t) /\ Head1(t).i = "cb") => holder["cc"] # t

\* a thread never waits for a mutex it owns itself
NoSelfLock == \A t \in Threads : (Busy(t) /\ Head1(t).i = "lock") => holder[Head1(t).a] # t

\* every fetched page is a content the decoding thread exposed at a point where it had released cc.mutex
SnapshotAtomic == \A t \in Threads : loc[t].got # <<>> => loc[t].got \in published

\* every raw decode ran with one consistent service set (services word = job table)
ConsistentSet == \A t \in Threads : loc[t].dec # <<>> => loc[t].dec[1] = loc[t].dec[2]

\* Lock context of every code site: the function that touches a region (or a handler) runs with exactly these mutexes.
\* The same table is applied to the recorded executions (Trace_Locks), so a function of the real code that reaches a
\* shared region in a context the model does not have is reported.
Contexts ==
  {<<fn, {"cc"}>> : fn \in {"put_char", "word_break", "render", "clear", "roll_up", "erase_memory", "caption_command",
                            "vbi_caption_channel_switched", "vbi_fetch_cc_page"}}
  \cup {<<"vbi_fetch_cc_page", {"cc", "ev"}>>}                       \* called from an event handler
  \cup {<<fn, {"chsw"}>> : fn \in {"vbi_decode", "vbi_chsw_reset", "vbi_channel_switched", "store_lop"}}
  \cup {<<fn, {"rd"}>> : fn \in {"vbi3_raw_decoder_decode", "vbi3_raw_decoder_set_sampling_par", "vbi3_raw_decoder_reset",
                            "vbi3_raw_decoder_add_services", "vbi3_raw_decoder_remove_services", "vbi_raw_decoder_check_services",
                            "vbi_raw_decoder_resize"}}
  \cup {<<"vbi_raw_decode", {}>>}                                    \* the geometry read before the lock
  \cup {<<"handler", {"ev"}>>}
\* every function of the table labels an instruction of the model
OpNames == {"DecText", "DecCmd", "DecNull", "DecGap", "AddNothing", "ResizeSame", "ResizeZero", "Reset", "DecXdsNet", "DecTtxSame", "DecTtxIncon", "DecTtxOther", "Fetch", "Switch",
            "RawDecode", "Add", "Remove", "Check", "Resize"}
RECURSIVE Fns(_)
Fns(c) == UNION {IF c[k].i \in {"maybe", "ifreset", "ifzero"} THEN Fns(c[k].a) ELSE {c[k].fn} : k \in 1..Len(c)}
ModelFns == UNION {Fns(CodeOf([op |-> o, s |-> {}])) : o \in OpNames}
ASSUME \A c \in Contexts : c[1] \in ModelFns
HeldBy(t) == {m \in Mutexes : holder[m] = t}
ContextOK == \A t \in Threads : (IsAccess(t) \/ (Busy(t) /\ Head1(t).i = "cb")) => <<Head1(t).fn, HeldBy(t)>> \in Contexts

\* every exit path of an API function has released what the function locked: between two calls a thread owns nothing
LockBalance == \A t \in Threads : ~Busy(t) => HeldBy(t) = {}

\* a channel switch request is never lost: it stays in the countdown until a regular frame serves it
SwitchServed == req => chswcd = 1

\* mutual exclusion bookkeeping
HolderOK == \A m \in Mutexes : holder[m] \in Threads \cup {Free}
=============================================================================
