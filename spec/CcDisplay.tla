------------------------------ MODULE CcDisplay ------------------------------
(* Closed Caption display memories, a reference machine written from EIA-608-B / 47 CFR 15.119
   for the caption channels CC1..CC4 (CC1/CC2 on field 1, CC3/CC4 on field 2).  The decoder
   under test is vbi_decode_caption()/caption_command() in src/caption.c (through vbi_decode)
   read back with vbi_fetch_cc_page().

   One action per received byte pair.  Per channel: mode, displayed and non-displayed memory
   (15 rows x 32 columns), cursor, pen (colour, underline, italic), roll-up depth and base row.
   Text goes to the non-displayed memory in pop-on mode and to the displayed memory in roll-up
   and paint-on mode.  Visible(ch) is the displayed memory; the statement requires it to match the
   fetched page at the points where the standard makes content visible: after end-of-caption and
   erase-displayed-memory in pop-on mode, after a completed word or any control code otherwise
   (vis marks those points).

   Rules taken from the standard (section numbers of 47 CFR 15.119 / EIA-608-B):
   * (f)(1)(v)  the cursor advances after every character; once it has reached column 32 it stays
                there and every further character replaces the one in column 32 until a PAC, CR or BS.
   * (f)(1)(vi) BS moves the cursor one column to the left and erases that cell; ignored in column 1.
                (So after a character was written in column 32 the cursor is still in column 32 and BS
                erases column 31.)
   * (f)(1)(vii), (f)(2)(iii), (f)(3)(ii)  DER erases the cursor cell and all cells to its right.
   * (e)(1)(ii) TO1-3 move the cursor 1-3 columns to the right, not beyond column 32; nothing is erased.
   * (f)(1)(ii) roll-up: RUx from another mode erases both memories, base row 15, cursor column 1;
                a PAC with another row moves the whole window to the new base row at once; Annex C.4:
                a base row that leaves no room for the window above it is replaced by the lowest row
                that does (row 1 with RU3 -> base row 3); the cursor always stays on the base row.
   * (f)(1)(iii) CR rolls the window up one row, the base row becomes blank, cursor column 1.
   * (f)(2)     EOC flips the memories and selects pop-on mode; EDM / ENM erase one memory.
   * (i)        a control pair is sent twice in succession on field 1; the second pair is ignored when
                it follows the first IMMEDIATELY - a third identical pair is a new command, and a pair
                that follows text or a null (fill) pair is a new command as well.

   * (f)(2)(i), (f)(3)(i)  CR has no effect in pop-on and paint-on mode.
   * (e)(1)     a PAC indent and a tab offset move the cursor, they erase nothing.
   * every field is a data stream of its own with its own current channel.

   Covered codes: RCL, RU2/3/4, RDC, EOC, EDM, ENM, CR, BS, DER, TO1-3, PAC (15 rows, 8 indents, colour, italics,
   underline), mid-row codes, printable characters incl. one special character, control codes repeated 1..4 times
   on field 1, null pairs, channels and fields interleaved.
   Not generated: text channels T1-T4, background attributes, FON, extended characters; the inputs named by the
   clauses of Violated (PAC moving a NON-EMPTY roll-up window, change of roll-up depth without mode change, mode changes
   over non-empty memories, EOC flipping back to a caption that was not erased, cursor relative codes directly after
   EOC) - caption.c is known to leave the standard there, doc/notes-C08.md; with the clause in Beyond they are generated
   and the divergence is reported as the known finding of the clause.  The pen is the simple one (PAC and mid-row codes
   set it, characters use it): the attribute inheritance rules of EIA-608-B Annex C.7 / C.14 are not modelled.  *)
EXTENDS Naturals, Integers, Sequences, FiniteSets, TLC

CONSTANTS Chans,        \* subset of 1..4
          Rows,         \* rows used by PACs (0..14)
          Chars,        \* printable codes used
          MaxPairs,
          Indents,      \* PAC indents used (subset of {0, 4, .., 28})
          Depths,       \* roll-up depths used (subset of {2, 3, 4})
          Tabs,         \* tab offsets used (subset of {1, 2, 3})
          Kinds,        \* control code classes used: subset of AllKinds; "PACX" adds the coloured / italic /
                        \* underlined PAC variants, "NULL" the null pairs, "TEXT" the character pairs
          Beyond        \* exclusion clauses (see Violated) that are lifted: {} for the sub-language the check decides

AllKinds == {"RCL", "RDC", "EOC", "EDM", "ENM", "CR", "BS", "DER", "RU", "TO", "PAC", "PACX", "MID", "SPC", "NULL", "TEXT"}

Empty == [u |-> 0, fg |-> 0, ul |-> FALSE, it |-> FALSE]
Cols == 1..32
Pen0 == [fg |-> 7, ul |-> FALSE, it |-> FALSE]
Row0 == [c \in Cols |-> Empty]
Mem0 == [r \in 0..14 |-> Row0]
\* stale / fresh are ghosts used by Legal only: stale = the non-displayed memory holds the caption that was
\* displayed before the last EOC and was not erased since; fresh = no PAC / RUx since the last EOC
Chan0 == [mode |-> "none", disp |-> Mem0, nond |-> Mem0, row |-> 14, col |-> 1, pen |-> Pen0, roll |-> 0, base |-> 14,
          stale |-> FALSE, fresh |-> FALSE]

VARIABLES ch,          \* per channel state
          cur,         \* per field (1, 2): current channel of that field (0: none selected yet)
          last,        \* last control pair received on field 1 if the next pair may be its repetition, or <<>>
          vis,         \* channels whose displayed memory is at a visibility point after this pair
          ev,          \* channels whose visible page changed with this pair (caption event expected)
          lm,          \* ghost: per field the channel of its last mode command (RCL, RUx, RDC, EOC), 0: none
          np, lastAct
vars == <<ch, cur, last, vis, ev, lm, np, lastAct>>

FieldOf(c) == IF c <= 2 THEN 1 ELSE 2
Init == /\ ch = [c \in Chans |-> Chan0] /\ cur = [f \in {1, 2} |-> 0] /\ last = <<>>
        /\ vis = {} /\ ev = {} /\ lm = [f \in {1, 2} |-> 0] /\ np = 0 /\ lastAct = [a |-> "init"]

\* memory that receives text
Target(s) == IF s.mode = "pop" THEN "nond" ELSE "disp"
Put(s, cell) ==     \* write a cell at the cursor and advance; in column 32 the cursor stays
  LET m == Target(s)
      mem == IF m = "nond" THEN s.nond ELSE s.disp
      mem1 == [mem EXCEPT ![s.row][s.col] = cell]
      s1 == IF m = "nond" THEN [s EXCEPT !.nond = mem1] ELSE [s EXCEPT !.disp = mem1]
  IN [s1 EXCEPT !.col = IF s.col < 32 THEN s.col + 1 ELSE 32]
Glyph(s, u) == [u |-> u, fg |-> s.pen.fg, ul |-> s.pen.ul, it |-> s.pen.it]
SetMem(s, mem) == IF Target(s) = "nond" THEN [s EXCEPT !.nond = mem] ELSE [s EXCEPT !.disp = mem]
GetMem(s) == IF Target(s) = "nond" THEN s.nond ELSE s.disp

\* base row a PAC for `row` selects for a roll-up window of depth n: the window stays on the screen
ClampBase(row, n) == IF row < n - 1 THEN n - 1 ELSE row
\* the roll-up window (depth n, base row b) moved to base row nb; everything else is blank
MoveWindow(mem, n, b, nb) == [r \in 0..14 |-> IF r > nb - n /\ r <= nb /\ r - (nb - b) \in 0..14 THEN mem[r - (nb - b)] ELSE Row0]

\* effect of a control code on channel state s
Do(s, code) ==
  CASE code.k = "RCL" -> [s EXCEPT !.mode = "pop"]
    [] code.k = "RDC" -> [s EXCEPT !.mode = "paint"]
    [] code.k = "RU"  -> IF s.mode = "roll"
                         THEN (IF code.n >= s.roll
                               THEN [s EXCEPT !.roll = code.n]    \* (growing next to the top of the screen is not decided here: outside Legal)
                               ELSE [s EXCEPT !.roll = code.n,    \* (f)(1)(iv): the rows that leave the window are erased
                                              !.disp = [r \in 0..14 |-> IF r > s.base - s.roll /\ r <= s.base - code.n THEN Row0 ELSE s.disp[r]]])
                         ELSE [s EXCEPT !.mode = "roll", !.roll = code.n, !.disp = Mem0, !.nond = Mem0,
                                        !.base = 14, !.row = 14, !.col = 1, !.stale = FALSE, !.fresh = FALSE]
    [] code.k = "EOC" -> [s EXCEPT !.mode = "pop", !.disp = s.nond, !.nond = s.disp, !.stale = (s.disp # Mem0), !.fresh = TRUE]
    [] code.k = "EDM" -> [s EXCEPT !.disp = Mem0]
    [] code.k = "ENM" -> [s EXCEPT !.nond = Mem0, !.stale = FALSE]
    [] code.k = "CR"  -> IF s.mode # "roll" THEN s
                         ELSE LET top == s.base - s.roll + 1 IN
                              [s EXCEPT !.disp = [r \in 0..14 |->
                                          IF r >= top /\ r < s.base THEN s.disp[r + 1]
                                          ELSE IF r = s.base THEN Row0 ELSE s.disp[r]],
                                        !.col = 1]
    [] code.k = "BS"  -> IF s.mode = "none" \/ s.col = 1 THEN s
                         ELSE SetMem([s EXCEPT !.col = s.col - 1], [GetMem(s) EXCEPT ![s.row][s.col - 1] = Empty])
    [] code.k = "DER" -> IF s.mode = "none" THEN s
                         ELSE SetMem(s, [GetMem(s) EXCEPT ![s.row] = [c \in Cols |-> IF c >= s.col THEN Empty ELSE @[c]]])
    [] code.k = "TO"  -> IF s.mode = "none" THEN s ELSE [s EXCEPT !.col = IF s.col + code.n > 32 THEN 32 ELSE s.col + code.n]
    [] code.k = "PAC" -> IF s.mode = "none" THEN s
                         ELSE LET pen == [fg |-> code.fg, ul |-> code.ul, it |-> code.it] IN
                              IF s.mode = "roll"
                              THEN LET nb == ClampBase(code.row, s.roll) IN
                                   [s EXCEPT !.disp = IF nb = s.base THEN @ ELSE MoveWindow(@, s.roll, s.base, nb),
                                             !.base = nb, !.row = nb, !.col = code.indent + 1, !.pen = pen, !.fresh = FALSE]
                              ELSE [s EXCEPT !.row = code.row, !.col = code.indent + 1, !.pen = pen, !.fresh = FALSE]
    [] code.k = "MID" -> IF s.mode = "none" THEN s
                         \* (h)(1)(ii): the italics mid-row code keeps the colour, a colour mid-row code turns italics off
                         ELSE LET s1 == [s EXCEPT !.pen = [fg |-> IF code.it THEN s.pen.fg ELSE code.fg, ul |-> code.ul, it |-> code.it]] IN
                              Put(s1, Glyph(s1, 32))
    [] code.k = "SPC" -> IF s.mode = "none" THEN s ELSE Put(s, Glyph(s, code.u))
    [] OTHER -> s

Quiet == {"SPC", "BS", "TO", "ENM"}     \* codes that are no visibility point (a special character is a printable character)

\* a control pair for channel c (field FieldOf(c)); on field 1 the immediate repetition of a pair is ignored
IsRep(c, code) == FieldOf(c) = 1 /\ last = <<c, code>>
Ctrl(c, code) ==
  LET f == FieldOf(c)
      rep == IsRep(c, code)
  IN /\ np' = np + 1 /\ lastAct' = [a |-> "Ctrl", c |-> c, code |-> code]
     /\ last' = IF f = 1 THEN (IF rep THEN <<>> ELSE <<c, code>>) ELSE last
     /\ lm' = IF ~rep /\ code.k \in {"RCL", "RU", "RDC", "EOC"} THEN [lm EXCEPT ![f] = c] ELSE lm
     /\ IF rep THEN UNCHANGED <<ch, cur>> /\ vis' = {} /\ ev' = {}
        ELSE /\ ch' = [ch EXCEPT ![c] = Do(@, code)]
             /\ cur' = [cur EXCEPT ![f] = c]
             \* visibility points: addressing and mode commands, erasures, end of caption, a mid-row code (a space);
             \* not: a special character (printable), backspace / tab offset / erase non-displayed memory
             /\ vis' = IF code.k \in Quiet THEN {} ELSE {c}
             /\ ev' = IF ch'[c].disp # ch[c].disp /\ code.k \notin Quiet THEN {c} ELSE {}

\* Characters go to the channel the field's last control pair addressed.  Whether a PAC or mid-row code for the other
\* channel of the field re-selects the channel is read both ways (EIA-608-B 7.7 names the mode commands only): clause "select"
\* keeps to streams on which both readings agree.  "fresh": see Violated.
TextViolated(f) == IF cur[f] = 0 THEN {}
                   ELSE (IF cur[f] # lm[f] THEN {"select"} ELSE {}) \cup (IF ch[cur[f]].fresh /\ ch[cur[f]].mode # "none" THEN {"fresh"} ELSE {})
\* a pair of printable characters on field f (second may be 0 = none)
Text(f, c1, c2) ==
  /\ np' = np + 1 /\ lastAct' = [a |-> "Text", f |-> f, c1 |-> c1, c2 |-> c2]
  /\ last' = IF f = 1 THEN <<>> ELSE last
  /\ UNCHANGED <<cur, lm>>
  /\ TextViolated(f) \subseteq Beyond
  /\ IF cur[f] = 0 \/ ch[cur[f]].mode = "none" THEN UNCHANGED ch /\ vis' = {} /\ ev' = {}
     ELSE LET c == cur[f]
              s1 == Put(ch[c], Glyph(ch[c], c1))
              s2 == IF c2 = 0 THEN s1 ELSE Put(s1, Glyph(s1, c2))
              lastc == IF c2 = 0 THEN c1 ELSE c2
          IN /\ ch' = [ch EXCEPT ![c] = s2]
             /\ vis' = IF s2.mode # "pop" /\ lastc = 32 THEN {c} ELSE {}
             /\ ev' = IF s2.disp # ch[c].disp /\ lastc = 32 THEN {c} ELSE {}

\* a null (fill) pair; on field 1 it ends the window in which a control pair counts as repetition
Null(f) == /\ np' = np + 1 /\ lastAct' = [a |-> "Null", f |-> f]
           /\ last' = IF f = 1 THEN <<>> ELSE last
           /\ UNCHANGED <<ch, cur, lm>> /\ vis' = {} /\ ev' = {}

K(k) == k \in Kinds
Codes == (IF K("RCL") THEN {[k |-> "RCL"]} ELSE {}) \cup (IF K("RDC") THEN {[k |-> "RDC"]} ELSE {})
         \cup (IF K("EOC") THEN {[k |-> "EOC"]} ELSE {}) \cup (IF K("EDM") THEN {[k |-> "EDM"]} ELSE {})
         \cup (IF K("ENM") THEN {[k |-> "ENM"]} ELSE {}) \cup (IF K("CR") THEN {[k |-> "CR"]} ELSE {})
         \cup (IF K("BS") THEN {[k |-> "BS"]} ELSE {}) \cup (IF K("DER") THEN {[k |-> "DER"]} ELSE {})
         \cup (IF K("RU") THEN {[k |-> "RU", n |-> n] : n \in Depths} ELSE {})
         \cup (IF K("TO") THEN {[k |-> "TO", n |-> n] : n \in Tabs} ELSE {})
         \cup (IF K("PAC") THEN {[k |-> "PAC", row |-> r, indent |-> i, fg |-> 7, ul |-> FALSE, it |-> FALSE] : r \in Rows, i \in Indents} ELSE {})
         \cup (IF K("PACX") THEN {[k |-> "PAC", row |-> r, indent |-> 0, fg |-> 2, ul |-> TRUE, it |-> FALSE] : r \in Rows}
                                 \cup {[k |-> "PAC", row |-> r, indent |-> 0, fg |-> 7, ul |-> FALSE, it |-> TRUE] : r \in Rows}
                                 \cup {[k |-> "PAC", row |-> r, indent |-> i, fg |-> 7, ul |-> TRUE, it |-> FALSE] : r \in Rows, i \in Indents \ {0}}
                            ELSE {})
         \cup (IF K("MID") THEN {[k |-> "MID", fg |-> 6, ul |-> FALSE, it |-> FALSE], [k |-> "MID", fg |-> 7, ul |-> TRUE, it |-> TRUE]} ELSE {})
         \cup (IF K("SPC") THEN {[k |-> "SPC", u |-> 174]} ELSE {})

\* Inputs outside the sub-language this module decides: Violated names the clauses a control pair breaks.  Each clause is a
\* place where caption.c is known to leave the standard (doc/notes-C08.md lists them with the reason); the reference machine
\* above still says what the standard demands there, and with the clause in Beyond the generators produce such inputs too
\* (the check then reports the divergence as the known finding of that clause).
Cond(b, name) == IF b THEN {name} ELSE {}
Violated(c, code) ==
  LET s == ch[c] IN
  \* "move": a PAC moves a roll-up window that is not empty (608: moved intact; caption.c erases it)
  Cond(code.k = "PAC" /\ s.mode = "roll" /\ ClampBase(code.row, s.roll) # s.base /\ s.disp # Mem0, "move")
  \* "resize": RUx with another depth while in roll-up mode (608: the window is resized; caption.c starts over on row 15)
  \cup Cond(code.k = "RU" /\ s.mode = "roll" /\ code.n # s.roll, "resize")
  \* "flip": EOC while the non-displayed memory still holds the caption displayed before (608: it comes back; caption.c erased it)
  \cup Cond(code.k = "EOC" /\ s.stale, "flip")
  \* "work": mode changes over memories that are not empty - EOC in roll-up / paint-on mode, RCL after roll-up / paint-on text,
  \* RDC over a loaded or displayed caption (caption.c uses the non-displayed memory as work buffer of roll-up and paint-on mode)
  \cup Cond(code.k = "EOC" /\ s.mode \in {"roll", "paint"}, "work")
  \cup Cond(code.k = "RCL" /\ s.mode \in {"roll", "paint"} /\ s.disp # Mem0, "work")
  \cup Cond(code.k = "RDC" /\ s.mode # "paint" /\ (s.nond # Mem0 \/ s.disp # Mem0), "work")
  \* "fresh": a cursor relative code directly after EOC, without PAC (608: the cursor stays; caption.c puts it on row 15 column 1)
  \cup Cond(code.k \in {"SPC", "MID", "BS", "DER", "TO"} /\ s.fresh /\ s.mode # "none", "fresh")
Legal(c, code) == Violated(c, code) \subseteq Beyond
\* a step whose code class is in KS
NextK(KS) == \/ \E c \in Chans, code \in {x \in Codes : x.k \in KS} : (IsRep(c, code) \/ Legal(c, code)) /\ Ctrl(c, code)
             \/ "TEXT" \in KS /\ K("TEXT") /\ \E f \in {FieldOf(c) : c \in Chans}, c1 \in Chars, c2 \in Chars \cup {0} : Text(f, c1, c2)
             \/ "NULL" \in KS /\ K("NULL") /\ \E f \in {FieldOf(c) : c \in Chans} : Null(f)
Next == NextK(AllKinds)
Spec == Init /\ [][Next]_vars
Bounded == np < MaxPairs

-----------------------------------------------------------------------------
\* sanity of the reference machine
CursorOK == \A c \in Chans : ch[c].row \in 0..14 /\ ch[c].col \in 1..32
\* in pop-on mode the visible page changes only with EOC / EDM
PopOnStable == [][\A c \in Chans : (ch[c].mode = "pop" /\ ch'[c].mode = "pop" /\ ch'[c].disp # ch[c].disp) =>
                     (lastAct'.a = "Ctrl" /\ lastAct'.code.k \in {"EOC", "EDM"})]_vars
\* the roll-up window never leaves the screen, the cursor stays on its base row, nothing is displayed outside it
WindowOK == \A c \in Chans : ch[c].mode = "roll" =>
               /\ ch[c].base - ch[c].roll + 1 >= 0 /\ ch[c].base <= 14 /\ ch[c].row = ch[c].base
               /\ \A r \in 0..14 : (r > ch[c].base \/ r <= ch[c].base - ch[c].roll) => ch[c].disp[r] = Row0
\* only one repetition of a control pair is swallowed: a pair that arrives when nothing can be repeated is executed
\* and opens the window for its own repetition
OneRep == [][(lastAct'.a = "Ctrl" /\ last = <<>>) => (last' # <<>> \/ FieldOf(lastAct'.c) = 2)]_vars
\* characters and null pairs close the repetition window of field 1
RepWindow == [][(lastAct'.a \in {"Text", "Null"} /\ lastAct'.f = 1) => last' = <<>>]_vars
\* an executed DER leaves nothing at or right of the cursor; an executed BS changes at most the cell left of the cursor
Executed(k) == lastAct'.a = "Ctrl" /\ lastAct'.code.k = k /\ ~IsRep(lastAct'.c, lastAct'.code)
DerClears == [][Executed("DER") => LET s == ch'[lastAct'.c] IN
                   s.mode # "none" => \A k \in s.col..32 : GetMem(s)[s.row][k] = Empty]_vars
BsOne == [][Executed("BS") => LET s == ch[lastAct'.c] t == ch'[lastAct'.c] IN
               /\ t.col = (IF s.mode = "none" \/ s.col = 1 THEN s.col ELSE s.col - 1) /\ t.row = s.row
               /\ \A r \in 0..14, k \in Cols : (r # s.row \/ k # s.col - 1) => (t.disp[r][k] = s.disp[r][k] /\ t.nond[r][k] = s.nond[r][k])]_vars
=============================================================================
