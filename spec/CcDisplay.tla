------------------------------ MODULE CcDisplay ------------------------------
(* Closed Caption display memories, a reference machine written from EIA-608 / 47 CFR 15.119
   for the caption channels CC1..CC4 (CC1/CC2 on field 1, CC3/CC4 on field 2).  The decoders
   under test are vbi_decode_caption()/caption_command() in src/caption.c (through vbi_decode)
   read back with vbi_fetch_cc_page().

   One action per received byte pair.  Per channel: mode, displayed and non-displayed memory
   (15 rows x 32 columns), cursor, pen (colour, underline, italic), roll-up depth and base row.
   Text goes to the non-displayed memory in pop-on mode and to the displayed memory in roll-up
   and paint-on mode.  Visible(ch) is the displayed memory; the statement requires it to match the
   fetched page at the points where the standard makes content visible: after end-of-caption and
   erase-displayed-memory in pop-on mode, after a completed word or any control code otherwise
   (vis marks those points).

   Covered codes: RCL, RU2/3/4, RDC, EOC, EDM, ENM, CR (roll-up), BS, DER, TO1-3, PAC (row, indent,
   colour, underline), mid-row codes, printable characters incl. one special character, control
   codes doubled on field 1, null pairs, channels and fields interleaved.
   Not generated: text channels T1-T4, background attributes, FON, extended characters, PACs that
   move the base row of a running roll-up caption, change of roll-up depth without mode change.  *)
EXTENDS Naturals, Integers, Sequences, FiniteSets, TLC

CONSTANTS Chans,        \* subset of 1..4
          Rows,         \* rows used by PACs (0..14)
          Chars,        \* printable codes used
          MaxPairs

Empty == [u |-> 0, fg |-> 0, ul |-> FALSE, it |-> FALSE]
Cols == 1..32
Pen0 == [fg |-> 7, ul |-> FALSE, it |-> FALSE]
Mem0 == [r \in 0..14 |-> [c \in Cols |-> Empty]]
Chan0 == [mode |-> "none", disp |-> Mem0, nond |-> Mem0, row |-> 14, col |-> 1, pen |-> Pen0, roll |-> 0, base |-> 14]

VARIABLES ch,          \* per channel state
          cur,         \* per field (1, 2): current channel of that field (0: none selected yet)
          last,        \* last control pair received on field 1 (for the doubling rule), or <<>>
          vis,         \* channels whose displayed memory is at a visibility point after this pair
          ev,          \* channels whose visible page changed with this pair (caption event expected)
          lm,          \* ghost: channel of the last mode command (RCL, RUx, RDC, EOC) on either field
          np, lastAct
vars == <<ch, cur, last, vis, ev, lm, np, lastAct>>

FieldOf(c) == IF c <= 2 THEN 1 ELSE 2
Init == /\ ch = [c \in Chans |-> Chan0] /\ cur = [f \in {1, 2} |-> 0] /\ last = <<>>
        /\ vis = {} /\ ev = {} /\ lm = 0 /\ np = 0 /\ lastAct = [a |-> "init"]

\* memory that receives text
Target(s) == IF s.mode = "pop" THEN "nond" ELSE "disp"
Put(s, cell) ==     \* write a cell at the cursor and advance
  LET m == Target(s)
      mem == IF m = "nond" THEN s.nond ELSE s.disp
      mem1 == [mem EXCEPT ![s.row][s.col] = cell]
      s1 == IF m = "nond" THEN [s EXCEPT !.nond = mem1] ELSE [s EXCEPT !.disp = mem1]
  IN [s1 EXCEPT !.col = IF s.col < 32 THEN s.col + 1 ELSE 32]
Glyph(s, u) == [u |-> u, fg |-> s.pen.fg, ul |-> s.pen.ul, it |-> s.pen.it]
SetMem(s, mem) == IF Target(s) = "nond" THEN [s EXCEPT !.nond = mem] ELSE [s EXCEPT !.disp = mem]
GetMem(s) == IF Target(s) = "nond" THEN s.nond ELSE s.disp

\* effect of a control code on channel state s
Do(s, code) ==
  CASE code.k = "RCL" -> [s EXCEPT !.mode = "pop"]
    [] code.k = "RDC" -> [s EXCEPT !.mode = "paint"]
    [] code.k = "RU"  -> IF s.mode = "roll" THEN s
                         ELSE [s EXCEPT !.mode = "roll", !.roll = code.n, !.disp = Mem0, !.nond = Mem0,
                                        !.base = 14, !.row = 14, !.col = 1]
    [] code.k = "EOC" -> [s EXCEPT !.mode = "pop", !.disp = s.nond, !.nond = s.disp]
    [] code.k = "EDM" -> [s EXCEPT !.disp = Mem0]
    [] code.k = "ENM" -> [s EXCEPT !.nond = Mem0]
    [] code.k = "CR"  -> IF s.mode # "roll" THEN s
                         ELSE LET top == s.base - s.roll + 1 IN
                              [s EXCEPT !.disp = [r \in 0..14 |->
                                          IF r >= top /\ r < s.base THEN s.disp[r + 1]
                                          ELSE IF r = s.base THEN [c \in Cols |-> Empty] ELSE s.disp[r]],
                                        !.col = 1]
    [] code.k = "BS"  -> IF s.mode = "none" \/ s.col = 1 THEN s
                         ELSE SetMem([s EXCEPT !.col = s.col - 1], [GetMem(s) EXCEPT ![s.row][s.col - 1] = Empty])
    [] code.k = "DER" -> IF s.mode = "none" THEN s
                         ELSE SetMem(s, [GetMem(s) EXCEPT ![s.row] = [c \in Cols |-> IF c >= s.col THEN Empty ELSE @[c]]])
    [] code.k = "TO"  -> IF s.mode = "none" THEN s ELSE [s EXCEPT !.col = IF s.col + code.n > 32 THEN 32 ELSE s.col + code.n]
    [] code.k = "PAC" -> IF s.mode = "none" THEN s
                         ELSE LET pen == [fg |-> code.fg, ul |-> code.ul, it |-> code.it] IN
                              IF s.mode = "roll"
                              THEN [s EXCEPT !.col = code.indent + 1, !.pen = pen]       \* (base row unchanged: see header)
                              ELSE [s EXCEPT !.row = code.row, !.col = code.indent + 1, !.pen = pen]
    [] code.k = "MID" -> IF s.mode = "none" THEN s
                         ELSE LET s1 == [s EXCEPT !.pen = [fg |-> code.fg, ul |-> code.ul, it |-> code.it]] IN
                              Put(s1, Glyph(s1, 32))
    [] code.k = "SPC" -> IF s.mode = "none" THEN s ELSE Put(s, Glyph(s, code.u))
    [] OTHER -> s

\* a control pair for channel c (field FieldOf(c)); on field 1 an immediate repetition is ignored
Ctrl(c, code) ==
  LET f == FieldOf(c)
      rep == f = 1 /\ last = <<c, code>>
  IN /\ np' = np + 1 /\ lastAct' = [a |-> "Ctrl", c |-> c, code |-> code]
     /\ last' = IF f = 1 THEN (IF rep THEN <<>> ELSE <<c, code>>) ELSE last
     /\ lm' = IF ~rep /\ code.k \in {"RCL", "RU", "RDC", "EOC"} THEN c ELSE lm
     /\ IF rep THEN UNCHANGED <<ch, cur>> /\ vis' = {} /\ ev' = {}
        ELSE /\ ch' = [ch EXCEPT ![c] = Do(@, code)]
             /\ cur' = [cur EXCEPT ![f] = c]
             \* visibility points: addressing and mode commands, erasures, end of caption, a mid-row code (a space);
             \* not: a special character (printable), backspace / tab offset / erase non-displayed memory
             /\ vis' = IF code.k \in {"SPC", "BS", "TO", "ENM"} THEN {} ELSE {c}
             /\ ev' = IF ch'[c].disp # ch[c].disp /\ code.k \notin {"SPC", "BS", "TO", "ENM"} THEN {c} ELSE {}

\* a pair of printable characters on field f (second may be 0 = none)
Text(f, c1, c2) ==
  /\ np' = np + 1 /\ lastAct' = [a |-> "Text", f |-> f, c1 |-> c1, c2 |-> c2]
  /\ last' = IF f = 1 THEN <<>> ELSE last
  /\ UNCHANGED <<cur, lm>>
  \* sub-language: characters follow a mode command of their channel (a PAC or mid-row code alone does not
  \* re-select a channel in the decoder under test, see DESIGN.md C08)
  /\ cur[f] # 0 => cur[f] = lm
  /\ IF cur[f] = 0 \/ ch[cur[f]].mode = "none" THEN UNCHANGED ch /\ vis' = {} /\ ev' = {}
     ELSE LET c == cur[f]
              s1 == Put(ch[c], Glyph(ch[c], c1))
              s2 == IF c2 = 0 THEN s1 ELSE Put(s1, Glyph(s1, c2))
              lastc == IF c2 = 0 THEN c1 ELSE c2
          IN /\ ch' = [ch EXCEPT ![c] = s2]
             /\ vis' = IF s2.mode # "pop" /\ lastc = 32 THEN {c} ELSE {}
             /\ ev' = IF s2.disp # ch[c].disp /\ lastc = 32 THEN {c} ELSE {}

Null(f) == /\ np' = np + 1 /\ lastAct' = [a |-> "Null", f |-> f]
           /\ UNCHANGED <<ch, cur, last, lm>> /\ vis' = {} /\ ev' = {}

Codes == {[k |-> "RCL"], [k |-> "RDC"], [k |-> "EOC"], [k |-> "EDM"], [k |-> "ENM"], [k |-> "CR"], [k |-> "BS"], [k |-> "DER"]}
         \cup {[k |-> "RU", n |-> n] : n \in {2, 3}}
         \cup {[k |-> "TO", n |-> n] : n \in {1, 3}}
         \cup {[k |-> "PAC", row |-> r, indent |-> i, fg |-> g, ul |-> u, it |-> FALSE] : r \in Rows, i \in {0, 4}, g \in {7}, u \in {FALSE}}
         \cup {[k |-> "PAC", row |-> r, indent |-> 0, fg |-> 2, ul |-> TRUE, it |-> FALSE] : r \in Rows}
         \cup {[k |-> "MID", fg |-> 6, ul |-> FALSE, it |-> FALSE], [k |-> "MID", fg |-> 7, ul |-> TRUE, it |-> TRUE]}
         \cup {[k |-> "SPC", u |-> 174]}

\* inputs outside the sub-language this module decides (see header and DESIGN.md C08):
CellsFree(s, n) == \A k \in s.col..(IF s.col + n > 32 THEN 32 ELSE s.col + n) : GetMem(s)[s.row][k] = Empty
Legal(c, code) ==
  LET s == ch[c] IN
  /\ (code.k = "PAC" /\ s.mode = "roll") => code.row = s.base             \* PAC does not move a running roll-up caption
  /\ (code.k = "RU" /\ s.mode = "roll") => code.n = s.roll                 \* no change of depth without mode change
  /\ code.k = "CR" => s.mode = "roll"                                      \* CR is defined for roll-up captions
  /\ code.k = "EOC" => s.mode \in {"pop", "none"}
  /\ code.k = "RCL" => (s.mode \in {"pop", "none"} \/ s.disp = Mem0)   \* pop-on after roll-up / paint-on starts from a cleared screen
  /\ code.k \in {"SPC", "MID"} => s.mode # "none"                       \* characters before any mode command
  /\ code.k = "RDC" => s.nond = Mem0                                       \* paint-on starts with an empty non-displayed memory
  /\ (code.k = "PAC" /\ code.indent > 0 /\ s.mode # "none") =>
        (LET t == [s EXCEPT !.row = IF s.mode = "roll" THEN s.row ELSE code.row, !.col = 1] IN CellsFree(t, code.indent))
  /\ (code.k = "TO" /\ s.mode # "none") => CellsFree(s, code.n)
Next == \/ \E c \in Chans, code \in Codes : Legal(c, code) /\ Ctrl(c, code)
        \/ \E f \in {FieldOf(c) : c \in Chans}, c1 \in Chars, c2 \in Chars \cup {0} : Text(f, c1, c2)
        \/ \E f \in {FieldOf(c) : c \in Chans} : Null(f)
Spec == Init /\ [][Next]_vars
Bounded == np < MaxPairs

-----------------------------------------------------------------------------
\* sanity of the reference machine
CursorOK == \A c \in Chans : ch[c].row \in 0..14 /\ ch[c].col \in 1..32
\* in pop-on mode the visible page changes only with EOC / EDM
PopOnStable == [][\A c \in Chans : (ch[c].mode = "pop" /\ ch'[c].mode = "pop" /\ ch'[c].disp # ch[c].disp) =>
                     (lastAct'.a = "Ctrl" /\ lastAct'.code.k \in {"EOC", "EDM"})]_vars
\* the roll-up window never leaves the screen
WindowOK == \A c \in Chans : ch[c].mode = "roll" => ch[c].base - ch[c].roll + 1 >= 0
=============================================================================
