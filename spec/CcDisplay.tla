------------------------------ MODULE CcDisplay ------------------------------
(* Closed Caption display memories, a reference machine written from EIA-608-B / 47 CFR 15.119
   for the eight channels: 1..4 = CC1..CC4 (CC1/CC2 on field 1, CC3/CC4 on field 2), 5..8 = T1..T4
   (T1/T2 on field 1, T3/T4 on field 2).  The decoder under test is vbi_decode_caption() /
   caption_command() in src/caption.c (through vbi_decode) read back with vbi_fetch_cc_page()
   (pages 1..8).

   One action per received byte pair.  Per channel: mode, displayed and non-displayed memory
   (15 rows x 32 columns), cursor, pen (colour, underline, italic, flash, background colour, background
   opacity), roll-up depth and base row.  Text goes to the non-displayed memory in pop-on mode and to the
   displayed memory in roll-up, paint-on and text mode.  Visible(ch) is the displayed memory; the statement
   requires it to match the fetched page at the points where the standard makes content visible: after
   end-of-caption and erase-displayed-memory in pop-on mode, after a completed word or any control code
   otherwise (vis marks those points).

   A control pair carries a DATA CHANNEL (1..4: field and channel bit), not a service.  The mode commands name the
   service: RCL, RUx, RDC, EOC the caption channel of the data channel, TR and RTD its text channel.  Every
   other code belongs to the caption or the text channel of its data channel according to the mode the data
   stream of its field is in (EIA-608-B 7.7: text mode lasts until the next caption mode command); EDM and ENM
   always act on the caption channel and do not end text mode (7.7, Annex B.7).

   Rules taken from the standard (section numbers of 47 CFR 15.119 / EIA-608-B):
   * (f)(1)(v)  the cursor advances after every character; once it has reached column 32 it stays
                there and every further character replaces the one in column 32 until a PAC, CR or BS.
   * (f)(1)(vi) BS moves the cursor one column to the left and erases that cell; ignored in column 1.
                (So after a character was written in column 32 the cursor is still in column 32 and BS
                erases column 31.)
   * (f)(1)(vii), (f)(2)(iii), (f)(3)(ii), 608-B 7.4  DER erases the cursor cell and all cells to its right
                (all caption modes and text mode).
   * (e)(1)(ii) TO1-3 move the cursor 1-3 columns to the right, not beyond column 32; nothing is erased.
   * (f)(1)(ii) roll-up: RUx from another mode erases both memories, base row 15, cursor column 1;
                a PAC with another row moves the whole window to the new base row at once; Annex C.4:
                a base row that leaves no room for the window above it is replaced by the lowest row
                that does (row 1 with RU3 -> base row 3); the cursor always stays on the base row.
   * (f)(1)(iii) CR rolls the window up one row, the base row becomes blank, cursor column 1.
   * (f)(2)     EOC flips the memories and selects pop-on mode; EDM / ENM erase one memory.
   * (i)        a control pair is sent twice in succession on field 1; the second pair is ignored when
                it follows the first IMMEDIATELY - a third identical pair is a new command, and a pair
                that follows text or a null (fill) pair is a new command as well.
   * (f)(2)(i), (f)(3)(i)  CR has no effect in pop-on and paint-on mode.
   * (e)(1)     a PAC indent and a tab offset move the cursor, they erase nothing.
   * every field is a data stream of its own with its own current channel and its own caption / text mode.
   * (h)(1)(i), 608-B 6.2  mid-row codes, Flash On and the background / foreground attribute codes are spacing
                attributes: they occupy a cell that shows as a space, the attribute holds from that cell on.
   * (h)(1)(ii) the italics mid-row code keeps the colour, a colour mid-row code turns italics off.
   * (h)(1)(iii) Flash On turns flash on; every mid-row code turns it off; a PAC starts with flash off.
   * 608-B 6.2  background attribute codes (10/18 20-2F): background colour, opaque or semi-transparent; 17/1F 2D:
                background transparent; 17/1F 2E, 2F: foreground black (underlined).  They incorporate a backspace:
                the cell of the standard space transmitted before the code is replaced by the attribute's space,
                the cursor ends where it was.  A PAC starts with a black opaque background; mid-row codes and
                Flash On leave the background alone.
   * 608-B 7.4, (e)(1)  text mode: RTD selects the text channel and resumes at the cursor; TR selects it, erases the
                text memory and puts the cursor on the top left; characters, mid-row codes, BS, DER, TOx work as in
                captions; the row of a PAC is ignored, its indent and attributes are used; CR moves to column 1 of
                the next row, on the last row the text rolls up one row (the top row is lost).  TextRows: the window
                has 7..15 rows at the decoder's choice ((d)(2)); vbi_fetch_cc_page returns a page of 15 rows.

   Covered codes: RCL, RU2/3/4, RDC, EOC, EDM, ENM, CR, BS, DER, TO1-3, PAC (15 rows, 8 indents, colour, italics,
   underline), mid-row codes, FON, background attribute codes (16), BT, FA / FAU, TR, RTD, printable characters incl.
   one special character, control codes repeated 1..4 times on field 1, null pairs, channels and fields interleaved.
   Not generated: extended characters, the special character "transparent space"; the inputs named by the clauses of
   Violated / TextViolated.  The clauses "move", "resize", "flip", "work", "fresh" are places where caption.c is known to
   leave the standard (doc/notes-C08.md); with the clause in Beyond they are generated and the divergence is reported as
   the known finding of the clause.  The other clauses ("select", "xmode", "bgsp", "bg32", "fa", "bgrow", "rowpen") are
   inputs the standard does not decide (two readings) or forbids the transmitter to send.  The pen is the simple one (PAC,
   mid-row and attribute codes set it, characters use it): the attribute inheritance rules of EIA-608-B Annex C.7 / C.14
   are not modelled.  *)
EXTENDS Naturals, Integers, Sequences, FiniteSets, TLC

CONSTANTS Chans,        \* channels in use: subset of 1..8 (5..8 = T1..T4)
          Rows,         \* rows used by PACs (0..14)
          Chars,        \* printable codes used
          MaxPairs,
          Indents,      \* PAC indents used (subset of {0, 4, .., 28})
          Depths,       \* roll-up depths used (subset of {2, 3, 4})
          Tabs,         \* tab offsets used (subset of {1, 2, 3})
          Kinds,        \* control code classes used: subset of AllKinds; "PACX" adds the coloured / italic /
                        \* underlined PAC variants, "BAOX" all 16 background attribute codes, "NULL" the null pairs,
                        \* "TEXT" the character pairs
          Beyond        \* exclusion clauses (see Violated) that are lifted: {} for the sub-language the check decides

AllKinds == {"RCL", "RDC", "EOC", "EDM", "ENM", "CR", "BS", "DER", "RU", "TO", "PAC", "PACX", "MID", "SPC", "NULL", "TEXT",
             "FON", "BAO", "BAOX", "BT", "FA", "TR", "RTD"}

\* opacity as in vbi_opacity: 0 transparent space (an empty cell), 1 transparent background, 2 semi-transparent, 3 opaque
Opaque == 3
Empty == [u |-> 0, fg |-> 0, ul |-> FALSE, it |-> FALSE, fl |-> FALSE, bg |-> 0, op |-> 0]
Cols == 1..32
TextRows == 15
Pen0 == [fg |-> 7, ul |-> FALSE, it |-> FALSE, fl |-> FALSE, bg |-> 0, op |-> Opaque]
Row0 == [c \in Cols |-> Empty]
Mem0 == [r \in 0..14 |-> Row0]
\* stale / fresh / nopac are ghosts used by Legal only: stale = the non-displayed memory holds the caption that was
\* displayed before the last EOC and was not erased since; fresh = no PAC / RUx since the last EOC; nopac = the cursor
\* row was started by CR, TR or RUx and no PAC was received since; tinted = a background attribute code was executed for the
\* channel (only then a memory can hold a cell with a background attribute: invariant TintedOK)
Chan0 == [mode |-> "none", disp |-> Mem0, nond |-> Mem0, row |-> 14, col |-> 1, pen |-> Pen0, roll |-> 0, base |-> 14,
          stale |-> FALSE, fresh |-> FALSE, nopac |-> FALSE, tinted |-> FALSE]
\* a text channel is always in text mode; 608-B 7.4: the cursor starts at the topmost row, column 1
TChan0 == [Chan0 EXCEPT !.mode = "text", !.row = 0, !.base = TextRows - 1, !.roll = TextRows]

VARIABLES ch,          \* per channel state
          cur,         \* per field (1, 2): the channel the last control pair of that field addressed (0: none yet)
          last,        \* last control pair received on field 1 if the next pair may be its repetition, or <<>>
          vis,         \* channels whose displayed memory is at a visibility point after this pair
          ev,          \* channels whose visible page changed with this pair (caption event expected)
          lm,          \* per field the channel of its last mode command (RCL, RUx, RDC, EOC, TR, RTD), 0: none;
                       \* lm[f] > 4: the data stream of the field is in text mode
          dm,          \* ghost: per data channel the class of its last mode command ("none", "cap", "text")
          np, lastAct
vars == <<ch, cur, last, vis, ev, lm, dm, np, lastAct>>

\* c: a channel 1..8 or a data channel 1..4
DataOf(c) == IF c > 4 THEN c - 4 ELSE c
FieldOf(c) == IF DataOf(c) <= 2 THEN 1 ELSE 2
DChans == {DataOf(c) : c \in Chans}
Fields == {FieldOf(c) : c \in Chans}
Init == /\ ch = [c \in Chans |-> IF c > 4 THEN TChan0 ELSE Chan0] /\ cur = [f \in {1, 2} |-> 0] /\ last = <<>>
        /\ vis = {} /\ ev = {} /\ lm = [f \in {1, 2} |-> 0] /\ dm = [d \in 1..4 |-> "none"]
        /\ np = 0 /\ lastAct = [a |-> "init"]

\* memory that receives text
Target(s) == IF s.mode = "pop" THEN "nond" ELSE "disp"
Put(s, cell) ==     \* write a cell at the cursor and advance; in column 32 the cursor stays
  LET m == Target(s)
      mem == IF m = "nond" THEN s.nond ELSE s.disp
      mem1 == [mem EXCEPT ![s.row][s.col] = cell]
      s1 == IF m = "nond" THEN [s EXCEPT !.nond = mem1] ELSE [s EXCEPT !.disp = mem1]
  IN [s1 EXCEPT !.col = IF s.col < 32 THEN s.col + 1 ELSE 32]
Glyph(s, u) == [u |-> u, fg |-> s.pen.fg, ul |-> s.pen.ul, it |-> s.pen.it, fl |-> s.pen.fl, bg |-> s.pen.bg, op |-> s.pen.op]
SetMem(s, mem) == IF Target(s) = "nond" THEN [s EXCEPT !.nond = mem] ELSE [s EXCEPT !.disp = mem]
GetMem(s) == IF Target(s) = "nond" THEN s.nond ELSE s.disp
\* a spacing attribute that incorporates a backspace (608-B 6.2): the cell left of the cursor becomes the attribute's
\* space, the cursor ends where it was (in column 1 there is nothing to step back over: the space is stored there)
PutBack(s) == IF s.col = 1 THEN Put(s, Glyph(s, 32))
              ELSE SetMem(s, [GetMem(s) EXCEPT ![s.row][s.col - 1] = Glyph(s, 32)])

\* base row a PAC for `row` selects for a roll-up window of depth n: the window stays on the screen
ClampBase(row, n) == IF row < n - 1 THEN n - 1 ELSE row
\* the roll-up window (depth n, base row b) moved to base row nb; everything else is blank
MoveWindow(mem, n, b, nb) == [r \in 0..14 |-> IF r > nb - n /\ r <= nb /\ r - (nb - b) \in 0..14 THEN mem[r - (nb - b)] ELSE Row0]
\* the row a PAC puts the cursor on
PacRow(s, code) == IF s.mode = "roll" THEN ClampBase(code.row, s.roll) ELSE IF s.mode = "text" THEN s.row ELSE code.row

\* effect of a control code on channel state s
Do(s, code) ==
  CASE code.k = "RCL" -> [s EXCEPT !.mode = "pop"]
    [] code.k = "RDC" -> [s EXCEPT !.mode = "paint"]
    [] code.k = "RU"  -> IF s.mode = "roll"
                         THEN (IF code.n >= s.roll
                               THEN [s EXCEPT !.roll = code.n]    \* (growing next to the top of the screen is not decided here: outside Legal)
                               ELSE [s EXCEPT !.roll = code.n,    \* (f)(1)(iv): the rows that leave the window are erased
                                              !.disp = [r \in 0..14 |-> IF r > s.base - s.roll /\ r <= s.base - code.n THEN Row0 ELSE s.disp[r]]])
                         ELSE [s EXCEPT !.mode = "roll", !.roll = code.n, !.disp = Mem0, !.nond = Mem0,
                                        !.base = 14, !.row = 14, !.col = 1, !.stale = FALSE, !.fresh = FALSE, !.nopac = TRUE]
    [] code.k = "EOC" -> [s EXCEPT !.mode = "pop", !.disp = s.nond, !.nond = s.disp, !.stale = (s.disp # Mem0), !.fresh = TRUE]
    [] code.k = "EDM" -> [s EXCEPT !.disp = Mem0]
    [] code.k = "ENM" -> [s EXCEPT !.nond = Mem0, !.stale = FALSE]
    \* 608-B 7.4: RTD resumes the text where it stood; TR erases the text memory, cursor on the top left
    [] code.k = "RTD" -> s
    [] code.k = "TR"  -> [s EXCEPT !.disp = Mem0, !.row = 0, !.col = 1, !.nopac = TRUE]
    [] code.k = "CR"  -> IF s.mode = "roll"
                         THEN LET top == s.base - s.roll + 1 IN
                              [s EXCEPT !.disp = [r \in 0..14 |->
                                          IF r >= top /\ r < s.base THEN s.disp[r + 1]
                                          ELSE IF r = s.base THEN Row0 ELSE s.disp[r]],
                                        !.col = 1, !.nopac = TRUE]
                         ELSE IF s.mode = "text"
                         THEN (IF s.row < TextRows - 1
                               THEN [s EXCEPT !.row = s.row + 1, !.col = 1, !.nopac = TRUE]
                               ELSE [s EXCEPT !.disp = [r \in 0..14 |-> IF r < TextRows - 1 THEN s.disp[r + 1] ELSE Row0],
                                              !.col = 1, !.nopac = TRUE])
                         ELSE s
    [] code.k = "BS"  -> IF s.mode = "none" \/ s.col = 1 THEN s
                         ELSE SetMem([s EXCEPT !.col = s.col - 1], [GetMem(s) EXCEPT ![s.row][s.col - 1] = Empty])
    [] code.k = "DER" -> IF s.mode = "none" THEN s
                         ELSE SetMem(s, [GetMem(s) EXCEPT ![s.row] = [c \in Cols |-> IF c >= s.col THEN Empty ELSE @[c]]])
    [] code.k = "TO"  -> IF s.mode = "none" THEN s ELSE [s EXCEPT !.col = IF s.col + code.n > 32 THEN 32 ELSE s.col + code.n]
    [] code.k = "PAC" -> IF s.mode = "none" THEN s
                         \* a PAC starts with flash off and a black opaque background
                         ELSE LET pen == [fg |-> code.fg, ul |-> code.ul, it |-> code.it, fl |-> FALSE, bg |-> 0, op |-> Opaque] IN
                              IF s.mode = "roll"
                              THEN LET nb == ClampBase(code.row, s.roll) IN
                                   [s EXCEPT !.disp = IF nb = s.base THEN @ ELSE MoveWindow(@, s.roll, s.base, nb),
                                             !.base = nb, !.row = nb, !.col = code.indent + 1, !.pen = pen, !.fresh = FALSE, !.nopac = FALSE]
                              ELSE IF s.mode = "text"     \* (e)(1), 608-B 7.4: the row is ignored
                              THEN [s EXCEPT !.col = code.indent + 1, !.pen = pen, !.nopac = FALSE]
                              ELSE [s EXCEPT !.row = code.row, !.col = code.indent + 1, !.pen = pen, !.fresh = FALSE, !.nopac = FALSE]
    [] code.k = "MID" -> IF s.mode = "none" THEN s
                         \* (h)(1)(ii): the italics mid-row code keeps the colour, a colour mid-row code turns italics off;
                         \* (h)(1)(iii): every mid-row code turns flash off
                         ELSE LET s1 == [s EXCEPT !.pen.fg = IF code.it THEN @ ELSE code.fg, !.pen.ul = code.ul, !.pen.it = code.it, !.pen.fl = FALSE] IN
                              Put(s1, Glyph(s1, 32))
    [] code.k = "FON" -> IF s.mode = "none" THEN s
                         ELSE LET s1 == [s EXCEPT !.pen.fl = TRUE] IN Put(s1, Glyph(s1, 32))
    [] code.k = "BAO" -> IF s.mode = "none" THEN s
                         ELSE PutBack([s EXCEPT !.pen.bg = code.bg, !.pen.op = IF code.semi THEN 2 ELSE Opaque, !.tinted = TRUE])
    [] code.k = "BT"  -> IF s.mode = "none" THEN s ELSE PutBack([s EXCEPT !.pen.op = 1, !.tinted = TRUE])
    [] code.k = "FA"  -> IF s.mode = "none" THEN s ELSE PutBack([s EXCEPT !.pen.fg = 0, !.pen.ul = code.ul])
    [] code.k = "SPC" -> IF s.mode = "none" THEN s ELSE Put(s, Glyph(s, code.u))
    [] OTHER -> s

\* codes that are no visibility point: a special character is a printable character, BS / TOx / ENM show nothing; BT and
\* FA / FAU re-colour a space that was a completed word already (what they did shows at the next visibility point)
Quiet == {"SPC", "BS", "TO", "ENM", "BT", "FA"}
CapModes == {"RCL", "RU", "RDC", "EOC"}
TextModes == {"TR", "RTD"}
Producing == {"SPC", "MID", "FON", "BAO", "BT", "FA"}    \* codes that store a cell with the pen
ModeKinds == {"RCL", "RU", "RDC", "EOC", "TR", "RTD"}
CapSide == {"RCL", "RU", "RDC", "EOC", "EDM", "ENM"}       \* codes that name the caption channel whatever mode the field is in
Addressed == {"RCL", "RU", "RDC", "EOC", "TR", "RTD", "EDM", "ENM"}
BgKinds == {"BAO", "BT", "FA"}
Relative == {"SPC", "MID", "BS", "DER", "TO", "FON", "BAO", "BT", "FA"}

\* the channel a control pair for data channel d acts on
InText(f) == lm[f] > 4
TargetOf(d, code) == IF code.k \in TextModes THEN d + 4
                     ELSE IF code.k \in CapSide THEN d
                     ELSE IF InText(FieldOf(d)) THEN d + 4 ELSE d
\* the channel the pair addresses as far as the selection of the current channel goes: EDM / ENM do not end text mode
SelOf(d, code) == IF code.k \in {"EDM", "ENM"} /\ InText(FieldOf(d)) THEN d + 4 ELSE TargetOf(d, code)

\* a control pair for data channel d (field FieldOf(d)); on field 1 the immediate repetition of a pair is ignored
IsRep(d, code) == FieldOf(d) = 1 /\ last = <<d, code>>
Ctrl(d, code) ==
  LET f == FieldOf(d)
      rep == IsRep(d, code)
      t == TargetOf(d, code)
      mode == code.k \in ModeKinds
  IN /\ t \in Chans
     /\ np' = np + 1 /\ lastAct' = [a |-> "Ctrl", c |-> d, code |-> code, t |-> t]
     /\ last' = IF f = 1 THEN (IF rep THEN <<>> ELSE <<d, code>>) ELSE last
     /\ lm' = IF ~rep /\ mode THEN [lm EXCEPT ![f] = t] ELSE lm
     /\ dm' = IF ~rep /\ mode THEN [dm EXCEPT ![d] = IF t > 4 THEN "text" ELSE "cap"] ELSE dm
     /\ IF rep THEN UNCHANGED <<ch, cur>> /\ vis' = {} /\ ev' = {}
        ELSE /\ ch' = [ch EXCEPT ![t] = Do(@, code)]
             /\ cur' = [cur EXCEPT ![f] = SelOf(d, code)]
             \* visibility points: addressing and mode commands, erasures, end of caption, a spacing attribute (a space);
             \* not: the codes of Quiet
             /\ vis' = IF code.k \in Quiet THEN {} ELSE {t}
             /\ ev' = IF ch'[t].disp # ch[t].disp /\ code.k \notin Quiet THEN {t} ELSE {}

\* "rowpen": a cell is stored on a row that was started without PAC (CR, TR, RUx) while the pen carries flash or a
\* background attribute (608-B Annex C.14 / 6.2: a row without explicit attributes shows the defaults - the pen model and the
\* positional reading differ)
RowPen(s) == s.mode # "none" /\ s.nopac /\ (s.pen.fl \/ s.pen.bg # 0 \/ s.pen.op # Opaque)
\* Characters go to the channel the field's last control pair addressed.  Whether a PAC or mid-row code for the other
\* channel of the field re-selects the channel is read both ways (EIA-608-B 7.7 names the mode commands only): clause "select"
\* keeps to streams on which both readings agree.  "fresh": see Violated.
TextViolated(f) == IF cur[f] = 0 THEN {}
                   ELSE IF cur[f] # lm[f] THEN {"select"}
                   ELSE (IF ch[cur[f]].fresh /\ ch[cur[f]].mode # "none" THEN {"fresh"} ELSE {})
                        \cup (IF RowPen(ch[cur[f]]) THEN {"rowpen"} ELSE {})
\* a pair of printable characters on field f (second may be 0 = none)
Text(f, c1, c2) ==
  /\ np' = np + 1 /\ lastAct' = [a |-> "Text", f |-> f, c1 |-> c1, c2 |-> c2]
  /\ last' = IF f = 1 THEN <<>> ELSE last
  /\ UNCHANGED <<cur, lm, dm>>
  /\ TextViolated(f) \subseteq Beyond
  /\ IF cur[f] \notin Chans \/ ch[cur[f]].mode = "none" THEN UNCHANGED ch /\ vis' = {} /\ ev' = {}
     ELSE LET c == cur[f]
              s1 == Put(ch[c], Glyph(ch[c], c1))
              s2 == IF c2 = 0 THEN s1 ELSE Put(s1, Glyph(s1, c2))
              lastc == IF c2 = 0 THEN c1 ELSE c2
          IN /\ ch' = [ch EXCEPT ![c] = s2]
             /\ vis' = IF s2.mode # "pop" /\ lastc = 32 THEN {c} ELSE {}
             /\ ev' = IF s2.disp # ch[c].disp /\ lastc = 32 THEN {c} ELSE {}

\* a null (fill) pair; on field 1 it ends the window in which a control pair counts as repetition
Null(f) == /\ np' = np + 1 /\ lastAct' = [a |-> "Null", f |-> f]
           /\ last' = IF f = 1 THEN <<>> ELSE last
           /\ UNCHANGED <<ch, cur, lm, dm>> /\ vis' = {} /\ ev' = {}

K(k) == k \in Kinds
Codes == (IF K("RCL") THEN {[k |-> "RCL"]} ELSE {}) \cup (IF K("RDC") THEN {[k |-> "RDC"]} ELSE {})
         \cup (IF K("EOC") THEN {[k |-> "EOC"]} ELSE {}) \cup (IF K("EDM") THEN {[k |-> "EDM"]} ELSE {})
         \cup (IF K("ENM") THEN {[k |-> "ENM"]} ELSE {}) \cup (IF K("CR") THEN {[k |-> "CR"]} ELSE {})
         \cup (IF K("BS") THEN {[k |-> "BS"]} ELSE {}) \cup (IF K("DER") THEN {[k |-> "DER"]} ELSE {})
         \cup (IF K("RU") THEN {[k |-> "RU", n |-> n] : n \in Depths} ELSE {})
         \cup (IF K("TO") THEN {[k |-> "TO", n |-> n] : n \in Tabs} ELSE {})
         \cup (IF K("PAC") THEN {[k |-> "PAC", row |-> r, indent |-> i, fg |-> 7, ul |-> FALSE, it |-> FALSE] : r \in Rows, i \in Indents} ELSE {})
         \cup (IF K("PACX") THEN {[k |-> "PAC", row |-> r, indent |-> 0, fg |-> 2, ul |-> TRUE, it |-> FALSE] : r \in Rows}
                                 \cup {[k |-> "PAC", row |-> r, indent |-> 0, fg |-> 7, ul |-> FALSE, it |-> TRUE] : r \in Rows}
                                 \cup {[k |-> "PAC", row |-> r, indent |-> i, fg |-> 7, ul |-> TRUE, it |-> FALSE] : r \in Rows, i \in Indents \ {0}}
                            ELSE {})
         \cup (IF K("MID") THEN {[k |-> "MID", fg |-> 6, ul |-> FALSE, it |-> FALSE], [k |-> "MID", fg |-> 7, ul |-> TRUE, it |-> TRUE]} ELSE {})
         \cup (IF K("SPC") THEN {[k |-> "SPC", u |-> 174]} ELSE {})
         \cup (IF K("FON") THEN {[k |-> "FON"]} ELSE {})
         \cup (IF K("BAO") THEN {[k |-> "BAO", bg |-> 4, semi |-> FALSE], [k |-> "BAO", bg |-> 0, semi |-> TRUE]} ELSE {})
         \cup (IF K("BAOX") THEN {[k |-> "BAO", bg |-> b, semi |-> t] : b \in 0..7, t \in BOOLEAN} ELSE {})
         \cup (IF K("BT") THEN {[k |-> "BT"]} ELSE {})
         \cup (IF K("FA") THEN {[k |-> "FA", ul |-> FALSE], [k |-> "FA", ul |-> TRUE]} ELSE {})
         \cup (IF K("TR") THEN {[k |-> "TR"]} ELSE {}) \cup (IF K("RTD") THEN {[k |-> "RTD"]} ELSE {})

\* Inputs outside the sub-language this module decides: Violated names the clauses a control pair for data channel d breaks.
\* The clauses "move" .. "fresh" are places where caption.c is known to leave the standard (doc/notes-C08.md lists them with the
\* reason); the reference machine above still says what the standard demands there, and with the clause in Beyond the generators
\* produce such inputs too (the check then reports the divergence as the known finding of that clause).  The clauses after them
\* are inputs on which the standard can be read two ways or which it forbids the transmitter to send.
Cond(b, name) == IF b THEN {name} ELSE {}
FClass(f) == IF lm[f] = 0 THEN "none" ELSE IF lm[f] > 4 THEN "text" ELSE "cap"
Violated(d, code) ==
  LET t == TargetOf(d, code)
      s == ch[t]
      cell == IF s.col > 1 THEN GetMem(s)[s.row][s.col - 1] ELSE Empty
  IN
  \* "move": a PAC moves a roll-up window that is not empty (608: moved intact; caption.c erases it)
  Cond(code.k = "PAC" /\ s.mode = "roll" /\ ClampBase(code.row, s.roll) # s.base /\ s.disp # Mem0, "move")
  \* "resize": RUx with another depth while in roll-up mode (608: the window is resized; caption.c starts over on row 15)
  \cup Cond(code.k = "RU" /\ s.mode = "roll" /\ code.n # s.roll, "resize")
  \* "flip": EOC while the non-displayed memory still holds the caption displayed before (608: it comes back; caption.c erased it)
  \cup Cond(code.k = "EOC" /\ s.stale, "flip")
  \* "work": mode changes over memories that are not empty - EOC in roll-up / paint-on mode, RCL after roll-up / paint-on text,
  \* RDC over a loaded or displayed caption (caption.c uses the non-displayed memory as work buffer of roll-up and paint-on mode)
  \cup Cond(code.k = "EOC" /\ s.mode \in {"roll", "paint"}, "work")
  \cup Cond(code.k = "RCL" /\ s.mode \in {"roll", "paint"} /\ s.disp # Mem0, "work")
  \cup Cond(code.k = "RDC" /\ s.mode # "paint" /\ (s.nond # Mem0 \/ s.disp # Mem0), "work")
  \* "fresh": a cursor relative code directly after EOC, without PAC (608: the cursor stays; caption.c puts it on row 15 column 1)
  \cup Cond(code.k \in Relative /\ s.fresh /\ s.mode # "none", "fresh")
  \* "xmode": a code that is no mode command, for a data channel whose own last mode command was of the other class (caption /
  \* text) than the one the field is in now: it belongs to the text channel when the mode is kept per field, to the caption
  \* channel when it is kept per data channel (608-B 7.7 is read both ways; transmitters resume a service with a mode command)
  \cup Cond(code.k \notin Addressed /\ dm[d] # FClass(FieldOf(d))
            /\ ~(dm[d] = "none" /\ FClass(FieldOf(d)) # "text"), "xmode")
  \* "bgsp": 608-B 6.2 makes the transmitter send a standard space before a background / foreground attribute code (the code
  \* backspaces over it); without that space - column 1, or another cell left of the cursor - the code would erase a character
  \cup Cond(code.k \in BgKinds /\ s.mode # "none" /\ cell.u # 32, "bgsp")
  \* "bg32": in column 32 the machine does not tell whether column 32 was written (then the space to replace is in column 32,
  \* while Backspace erases column 31)
  \cup Cond(code.k \in BgKinds /\ s.mode # "none" /\ s.col = 32, "bg32")
  \* "fa": foreground black while italics or flash are on (6.2 does not say whether it ends them like a colour mid-row code)
  \cup Cond(code.k = "FA" /\ s.mode # "none" /\ (s.pen.it \/ s.pen.fl), "fa")
  \* "bgrow": a PAC into a row that holds cells with a background attribute (pen model: black opaque from the PAC on; positional
  \* reading of 6.2: the attribute of the cells to the left holds to the end of the row)
  \cup Cond(code.k = "PAC" /\ s.mode # "none" /\ s.tinted
            /\ \E k \in Cols : LET x == GetMem(s)[PacRow(s, code)][k] IN x.u # 0 /\ (x.bg # 0 \/ x.op # Opaque), "bgrow")
  \* "rowpen": see RowPen
  \cup Cond(code.k \in Producing /\ RowPen(s), "rowpen")
Legal(d, code) == Violated(d, code) \subseteq Beyond
\* a step whose code class is in KS
NextK(KS) == \/ \E d \in DChans, code \in {x \in Codes : x.k \in KS} :
                  TargetOf(d, code) \in Chans /\ (IsRep(d, code) \/ Legal(d, code)) /\ Ctrl(d, code)
             \/ "TEXT" \in KS /\ K("TEXT") /\ \E f \in Fields, c1 \in Chars, c2 \in Chars \cup {0} : Text(f, c1, c2)
             \/ "NULL" \in KS /\ K("NULL") /\ \E f \in Fields : Null(f)
Next == NextK(AllKinds)
Spec == Init /\ [][Next]_vars
Bounded == np < MaxPairs

-----------------------------------------------------------------------------
\* sanity of the reference machine
CursorOK == \A c \in Chans : ch[c].row \in 0..14 /\ ch[c].col \in 1..32
\* in pop-on mode the visible page changes only with EOC / EDM
PopOnStable == [][\A c \in Chans : (ch[c].mode = "pop" /\ ch'[c].mode = "pop" /\ ch'[c].disp # ch[c].disp) =>
                     (lastAct'.a = "Ctrl" /\ lastAct'.code.k \in {"EOC", "EDM"})]_vars
\* the roll-up window never leaves the screen, the cursor stays on its base row, nothing is displayed outside it
WindowOK == \A c \in Chans : ch[c].mode = "roll" =>
               /\ ch[c].base - ch[c].roll + 1 >= 0 /\ ch[c].base <= 14 /\ ch[c].row = ch[c].base
               /\ \A r \in 0..14 : (r > ch[c].base \/ r <= ch[c].base - ch[c].roll) => ch[c].disp[r] = Row0
\* only one repetition of a control pair is swallowed: a pair that arrives when nothing can be repeated is executed
\* and opens the window for its own repetition
OneRep == [][(lastAct'.a = "Ctrl" /\ last = <<>>) => (last' # <<>> \/ FieldOf(lastAct'.c) = 2)]_vars
\* characters and null pairs close the repetition window of field 1
RepWindow == [][(lastAct'.a \in {"Text", "Null"} /\ lastAct'.f = 1) => last' = <<>>]_vars
\* an executed DER leaves nothing at or right of the cursor; an executed BS changes at most the cell left of the cursor
Executed(k) == lastAct'.a = "Ctrl" /\ lastAct'.code.k = k /\ ~IsRep(lastAct'.c, lastAct'.code)
DerClears == [][Executed("DER") => LET s == ch'[lastAct'.t] IN
                   s.mode # "none" => \A k \in s.col..32 : GetMem(s)[s.row][k] = Empty]_vars
BsOne == [][Executed("BS") => LET s == ch[lastAct'.t] t == ch'[lastAct'.t] IN
               /\ t.col = (IF s.mode = "none" \/ s.col = 1 THEN s.col ELSE s.col - 1) /\ t.row = s.row
               /\ \A r \in 0..14, k \in Cols : (r # s.row \/ k # s.col - 1) => (t.disp[r][k] = s.disp[r][k] /\ t.nond[r][k] = s.nond[r][k])]_vars
\* text channels: always in text mode, nothing ever reaches a non-displayed memory, only CR and TR change the cursor row
TintedOK == \A c \in Chans : ~ch[c].tinted =>
               /\ ch[c].pen.bg = 0 /\ ch[c].pen.op = Opaque
               /\ \A r \in 0..14, k \in Cols : \A x \in {ch[c].disp[r][k], ch[c].nond[r][k]} : x.u # 0 => (x.bg = 0 /\ x.op = Opaque)
TextOK == \A c \in Chans : c > 4 => ch[c].mode = "text" /\ ch[c].nond = Mem0
TextRow == [][\A c \in Chans : (c > 4 /\ ch'[c].row # ch[c].row) => (lastAct'.a = "Ctrl" /\ lastAct'.code.k \in {"CR", "TR"})]_vars
\* an executed TR leaves an empty text memory with the cursor on the top left
RestartHomes == [][Executed("TR") => LET s == ch'[lastAct'.t] IN s.disp = Mem0 /\ s.row = 0 /\ s.col = 1]_vars
\* a pair changes one channel at most, a channel of its own field; EDM / ENM never touch a text channel and never change
\* the mode of the field (608-B Annex B.7)
OneChannel == [][\A c \in Chans : ch'[c] # ch[c] =>
                    /\ lastAct'.a \in {"Ctrl", "Text"}
                    /\ FieldOf(c) = (IF lastAct'.a = "Ctrl" THEN FieldOf(lastAct'.c) ELSE lastAct'.f)
                    /\ lastAct'.a = "Ctrl" => (c = lastAct'.t /\ (lastAct'.code.k \in {"EDM", "ENM"} => c <= 4 /\ lm' = lm))]_vars
\* flash is off after every executed PAC and mid-row code, on after Flash On; a PAC leaves a black opaque background
FlashRule == [][/\ (Executed("PAC") \/ Executed("MID")) => (ch'[lastAct'.t].mode = "none" \/ ~ch'[lastAct'.t].pen.fl)
                /\ Executed("FON") => (ch'[lastAct'.t].mode = "none" \/ ch'[lastAct'.t].pen.fl)
                /\ Executed("PAC") => (ch'[lastAct'.t].mode = "none" \/ (ch'[lastAct'.t].pen.bg = 0 /\ ch'[lastAct'.t].pen.op = Opaque))]_vars
\* a legal background / foreground attribute code changes exactly the cell left of the cursor (a space before and after)
\* and leaves the cursor where it was
BackspaceIn == [][(Executed("BAO") \/ Executed("BT") \/ Executed("FA")) =>
                     LET s == ch[lastAct'.t] t == ch'[lastAct'.t] IN
                     s.mode # "none" => /\ t.col = s.col /\ t.row = s.row
                                        /\ GetMem(t)[s.row][s.col - 1].u = 32 /\ GetMem(s)[s.row][s.col - 1].u = 32
                                        /\ \A r \in 0..14, k \in Cols : (r # s.row \/ k # s.col - 1) => GetMem(t)[r][k] = GetMem(s)[r][k]]_vars
=============================================================================
