CONSTANTS Pages <- EdgePagesQ Formats = {"RGBA32_LE"} Strides = {"any"} MaxDraws = 1 Clip = "inside"
SPECIFICATION Spec
PROPERTIES Frame
CHECK_DEADLOCK FALSE
