--------------------------- MODULE MC_RawDecoder ---------------------------
(* Constants for model checking RawDecoder: geometries around the lines where the service table
   has its edges, sets of services offered to add/remove, sampling rates on both sides of the
   admission limits. *)
EXTENDS RawDecoder

G(std, s1, s2, t1, t2, c1, c2, il, sync, swap) ==
  [std |-> std, start |-> <<s1, s2>>, tstart |-> <<t1, t2>>, count |-> <<c1, c2>>, il |-> il, sync |-> sync, swap |-> swap]

\* 625 line systems
PalVps    == G(625, 15, 328, 15, 328, 2, 2, FALSE, TRUE, FALSE)     \* 15 16 | 328 329: VPS, pseudo VPS, Teletext
PalHi     == G(625, 21, 334, 21, 334, 3, 2, FALSE, TRUE, FALSE)     \* 21 22 23 | 334 335: Teletext, caption, WSS
PalLo     == G(625,  6, 318,  6, 318, 2, 3, FALSE, TRUE, FALSE)     \* 6 7 | 318 319 320: level 2.5 / 1.0 edge
PalF1     == G(625, 22,   0, 22,   0, 2, 0, FALSE, TRUE, FALSE)     \* one field only
PalBlind  == G(625,  0,   0, 22, 334, 2, 2, FALSE, TRUE, FALSE)     \* line numbers unknown (22 23 | 334 335)
PalIl     == G(625, 21, 334, 21, 334, 2, 2, TRUE,  TRUE, FALSE)     \* interlaced storage
PalAsync  == G(625, 21, 334, 21, 334, 2, 2, FALSE, FALSE, FALSE)    \* field order unknown ...
PalAsyncX == G(625, 21, 334, 21, 334, 2, 2, FALSE, FALSE, TRUE)     \* ... and really swapped
PalBad    == G(625, 21, 334, 21, 334, 2, 1, TRUE,  TRUE, FALSE)     \* invalid: interlaced, unequal counts
PalWide   == G(625, 15, 328, 15, 328, 9, 8, FALSE, TRUE, FALSE)     \* 15..23 | 328..335

GeomsPalQ == {PalVps, PalHi, PalLo, PalBlind, PalAsyncX, PalBad}
GeomsPalT == {PalVps, PalHi, PalLo, PalF1, PalBlind, PalIl, PalAsync, PalAsyncX, PalBad}
GeomsPalS == GeomsPalT \cup {PalWide}
GeomsPalW == {PalWide, PalLo, PalAsync}
UsePal    == {"TTX_B_L10", "TTX_B", "VPS", "VPS_F2", "WSS_625", "CC_625_F1", "CC_625_F2"}
UsePalAll == UsePal \cup {"TTX_A", "TTX_C_625", "TTX_D_625"}
AddPalQ   == {{"L10", "L25"}, {"VPS", "VPS2"}, {"WSS"}, {"CC625_1", "CC625_2"}, {"CC625_2"}, {"L25"}}
AddPalWhole == {{"L10", "L25", "VPS", "VPS2"}, {"L10", "L25"}, {"VPS", "VPS2"}, {"WSS"}, {"CC625_1", "CC625_2"}}      \* merged services only as a whole
AddPalT   == AddPalQ \cup {{"L10"}, {"VPS"}, {"CC625_1"}, {"A", "D625"}, {"L10", "L25", "VPS", "VPS2", "WSS", "CC625_1", "CC625_2", "A", "C625", "D625"}}

\* 525 line systems
NtscHi    == G(525, 20, 283, 20, 283, 2, 2, FALSE, TRUE, FALSE)     \* 20 21 | 283 284
NtscLo    == G(525, 10, 272, 10, 272, 2, 2, FALSE, TRUE, FALSE)
NtscF2    == G(525,  0, 284,  0, 284, 0, 1, FALSE, TRUE, FALSE)     \* second field only
NtscIl    == G(525, 20, 283, 20, 283, 2, 2, TRUE,  TRUE, FALSE)
NtscAsync == G(525, 20, 283, 20, 283, 2, 2, FALSE, FALSE, TRUE)
NtscBlind == G(525,  0,   0, 20, 283, 2, 2, FALSE, TRUE, FALSE)
NtscBad   == G(525, 20, 283, 20, 283, 244, 2, FALSE, TRUE, FALSE)   \* invalid: beyond line 262
GeomsNtsc == {NtscHi, NtscLo, NtscF2, NtscIl, NtscAsync, NtscBlind, NtscBad}
GeomsNtscQ == {NtscHi, NtscF2, NtscAsync, NtscBlind, NtscBad}
UseNtsc   == {"TTX_B_525", "TTX_C_525", "TTX_D_525", "CC_525_F1", "CC_525_F2", "CC_2X_525"}
AddNtsc   == {{"B525"}, {"CC525_1", "CC525_2"}, {"CC525_1"}, {"CC525_2"}, {"CC2X"}, {"C525", "D525"}, {"B525", "CC525_1", "CC525_2", "CC2X"}}

\* BT.601, a rate where only caption is admitted, one where Teletext is too fast, one line too short for strict > 0
Rates  == << [rate |-> 13500000, spl |-> 720], [rate |-> 4000000, spl |-> 240], [rate |-> 10200000, spl |-> 544],
             [rate |-> 27000000, spl |-> 1380] >>
Rate1  == << [rate |-> 13500000, spl |-> 720] >>
ASSUME \A k \in 1..Len(Rates) : Robust(Rates[k])
=============================================================================
