----------------------------- MODULE SlicerCfgs -----------------------------
(* Sample (caption 525 at 27 MHz, low-pass; Teletext B at 13.5 MHz, new slicer Y8 and legacy slicer RGBA32)
   of the configuration list that checks/c05.py generates from the real slicer objects
   (harness/drv_rawdec.c, command D).  One record per configured slicer:
   lp 1 = low-pass variant, skip = byte offset of the first sampled channel byte, bps = bytes per
   sample, wide 1 = the channel straddles both bytes of a 16 bit pixel, scan = number of scan steps,
   phase_shift / step in 1/256 samples, payload in bits (endian >= 2) or octets, spl = samples per
   line, soff = samples skipped at the line start, id = index in the check's list,
   scan = search limit as a SIGNED number (cri_samples / cri_bytes), ok 0 = vbi3_bit_slicer_set_params
   refused the parameters (the other fields are then meaningless).  Records 4-6: Teletext B in a line
   of 100 samples - refused by the new interface, a search of 0 steps in the legacy slicer - and what
   the legacy slicer would hold without its clamp to zero (-256: LineBound is violated).       *)
EXTENDS Integers
CfgList == <<
  [id |-> 1, lp |-> 1, skip |-> 0, bps |-> 1, wide |-> 0, scan |-> 579, phase_shift |-> 10424, step |-> 13728, frc_bits |-> 0, payload |-> 2, endian |-> 1, spl |-> 1440, soff |-> 0, ok |-> 1],
  [id |-> 2, lp |-> 0, skip |-> 0, bps |-> 1, wide |-> 0, scan |-> 54, phase_shift |-> 626, step |-> 498, frc_bits |-> 6, payload |-> 42, endian |-> 1, spl |-> 720, soff |-> 0, ok |-> 1],
  [id |-> 3, lp |-> 0, skip |-> 2, bps |-> 4, wide |-> 0, scan |-> 54, phase_shift |-> 626, step |-> 498, frc_bits |-> 6, payload |-> 42, endian |-> 1, spl |-> 720, soff |-> 0, ok |-> 1],
  [id |-> 4, lp |-> 0, skip |-> 0, bps |-> 1, wide |-> 0, scan |-> 0, phase_shift |-> 0, step |-> 0, frc_bits |-> 0, payload |-> 0, endian |-> 0, spl |-> 100, soff |-> 0, ok |-> 0],
  [id |-> 5, lp |-> 0, skip |-> 0, bps |-> 1, wide |-> 0, scan |-> 0, phase_shift |-> 626, step |-> 498, frc_bits |-> 6, payload |-> 42, endian |-> 1, spl |-> 100, soff |-> 0, ok |-> 1]
>>
\* [id |-> 6, lp |-> 0, skip |-> 0, bps |-> 1, wide |-> 0, scan |-> -256, phase_shift |-> 626, step |-> 498, frc_bits |-> 6, payload |-> 42, endian |-> 1, spl |-> 100, soff |-> 0, ok |-> 1]
=============================================================================
