CONSTANTS Entries = {"MEM", "ALLOC", "FP", "FILE"} CallerSizes = {0, 4095, 4097, 8200} WSizes = {1, 4095, 4096} PSizes = {300} GSizes = {5000}
  FastAt = 4096 Slack = {0} MaxOps = 3 CarryOver = TRUE SwitchOnOverflow = TRUE
SPECIFICATION GSpec
VIEW gview
CONSTRAINT Dump
CHECK_DEADLOCK FALSE
