---------------------------- MODULE Gen_PilTime ----------------------------
(* Prints the exploration grid of the model (reference instants, offsets) so that the recorder is
   driven over exactly the grid TLC checked the specification on. *)
EXTENDS MC_PilTime, Json, SequencesExt
GInit == /\ tz = "U" /\ at1 = (CHOOSE r \in Refs : TRUE) /\ call = [fn |-> "none"]
         /\ PrintT(<<"TR", ToJson([refs |-> SetToSeq(Refs), offs |-> SetToSeq(Offsets), far |-> SetToSeq(RefsFar),
                                   zones |-> SetToSeq(DOMAIN FixedZone), reject |-> SetToSeq(RejectZones)])>>)
GNext == UNCHANGED vars
GSpec == GInit /\ [][GNext]_vars
=============================================================================
