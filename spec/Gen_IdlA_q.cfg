CONSTANTS Formats = {0, 2, 4, 6, 8, 10, 12, 14} SpaLens = {0, 2, 3, 6} StartCi = {0, 254} PayCi = {0, 9, 255} ForeignLens = {2, 3} Bursts = {2, 16, 240, 255} MaxPk = 3
  Modes = {"cont", "unit", "pay", "mix"} ContFull = FALSE
  Listen <- ListenQ
  Pays <- PaysQ
SPECIFICATION GSpec
VIEW gview
CONSTRAINT Dump
PROPERTIES FlagOnlyAfterLoss FlagAfterLoss NothingForeign DeliveredIff DepPassed MixNeutral
CHECK_DEADLOCK FALSE
