CONSTANTS Lens = {0, 1, 30} Formats = {"ci", "ci+dl", "impl", "impl+dl"} SpaLens = {3, 6} StartCi = {0, 254} Bursts = {2, 16, 240, 255} MaxPk = 3
SPECIFICATION GSpec
VIEW gview
CONSTRAINT Dump
CHECK_DEADLOCK FALSE
