---------------------------- MODULE Trace_DvbMux ----------------------------
(* Trace validation for property C06 with the real layout constants.  harness/drv_dvb.c runs the REAL
   multiplexer on frames, configurations and time stamps chosen by the check and logs, per call, the
   return value and the emitted bytes exactly as the callback / the coroutine buffer received them (no
   parsing in the driver); the emitted bytes are then fed to the REAL demultiplexer and its deliveries
   are logged.  Every legality rule lives here:

     mux     vbi_dvb_pes_mux_new / vbi_dvb_ts_mux_new + set_data_identifier + set_pes_packet_size:
             the getters report the requested data_identifier (if legal) and the rounded sizes
     send    vbi_dvb_mux_feed: accepted -> one conformant PES packet (DvbStream.PesConformant: size,
             header, PTS, data units, stuffing) carrying exactly the lines handed in, in order, raw lines
             as adjacent sample segments with the samples of the raw frame; TS: 188 byte packets with PID,
             payload_unit_start on the first, consecutive continuity counters across frames;
             rejected -> nothing emitted, nothing changed, and only if the frame need not be accepted
     csend   vbi_dvb_mux_cor with the logged buffer sizes: the same rules on the concatenated output
     cpart   ONE vbi_dvb_mux_cor call with a buffer of b bytes: the bytes of the calls of a frame are
             collected; when the frame is used up (left = 0) the rules of send apply to all of them FOR THE
             CONFIGURATION IN FORCE AT THE FIRST CALL of the frame - the one the packet was generated under
     setdid  vbi_dvb_mux_set_data_identifier between two calls (also while a packet is partly delivered):
             TRUE and the getter follows iff the value is in 0x10-0x1F / 0x99-0x9B, else FALSE and no change;
             it takes effect for the packets generated after it
     setsize vbi_dvb_mux_set_pes_packet_size between two calls: the getters report the rounded sizes
     mreset  vbi_dvb_mux_reset: the property does not say where the continuity counter goes on (libzvbi steps
             back by one "to make clear that continuity was lost"): any value, consecutive from there
     same    a run marked cmp must emit, accepted frame by accepted frame, the bytes of the previous run
             (callback vs coroutine; with vs without the rejected frames)
     demux   the frames the real demultiplexer delivered for all bytes emitted so far: the accepted
             frames, lines / ids / payload bits / PTS, the last frame pending                        *)
EXTENDS DvbMuxRules, Json, IOUtils

Log == ndJsonDeserialize(IOEnv.TRACEFILE)
VARIABLES l, c, cc, sent, pes, tsb, outs, refouts, rawpar, resets,
          acc,      \* bytes of the coroutine calls of the frame in delivery (cpart)
          gc        \* the configuration that frame's packet was generated under
tvars == <<l, c, cc, sent, pes, tsb, outs, refouts, rawpar, resets, acc, gc>>
Ev == Log[l]

RawDefault == [offset |-> 132, samples |-> 720]
\* the raw frame of the driver: 17 + 17 rows from lines 7 and 320, sample i of row r = (37 r + 5 i + 16) mod 256
Row(line) == IF line < 313 THEN line - 7 ELSE 17 + (line - 320)
RealSample(line, i) == (37 * Row(line) + 5 * i + 16) % 256

TMux == /\ Ev.a = "mux" /\ Ev.ok
        /\ Ev.did_ok = DidLegal(Ev.req.did) /\ Ev.size_ok
        /\ Ev.did = (IF DidLegal(Ev.req.did) THEN Ev.req.did ELSE 16)
        /\ <<Ev.min, Ev.max>> = RoundSizes(Ev.req.min, Ev.req.max)
        /\ c' = [ts |-> Ev.ts, pid |-> Ev.pid, did |-> Ev.did, min |-> Ev.min, max |-> Ev.max]
        /\ cc' = 0 /\ sent' = <<>> /\ pes' = <<>> /\ tsb' = <<>> /\ rawpar' = RawDefault /\ resets' = 0
        /\ refouts' = (IF Ev.cmp THEN outs ELSE <<>>) /\ outs' = <<>> /\ acc' = <<>> /\ gc' = c'
TRawPar == /\ Ev.a = "rawpar" /\ rawpar' = [offset |-> Ev.offset, samples |-> Ev.samples]
           /\ UNCHANGED <<c, cc, sent, pes, tsb, outs, refouts, resets, acc, gc>>

PesCfg(g) == [did |-> g.did, min |-> g.min, max |-> g.max]
RawWanted(frame) == [i \in 1..Len(RawItems(frame)) |->
                       [line |-> RawItems(frame)[i].line, pos |-> rawpar.offset - 132,
                        ys |-> [k \in 1..rawpar.samples |-> RealSample(RawItems(frame)[i].line, k - 1)]]]
PacketOK(g, X, frame, pts) ==
  /\ PesConformant(X, PesCfg(g), pts)
  /\ Ascending(LineSeq(X))
  /\ Carried(X) = [j \in 1..Len(Sliced(frame)) |-> NormLine(Sliced(frame)[j])]
  /\ RawOf(X).ok /\ RawOf(X).lines = RawWanted(frame)

CutTs(b) == [i \in 1..(Len(b) \div TSL) |-> [h |-> SubSeq(b, (i - 1) * TSL + 1, (i - 1) * TSL + 4),
                                              pay |-> SubSeq(b, (i - 1) * TSL + 5, i * TSL)]]
Payload(T) == Cat([i \in 1..Len(T) |-> T[i].pay])

\* bytes = everything emitted for the frame, g = the configuration in force when it was handed in
EmittedC(g, frame, pts, ok, bytes) ==
  IF ~ok
  THEN /\ bytes = <<>> /\ ~MustAcceptN(frame, g, rawpar.samples)
       /\ UNCHANGED <<cc, sent, pes, tsb, outs>>
  ELSE /\ ~MustRejectN(frame, g, rawpar.samples)
       /\ LET X == IF c.ts THEN Payload(CutTs(bytes)) ELSE bytes IN
          /\ c.ts => Len(bytes) % TSL = 0 /\ Len(bytes) > 0
                      /\ TsConformant(CutTs(bytes), X, c.pid, IF cc < 0 THEN bytes[4] % 16 ELSE cc)
          /\ PacketOK(g, X, frame, <<pts[1] % 8, pts[2]>>)
          /\ cc' = (IF c.ts THEN ((IF cc < 0 THEN bytes[4] % 16 ELSE cc) + Len(bytes) \div TSL) % 16 ELSE cc)
          /\ pes' = pes \o X /\ tsb' = (IF c.ts THEN tsb \o bytes ELSE tsb)
          /\ sent' = Append(sent, [lines |-> [j \in 1..Len(Sliced(frame)) |-> NormLine(Sliced(frame)[j])], pts |-> <<pts[1] % 8, pts[2]>>])
       /\ outs' = Append(outs, bytes)
       /\ refouts # <<>> => Len(outs) < Len(refouts) /\ refouts[Len(outs) + 1] = bytes

Emitted(frame, pts, ok, bytes) == EmittedC(c, frame, pts, ok, bytes)

TSend == /\ Ev.a = "send"
         /\ (c.ts /\ Ev.ok) => \A i \in 1..Len(Ev.pk) : Len(Ev.pk[i]) = TSL        \* one callback per transport packet
         /\ (~c.ts /\ Ev.ok) => Len(Ev.pk) = 1                                    \* one callback per PES packet
         /\ Emitted(Ev.frame, Ev.pts, Ev.ok, Cat(Ev.pk))
         /\ UNCHANGED <<c, refouts, rawpar, resets, acc, gc>>
TCsend == /\ Ev.a = "csend"
          /\ Ev.ok => Ev.left = 0
          /\ Emitted(Ev.frame, Ev.pts, Ev.ok, Ev.out)
          /\ UNCHANGED <<c, refouts, rawpar, resets, acc, gc>>
(* one coroutine call.  acc = <<>>: the first call of the frame (a successful call with room stores at
   least one byte) - the packet is generated now, under c.  Later calls only hand out the rest. *)
TCpart == /\ Ev.a = "cpart"
          /\ LET g == IF acc = <<>> THEN c ELSE gc
                 bytes == acc \o Ev.out IN
             IF Ev.ok /\ Ev.left > 0
             THEN /\ Ev.out # <<>> /\ Len(Ev.out) = Ev.b                 \* more to come: the buffer was filled
                  /\ acc' = bytes /\ gc' = g
                  /\ UNCHANGED <<cc, sent, pes, tsb, outs>>
             ELSE /\ Ev.ok => (Len(Ev.out) <= Ev.b /\ Ev.out # <<>>)
                  /\ EmittedC(g, Ev.frame, Ev.pts, Ev.ok, bytes)
                  /\ acc' = <<>> /\ gc' = g
          /\ UNCHANGED <<c, refouts, rawpar, resets>>
TSetDid == /\ Ev.a = "setdid"
           /\ Ev.ok = DidLegal(Ev.req)
           /\ Ev.did = (IF DidLegal(Ev.req) THEN Ev.req ELSE c.did)
           /\ c' = [c EXCEPT !.did = Ev.did]
           /\ UNCHANGED <<cc, sent, pes, tsb, outs, refouts, rawpar, resets, acc, gc>>
TSetSize == /\ Ev.a = "setsize" /\ Ev.ok
            /\ <<Ev.min, Ev.max>> = RoundSizes(Ev.req[1], Ev.req[2])
            /\ c' = [c EXCEPT !.min = Ev.min, !.max = Ev.max]
            /\ UNCHANGED <<cc, sent, pes, tsb, outs, refouts, rawpar, resets, acc, gc>>
TReset == /\ Ev.a = "mreset" /\ cc' = -1 /\ resets' = resets + 1
          /\ UNCHANGED <<c, sent, pes, tsb, outs, refouts, rawpar, acc, gc>>

NormF(fr) == [i \in 1..Len(fr) |-> [pts |-> <<fr[i].pts[1] % 8, fr[i].pts[2]>>,
                                      lines |-> [j \in 1..Len(fr[i].lines) |-> NormLine(fr[i].lines[j])]]]
Wanted == SubSeq(sent, 1, Len(sent) - 1)
(* route "pes": the PES bytes (TS: the payloads of the transport packets) through vbi_dvb_pes_demux_new;
   route "ts": the TS bytes through the internal _vbi_dvb_ts_demux_new - it needs 197 bytes to find
   the packet boundaries and does not examine a PES packet that is complete by then (one of 184 bytes) *)
TDemux == /\ Ev.a = "demux"
          /\ Ev.n = (IF Ev.route = "ts" THEN Len(tsb) ELSE Len(pes))
          /\ IF Ev.route = "pes"
             THEN /\ NormF(Ev.d) = Wanted
                  /\ NormF(Frames(pes, Len(pes), "err")) = Wanted
             ELSE /\ resets = 0
                  /\ NormF(Ev.d) = (IF Len(Wanted) > 0 /\ PLen(pes, 0) + 6 = TSP THEN Tail(Wanted) ELSE Wanted)
                  /\ NormF(Feed(tsb, S0(TRUE, TRUE, c.pid, "all"), Len(tsb)).d.out) = NormF(Ev.d)
          /\ UNCHANGED <<c, cc, sent, pes, tsb, outs, refouts, rawpar, resets, acc, gc>>

\* end of a run: a compared run has emitted as many packets as the run before it
TDone == /\ Ev.a = "done" /\ (refouts # <<>> => Len(outs) = Len(refouts)) /\ acc = <<>>
         /\ UNCHANGED <<c, cc, sent, pes, tsb, outs, refouts, rawpar, resets, acc, gc>>

TNext == l <= Len(Log) /\ l' = l + 1 /\ (TMux \/ TRawPar \/ TSend \/ TCsend \/ TCpart \/ TSetDid \/ TSetSize \/ TReset \/ TDemux \/ TDone)
TInit == /\ l = 1 /\ c = [ts |-> FALSE, pid |-> 0, did |-> 16, min |-> TSP, max |-> MaxPes] /\ cc = 0 /\ sent = <<>>
         /\ pes = <<>> /\ tsb = <<>> /\ outs = <<>> /\ refouts = <<>> /\ rawpar = RawDefault /\ resets = 0 /\ acc = <<>>
         /\ gc = [ts |-> FALSE, pid |-> 0, did |-> 16, min |-> TSP, max |-> MaxPes]
TSpec == TInit /\ [][TNext]_tvars

TraceAccepted == LET n == TLCGet("stats").diameter - 1 IN
                 IF n = Len(Log) THEN TRUE
                 ELSE PrintT(<<"TV-REJECT", n + 1, Len(Log)>>) /\ FALSE
=============================================================================
