\* random walks over captions and text: CC1, T1, T2 on field 1, CC3, T3 on field 2; services resumed with their mode commands
CONSTANTS Chans = {1, 5, 6, 3, 7} Rows = {0, 7, 14} Chars = {65, 98, 32} MaxPairs = 40
  Indents = {0, 8, 28} Depths = {2, 3} Tabs = {1, 2, 3}
  Kinds = {"RCL", "RDC", "EOC", "EDM", "ENM", "CR", "BS", "DER", "RU", "TO", "PAC", "PACX", "MID", "SPC", "NULL", "TEXT",
           "FON", "BAO", "BT", "FA", "TR", "RTD"}
  Beyond = {}
  Mix <- MixText Bursts <- BurstsWalk
SPECIFICATION GSpec
INVARIANT Dump
CHECK_DEADLOCK FALSE
