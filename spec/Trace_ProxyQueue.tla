--------------------------- MODULE Trace_ProxyQueue ---------------------------
(* Trace validation for ProxyQueue.  The log is built by checks/c18.py from the daemon's own action trace
   (hooks in daemon/proxyd.c, ordered by its sequence counter) and from what the clients received (through the
   client library or a raw socket).  One line = one step of the specification:

     accept   c                       connection accepted
     connect  c srv strict st         CONNECT_REQ (services by name, strictness as sent) and the state after it
     service  c srv strict reset discard st   SERVICE_REQ; discard: the client library threw away its unread frames
     drop     c st                    connection closed and removed
     reject   c st                    CONNECT_REQ for services the device has none of: processed (service update), refused,
                                      connection closed and removed
     part     c                       a message of c received in part: the connection is in its read phase
     other    c t st                  a complete message without effect on the data path taken (token request, notify,
                                      ioctl, suspend, reclaim confirmation): read phase over
     overflow                         vbi_proxyd_forward_data found no buffer for the next frame ("queue overflow"):
                                      never a step of the specification (CanCapture)
     state    st                      (thread variant) the state dump of the preceding connect / service / drop line,
                                      when the acquisition thread restarted by it had to force a buffer free first
                                      (chk = FALSE on that line, the fetch line in between)
     tick     id lines n refs forced blk quiet
                                      frame captured with these lines (n records), ref_count, the clients that
                                      lost the head buffer (force-free), the connections that were write-blocked
                                      when the daemon last went idle; quiet = the frame arrived while it was idle
     fetch    forced                  thread variant: the acquisition thread forced the head buffer free before
                                      waiting for the next frame
     send     c id n                  frame queued for / written to c with n records
     read     c id lines              client c received a frame (timestamp = id) with these lines; the harness
                                      has compared the payload with the synthetic device's
     end      kept                    end of the run: these clients have read everything
     reset                            new daemon process

   The state dump [fd, state, token, prio, services, cursor] per connection, device open, device services and
   the queue as [id, ref_count] must equal the specification's next state. *)
EXTENDS ProxyQueue, Integers, Json, IOUtils

Log == ndJsonDeserialize(IOEnv.TRACEFILE)
VARIABLE l
tvars == <<vars, l>>
Ev == Log[l]

SetOf(s) == {s[i] : i \in 1..Len(s)}
\* strictness -1..2 as level 0..3; the daemon clamps what it gets
Level(st) == IF st < -1 THEN 0 ELSE IF st > 2 THEN 3 ELSE st + 1
\* records per service on the synthetic device (Teletext: lines 7 and 8)
NLines(sv) == Cardinality(sv) + (IF "ttx" \in sv THEN 1 ELSE 0)

DumpOK ==
  LET cl == Ev.st.clients  qu == Ev.st.queue IN
  /\ \A c \in Clients : (conn'[c] # "none") <=> (\E i \in 1..Len(cl) : cl[i][1] = c)
  /\ \A i \in 1..Len(cl) :
        LET c == cl[i][1] IN
        /\ conn'[c] = (IF cl[i][2] = 0 THEN "wait" ELSE "fwd")
        /\ granted'[c] = SetOf(cl[i][5])
        /\ IF cl[i][6] = -1 THEN cur'[c] = 0 ELSE cur'[c] # 0 /\ queue'[cur'[c]].id = cl[i][6]
  /\ (Ev.st.open = 1) <=> open'
  /\ open' => devsrv' = SetOf(Ev.st.devsrv)
  /\ Len(queue') = Len(qu)
  /\ \A i \in 1..Len(qu) : queue'[i].id = qu[i][1] /\ queue'[i].ref = qu[i][2]

Forced == {Ev.forced[i][1] : i \in 1..Len(Ev.forced)}
\* exactly the clients the specification moves on lost exactly the head frame
ForcedOK == /\ Forced = TakeBuffer.victims
            /\ \A i \in 1..Len(Ev.forced) : Ev.forced[i][2] = queue[1].id
FrameOK == /\ frame' = Ev.id
           /\ SetOf(Ev.lines) = devsrv /\ Ev.n = NLines(devsrv)
           /\ Ev.refs = Cardinality({c \in Clients : Subscribed(c)})

\* select variant: frame captured (with the clients that lost the head buffer for it)
TTick == /\ Tick(SetOf(Ev.blk), Ev.quiet) /\ ForcedOK /\ FrameOK
\* thread variant: the acquisition thread had to force a buffer free (logged only then) ...
TFetch == Fetch /\ Forced # {} /\ ForcedOK
\* ... frame captured; if no buffer was forced free since the last frame, the buffer was taken silently
TCapture == Capture(~tmp) /\ Ev.forced = <<>> /\ FrameOK

TSend == /\ Send(Ev.c)
         /\ Ev.id = queue[cur[Ev.c]].id
         /\ Ev.n = NLines(queue[cur[Ev.c]].lines \cap granted[Ev.c])

TRead == /\ Read(Ev.c)
         /\ Head(sock[Ev.c]).id = Ev.id /\ Head(sock[Ev.c]).lines = SetOf(Ev.lines)
         \* the oldest frame owed to the client
         /\ owed[Ev.c] # <<>> /\ Head(owed[Ev.c]) = Ev.id

TEnd == /\ \A c \in SetOf(Ev.kept) : sock[c] = <<>> /\ cur[c] = 0 /\ owed[c] = <<>>
        /\ UNCHANGED vars

TReset == /\ conn' = [c \in Clients |-> "none"] /\ req' = [c \in Clients |-> NoReq]
          /\ granted' = [c \in Clients |-> {}] /\ open' = FALSE /\ devsrv' = {}
          /\ queue' = <<>> /\ nfree' = 0 /\ cur' = [c \in Clients |-> 0] /\ frame' = 0
          /\ sock' = [c \in Clients |-> <<>>] /\ tmp' = FALSE /\ owed' = [c \in Clients |-> <<>>]
          /\ rdp' = [c \in Clients |-> FALSE]

TNext == /\ l <= Len(Log) /\ l' = l + 1
         /\ \/ Ev.e = "accept" /\ Accept(Ev.c)
            \/ Ev.e = "connect" /\ Connect(Ev.c, SetOf(Ev.srv), Level(Ev.strict)) /\ (Ev.chk => DumpOK)
            \/ Ev.e = "service" /\ ServiceReq(Ev.c, SetOf(Ev.srv), Level(Ev.strict), Ev.reset, Ev.discard) /\ (Ev.chk => DumpOK)
            \/ Ev.e = "drop" /\ Disconnect(Ev.c) /\ (Ev.chk => DumpOK)
            \/ Ev.e = "reject" /\ ConnectRej(Ev.c) /\ (Ev.chk => DumpOK)
            \/ Ev.e = "state" /\ UNCHANGED vars /\ DumpOK
            \/ Ev.e = "part" /\ Partial(Ev.c)
            \/ Ev.e = "other" /\ Other(Ev.c) /\ (Ev.chk => DumpOK)
            \/ Ev.e = "overflow" /\ ~TakeBuffer.ok /\ UNCHANGED vars
            \/ Ev.e = "tick" /\ (IF Threaded THEN TCapture ELSE TTick)
            \/ Ev.e = "fetch" /\ TFetch
            \/ Ev.e = "send" /\ TSend
            \/ Ev.e = "read" /\ TRead
            \/ Ev.e = "end" /\ TEnd
            \/ Ev.e = "reset" /\ TReset

TInit == Init /\ l = 1
TSpec == TInit /\ [][TNext]_tvars

TraceAccepted == LET n == TLCGet("stats").diameter - 1 IN
                 IF n = Len(Log) THEN TRUE
                 ELSE PrintT(<<"TV-REJECT", n + 1, Len(Log)>>) /\ FALSE
=============================================================================
