--------------------------- MODULE Gen_SlicedFilter ---------------------------
(* Behaviours for harness/drv_slicedfilter.c: configuration calls, resets and frames with the result the
   specification predicts for each call (kept lines as indices into the frame, success, lines read). *)
EXTENDS SlicedFilter, Json
VARIABLE trace
CONSTANT Depth
tvars == <<fvars, trace>>
tview == <<pt, svc, sys, serial, keep, start, hist, frame, out, failAt, stale, nconf, nframes>>

GBadPages == {0 - 1, 255, 2304}
GBadSubs == {0 - 1, 16256}

IsLineStep == Len(frame') > Len(frame)
Rec == IF res'.call = "filter" THEN [res' EXCEPT !.call = "filter"] @@ [frame |-> frame, serial |-> serial, fail |-> failAt] ELSE res'
TInit == FInit /\ trace = <<>>
TNext == FNext /\ trace' = IF IsLineStep THEN trace ELSE Append(trace, Rec)
TSpec == TInit /\ [][TNext]_tvars

(* random walks: the kind of step is drawn first *)
ConfStep == \/ \E S \in (SUBSET AllSvc) \ {{}} : KeepServices(S) \/ DropServices(S)
            \/ KeepTtxPages \/ DropTtxPages \/ KeepTtxPage \/ DropTtxPage
            \/ KeepTtxSubpages \/ DropTtxSubpages \/ KeepTtxSubpage \/ DropTtxSubpage
            \/ \E b \in BOOLEAN : KeepSystemPages(b)
LineStep(S) == \E l \in S : \/ PassThrough(l) \/ OtherService(l) \/ Header(l) \/ PagePacket(l) \/ TimeFilling(l)
                            \/ NoPagePacket(l) \/ Damaged(l) \/ Unread(l)
RStep == \E k \in {RandomElement({j \in 1..20 : nframes >= 0})} :   \* bound once; mentions a variable: a constant expression is evaluated once only
            IF k <= 3 /\ Idle /\ nconf < MaxConf
            THEN \E c \in {RandomElement({j \in 1..8 : nconf >= 0})} :       \* the kind of configuration call first
                   CASE c = 1 -> \E S \in (SUBSET AllSvc) \ {{}} : KeepServices(S)
                     [] c = 2 -> \E S \in (SUBSET AllSvc) \ {{}} : DropServices(S)
                     [] c = 3 -> KeepTtxPages \/ KeepTtxPage
                     [] c = 4 -> DropTtxPages \/ DropTtxPage
                     [] c = 5 -> KeepTtxSubpages \/ KeepTtxSubpage
                     [] c = 6 -> DropTtxSubpages \/ DropTtxSubpage
                     [] OTHER -> \E b \in BOOLEAN : KeepSystemPages(b)
            ELSE IF k <= 16 /\ Feedable
                 THEN (IF k <= 9 /\ failAt = 0 /\ "ttx" \notin svc THEN LineStep(Hdrs \cup Rows) \/ (~ENABLED LineStep(Hdrs \cup Rows) /\ LineStep(Lines))
                       ELSE LineStep(Lines))
            ELSE IF frame # <<>> THEN CallEnough \/ CallShort
            ELSE IF k = 20 \/ stale THEN Reset
            ELSE LineStep(Lines) \/ (~Feedable /\ Reset)
RNext == RStep /\ trace' = IF IsLineStep THEN trace ELSE Append(trace, Rec)
RSpec == TInit /\ [][RNext]_tvars

(* exhaustive: every behaviour within the bounds, written when its last frame has been filtered *)
DumpCall == (nframes' # nframes /\ (nframes' = MaxFrames \/ Len(hist) = MaxHist)) => PrintT(<<"TR", ToJson(trace')>>)
(* walks: written at the depth bound *)
DumpWalk == /\ (TLCGet("level") >= Depth /\ frame = <<>> => PrintT(<<"TR", ToJson(trace)>>))
            /\ ~(TLCGet("level") >= Depth /\ frame = <<>>)
=============================================================================
