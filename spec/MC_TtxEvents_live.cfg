CONSTANTS Fns = {1, 2} Uds = {1} Types = {"ttx", "net"} Masks <- M2 MaxTop = 3 MaxNested = 2 FixUp = TRUE MaxProbe = 0 ResetOnActivate = TRUE
SPECIFICATION FairSpec
PROPERTY Terminates
CHECK_DEADLOCK FALSE
