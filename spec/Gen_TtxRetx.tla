---------------------------- MODULE Gen_TtxRetx ----------------------------
(* Transition cover of RETRANSMISSIONS: one shortest transmission for every distinct (state, packet) of the bounded
   TtxAssembly model whose packet terminates a page that already had a stored version - the histories behind "rows not
   retransmitted keep their previous content unless the erase flag was set": a stored page (with / without row 24, with /
   without FLOF links) is sent again with the erase flag set / clear, with all / some / none of its rows and links.
   hist is outside the VIEW; TLC evaluates the action constraint once per explored transition (1 worker: deterministic). *)
EXTENDS Gen_TtxAssembly
PagesR == {<<256, {0}>>}
PagesR2 == {<<256, {0}>>, <<257, {1, 2}>>}
\* npk is outside the view: breadth-first search reaches every state first by a shortest transmission
rview == <<mode, open, lastm, cache, latest>>
IsRetx == \E i \in 1..Len(term') : Stored(term'[i].pg, term'[i].sub) # {}
RetxDump == IsRetx => PrintT(<<"TR", ToJson([mode |-> mode, steps |-> hist'])>>)
=============================================================================
