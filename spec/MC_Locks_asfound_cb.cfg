CONSTANTS Prog <- CcXds ResetLocking = "asfound" EventUnlock = TRUE HandlerFetch = TRUE Arm = 2 GapLocked = TRUE ResizeSameUnlocks = TRUE
SPECIFICATION Spec
INVARIANTS CallbackUnlocked
