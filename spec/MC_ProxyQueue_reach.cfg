CONSTANTS Clients = {1, 2} Services = {"a", "b"} Supported = {"a", "b"} Base = 1 S = 1 MaxFrames = 4 Threaded = FALSE LevelsUsed = {1} Discards = {FALSE} Faulty = {1}
SPECIFICATION Spec
PROPERTIES NeverLost
CHECK_DEADLOCK FALSE
