------------------------------ MODULE DvbStream ------------------------------
(* Grammar of a DVB VBI stream, written from
     ISO/IEC 13818-1  2.4.3.2/2.4.3.3 (transport packet), 2.4.3.6/2.4.3.7 (PES packet, PTS),
     EN 300 472       4.1, 4.2  (Teletext in DVB bitstreams: TS and PES restrictions),
     EN 301 775       4.3 - 4.8 (VBI data field: data_identifier, data units, line_offset),
   and from the doc comments of src/dvb_mux.h / src/dvb_demux.h / src/sliced.h (vbi_sliced ids,
   bit order of the payload bytes).

   A stream is a sequence of bytes (0 .. 255).  Offsets are 0-based as in the standards.
   Three groups of operators:
     - transmitter: EncUnit, EncPes, TsPackets      (what a conformant multiplexer may emit)
     - strict grammar: UnitsOf, PesConformant, TsConformant  (judges real multiplexer output)
     - tolerant receiver decoding of single fields: used by DvbDemux.

   The layout constants are CONSTANTS so that TLC can explore all feed partitions on short
   streams: the real values are  HdlVal = 36, MinPL = 178, TtxN = 42, VpsN = 13, TSP = 184.   *)
EXTENDS Naturals, Integers, Sequences, FiniteSets, TLC

CONSTANTS HdlVal,    \* PES_header_data_length, EN 300 472 4.2: 0x24
          MinPL,     \* smallest PES_packet_length: 1 x 184 - 6
          TtxN,      \* Teletext data block bytes after the framing code (magazine/packet address + 40)
          VpsN,      \* VPS data block bytes
          TSP        \* payload bytes of a transport packet (188 - 4)

HB  == 9 + HdlVal + 1         \* PES header up to and including data_identifier (46)
TSL == 4 + TSP                \* transport packet length (188)
FixLen == 2 + TtxN            \* data_unit_length when data_identifier is 0x10..0x1F (0x2C)

At(X, i) == X[i + 1]
Bits(b, hi, lo) == (b \div (2^lo)) % (2^(hi - lo + 1))
Min2(a, b) == IF a < b THEN a ELSE b

RECURSIVE RevN(_, _)
RevN(b, n) == IF n = 0 THEN 0 ELSE (b % 2) * (2^(n - 1)) + RevN(b \div 2, n - 1)
Rev8T == [b \in 0..255 |-> RevN(b, 8)]
Rev8(b) == Rev8T[b]            \* first transmitted bit of a VBI byte is the lsb of vbi_sliced.data

\* vbi_sliced.id values (src/sliced.h)
TTX == 3   VPS == 4   VPSF2 == 4096   CC625F1 == 8   CC625F2 == 16   WSS625 == 1024
CC525F1 == 32   CC525F2 == 64   WSSCPR == 2048   RAW625 == 536870912

\* data_unit_id, EN 301 775 table 3 (0xB4.. are private extensions documented in src/dvb.h)
DuTtx == 2   DuTtxSub == 3   DuVps == 195   DuWss == 196   DuCc == 197   DuMono == 198   DuStuff == 255
DuWssCpr == 180   DuCc525 == 181   DuMono525 == 182

\* data_identifier, EN 301 775 table 2
DidFixed(did) == did \in 16..31
DidLegal(did) == did \in 16..31 \/ did \in 153..155

PayLen(id) == IF id = TTX THEN TtxN ELSE IF id \in {VPS, VPSF2} THEN VpsN
              ELSE IF id = WSSCPR THEN 3 ELSE 2

-----------------------------------------------------------------------------
(* ---- line numbers <-> line_offset / field_parity byte (EN 301 775 4.5.2) ----
   reserved '11', field_parity ('1' = first field), line_offset (0 = undefined, Teletext only) *)
Lofp(line) == IF line = 0 THEN 192 + 32
              ELSE IF line < 32 THEN 192 + 32 + line
              ELSE 192 + (line - 313)

\* lines a 625-line multiplexer may carry (EN 301 775 4.5.2, 4.6.2, 4.7.2, 4.8.2)
LineLegal(id, line) ==
  IF id = TTX THEN line = 0 \/ line \in 7..22 \/ line \in 320..335
  ELSE IF id = VPS THEN line = 16
  ELSE IF id = WSS625 THEN line = 23
  ELSE IF id \in {CC625F1, 24} THEN line = 21        \* 24 = VBI_SLICED_CAPTION_625 (both fields)
  ELSE FALSE

MuxId(id) == id \in {1, 2, 3, VPS, WSS625, CC625F1, 24}     \* 1, 2: Teletext B level 1.0 / 2.5 subsets
CanonId(id) == IF id \in {1, 2, 3} THEN TTX ELSE IF id = 24 THEN CC625F1 ELSE id

(* ---- transmitter: one sliced line -> one data unit (EN 301 775 4.5 - 4.8) ---- *)
(* a Teletext line whose number is undefined (line 0) still has a field: a line record with a field `f2` is an undefined line
   of the second field (line_offset 0, field_parity 0: lofp 0xC0), without it of the first field (0xE0) *)
LofpL(l) == IF l.line = 0 /\ "f2" \in DOMAIN l THEN 192 ELSE Lofp(l.line)
Ff(n) == [i \in 1..n |-> 255]
Or3(b) == b - (b % 4) + 3
EncBody(l) ==
  LET id == CanonId(l.id) IN
  IF id = TTX THEN <<DuTtx, 2 + TtxN, LofpL(l), 228>> \o [i \in 1..TtxN |-> Rev8(l.data[i])]
  ELSE IF id = VPS THEN <<DuVps, 1 + VpsN, Lofp(l.line)>> \o [i \in 1..VpsN |-> l.data[i]]
  ELSE IF id = WSS625 THEN <<DuWss, 3, Lofp(l.line), Rev8(l.data[1]), Or3(Rev8(l.data[2]))>>
  ELSE <<DuCc, 3, Lofp(l.line), Rev8(l.data[1]), Rev8(l.data[2])>>
EncUnit(l, fixed) ==
  LET b == EncBody(l) IN
  IF fixed THEN <<b[1], FixLen>> \o SubSeq(b, 3, Len(b)) \o Ff(2 + FixLen - Len(b)) ELSE b

RECURSIVE Cat(_)
Cat(ss) == IF ss = <<>> THEN <<>> ELSE Head(ss) \o Cat(Tail(ss))

\* n bytes of stuffing data units (variable length format: n >= 2; fixed: n multiple of 2 + FixLen)
RECURSIVE Stuffing(_, _)
Stuffing(n, fixed) ==
  IF n = 0 THEN <<>>
  ELSE LET k == IF fixed THEN 2 + FixLen ELSE IF n > 257 /\ n - 257 = 1 THEN 256 ELSE Min2(n, 257)
       IN <<DuStuff, k - 2>> \o Ff(k - 2) \o Stuffing(n - k, fixed)

\* 33 bit time stamps are pairs <<bits 32..30, bits 29..0>> (TLC integers are 32 bit)
PtsBytes(pts) ==
  <<33 + 2 * pts[1], pts[2] \div 4194304, ((pts[2] \div 32768) % 128) * 2 + 1,
    (pts[2] \div 128) % 256, (pts[2] % 128) * 2 + 1>>

(* A PES packet made of the data units `us` (a sequence of byte sequences): 45 byte header with PTS,
   data_identifier, data units, stuffing up to the smallest multiple of TSP >= minsz.  A single missing
   byte is added to the last data unit as a stuffing byte (EN 301 775 table 1: data unit = fields,
   N x stuffing_byte). *)
EncPesU(us, pts, did, minsz) ==
  LET fixed == DidFixed(did)
      body  == Cat(us)
      raw   == HB + Len(body)
      size0 == IF raw < minsz THEN minsz ELSE raw + ((TSP - (raw % TSP)) % TSP)
      pad   == size0 - raw
      size  == IF pad = 1 /\ Len(us) = 0 THEN size0 + TSP ELSE size0
      fill  == IF pad = 1 /\ Len(us) > 0
               THEN LET lu == us[Len(us)] IN
                    Cat(SubSeq(us, 1, Len(us) - 1)) \o <<lu[1], lu[2] + 1>> \o SubSeq(lu, 3, Len(lu)) \o <<255>>
               ELSE body \o Stuffing(size - raw, fixed)
      plen  == size - 6
  IN <<0, 0, 1, 189, plen \div 256, plen % 256, 132, 128, HdlVal>> \o PtsBytes(pts) \o Ff(HdlVal - 5)
     \o <<did>> \o fill
EncPes(lines, pts, did, minsz) == EncPesU([i \in 1..Len(lines) |-> EncUnit(lines[i], DidFixed(did))], pts, did, minsz)

(* one segment of a line of luminance samples (EN 301 775 4.9, variable length format): first / last
   segment flags, field parity, line_offset, first_pixel_position, n_pixels, the samples *)
LofpRaw(line) == IF line < 32 THEN 32 + line ELSE line - 313
EncRawSeg(line, first, last, pos, samples) ==
  <<DuMono, 4 + Len(samples), (IF first THEN 128 ELSE 0) + (IF last THEN 64 ELSE 0) + LofpRaw(line),
    pos \div 256, pos % 256, Len(samples)>> \o samples

\* transport packets for one PES packet; cc = continuity counter of the first one
TsHeader(pid, pusi, cc) == <<71, (IF pusi THEN 64 ELSE 0) + (pid \div 256), pid % 256, 16 + (cc % 16)>>
RECURSIVE TsPackets(_, _, _, _)
TsPackets(pes, pid, cc, first) ==
  IF pes = <<>> THEN <<>>
  ELSE TsHeader(pid, first, cc) \o SubSeq(pes, 1, TSP) \o TsPackets(SubSeq(pes, TSP + 1, Len(pes)), pid, cc + 1, FALSE)

-----------------------------------------------------------------------------
(* ---- strict grammar (judges multiplexer output) ---- *)

\* cut [a, e) of X at the data_unit_length fields; <<>> with ok = FALSE if a unit crosses e
RECURSIVE UnitCuts(_, _, _)
UnitCuts(X, a, e) ==
  IF a = e THEN [ok |-> TRUE, at |-> <<>>]
  ELSE IF a + 2 > e \/ a + 2 + At(X, a + 1) > e THEN [ok |-> FALSE, at |-> <<>>]
  ELSE LET r == UnitCuts(X, a + 2 + At(X, a + 1), e) IN [ok |-> r.ok, at |-> <<a>> \o r.at]

AllFf(X, a, e) == \A i \in a..(e - 1) : At(X, i) = 255

\* a conformant data unit at offset a; yields the sliced line it carries (or "stuffing")
LofpLine(b) == IF b % 32 = 0 THEN 0 ELSE IF Bits(b, 5, 5) = 1 THEN b % 32 ELSE 313 + (b % 32)
UnitConformant(X, a, fixed) ==
  LET id == At(X, a)  len == At(X, a + 1)  e == a + 2 + len IN
  /\ fixed => len = FixLen
  /\ \/ id = DuStuff /\ AllFf(X, a + 2, e)
     \/ /\ id \in {DuTtx, DuTtxSub} /\ len >= 2 + TtxN /\ Bits(At(X, a + 2), 7, 6) = 3
        /\ At(X, a + 3) = 228 /\ AllFf(X, a + 4 + TtxN, e)
        /\ LineLegal(TTX, LofpLine(At(X, a + 2)))
     \/ /\ id = DuVps /\ len >= 1 + VpsN /\ Bits(At(X, a + 2), 7, 6) = 3 /\ AllFf(X, a + 3 + VpsN, e)
        /\ LofpLine(At(X, a + 2)) = 16
     \/ /\ id = DuWss /\ len >= 3 /\ Bits(At(X, a + 2), 7, 6) = 3 /\ AllFf(X, a + 5, e)
        /\ At(X, a + 4) % 4 = 3 /\ LofpLine(At(X, a + 2)) = 23
     \/ /\ id = DuCc /\ len >= 3 /\ Bits(At(X, a + 2), 7, 6) = 3 /\ AllFf(X, a + 5, e)
        /\ LofpLine(At(X, a + 2)) = 21
     \/ /\ id = DuMono /\ len >= 5 /\ At(X, a + 5) \in 1..251 /\ len >= 4 + At(X, a + 5)
        /\ AllFf(X, a + 6 + At(X, a + 5), e)
        /\ At(X, a + 3) * 256 + At(X, a + 4) + At(X, a + 5) <= 720
        /\ (At(X, a + 2) % 32) \in 7..23

\* the sliced line carried by a conformant non-stuffing, non-sample data unit
UnitLine(X, a) ==
  LET id == At(X, a)  line == LofpLine(At(X, a + 2)) IN
  IF id \in {DuTtx, DuTtxSub} THEN [line |-> line, id |-> TTX, data |-> [i \in 1..TtxN |-> Rev8(At(X, a + 3 + i))]]
  ELSE IF id = DuVps THEN [line |-> line, id |-> VPS, data |-> [i \in 1..VpsN |-> At(X, a + 2 + i)]]
  ELSE IF id = DuWss THEN [line |-> line, id |-> WSS625, data |-> <<Rev8(At(X, a + 3)), Rev8(At(X, a + 4)) % 64>>]
  ELSE [line |-> line, id |-> CC625F1, data |-> <<Rev8(At(X, a + 3)), Rev8(At(X, a + 4))>>]

\* the payload bits that matter (WSS has 14 bits)
NormLine(l) == [line |-> l.line, id |-> CanonId(l.id),
                data |-> IF CanonId(l.id) = WSS625 THEN <<l.data[1], l.data[2] % 64>>
                         ELSE SubSeq(l.data, 1, PayLen(CanonId(l.id)))]

PtsOf(X, p) == <<Bits(At(X, p + 9), 3, 1),
                 At(X, p + 10) * 4194304 + Bits(At(X, p + 11), 7, 1) * 32768 + At(X, p + 12) * 128 + Bits(At(X, p + 13), 7, 1)>>

(* X is exactly one conformant VBI PES packet for the configuration cfg = [did, min, max] and the time
   stamp pts.  EN 300 472 4.2 / EN 301 775 4.3: stream_id private_stream_1, PES_packet_length =
   N x 184 - 6, data_alignment_indicator 1, PTS present, PES_header_data_length 0x24 filled with
   stuffing, data units exactly filling the packet. *)
PesConformant(X, cfg, pts) ==
  LET n == Len(X) IN
  /\ n >= HB + 2 /\ n % TSP = 0 /\ n >= cfg.min /\ n <= cfg.max
  /\ At(X, 0) = 0 /\ At(X, 1) = 0 /\ At(X, 2) = 1 /\ At(X, 3) = 189
  /\ At(X, 4) * 256 + At(X, 5) = n - 6
  /\ Bits(At(X, 6), 7, 6) = 2 /\ Bits(At(X, 6), 5, 4) = 0 /\ Bits(At(X, 6), 2, 2) = 1
  /\ At(X, 7) = 128                                  \* PTS_DTS_flags '10', no other optional field
  /\ At(X, 8) = HdlVal
  /\ Bits(At(X, 9), 7, 4) = 2 /\ At(X, 9) % 2 = 1 /\ At(X, 11) % 2 = 1 /\ At(X, 13) % 2 = 1
  /\ PtsOf(X, 0) = pts
  /\ AllFf(X, 14, 9 + HdlVal)
  /\ At(X, HB - 1) = cfg.did /\ DidLegal(cfg.did)
  /\ LET c == UnitCuts(X, HB, n) IN
     /\ c.ok
     /\ \A i \in 1..Len(c.at) : UnitConformant(X, c.at[i], DidFixed(cfg.did))

\* sliced lines (sample units: their line numbers, once per first segment) carried by packet X
Carried(X) ==
  LET c == UnitCuts(X, HB, Len(X))
      keep == SelectSeq(c.at, LAMBDA a : At(X, a) # DuStuff /\ At(X, a) # DuMono)
  IN [i \in 1..Len(keep) |-> UnitLine(X, keep[i])]
RawLines(X) ==
  LET c == UnitCuts(X, HB, Len(X))
      keep == SelectSeq(c.at, LAMBDA a : At(X, a) = DuMono /\ Bits(At(X, a + 2), 7, 7) = 1)
  IN [i \in 1..Len(keep) |-> LofpLine(At(X, keep[i] + 2))]

(* ---- sample data units (EN 301 775 4.9) ----
   The segments of one line are adjacent data units; the first carries first_segment_flag, the last
   last_segment_flag; all carry the same field_parity / line_offset; their first_pixel_positions are
   contiguous.  RawScan yields the lines [line, pos, ys] of packet X or ok = FALSE. *)
RECURSIVE RawScan(_, _, _, _, _)
RawScan(X, at, i, cur, acc) ==          \* cur = <<>> or <<[line, lofp, pos, ys]>>: the line whose segments are being collected
  IF i > Len(at) THEN [ok |-> cur = <<>>, lines |-> acc]
  ELSE LET a == at[i] IN
       IF At(X, a) # DuMono
       THEN IF cur # <<>> THEN [ok |-> FALSE, lines |-> acc] ELSE RawScan(X, at, i + 1, cur, acc)
       ELSE LET b == At(X, a + 2)  pos == At(X, a + 3) * 256 + At(X, a + 4)  n == At(X, a + 5)
                ys == [k \in 1..n |-> At(X, a + 5 + k)]
                first == Bits(b, 7, 7) = 1   last == Bits(b, 6, 6) = 1
                line == IF Bits(b, 5, 5) = 1 THEN b % 32 ELSE 313 + (b % 32) IN
            IF first # (cur = <<>>) THEN [ok |-> FALSE, lines |-> acc]
            ELSE LET c == IF first THEN [line |-> line, lofp |-> b % 64, pos |-> pos, ys |-> ys]
                          ELSE [cur[1] EXCEPT !.ys = @ \o ys] IN
                 IF ~first /\ (b % 64 # cur[1].lofp \/ pos # cur[1].pos + Len(cur[1].ys)) THEN [ok |-> FALSE, lines |-> acc]
                 ELSE IF last THEN RawScan(X, at, i + 1, <<>>, Append(acc, [line |-> c.line, pos |-> c.pos, ys |-> c.ys]))
                 ELSE RawScan(X, at, i + 1, <<c>>, acc)
RawOf(X) == RawScan(X, UnitCuts(X, HB, Len(X)).at, 1, <<>>, <<>>)

\* frame line numbers of the data units of X in transmission order (0 = undefined; stuffing and
\* continuation segments left out): EN 301 775 4.1 - they ascend
LineSeq(X) ==
  LET c == UnitCuts(X, HB, Len(X))
      keep == SelectSeq(c.at, LAMBDA a : At(X, a) # DuStuff /\ (At(X, a) # DuMono \/ Bits(At(X, a + 2), 7, 7) = 1))
  IN [i \in 1..Len(keep) |-> IF At(X, keep[i]) = DuMono
                               THEN (IF Bits(At(X, keep[i] + 2), 5, 5) = 1 THEN At(X, keep[i] + 2) % 32 ELSE 313 + (At(X, keep[i] + 2) % 32))
                               ELSE LofpLine(At(X, keep[i] + 2))]
Ascending(q) == \A i, j \in 1..Len(q) : i < j /\ q[i] # 0 /\ q[j] # 0 => q[i] < q[j]

(* T is a sequence of 188 byte transport packets [b0, b1, b2, b3, pay] (cut by length only) carrying
   exactly the PES packet X for PID pid, with continuity counters cc, cc + 1, ... (ISO 13818-1 2.4.3.3,
   EN 300 472 4.1: no adaptation field, payload_unit_start_indicator on the first packet only). *)
TsConformant(T, X, pid, cc) ==
  /\ Len(T) * TSP = Len(X)
  /\ \A i \in 1..Len(T) :
       /\ T[i].h[1] = 71
       /\ Bits(T[i].h[2], 7, 7) = 0                              \* transport_error_indicator
       /\ Bits(T[i].h[2], 6, 6) = (IF i = 1 THEN 1 ELSE 0)       \* payload_unit_start_indicator
       /\ (T[i].h[2] % 32) * 256 + T[i].h[3] = pid
       /\ Bits(T[i].h[4], 7, 6) = 0 /\ Bits(T[i].h[4], 5, 4) = 1 \* not scrambled, payload only
       /\ T[i].h[4] % 16 = (cc + i - 1) % 16
       /\ T[i].pay = SubSeq(X, (i - 1) * TSP + 1, i * TSP)
=============================================================================
