\* the two text channels of one field (T1, T2 on field 1): RTD / TR switch between them, each keeps its cursor, pen and text
CONSTANTS Chans = {5, 6} Rows = {14} Chars = {65} MaxPairs = 6
  Indents = {8} Depths = {2} Tabs = {1}
  Kinds = {"RTD", "TR", "CR", "PAC", "TEXT"}
  Beyond = {}
  Mix <- NoMix Bursts <- NoBurst
SPECIFICATION GSpec
VIEW gview2
ACTION_CONSTRAINT TDump
CHECK_DEADLOCK FALSE
