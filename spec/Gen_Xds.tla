------------------------------ MODULE Gen_Xds ------------------------------
(* Behaviour generation for Xds: every pair sequence of length MaxEv that ends in a distinct
   model state, with the deliveries, information texts and announcement counts the
   specification predicts after every pair. *)
EXTENDS MC_Xds, Json

VARIABLE hist
gvars == <<vars, hist>>
gview == vars

NewOut == SubSeq(out', Len(out) + 1, Len(out'))
EvCnt(c) == Cardinality({i \in 1..Len(evs') : evs'[i] = c})

GInit == Init /\ hist = <<>>
GNext == Next /\ hist' = Append(hist, [act |-> lastAct', d |-> NewOut, info |-> info',
                                        evs |-> <<EvCnt(0), EvCnt(1)>>])
GSpec == GInit /\ [][GNext]_gvars

Dump == /\ (nev = MaxEv => PrintT(<<"TR", ToJson(hist)>>))
        /\ nev < MaxEv
=============================================================================
