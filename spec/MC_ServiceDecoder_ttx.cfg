\* Teletext line alphabet with station announcement and countdown, all services enabled
CONSTANTS
  Mags = {1, 2} PageSet <- PagesT Rows = {1} Cids = {1} Flofs = {1} SysPages = {} SpecialPages <- SpecialT DesyncPages = {} InertPages = {} HFlags = {"none", "subt"}
  Nats = {0} X26Dc <- DcAll X26Good = {13} ExtPk = {28} ExtDc = {0}
  NK = 0 KeyCls <- Cls0 KeyTyp <- Typ0 Bytes = {64} L = 2 ErrPairs = {}
  Carriers = {"vps", "p1"} Vals = {"a", "b"} WssWords = {}
  Fns = {0} Uds = {0} Types <- TypesAll Masks <- NoMasks
  CcChans = {} CcKinds = {} CcRows = {} CcChars = {}
  FetchPages = {} FetchSubs = {} FetchLv = {} FetchNav = {} SearchPages = {} Modules = {} Regions = {} Patterns = {} CcPages = {} Levels = {} RegionVals = {}
  ArbKinds = {} ProgOn = FALSE ProgN26 = {} ItvLens = {} DtSet = {"reg", "jump"} MaxLines = 4 MaxSteps = 7
SPECIFICATION SpecAll
VIEW mcview
CONSTRAINT Bounded
INVARIANTS TypeOK TripletBound CacheBound HandlersOK FrameOK SureKnows
CHECK_DEADLOCK FALSE
