CONSTANTS Pages = {1, 2} HexPages = {} Subs = {0, 1, 2} Hows = {"api", "gap"} MaxOps = 5
SPECIFICATION GSpec
VIEW gview
INVARIANTS Dump TypeOK MapOK
PROPERTIES SwitchEmpties StoreLocal LookupPure WildcardIsMru
CHECK_DEADLOCK FALSE
