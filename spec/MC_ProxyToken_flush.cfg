CONSTANTS Clients = {1, 2} Prios = {1, 2} FixTokenOwner = TRUE FixFlushClosed = FALSE FixRegrant = TRUE
SPECIFICATION Spec
INVARIANTS TypeOK NoCrash
CHECK_DEADLOCK FALSE
