---------------------------- MODULE DvbMuxRules ----------------------------
(* What a caller may hand to the DVB VBI multiplexer and what it has to accept (doc comments of
   vbi_dvb_mux_feed / vbi_dvb_mux_cor / vbi_dvb_mux_set_pes_packet_size in src/dvb_mux.c, EN 301 775
   4.5 - 4.9).  Shared by the state machine DvbMux and the trace specification Trace_DvbMux.        *)
EXTENDS DvbDemux

CONSTANTS SegMax      \* largest n_pixels of a segment (251)

RAW == RAW625
RawLineLegal(line) == line \in 7..23 \/ line \in 320..336
RawSample(line, i) == 2 + ((7 * line + 3 * i) % 250)

-----------------------------------------------------------------------------
(* ---- vbi_dvb_mux_set_pes_packet_size(): multiples of TSP, min <= max ---- *)
MaxPes == (6 + 65535) - ((6 + 65535) % TSP)
RoundSizes(mn, mx) ==
  LET a == IF mn < TSP THEN TSP ELSE IF mn > MaxPes THEN MaxPes ELSE (mn + TSP - 1) - ((mn + TSP - 1) % TSP)
      b == IF mx < a THEN a ELSE IF mx > MaxPes THEN MaxPes ELSE mx - (mx % TSP)
  IN <<a, b>>

-----------------------------------------------------------------------------
(* ---- what a caller may hand in and must get accepted ---- *)
ItemLegal(it) == IF it.id = RAW THEN RawLineLegal(it.line) ELSE MuxId(it.id) /\ LineLegal(CanonId(it.id), it.line)
Lines0(frame) == [i \in 1..Len(frame) |-> frame[i].line]
FrameLegal(frame) == (\A i \in 1..Len(frame) : ItemLegal(frame[i])) /\ Ascending(Lines0(frame))
ItemSize(it, fixed) == IF fixed THEN 2 + FixLen ELSE IF CanonId(it.id) = TTX THEN 4 + TtxN ELSE IF CanonId(it.id) = VPS THEN 3 + VpsN ELSE 5
Sliced(frame) == SelectSeq(frame, LAMBDA it : it.id # RAW)
RawItems(frame) == SelectSeq(frame, LAMBDA it : it.id = RAW)
RECURSIVE Sum(_)
Sum(q) == IF q = <<>> THEN 0 ELSE Head(q) + Sum(Tail(q))
SlicedSize(frame, fixed) == Sum([i \in 1..Len(Sliced(frame)) |-> ItemSize(Sliced(frame)[i], fixed)])
(* sizes of the sample segments of a raw line of n samples: the variable length format cuts it into
   segments of at most SegMax samples (the multiplexer may use one sample less to keep room for
   stuffing), the fixed length format into units of FixLen - 4 samples *)
CeilDiv(a, b) == (a + b - 1) \div b
RawFixedOK == FixLen > 4
RawMinSize(n, fixed) == IF fixed THEN (2 + FixLen) * CeilDiv(n, FixLen - 4) ELSE n + 6 * CeilDiv(n, SegMax)
RawMaxSize(n, fixed) == IF fixed THEN (2 + FixLen) * CeilDiv(n, FixLen - 4) ELSE n + 6 * CeilDiv(n, SegMax - 1) + 8
\* legal and certainly fitting (frames without raw lines: exactly)
MustAcceptN(frame, c, n) ==
  /\ FrameLegal(frame)
  /\ LET fixed == DidFixed(c.did)  nr == Len(RawItems(frame)) IN
     IF nr = 0 THEN HB + SlicedSize(frame, fixed) <= c.max
     ELSE (fixed => RawFixedOK) /\ HB + SlicedSize(frame, fixed) + nr * RawMaxSize(n, fixed) <= c.max
\* certainly not encodable
MustRejectN(frame, c, n) ==
  \/ ~FrameLegal(frame)
  \/ LET fixed == DidFixed(c.did) IN
     HB + SlicedSize(frame, fixed) + Len(RawItems(frame)) * (IF fixed /\ ~RawFixedOK THEN 0 ELSE RawMinSize(n, fixed)) > c.max

=============================================================================
