----------------------------- MODULE TtxCache -----------------------------
(* The Teletext page cache of src/cache.c at the level of its internal API
   (_vbi_cache_add_network, cache_network_unref, _vbi_cache_put_page, _vbi_cache_get_page,
   cache_page_ref, cache_page_unref, page type updates, vbi_cache_delete).

   State = the page objects (one id per stored version), the most-recently-used order of the
   hash chains, the priority list, the networks, the per-page statistics and the caller's
   handles (slots).  Everything the property calls "bookkeeping" is DERIVED from this state
   (MemUsed, NCachedPages, NRefPages ...) and compared with the counters of the real cache
   by trace validation.

   The replacement POLICY is deliberately open: with Policy = "any" a store, a release or a
   network operation may evict any set of unreferenced pages and drop any unreferenced
   networks as long as the accounting fits (a correct change of policy is not a violation).
   With Policy = "impl" the two eviction scans of _vbi_cache_put_page()/delete_surplus_pages()
   are modelled as coded, including the death row, so that TLC checks that the coded policy
   is one of the allowed ones and never collects a victim twice (NoDupVictim).             *)
EXTENDS Naturals, Integers, Sequences, FiniteSets, TLC

CONSTANTS Pgnos,          \* page numbers used (hex values as integers, e.g. 256 = 0x100)
          ExactFirst,     \* TRUE: put_page replaces the stored version with exactly the new key if there is one, and only
                          \*       otherwise the first version the masked search finds (repaired code); FALSE: masked search only
          Subnos,         \* subpage numbers used in stores
          Sizes,          \* page sizes (units)
          Fns,            \* page functions used: "unknown", "lop", "pop"
          NSlots,         \* caller's page handles 1..NSlots
          NNSlots,        \* caller's network handles 1..NNSlots
          MaxOps, MaxPuts,
          Limits,         \* possible memory limits (chosen in Init)
          NetLimit,       \* n_networks_limit (1 in libzvbi 0.2)
          Policy,         \* "any" | "impl"
          SkipCollected,  \* impl: TRUE = second scan skips the victims of the first (repaired)
          GetMasks, ClockVals, MaxNets

ANY == 16255              \* VBI_ANY_SUBNO 0x3F7F
None == 0

VARIABLES pg, mru, plist, net, nmru, stat, slot, nslot, nextid, nextnet, limit,
          res, nops, nputs, dupvictim, lastAct
vars == <<pg, mru, plist, net, nmru, stat, slot, nslot, nextid, nextnet, limit, res, nops, nputs,
          dupvictim, lastAct>>

Ids  == DOMAIN pg
Nets == DOMAIN net

-----------------------------------------------------------------------------
(* arithmetic on packed BCD / bit masks without the Bitwise module *)
Digit(x, d) == (x \div (16 ^ d)) % 16
IsBcd(x) == \A d \in 0..3 : Digit(x, d) <= 9
DigitsGreater(x, mx) == \E d \in 0..3 : Digit(x, d) > Digit(mx, d)
And255(x) == x % 256
And15(x)  == x % 16
Mask(x, m) == IF m = 0 THEN 0 ELSE IF m = 15 THEN x % 16 ELSE IF m = 255 THEN x % 256 ELSE x

\* the subpage key rule of _vbi_cache_put_page (EN 300 706 A.1): stored subno and lookup mask
KeyOf(pgno, subno, clock) ==
  IF IsBcd(pgno)
  THEN IF subno = 0 THEN [s |-> 0, m |-> 0]
       ELSE IF clock \/ subno >= 256
            THEN [s |-> IF DigitsGreater(subno, 10585) \/ subno > 8960 THEN 0 ELSE subno, m |-> 0]  \* 0x2959, 0x2300
            ELSE IF DigitsGreater(subno, 121) THEN [s |-> 0, m |-> 0]                               \* 0x79
                 ELSE [s |-> subno, m |-> 255]
  ELSE [s |-> subno, m |-> 15]

\* CACHE_PRI_NORMAL = 1, CACHE_PRI_SPECIAL = 2
PrioOf(pgno, fn, s) ==
  IF pgno % 256 = 0 THEN 2
  ELSE IF pgno \div 16 = pgno % 256 THEN 2
  ELSE IF fn = "unknown" THEN 1
  ELSE IF fn # "lop" THEN 2
  ELSE IF IsBcd(pgno) /\ s > 0 /\ s <= 121 THEN 2 ELSE 1

-----------------------------------------------------------------------------
(* derived bookkeeping *)
RECURSIVE SumOf(_, _)
SumOf(P, S) == IF S = {} THEN 0 ELSE LET x == CHOOSE y \in S : TRUE IN P[x].size + SumOf(P, S \ {x})
SumSizes(S) == SumOf(pg, S)
Unref(P)     == {i \in DOMAIN P : P[i].ref = 0 /\ ~P[i].zombie}
MemUsed      == SumSizes(Unref(pg))
PagesOf(n)   == {i \in Ids : pg[i].net = n}
RefPagesOf(n) == {i \in Ids : pg[i].net = n /\ pg[i].ref > 0}
NCachedNets  == Cardinality({n \in Nets : ~net[n].zombie})
Range(s)     == {s[i] : i \in 1..Len(s)}
Remove(s, S) == SelectSeq(s, LAMBDA x : x \notin S)

Matches(i, n, pgno, sub, m) == pg[i].net = n /\ pg[i].pgno = pgno /\ Mask(pg[i].subno, m) = Mask(sub, m)
\* page_by_pgno: first match on the hash chain
Lookup(n, pgno, sub, m) ==
  LET idx == {k \in 1..Len(mru) : Matches(mru[k], n, pgno, sub, m)} IN
  IF idx = {} THEN None ELSE mru[CHOOSE k \in idx : \A j \in idx : k <= j]

\* the version a new page [pgno, key] replaces in network n
OldOf(n, pgno, key) ==
  LET exact == Lookup(n, pgno, key.s, 65535) IN
  IF ExactFirst /\ exact # None THEN exact ELSE Lookup(n, pgno, Mask(key.s, key.m), key.m)

NoStat == [nsub |-> 0, maxsub |-> 0, smin |-> 0, smax |-> 0, clock |-> FALSE]

Init ==
  /\ pg = <<>> /\ mru = <<>> /\ plist = <<>>
  /\ net = <<>> /\ nmru = <<>> /\ stat = <<>>
  /\ slot = [s \in 1..NSlots |-> None] /\ nslot = [t \in 1..NNSlots |-> None]
  /\ nextid = 1 /\ nextnet = 1 /\ limit \in Limits
  /\ res = None /\ nops = 0 /\ nputs = 0 /\ dupvictim = FALSE /\ lastAct = [a |-> "init"]

-----------------------------------------------------------------------------
(* removal of pages and networks.  P, N, ST: page/network/stat functions to start from *)
Restrict(f, S) == [x \in S |-> f[x]]

\* delete the page objects E (all unreferenced): statistics of their page numbers go down
StatAfterDelete(ST, P, E) ==
  [k \in DOMAIN ST |-> [ST[k] EXCEPT !.nsub = @ - Cardinality({i \in E : <<P[i].net, P[i].pgno>> = k})]]

\* drop networks D (ref = 0): their unreferenced pages are deleted, a network with referenced
\* pages stays as a zombie, the others disappear together with their statistics
DropResult(P, N, ST, D) ==
  LET gone  == {i \in DOMAIN P : P[i].net \in D /\ P[i].ref = 0}
      P1    == Restrict(P, DOMAIN P \ gone)
      stay  == {n \in D : \E i \in DOMAIN P1 : P1[i].net = n}
      N1    == [n \in (DOMAIN N \ (D \ stay)) |-> IF n \in stay THEN [N[n] EXCEPT !.zombie = TRUE] ELSE N[n]]
      ST0   == StatAfterDelete(ST, P, gone)
      ST1   == Restrict(ST0, {k \in DOMAIN ST0 : k[1] \in DOMAIN N1})
  IN [p |-> P1, n |-> N1, st |-> ST1, gone |-> gone]

Tick(a) == nops' = nops + 1 /\ lastAct' = a

-----------------------------------------------------------------------------
(* the coded replacement policy: which pages the two scans of _vbi_cache_put_page collect.
   avail0: memory available before the scans, need: size wanted, skip: the replaced page *)
RECURSIVE Scan(_, _, _, _, _, _)
\* walks list l; collects pages of priority pri satisfying the scan's extra condition
Scan(l, pri, first, avail, need, acc) ==
  IF l = <<>> \/ avail >= need THEN [row |-> acc, avail |-> avail]
  ELSE LET i == Head(l)
           take == /\ pg[i].prio = pri
                   /\ (first => net[pg[i].net].ref = 0)
                   /\ (~first /\ SkipCollected => net[pg[i].net].ref > 0)
       IN IF take THEN Scan(Tail(l), pri, first, avail + pg[i].size, need, Append(acc, i))
          ELSE Scan(Tail(l), pri, first, avail, need, acc)

DeathRow(skip, avail0, need) ==
  LET l  == Remove(plist, {skip})
      s1 == Scan(l, 1, TRUE, avail0, need, <<>>)
      s2 == Scan(l, 2, TRUE, s1.avail, need, s1.row)
      s3 == Scan(l, 1, FALSE, s2.avail, need, s2.row)
      s4 == Scan(l, 2, FALSE, s3.avail, need, s3.row)
  IN s4

HasDup(s) == \E i, j \in 1..Len(s) : i < j /\ s[i] = s[j]

\* delete_surplus_pages on pages P / networks N: deletes immediately, so no victim twice
RECURSIVE Surplus(_, _, _, _, _, _, _)
Surplus(P, N, l, pri, first, used, acc) ==
  IF l = <<>> \/ used <= limit THEN [gone |-> acc, used |-> used]
  ELSE LET i == Head(l)
           take == i \notin acc /\ P[i].prio = pri /\ (first => N[P[i].net].ref = 0)
       IN IF take THEN Surplus(P, N, Tail(l), pri, first, used - P[i].size, acc \cup {i})
          ELSE Surplus(P, N, Tail(l), pri, first, used, acc)
SurplusSet(P, N, l, used) ==
  LET s1 == Surplus(P, N, l, 1, TRUE, used, {})
      s2 == Surplus(P, N, l, 2, TRUE, s1.used, s1.gone)
      s3 == Surplus(P, N, l, 1, FALSE, s2.used, s2.gone)
      s4 == Surplus(P, N, l, 2, FALSE, s3.used, s3.gone)
  IN s4.gone

-----------------------------------------------------------------------------
(* _vbi_cache_add_network(ca, NULL): a new anonymous network, referenced once.
   D: networks dropped on the way (recycle_network takes the least recently used one) *)
AddNet(t, D0) ==
  /\ nslot[t] = None /\ nextnet <= MaxNets
  /\ LET cand == {k \in 1..Len(nmru) : net[nmru[k]].ref = 0 /\ RefPagesOf(nmru[k]) = {}}
         D == IF Policy = "impl"
              THEN (IF NCachedNets < NetLimit \/ cand = {} THEN {}
                    ELSE {nmru[CHOOSE k \in cand : \A j \in cand : j <= k]})
              ELSE D0 \cap {n \in Nets : net[n].ref = 0}
         r == DropResult(pg, net, stat, D)
         nn == nextnet
     IN /\ pg' = r.p
        /\ net' = [n \in DOMAIN r.n \cup {nn} |-> IF n = nn THEN [ref |-> 1, zombie |-> FALSE] ELSE r.n[n]]
        /\ stat' = [k \in DOMAIN r.st \cup ({nn} \X Pgnos) |-> IF k[1] = nn THEN NoStat ELSE r.st[k]]
        /\ mru' = Remove(mru, r.gone) /\ plist' = Remove(plist, r.gone)
        /\ nmru' = <<nn>> \o Remove(nmru, DOMAIN net \ DOMAIN r.n)
        /\ nslot' = [nslot EXCEPT ![t] = nn] /\ nextnet' = nextnet + 1
        /\ res' = nn
  /\ UNCHANGED <<slot, nextid, limit, nputs, dupvictim>>
  /\ Tick([a |-> "AddNet", t |-> t])

(* cache_network_unref: the last reference triggers delete_surplus_networks *)
NetUnref(t, D0) ==
  /\ nslot[t] # None
  /\ LET n == nslot[t]
         N0 == [net EXCEPT ![n].ref = @ - 1]
         D == IF N0[n].ref > 0 THEN {}
              ELSE IF Policy = "impl"
              THEN \* zombies and whatever exceeds the limit, unless still in use
                   {x \in Nets : N0[x].ref = 0 /\ RefPagesOf(x) = {} /\ (N0[x].zombie \/ NCachedNets > NetLimit)}
              ELSE D0 \cap {x \in Nets : N0[x].ref = 0}
         r == DropResult(pg, N0, stat, D)
     IN /\ pg' = r.p /\ net' = r.n /\ stat' = r.st
        /\ mru' = Remove(mru, r.gone) /\ plist' = Remove(plist, r.gone)
        /\ nmru' = Remove(nmru, DOMAIN net \ DOMAIN r.n)
  /\ nslot' = [nslot EXCEPT ![t] = None] /\ res' = None
  /\ UNCHANGED <<slot, nextid, nextnet, limit, nputs, dupvictim>>
  /\ Tick([a |-> "NetUnref", t |-> t])

(* _vbi_cache_put_page.  E: further pages evicted to make room *)
Put(t, pgno, subno, fn, size, s, E) ==
  /\ nslot[t] # None /\ slot[s] = None /\ nputs < MaxPuts
  /\ LET n    == nslot[t]
         key  == KeyOf(pgno, subno, stat[<<n, pgno>>].clock)
         old  == OldOf(n, pgno, key)
         oldz == old # None /\ pg[old].ref > 0          \* still in use: becomes a zombie
         oldd == old # None /\ pg[old].ref = 0          \* first replacement candidate
         avail0 == limit - MemUsed + (IF oldd THEN pg[old].size ELSE 0)
         row  == IF avail0 >= size THEN [row |-> <<>>, avail |-> avail0] ELSE DeathRow(old, avail0, size)
         cand == Unref(pg) \ {old}
     IN /\ Policy = "impl" => E = Range(row.row)
        /\ dupvictim' = (dupvictim \/ (Policy = "impl" /\ HasDup(row.row)))
        /\ LET EE == IF Policy = "impl" THEN E ELSE E \cap cand
               gone == EE \cup (IF oldd THEN {old} ELSE {})
               freed == SumSizes(EE)
               ok == IF Policy = "impl" THEN row.avail >= size ELSE avail0 + freed >= size
               P0 == IF oldz THEN [pg EXCEPT ![old].zombie = TRUE] ELSE pg
               M0 == IF oldz THEN Remove(mru, {old}) ELSE mru
           IN IF ~ok
              THEN \* failure: nothing stored (a referenced old version has already been retired)
                   /\ EE = {} /\ pg' = P0 /\ mru' = M0 /\ res' = None
                   /\ UNCHANGED <<plist, net, stat, slot, nextid, nputs>>
              ELSE LET id == nextid
                       P1 == Restrict(P0, DOMAIN P0 \ gone)
                       new == [net |-> n, pgno |-> pgno, subno |-> key.s, size |-> size,
                               prio |-> PrioOf(pgno, fn, key.s), ref |-> 1, zombie |-> FALSE]
                       ST0 == StatAfterDelete(stat, pg, gone)
                       o == ST0[<<n, pgno>>]
                   IN /\ pg' = [i \in DOMAIN P1 \cup {id} |-> IF i = id THEN new ELSE P1[i]]
                      /\ mru' = <<id>> \o Remove(M0, gone)
                      /\ plist' = Remove(plist, gone)
                      /\ net' = [net EXCEPT ![n].zombie = FALSE]
                      /\ stat' = [ST0 EXCEPT ![<<n, pgno>>] =
                                    [nsub |-> o.nsub + 1,
                                     maxsub |-> IF o.nsub + 1 > o.maxsub THEN o.nsub + 1 ELSE o.maxsub,
                                     smin |-> IF o.smin = 0 \/ key.s < o.smin THEN key.s ELSE o.smin,
                                     smax |-> IF key.s > o.smax THEN key.s ELSE o.smax,
                                     clock |-> o.clock]]
                      /\ slot' = [slot EXCEPT ![s] = id] /\ nextid' = nextid + 1 /\ nputs' = nputs + 1
                      /\ res' = id
  /\ UNCHANGED <<nmru, nslot, nextnet, limit>>
  /\ Tick([a |-> "Put", t |-> t, pgno |-> pgno, subno |-> subno, fn |-> fn, size |-> size, s |-> s])

(* cache_page_ref on page object i *)
RefEffect(P, i) == [P EXCEPT ![i].ref = @ + 1]

(* _vbi_cache_get_page: lookups never evict *)
Get(t, pgno, subno, m, s) ==
  /\ nslot[t] # None /\ slot[s] = None
  /\ LET n == nslot[t]
         mm == IF subno = ANY THEN 0 ELSE m
         hit == IF pgno < 256 \/ pgno > 2303 \/ pgno % 256 = 255 THEN None ELSE Lookup(n, pgno, Mask(subno, mm), mm)
     IN IF hit = None
        THEN /\ res' = None /\ UNCHANGED <<pg, mru, plist, net, slot>>
        ELSE /\ res' = hit
             /\ pg' = RefEffect(pg, hit)
             /\ mru' = <<hit>> \o Remove(mru, {hit})
             /\ plist' = Remove(plist, {hit})
             /\ net' = [net EXCEPT ![pg[hit].net].zombie = FALSE]
             /\ slot' = [slot EXCEPT ![s] = hit]
  /\ UNCHANGED <<nmru, stat, nslot, nextid, nextnet, limit, nputs, dupvictim>>
  /\ Tick([a |-> "Get", t |-> t, pgno |-> pgno, subno |-> subno, m |-> m, s |-> s])

(* cache_page_ref through a handle the caller already holds *)
Ref(s, s2) ==
  /\ slot[s] # None /\ slot[s2] = None
  /\ pg' = RefEffect(pg, slot[s]) /\ slot' = [slot EXCEPT ![s2] = slot[s]] /\ res' = slot[s]
  /\ UNCHANGED <<mru, plist, net, nmru, stat, nslot, nextid, nextnet, limit, nputs, dupvictim>>
  /\ Tick([a |-> "Ref", s |-> s, s2 |-> s2])

(* cache_page_unref.  E: pages evicted because the accounting now exceeds the limit *)
UnrefPage(s, E) ==
  /\ slot[s] # None
  /\ LET i == slot[s]
         n == pg[i].net
         last == pg[i].ref = 1
         P0 == IF ~last THEN [pg EXCEPT ![i].ref = @ - 1]
               ELSE IF pg[i].zombie THEN Restrict(pg, Ids \ {i})
               ELSE [pg EXCEPT ![i].ref = 0]
         ST0 == IF last /\ pg[i].zombie THEN StatAfterDelete(stat, pg, {i}) ELSE stat
         PL0 == IF last /\ ~pg[i].zombie THEN Append(plist, i) ELSE plist
         \* a zombie network goes away with its last referenced page
         dn == IF last /\ net[n].zombie /\ net[n].ref = 0 /\ ~\E j \in DOMAIN P0 : P0[j].net = n /\ P0[j].ref > 0
               THEN {n} ELSE {}
         r == DropResult(P0, net, ST0, dn)
         cand == Unref(r.p)
         used0 == SumOf(r.p, cand)
         EE == IF Policy = "impl"
               THEN (IF last /\ used0 > limit THEN SurplusSet(r.p, r.n, Remove(PL0, r.gone), used0) ELSE {})
               ELSE E \cap cand
     IN /\ (~last => EE = {})
        /\ (used0 - SumOf(r.p, EE) <= limit \/ ~last)
        /\ pg' = Restrict(r.p, DOMAIN r.p \ EE)
        /\ stat' = StatAfterDelete(r.st, r.p, EE)
        /\ net' = r.n
        /\ nmru' = Remove(nmru, DOMAIN net \ DOMAIN r.n)
        /\ mru' = Remove(mru, r.gone \cup EE \cup (IF last /\ pg[i].zombie THEN {i} ELSE {}))
        /\ plist' = Remove(PL0, r.gone \cup EE)
  /\ slot' = [slot EXCEPT ![s] = None] /\ res' = None
  /\ UNCHANGED <<nslot, nextid, nextnet, limit, nputs, dupvictim>>
  /\ Tick([a |-> "Unref", s |-> s])

(* the decoder learns that a page is a clock page (page type update) *)
SetClock(t, pgno, c) ==
  /\ nslot[t] # None
  /\ stat' = [stat EXCEPT ![<<nslot[t], pgno>>].clock = c] /\ res' = None
  /\ UNCHANGED <<pg, mru, plist, net, nmru, slot, nslot, nextid, nextnet, limit, nputs, dupvictim>>
  /\ Tick([a |-> "SetClock", t |-> t, pgno |-> pgno, c |-> c])

\* the choices left open by the policy; under "impl" each is a single, computed value
PutChoices(t, pgno, subno, size) ==
  IF Policy # "impl" THEN SUBSET Unref(pg)
  ELSE IF nslot[t] = None THEN {{}}
  ELSE LET n == nslot[t]
           key == KeyOf(pgno, subno, stat[<<n, pgno>>].clock)
           old == OldOf(n, pgno, key)
           avail0 == limit - MemUsed + (IF old # None /\ pg[old].ref = 0 THEN pg[old].size ELSE 0)
       IN IF avail0 >= size THEN {{}} ELSE {Range(DeathRow(old, avail0, size).row)}
UnrefChoices(s) == IF Policy = "impl" THEN {{}} ELSE SUBSET (Unref(pg) \cup {slot[s]})
NetChoices == IF Policy = "impl" THEN {{}} ELSE SUBSET Nets

Next ==
  \/ \E t \in 1..NNSlots, D \in NetChoices : AddNet(t, D)
  \/ \E t \in 1..NNSlots, D \in NetChoices : NetUnref(t, D)
  \/ \E t \in 1..NNSlots, p \in Pgnos, sb \in Subnos, f \in Fns, z \in Sizes, s \in 1..NSlots :
        \E E \in PutChoices(t, p, sb, z) : Put(t, p, sb, f, z, s, E)
  \/ \E t \in 1..NNSlots, p \in Pgnos, sb \in Subnos \cup {ANY}, m \in GetMasks, s \in 1..NSlots : Get(t, p, sb, m, s)
  \/ \E s, s2 \in 1..NSlots : Ref(s, s2)
  \/ \E s \in 1..NSlots : \E E \in UnrefChoices(s) : UnrefPage(s, E)
  \/ \E t \in 1..NNSlots, p \in Pgnos, c \in ClockVals :
        nslot[t] # None /\ stat[<<nslot[t], p>>].clock # c /\ SetClock(t, p, c)

Spec == Init /\ [][Next]_vars
Bounded == nops < MaxOps

-----------------------------------------------------------------------------
(* C10 *)
\* the caller's handles are exactly the references
HandlesOf(i) == Cardinality({s \in 1..NSlots : slot[s] = i})
RefsAreHandles == \A i \in Ids : pg[i].ref = HandlesOf(i)
\* a page held by a caller stays (no slot ever points to a freed object)
HeldAlive == \A s \in 1..NSlots : slot[s] # None => slot[s] \in Ids
\* list discipline
ListsOK == /\ Range(mru) = {i \in Ids : ~pg[i].zombie} /\ Len(mru) = Cardinality(Range(mru))
           /\ Range(plist) = Unref(pg) /\ Len(plist) = Cardinality(Range(plist))
           /\ \A i \in Ids : pg[i].zombie => pg[i].ref > 0
\* bounded
WithinLimit == MemUsed <= limit
\* networks
NetsOK == /\ \A i \in Ids : pg[i].net \in Nets
          /\ \A n \in Nets : net[n].zombie => (net[n].ref = 0 /\ RefPagesOf(n) # {})
          /\ Range(nmru) = Nets
          /\ \A t \in 1..NNSlots : nslot[t] # None => nslot[t] \in Nets /\ net[nslot[t]].ref >= 1
\* statistics equal the number of stored versions, extremes never shrink
StatOK == \A k \in DOMAIN stat :
            /\ stat[k].nsub = Cardinality({i \in Ids : <<pg[i].net, pg[i].pgno>> = k})
            /\ stat[k].maxsub >= stat[k].nsub
            /\ \A i \in Ids : <<pg[i].net, pg[i].pgno>> = k => pg[i].subno <= stat[k].smax   \* 'highest subpage'
\* the store is a map: never two stored (non-zombie) versions under the same key
UniqueKey == \A i, j \in Ids : (i # j /\ ~pg[i].zombie /\ ~pg[j].zombie) =>
                <<pg[i].net, pg[i].pgno, pg[i].subno>> # <<pg[j].net, pg[j].pgno, pg[j].subno>>
\* a channel switch leaves no page of another network reachable: by construction of Lookup
\* (network is part of the key); the replacement policy as coded never collects a victim twice
NoDupVictim == ~dupvictim
TypeOK == nextid \in 1..(MaxPuts + 1) /\ res \in 0..(MaxPuts + 8)
=============================================================================
