CONSTANTS K = 6 NP = 2 Sizes = {0, 1, 2, 3, 4, 7, 13} Fills = {0, 1, 2} MaxBlocks = 4 Faults = {"none", "drop", "badbp"} TailCheck = TRUE Foreign = {"none", "page", "stream", "mag"} TailAtForeign = TRUE
SPECIFICATION Spec
INVARIANTS Sound Complete Resume
CHECK_DEADLOCK FALSE
