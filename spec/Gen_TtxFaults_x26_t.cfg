CONSTANTS Mags = {1} Pages <- PagesOne1 Rows = {1, 2} Cids = {1, 2} Nats = {0} Flofs = {1} Progs <- ProgsAll
          HdrFaults = {} RowFaults <- RowPar PktFaults <- PktAll TripFaults <- TripAll FlofFaults <- NoFlofFaults MaxFaults = 1 MaxPk = 7 FaultFrom = {0}
SPECIFICATION GSpec
VIEW gview
INVARIANT DumpT
CHECK_DEADLOCK FALSE
