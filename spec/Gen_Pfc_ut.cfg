CONSTANTS CiStart = 14 K = 39 NP = 3 Sizes = {1, 8, 31, 33, 70} Fills = {0, 1} MaxBlocks = 2 Faults = {"err1", "err2"} Units = {"mrag0", "mrag1", "pgu", "pgt", "s1", "s2", "s3", "s4", "c1", "c2", "bp", "bs", "fill", "sh"} Policies = {"strict"} UnitBlocks = 2 TailCheck = TRUE Foreign = {"none", "page", "stream", "mag"} TailAtForeign = TRUE Noise = {0} NoisePos = {"all"} NoiseFaults = {"none"}
SPECIFICATION GLeapSpec
CONSTRAINT Dump
INVARIANTS Sound Complete Resume
CHECK_DEADLOCK FALSE
