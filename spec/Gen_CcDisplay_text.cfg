\* the text window: nothing but CR / PAC down to the last rows (constraint Ladder), then text, CR, BS, DER, TR, RTD, PAC there - the text
\* scrolls on row 15
CONSTANTS Chans = {7} Rows = {3} Chars = {65} MaxPairs = 19
  Indents = {0, 4} Depths = {2} Tabs = {1}
  Kinds = {"RTD", "TR", "CR", "PAC", "BS", "DER", "TEXT"}
  Beyond = {}
  Mix <- NoMix Bursts <- NoBurst
SPECIFICATION GSpec
VIEW gview2
CONSTRAINT Ladder
ACTION_CONSTRAINT TDump
CHECK_DEADLOCK FALSE
