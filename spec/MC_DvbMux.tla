----------------------------- MODULE MC_DvbMux -----------------------------
(* Model checking of DvbMux composed with DvbDemux on the scaled layout
     HdlVal = 5, TtxN = 1, VpsN = 1, TSP = 10: header up to the data_identifier 15 bytes, every data unit
     of the fixed length format 5 bytes, PES packets of 40, 50, ... bytes, transport packets of 14 bytes.
   Frames: legal ones on first / last permitted lines of both fields, with an undefined line, with raw
   lines (4 samples, at most 3 per segment), and illegal ones (order, service on a wrong line, too big). *)
EXTENDS DvbMux

T(l, a) == [line |-> l, id |-> TTX, data |-> <<a>>]
V(a) == [line |-> 16, id |-> VPS, data |-> <<a>>]
W(a, b) == [line |-> 23, id |-> WSS625, data |-> <<a, b>>]
C(a, b) == [line |-> 21, id |-> 24, data |-> <<a, b>>]              \* VBI_SLICED_CAPTION_625
R(l) == [line |-> l, id |-> RAW, data |-> <<>>]
Tab == << <<T(7, 34)>>,                                   \* 1
          <<[line |-> 7, id |-> 2, data |-> <<36>>], V(77), W(5, 6)>>,   \* 2  Teletext B level 2.5 id
          <<T(22, 38), T(320, 40), T(335, 41)>>,          \* 3
          <<T(7, 50), T(0, 51), C(9, 10), W(7, 8)>>,      \* 4  a line without number
          <<T(16, 60), T(7, 61)>>,                        \* 5  wrong order
          <<[line |-> 17, id |-> VPS, data |-> <<9>>]>>,  \* 6  VPS on line 17
          <<T(7, 1), T(8, 2), T(9, 3), T(10, 4), T(11, 5), T(12, 6), T(13, 7), T(14, 8), T(15, 9), T(17, 10)>>,   \* 7  too big for 60 bytes
          <<R(7), T(8, 70)>>,                             \* 8  a raw line
          <<T(7, 71), R(8), R(9), T(320, 72)>>,           \* 9  two raw lines: too big for 40 / 50 bytes
          <<T(6, 1)>>,                                    \* 10 line 6
          <<T(320, 80), T(321, 81), T(0, 82)>> >>         \* 11 undefined line in the second field
MCFrameTab(k) == Tab[k]

Cfg(ts, did, mn, mx) == [ts |-> ts, pid |-> IF ts THEN 291 ELSE 0, did |-> did, min |-> mn, max |-> mx]
CfgsQ == {Cfg(FALSE, 153, 40, 50), Cfg(TRUE, 16, 40, 40), Cfg(TRUE, 153, 40, 60)}
CfgsT == {Cfg(ts, did, sz[1], sz[2]) : ts \in BOOLEAN, did \in {16, 153}, sz \in {<<40, 40>>, <<40, 60>>, <<50, 80>>}}

\* reconfiguration between calls (MC_DvbMux_rq / _rt / _wt): requests to vbi_dvb_mux_set_pes_packet_size (rounded by RoundSizes)
SizesRQ == {<<35, 69>>}                               \* -> (40, 60)
SizesRT == {<<40, 40>>, <<35, 69>>, <<50, 80>>}
CfgsR == {Cfg(FALSE, 153, 40, 50), Cfg(TRUE, 16, 40, 40), Cfg(TRUE, 153, 50, 80), Cfg(FALSE, 16, 40, 60)}
ASSUME RoundSizes(35, 69) = <<40, 60>>

\* vbi_dvb_mux_set_pes_packet_size rounds to the grid of transport packets
ASSUME RoundSizes(0, 0) = <<10, 10>> /\ RoundSizes(41, 59) = <<50, 50>> /\ RoundSizes(40, 65) = <<40, 60>> /\ RoundSizes(1, 99999) = <<10, MaxPes>>
\* the bounds are not vacuous
ASSUME \E cf \in CfgsT : MustAccept(Tab[8], cf)
ASSUME \E cf \in CfgsT : MustReject(Tab[9], cf) /\ \E cg \in CfgsT : MustAccept(Tab[9], cg)
=============================================================================
