CONSTANTS Mags = {1} Pages <- PagesSub1 Rows = {2} Cids = {1, 2} Nats = {0, 1} Flofs = {} Progs <- NoProgs
          HdrFaults <- HdrAll RowFaults <- RowAll PktFaults = {} TripFaults = {} FlofFaults <- NoFlofFaults MaxFaults = 1 MaxPk = 6 FaultFrom = {0}
SPECIFICATION GSpec
VIEW gview
INVARIANT DumpF
CHECK_DEADLOCK FALSE
