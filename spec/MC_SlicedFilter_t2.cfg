CONSTANTS MinPg = 256 MaxPg = 2303 MaxSub = 16254
  PagePts = {256} SubPts = {0} BadPages = {255} BadSubs <- FBadSubs
  HdrPages = {256, 427, 512} HdrSubs = {0} RowNums = {1} Services = {"vps"} BulkServices = {"vps"} BulkN = 60
  MaxLines = 2 MaxHist = 3 MaxConf = 2 MaxFrames = 2
SPECIFICATION FSpec
VIEW fview
INVARIANTS FTypeOK WholeServiceNoTable Faithful OrderPreserved OutputIsDecisions ResetInitial
PROPERTIES FailedConfNoChange CallResultA
CHECK_DEADLOCK FALSE
