-------------------------- MODULE Gen_TtxAssembly --------------------------
(* Transmissions for the Teletext driver: every packet sequence of the bounded model ending in a
   distinct state, with the page versions that are terminated by each packet. *)
EXTENDS MC_TtxAssembly, Json
VARIABLE hist
gvars == <<vars, hist>>
gview == <<mode, open, lastm, cache, latest, nfault, npk>>
GInit == Init /\ hist = <<>>
RowList(f) == [k \in 1..24 |-> IF k \in DOMAIN f THEN f[k] ELSE 0]
TermOut == [i \in 1..Len(term') |-> [pg |-> term'[i].pg, sub |-> term'[i].sub, nat |-> term'[i].nat,
                                      rows |-> RowList(term'[i].rows), flof |-> term'[i].flof]]
GNext == npk < MaxPk /\ Next /\ hist' = Append(hist, [act |-> lastAct', term |-> TermOut])
GSpec == GInit /\ [][GNext]_gvars
\* an invariant is evaluated once per distinct state (by the VIEW): one behaviour per terminal state
Dump == npk = MaxPk => PrintT(<<"TR", ToJson([mode |-> mode, steps |-> hist])>>)
=============================================================================
