--------------------------- MODULE Trace_ExportIO ---------------------------
(* Trace validation of the real export output layer against ExportIO.

   Log of harness/drv_exportio.c (one JSON object per line):
   Begin  t n                     a scripted export module is started through vbi_export_mem (caller size n) /
                                  _alloc / _stdio / _file
   Op     op n ok target off cap own werr
                                  one output call of the module (w = vbi_export_write, c = _putc, p = _printf,
                                  s = _puts, g = _vbi_export_grow_buffer_space, f = _flush) and the fields of the
                                  public struct vbi_export afterwards (own = 1: buffer.data is the caller's memory)
   End    ok ret guard out        what the caller got: return value, modified guard bytes around the caller's
                                  memory, the delivered bytes (MEM: the first min(ret, n) bytes of the caller's memory)
   Case                           a new (page, module, options) combination of a real export module follows
   Export t ok len h run          vbi_export_alloc / _stdio / _file on that combination: success, length and
                                  identity (hash) of the delivered data (run = 2: the same export in a second
                                  process whose fresh heap memory has other contents)
   ExportMem from to ret guard h  vbi_export_mem with every caller size from..to gave the same observation
                                  (h = identity of the first ret bytes when ret <= size, "-" otherwise)

   A line is accepted iff it is a step of ExportIO (capacities and the printf path are resolved from the log)
   and all ExportIO invariants hold in the reached state; Export lines are accepted iff every target delivers
   the same data and MEM behaves as ExportIO!Observable says.

   Every line is judged; the verdict of a rejected line is printed as <<"TV-BAD", line, what, class>> and counted
   (the rest of a rejected script is skipped), AllAccepted fails at the end of the log when any line was rejected. *)
EXTENDS ExportIO, Json, IOUtils

Log == ndJsonDeserialize(IOEnv.TRACEFILE)
VARIABLES l, ref, nbad, skip
tvars == <<vars, l, ref, nbad, skip>>
Ev == Log[l]
NoRef == [len |-> 0 - 1, h |-> "none"]

StepOf(x, ev) ==
  IF ev.op = "w" \/ ev.op = "s" THEN {WriteR(x, ev.n, ev.cap)}
  ELSE IF ev.op = "c" THEN {PutcR(x, ev.cap)}
  ELSE IF ev.op = "p" THEN {PrintfR(x, ev.n, k, ev.cap, d) : k \in {ev.n, ev.n + 1},
                                                           d \in (IF IsFileTarget(x.target) THEN BOOLEAN ELSE {FALSE})}
  ELSE IF ev.op = "g" THEN {y \in {GrowR(x, ev.n, ev.cap)} : GrowOK(x, ev.n, ev.cap)}
  ELSE IF ev.op = "f" THEN {FlushR(x)}
  ELSE {}

OpVerdict(x, ev) ==
  LET c0 == StepOf(x, ev)
      c1 == {y \in c0 : y.target = ev.target}
      c2 == {y \in c1 : y.off = ev.off}
      c3 == {y \in c2 : y.cap = ev.cap /\ y.off <= y.cap}
      c4 == {y \in c3 : (y.own = "caller") = (ev.own = 1)}
  IN IF ev.ok # 1 \/ ev.werr # 0 THEN <<"script-op", "output-function-failed">>
     ELSE IF c0 = {} THEN <<"script-op", "buffer-not-grown">>
     ELSE IF c1 = {} THEN <<"script-op", "wrong-target">>
     ELSE IF c2 = {} THEN <<"script-op", "wrong-offset">>
     ELSE IF c3 = {} THEN <<"script-op", "wrong-capacity">>
     ELSE IF c4 = {} THEN <<"script-op", "wrong-buffer-owner">>
     ELSE <<"ok", "">>
Chosen(x, ev) == CHOOSE y \in StepOf(x, ev) : /\ y.target = ev.target /\ y.off = ev.off /\ y.cap = ev.cap
                                              /\ (y.own = "caller") = (ev.own = 1)

EndVerdict(x, ev) ==
  LET r == EndR(x) IN
  IF ev.ok # 1 THEN <<"script-end", "export-failed">>
  ELSE IF x.entry = "MEM" /\ ev.guard # 0 THEN <<"script-end", "wrote-beyond-buffer-size">>
  ELSE IF ev.ret # r.ret THEN <<"script-end", "wrong-size-returned">>
  ELSE IF x.entry = "MEM" /\ Observable("MEM", x.csize, r.ret).defined /\ ev.out # Prefix(r.out, r.ret)
       THEN <<"script-end", "data-lost-or-changed">>
  ELSE IF x.entry # "MEM" /\ ev.out # r.out THEN <<"script-end", "data-lost-or-changed">>
  ELSE <<"ok", "">>

ExportVerdict(ev) ==
  IF ev.ok # 1 \/ ev.len < 0 THEN <<"targets", "export-failed">>
  ELSE IF ref # NoRef /\ ev.len # ref.len THEN <<"targets", "length-depends-on-target">>
  ELSE IF ref # NoRef /\ ev.h # ref.h THEN <<"targets", "data-depends-on-target">>
  ELSE <<"ok", "">>
MemVerdict(ev) ==
  LET lo == Observable("MEM", ev.from, ref.len)  hi == Observable("MEM", ev.to, ref.len) IN
  IF ev.guard # 0 THEN <<"mem", "wrote-beyond-buffer-size">>
  ELSE IF ev.ret # lo.ret \/ ev.ret # hi.ret THEN <<"mem", "wrong-size-returned">>
  ELSE IF lo.defined # hi.defined THEN <<"mem", "malformed">>
  ELSE IF lo.defined /\ ev.h # ref.h THEN <<"mem", "data-differs-from-other-targets">>
  ELSE <<"ok", "">>

Judge(v) == /\ IF v[1] = "ok" THEN TRUE ELSE PrintT(<<"TV-BAD", l, v[1], v[2]>>)
            /\ nbad' = nbad + (IF v[1] = "ok" THEN 0 ELSE 1)

TBegin == /\ Ev.a = "Begin" /\ s' = Begin(Ev.t, Ev.n) /\ res' = NoRes /\ skip' = FALSE /\ UNCHANGED <<ref, nbad>>
TOp == /\ Ev.a = "Op"
       /\ IF skip \/ s.entry = "none" THEN UNCHANGED <<s, res, ref, nbad, skip>>
          ELSE LET v == OpVerdict(s, Ev) IN
               /\ Judge(v)
               /\ IF v[1] = "ok" THEN s' = Chosen(s, Ev) /\ skip' = FALSE ELSE s' = Idle /\ skip' = TRUE
               /\ UNCHANGED <<res, ref>>
TEnd == /\ Ev.a = "End"
        /\ IF skip \/ s.entry = "none" THEN UNCHANGED <<s, res, ref, nbad, skip>>
           ELSE LET v == EndVerdict(s, Ev)  r == EndR(s) IN
                /\ Judge(v)
                /\ res' = IF v[1] = "ok"
                          THEN [ret |-> r.ret, out |-> r.out, touched |-> r.touched, csize |-> s.csize, made |-> s.made, entry |-> s.entry]
                          ELSE NoRes
                /\ s' = Idle /\ UNCHANGED <<ref, skip>>

TCase == Ev.a = "Case" /\ ref' = NoRef /\ s' = Idle /\ UNCHANGED <<res, nbad, skip>>
TExport == /\ Ev.a = "Export"
           /\ LET v == ExportVerdict(Ev) IN
              /\ Judge(v)
              /\ ref' = IF ref = NoRef /\ v[1] = "ok" THEN [len |-> Ev.len, h |-> Ev.h] ELSE ref
           /\ UNCHANGED <<s, res, skip>>
TExportMem == /\ Ev.a = "ExportMem"
              /\ IF ref = NoRef THEN UNCHANGED nbad ELSE Judge(MemVerdict(Ev))
              /\ UNCHANGED <<s, res, ref, skip>>

TInit == s = Idle /\ res = NoRes /\ nops = 0 /\ lastOp = [op |-> "begin"] /\ l = 1 /\ ref = NoRef /\ nbad = 0 /\ skip = FALSE
TNext == /\ l <= Len(Log) /\ l' = l + 1
         /\ (TBegin \/ TOp \/ TEnd \/ TCase \/ TExport \/ TExportMem)
         /\ UNCHANGED <<nops, lastOp>>
TSpec == TInit /\ [][TNext]_tvars

AllAccepted == l = Len(Log) + 1 => nbad = 0
TraceAccepted == LET n == TLCGet("stats").diameter - 1 IN
                 IF n = Len(Log) THEN TRUE
                 ELSE PrintT(<<"TV-REJECT", n + 1, Len(Log)>>) /\ FALSE
=============================================================================
