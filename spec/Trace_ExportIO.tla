--------------------------- MODULE Trace_ExportIO ---------------------------
(* Trace validation of the real export output layer against ExportIO.

   Log of harness/drv_exportio.c (one JSON object per line):
   Begin  t n                     a scripted export module is started through vbi_export_mem (caller size n) /
                                  _alloc / _stdio / _file
   Op     op n ok target off cap own werr
                                  one output call of the module (w = vbi_export_write, c = _putc, p = _printf,
                                  s = _puts, g = _vbi_export_grow_buffer_space, f = _flush) and the fields of the
                                  public struct vbi_export afterwards (own = 1: buffer.data is the caller's memory)
   End    ok ret guard out        what the caller got: return value, modified guard bytes around the caller's
                                  memory, the delivered bytes (MEM: the first min(ret, n) bytes of the caller's memory)
   Case                           a new (page, module, options) combination of a real export module follows
   Export t ok len h              vbi_export_alloc / _stdio / _file on that combination: success, length and
                                  identity (hash) of the delivered data
   ExportMem from to ret guard h  vbi_export_mem with every caller size from..to gave the same observation
                                  (h = identity of the first ret bytes when ret <= size, "-" otherwise)

   A line is accepted iff it is a step of ExportIO (capacities and the printf path are resolved from the log)
   and all ExportIO invariants hold in the reached state; Export lines are accepted iff every target delivers
   the same data and MEM behaves as ExportIO!Observable says. *)
EXTENDS ExportIO, Json, IOUtils

Log == ndJsonDeserialize(IOEnv.TRACEFILE)
VARIABLES l, ref
tvars == <<vars, l, ref>>
Ev == Log[l]
NoRef == [len |-> 0 - 1, h |-> "none"]

Matches(x, ev) == /\ x.target = ev.target /\ x.off = ev.off /\ x.cap = ev.cap
                  /\ (x.own = "caller") = (ev.own = 1)

StepOf(x, ev) ==
  IF ev.op = "w" \/ ev.op = "s" THEN {WriteR(x, ev.n, ev.cap)}
  ELSE IF ev.op = "c" THEN {PutcR(x, ev.cap)}
  ELSE IF ev.op = "p" THEN {PrintfR(x, ev.n, k, ev.cap, d) : k \in {ev.n, ev.n + 1},
                                                           d \in (IF IsFileTarget(x.target) THEN BOOLEAN ELSE {FALSE})}
  ELSE IF ev.op = "g" THEN {GrowR(x, ev.n, ev.cap)}
  ELSE IF ev.op = "f" THEN {FlushR(x)}
  ELSE {}

TBegin == /\ Ev.a = "Begin" /\ s.entry = "none"
          /\ s' = Begin(Ev.t, Ev.n) /\ res' = NoRes /\ UNCHANGED ref
TOp == /\ Ev.a = "Op" /\ s.entry # "none" /\ Ev.ok = 1 /\ Ev.werr = 0
       /\ \E x \in StepOf(s, Ev) : Matches(x, Ev) /\ s' = x
       /\ UNCHANGED <<res, ref>>
TEnd == /\ Ev.a = "End" /\ s.entry # "none"
        /\ LET r == EndR(s) IN
           /\ Ev.ok = 1 /\ Ev.ret = r.ret
           /\ IF s.entry = "MEM"
              THEN /\ Ev.guard = 0
                   /\ Observable("MEM", s.csize, r.ret).defined => Ev.out = Prefix(r.out, r.ret)
              ELSE Ev.out = r.out
           /\ res' = [ret |-> r.ret, out |-> r.out, touched |-> r.touched, csize |-> s.csize, made |-> s.made, entry |-> s.entry]
        /\ s' = Idle /\ UNCHANGED ref

TCase == Ev.a = "Case" /\ s.entry = "none" /\ ref' = NoRef /\ UNCHANGED <<s, res>>
TExport == /\ Ev.a = "Export" /\ s.entry = "none"
           /\ Ev.ok = 1 /\ Ev.len >= 0
           /\ ref = NoRef \/ (Ev.len = ref.len /\ Ev.h = ref.h)
           /\ ref' = [len |-> Ev.len, h |-> Ev.h] /\ UNCHANGED <<s, res>>
TExportMem == /\ Ev.a = "ExportMem" /\ s.entry = "none" /\ ref # NoRef
              /\ Ev.guard = 0
              /\ LET lo == Observable("MEM", Ev.from, ref.len)  hi == Observable("MEM", Ev.to, ref.len) IN
                 /\ Ev.ret = lo.ret /\ lo.defined = hi.defined
                 /\ lo.defined => Ev.h = ref.h
              /\ UNCHANGED <<s, res, ref>>

TInit == s = Idle /\ res = NoRes /\ nops = 0 /\ lastOp = [op |-> "begin"] /\ l = 1 /\ ref = NoRef
TNext == /\ l <= Len(Log) /\ l' = l + 1
         /\ (TBegin \/ TOp \/ TEnd \/ TCase \/ TExport \/ TExportMem)
         /\ UNCHANGED <<nops, lastOp>>
TSpec == TInit /\ [][TNext]_tvars

TraceAccepted == LET n == TLCGet("stats").diameter - 1 IN
                 IF n = Len(Log) THEN TRUE
                 ELSE PrintT(<<"TV-REJECT", n + 1, Len(Log)>>) /\ FALSE
=============================================================================
