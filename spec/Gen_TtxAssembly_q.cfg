CONSTANTS Mags = {1, 2} Pages <- PagesA Rows = {1, 24} Cids = {1, 2} Flofs = {1} FaultKinds = {} MaxFaults = 0 MaxPk = 5
SPECIFICATION GSpec
VIEW gview
INVARIANT Dump
CHECK_DEADLOCK FALSE
