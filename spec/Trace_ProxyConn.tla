--------------------------- MODULE Trace_ProxyConn ---------------------------
(* Trace validation for ProxyConn / ProxyToken.  The log is built by checks/c19.py from the daemon's own
   action trace (hooks in daemon/proxyd.c, ordered by its sequence counter) and from what the clients
   received.  One line = one step of the specification:

     accept  c                      connection accepted (c = the daemon's descriptor)
     msg     c t wf .. st           complete message of type t taken and answered (request parameters:
                                    compat, srv, nsi / prio, valid / flags); st = state dump after it;
                                    wf = "yes" / "no": the sender's label (well-formed or not), "any": an ioctl
                                    request cut inside its arg_size field (the daemon reads the missing byte
                                    from its buffer)
     drop    c why t wf cause st    connection closed and removed; why = "rcv" (a complete message of type t
                                    was refused or asked for it) or "io" (end of file, illegal header, error);
                                    cause = what the harness had done to that connection ("eof", "hdr", "none")
     part    c off                  message received in part (off bytes so far)
     wrote   c                      the daemon has written out what it had queued for c
     grant / reclaim  c st          indication queued
     timer   st                     scheduler timer
     chg     c                      CHN_CHANGE_IND (status indication) queued for c (no effect on connection / token state)
     obs     c m ind                client c received message m (channel messages only; ind = token_ind)
     reset                          new daemon process

   The state dump lists, in list order, [fd, state, token state, prio, services, cursor] of every
   connection and whether the device is open: it must equal the specification's next state (this also
   resolves the scheduler's open choice).  `out` holds what the specification says was sent to each
   client and not yet seen by it. *)
EXTENDS ProxyConn, Json, IOUtils

Log == ndJsonDeserialize(IOEnv.TRACEFILE)
VARIABLES l, out
tvars == <<cvars, l, out>>
Ev == Log[l]

\* wire constants (src/proxy-msg.h)
T_CONNECT == 0  T_CLOSE == 3  T_SERVICE == 5  T_TOKEN == 8  T_NOTIFY == 11  T_RECLAIM_CNF == 14
T_SUSPEND == 15  T_IOCTL == 18  T_PID == 22
TokName(i) == <<"NONE", "RECLAIM", "RELEASE", "GRANT", "GRANTED", "RETURNED">>[i + 1]
StateName(i) == IF i = 0 THEN "wait" ELSE IF i = 2 THEN "fwd" ELSE "closing"

\* the dump equals the next state
DumpOK ==
  LET cl == Ev.st.clients IN
  /\ order' = [i \in 1..Len(cl) |-> cl[i][1]]
  /\ \A i \in 1..Len(cl) :
        LET c == cl[i][1] IN
        /\ cst'[c] = StateName(cl[i][2]) /\ tok'[c] = TokName(cl[i][3])
        /\ prio'[c] = cl[i][4] /\ svc'[c] = (cl[i][5] # 0)
  /\ (Ev.st.open = 1) <=> DevOpenFor({cl[i][1] : i \in 1..Len(cl)}, svc')

Sent(c, m) == out' = [out EXCEPT ![c] = Append(@, m)]
Cleared(c) == out' = [out EXCEPT ![c] = <<>>]

\* a message of type t, well-formed, that the daemon must accept in connection state s
Allowed(t, s) == \/ t \in {T_SUSPEND, T_RECLAIM_CNF, T_CLOSE}
                 \/ s = "wait" /\ t \in {T_CONNECT, T_PID}
                 \/ s = "fwd" /\ t \in {T_SERVICE, T_TOKEN, T_NOTIFY, T_IOCTL}

TMsg ==
  LET c == Ev.c  t == Ev.t IN
  /\ Ev.wf # "no"
  /\ \/ /\ t = T_CONNECT /\ Ev.compat
        /\ \E s \in BOOLEAN : MConnect(c, s, Ev.nsi)           \* nsi: client_flags & NO_STATUS_IND
        /\ Sent(c, [m |-> "CONNECT_CNF", ind |-> 0])
     \/ /\ t = T_SERVICE /\ \E s \in BOOLEAN : MServiceReq(c, s)
        /\ out' = out                                     \* SERVICE_CNF / SERVICE_REJ: C18
     \/ /\ t = T_TOKEN /\ MTokenReq(c, Ev.prio, Ev.valid)
        /\ Sent(c, [m |-> "CHN_TOKEN_CNF", ind |-> IF c \in holders' THEN 1 ELSE 0])
     \/ /\ t = T_NOTIFY /\ MNotify(c, {x \in Flags : \E i \in 1..Len(Ev.flags) : Ev.flags[i] = x})
        /\ Sent(c, [m |-> "CHN_NOTIFY_CNF", ind |-> 0])
     \/ /\ t = T_IOCTL /\ MIoctl(c) /\ out' = out
     \/ /\ t = T_SUSPEND /\ MSuspend(c) /\ Sent(c, [m |-> "CHN_SUSPEND_REJ", ind |-> 0])
     \/ /\ t = T_RECLAIM_CNF /\ MReclaimCnf(c) /\ out' = out
  /\ DumpOK

\* (priorities are any numbers: the daemon stores what it gets; values above 3 are rank-encoded in the log)

TDrop ==
  LET c == Ev.c IN
  /\ \/ /\ Ev.why = "rcv"
        /\ \/ Ev.wf # "yes" /\ BadMsg(c)
           \/ Ev.wf # "no" /\ Ev.t = T_CLOSE /\ MCloseReq(c)
           \/ Ev.wf # "no" /\ Ev.t = T_PID /\ cst[c] = "wait" /\ MPidReq(c)
           \* CONNECT_REQ rejected: incompatible protocol version, or services requested of which
           \* the device supports none (srv: names of the requested services, "x" = unsupported)
           \/ /\ Ev.wf # "no" /\ Ev.t = T_CONNECT /\ cst[c] = "wait"
              /\ \/ ~Ev.compat
                 \/ Ev.srv # <<>> /\ \A i \in 1..Len(Ev.srv) : Ev.srv[i] = "x"
              /\ MConnectRej(c)
           \/ Ev.wf # "no" /\ ~Allowed(Ev.t, cst[c]) /\ WrongState(c)
     \/ /\ Ev.why = "io"
        /\ \/ Ev.cause = "eof" /\ Disconnect(c)
           \/ Ev.cause = "hdr" /\ HdrIllegal(c)
  /\ Cleared(c)
  /\ DumpOK

TPart == /\ IF Ev.off < 8 THEN PartialHdr(Ev.c) ELSE HdrLegal(Ev.c)
         /\ out' = out

TObs == LET c == Ev.c IN
        /\ out[c] # <<>> /\ Head(out[c]).m = Ev.m /\ Head(out[c]).ind = Ev.ind
        /\ out' = [out EXCEPT ![c] = Tail(@)]
        /\ UNCHANGED cvars

TReset == /\ \A c \in Clients : out[c] = <<>>        \* everything sent has been seen by its client
          /\ order' = <<>> /\ cst' = [c \in Clients |-> "none"]
          /\ prio' = [c \in Clients |-> IA] /\ valid' = [c \in Clients |-> FALSE]
          /\ tok' = [c \in Clients |-> "NONE"] /\ svc' = [c \in Clients |-> FALSE]
          /\ nsi' = [c \in Clients |-> FALSE] /\ holders' = {} /\ up' = TRUE
          /\ rd' = [c \in Clients |-> "idle"] /\ wr' = [c \in Clients |-> FALSE]
          /\ out' = [c \in Clients |-> <<>>]

TNext == /\ l <= Len(Log) /\ l' = l + 1
         /\ \/ Ev.e = "accept" /\ CAccept(Ev.c) /\ out' = out
            \/ Ev.e = "msg" /\ TMsg
            \/ Ev.e = "drop" /\ TDrop
            \/ Ev.e = "part" /\ TPart
            \/ Ev.e = "wrote" /\ WriteDone(Ev.c) /\ out' = out
            \/ Ev.e = "grant" /\ CSendGrant(Ev.c) /\ Sent(Ev.c, [m |-> "CHN_TOKEN_IND", ind |-> 0]) /\ DumpOK
            \/ Ev.e = "reclaim" /\ CSendReclaim(Ev.c) /\ Sent(Ev.c, [m |-> "CHN_RECLAIM_REQ", ind |-> 0]) /\ DumpOK
            \/ Ev.e = "timer" /\ CTimer /\ out' = out /\ DumpOK
            \* who gets status indications is outside the statement of C19: any open connection (ChangeIndTo is what the code does)
            \/ Ev.e = "chg" /\ cst[Ev.c] # "none" /\ UNCHANGED cvars /\ out' = out
            \/ Ev.e = "obs" /\ TObs
            \/ Ev.e = "reset" /\ TReset

TInit == CInit /\ l = 1 /\ out = [c \in Clients |-> <<>>]
TSpec == TInit /\ [][TNext]_tvars

TraceAccepted == LET n == TLCGet("stats").diameter - 1 IN
                 IF n = Len(Log) THEN TRUE
                 ELSE PrintT(<<"TV-REJECT", n + 1, Len(Log)>>) /\ FALSE
=============================================================================
