CONSTANTS HdlVal = 5 MinPL = 34 TtxN = 1 VpsN = 1 TSP = 10 HL = 17 TSH = 10 MaxLines = 64 RawN = 4 SegMax = 3 NFrames = 11 FrameTab <- MCFrameTab
  ClearOnReject = TRUE Cfgs <- CfgsT MaxFrames = 2 CorBufs = {1, 7, 14, 4096}
  Dids = {} SizeReqs = {} MaxReconf = 0 WriteThrough = FALSE
SPECIFICATION Spec
INVARIANTS WellFormed CarriesInput RejectSilent Decisions CorEqualsCb Continuity Usable RoundTrip
PROPERTIES RejectIsNoOp
CHECK_DEADLOCK FALSE
