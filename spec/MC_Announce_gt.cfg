CONSTANTS Carriers = {"vps", "p1"} Vals = {"a", "b", "u"} Labels = {"p"} Times = {"t"} Bads = {}
  WssWords = {"x"} MaxRecv = 6 UnknownOnce = TRUE XdsGuard = TRUE Calls = {}
  Handlers = {"h1"} InitMasks = {{"NETWORK", "NETWORK_ID", "PROG_ID", "LOCAL_TIME", "ASPECT", "TTX_PAGE", "CAPTION"}} RegMasks = {} Apis = {"reg"} MaxReg = 0 CdLen = 40 IdleSteps = {1, 37, 40} MaxGap = 2 MaxIdle = 2
SPECIFICATION Spec
CONSTRAINT Bounded
INVARIANTS TypeOK Faithful
PROPERTIES OfThisReception OnlyAfterRepeat VpsLabelTwice NetworkMeansChange OneNetworkEvent NotAgainWhileSame StationKept CacheKept CacheDropped Gated WssOnlyAfterRepeats AspectRevertOnlyOnChange GapKeeps DropOutOnce
CHECK_DEADLOCK FALSE
