CONSTANTS NP = 3 MaxSub = 2 MaxOcc = 1 MaxCalls = 2
  AllowTurn = FALSE AllowUpdate = FALSE SecondWrapStops = FALSE ClampSub = FALSE
SPECIFICATION FairSpec
INVARIANTS TypeOK
PROPERTY Termination
CHECK_DEADLOCK FALSE
