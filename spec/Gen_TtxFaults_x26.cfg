CONSTANTS Mags = {8} Pages <- PagesOne8 Rows = {1} Cids = {1} Nats = {0} Flofs = {1} Progs <- ProgsAll
          HdrFaults = {} RowFaults <- RowBurst PktFaults <- PktAll TripFaults <- TripAll FlofFaults <- NoFlofFaults MaxFaults = 1 MaxPk = 6 FaultFrom = {0}
SPECIFICATION GSpec
VIEW gview
INVARIANT DumpF
CHECK_DEADLOCK FALSE
