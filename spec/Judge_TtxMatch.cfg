INIT Init
NEXT Next
CONSTRAINT Dump
CHECK_DEADLOCK FALSE
