CONSTANTS Carriers = {"xds"} Vals = {"a", "b", "u"} Labels = {} Times = {} Bads = {}
  WssWords = {} MaxRecv = 7 UnknownOnce = TRUE XdsGuard = TRUE Calls = {"a", "b"}
  Handlers = {"h1", "h2"} InitMasks = {{"NETWORK", "NETWORK_ID", "PROG_ID", "LOCAL_TIME", "ASPECT", "TTX_PAGE", "CAPTION"}, {"NETWORK_ID", "TTX_PAGE"}} RegMasks = {{"CAPTION"}, {"NETWORK"}} Apis = {"add"} MaxReg = 1 CdLen = 40 IdleSteps = {} MaxGap = 0 MaxIdle = 0
SPECIFICATION GSpec
VIEW gview
INVARIANTS Dump TypeOK Faithful XdsSettles
PROPERTIES OfThisReception OnlyAfterRepeat VpsLabelTwice NetworkMeansChange OneNetworkEvent NotAgainWhileSame StationKept CacheKept CacheDropped Gated WssOnlyAfterRepeats AspectRevertOnlyOnChange GapKeeps DropOutOnce
CHECK_DEADLOCK FALSE
