CONSTANTS Carriers = {"xds"} Vals = {"a", "b", "u"} WssWords = {} MaxRecv = 8 UnknownOnce = TRUE XdsGuard = TRUE Calls = {"a", "b"}
SPECIFICATION GSpec
VIEW gview
CONSTRAINT Dump
CHECK_DEADLOCK FALSE
