--------------------------- MODULE TtxMatchDet ---------------------------
(* A NAMED DEVIATION of the library from TtxMatch (known finding D66): src/ure.c compiles the
   pattern into a deterministic automaton over the SYMBOLS of the pattern (a literal character,
   ".", a class, an anchor - equal symbols are one symbol) and ure_exec() follows, for every
   character of the text, the FIRST transition of the current state whose symbol accepts the
   character.  This is correct as long as no state has two transitions with different symbols
   that accept the same character.  Ambiguous(p, cf, chars) says when a pattern has such a state:
   then occurrences may be missed (a.*b never matches aXXb) or are reported shorter than the
   longest one (1[0-9]*1 on 10101).

   The automaton is the position automaton of the pattern (Glushkov): the positions are the
   leaves of the AST from left to right, a state is the set of positions that can be consumed
   next, and the states reachable by symbols are those of ure's subset construction (ure merges
   equivalent states afterwards, which changes nothing for this question).                   *)
EXTENDS TtxMatchPage

IsLeaf(p) == p.k \in {"chr", "any", "cls", "ncls", "bol", "eol"}

(* Gl(p, off) = [n, nul, first, last, fol, sym]: number of leaves, matches the empty string,
   first / last positions, follow pairs <<x, y>>, sym = set of <<position, leaf>>; positions off+1 .. off+n *)
RECURSIVE Gl(_, _), GlSeq(_, _, _, _), GlAlt(_, _, _, _)
GlEmpty == [n |-> 0, nul |-> TRUE, first |-> {}, last |-> {}, fol |-> {}, sym |-> {}]
GlNone  == [n |-> 0, nul |-> FALSE, first |-> {}, last |-> {}, fol |-> {}, sym |-> {}]
Gl(p, off) ==
  IF IsLeaf(p) THEN [n |-> 1, nul |-> FALSE, first |-> {off + 1}, last |-> {off + 1}, fol |-> {}, sym |-> {<<off + 1, p>>}]
  ELSE IF p.k = "cat" THEN GlSeq(p.a, 1, off, GlEmpty)
  ELSE IF p.k = "alt" THEN GlAlt(p.a, 1, off, GlNone)
  ELSE LET g == Gl(p.p, off)
           loop == {<<x, y>> : x \in g.last, y \in g.first} IN
       CASE p.k = "star" -> [g EXCEPT !.nul = TRUE, !.fol = g.fol \cup loop]
         [] p.k = "plus" -> [g EXCEPT !.fol = g.fol \cup loop]
         [] p.k = "opt"  -> [g EXCEPT !.nul = TRUE]
GlSeq(a, i, off, acc) ==
  IF i > Len(a) THEN acc
  ELSE LET g == Gl(a[i], off + acc.n) IN
       GlSeq(a, i + 1, off,
             [n |-> acc.n + g.n, nul |-> acc.nul /\ g.nul,
              first |-> acc.first \cup (IF acc.nul THEN g.first ELSE {}),
              last |-> g.last \cup (IF g.nul THEN acc.last ELSE {}),
              fol |-> acc.fol \cup g.fol \cup {<<x, y>> : x \in acc.last, y \in g.first},
              sym |-> acc.sym \cup g.sym])
GlAlt(a, i, off, acc) ==
  IF i > Len(a) THEN acc
  ELSE LET g == Gl(a[i], off + acc.n) IN
       GlAlt(a, i + 1, off,
             [n |-> acc.n + g.n, nul |-> acc.nul \/ g.nul, first |-> acc.first \cup g.first,
              last |-> acc.last \cup g.last, fol |-> acc.fol \cup g.fol, sym |-> acc.sym \cup g.sym])

(* the symbol of a leaf as ure sees it: with case folding the characters are folded *)
SymOf(leaf, cf) ==
  CASE leaf.k = "chr" -> [k |-> "chr", c |-> Fold(cf, leaf.c)]
    [] leaf.k \in {"cls", "ncls"} -> [k |-> leaf.k, s |-> {Fold(cf, c) : c \in leaf.s}]
    [] OTHER -> leaf
Accepts(sy, c, cf) ==
  CASE sy.k = "chr"  -> Fold(cf, c) = sy.c
    [] sy.k = "any"  -> TRUE
    [] sy.k = "cls"  -> Fold(cf, c) \in sy.s
    [] sy.k = "ncls" -> Fold(cf, c) \notin sy.s
    [] OTHER -> FALSE
(* two different symbols of one state that apply at the same place: both accept a character of
   the texts, or one of them is the begin-of-line anchor (it is taken without consuming anything,
   the attempt is bound to the anchored alternative: ^a|b misses the b at the start of a row) *)
Clash(s1, s2, cf, chars) ==
  /\ s1 # s2
  /\ \/ s1.k = "bol" \/ s2.k = "bol"
     \/ \E c \in chars : Accepts(s1, c, cf) /\ Accepts(s2, c, cf)

RECURSIVE Reach(_, _, _, _)
\* closure of the state set under the symbol transitions
Reach(g, key, seen, new) ==
  LET step(S, sy) == {q[2] : q \in {f \in g.fol : f[1] \in S /\ key[f[1]] = sy}}
      nx == (UNION {{step(S, key[x]) : x \in S} : S \in new}) \ (seen \cup {{}})
  IN IF nx = {} THEN seen ELSE Reach(g, key, seen \cup nx, nx)

States(p, cf) ==
  LET g == Gl(p, 0)
      key == TLCEval([x \in 1..g.n |-> SymOf((CHOOSE q \in g.sym : q[1] = x)[2], cf)])
  IN [key |-> key, states |-> Reach(g, key, {g.first}, {g.first})]

Ambiguous(p, cf, chars) ==
  LET a == States(p, cf) IN
  \E S \in a.states : \E x, y \in S : Clash(a.key[x], a.key[y], cf, chars)

-----------------------------------------------------------------------------
(* UreScan: the walk of ure_exec() over one row for a pattern WITHOUT anchors (then no symbol
   accepts the row separator and an attempt never leaves its row).  In every state the symbols
   are tried in the order of their first appearance in the pattern (the order of ure's symbol
   table) and the first one that accepts the character is followed.  A failed attempt is resumed
   behind its first character; an attempt that went on behind a complete match and failed reports
   that match; an empty match is no occurrence.  s[from .. lim-1] is the text; sep: the separator
   follows (otherwise the text of a backward search ends here, in the middle of the row). *)
HasAnchor(p) == \E q \in Gl(p, 0).sym : q[2].k \in {"bol", "eol"}

Automaton0(p, cf) ==
  LET g == Gl(p, 0)
      key == TLCEval([x \in 1..g.n |-> SymOf((CHOOSE q \in g.sym : q[1] = x)[2], cf)])
  IN [g |-> g, key |-> key, cf |-> cf,
      \* positions whose symbol appears there for the first time, in order
      firsts |-> TLCEval({x \in 1..g.n : \A y \in 1..(x - 1) : key[y] # key[x]}),
      init |-> [S |-> g.first, acc |-> g.nul]]
NoState == [S |-> {}, acc |-> FALSE]
UStep(A, st, c) ==
  LET ok == {x \in A.firsts : (\E y \in st.S : A.key[y] = A.key[x]) /\ Accepts(A.key[x], c, A.cf)} IN
  IF ok = {} THEN NoState
  ELSE LET sy == A.key[SetMin(ok)]
           X  == {y \in st.S : A.key[y] = sy}
       IN [S |-> {f[2] : f \in {q \in A.g.fol : q[1] \in X}}, acc |-> X \cap A.g.last # {}]
\* the states reached over the characters `chars`, numbered (1 = initial state, 0 = no transition):
\* dt[k][c] = next state, acc[k] = accepting.  Evaluated once per pattern.
RECURSIVE USeq(_)
USeq(S) == IF S = {} THEN <<>> ELSE LET x == CHOOSE y \in S : TRUE IN <<x>> \o USeq(S \ {x})
RECURSIVE UBuild(_, _, _, _)
UBuild(A, chars, sts, rows) ==
  IF Len(rows) = Len(sts) THEN [sts |-> sts, rows |-> rows]
  ELSE LET row == TLCEval([c \in chars |-> UStep(A, sts[Len(rows) + 1], c)])
           new == {row[c] : c \in chars} \ ({sts[k] : k \in 1..Len(sts)} \cup {NoState})
       IN UBuild(A, chars, sts \o USeq(new), Append(rows, row))
Automaton(p, cf, chars) ==
  LET A == Automaton0(p, cf)
      b == UBuild(A, chars, <<A.init>>, <<>>)
      num(st) == IF st = NoState THEN 0 ELSE CHOOSE k \in 1..Len(b.sts) : b.sts[k] = st
  IN [dt  |-> TLCEval([k \in 1..Len(b.sts) |-> [c \in chars |-> num(b.rows[k][c])]]),
      acc |-> TLCEval([k \in 1..Len(b.sts) |-> b.sts[k].acc])]

RECURSIVE UScan(_, _, _, _, _, _, _, _, _, _)
UScan(A, s, lim, sep, i, st, ms, me, ams, ame) ==
  LET restart == IF ms # 0 THEN ms + 1 ELSE i + 1
      \* the character at i (or the separator) is accepted by no transition of the state
      unmatched == IF ~A.acc[st] THEN IF ams # 0 THEN <<ams, ame>> ELSE UScan(A, s, lim, sep, restart, 1, 0, 0, 0, 0)
                   ELSE IF ms # 0 /\ me > ms THEN <<ms, me>> ELSE UScan(A, s, lim, sep, restart, 1, 0, 0, 0, 0)
  IN
  IF i > lim THEN <<>>
  ELSE IF i = lim THEN (IF sep THEN unmatched      \* the separator: no symbol accepts it; without an attempt the row is left
                              ELSE (IF ams # 0 THEN <<ams, ame>> ELSE <<>>))
  ELSE LET nx == A.dt[st][s[i]] IN
       IF nx = 0 THEN unmatched
       ELSE LET ms2 == IF ms = 0 THEN i ELSE ms
                me2 == i + 1
                a2  == IF A.acc[nx] /\ me2 > ms2 THEN <<ms2, me2>> ELSE <<ams, ame>>
            IN IF ~sep /\ i + 1 = lim
               THEN \* the text ends behind this character
                    IF A.acc[nx] THEN <<ms2, me2>>
                    ELSE IF a2[1] # 0 THEN a2
                    ELSE UScan(A, s, lim, sep, ms2 + 1, 1, 0, 0, 0, 0)
               ELSE UScan(A, s, lim, sep, i + 1, nx, ms2, me2, a2[1], a2[2])
UreRow(A, s, from, lim, sep) == UScan(A, s, lim, sep, from, 1, 0, 0, 0, 0)

\* successive matches of the walk in a row, and the last of them
RECURSIVE UTiles(_, _, _, _, _)
UTiles(A, s, from, lim, need) ==
  LET m == IF need = 0 THEN <<>> ELSE UreRow(A, s, from, lim, lim > Len(s)) IN
  IF m = <<>> THEN <<>> ELSE <<m>> \o UTiles(A, s, m[2], lim, need - 1)
RECURSIVE ULast(_, _, _, _)
ULast(A, s, from, lim) ==
  LET m == UreRow(A, s, from, lim, lim > Len(s)) IN
  IF m = <<>> THEN <<>> ELSE LET more == ULast(A, s, m[2], lim) IN IF more = <<>> THEN m ELSE more

\* the reports of vbi_search_next if ure_exec walks like this (same page walk as RefFwd / RefBwd)
\* the reports of vbi_search_next if ure_exec walks like this (same page walk as RefFwd / RefBwd);
\* bt = all successive matches in the blank row (lib[1], most rows of a page)
FirstN(t, n) == IF Len(t) <= n THEN t ELSE SubSeq(t, 1, n)
BlankTiles(A, cache) == LET s == RowText(cache.lib[1]) IN UTiles(A, s, 1, Len(s) + 1, 100)
RECURSIVE UFwdFrom(_, _, _, _, _, _)
UFwdFrom(A, bt, cache, pi, r, need) ==
  IF need = 0 \/ pi > Len(cache.pages) THEN <<>>
  ELSE IF r > NRows THEN UFwdFrom(A, bt, cache, pi + 1, 1, need)
  ELSE LET ri == cache.pages[pi][r]
           s == RowText(cache.lib[ri])
           t == IF ri = 1 THEN FirstN(bt, need) ELSE UTiles(A, s, 1, Len(s) + 1, need)
       IN [i \in 1..Len(t) |-> Hit(pi, r, t[i])] \o UFwdFrom(A, bt, cache, pi, r + 1, need - Len(t))
UreFwd(A, cache, need) == UFwdFrom(A, BlankTiles(A, cache), cache, 1, 1, need)
RECURSIVE UBwdFrom(_, _, _, _, _, _), UBwdRow(_, _, _, _, _, _, _, _)
UBwdFrom(A, bt, cache, pi, r, need) ==
  IF need = 0 \/ pi < 1 THEN <<>>
  ELSE IF r < 1 THEN UBwdFrom(A, bt, cache, pi - 1, NRows, need)
  ELSE LET ri == cache.pages[pi][r]
           s == RowText(cache.lib[ri])
           t == IF ri = 1 THEN (IF bt = <<>> THEN <<>> ELSE bt[Len(bt)]) ELSE ULast(A, s, 1, Len(s) + 1)
       IN IF t # <<>> THEN <<Hit(pi, r, t)>> \o UBwdRow(A, bt, cache, pi, r, s, t[1], need - 1)
          ELSE UBwdFrom(A, bt, cache, pi, r - 1, need)
UBwdRow(A, bt, cache, pi, r, s, lim, need) ==
  IF need = 0 THEN <<>>
  ELSE LET t == IF lim <= 1 THEN <<>> ELSE ULast(A, s, 1, lim) IN
       IF t # <<>> THEN <<Hit(pi, r, t)>> \o UBwdRow(A, bt, cache, pi, r, s, t[1], need - 1)
       ELSE UBwdFrom(A, bt, cache, pi, r - 1, need)
UreBwd(A, cache, need) == UBwdFrom(A, BlankTiles(A, cache), cache, Len(cache.pages), NRows, need)
=============================================================================
