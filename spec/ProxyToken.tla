----------------------------- MODULE ProxyToken -----------------------------
(* Channel control in the VBI proxy daemon (daemon/proxyd.c): connections, channel priorities,
   the channel-control token and its scheduler.

   State per connection as in PROXY_CLNT: connection state (REQ_STATE), chn_prio, chn_profile.is_valid,
   chn_state.token_state (REQ_TOKEN_STATE, the six states of the code), "has services"; the list order
   of proxy.p_clnts (the scheduler and get_token_owner walk it).  One action per message the daemon
   takes (vbi_proxyd_take_message), the two indications as separate daemon steps
   (vbi_proxyd_handle_client_sockets), removal of a closed connection and the scheduler timer.

   vbi_proxyd_channel_schedule() is abstracted to "any client with a valid profile at background
   priority" (the policy - cycle counts, sub-priorities, durations - is open); everything else follows
   the code: channel_update, channel_stopped, token_grant, get_token_owner.

   Ghost `holders`: the clients to which a grant has left the daemon (TOKEN_IND, or TOKEN_CNF with
   token_ind) and from which the daemon has not since received a return (NOTIFY TOKEN), a release
   (NOTIFY RELEASE), a reclaim confirmation, a new token request, nor closed the connection.

   Properties (C19, second sentence):
     SingleOwner        at most one connection has a token state other than NONE (the daemon's own
                        assert(p_owner == NULL) in vbi_proxyd_get_token_owner - a violation aborts it)
     GrantOnlyWhenFree  a grant leaves the daemon only when no other client holds the token
     GrantOnlyOnRequest ... and only to a client that asked for channel control (valid profile,
                        background priority)
     NoCrash            no assertion of the daemon is reachable

   FixTokenOwner = FALSE is the code before the repair of D7 (NOTIFY TOKEN accepted from a client that
   does not own the token); FixFlushClosed = FALSE the code that flushes a closed device;
   FixRegrant = FALSE the code that re-grants a token under reclaim and then gives it away. *)
EXTENDS Naturals, Sequences, FiniteSets, TLC

CONSTANTS Clients,          \* connection slots (the daemon's socket descriptors)
          Prios,            \* channel priorities a client may announce: 1 background, 2 interactive, 3 record
          FixTokenOwner,    \* D7 repaired
          FixFlushClosed,   \* flush of a closed device repaired
          FixRegrant        \* no new grant while a reclaim is unconfirmed

None == 0                   \* "no client" (0 is never a connection)
\* definitions a configuration may override (CONSTANT X <- Y): the flag values a CONNECT_REQ may carry, and
\* the design variant described at SendReclaim
NsiValues == BOOLEAN
OnlyOff == {FALSE}
NsiSkipsReclaim == FALSE
On == TRUE
BG == 1                     \* VBI_CHN_PRIO_BACKGROUND
IA == 2                     \* VBI_CHN_PRIO_INTERACTIVE = DEFAULT_CHN_PRIO of a new connection
TokStates == {"NONE", "RECLAIM", "RELEASE", "GRANT", "GRANTED", "RETURNED"}
Controls(s) == s \in {"GRANTED", "RETURNED"}           \* REQ_CONTROLS_CHN
Flags == {"RELEASE", "TOKEN", "FLUSH"}                  \* VBI_PROXY_CHN_* bits that matter here

VARIABLES order,    \* proxy.p_clnts: sequence of connections, oldest first
          cst,      \* connection state: "none" (no connection) | "wait" (WAIT_CON_REQ) | "fwd" (FORWARD)
          prio,     \* chn_prio
          valid,    \* chn_profile.is_valid
          tok,      \* chn_state.token_state
          svc,      \* all_services != 0
          nsi,      \* client_flags & VBI_PROXY_CLIENT_NO_STATUS_IND (from the CONNECT_REQ; FALSE before it)
          holders,  \* ghost, see above
          up        \* FALSE once an assertion of the daemon has failed

vars == <<order, cst, prio, valid, tok, svc, nsi, holders, up>>

Range(s) == {s[i] : i \in 1..Len(s)}
Listed == Range(order)
Max(S) == CHOOSE x \in S : \A y \in S : y <= x
Remove(s, c) == SelectSeq(s, LAMBDA x : x # c)
DevOpenFor(L, sv) == \E c \in L : sv[c]                 \* p_capture != NULL  <=>  some client has services
DevOpen == DevOpenFor(Listed, svc)

TypeOK == /\ order \in Seq(Clients) /\ Len(order) = Cardinality(Listed)
          /\ cst \in [Clients -> {"none", "wait", "fwd"}]
          /\ \A c \in Clients : (c \in Listed) <=> (cst[c] # "none")
          /\ prio \in [Clients -> 1..3] /\ valid \in [Clients -> BOOLEAN]
          /\ tok \in [Clients -> TokStates] /\ svc \in [Clients -> BOOLEAN]
          /\ nsi \in [Clients -> BOOLEAN] /\ \A c \in Clients : nsi[c] => cst[c] = "fwd"
          /\ holders \subseteq Clients /\ up \in BOOLEAN

Init == /\ order = <<>> /\ cst = [c \in Clients |-> "none"]
        /\ prio = [c \in Clients |-> IA] /\ valid = [c \in Clients |-> FALSE]
        /\ tok = [c \in Clients |-> "NONE"] /\ svc = [c \in Clients |-> FALSE]
        /\ nsi = [c \in Clients |-> FALSE] /\ holders = {} /\ up = TRUE

---------------------------------------------------------------------------
(* the code's helpers as operators on a token function t (L = listed connections) *)

\* vbi_proxyd_channel_stopped(): GRANTED -> RECLAIM (token must be fetched back), RETURNED -> NONE
StopOne(t, c) == [t EXCEPT ![c] = IF t[c] = "GRANTED" THEN "RECLAIM" ELSE "NONE"]
StopAll(t, L) == [c \in Clients |-> IF c \in L /\ Controls(t[c])
                                    THEN (IF t[c] = "GRANTED" THEN "RECLAIM" ELSE "NONE") ELSE t[c]]

\* vbi_proxyd_token_grant(c) with vbi_proxyd_get_token_owner(): result [t, crash]
GrantTo(t, c, L) ==
  CASE t[c] = "NONE" ->
         LET ow == {d \in L : t[d] # "NONE"} IN
         IF Cardinality(ow) > 1 THEN [t |-> t, crash |-> TRUE]          \* assert(p_owner == NULL)
         ELSE IF ow = {} THEN [t |-> [t EXCEPT ![c] = "GRANT"], crash |-> FALSE]
         ELSE LET o == CHOOSE d \in ow : TRUE IN
              IF t[o] \in {"GRANT", "RETURNED"}
              THEN [t |-> [t EXCEPT ![c] = "GRANT", ![o] = "NONE"], crash |-> FALSE]
              ELSE IF t[o] # "RELEASE"
                   THEN [t |-> [t EXCEPT ![o] = "RECLAIM"], crash |-> FALSE]
                   ELSE [t |-> t, crash |-> FALSE]
    [] t[c] = "RECLAIM" -> [t |-> [t EXCEPT ![c] = "GRANTED"], crash |-> FALSE]
    \* reclaim already sent, not yet confirmed.  The code set GRANT ("must re-assign token"), but GRANT also
    \* means "no grant has been sent yet" to the branch above, which then hands the token to someone else
    \* while c still has it.  Repaired: wait for the confirmation.
    [] t[c] = "RELEASE" -> [t |-> IF FixRegrant THEN t ELSE [t EXCEPT ![c] = "GRANT"], crash |-> FALSE]
    [] OTHER -> [t |-> t, crash |-> FALSE]

Cand(L, pr, vl) == {c \in L : vl[c] /\ pr[c] = BG}      \* whom the scheduler considers
MaxPrio(L, pr) == Max({pr[c] : c \in L} \cup {BG})
\* the scheduler's choice is open: any candidate (None iff there is none); irrelevant above background
SchedChoices(L, pr, vl) == IF MaxPrio(L, pr) = BG /\ Cand(L, pr, vl) # {} THEN Cand(L, pr, vl) ELSE {None}

\* vbi_proxyd_channel_update(dev, req, forced) with the scheduler's choice ps; result [t, crash]
Update(t, ord, pr, vl, req, forced, ps, open) ==
  LET L    == Range(ord)
      maxp == MaxPrio(L, pr)
      t1   == IF maxp > BG \/ forced THEN StopAll(t, L) ELSE t
      cand == Cand(L, pr, vl)
      ctl  == {i \in 1..Len(ord) : ord[i] \in cand /\ Controls(t1[ord[i]])}
      act  == IF ctl = {} THEN None ELSE ord[Max(ctl)]          \* p_active: the last one in list order
      t2   == IF maxp = BG /\ act # None /\ ps # act THEN StopOne(t1, act) ELSE t1
      sch  == IF maxp = BG THEN ps
              ELSE IF req # None /\ pr[req] = maxp THEN req ELSE None
  IN IF sch # None /\ maxp = BG /\ ~Controls(t2[sch])
     THEN GrantTo(t2, sch, L)
     ELSE [t |-> t2, crash |-> forced /\ ~open /\ ~FixFlushClosed]   \* vbi_capture_flush(NULL) asserts

---------------------------------------------------------------------------
(* connections *)

\* vbi_proxyd_add_connection(): appended to the list, default priority INTERACTIVE
Accept(c) == /\ up /\ cst[c] = "none"
             /\ order' = Append(order, c) /\ cst' = [cst EXCEPT ![c] = "wait"]
             /\ prio' = [prio EXCEPT ![c] = IA] /\ valid' = [valid EXCEPT ![c] = FALSE]
             /\ tok' = [tok EXCEPT ![c] = "NONE"] /\ svc' = [svc EXCEPT ![c] = FALSE]
             /\ nsi' = [nsi EXCEPT ![c] = FALSE]
             /\ UNCHANGED <<holders, up>>

\* CONNECT_REQ accepted (s: some service was granted; f: client_flags has NO_STATUS_IND).  No channel update.
Connect(c, s, f) == /\ up /\ cst[c] = "wait" /\ f \in NsiValues
                 /\ cst' = [cst EXCEPT ![c] = "fwd"] /\ svc' = [svc EXCEPT ![c] = s]
                 /\ nsi' = [nsi EXCEPT ![c] = f]
                 /\ UNCHANGED <<order, prio, valid, tok, holders, up>>

\* SERVICE_REQ
ServiceReq(c, s) == /\ up /\ cst[c] = "fwd"
                    /\ svc' = [svc EXCEPT ![c] = s]
                    /\ UNCHANGED <<order, cst, prio, valid, tok, nsi, holders, up>>

\* connection closed (any reason) and removed from the list in the same pass of the main loop:
\* services updated, then channel_update(NULL) only if the device is (still) open
Gone(c) ==
  /\ up /\ cst[c] # "none"
  /\ LET ord2 == Remove(order, c)
         svc2 == [svc EXCEPT ![c] = FALSE]
         t0   == [tok EXCEPT ![c] = "NONE"]
         open == DevOpenFor(Range(ord2), svc2)
     IN /\ order' = ord2 /\ svc' = svc2
        /\ cst' = [cst EXCEPT ![c] = "none"] /\ nsi' = [nsi EXCEPT ![c] = FALSE]
        /\ prio' = [prio EXCEPT ![c] = IA] /\ valid' = [valid EXCEPT ![c] = FALSE]
        /\ holders' = holders \ {c}
        /\ IF open
           THEN \E ps \in SchedChoices(Range(ord2), prio', valid') :
                   LET r == Update(t0, ord2, prio', valid', None, FALSE, ps, open) IN
                   tok' = r.t /\ up' = ~r.crash
           ELSE tok' = t0 /\ up' = up

---------------------------------------------------------------------------
(* channel messages (state FORWARD) *)

\* CHN_TOKEN_REQ: priority and profile replaced, scheduler state cleared (memset), channel update;
\* a grant to the requester is piggy-backed on the confirmation (token_ind)
TokenReq(c, p, v) ==
  /\ up /\ cst[c] = "fwd"
  /\ prio' = [prio EXCEPT ![c] = p] /\ valid' = [valid EXCEPT ![c] = v]
  /\ \E ps \in SchedChoices(Listed, prio', valid') :
        LET r == Update([tok EXCEPT ![c] = "NONE"], order, prio', valid', c, FALSE, ps, DevOpen) IN
        /\ tok' = IF r.t[c] = "GRANT" THEN [r.t EXCEPT ![c] = "GRANTED"] ELSE r.t
        /\ holders' = IF r.t[c] = "GRANT" THEN holders \cup {c} ELSE holders \ {c}
        /\ up' = ~r.crash
  /\ UNCHANGED <<order, cst, svc, nsi>>

\* CHN_NOTIFY_REQ with flag set F
TokenAccepted(c) == FixTokenOwner => tok[c] # "NONE"     \* who may return the token
Notify(c, F) ==
  /\ up /\ cst[c] = "fwd"
  /\ LET forced == "FLUSH" \in F /\ ~Controls(tok[c])
         rel    == "RELEASE" \in F
         ret    == ~rel /\ "TOKEN" \in F /\ TokenAccepted(c)
         t1     == IF rel THEN [tok EXCEPT ![c] = "NONE"]
                   ELSE IF ret THEN [tok EXCEPT ![c] = "RETURNED"] ELSE tok
         upd    == "FLUSH" \in F \/ (rel /\ tok[c] # "NONE") \/ ret
     IN /\ valid' = IF rel THEN [valid EXCEPT ![c] = FALSE] ELSE valid
        /\ holders' = IF rel \/ ret THEN holders \ {c} ELSE holders
        /\ IF upd
           THEN \E ps \in SchedChoices(Listed, prio, valid') :
                   LET r == Update(t1, order, prio, valid', c, forced, ps, DevOpen) IN
                   tok' = r.t /\ up' = ~r.crash
           ELSE tok' = t1 /\ up' = up
  /\ UNCHANGED <<order, cst, prio, svc, nsi>>

\* CHN_RECLAIM_CNF: taken in every connection state, effective only while a reclaim is outstanding
ReclaimCnf(c) ==
  /\ up /\ cst[c] # "none"
  /\ IF tok[c] = "RELEASE"
     THEN /\ holders' = holders \ {c}
          /\ \E ps \in SchedChoices(Listed, prio, valid) :
                LET r == Update([tok EXCEPT ![c] = "NONE"], order, prio, valid, None, FALSE, ps, DevOpen) IN
                tok' = r.t /\ up' = ~r.crash
     ELSE UNCHANGED <<tok, holders, up>>
  /\ UNCHANGED <<order, cst, prio, valid, svc, nsi>>

\* daemon steps: indications sent when the connection is idle
\* CHN_RECLAIM_REQ is a request that needs the client's confirmation, not a status indication: it is sent to
\* every client, whatever its flags (NO_STATUS_IND suppresses only CHN_CHANGE_IND, see ChangeIndTo).  The design
\* variant NsiSkipsReclaim ("a NO_STATUS_IND client gets no reclaim: the token is taken back without a
\* handshake and the channel is scheduled again") is kept to show what the flag must NOT do (MC_ProxyToken_nsiskip:
\* OneHolder / GrantOnlyWhenFree violated).
SendReclaim(c) == /\ up /\ cst[c] # "none" /\ tok[c] = "RECLAIM"
                  /\ IF NsiSkipsReclaim /\ nsi[c]
                     THEN \E ps \in SchedChoices(Listed, prio, valid) :
                             LET r == Update([tok EXCEPT ![c] = "NONE"], order, prio, valid, None, FALSE, ps, DevOpen) IN
                             tok' = r.t /\ up' = ~r.crash
                     ELSE tok' = [tok EXCEPT ![c] = "RELEASE"] /\ up' = up
                  /\ UNCHANGED <<order, cst, prio, valid, svc, nsi, holders>>
SendGrant(c) == /\ up /\ cst[c] # "none" /\ tok[c] = "GRANT"
                /\ tok' = [tok EXCEPT ![c] = "GRANTED"] /\ holders' = holders \cup {c}
                /\ UNCHANGED <<order, cst, prio, valid, svc, nsi, up>>

\* vbi_proxyd_channel_timer(): a reservation expired (time is abstracted)
Timer == /\ up /\ Cardinality(Listed) > 1 /\ DevOpen
         /\ \E c \in Listed : Controls(tok[c])
         /\ \E ps \in SchedChoices(Listed, prio, valid) :
               LET r == Update(tok, order, prio, valid, None, FALSE, ps, DevOpen) IN
               tok' = r.t /\ up' = ~r.crash
         /\ UNCHANGED <<order, cst, prio, valid, svc, nsi, holders>>

Next == \/ \E c \in Clients : \/ Accept(c) \/ Gone(c) \/ ReclaimCnf(c) \/ SendReclaim(c) \/ SendGrant(c)
                              \/ \E s \in BOOLEAN : ServiceReq(c, s) \/ \E f \in BOOLEAN : Connect(c, s, f)
                              \/ \E p \in Prios, v \in BOOLEAN : TokenReq(c, p, v)
                              \/ \E F \in SUBSET Flags : Notify(c, F)
        \/ Timer

Spec == Init /\ [][Next]_vars

---------------------------------------------------------------------------
(* properties *)

Owners == {c \in Listed : tok[c] # "NONE"}
SingleOwner == Cardinality(Owners) <= 1
NoCrash == up
\* the token is with at most one client
OneHolder == Cardinality(holders) <= 1
\* a client that holds the token is the daemon's owner (the daemon knows where the token is;
\* GRANT: a reclaim in progress was cancelled by granting the token to its holder again)
HolderIsOwner == \A c \in holders : tok[c] \in {"GRANTED", "RECLAIM", "RELEASE", "GRANT"}

\* a grant leaves the daemon for c (c joins the holders) ...
GrantTo_(c) == c \in holders' /\ (c \notin holders \/ tok[c] # tok'[c])
GrantOnlyWhenFree  == [][\A c \in Clients : (c \in holders' /\ c \notin holders) => holders \ {c} = {}]_vars
GrantOnlyOnRequest == [][\A c \in Clients : (c \in holders' /\ c \notin holders) => valid'[c] /\ prio'[c] = BG]_vars
\* a grant in a TOKEN_CNF re-adds the requester: covered by OneHolder in the next state
GrantedAsked == \A c \in Clients : tok[c] \in {"GRANT"} => valid[c] /\ prio[c] = BG

\* CHN_CHANGE_IND (norm change, flush) is the status indication: vbi_proxyd_channel_flush / update_scanning mark
\* only clients without NO_STATUS_IND.  Not part of the property (C19 says nothing about status indications): Trace_ProxyConn
\* accepts a `chg` line for any open connection; c19.py counts the ones that do not satisfy ChangeIndTo as an observation.
ChangeIndTo(c) == cst[c] # "none" /\ ~nsi[c]
\* the population is mixed (reachability companion: must be violated)
NeverMixedReclaim == ~\E c, d \in Clients : nsi[c] /\ ~nsi[d] /\ tok[c] = "RELEASE" /\ cst[d] = "fwd" /\ valid[d]

\* reachability companions (must be violated: the antecedents above are not vacuous)
NeverGranted == holders = {}
NeverReclaimed == \A c \in Clients : tok[c] # "RELEASE"
=============================================================================
