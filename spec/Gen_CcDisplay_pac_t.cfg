\* roll-up windows: every depth with base rows at the top of the screen (field 2: every pair is a command)
CONSTANTS Chans = {3} Rows = {0, 1, 2, 3, 4, 5, 6, 7, 8, 9, 10, 11, 12, 13, 14} Chars = {65} MaxPairs = 6
  Indents = {0} Depths = {2, 3, 4} Tabs = {1}
  Kinds = {"RU", "CR", "PAC", "EDM", "TEXT"}
  Beyond = {}
  Mix <- NoMix Bursts <- NoBurst
SPECIFICATION GSpec
VIEW gview2
ACTION_CONSTRAINT TDump
CHECK_DEADLOCK FALSE
