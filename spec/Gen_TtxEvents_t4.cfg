CONSTANTS Fns = {1, 2} Uds = {1, 2} MaxTop = 3 MaxNested = 1 Types = {"ttx", "net"} Masks <- M2 FixUp = TRUE MaxProbe = 0 ResetOnActivate = TRUE
SPECIFICATION GSpec
CONSTRAINT Dump
CHECK_DEADLOCK FALSE
