CONSTANTS Entries = {"MEM", "ALLOC", "FP", "FILE"} CallerSizes = {0, 1, 2, 3, 4, 5, 6, 7} WSizes = {0, 1, 3} PSizes = {0, 1, 3} GSizes = {1, 8}
  FastAt = 3 Slack = {0, 2} MaxOps = 3 CarryOver = TRUE SwitchOnOverflow = TRUE
SPECIFICATION Spec
INVARIANTS NeverFitsAfterSwitch

CHECK_DEADLOCK FALSE
