------------------------------- MODULE DvbMux -------------------------------
(* The DVB VBI multiplexer (vbi_dvb_pes_mux_new / vbi_dvb_ts_mux_new, vbi_dvb_mux_feed, vbi_dvb_mux_cor,
   vbi_dvb_mux_reset, vbi_dvb_mux_set_pes_packet_size; src/dvb_mux.h) for property C06, composed with the
   demultiplexer of DvbDemux.

   State of one multiplexer (struct _vbi_dvb_mux): the configuration, the continuity counter, the
   continuation state of a raw line that did not fit (raw_samples_left, raw_line), the coroutine state
   (cor_offset, cor_end, cor_ts_left and the packet buffer).  One action per API call:
     FeedCb      vbi_dvb_mux_feed(): one frame -> one PES packet, handed to the callback as a whole
                 (PES) or in transport packets (TS), or rejected
     CorCall(b)  vbi_dvb_mux_cor() with an output buffer of b bytes: generates the packet of the
                 frame at its first call, then copies it out, inserting TS headers on the fly
     Reset       vbi_dvb_mux_reset()
     SetDid(d)   vbi_dvb_mux_set_data_identifier(): between any two calls, in particular while a packet
                 is partly delivered through the coroutine; refused (FALSE, nothing changes) for an
                 identifier outside 0x10-0x1F / 0x99-0x9B
     SetSizes(r) vbi_dvb_mux_set_pes_packet_size(): the same; the request is rounded to the grid of
                 transport packets (RoundSizes)
   A reconfiguration takes effect for the packets generated after it: a packet that was generated and is
   partly delivered is completed as generated ("We do not store this in mx->packet[] directly to avoid a
   race with the coroutine", vbi_dvb_pes_mux_new).  Every record of hist and the coroutine state carry
   the configuration their packet was generated under; the properties judge a packet by that one.
   The encoder (Gen) follows generate_pes_packet(): sliced lines become data units in order, a raw line
   becomes adjacent sample segments, whatever does not fit into max_packet_size rejects the frame.

   Properties (history variable hist: one record per frame handed in):
     WellFormed      every emitted packet is conformant by the grammar of DvbStream (written from the
                     standards, independent of the encoder)
     CarriesInput    its data units carry exactly the lines handed in, in order
     RejectSilent    a rejected frame emits nothing;  RejectIsNoOp: and changes nothing
     Usable          a frame that is legal and fits is accepted in every reachable state
     CorEqualsCb     the coroutine hands out the bytes the callback variant would
     RoundTrip       the demultiplexer (DvbDemux) returns the accepted frames, each with its PTS, the
                     last one pending

   ClearOnReject = FALSE is the multiplexer as originally coded: a frame rejected while a raw line is
   half encoded leaves raw_samples_left set (defect D10).                                          *)
EXTENDS DvbMuxRules

CONSTANTS ClearOnReject,
          RawN,        \* samples of a raw line (720)
          Cfgs,        \* configurations [ts, pid, did, min, max]
          NFrames,     \* number of frames of FrameTab handed in (with repetition)
          MaxFrames,   \* length of a history
          CorBufs,     \* output buffer sizes of vbi_dvb_mux_cor
          Dids,        \* data_identifiers requested by vbi_dvb_mux_set_data_identifier between calls
          SizeReqs,    \* <<min, max>> requested by vbi_dvb_mux_set_pes_packet_size between calls
          MaxReconf,   \* number of reconfigurations in a behaviour
          WriteThrough \* TRUE: the setter pokes the data_identifier into the packet buffer (a deviation, for MC_DvbMux_wt.cfg)

MustAccept(frame, cf) == MustAcceptN(frame, cf, RawN)
MustReject(frame, cf) == MustRejectN(frame, cf, RawN)

-----------------------------------------------------------------------------
(* ---- generate_pes_packet() ---- *)
Cap(c) == c.max - HB

\* the segments of a raw line into pleft bytes: rl samples are still to be encoded
RECURSIVE Segs(_, _, _, _)
Segs(line, rl, pleft, acc) ==
  IF rl = 0 \/ pleft < 7 THEN [us |-> acc, rl |-> rl, pleft |-> pleft]
  ELSE LET n == IF pleft = 6 + SegMax + 1 THEN Min2(rl, SegMax - 1) ELSE Min2(Min2(rl, SegMax), pleft - 6)
           pos == RawN - rl
           seg == EncRawSeg(line, rl = RawN, rl = n, pos, [k \in 1..n |-> RawSample(line, pos + k - 1)])
       IN Segs(line, rl - n, pleft - (6 + n), Append(acc, seg))

\* a Teletext line without line number goes to the field of the numbered line before it (in its group)
EncItem(it, fixed, glast) ==
  LET u == EncUnit(it, fixed) IN
  IF it.line = 0 /\ glast >= 313 THEN [u EXCEPT ![3] = 192] ELSE u

(* w = [last, glast, pleft, us, rl, rline, r]: last numbered line, the same within the group of sliced lines
   since the last raw line, room left, data units so far, raw continuation, result so far ("go" / "fail" / "full") *)
RECURSIVE Walk(_, _, _, _)
Walk(c, frame, i, w) ==
  IF i > Len(frame) \/ w.r # "go" THEN w
  ELSE LET it == frame[i]  fixed == DidFixed(c.did) IN
       IF it.line > 0 /\ it.line <= w.last THEN [w EXCEPT !.r = "fail"]
       ELSE LET w1 == IF it.line > 0 THEN [w EXCEPT !.last = it.line] ELSE w IN
            IF it.id = RAW THEN
               IF ~RawLineLegal(it.line) THEN [w1 EXCEPT !.r = "fail", !.rl = 0]
               ELSE LET g == Segs(it.line, IF w1.rl = 0 THEN RawN ELSE w1.rl, w1.pleft, <<>>) IN
                    IF g.rl > 0 THEN [w1 EXCEPT !.us = @ \o g.us, !.pleft = g.pleft, !.rl = g.rl, !.rline = it.line, !.r = "full"]
                    ELSE Walk(c, frame, i + 1, [w1 EXCEPT !.us = @ \o g.us, !.pleft = g.pleft, !.rl = 0, !.glast = 0])
            ELSE IF ~ItemLegal(it) THEN [w1 EXCEPT !.r = "fail"]
            ELSE LET u == EncItem(it, fixed, w1.glast) IN
                 IF Len(u) > w1.pleft THEN [w1 EXCEPT !.r = "full"]
                 ELSE Walk(c, frame, i + 1, [w1 EXCEPT !.us = Append(@, u), !.pleft = @ - Len(u),
                                                       !.glast = IF it.line > 0 THEN it.line ELSE @])

(* m = [cc, rl, rline]: -> [ok, pes, rl, rline].  The raw line in progress must be continued by the
   first line of the frame (VBI_ERR_RAW_DATA_INTERRUPTION otherwise). *)
Gen(c, m, frame, pts) ==
  IF m.rl > 0 /\ (frame = <<>> \/ frame[1].id # RAW \/ frame[1].line # m.rline)
  THEN [ok |-> FALSE, pes |-> <<>>, rl |-> m.rl, rline |-> m.rline]
  ELSE LET w == Walk(c, frame, 1, [last |-> 0, glast |-> 0, pleft |-> Cap(c), us |-> <<>>, rl |-> m.rl, rline |-> m.rline, r |-> "go"]) IN
       IF w.r = "go" THEN [ok |-> TRUE, pes |-> EncPesU(w.us, pts, c.did, c.min), rl |-> 0, rline |-> 0]
       ELSE [ok |-> FALSE, pes |-> <<>>, rl |-> w.rl, rline |-> IF w.rl > 0 THEN w.rline ELSE 0]

\* the failure paths of vbi_dvb_mux_feed / vbi_dvb_mux_cor
AfterReject(g) == IF ClearOnReject THEN [rl |-> 0, rline |-> 0] ELSE [rl |-> g.rl, rline |-> g.rline]

-----------------------------------------------------------------------------
VARIABLES c,        \* configuration in force (the getters)
          m,        \* [cc, rl, rline]
          cor,      \* [off, end, tsleft, pkt, pes, acc, cc0, c]: c = the configuration the packet was generated under
          cur,      \* <<>> or <<[frame, pts]>>: the frame being handed to the coroutine
          hist,     \* [frame, pts, ok, via, pes, bytes, cc0, c]: c = the configuration in force when the frame was handed in
          nre       \* reconfigurations so far
vars == <<c, m, cor, cur, hist, nre>>

CONSTANT FrameTab(_)        \* the k-th frame of the alphabet (1 .. NFrames)
PtsTab(k) == <<k % 8, 1000 * k + 3>>

NoCfg == [ts |-> FALSE, pid |-> 0, did |-> 0, min |-> 0, max |-> 0]
CorIdle == [off |-> 0, end |-> 0, tsleft |-> 0, pkt |-> <<>>, pes |-> <<>>, acc |-> <<>>, cc0 |-> 0, c |-> NoCfg]
Init == /\ c \in Cfgs /\ m = [cc |-> 0, rl |-> 0, rline |-> 0] /\ cor = CorIdle /\ cur = <<>> /\ hist = <<>> /\ nre = 0

CbBytes(pes, cc0) == IF c.ts THEN TsPackets(pes, c.pid, cc0, TRUE) ELSE pes
NTs(pes) == Len(pes) \div TSP

FeedCb(k) ==
  /\ cur = <<>> /\ Len(hist) < MaxFrames
  /\ LET frame == FrameTab(k)  pts == PtsTab(Len(hist) + 1)  g == Gen(c, m, frame, pts) IN
     IF g.ok
     THEN /\ m' = [cc |-> IF c.ts THEN m.cc + NTs(g.pes) ELSE m.cc, rl |-> 0, rline |-> 0]
          /\ hist' = Append(hist, [frame |-> frame, pts |-> pts, ok |-> TRUE, via |-> "cb", pes |-> g.pes,
                                   bytes |-> CbBytes(g.pes, m.cc), cc0 |-> m.cc, c |-> c])
     ELSE /\ m' = [m EXCEPT !.rl = AfterReject(g).rl, !.rline = AfterReject(g).rline]
          /\ hist' = Append(hist, [frame |-> frame, pts |-> pts, ok |-> FALSE, via |-> "cb", pes |-> <<>>, bytes |-> <<>>, cc0 |-> m.cc, c |-> c])
  /\ cor' = CorIdle /\ UNCHANGED <<c, cur, nre>>          \* "Lost unconsumed data from a previous vbi_dvb_mux_cor() call"

TsHdr(first, cc) == TsHeader(c.pid, first, cc)
Overwrite(q, at, v) == [i \in 1..Len(q) |-> IF i > at /\ i <= at + Len(v) THEN v[i - at] ELSE q[i]]

\* the copy loop of vbi_dvb_mux_cor: b bytes of room, x = [off, tsleft, pkt, acc, cc]
RECURSIVE CorCopy(_, _, _)
CorCopy(x, b, end) ==
  IF ~c.ts THEN LET n == Min2(b, end - x.off) IN [x EXCEPT !.acc = @ \o SubSeq(x.pkt, x.off + 1, x.off + n), !.off = @ + n]
  ELSE LET y == IF x.tsleft = 0
                THEN [x EXCEPT !.off = @ - 4, !.pkt = Overwrite(x.pkt, x.off - 4, TsHdr(x.off - 4 = 0, x.cc)), !.cc = @ + 1, !.tsleft = TSL]
                ELSE x
           n == Min2(b, y.tsleft)
           z == [y EXCEPT !.acc = @ \o SubSeq(y.pkt, y.off + 1, y.off + n), !.off = @ + n, !.tsleft = @ - n]
       IN IF b - n > 0 /\ z.off < end THEN CorCopy(z, b - n, end) ELSE z

CorStart(k) == /\ cur = <<>> /\ Len(hist) < MaxFrames /\ CorBufs # {}
               /\ cur' = <<[frame |-> FrameTab(k), pts |-> PtsTab(Len(hist) + 1)]>> /\ UNCHANGED <<c, m, cor, hist, nre>>

CorCall(b) ==
  /\ cur # <<>>
  /\ LET frame == cur[1].frame  pts == cur[1].pts
         fresh == cor.off >= cor.end
         g == Gen(c, m, frame, pts) IN
     IF fresh /\ ~g.ok
     THEN /\ m' = [m EXCEPT !.rl = AfterReject(g).rl, !.rline = AfterReject(g).rline]
          /\ cor' = CorIdle /\ cur' = <<>>
          /\ hist' = Append(hist, [frame |-> frame, pts |-> pts, ok |-> FALSE, via |-> "cor", pes |-> <<>>, bytes |-> <<>>, cc0 |-> m.cc, c |-> c])
     ELSE LET st == IF fresh THEN [off |-> 4, end |-> Len(g.pes) + 4, tsleft |-> 0, pkt |-> <<0, 0, 0, 0>> \o g.pes, pes |-> g.pes, acc |-> <<>>, cc0 |-> m.cc, c |-> c]
                    ELSE cor
              x == CorCopy([off |-> st.off, tsleft |-> st.tsleft, pkt |-> st.pkt, acc |-> st.acc, cc |-> m.cc], b, st.end)
              done == x.off >= st.end IN
          /\ m' = [cc |-> x.cc, rl |-> 0, rline |-> 0]
          /\ cor' = [off |-> x.off, end |-> st.end, tsleft |-> x.tsleft, pkt |-> x.pkt, pes |-> st.pes, acc |-> IF done THEN <<>> ELSE x.acc, cc0 |-> st.cc0, c |-> st.c]
          /\ cur' = IF done THEN <<>> ELSE cur
          /\ hist' = IF done THEN Append(hist, [frame |-> frame, pts |-> pts, ok |-> TRUE, via |-> "cor",
                                               pes |-> st.pes, bytes |-> x.acc, cc0 |-> st.cc0, c |-> st.c])
                     ELSE hist
  /\ UNCHANGED <<c, nre>>

Reset == /\ cur = <<>> /\ hist # <<>> /\ Len(hist) < MaxFrames
         /\ m' = [cc |-> (m.cc + 15) % 16, rl |-> 0, rline |-> 0] /\ cor' = CorIdle
         /\ hist' = Append(hist, [frame |-> <<>>, pts |-> <<0, 0>>, ok |-> FALSE, via |-> "reset", pes |-> <<>>, bytes |-> <<>>, cc0 |-> m.cc, c |-> c])
         /\ UNCHANGED <<c, cur, nre>>

(* ---- reconfiguration between two calls ----
   Enabled whenever no call is running: between frames and while a packet is partly delivered through the
   coroutine (cor.off < cor.end), at every offset.  (Between CorStart - the choice of the frame, not an
   API call - and the first CorCall it would be the same as before CorStart.)
   Nothing but the configuration changes: the packet buffer, the offsets, the continuity counter and
   the frame being delivered stay.  WriteThrough is the deviation "the setter stores the byte in
   mx->packet[] directly": the byte of a packet not yet delivered up to there changes under the reader. *)
CanReconf == nre < MaxReconf /\ ~(cur # <<>> /\ cor.off >= cor.end)
DidAt == 4 + HB                        \* 1-based position of the data_identifier in cor.pkt (mx->packet[4 + 45])
SetDid(d) == /\ CanReconf /\ nre' = nre + 1
             /\ c' = (IF DidLegal(d) THEN [c EXCEPT !.did = d] ELSE c)            \* FALSE: "outside the valid ranges"
             /\ cor' = (IF WriteThrough /\ DidLegal(d) /\ Len(cor.pkt) >= DidAt THEN [cor EXCEPT !.pkt[DidAt] = d] ELSE cor)
             /\ UNCHANGED <<m, cur, hist>>
SetSizes(r) == /\ CanReconf /\ nre' = nre + 1
               /\ c' = [c EXCEPT !.min = RoundSizes(r[1], r[2])[1], !.max = RoundSizes(r[1], r[2])[2]]
               /\ UNCHANGED <<m, cor, cur, hist>>

\* the scaled layouts have no room for sample segments in the fixed length format
Supported(k) == ~(DidFixed(c.did) /\ RawItems(FrameTab(k)) # <<>>)
Next == \/ \E k \in 1..NFrames : Supported(k) /\ (FeedCb(k) \/ CorStart(k))
        \/ \E b \in CorBufs : CorCall(b)
        \/ Reset
        \/ \E d \in Dids : SetDid(d)
        \/ \E r \in SizeReqs : SetSizes(r)
Spec == Init /\ [][Next]_vars

-----------------------------------------------------------------------------
(* ---- properties ---- *)
CutTs(b) == [i \in 1..(Len(b) \div TSL) |-> [h |-> SubSeq(b, (i - 1) * TSL + 1, (i - 1) * TSL + 4),
                                              pay |-> SubSeq(b, (i - 1) * TSL + 5, i * TSL)]]
PesCfg(g) == [did |-> g.did, min |-> g.min, max |-> g.max]

RawWanted(frame) == [i \in 1..Len(RawItems(frame)) |->
                       [line |-> RawItems(frame)[i].line, pos |-> 0, ys |-> [k \in 1..RawN |-> RawSample(RawItems(frame)[i].line, k - 1)]]]
PacketOK(h) ==
  /\ PesConformant(h.pes, PesCfg(h.c), h.pts)             \* for the configuration the packet was generated under
  /\ Ascending(LineSeq(h.pes))
  /\ RawOf(h.pes).ok
  /\ c.ts => Len(h.bytes) % TSL = 0 /\ TsConformant(CutTs(h.bytes), h.pes, c.pid, h.cc0)
  /\ ~c.ts => h.bytes = h.pes
WellFormed == \A i \in 1..Len(hist) : hist[i].ok => PacketOK(hist[i])
CarriesInput == \A i \in 1..Len(hist) : hist[i].ok =>
                  /\ Carried(hist[i].pes) = [j \in 1..Len(Sliced(hist[i].frame)) |-> NormLine(Sliced(hist[i].frame)[j])]
                  /\ RawOf(hist[i].pes).lines = RawWanted(hist[i].frame)
RejectSilent == \A i \in 1..Len(hist) : ~hist[i].ok => hist[i].bytes = <<>>
Decisions == \A i \in 1..Len(hist) : hist[i].via # "reset" =>
               /\ MustReject(hist[i].frame, hist[i].c) => ~hist[i].ok
               /\ hist[i].ok => FrameLegal(hist[i].frame)
CorEqualsCb == \A i \in 1..Len(hist) : hist[i].ok /\ hist[i].via = "cor" => hist[i].bytes = CbBytes(hist[i].pes, hist[i].cc0)
\* consecutive continuity counters over the whole output (a reset steps back by one: "make clear that continuity was lost")
RECURSIVE CcChain(_, _)
CcChain(i, cc) == IF i > Len(hist) THEN TRUE
                  ELSE IF hist[i].via = "reset" THEN CcChain(i + 1, (cc + 15) % 16)
                  ELSE IF ~hist[i].ok THEN CcChain(i + 1, cc)
                  ELSE hist[i].cc0 % 16 = cc /\ CcChain(i + 1, (cc + NTs(hist[i].pes)) % 16)
Continuity == c.ts => CcChain(1, 0)

Usable == cur = <<>> => \A k \in 1..NFrames : Supported(k) /\ MustAccept(FrameTab(k), c) => Gen(c, m, FrameTab(k), <<0, 0>>).ok
Rejected == Len(hist') = Len(hist) + 1 /\ ~hist'[Len(hist')].ok /\ hist'[Len(hist')].via # "reset"
RejectIsNoOp == [][Rejected => m' = m]_vars

\* the frames a receiver must hand out: the accepted ones, sliced lines only, the last one pending
Accepted == SelectSeq(hist, LAMBDA h : h.ok)
Wanted == [i \in 1..(Len(Accepted) - 1) |->
             [lines |-> [j \in 1..Len(Sliced(Accepted[i].frame)) |-> NormLine(Sliced(Accepted[i].frame)[j])], pts |-> Accepted[i].pts]]
NormOut(fr) == [i \in 1..Len(fr) |-> [lines |-> [j \in 1..Len(fr[i].lines) |-> NormLine(fr[i].lines[j])], pts |-> fr[i].pts]]
NoReset == \A i \in 1..Len(hist) : hist[i].via # "reset"
(* a receiver recognises a frame by a line number that does not ascend: every accepted frame has a
   numbered sliced line and starts at or below the last line of its predecessor *)
Numbered(frame) == SelectSeq(Lines0(Sliced(frame)), LAMBDA x : x > 0)
Recognisable == /\ \A i \in 1..Len(Accepted) : Numbered(Accepted[i].frame) # <<>>
                /\ \A i \in 2..Len(Accepted) : Numbered(Accepted[i].frame)[1] <= Numbered(Accepted[i - 1].frame)[Len(Numbered(Accepted[i - 1].frame))]
RoundTrip ==
  cur = <<>> /\ Len(Accepted) > 0 /\ Recognisable =>
    LET pes == Cat([i \in 1..Len(Accepted) |-> Accepted[i].pes])
        all == Cat([i \in 1..Len(Accepted) |-> Accepted[i].bytes]) IN
    /\ NormOut(Frames(pes, Len(pes), "err")) = Wanted
    /\ c.ts /\ NoReset => NormOut(Feed(all, S0(TRUE, TRUE, c.pid, "all"), Len(all)).d.out) = Wanted
=============================================================================
