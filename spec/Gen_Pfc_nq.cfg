CONSTANTS CiStart = 15 K = 39 NP = 2 Sizes = {1, 35, 73} Fills = {0} MaxBlocks = 2 Faults = {"none"} Units = {"bp"} Policies = {"strict"} UnitBlocks = 2 TailCheck = TRUE Foreign = {"none", "page"} TailAtForeign = TRUE Noise = {0, 26, 27, 28, 29, 30, 31, 101, 125, 126, 127, 128, 129, 130, 131} NoisePos = {"all", "one"} NoiseFaults = {"none"}
SPECIFICATION GLeapSpec
CONSTRAINT Dump
INVARIANTS Sound Complete Resume NoiseNeutral
CHECK_DEADLOCK FALSE
