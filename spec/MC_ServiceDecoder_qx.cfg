\* XDS / caption routing on field 2 with time anomalies, all services enabled
CONSTANTS
  Mags = {} PageSet <- NoPages Rows = {} Cids = {} Flofs = {} SysPages = {} SpecialPages = {} DesyncPages = {} InertPages = {} HFlags = {}
  Nats = {} X26Dc = {} X26Good = {} ExtPk = {} ExtDc = {}
  NK = 1 KeyCls <- Cls1 KeyTyp <- Typ1 Bytes = {64} L = 2 ErrPairs <- ErrS
  Carriers = {} Vals = {} WssWords = {}
  Fns = {0} Uds = {0} Types <- TypesAll Masks <- NoMasks
  CcChans = {3} CcKinds = {"RCL", "CR"} CcRows = {} CcChars = {64}
  FetchPages = {} FetchSubs = {} FetchLv = {} FetchNav = {} SearchPages = {} Modules = {} Regions = {} Patterns = {} CcPages = {} Levels = {} RegionVals = {}
  ArbKinds = {} ProgOn = FALSE ProgN26 = {} ItvLens = {} DtSet = {"reg", "back"} MaxLines = 4 MaxSteps = 10
SPECIFICATION SpecAll
VIEW mcview
CONSTRAINT Bounded
INVARIANTS TypeOK XdsBound CursorOK ItvBound HandlersOK FrameOK
CHECK_DEADLOCK FALSE
