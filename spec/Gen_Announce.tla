---------------------------- MODULE Gen_Announce ----------------------------
(* Reception / registration sequences for the announce driver with the events each handler is handed and the
   cache state the specification predicts after each step.  The first element is the registration of handler h1
   before the stream starts. *)
EXTENDS Announce, Json
VARIABLE hist
gvars == <<vars, hist>>
gview == vars
EvOut(d) == [h |-> d.h, t |-> d.e.t, c |-> d.e.c, v |-> d.e.v, l |-> d.e.l, nuid |-> d.e.nuid, call |-> d.e.call,
             asp |-> IF d.e.t = "ASPECT" THEN d.e.cni ELSE "-"]
Step(act, es, order, hm, ca) == [act |-> act, evs |-> LET d == Delivered(es, order, hm) IN [i \in 1..Len(d) |-> EvOut(d[i])],
                                 raised |-> Len(es), cache |-> ca]
GInit == Init /\ hist = <<Step(lastAct, <<>>, horder, hmask, cache)>>
\* with gaps (MaxIdle > 0) empty frames may follow the last reception: the countdown expires (or not) behind it
GNext == /\ nrecv < MaxRecv \/ MaxIdle > 0
         /\ Next /\ nrecv' <= MaxRecv /\ hist' = Append(hist, Step(lastAct', evs', horder', hmask', cache'))
GSpec == GInit /\ [][GNext]_gvars
\* an invariant is evaluated once per distinct state (of the VIEW): one behaviour into every distinct state after MaxRecv receptions
Dump == nrecv = MaxRecv => PrintT(<<"TR", ToJson(hist)>>)
=============================================================================
