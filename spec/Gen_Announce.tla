---------------------------- MODULE Gen_Announce ----------------------------
(* Reception sequences for the announce driver with the events and the cache state the
   specification predicts after each reception. *)
EXTENDS Announce, Json
VARIABLE hist
gvars == <<vars, hist>>
gview == vars
GInit == Init /\ hist = <<>>
EvOut(e) == [t |-> e.t, c |-> e.c, v |-> e.v, nuid |-> e.nuid, call |-> e.call]
GNext == Next /\ hist' = Append(hist, [act |-> lastAct', evs |-> [i \in 1..Len(evs') |-> EvOut(evs'[i])], cache |-> cache'])
GSpec == GInit /\ [][GNext]_gvars
Dump == /\ (nrecv = MaxRecv => PrintT(<<"TR", ToJson(hist)>>))
        /\ nrecv < MaxRecv
=============================================================================
