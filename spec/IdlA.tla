------------------------------- MODULE IdlA -------------------------------
(* Independent Data Line packets, format A (EN 300 708 section 6.5), as received by
   vbi_idl_demux_feed() / idl_a_demux_feed() in src/idl_demux.c.

   SENDER.  A service transmits user data for (channel, service packet address) in packets
       byte 0 channel^   1 designation^ (15)   2 format type FT^   3 IAL^ (address length, DEPENDENT bit)
       4.. address nibbles^   [RI]  [CI]  [DL]   user data with dummy bytes   CRC (2 bytes)
   where ^ marks a Hamming 8/4 protected UNIT.  The continuity indicator counts the packets of the service modulo 256, it is
   carried explicitly or hidden in the CRC.  WireOf/Payload below say exactly which wire bytes are dummy bytes
   (EN 300 708 6.5.7.1: a dummy byte follows 8 consecutive bytes 0x00 or 8 consecutive bytes 0xFF).
   Other services send on neighbouring addresses / channels, ordinary Teletext packets are mixed in.

   CHANNEL (fault alphabet, one fault per packet at UNIT granularity):
       none | drop | crc (a bit of the CRC protected part flipped so that the check fails)
       [u, i, "err1"]  one bit of the Hamming protected unit u is inverted  (must be corrected = no fault)
       [u, i, "err2"]  two bits of the unit are inverted                     (uncorrectable)
   for u in chan, desig, ft, ial, spa i (every address nibble), on packets of the selected service AND of the others.

   REFERENCE RECEIVER (Rx): reads the units in order; a unit hit twice is unreadable and the packet is ignored; a packet
   is taken iff channel, designation, format A, and ALL address nibbles are readable and equal the selected ones.
   C15: exactly the user bytes of every intact packet of the selected service are delivered, in order, nothing from other
   addresses; the first delivery after a packet of the service was lost or damaged carries DATA_LOST, no other delivery
   does; the DEPENDENT bit is passed through.                                                                       *)
EXTENDS Naturals, Integers, Sequences, FiniteSets, TLC

CONSTANTS Listen,      \* listener configurations [chan |-> 0..15, addr |-> service packet address]
          Formats,     \* format types: even numbers 0..14, bit 1 = RI byte, bit 2 = explicit CI byte, bit 3 = DL byte
          SpaLens,     \* service packet address lengths 0..6
          Pays,        \* payload patterns: sequences of segments <<v, n>>: n bytes of value v (0 or 255), v = -1: n ordinary bytes
          StartCi,     \* initial values of the service's continuity counter ("cont")
          PayCi,       \* ... in "pay" behaviours (0 and 255 are values a run of user bytes could be mistaken to continue)
          ForeignLens, \* address lengths of the neighbour services whose units are damaged
          Bursts,      \* lengths of loss bursts (runs of consecutive lost packets of the selected service), each < 256
          Modes,       \* packet alphabets used: subset of {"cont", "unit", "pay", "mix"}
          MaxPk        \* length of "cont" behaviours

VARIABLES lst,      \* the listener configuration of this behaviour
          mode,
          sci,      \* sender: continuity indicator of the next packet of the selected service
          rci,      \* reference receiver: expected continuity indicator, -1 unknown
          lost,     \* reference receiver: loss seen since the last delivery
          out,      \* deliveries of the last step: sequence of [lost, dep] (DATA_LOST, DEPENDENT), the bytes are Delivered(packet)
          gap,      \* ghost: what was lost since the last delivery: [n |-> packets of the selected service that were not delivered
                    \*        (modulo 256: the continuity indicator has 8 bits, a run of exactly 256 is undetectable),
                    \*        crc |-> a packet arrived with a CRC failure]
          seen,     \* ghost: the receiver has synchronised once (delivered or saw a CRC failure)
          npk, lastAct
vars == <<lst, mode, sci, rci, lost, out, gap, seen, npk, lastAct>>

Inc(c) == (c + 1) % 256
NoGap == [n |-> 0, crc |-> FALSE]
Miss(k) == [gap EXCEPT !.n = (@ + k) % 256]
IsGap == gap.n # 0 \/ gap.crc

-----------------------------------------------------------------------------
(* packet layout *)
HasRI(f) == (f \div 2) % 2 = 1
HasCI(f) == (f \div 4) % 2 = 1
HasDL(f) == (f \div 8) % 2 = 1
B(c) == IF c THEN 1 ELSE 0
\* room for user data and dummy bytes: bytes 4..39 minus address nibbles and the RI, CI, DL bytes
Cap(f, s) == 36 - s - B(HasRI(f)) - B(HasCI(f)) - B(HasDL(f))

Pow16(j) == CASE j = 0 -> 1 [] j = 1 -> 16 [] j = 2 -> 256 [] j = 3 -> 4096 [] j = 4 -> 65536 [] j = 5 -> 1048576 [] j = 6 -> 16777216
Nib(a, j) == (a \div Pow16(j)) % 16
Fits(a, s) == a < Pow16(s)

-----------------------------------------------------------------------------
(* user data and dummy bytes (pure operators) *)
DUMMY == 300             \* wire element "dummy byte" (transmitted as 0xAA)
DummyValue == 170
RunVal(b) == b = 0 \/ b = 255
Ord(i) == 1 + ((37 * i) % 254)          \* ordinary user byte at position i: 1..254, neighbours differ
Rep(x, n) == [i \in 1..n |-> x]

\* The sender puts the segments on the wire.  A segment of n equal bytes 0x00 / 0xFF is a maximal run (its neighbours have
\* another value): behind every 8th byte of it comes a dummy byte (which ends the run), then the run goes on.
Min(a, b) == IF a < b THEN a ELSE b
RECURSIVE WireOf(_, _)
WireOf(pat, pos) ==
  IF pat = <<>> THEN <<>>
  ELSE LET v == Head(pat)[1]
           n == Head(pat)[2]
       IN (IF v < 0 THEN [i \in 1..n |-> Ord(pos + i)] ELSE [i \in 1..(n + (n \div 8)) |-> IF i % 9 = 0 THEN DUMMY ELSE v])
          \o WireOf(Tail(pat), pos + n)
WellFormed(pat) == \A i \in 1..(Len(pat) - 1) : pat[i][1] < 0 \/ pat[i][1] # pat[i + 1][1]

\* pay = [pat, trail]: with a DL byte the pattern is the user data (cut to the room); without it all the room is user data
\* (ordinary bytes follow the pattern).  A dummy byte that would be the last byte (the last user byte is the 8th of a run)
\* may be sent or not when there is a DL byte (trail); without DL the room must be filled, so it is sent.
Payload(pay, f, s) ==
  LET cap == Cap(f, s)
      wf == WireOf(IF HasDL(f) THEN pay.pat ELSE pay.pat \o <<<<-1, cap>>>>, 0)
      w0 == SubSeq(wf, 1, Min(cap, Len(wf)))
      td == w0 # <<>> /\ w0[Len(w0)] = DUMMY
      w == IF td /\ HasDL(f) /\ ~pay.trail THEN SubSeq(w0, 1, Len(w0) - 1) ELSE w0
  IN [user |-> SelectSeq(w, LAMBDA x : x # DUMMY), wire |-> w, trailApplies |-> td /\ HasDL(f)]

\* The wire byte in front of the user data: DL (= number of wire bytes, 1..35 when there are data), else CI, else RI (0),
\* else a Hamming coded byte (never 0x00 / 0xFF).  EN 300 708 is not available here: whether an RI / CI byte counts as part
\* of a run of user bytes that it precedes is left open, such packets are not sent.
Ambiguous(pay, f, ci) ==
  /\ pay.pat # <<>> /\ pay.pat[1][1] >= 0 /\ pay.pat[1][2] > 0 /\ ~HasDL(f)
  /\ pay.pat[1][1] = (IF HasCI(f) THEN ci ELSE IF HasRI(f) THEN 0 ELSE -1)

\* receiver side of 6.5.7.1 on the received bytes: the byte after 8 equal bytes 0x00 / 0xFF is dropped
Concrete(w) == [i \in 1..Len(w) |-> IF w[i] = DUMMY THEN DummyValue ELSE w[i]]
RECURSIVE Destuff(_, _, _)
Destuff(w, last, cnt) ==
  IF w = <<>> THEN <<>>
  ELSE LET b == Head(w) IN
       IF cnt = 8 THEN Destuff(Tail(w), -1, 0)
       ELSE <<b>> \o Destuff(Tail(w), b, IF RunVal(b) THEN (IF b = last THEN cnt + 1 ELSE 1) ELSE 0)

-----------------------------------------------------------------------------
(* faults and packet alphabets *)
NoFault == [u |-> "none", i |-> 0, k |-> "-"]
Drop    == [u |-> "drop", i |-> 0, k |-> "-"]
CrcFaults(f) == {[u |-> "crc", i |-> 0, k |-> z] : z \in {"data", "check"} \cup (IF HasCI(f) \/ HasDL(f) THEN {"head"} ELSE {})}
HamUnits(s) == {[u |-> x, i |-> 0] : x \in {"chan", "desig", "ft", "ial"}} \cup {[u |-> "spa", i |-> j] : j \in 0..(s - 1)}
UnitFaults(s, kinds) == {[u |-> h.u, i |-> h.i, k |-> k] : h \in HamUnits(s), k \in kinds}

Dest(l) == [chan |-> l.chan, addr |-> l.addr]
\* other services, chosen adversarially: addresses one step away in every nibble (the carry of a neighbour reaches the next
\* nibble: 0x2F / 0x30), nibbles replaced by 0 and by 15, and the same address on neighbouring channels
SetNib(a, j, v) == a - (Nib(a, j) * Pow16(j)) + (v * Pow16(j))
NeighbourAddrs(a, s) ==
  {b \in UNION {{a + Pow16(j), a - Pow16(j), SetNib(a, j, 0), SetNib(a, j, 15), SetNib(a, j, (Nib(a, j) + 8) % 16)} : j \in 0..(s - 1)} :
     b >= 0 /\ b # a /\ Fits(b, s)}
OtherDests(l, s) == {[chan |-> l.chan, addr |-> b] : b \in NeighbourAddrs(l.addr, s)}
                    \cup {[chan |-> c, addr |-> l.addr] : c \in {(l.chan + 1) % 16, (l.chan + 8) % 16}}
FitLens(l) == {s \in SpaLens : Fits(l.addr, s)}

P0 == [pat |-> <<<<-1, 5>>>>, trail |-> FALSE]           \* five ordinary bytes
Item(d, f, s, dep, pay, flt) == [dest |-> d, fmt |-> f, spalen |-> s, dep |-> dep, pay |-> pay, flt |-> flt]

\* "cont": continuity and loss flagging - every format with drop / CRC damage / an unreadable unit, some packets with other
\* address lengths, payload sizes and the DEPENDENT bit, packets of the neighbours (ContFull = TRUE: the full product)
CONSTANT ContFull
MinLen(l) == CHOOSE x \in FitLens(l) : \A y \in FitLens(l) : x <= y
ContFaults == {NoFault, Drop, [u |-> "crc", i |-> 0, k |-> "data"], [u |-> "ial", i |-> 0, k |-> "err2"]}
ContPays == {P0, [pat |-> <<>>, trail |-> FALSE], [pat |-> <<<<-1, 40>>>>, trail |-> FALSE]}
ContItems(l) ==
  (IF ContFull
   THEN {Item(Dest(l), f, s, dep, pay, flt) : f \in Formats \cap {0, 4, 8, 12}, s \in FitLens(l), dep \in BOOLEAN, pay \in ContPays, flt \in ContFaults}
   ELSE {Item(Dest(l), f, MinLen(l), FALSE, P0, flt) : f \in Formats \cap {0, 4, 8, 12}, flt \in ContFaults}
        \cup {Item(Dest(l), 12, s, TRUE, pay, NoFault) : s \in FitLens(l), pay \in ContPays}
        \cup {Item(Dest(l), 0, 6, TRUE, P0, NoFault)})
  \cup UNION {{Item(d, 12, s, FALSE, P0, NoFault) : d \in OtherDests(l, s)} : s \in {MinLen(l)} \ {0}}
\* "unit": every Hamming protected unit of packets of the selected service and of its neighbours hit once and twice,
\* CRC damage in every zone; sent between two intact packets
UnitItems(l) ==
  UNION {{Item(Dest(l), f, s, FALSE, P0, flt) : flt \in UnitFaults(s, {"err1", "err2"}) \cup CrcFaults(f)} : f \in Formats, s \in FitLens(l)}
  \cup {Item(Dest(l), 13, s, FALSE, P0, NoFault) : s \in FitLens(l)}                        \* format B on our address
  \cup {Item(Dest(l), 12, 7, FALSE, P0, NoFault)}                                           \* reserved address length
  \cup UNION {{Item(d, f, s, FALSE, P0, flt) : f \in Formats \cap {4, 8}, d \in OtherDests(l, s),
                    flt \in {NoFault} \cup UnitFaults(s, {"err1", "err2"})} : s \in (FitLens(l) \cap ForeignLens) \ {0}}
PlainItems(l) == {Item(Dest(l), f, MinLen(l), FALSE, P0, NoFault) : f \in Formats \cap {4, 8}}
\* "pay": every payload pattern in every format and address length (room 27..36), single packets
PayItems(l) ==
  {Item(Dest(l), f, s, FALSE, [pat |-> p, trail |-> t], NoFault) : f \in Formats, s \in FitLens(l), p \in Pays, t \in BOOLEAN}

\* "mix": UNRELATED TELETEXT PACKETS between two intact packets of the selected service.  Bytes 0 / 1 of every Teletext packet
\* carry magazine and packet number, for the IDL receiver "channel" (= magazine + 8 * (packet number odd), magazine 8 = 0) and
\* "designation" (= packet number \div 2; 15 = packets 30 / 31 = an IDL channel).  Kinds [mag 1..8, no 0..31]: page headers
\* X/0, rows X/1..X/25, enhancement packets X/26..X/28, M/29 in every magazine, and the packets 30 / 31 of every OTHER channel
\* (8/30 = channel 0: broadcast service data, 8/31 ... other IDL channels).  Behind the two address bytes each of them looks
\* exactly like the next packet of the selected service (format, address, continuity indicator, data, CRC): taking it for one
\* shows as a delivery and as a wrong flag on the following packet.
ChanOf(k) == (k.mag % 8) + (8 * (k.no % 2))
MixKinds(l) == {k \in [mag : 1..8, no : 0..31] : k.no < 30 \/ ChanOf(k) # l.chan}
ModeLen(m) == CASE m = "cont" -> MaxPk [] m = "unit" -> 3 [] m = "pay" -> 1 [] m = "mix" -> 3
\* the last packet of a "cont" behaviour shows the flags: it is intact (unless ContFull)
Stage(m, k, l) == CASE m = "cont" -> (IF k = MaxPk /\ ~ContFull THEN {it \in ContItems(l) : it.flt = NoFault /\ it.dest = Dest(l)} ELSE ContItems(l))
                    [] m = "unit" -> (IF k = 2 THEN UnitItems(l) ELSE IF k = 1 THEN {Item(Dest(l), 4, MinLen(l), FALSE, P0, NoFault)} ELSE PlainItems(l))
                    [] m = "pay"  -> PayItems(l)
                    [] m = "mix"  -> (IF k = 2 THEN {} ELSE IF k = 1 THEN {Item(Dest(l), 4, MinLen(l), FALSE, P0, NoFault)} ELSE PlainItems(l))

-----------------------------------------------------------------------------
(* reference receiver: what it can read of an arriving packet *)
RECURSIVE AddrVal(_, _)
AddrVal(nib, j) == IF j \notin DOMAIN nib THEN 0 ELSE nib[j] * Pow16(j) + AddrVal(nib, j + 1)

Rx(l, it) ==
  LET f == it.flt
      rd(unit, i, v) == IF f.u = unit /\ f.i = i /\ f.k = "err2" THEN -1 ELSE v      \* err1 is corrected
      chan  == rd("chan", 0, it.dest.chan)
      desig == rd("desig", 0, 15)
      ft    == rd("ft", 0, it.fmt)
      ial   == rd("ial", 0, it.spalen + (IF it.dep THEN 8 ELSE 0))
      nib   == [j \in 0..(it.spalen - 1) |-> rd("spa", j, Nib(it.dest.addr, j))]
  IN IF chan < 0 \/ desig < 0 THEN "ignore"
     ELSE IF desig # 15 \/ chan # l.chan THEN "ignore"
     ELSE IF ft < 0 \/ ft % 2 = 1 THEN "ignore"
     ELSE IF ial < 0 \/ ial % 8 = 7 THEN "ignore"
     ELSE IF \E j \in DOMAIN nib : nib[j] < 0 THEN "ignore"
     ELSE IF AddrVal(nib, 0) # l.addr THEN "ignore"
     ELSE IF f.u = "crc" THEN "bad" ELSE "take"

\* a packet of the selected service (it advances the service's continuity counter)
Own(l, it) == it.dest = Dest(l) /\ it.fmt % 2 = 0 /\ it.spalen # 7

\* the payload behaviours need one listener only (the one whose address fits the most address lengths)
Init == /\ mode \in Modes
        /\ lst \in (IF mode = "pay" THEN {CHOOSE l \in Listen : \A m \in Listen : l.addr <= m.addr} ELSE Listen)
        /\ sci \in (CASE mode = "cont" -> StartCi [] mode = "unit" -> {254} [] mode = "pay" -> PayCi [] mode = "mix" -> {254}) /\ rci = -1 /\ lost = FALSE /\ out = <<>> /\ gap = NoGap /\ seen = FALSE
        /\ npk = 0 /\ lastAct = [a |-> "init"]

\* what the receiver delivers for a packet it takes: the user data the sender put into it
Delivered(it) == Payload(it.pay, it.fmt, it.spalen).user

Send(it) ==
  LET own == Own(lst, it)
      ci == IF own THEN sci ELSE 77              \* other services have their own counters
      r == IF it.flt.u = "drop" THEN "ignore" ELSE Rx(lst, it)
  IN /\ ~Ambiguous(it.pay, it.fmt, ci)
     /\ (~it.pay.trail \/ Payload(it.pay, it.fmt, it.spalen).trailApplies)
     /\ npk' = npk + 1
     /\ lastAct' = [a |-> "Send", it |-> it, own |-> own, ci |-> ci]
     /\ sci' = IF own THEN Inc(sci) ELSE sci
     /\ CASE r = "take" ->
               LET l == lost \/ (rci # -1 /\ rci # ci) IN
               /\ out' = <<[lost |-> l, dep |-> it.dep]>>          \* with the bytes Delivered(it)
               /\ rci' = Inc(ci) /\ lost' = FALSE /\ gap' = NoGap /\ seen' = TRUE
          [] r = "bad" -> /\ out' = <<>> /\ gap' = [gap EXCEPT !.crc = TRUE] /\ rci' = -1 /\ lost' = TRUE /\ seen' = TRUE
          [] r = "ignore" -> /\ out' = <<>> /\ gap' = (IF own THEN Miss(1) ELSE gap) /\ UNCHANGED <<rci, lost, seen>>
     /\ UNCHANGED <<lst, mode>>

\* a fade: k consecutive packets of the selected service never arrive.  The continuity indicator counts modulo 256,
\* so any run shorter than 256 is detectable and must be flagged (k = 16, 32 ... leave the low nibble unchanged).
Burst(k) ==
  /\ npk' = npk + 1 /\ lastAct' = [a |-> "Burst", k |-> k, ci |-> sci]
  /\ sci' = (sci + k) % 256
  /\ out' = <<>> /\ gap' = Miss(k) /\ UNCHANGED <<rci, lost, seen, lst, mode>>

\* an ordinary Teletext packet
Other(kind) ==
  /\ npk' = npk + 1 /\ lastAct' = [a |-> "Other", kind |-> kind]
  /\ out' = <<>> /\ UNCHANGED <<sci, rci, lost, gap, seen, lst, mode>>

\* an unrelated Teletext packet of kind k whose body is that of the packet the selected service would send next: it changes
\* nothing (no delivery, the sender's counter and the receiver's expectation stay, no loss)
Mix(k) ==
  /\ npk' = npk + 1
  /\ lastAct' = [a |-> "Mix", mag |-> k.mag, no |-> k.no, ci |-> sci, it |-> Item(Dest(lst), 4, MinLen(lst), FALSE, P0, NoFault)]
  /\ out' = <<>> /\ UNCHANGED <<sci, rci, lost, gap, seen, lst, mode>>

Next == /\ npk < ModeLen(mode)
        /\ \/ \E it \in Stage(mode, npk + 1, lst) : Send(it)
           \/ mode = "cont" /\ Other("ttx")
           \/ mode = "cont" /\ \E k \in Bursts : Burst(k)
           \/ mode = "mix" /\ npk = 1 /\ \E k \in MixKinds(lst) : Mix(k)
Spec == Init /\ [][Next]_vars

-----------------------------------------------------------------------------
(* C15, IDL half *)
Sent == lastAct'.a = "Send"
\* loss is flagged exactly on the first delivery after it (once the receiver has synchronised)
FlagOnlyAfterLoss == [][\A i \in 1..Len(out') : out'[i].lost => IsGap]_vars
FlagAfterLoss     == [][\A i \in 1..Len(out') : (IsGap /\ seen) => out'[i].lost]_vars
\* nothing from other addresses / channels / formats, whatever happens to their Hamming protected bytes
NothingForeign    == [][(Sent /\ ~lastAct'.own) => out' = <<>>]_vars
\* a packet failing its CRC or Hamming check is never delivered, a dropped one neither; a corrected one is
DeliveredIff      == [][Sent => ((out' # <<>>) <=> (lastAct'.own /\ (lastAct'.it.flt.u = "none" \/ lastAct'.it.flt.k = "err1")))]_vars
\* unrelated Teletext packets change nothing: both neighbours are delivered, without DATA_LOST
MixNeutral        == [][(mode = "mix" /\ Sent) => (Len(out') = 1 /\ ~out'[1].lost)]_vars
DepPassed         == [][(Sent /\ out' # <<>>) => out'[1].dep = lastAct'.it.dep]_vars
\* exactly the sent bytes, for every payload, format and address length: the dummy bytes are where 6.5.7.1 puts them (behind
\* 8 equal bytes 0x00 / 0xFF) and nowhere else, the receiver rule (drop the byte behind 8 equal bytes) gives back the user
\* data, the room is used as the format says
StuffOK(pay, f, s) ==
  LET pl == Payload(pay, f, s)
      w == pl.wire
  IN /\ \A i \in 1..Len(w) : (w[i] = DUMMY) <=> (i > 8 /\ RunVal(w[i - 1]) /\ \A j \in (i - 8)..(i - 1) : w[j] = w[i - 1])
     /\ Destuff(Concrete(w), -1, 0) = pl.user
     /\ Len(w) <= Cap(f, s) /\ (~HasDL(f) => Len(w) = Cap(f, s))
     /\ \A i \in 1..Len(pl.user) : pl.user[i] \in 0..255
AllStuffOK == \A p \in Pays, t \in BOOLEAN, f \in Formats, s \in SpaLens : StuffOK([pat |-> p, trail |-> t], f, s)
ASSUME \A k \in Bursts : k \in 1..255
ASSUME \A p \in Pays : WellFormed(p)
ASSUME \A f \in Formats : f \in 0..15 /\ f % 2 = 0
TypeOK == sci \in 0..255 /\ rci \in -1..255

-----------------------------------------------------------------------------
(* constant sets for the configurations (tuples cannot be written in a .cfg) *)
Run(pre, v, n) == (IF pre > 0 THEN <<<<-1, pre>>>> ELSE <<>>) \o <<<<v, n>>, <<-1, 1>>>>
RunOnly(pre, v, n) == (IF pre > 0 THEN <<<<-1, pre>>>> ELSE <<>>) \o <<<<v, n>>>>
SpecialPays == {<<>>, <<<<-1, 1>>>>, <<<<-1, 5>>>>, <<<<-1, 40>>>>,
                <<<<0, 8>>, <<255, 8>>, <<-1, 1>>>>, <<<<-1, 1>>, <<0, 4>>, <<255, 4>>, <<0, 8>>, <<-1, 2>>>>,
                <<<<-1, 1>>, <<0, 8>>, <<-1, 1>>, <<0, 8>>, <<-1, 1>>>>, <<<<-1, 1>>, <<0, 7>>, <<-1, 1>>, <<0, 1>>, <<-1, 1>>>>,
                <<<<-1, 1>>, <<255, 1>>, <<0, 1>>, <<255, 1>>, <<0, 9>>, <<255, 9>>>>, <<<<-1, 2>>, <<0, 8>>, <<255, 1>>, <<-1, 1>>>>}
PaysQ == SpecialPays \cup {Run(pre, v, n) : pre \in {0, 1, 4}, v \in {0, 255}, n \in {7, 8, 9, 15, 16, 17, 24, 30}}
                     \cup {RunOnly(pre, v, n) : pre \in {1}, v \in {0, 255}, n \in {7, 8, 16, 24}}
PaysT == SpecialPays \cup {Run(pre, v, n) : pre \in 0..4, v \in {0, 255}, n \in 6..34}
                     \cup {RunOnly(pre, v, n) : pre \in 0..3, v \in {0, 255}, n \in 6..34}
                     \cup {Run(pre, v, 8) \o Run(0, w, n) : pre \in {0, 1}, v \in {0, 255}, w \in {0, 255}, n \in {7, 8, 9, 16}}
ListenQ == {[chan |-> 8, addr |-> 47], [chan |-> 5, addr |-> 3855]}                                \* 0x2F, 0xF0F
ListenT == {[chan |-> 8, addr |-> 47], [chan |-> 5, addr |-> 3855], [chan |-> 0, addr |-> 0], [chan |-> 15, addr |-> 677],
            [chan |-> 3, addr |-> 1048575]}                                                       \* 0x2A5, 0xFFFFF
ListenM == {[chan |-> 8, addr |-> 47]}
=============================================================================
