------------------------------- MODULE IdlA -------------------------------
(* Independent Data Line packets, format A (EN 300 708 section 6.5), as received by
   vbi_idl_demux_feed() / idl_a_demux_feed() in src/idl_demux.c.

   The sender transmits user data for the selected (channel, service packet address) in packets
   with a continuity indicator that counts modulo 256 - carried explicitly or hidden in the CRC -
   optionally a data length byte, and dummy bytes after runs of 0x00/0xFF.  The channel may drop a
   packet, damage it (CRC failure), hit a Hamming protected byte twice, or carry packets of other
   addresses, other channels and ordinary Teletext packets in between.

   Reference (C15): exactly the payload of every intact packet of the selected address is delivered,
   in order; the first delivery after a packet of that address was lost or damaged carries
   DATA_LOST, no other delivery does; the DEPENDENT bit is passed through.                      *)
EXTENDS Naturals, Integers, Sequences, TLC

CONSTANTS Lens,        \* payload lengths
          Formats,     \* subset of {"ci", "ci+dl", "impl", "impl+dl"}
          SpaLens,     \* service packet address lengths 0..6
          StartCi,     \* initial values of the sender's continuity counter
          Bursts,      \* lengths of loss bursts (runs of consecutive lost packets of the selected address), each < 256
          MaxPk

VARIABLES sci,      \* sender: continuity indicator of the next packet
          rci,      \* reference receiver: expected continuity indicator, -1 unknown
          lost,     \* reference receiver: loss seen since the last delivery
          out,      \* deliveries of the last step: sequence of [n, lost, dep]
          gap,      \* ghost: what was lost since the last delivery: [n |-> packets of the selected address that never arrived
                    \*        (modulo 256: the continuity indicator has 8 bits, a run of exactly 256 is undetectable),
                    \*        crc |-> a packet arrived with a CRC failure]
          seen,     \* ghost: the receiver has synchronised once (delivered or saw a CRC failure)
          npk, lastAct
vars == <<sci, rci, lost, out, gap, seen, npk, lastAct>>

Inc(c) == (c + 1) % 256
NoGap == [n |-> 0, crc |-> FALSE]
Miss(k) == [gap EXCEPT !.n = (@ + k) % 256]
IsGap == gap.n # 0 \/ gap.crc

Init == /\ sci \in StartCi /\ rci = -1 /\ lost = FALSE /\ out = <<>> /\ gap = NoGap /\ seen = FALSE
        /\ npk = 0 /\ lastAct = [a |-> "init"]


\* room for user data: bytes 4..39 minus address nibbles, explicit CI and DL bytes; without a DL byte
\* the whole room is user data
Cap(fmt, spalen) == 36 - spalen - (IF fmt \in {"ci", "ci+dl"} THEN 1 ELSE 0) - (IF fmt \in {"ci+dl", "impl+dl"} THEN 1 ELSE 0)
Payload(n, fmt, spalen) == IF fmt \in {"ci+dl", "impl+dl"} THEN (IF n < Cap(fmt, spalen) THEN n ELSE Cap(fmt, spalen)) ELSE Cap(fmt, spalen)

\* a packet of the selected address; how = what the channel does to it
Send(how, n, fmt, spalen, dep) ==
  /\ npk' = npk + 1
  /\ lastAct' = [a |-> "Send", how |-> how, n |-> n, fmt |-> fmt, spalen |-> spalen, dep |-> dep, ci |-> sci]
  /\ sci' = Inc(sci)
  /\ CASE how = "ok" ->
            LET l == lost \/ (rci # -1 /\ rci # sci) IN
            /\ out' = <<[n |-> Payload(n, fmt, spalen), lost |-> l, dep |-> dep]>>
            /\ rci' = Inc(sci) /\ lost' = FALSE /\ gap' = NoGap /\ seen' = TRUE
       [] how = "drop" -> /\ out' = <<>> /\ gap' = Miss(1) /\ UNCHANGED <<rci, lost, seen>>
       [] how = "crc"  -> /\ out' = <<>> /\ gap' = [gap EXCEPT !.crc = TRUE] /\ rci' = -1 /\ lost' = TRUE /\ seen' = TRUE
       [] how = "ham"  -> /\ out' = <<>> /\ gap' = Miss(1) /\ UNCHANGED <<rci, lost, seen>>

\* a fade: k consecutive packets of the selected address never arrive.  The continuity indicator counts modulo 256,
\* so any run shorter than 256 is detectable and must be flagged (k = 16, 32 ... leave the low nibble unchanged).
Burst(k) ==
  /\ npk' = npk + 1 /\ lastAct' = [a |-> "Burst", k |-> k, ci |-> sci]
  /\ sci' = (sci + k) % 256
  /\ out' = <<>> /\ gap' = Miss(k) /\ UNCHANGED <<rci, lost, seen>>

\* traffic that is not for us: other address, other channel, ordinary Teletext packet
Other(kind) ==
  /\ npk' = npk + 1 /\ lastAct' = [a |-> "Other", kind |-> kind]
  /\ out' = <<>> /\ UNCHANGED <<sci, rci, lost, gap, seen>>

Next == \/ \E how \in {"ok", "drop", "crc", "ham"}, n \in Lens, f \in Formats, s \in SpaLens, d \in BOOLEAN : Send(how, n, f, s, d)
        \/ \E k \in {"addr", "chan", "ttx"} : Other(k)
        \/ \E k \in Bursts : Burst(k)
Spec == Init /\ [][Next]_vars
Bounded == npk < MaxPk

\* loss is flagged exactly on the first delivery after it (once the receiver has synchronised)
FlagOnlyAfterLoss == [][\A i \in 1..Len(out') : out'[i].lost => IsGap]_vars
FlagAfterLoss     == [][\A i \in 1..Len(out') : (IsGap /\ seen) => out'[i].lost]_vars
ASSUME \A k \in Bursts : k \in 1..255
TypeOK == sci \in 0..255 /\ rci \in -1..255
=============================================================================
