------------------------- MODULE MC_ServiceDecoder -------------------------
EXTENDS ServiceDecoder
\* page descriptors <<page number, subpage numbers>> (tuples cannot be written in a .cfg file)
\* small model: two plain pages in two magazines, the Basic TOP Table 1F0, the magazine 1 MOT 1FE
PagesS == {<<256, {0}>>, <<512, {1, 2}>>, <<496, {0}>>, <<510, {0}>>}
PagesP == {<<256, {0}>>}
PagesT == {<<256, {0}>>, <<512, {1, 2}>>, <<427, {0}>>}
SpecialT == {427}
SysS == {496}
SpecialS == {496, 510}
\* generator model: plain pages 100 101 150/1,2 200 ; hex 1AB ; TOP 1F0 (BTT) 1F1 (AIT) 1F2 (MPT) ; MIP 1FD ; MOT 1FE 2FE ;
\* GPOP 15A, POP 15B, DRCS 15C, GDRCS 15D (reachable through MOT and X/27/4 links) ; trigger page 1E7
PagesG == {<<256, {0}>>, <<257, {0}>>, <<336, {1, 2}>>, <<512, {0}>>, <<427, {0}>>, <<496, {0}>>, <<497, {0}>>, <<498, {0}>>,
           <<509, {0}>>, <<510, {0}>>, <<766, {0}>>, <<346, {0}>>, <<347, {0, 1}>>, <<348, {0, 1}>>, <<349, {0}>>, <<487, {0}>>}
SysG == {496, 509}
SpecialG == {427, 496, 497, 498, 509, 510, 766, 346, 347, 348, 349, 487}
DcNext == {-1}
DcAll == {-1, 0, 15}
LevelsAll == {-1, 0, 1, 2, 3, 9}
Cls0 == <<>>
Typ0 == <<>>
NoPages == {}
NoMasks == {{}}
Cls1 == <<0>>
Typ1 == <<1>>
Cls2k == <<0, 2>>
Typ2k == <<1, 1>>
Cls4 == <<0, 1, 2, 3>>
Typ4 == <<3, 1, 1, 1>>
ErrS == {<<64, 64>>}
MasksS == {{}, {"ttx"}, {"cc", "trig"}}
MasksG == {{}, {"ttx"}, {"cc"}, {"ttx", "cc", "trig"}, {"net", "netid", "progid", "ltime"}, {"asp", "pinfo"},
           {"ttx", "cc", "net", "trig", "asp", "pinfo", "netid", "ltime", "progid"}}
TypesAll == {"ttx", "cc", "net", "trig", "asp", "pinfo", "netid", "ltime", "progid"}
FetchG == {256, 336, 512, 427, 496, 348, 510, 2304}
=============================================================================
