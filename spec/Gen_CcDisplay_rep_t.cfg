\* field 1: runs of identical control pairs, also with a null pair in between (roll-up 3 on CC1; CR, BS, TO, PAC repeated 1..4 times)
CONSTANTS Chans = {1} Rows = {14} Chars = {65} MaxPairs = 9
  Indents = {4} Depths = {2, 3} Tabs = {1}
  Kinds = {"RU", "CR", "BS", "TO", "PAC", "TEXT", "NULL"}
  Beyond = {}
  Mix <- NoMix Bursts <- NoBurst
SPECIFICATION GSpec
VIEW gview2
ACTION_CONSTRAINT TDump
CHECK_DEADLOCK FALSE
