CONSTANTS NK = 2 KeyCls <- Cls2 KeyTyp <- Typ2 Bytes = {64, 65} L = 32 MaxEv = 6 ErrPairs <- ErrFew HalfGuard = TRUE
SPECIFICATION GSpec
VIEW gview
CONSTRAINT Dump
CHECK_DEADLOCK FALSE
