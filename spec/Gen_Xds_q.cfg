CONSTANTS NK = 2 KeyCls <- Cls2 KeyTyp <- Typ2 Bytes = {65, 66} L = 32 MaxEv = 6 HalfGuard = TRUE
SPECIFICATION GSpec
VIEW gview
CONSTRAINT Dump
CHECK_DEADLOCK FALSE
