CONSTANTS Prog <- RdFour ResetLocking = "release" EventUnlock = TRUE HandlerFetch = TRUE
SPECIFICATION Spec
INVARIANTS LocksetOK NoRace CallbackUnlocked NoSelfLock SnapshotAtomic ConsistentSet ContextOK HolderOK
