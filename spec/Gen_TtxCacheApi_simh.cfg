CONSTANTS Pages = {1, 2} HexPages = {2} Subs = {0, 1, 2} Hows = {"api", "gap"} MaxOps = 12
SPECIFICATION GSpec
INVARIANTS Dump TypeOK MapOK
PROPERTIES SwitchEmpties StoreLocal LookupPure WildcardIsMru
CHECK_DEADLOCK FALSE
