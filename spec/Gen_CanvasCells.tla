--------------------------- MODULE Gen_CanvasCells ---------------------------
(* Drawing cases for harness/drv_exportio.c, enumerated at cell granularity: EVERY edge page of the geometry Geo
   (MC_CanvasCells: one character of every size, or a lone continuation cell, in every column and row including the
   last ones) x EVERY region of that page - so every combination of "region edge at / before / inside / right after
   a wide cell" with "region edge at / inside the page's edge" occurs - each with NVar of the variants
   (pixel format, row stride) and (reveal, flash_on), rotated so that every region meets every variant on some page
   and every page meets every variant on some region.

   One TR line per page: the descriptor (what the transmitter / the page editor has to do), the model page, the
   geometry and the cases [c, r, w, h (model region), f (format), s (stride), rv, fl, cut].  The check maps the model
   page to a real one (41 x 25 / 41 x rows Teletext page through X/26 enhancement packets and the real decoder
   wherever the formatter can produce the arrangement, otherwise by editing the fetched vbi_page; 34 x 15 caption
   page) and a region edge in the filler to a column / row of the run it stands for; Trace_CanvasCells verifies
   that correspondence (Abstracts, RegionMaps) and judges every drawing against Post on the REAL page.            *)
EXTENDS MC_CanvasCells, Json

CONSTANTS Geo,          \* geometry of the edge pages
          Kinds,        \* sizes placed
          Variants,     \* sequence of <<format, stride>>
          NVar          \* variants per (page, region)
VARIABLE pi

\* (format, stride): exact = the region's width; plusN = N bytes of padding; full = a page wide image + 8 bytes; auto = -1 (the
\* default: a page wide image); RGBA32_LE strides are multiples of 4.  One unsupported format among eleven.
VariantsAll == << <<"RGBA32_LE", "exact">>, <<"PAL8", "plus5">>, <<"RGBA32_LE", "full">>, <<"PAL8", "auto">>, <<"RGBA32_LE", "plus8">>,
                  <<"PAL8", "exact">>, <<"YUV420", "exact">>, <<"RGBA32_LE", "auto">>, <<"PAL8", "full">>, <<"RGBA32_LE", "plus4">>,
                  <<"PAL8", "plus1">>, <<"RGBA32_BE", "plus8">> >>

\* descriptors in a fixed order; a page the formatter can produce is produced by the formatter: "edit" only for arrangements
\* neither "copy" nor "blank" yields (lone continuation cells, a character beginning in the last column, a character whose right
\* half lies in the last column); "blank" only where it differs from "copy"
Decodable(g, p) == \E d2 \in [via : {"copy", "blank"}, k : 1..3, r : 1..g.rows, c : 1..g.cols] : Fits(g, d2) /\ PageOf(g, d2) = p
GenFits(g, d) == /\ Fits(g, d)
                 /\ d.via = "edit" => ~Decodable(g, PageOf(g, d))
                 /\ d.via = "blank" => PageOf(g, d) # PageOf(g, [d EXCEPT !.via = "copy"])
Vias == <<"copy", "blank", "edit", "wrap">>
KindSeq == [i \in 1..7 |-> i]
AllDescs(g) == [i \in 1..(4 * 7 * g.rows * g.cols) |->
                  LET n == i - 1 IN [via |-> Vias[(n \div (7 * g.rows * g.cols)) + 1], k |-> ((n \div (g.rows * g.cols)) % 7) + 1,
                                     r |-> ((n \div g.cols) % g.rows) + 1, c |-> (n % g.cols) + 1]]
DescSeq == <<[via |-> "edit", k |-> 0, r |-> 1, c |-> 1]>> \o                       \* the page without any character
           SelectSeq(AllDescs(Geo), LAMBDA d : d.k \in Kinds /\ GenFits(Geo, d))
ASSUME GenCoversModel == {PageOf(Geo, DescSeq[i]) : i \in 1..Len(DescSeq)} = EdgePages(Geo, Kinds)

\* regions in a fixed order
AllRg(g) == [i \in 1..(g.cols * g.rows * g.cols * g.rows) |->
               LET n == i - 1 IN [col |-> (n % g.cols) + 1, w |-> ((n \div g.cols) % g.cols) + 1,
                                  row |-> ((n \div (g.cols * g.cols)) % g.rows) + 1, h |-> (n \div (g.cols * g.cols * g.rows)) + 1]]
RgSeq == SelectSeq(AllRg(Geo), LAMBDA rg : RegionOK(Normal(Geo.rows, Geo.cols), rg))
ASSUME RegionsComplete == {RgSeq[i] : i \in 1..Len(RgSeq)} = AllRegions(Normal(Geo.rows, Geo.cols)) /\ Len(RgSeq) = Cardinality(AllRegions(Normal(Geo.rows, Geo.cols)))

NV == Len(Variants)
Case(p, ri, j) == LET rg == RgSeq[ri]
                      v == Variants[((pi + ri + (j * (NV \div NVar))) % NV) + 1]
                      rf == ((pi * 3) + (ri \div 2) + j) % 4
                  IN [c |-> rg.col, r |-> rg.row, w |-> rg.w, h |-> rg.h, f |-> v[1], s |-> v[2], rv |-> rf % 2, fl |-> rf \div 2,
                      cut |-> IF Cuts(p, rg) THEN 1 ELSE 0]
Cases(p) == [n \in 1..(Len(RgSeq) * NVar) |-> Case(p, ((n - 1) \div NVar) + 1, (n - 1) % NVar)]

GInit == /\ pi \in 1..Len(DescSeq) /\ page = PageOf(Geo, DescSeq[pi]) /\ canvas = Fresh(page) /\ ndraw = 0
         /\ last = [rg |-> [col |-> 1, row |-> 1, w |-> 1, h |-> 1], fmt |-> "none", stride |-> "none"]
GNext == UNCHANGED <<pi, vars>>
GSpec == GInit /\ [][GNext]_<<pi, vars>>
Dump == LET d == DescSeq[pi]  p == PageOf(Geo, d) IN
        PrintT(<<"TR", ToJson([pi |-> pi, d |-> d, geo |-> Geo, sz |-> p.sz, att |-> pi % 4, cases |-> Cases(p)])>>)
=============================================================================
