CONSTANTS MaxExh = 3 SampleSizes = {4, 5, 6, 7} NNext = 900 NSample = 30 NPre = 150 NLi = 100000 FoldAllMax = 2
  NCaches = 6 CachesPer = 1 Cap = 5 NChunks = 16
SPECIFICATION Spec
CONSTRAINT Dump
CHECK_DEADLOCK FALSE
