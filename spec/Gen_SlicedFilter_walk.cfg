CONSTANTS MinPg = 256 MaxPg = 2303 MaxSub = 16254 Depth = 60
  PagePts = {256, 512} SubPts = {0, 1} BadPages <- GBadPages BadSubs <- GBadSubs
  HdrPages = {256, 257, 427, 512, 2201} HdrSubs = {0, 1, 2} RowNums = {1, 25, 26, 29} Services = {"vps", "cc", "wss"}
  BulkServices = {"vps"} BulkN = 60
  MaxLines = 6 MaxHist = 14 MaxConf = 8 MaxFrames = 1000
SPECIFICATION RSpec
CONSTRAINT DumpWalk
CHECK_DEADLOCK FALSE
