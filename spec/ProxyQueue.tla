----------------------------- MODULE ProxyQueue -----------------------------
(* The proxy daemon's data path (daemon/proxyd.c): capture clock, the reference-counted queue of sliced
   frames with one cursor per client, per-client service subscriptions at four strictness levels, device
   open/close, per-client socket with bounded capacity, and what each client receives.

   Actions (code site):
     Accept       vbi_proxyd_add_connection (a connection counts for the number of buffers from here on)
     Connect      CONNECT_REQ: vbi_proxyd_take_service_req, vbi_proxyd_update_services, start_acquisition
     ConnectRej   CONNECT_REQ for services the device has none of: service update as above, then refused and closed
     ServiceReq   SERVICE_REQ: the client's queued frames are released first, then as above
     Disconnect   vbi_proxyd_close + removal + vbi_proxyd_update_services
     Tick         select variant, one frame arrives: vbi_proxyd_forward_data (vbi_proxy_queue_get_free, else
                  vbi_proxy_queue_force_free: the head buffer is taken away from every client still on it)
     Fetch, Capture  thread variant: the acquisition thread takes (or forces free) a buffer BEFORE it blocks
                  in read, and stores the frame when it arrives
     Send         vbi_proxyd_send_sliced + vbi_proxy_queue_release_sliced for one client (lines filtered to the
                  client's services)
     Read         the client takes one frame out of its socket
     Partial      vbi_proxy_msg_handle_read returns with a message received in part (k of the 8 header bytes, or
                  the header and a part of the body): the connection is not idle any more, so the daemon neither
                  forwards frames to it nor reads anything but the rest of that message - for as long as the
                  client likes.  The frames captured meanwhile are queued for it; when no buffer is free they are
                  taken away from it like from a client with a blocked write (vbi_proxy_queue_force_free)
     Other        a complete message without effect on the data path (token request, notify, ioctl, suspend,
                  reclaim confirmation) has been taken: the read phase is over, forwarding resumes
                  (a message that is refused - malformed, wrong state - closes the connection: Disconnect)

   Select variant (Threaded = FALSE): the main loop forwards to every client that can take data after each
   captured frame, so a frame arrives only when every client with queued frames is blocked.  Thread
   variant: the acquisition thread captures independently of the main loop.

   Ghost `owed[c]`: the frames captured while c was subscribed and not yet read by c, minus those c lost
   because the queue was full while c was behind (force-free) and minus those still queued when c itself
   changed its services or left.  Properties (C18):
     Delivery      owed[c] = in the socket ++ still queued, as sequences, and a read takes its head: every
                   frame exactly once, in capture order, none missing
     Filtered      every frame sent to c carries exactly the captured lines of the services granted to c
     RefCount      ref_count of a queued buffer = number of cursors at or before it; no buffer without a
                   reference is queued; what force-free and release take away is the head of the queue
     OnlyBlockedLose  (select variant) a client loses a frame only while it is blocked or in the middle of a
                   message of its own, i.e. a stalled or faulty client never costs another client a frame;
                   (both variants) frames are lost only when no buffer is free
     CanCapture    whatever the clients do, the daemon finds a buffer for the next frame ("queue overflow", where
                   it stops reading the device and nobody gets data any more, is not reachable)
     OthersKept    (C19) a step of client c - a message, a part of one, a refused one, a disconnect - changes
                   nothing in what any other client has got, has queued and is still owed
     DeviceOpen    the device is open iff some client is granted a service, for exactly their union *)
EXTENDS Naturals, Sequences, FiniteSets, TLC

CONSTANTS Clients,        \* connection slots
          Services,       \* services a client may ask for
          Supported,      \* those the device can deliver (each on its own line)
          Base,           \* opt_buffer_count resp. the largest buffer_count a client asked for
          S,              \* socket capacity in frames (incl. a partly written one)
          MaxFrames,      \* bound of the capture clock in model checking
          Threaded,       \* acquisition thread variant
          LevelsUsed,     \* strictness levels the clients of the model use (subset of 0..3)
          Discards,       \* may the client throw away unread frames at its own service change (library clients do)
          Faulty          \* the clients that may stop in the middle of a message (Partial)

Levels == 0..3            \* strict -1..2
VARIABLES conn,           \* [Clients -> {"none", "wait", "fwd"}]: no connection / accepted (WAIT_CON_REQ) / FORWARD
          req,            \* [Clients -> [Levels -> SUBSET Services]]: services[] cache of the client
          granted,        \* [Clients -> SUBSET Services]: all_services
          open, devsrv,   \* p_capture != NULL, services the device captures
          queue,          \* p_sliced: sequence of [id, lines, ref]
          nfree,          \* length of p_free
          cur,            \* [Clients -> Nat]: position of the client's cursor in queue, 0 = NULL
          frame,          \* capture clock: number of the last frame
          sock,           \* [Clients -> Seq([id, lines])]: sent, not yet read
          tmp,            \* thread variant: the acquisition thread holds a buffer (p_tmp_buf) and waits for a frame
          rdp,            \* [Clients -> BOOLEAN]: a message of the client is received in part (!vbi_proxy_msg_read_idle)
          owed            \* ghost, see above (numbers of the frames c has still to read)

vars == <<conn, req, granted, open, devsrv, queue, nfree, cur, frame, sock, tmp, rdp, owed>>

NoReq == [l \in Levels |-> {}]
Ids(s) == [i \in 1..Len(s) |-> s[i].id]
Max2(a, b) == IF a > b THEN a ELSE b
Minus(a, b) == IF a > b THEN a - b ELSE 0
Fwd(c) == conn[c] = "fwd"
Subscribed(c) == Fwd(c) /\ granted[c] # {}
Blocked(c) == Len(sock[c]) >= S                         \* the daemon's write to c does not complete
NConn(cn) == Cardinality({c \in Clients : cn[c] # "none"})         \* every accepted connection counts

Init == /\ conn = [c \in Clients |-> "none"] /\ req = [c \in Clients |-> NoReq]
        /\ granted = [c \in Clients |-> {}] /\ open = FALSE /\ devsrv = {}
        /\ queue = <<>> /\ nfree = 0 /\ cur = [c \in Clients |-> 0] /\ frame = 0
        /\ sock = [c \in Clients |-> <<>>] /\ tmp = FALSE /\ owed = [c \in Clients |-> <<>>]
        /\ rdp = [c \in Clients |-> FALSE]

---------------------------------------------------------------------------
(* queue primitives *)

\* vbi_proxy_queue_release_sliced for client c once: result [q, cu, nf, ok]; ok = FALSE: the code's assert fails
\* (a buffer whose last reference goes is not the head)
Release1(q, cu, nf, c) ==
  LET i == cu[c]
      q1 == [q EXCEPT ![i].ref = Minus(@, 1)]
      nxt == IF i < Len(q) THEN i + 1 ELSE 0
  IN IF q1[i].ref = 0
     THEN [q |-> Tail(q1), nf |-> nf + 1, ok |-> (i = 1),
           cu |-> [d \in Clients |-> IF d = c THEN Minus(nxt, 1) ELSE Minus(cu[d], 1)]]
     ELSE [q |-> q1, nf |-> nf, ok |-> TRUE, cu |-> [cu EXCEPT ![c] = nxt]]

\* while (req->p_sliced != NULL) release: all of c's queued frames
RECURSIVE ReleaseAll(_, _, _, _)
ReleaseAll(q, cu, nf, c) ==
  IF cu[c] = 0 THEN [q |-> q, cu |-> cu, nf |-> nf, ok |-> TRUE]
  ELSE LET r == Release1(q, cu, nf, c) IN
       IF ~r.ok THEN r ELSE ReleaseAll(r.q, r.cu, r.nf, c)

QueuedFor(q, cu, c) == IF cu[c] = 0 THEN <<>> ELSE SubSeq(q, cu[c], Len(q))

\* vbi_proxy_queue_allocate: the number of buffers needed is Base + one per connection; if there are too many the
\* free list is dropped, then it is refilled up to the need; queued buffers are never taken
AllocTo(used, cn) == Minus(Base + NConn(cn), used)

\* vbi_proxyd_update_services: what every connected client is granted (the device grants what it supports),
\* device services = union; the device is opened / closed; the queue is dropped when it closes.
Grant(rq, cn) == [c \in Clients |-> IF cn[c] = "fwd" THEN UNION {rq[c][l] : l \in Levels} \cap Supported ELSE {}]

UpdateServices(rq, cn, q, cu, nf) ==
  LET g == Grant(rq, cn)
      ds == UNION {g[c] : c \in Clients}
  IN IF ds # {}
     THEN /\ granted' = g /\ open' = TRUE /\ devsrv' = ds
          /\ queue' = q /\ cur' = cu /\ tmp' = FALSE    \* (the acquisition thread is stopped: its buffer goes back)
          /\ nfree' = AllocTo(Len(q), cn)
     ELSE \* no services left: vbi_proxy_stop_acquisition - every cursor reset, all buffers freed
          /\ granted' = g /\ open' = FALSE /\ devsrv' = {}
          /\ queue' = <<>> /\ cur' = [c \in Clients |-> 0] /\ nfree' = 0 /\ tmp' = FALSE

---------------------------------------------------------------------------
(* client messages *)

\* vbi_proxyd_add_connection
Accept(c) == /\ conn[c] = "none" /\ conn' = [conn EXCEPT ![c] = "wait"]
             /\ UNCHANGED <<req, granted, open, devsrv, queue, nfree, cur, frame, sock, tmp, rdp, owed>>

\* a complete message has been taken: the read phase of the connection is over
MsgDone(c) == rdp' = [rdp EXCEPT ![c] = FALSE]

\* CONNECT_REQ with services sv at strictness level l
Connect(c, sv, l) ==
  /\ conn[c] = "wait"
  /\ LET cn == [conn EXCEPT ![c] = "fwd"]
         rq == [req EXCEPT ![c] = [NoReq EXCEPT ![l] = sv \cap Supported]]
     IN /\ (sv # {} => sv \cap Supported # {})       \* otherwise the connect is rejected (ProxyConn)
        /\ conn' = cn /\ req' = rq
        /\ UpdateServices(rq, cn, queue, cur, nfree)
  /\ sock' = [sock EXCEPT ![c] = <<>>] /\ owed' = [owed EXCEPT ![c] = <<>>]
  /\ MsgDone(c) /\ UNCHANGED frame

\* CONNECT_REQ asking only for services the device does not have: it is processed like any other (state FORWARD,
\* vbi_proxyd_update_services - the buffers are counted again, with this connection, and the acquisition thread is
\* restarted), then refused (CONNECT_REJ) and the connection closed - without another update, since it has no services
ConnectRej(c) ==
  /\ conn[c] = "wait"
  /\ conn' = [conn EXCEPT ![c] = "none"]
  /\ IF open THEN nfree' = AllocTo(Len(queue), conn) /\ tmp' = FALSE ELSE UNCHANGED <<nfree, tmp>>
  /\ MsgDone(c) /\ UNCHANGED <<req, granted, open, devsrv, queue, cur, frame, sock, owed>>

\* SERVICE_REQ: reset clears the cache; sv moves to level l; the client's queued frames are dropped first.
\* discard: the client (library) also throws away what it has not read yet while it waits for the confirmation.
ServiceReq(c, sv, l, reset, discard) ==
  /\ Fwd(c)
  /\ LET r == ReleaseAll(queue, cur, nfree, c)
         old == IF reset THEN NoReq ELSE req[c]
         new == [k \in Levels |-> IF k = l THEN (old[k] \cup sv) \cap Supported ELSE old[k] \ sv]
         rq == [req EXCEPT ![c] = new]
         gone == {queue[i].id : i \in (IF cur[c] = 0 THEN {} ELSE cur[c]..Len(queue))}
                 \cup (IF discard THEN {sock[c][i].id : i \in 1..Len(sock[c])} ELSE {})
     IN /\ r.ok
        /\ req' = rq
        /\ UpdateServices(rq, conn, r.q, r.cu, r.nf)
        \* excused: what was still queued for c
        /\ owed' = [owed EXCEPT ![c] = SelectSeq(@, LAMBDA f : f \notin gone)]
        /\ sock' = IF discard THEN [sock EXCEPT ![c] = <<>>] ELSE sock
  /\ MsgDone(c) /\ UNCHANGED <<conn, frame>>

\* the connection is closed (by either side) and removed
Disconnect(c) ==
  /\ conn[c] # "none"
  /\ LET r == ReleaseAll(queue, cur, nfree, c)
         cn == [conn EXCEPT ![c] = "none"]
         rq == [req EXCEPT ![c] = NoReq]
     IN /\ r.ok
        /\ conn' = cn /\ req' = rq
        /\ IF granted[c] # {} THEN UpdateServices(rq, cn, r.q, r.cu, r.nf)
           ELSE /\ queue' = r.q /\ cur' = r.cu /\ nfree' = r.nf
                /\ UNCHANGED <<granted, open, devsrv, tmp>>
  /\ sock' = [sock EXCEPT ![c] = <<>>] /\ owed' = [owed EXCEPT ![c] = <<>>]
  /\ MsgDone(c) /\ UNCHANGED frame

\* a message of c is received in part (then silence): the connection stays in its read phase
Partial(c) ==
  /\ c \in Faulty /\ conn[c] # "none"
  /\ rdp' = [rdp EXCEPT ![c] = TRUE]
  /\ UNCHANGED <<conn, req, granted, open, devsrv, queue, nfree, cur, frame, sock, tmp, owed>>

\* a complete message that leaves the data path alone (CHN_TOKEN_REQ, CHN_NOTIFY_REQ, CHN_IOCTL_REQ, CHN_SUSPEND_REQ,
\* CHN_RECLAIM_CNF): taken, answered; the frames queued meanwhile are forwarded afterwards (Send)
Other(c) ==
  /\ conn[c] # "none" /\ MsgDone(c)
  /\ UNCHANGED <<conn, req, granted, open, devsrv, queue, nfree, cur, frame, sock, tmp, owed>>

---------------------------------------------------------------------------
(* data path *)

\* who must have been served before the next frame is taken (select variant): everybody who is not blocked and
\* not in the middle of a message of its own (vbi_proxy_msg_is_idle)
Served(blk) == \A c \in Clients : cur[c] # 0 => (c \in blk \/ rdp[c])

\* vbi_proxy_queue_get_free, else vbi_proxy_queue_force_free: a buffer for the next frame.  Without a free one the
\* head of the queue is taken away from every client still on it.  (ok: the head is referenced by exactly those)
TakeBuffer ==
  IF nfree > 0 THEN [q |-> queue, cu |-> cur, nf |-> nfree - 1, victims |-> {}, lost |-> 0, ok |-> TRUE]
  ELSE IF queue # <<>>
  THEN LET v == {c \in Clients : cur[c] = 1} IN
       [q |-> Tail(queue), nf |-> 0, victims |-> v, lost |-> queue[1].id, ok |-> queue[1].ref = Cardinality(v),
        cu |-> [c \in Clients |-> IF cur[c] = 0 THEN 0
                                   ELSE IF cur[c] = 1 THEN (IF Len(queue) > 1 THEN 1 ELSE 0) ELSE cur[c] - 1]]
  ELSE [q |-> queue, cu |-> cur, nf |-> 0, victims |-> {}, lost |-> 0, ok |-> FALSE]     \* "queue overflow"

Forgive(o, t) == [c \in Clients |-> IF c \in t.victims THEN SelectSeq(o[c], LAMBDA x : x # t.lost) ELSE o[c]]

\* the frame is stored in the buffer and appended for every subscribed client (the buffer goes back if there is none)
Enqueue(q, cu, nf, o) ==
  LET f == frame + 1
      subs == {c \in Clients : Subscribed(c)}
      buf == [id |-> f, lines |-> devsrv, ref |-> Cardinality(subs)]
  IN /\ frame' = f
     /\ IF subs # {}
        THEN /\ queue' = Append(q, buf) /\ nfree' = nf
             /\ cur' = [c \in Clients |-> IF c \in subs /\ cu[c] = 0 THEN Len(q) + 1 ELSE cu[c]]
        ELSE /\ queue' = q /\ cur' = cu /\ nfree' = nf + 1
     /\ owed' = [c \in Clients |-> IF c \in subs THEN Append(o[c], f) ELSE o[c]]
     /\ UNCHANGED rdp

\* select variant - one frame: blk = the clients whose socket is full; quiet: the frame arrives while the main
\* loop is waiting (not in the middle of a burst)
Tick(blk, quiet) ==
  /\ ~Threaded /\ open /\ frame < MaxFrames
  /\ ~quiet \/ Served(blk)
  /\ LET t == TakeBuffer IN t.ok /\ Enqueue(t.q, t.cu, t.nf, Forgive(owed, t))
  /\ UNCHANGED <<conn, req, granted, open, devsrv, sock, tmp>>

\* thread variant - the acquisition thread takes a buffer, then blocks until the next frame arrives ...
Fetch ==
  /\ Threaded /\ open /\ ~tmp
  /\ LET t == TakeBuffer IN
        /\ t.ok /\ queue' = t.q /\ cur' = t.cu /\ nfree' = t.nf /\ owed' = Forgive(owed, t)
  /\ tmp' = TRUE
  /\ UNCHANGED <<conn, req, granted, open, devsrv, frame, sock, rdp>>
\* ... and stores it (implicit: buffer taken and frame stored in one step, no buffer had to be forced free)
Capture(implicit) ==
  /\ Threaded /\ open /\ frame < MaxFrames
  /\ IF implicit THEN ~tmp /\ nfree > 0 /\ Enqueue(queue, cur, nfree - 1, owed)
                 ELSE tmp /\ Enqueue(queue, cur, nfree, owed)
  /\ tmp' = FALSE
  /\ UNCHANGED <<conn, req, granted, open, devsrv, sock>>

\* the daemon sends c its next frame, filtered to c's services, and releases the buffer for c
\* (only while the connection is idle: no write pending, no message of the client received in part)
Send(c) ==
  /\ Fwd(c) /\ cur[c] # 0 /\ ~Blocked(c) /\ ~rdp[c]
  /\ LET b == queue[cur[c]]
         r == Release1(queue, cur, nfree, c)
     IN /\ r.ok
        /\ sock' = [sock EXCEPT ![c] = Append(@, [id |-> b.id, lines |-> b.lines \cap granted[c]])]
        /\ queue' = r.q /\ cur' = r.cu /\ nfree' = r.nf
  /\ UNCHANGED <<conn, req, granted, open, devsrv, frame, tmp, rdp, owed>>

\* the client reads one frame: it must be the oldest one owed to it
Read(c) ==
  /\ Fwd(c) /\ sock[c] # <<>>
  /\ sock' = [sock EXCEPT ![c] = Tail(@)]
  /\ owed' = [owed EXCEPT ![c] = IF @ # <<>> /\ Head(@) = Head(sock[c]).id THEN Tail(@) ELSE @]
  /\ UNCHANGED <<conn, req, granted, open, devsrv, queue, nfree, cur, frame, tmp, rdp>>

BlockedNow == {c \in Clients : Fwd(c) /\ Blocked(c)}

Next == \/ \E c \in Clients :
             \/ \E sv \in SUBSET Services, l \in LevelsUsed : Connect(c, sv, l)
             \/ \E sv \in SUBSET Services, l \in LevelsUsed, rs \in BOOLEAN, dc \in Discards : ServiceReq(c, sv, l, rs, dc)
             \/ Accept(c) \/ Disconnect(c) \/ Send(c) \/ Read(c) \/ Partial(c) \/ Other(c) \/ ConnectRej(c)
        \/ Tick(BlockedNow, TRUE) \/ Fetch \/ Capture(FALSE)

Spec == Init /\ [][Next]_vars

---------------------------------------------------------------------------
(* properties *)

TypeOK == /\ \A i \in 1..Len(queue) : queue[i].ref \in Nat /\ queue[i].lines \subseteq Supported
          /\ \A c \in Clients : cur[c] \in 0..Len(queue)
          /\ rdp \in [Clients -> BOOLEAN] /\ \A c \in Clients : rdp[c] => conn[c] # "none"

\* ref_count = number of cursors that will still reach the buffer; nothing unreferenced is queued
RefCount == \A i \in 1..Len(queue) :
               /\ queue[i].ref = Cardinality({c \in Clients : cur[c] # 0 /\ cur[c] <= i})
               /\ queue[i].ref > 0
\* only connected, subscribed clients have a cursor
CursorOK == \A c \in Clients : cur[c] # 0 => Subscribed(c)
\* the queue is in capture order
QueueOrder == \A i, j \in 1..Len(queue) : i < j => queue[i].id < queue[j].id
\* buffers are neither created nor lost while the device is open
Buffers == open => nfree + Len(queue) + (IF tmp THEN 1 ELSE 0) >= Base

\* every frame owed to c is in its socket or still queued for it - exactly once and in capture order - and what
\* the client reads next is the oldest frame owed to it
Delivery == \A c \in Clients : Fwd(c) => owed[c] = Ids(sock[c]) \o Ids(QueuedFor(queue, cur, c))
InOrder == \A c \in Clients : \A i, j \in 1..Len(owed[c]) : i < j => owed[c][i] < owed[c][j]
\* exactly the captured lines of the services granted to the client
Filtered == [][\A c \in Clients : Len(sock'[c]) = Len(sock[c]) + 1 =>
                       LET m == sock'[c][Len(sock'[c])] IN
                       m.lines = queue[cur[c]].lines \cap granted[c] /\ m.id = queue[cur[c]].id]_vars
\* the device is open for exactly the union of what the clients are granted
DeviceOpen == /\ open <=> (\E c \in Clients : granted[c] # {})
              /\ open => devsrv = UNION {granted[c] : c \in Clients}
              /\ ~open => queue = <<>> /\ nfree = 0 /\ ~tmp
\* frames are lost only when no buffer is free, and (select variant) only by clients that are blocked
Lost(c) == \/ frame' = frame + 1 /\ Len(owed'[c]) < Len(owed[c]) + (IF Subscribed(c) THEN 1 ELSE 0)
           \/ frame' = frame /\ ~tmp /\ tmp' /\ Len(owed'[c]) < Len(owed[c])
LossOnlyWhenFull == [][\A c \in Clients : Lost(c) => nfree = 0 /\ cur[c] = 1]_vars
OnlyBlockedLose == [][\A c \in Clients : Lost(c) => (Threaded \/ Blocked(c) \/ rdp[c])]_vars

\* the daemon always finds a buffer for the next frame: a free one, or the head of the queue, which is referenced
\* by exactly the clients whose cursor is on it - whatever state their connections are in
CanCapture == (open /\ ~tmp) => TakeBuffer.ok

\* (C19) what a client does - or stops doing in the middle - is its own affair: the frames the others have got,
\* have queued and are owed stay as they are; so does their subscription
ClientStep(c) == \/ \E sv \in SUBSET Services, l \in LevelsUsed : Connect(c, sv, l)
                 \/ \E sv \in SUBSET Services, l \in LevelsUsed, rs \in BOOLEAN, dc \in Discards : ServiceReq(c, sv, l, rs, dc)
                 \/ Disconnect(c) \/ Partial(c) \/ Other(c) \/ ConnectRej(c)
ChangedFor(d) == \/ conn'[d] # conn[d] \/ granted'[d] # granted[d] \/ rdp'[d] # rdp[d]
                 \/ sock'[d] # sock[d] \/ owed'[d] # owed[d]
                 \/ Ids(QueuedFor(queue', cur', d)) # Ids(QueuedFor(queue, cur, d))
\* stated from the side of the client that is left alone (cheaper to evaluate): d's connection, subscription, socket,
\* queued frames and dues change only by a captured frame, a daemon step for d, or a step of d itself
OthersKept == [][\A d \in Clients : ChangedFor(d) =>
                    (frame' # frame \/ tmp' # tmp \/ Send(d) \/ Read(d) \/ Accept(d) \/ ClientStep(d))]_vars

\* reachability companions (must be violated)
NeverLost == [][\A c \in Clients : ~Lost(c)]_vars
NeverTwoQueued == Len(queue) < 2
NeverStuckLoses == [][\A c \in Clients : Lost(c) => ~rdp[c]]_vars
=============================================================================
