CONSTANTS Mags = {1, 8} Pages <- PagesMix Rows = {1} Cids = {1, 2} Nats = {0} Flofs = {} Progs <- ProgsAM
          HdrFaults <- HdrAll RowFaults <- RowFewM PktFaults <- PktAll TripFaults = {1, 4, 13} FlofFaults <- NoFlofFaults MaxFaults = 2 MaxPk = 5
SPECIFICATION Spec
VIEW mcview
CONSTRAINT Bounded
INVARIANTS OneVersion RollingOne OnlyTransmitted EnhNotMisplaced RuleRest LinksContained
PROPERTIES KeepsRows BadRowContained AddressFaultNothing HeaderFaultOnlyAbandons ParityErrorContained
CHECK_DEADLOCK FALSE
