CONSTANTS Mags = {1, 8} Pages <- PagesMix Rows = {1} Cids = {1, 2} Nats = {0} Flofs = {} Progs <- ProgsAB
          HdrFaults <- HdrAll RowFaults <- RowFew PktFaults <- PktAll TripFaults = {1, 4, 7, 13} MaxFaults = 2 MaxPk = 5
SPECIFICATION Spec
VIEW mcview
CONSTRAINT Bounded
INVARIANTS OneVersion RollingOne OnlyTransmitted EnhNotMisplaced RuleRest
PROPERTIES KeepsRows BadRowContained AddressFaultNothing HeaderFaultOnlyAbandons
CHECK_DEADLOCK FALSE
