------------------------------- MODULE TtxX26 -------------------------------
(* The sub-language of a packet X/26 (EN 300 706 section 12.3) as far as a Level 1.5 decoder shows it,
   from the transmitter's side, with transmission errors (property C03).

   A packet X/26 carries 13 triplets [a |-> address 0..63, m |-> mode 0..31, d |-> data 0..127], each
   Hamming 24/18 protected.  Address 40..63 = row address group, 0..39 = column address group:

     set active position (mode 4) / full row colour (mode 1)   select the row 1..24 (address 40 = row 24)
     termination marker (row address group, mode 31)           ends the enhancement data
     column address group, EN 300 706 table 29 (12.3.1), data >= 32 where a character is coded:
       modes that SUPPLY A CHARACTER for the addressed position (CharModes)
         1  G1 block mosaic (Level 2.5)          2  G3 line drawing / smoothed mosaic (Level 1.5)
         9  G0 character (Level 2.5)            11  G3 line drawing / smoothed mosaic (Level 2.5)
        13  DRCS character invocation (2.5)     15  G2 character (Level 1.5)
        16  G0 character without diacritical mark (Level 1.5)
        17..31  G0 character with diacritical mark 1..15 (Level 1.5)
       modes that only change HOW the position is displayed, or carry other data (no character):
         0  foreground colour    3  background colour     6  PDC data          7  additional flash functions
         8  modified G0 and G2 character set designation  12  display attributes   14  font style
         4, 5, 10  reserved
     Of the character modes a Level 1.5 decoder displays 2, 15 and 16..31 (IsChar); the others show
     nothing at Level 1.5 but the position still belongs to the enhancement data (Overridden).

   Reference semantics: a character lands at (addressed row, column).  Rows and, within a row, columns
   are transmitted in ascending order (WellFormed).

   Errors: one bit error in a triplet is corrected (= no error).  Two bit errors are detected; the
   triplet is lost and the decoder cannot know what it was - it may have been a row address - so this
   triplet AND ALL THAT FOLLOW are dropped (packet.c: "out-of-order/missing triplets are dropped, not
   misplaced").  Loss = "rest" is this rule; Loss = "triplet" (drop only the damaged triplet, keep
   interpreting) is the wrong rule, kept to show that NotMisplaced tells them apart.

   Overridden(ts) is the exception clause of C03 ("positions overridden by X/26 enhancement data
   excepted"): the level 1 byte transmitted for a position whose character comes from a triplet is
   only a fall-back (EN 300 706 table 25 notes that some encoders send it with even parity), so a
   parity error THERE may be forgiven; at a position a triplet merely addresses to change colour,
   flash, character set, attributes or font style the level 1 byte IS the character shown, and a parity
   error there is a parity error. *)
EXTENDS Naturals, Sequences, FiniteSets

RowT(r)        == [a |-> IF r = 24 THEN 40 ELSE 40 + r, m |-> 4, d |-> 0]     \* set active position
RowColT(r, c)  == [a |-> IF r = 24 THEN 40 ELSE 40 + r, m |-> 1, d |-> c]     \* full row colour c (this row only)
ChT(col, m, d) == [a |-> col, m |-> m, d |-> d]
TermT          == [a |-> 63, m |-> 31, d |-> 127]

IsTerm(t)  == t.a >= 40 /\ t.m = 31
SetsRow(t) == t.a >= 40 /\ t.m \in {1, 4}
RowOf(t)   == IF t.a = 40 THEN 24 ELSE t.a - 40
\* column address group, by mode (EN 300 706 table 29)
CharModes == {1, 2, 9, 11, 13, 15} \cup (16..31)      \* supply the character of their position (at some presentation level)
AttrModes == {0, 3, 7, 8, 12, 14}                      \* colours, flash, character set designation, display attributes, font style
OtherModes == {4, 5, 6, 10}                            \* reserved, PDC
ASSUME ModesPartition == /\ CharModes \cup AttrModes \cup OtherModes = 0..31
                         /\ CharModes \cap AttrModes = {} /\ CharModes \cap OtherModes = {} /\ AttrModes \cap OtherModes = {}
Supplies(t) == t.a < 40 /\ t.m \in CharModes
\* ... of which a Level 1.5 decoder displays:
IsChar(t)  == t.a < 40 /\ t.m \in ({2, 15} \cup (16..31)) /\ t.d >= 32

\* Latin G2 set (EN 300 706 table 36), the codes used by the models
G2Latin(d) == CASE d = 35 -> 163 [] d = 39 -> 167 [] d = 48 -> 176 [] d = 49 -> 177 [] d = 61 -> 189 [] d = 63 -> 191 [] OTHER -> 0
\* G0 without diacritical mark: the Latin G0 set without national options; letters and digits are
\* themselves, 0x2A stands for the commercial at (12.3.4 note)
\* G0 character d with the diacritical mark k = 1..15 of G2 column 4 (grave, acute, circumflex, tilde, macron, breve, dot above,
\* umlaut, dot below, ring, cedilla, underline, double acute, ogonek, caron): ISO 10646 precomposed, the combinations used by the models
Composed(k, d) == CASE k = 1 /\ d = 97 -> 224 [] k = 2 /\ d = 101 -> 233 [] k = 3 /\ d = 111 -> 244 [] k = 4 /\ d = 110 -> 241
                    [] k = 5 /\ d = 97 -> 257 [] k = 6 /\ d = 97 -> 259 [] k = 7 /\ d = 99 -> 267 [] k = 8 /\ d = 117 -> 252
                    [] k = 10 /\ d = 97 -> 229 [] k = 11 /\ d = 99 -> 231 [] k = 13 /\ d = 111 -> 337 [] k = 14 /\ d = 97 -> 261
                    [] k = 15 /\ d = 115 -> 353 [] OTHER -> 0
\* G3 characters are U+EF20 + (d - 32) in libzvbi's documented private mapping (format.h)
Uni(t) == IF t.m = 16 THEN (IF t.d = 42 THEN 64 ELSE t.d)
          ELSE IF t.m = 15 THEN G2Latin(t.d)
          ELSE IF t.m = 2 THEN 61184 + t.d
          ELSE Composed(t.m - 16, t.d)

\* where the characters of a triplet sequence land: set of <<row, column, unicode>>; row 0 = no row addressed yet
RECURSIVE Run(_, _, _, _)
Run(ts, i, row, acc) ==
  IF i > Len(ts) THEN acc
  ELSE LET t == ts[i] IN
       IF IsTerm(t) THEN acc
       ELSE IF SetsRow(t) THEN Run(ts, i + 1, RowOf(t), acc)
       ELSE IF IsChar(t) THEN Run(ts, i + 1, row, acc \cup {<<row, t.a, Uni(t)>>})
       ELSE Run(ts, i + 1, row, acc)
Lands(ts) == Run(ts, 1, 0, {})

\* the positions <<row, column>> whose character is supplied by the enhancement data (at any presentation level)
RECURSIVE RunO(_, _, _, _)
RunO(ts, i, row, acc) ==
  IF i > Len(ts) THEN acc
  ELSE LET t == ts[i] IN
       IF IsTerm(t) THEN acc
       ELSE IF SetsRow(t) THEN RunO(ts, i + 1, RowOf(t), acc)
       ELSE IF Supplies(t) THEN RunO(ts, i + 1, row, acc \cup {<<row, t.a>>})
       ELSE RunO(ts, i + 1, row, acc)
Overridden(ts) == RunO(ts, 1, 0, {})
\* the positions a column triplet addresses at all
RECURSIVE RunA(_, _, _, _)
RunA(ts, i, row, acc) ==
  IF i > Len(ts) THEN acc
  ELSE LET t == ts[i] IN
       IF IsTerm(t) THEN acc
       ELSE IF SetsRow(t) THEN RunA(ts, i + 1, RowOf(t), acc)
       ELSE IF t.a < 40 THEN RunA(ts, i + 1, row, acc \cup {<<row, t.a>>})
       ELSE RunA(ts, i + 1, row, acc)
Addressed(ts) == RunA(ts, 1, 0, {})

\* A character is COMPLETE once a later received triplet moves on: a character further right in the same row, a
\* row address or the termination marker (until then further triplets may still address the same position).
\* Complete characters must be shown; the last, still open one may or may not be (Lands is the upper bound).
RECURSIVE RunC(_, _, _, _, _)
RunC(ts, i, row, pend, acc) ==
  IF i > Len(ts) THEN acc
  ELSE LET t == ts[i] IN
       IF IsTerm(t) THEN acc \cup pend
       ELSE IF SetsRow(t) THEN RunC(ts, i + 1, RowOf(t), {}, acc \cup pend)
       ELSE IF IsChar(t) THEN RunC(ts, i + 1, row, {<<row, t.a, Uni(t)>>}, acc \cup {q \in pend : q[2] < t.a})
       ELSE RunC(ts, i + 1, row, pend, acc)
Complete(ts) == RunC(ts, 1, 0, {}, {})

\* what a decoder keeps of a packet whose triplet number j (1..13; 0 = none) is uncorrectable
Kept(prog, j, loss) ==
  IF j = 0 THEN prog
  ELSE IF loss = "rest" THEN SubSeq(prog, 1, j - 1)
  ELSE SubSeq(prog, 1, j - 1) \o SubSeq(prog, j + 1, Len(prog))

\* transmitter discipline: starts with a row address, rows ascend, columns ascend within a row
RECURSIVE Ordered(_, _, _, _)
Ordered(ts, i, row, col) ==
  IF i > Len(ts) THEN TRUE
  ELSE LET t == ts[i] IN
       IF IsTerm(t) THEN TRUE
       ELSE IF SetsRow(t) THEN RowOf(t) > row /\ Ordered(ts, i + 1, RowOf(t), 0)
       ELSE IF t.a < 40 THEN row > 0 /\ t.a + 1 > col /\ Ordered(ts, i + 1, row, t.a + 1)
       ELSE Ordered(ts, i + 1, row, col)
WellFormed(prog) == Len(prog) = 13 /\ Ordered(prog, 1, 0, 0)
                    /\ \A i \in 1..13 : IsChar(prog[i]) => Uni(prog[i]) # 0

\* C03 for X/26: whatever is lost, every character shown was transmitted for exactly that place
NotMisplaced(prog, j, loss) == Lands(Kept(prog, j, loss)) \subseteq Lands(prog)
=============================================================================
