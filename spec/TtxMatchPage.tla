--------------------------- MODULE TtxMatchPage ---------------------------
(* Page level of the independent matcher (C17): what the successive calls of vbi_search_next
   report on pages whose rows are given as glyph sequences.

   A displayed row is a record [g |-> <<glyph, ...>>, col |-> <<first column of each glyph>>],
   glyph = [c |-> character code, z |-> "n" | "w" | "h"]: normal size (one cell), double width
   (two cells side by side, one character for the matcher: "ZZAAPP" is found as "ZAP") and
   double height (the cell and the one below; the row below shows only blanks under the normal
   sized cells and is NOT text under the enlarged ones).  The matcher sees one character per
   glyph; an occurrence lies within one row (the separator between rows is not displayed).

   A cache is [lib |-> <<row, ...>>, pages |-> << <<lib index of row 1, ..., of row 23>>, ... >>],
   pages in ascending page number order.

   Reference policy (RefFwd / RefBwd): forwards the leftmost occurrence behind the previous one,
   the longest at that place; backwards what search.c documents by its construction: the text
   before the previous hit is cut into successive occurrences and the last one is reported.

   Acceptance (JudgeFwd / JudgeBwd) states what property C17 demands of ANY result sequence and
   leaves the length policy open: every reported highlight is a real occurrence, no occurrence
   between two reports (or before the first / behind the last one) is skipped, and NOT_FOUND is
   reported only when nothing is left.                                                         *)
EXTENDS TtxMatch, TLC

N(c) == [c |-> c, z |-> "n"]
GW(x) == IF x.z = "w" THEN 2 ELSE 1
RECURSIVE Cols(_, _, _)
Cols(g, i, c) == IF i > Len(g) THEN <<>> ELSE <<c>> \o Cols(g, i + 1, c + GW(g[i]))
MkRow(g) == [g |-> g, col |-> Cols(g, 1, 0)]
RowText(row) == TLCEval([i \in 1..Len(row.g) |-> row.g[i].c])
RowCells(row) == IF row.g = <<>> THEN 0 ELSE row.col[Len(row.g)] + GW(row.g[Len(row.g)])
(* the row below a row with double height glyphs: a blank under every other cell *)
RECURSIVE LowerOf(_, _)
LowerOf(row, i) ==
  IF i > Len(row.g) THEN [g |-> <<>>, col |-> <<>>]
  ELSE LET rest == LowerOf(row, i + 1) IN
       IF row.g[i].z = "h" THEN rest
       ELSE IF row.g[i].z = "w"
            THEN [g |-> <<N(32), N(32)>> \o rest.g, col |-> <<row.col[i], row.col[i] + 1>> \o rest.col]
            ELSE [g |-> <<N(32)>> \o rest.g, col |-> <<row.col[i]>> \o rest.col]
LowerRow(row) == LowerOf(row, 1)
HasTall(row) == \E i \in 1..Len(row.g) : row.g[i].z = "h"

SetMin(S) == CHOOSE x \in S : \A y \in S : x <= y
SetMax(S) == CHOOSE x \in S : \A y \in S : x >= y

GlyphCells(row, r, i) ==
  LET c == row.col[i] IN
  IF row.g[i].z = "w" THEN {<<r, c>>, <<r, c + 1>>}
  ELSE IF row.g[i].z = "h" THEN {<<r, c>>, <<r + 1, c>>} ELSE {<<r, c>>}
OccCells(row, r, o) == UNION {GlyphCells(row, r, i) : i \in o[1]..(o[2] - 1)}

-----------------------------------------------------------------------------
(* Occurrences of pattern p in every row of the library, as a function per row: glyph index of
   the start -> set of ends (exclusive), i.e. <<i, j>> \in Occ(p, text, cf) <=> j \in tab[row][i].
   Computed as OccF does (no attempt where CanStart excludes one); and the ends found in the blank
   row (lib[1]) are taken over for the blank tail of a row of the same length: what matches from
   glyph i on depends only on the glyphs from i on, on i = 1 and on the length.
   MC_TtxMatchFast checks this table against Occ. *)
MatchEnds(p, s, i, cf) == {e \in Ends(p, s, i, cf) : e > i}
RowEnds(p, s, cf, reuse, t) ==
  LET ok == {c \in {s[i] : i \in 1..Len(s)} : CanStart(p, c, cf)}
  IN TLCEval([i \in 1..Len(s) |-> IF i >= t THEN reuse[i] ELSE IF s[i] \in ok THEN MatchEnds(p, s, i, cf) ELSE {}])
TailStart(s) == LET nb == {x \in 1..Len(s) : s[x] # 32} IN IF nb = {} THEN 2 ELSE SetMax(nb \cup {1}) + 1
OccTab(p, cf, cache) ==
  LET bt == RowText(cache.lib[1])
      isblank == \A x \in 1..Len(bt) : bt[x] = 32
      be == RowEnds(p, bt, cf, <<>>, 100)
  \* not forced: TLC evaluates the row of a function constructor when it is applied, so only the rows which a pass visits
  \* are computed (a pass ends after Cap+1 reports); the users below apply it once per row visited
  IN [ri \in 1..Len(cache.lib) |->
        IF ri = 1 THEN be
        ELSE LET s == RowText(cache.lib[ri])
             IN RowEnds(p, s, cf, be, IF isblank /\ Len(s) = Len(bt) THEN TailStart(s) ELSE 100)]
OccOfRow(re) == UNION {{<<i, j>> : j \in re[i]} : i \in 1..Len(re)}

(* at most `need` successive occurrences of a row from glyph index `from`, each within glyphs
   < lim: leftmost start, longest at that start *)
RECURSIVE Tiles(_, _, _, _)
Tiles(re, from, lim, need) ==
  LET c == {i \in from..Len(re) : \E e \in re[i] : e <= lim} IN
  IF c = {} \/ need = 0 THEN <<>>
  ELSE LET s == SetMin(c)
           e == SetMax({x \in re[s] : x <= lim})
       IN << <<s, e>> >> \o Tiles(re, e, lim, need - 1)
\* the last of the successive occurrences
RECURSIVE LastTile(_, _, _)
LastTile(re, from, lim) ==
  LET c == {i \in from..Len(re) : \E e \in re[i] : e <= lim} IN
  IF c = {} THEN <<>>
  ELSE LET s == SetMin(c)
           e == SetMax({x \in re[s] : x <= lim})
           more == LastTile(re, e, lim)
       IN IF more = <<>> THEN <<s, e>> ELSE more

NRows == 23
Hit(pi, r, o) == [pg |-> pi, r |-> r, s |-> o[1], e |-> o[2]]

(* the first `need` reports of a forward pass from page pi row r *)
RECURSIVE FwdFrom(_, _, _, _, _)
FwdFrom(tab, cache, pi, r, need) ==
  IF need = 0 \/ pi > Len(cache.pages) THEN <<>>
  ELSE IF r > NRows THEN FwdFrom(tab, cache, pi + 1, 1, need)
  ELSE LET t == Tiles(tab[cache.pages[pi][r]], 1, 100, need)
       IN [i \in 1..Len(t) |-> Hit(pi, r, t[i])] \o FwdFrom(tab, cache, pi, r + 1, need - Len(t))
RefFwd(tab, cache, need) == FwdFrom(tab, cache, 1, 1, need)

(* backwards: the text are the rows 1..r-1 and the glyphs < lim of row r (re = occurrences of row r) *)
RECURSIVE BwdFrom(_, _, _, _, _), BwdRow(_, _, _, _, _, _, _)
BwdFrom(tab, cache, pi, r, need) ==
  IF need = 0 \/ pi < 1 THEN <<>>
  ELSE IF r < 1 THEN BwdFrom(tab, cache, pi - 1, NRows, need)
  ELSE BwdRow(tab, cache, pi, r, tab[cache.pages[pi][r]], 100, need)
BwdRow(tab, cache, pi, r, re, lim, need) ==
  IF need = 0 THEN <<>>
  ELSE LET t == LastTile(re, 1, lim) IN
       IF t # <<>> THEN <<Hit(pi, r, t)>> \o BwdRow(tab, cache, pi, r, re, t[1], need - 1)
       ELSE BwdFrom(tab, cache, pi, r - 1, need)
RefBwd(tab, cache, need) == BwdFrom(tab, cache, Len(cache.pages), NRows, need)

HitCells(cache, h) == OccCells(cache.lib[cache.pages[h.pg][h.r]], h.r, <<h.s, h.e>>)
\* what the check compares: page (index) and highlighted cells of the first n reports, and whether NOT_FOUND follows within them
Report(cache, seq, n) == [hits |-> [i \in 1..Len(seq) |-> [pg |-> seq[i].pg, hl |-> HitCells(cache, seq[i])]],
                          ends |-> Len(seq) < n]

-----------------------------------------------------------------------------
(* Acceptance of an observed sequence obs = << [pg |-> page index, hl |-> set of <<row, column>>], ... >>,
   ended = NOT_FOUND was reported behind it.  Positions are <<page index, row, glyph index>>. *)
Pos(pi, r, i) == pi * 10000 + r * 100 + i
NoHit == [pg |-> 0, r |-> 0, s |-> 0, e |-> 0]
\* the glyph range of page ob.pg whose cells are exactly the highlighted ones
Decode(cache, ob) ==
  IF ob.hl = {} \/ ob.pg \notin 1..Len(cache.pages) THEN NoHit
  ELSE LET r   == SetMin({q[1] : q \in ob.hl}) IN
       IF r \notin 1..NRows THEN NoHit
       ELSE LET row == cache.lib[cache.pages[ob.pg][r]]
                cs  == {q[2] : q \in {x \in ob.hl : x[1] = r}}
                S   == {i \in 1..Len(row.g) : row.col[i] = SetMin(cs)}
                E   == {i \in 1..Len(row.g) : row.col[i] + GW(row.g[i]) - 1 = SetMax(cs)}
            IN IF S = {} \/ E = {} THEN NoHit
               ELSE LET s == CHOOSE i \in S : TRUE
                        e == (CHOOSE i \in E : TRUE) + 1
                    IN IF s < e /\ OccCells(row, r, <<s, e>>) = ob.hl THEN [pg |-> ob.pg, r |-> r, s |-> s, e |-> e] ELSE NoHit
Real(tab, cache, h) == h # NoHit /\ h.e \in tab[cache.pages[h.pg][h.r]][h.s]

(* is there an occurrence in the rows <<pi, r>> .. <<pj, rr>> that starts at glyph >= lo in the first of
   these rows, and starts before smax and ends at or before emax in the last of them *)
RECURSIVE AnyOcc(_, _, _, _, _, _, _, _, _)
AnyOcc(tab, cache, pi, r, lo, pj, rr, smax, emax) ==
  IF pi > pj \/ (pi = pj /\ r > rr) THEN FALSE
  ELSE LET last == pi = pj /\ r = rr IN
       \/ LET re == tab[cache.pages[pi][r]] IN
          \E i \in lo..Len(re) : (last => i < smax) /\ \E e \in re[i] : last => e <= emax
       \/ IF r < NRows THEN AnyOcc(tab, cache, pi, r + 1, 1, pj, rr, smax, emax)
                      ELSE AnyOcc(tab, cache, pi + 1, 1, 1, pj, rr, smax, emax)

RECURSIVE JFwd(_, _, _, _, _, _)
JFwd(tab, cache, obs, ended, i, cur) ==
  IF i > Len(obs)
  THEN IF ended /\ AnyOcc(tab, cache, cur[1], cur[2], cur[3], Len(cache.pages), NRows, 100, 100)
       THEN [v |-> "early-end", at |-> i] ELSE [v |-> "ok", at |-> 0]
  ELSE LET h == Decode(cache, obs[i]) IN
       IF ~Real(tab, cache, h) THEN [v |-> "not-occurrence", at |-> i]
       ELSE IF Pos(h.pg, h.r, h.s) < Pos(cur[1], cur[2], cur[3]) THEN [v |-> "no-progress", at |-> i]
       ELSE IF AnyOcc(tab, cache, cur[1], cur[2], cur[3], h.pg, h.r, h.s, 100) THEN [v |-> "skipped", at |-> i]
       ELSE JFwd(tab, cache, obs, ended, i + 1, <<h.pg, h.r, h.e>>)
JudgeFwd(tab, cache, obs, ended) == JFwd(tab, cache, obs, ended, 1, <<1, 1, 1>>)

RECURSIVE JBwd(_, _, _, _, _, _)
JBwd(tab, cache, obs, ended, i, cur) ==
  IF i > Len(obs)
  THEN IF ended /\ AnyOcc(tab, cache, 1, 1, 1, cur[1], cur[2], 100, cur[3])
       THEN [v |-> "early-end", at |-> i] ELSE [v |-> "ok", at |-> 0]
  ELSE LET h == Decode(cache, obs[i]) IN
       IF ~Real(tab, cache, h) THEN [v |-> "not-occurrence", at |-> i]
       ELSE IF Pos(h.pg, h.r, h.e) > Pos(cur[1], cur[2], cur[3]) THEN [v |-> "no-progress", at |-> i]
       ELSE IF AnyOcc(tab, cache, h.pg, h.r, h.e, cur[1], cur[2], 100, cur[3]) THEN [v |-> "skipped", at |-> i]
       ELSE JBwd(tab, cache, obs, ended, i + 1, <<h.pg, h.r, h.s>>)
JudgeBwd(tab, cache, obs, ended) == JBwd(tab, cache, obs, ended, 1, <<Len(cache.pages), NRows, 100>>)
=============================================================================
