---------------------------- MODULE Gen_TtxEvents ----------------------------
(* API histories for the event driver: every path of the bounded model that ends with all
   top-level calls made and no delivery running; each step carries what the callback log and
   the enabled-service mask must be. *)
EXTENDS MC_TtxEvents, Json
VARIABLE hist
gvars == <<vars, hist>>
GInit == Init /\ hist = <<>>
MaskSeq(m) == [ttx |-> "ttx" \in m, net |-> "net" \in m, cap |-> "cap" \in m]
Act == IF "mask" \in DOMAIN lastAct' THEN [lastAct' EXCEPT !.mask = MaskSeq(@)] ELSE lastAct'
TtxH == LET ids == SelectSeq(hl', LAMBDA i : "ttx" \in rec'[i].mask) IN [k \in 1..Len(ids) |-> <<rec'[ids[k]].fn, rec'[ids[k]].ud>>]
GNext == Next /\ hist' = Append(hist, [act |-> Act, em |-> MaskSeq(emask'), n |-> Len(hl'), ttxh |-> TtxH])
GSpec == GInit /\ [][GNext]_gvars
Done == ntop = MaxTop /\ ~dl.on /\ tx = "none" /\ nprobe = MaxProbe
Dump == Done => PrintT(<<"TR", ToJson(hist)>>)
=============================================================================
