CONSTANTS Clients = {1, 2, 3} Prios = {1, 2} FixTokenOwner = TRUE FixFlushClosed = TRUE FixRegrant = TRUE
CONSTANT NsiSkipsReclaim <- On
SPECIFICATION Spec
INVARIANTS TypeOK SingleOwner NoCrash OneHolder
PROPERTIES GrantOnlyWhenFree GrantOnlyOnRequest
CHECK_DEADLOCK FALSE
