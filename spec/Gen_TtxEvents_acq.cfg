CONSTANTS Fns = {1, 2} Uds = {1} Types = {"ttx", "net"} Masks <- M2 MaxTop = 3 MaxNested = 0 FixUp = TRUE MaxProbe = 1 ResetOnActivate = TRUE
SPECIFICATION GSpec
CONSTRAINT Dump
CHECK_DEADLOCK FALSE
