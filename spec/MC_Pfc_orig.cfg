CONSTANTS K = 6 NP = 2 Sizes = {0, 1, 2, 4, 7} Fills = {0, 1, 2} MaxBlocks = 3 Faults = {"none", "drop", "badbp"} TailCheck = FALSE Foreign = {"none"} TailAtForeign = TRUE
SPECIFICATION Spec
INVARIANTS Sound Complete Resume
CHECK_DEADLOCK FALSE
