CONSTANT Cfgs <- CfgSet
SPECIFICATION Spec
INVARIANTS TypeOK ChannelOk WriteBound
CONSTRAINT Survey
CHECK_DEADLOCK FALSE
