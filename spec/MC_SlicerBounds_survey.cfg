CONSTANT Cfgs <- CfgSet
SPECIFICATION Spec
INVARIANTS TypeOK ChannelOk WriteBound RefusedIdle
CONSTRAINT Survey
CHECK_DEADLOCK FALSE
