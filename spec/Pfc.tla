-------------------------------- MODULE Pfc --------------------------------
(* Page Format - Clear (EN 300 708 section 4) as received by vbi_pfc_demux_feed() /
   _vbi_pfc_demux_decode() in src/pfc_demux.c.

   SENDER (pure operators): a list of blocks [app, size, fill] is laid out as the byte stream
   BS SH SH SH SH data... with filler bytes, where the first block separator of every packet is
   moved to an offset the block pointer can express (a multiple of 3), the stream is cut into
   packets of K bytes with their block pointer, and the packets into pages of NP packets with a
   header carrying the continuity index and the packet count.  TLC enumerates all block lists,
   i.e. every alignment of separators, structure headers and data relative to packet and page ends.
   CHANNEL: one item may be dropped or its block pointer damaged beyond correction.
   RECEIVER: the state machine of the demultiplexer, one item per step.
   Property C15 (PFC half): Sound, Complete, Resume below.

   Wire elements are integers: 0..255 data byte, BS = 300, FILL = 301, 400+n = structure header
   nibble n.                                                                                   *)
EXTENDS Naturals, Integers, Sequences, FiniteSets, TLC

CONSTANTS K,            \* data bytes per packet (39)
          NP,           \* packets per page (1..25)
          Sizes,        \* block sizes
          Fills,        \* numbers of extra filler bytes in front of a block
          MaxBlocks,
          Faults,       \* subset of {"none", "drop", "badbp"}
          TailCheck,    \* TRUE: a header arriving before the announced last packet of the page resets (repaired code)
          Foreign,      \* other traffic of the magazine between two of our pages: subset of {"none", "page", "stream", "mag"}
                        \*   "page": header + first packet of another page of our magazine; "stream": our page number with
                        \*   another stream number; "mag": a header of another magazine in the middle of our page (parallel mode)
          TailAtForeign \* TRUE (as coded): the missing-tail test is made at EVERY header of our magazine, before the page filter

BS == 300
FILL == 301
NoBP == 13              \* block pointer value "no block starts in this packet" (13 * 3 = 39)

VARIABLES blocks, fault, fgn, items, pos, rx, out
vars == <<blocks, fault, fgn, items, pos, rx, out>>

-----------------------------------------------------------------------------
(* sender *)
DataByte(b, i) == (37 * b + 11 * i + 5) % 256
Rep(x, n) == [i \in 1..n |-> x]
ValidBP(o) == o % 3 = 0 /\ o + 3 <= K

\* does the packet in progress (the last Len(w) % K elements) already contain a block separator
Started(w) == LET o == Len(w) % K IN \E i \in (Len(w) - o + 1)..Len(w) : w[i] = BS

Align(w) == IF Started(w) THEN w
            ELSE LET o == Len(w) % K
                     up == IF o % 3 = 0 THEN o ELSE o + 3 - (o % 3)
                 IN IF ValidBP(up) THEN w \o Rep(FILL, up - o) ELSE w \o Rep(FILL, K - o)

SH(app, size) == LET v == app + size * 32 IN
                 <<400 + (v % 16), 400 + ((v \div 16) % 16), 400 + ((v \div 256) % 16), 400 + ((v \div 4096) % 16)>>

RECURSIVE Lay(_, _, _)
Lay(bl, k, w) ==
  IF k > Len(bl) THEN w
  ELSE LET b == bl[k]
           w1 == Align(w \o Rep(FILL, b.fill))
       IN Lay(bl, k + 1, w1 \o <<BS>> \o SH(b.app, b.size) \o [i \in 1..b.size |-> DataByte(k, i)])

Wire(bl) == LET w == Lay(bl, 1, <<>>) IN IF Len(w) % K = 0 THEN w ELSE w \o Rep(FILL, K - (Len(w) % K))

FirstBS(d) == LET idx == {i \in 1..Len(d) : d[i] = BS} IN
              IF idx = {} THEN NoBP ELSE ((CHOOSE i \in idx : \A j \in idx : i <= j) - 1) \div 3

\* the transmission: headers and packets; fg = kind of foreign traffic
Items(bl, fg) ==
  LET w == Wire(bl)
      n == Len(w) \div K
      pk(j) == LET d == SubSeq(w, (j - 1) * K + 1, j * K) IN
               [t |-> "P", page |-> (j - 1) \div NP, no |-> ((j - 1) % NP) + 1, bp |-> FirstBS(d), data |-> d]
      hd(p) == [t |-> "H", page |-> p, ci |-> (p + 14) % 16,
                n |-> IF (p + 1) * NP <= n THEN NP ELSE n - p * NP]
      \* behind the last packet of page p (j = its last packet)
      after(j) == IF j % NP # 0 /\ j # n THEN <<>>
                  ELSE LET p == (j - 1) \div NP IN
                       CASE fg = "page"   -> <<[t |-> "X", page |-> p], [t |-> "P", page |-> p, no |-> 1, bp |-> 0, data |-> Rep(FILL, K)]>>
                         [] fg = "stream" -> <<[t |-> "S", page |-> p]>>
                         [] OTHER -> <<>>
      \* behind the first packet of a page
      mid(j) == IF fg = "mag" /\ (j - 1) % NP = 0 THEN <<[t |-> "M", page |-> (j - 1) \div NP]>> ELSE <<>>
      RECURSIVE Sq(_)
      Sq(j) == IF j > n THEN <<>>
                ELSE (IF (j - 1) % NP = 0 THEN <<hd((j - 1) \div NP)>> ELSE <<>>) \o <<pk(j)>> \o mid(j) \o after(j) \o Sq(j + 1)
  IN Sq(1)

\* where (page) each block's separator lies, for the Resume property
RECURSIVE BsPages(_, _, _, _)
BsPages(w, i, acc, cnt) ==
  IF i > Len(w) THEN acc
  ELSE IF w[i] = BS THEN BsPages(w, i + 1, Append(acc, ((i - 1) \div K) \div NP), cnt + 1)
       ELSE BsPages(w, i + 1, acc, cnt)

-----------------------------------------------------------------------------
(* receiver: vbi_pfc_demux_reset / vbi_pfc_demux_feed / _vbi_pfc_demux_decode *)
Reset(r) == [r EXCEPT !.ci = 256, !.packet = 256, !.np = 0, !.buf = <<>>, !.left = 0, !.app = -1]
Rx0 == [ci |-> 256, packet |-> 256, np |-> 0, buf |-> <<>>, left |-> 0, app |-> -1, got |-> <<>>]

IsNib(x) == x >= 400 /\ x <= 415

RECURSIVE Decode(_, _, _, _), Scan(_, _, _, _)
\* r: receiver state, d: packet data (1-based), bp: byte offset of the pointed separator or >= K, col: bytes consumed
Decode(r, d, bp, col) ==
  IF col >= K THEN r
  ELSE IF r.left > 0
  THEN LET size == IF r.left < K - col THEN r.left ELSE K - col
           r1 == [r EXCEPT !.buf = @ \o SubSeq(d, col + 1, col + size), !.left = @ - size]
       IN IF r1.left > 0 THEN r1
          ELSE IF r1.app < 0
               THEN IF \E i \in 1..4 : ~IsNib(r1.buf[i]) THEN Reset(r1)
                    ELSE LET v == (r1.buf[1] - 400) + (r1.buf[2] - 400) * 16 + (r1.buf[3] - 400) * 256 + (r1.buf[4] - 400) * 4096
                         IN Decode([r1 EXCEPT !.app = v % 32, !.left = v \div 32, !.buf = <<>>], d, bp, col + size)
               ELSE Scan([r1 EXCEPT !.got = Append(@, [app |-> r1.app, size |-> Len(r1.buf), bytes |-> r1.buf])], d, bp, col + size)
  ELSE Scan(r, d, bp, col)
\* no block in progress: find the next separator
Scan(r, d, bp, col) ==
  IF col >= K THEN r
  ELSE IF col = 0
  THEN IF bp >= K THEN r
       ELSE IF d[bp + 1] # BS THEN Reset(r)
            ELSE Decode([r EXCEPT !.buf = <<>>, !.left = 4, !.app = -1], d, bp, bp + 1)
  ELSE LET rest == {i \in (col + 1)..K : d[i] # FILL} IN
       IF rest = {} THEN r
       ELSE LET i == CHOOSE x \in rest : \A y \in rest : x <= y IN
            IF d[i] # BS THEN Reset(r)
            ELSE Decode([r EXCEPT !.buf = <<>>, !.left = 4, !.app = -1], d, bp, i)

Feed(r, it) ==
  IF it.t = "M" THEN r                       \* header of another magazine: does not end our page
  ELSE IF it.t \in {"X", "S"}                \* header of our magazine that is not for us: ends our page, nothing accepted until ours
  THEN LET r1 == IF TailAtForeign /\ TailCheck /\ r.packet <= r.np THEN Reset(r) ELSE r IN [r1 EXCEPT !.np = 0]
  ELSE IF it.t = "H"
  THEN LET r1 == IF it.ci # r.ci \/ (TailCheck /\ r.packet <= r.np) THEN Reset(r) ELSE r
       IN [r1 EXCEPT !.ci = (it.ci + 1) % 16, !.packet = 1, !.np = it.n]
  ELSE IF r.np = 0 THEN r
       ELSE IF it.no # r.packet \/ it.no > r.np THEN Reset(r)
            ELSE IF it.bp = -1 THEN Reset(r)                       \* uncorrectable block pointer
                 ELSE Decode([r EXCEPT !.packet = it.no + 1], it.data, it.bp * 3, 0)

-----------------------------------------------------------------------------
Block == [app : {3}, size : Sizes, fill : Fills]
Init == /\ blocks \in UNION {[1..n -> Block] : n \in 1..MaxBlocks}
        /\ fgn \in Foreign
        /\ items = Items(blocks, fgn)
        /\ fault \in {[k |-> "none", at |-> 0]}
                     \cup (IF "drop" \in Faults THEN {[k |-> "drop", at |-> i] : i \in 1..Len(Items(blocks, fgn))} ELSE {})
                     \cup (IF "badbp" \in Faults THEN {[k |-> "badbp", at |-> i] : i \in {j \in 1..Len(Items(blocks, fgn)) : Items(blocks, fgn)[j].t = "P"}} ELSE {})
        /\ pos = 1 /\ rx = Rx0 /\ out = <<>>

Step == /\ pos <= Len(items)
        /\ LET it == items[pos]
               it1 == IF fault.k = "badbp" /\ fault.at = pos THEN [it EXCEPT !.bp = -1] ELSE it
               r1 == IF fault.k = "drop" /\ fault.at = pos THEN rx ELSE Feed(rx, it1)
           IN /\ rx' = [r1 EXCEPT !.got = <<>>] /\ out' = out \o r1.got
        /\ pos' = pos + 1 /\ UNCHANGED <<blocks, fault, fgn, items>>
Next == Step
Spec == Init /\ [][Next]_vars

-----------------------------------------------------------------------------
(* C15, PFC half *)
SentBlock(k) == [app |-> blocks[k].app, size |-> blocks[k].size, bytes |-> [i \in 1..blocks[k].size |-> DataByte(k, i)]]
Done == pos > Len(items)
\* which block (index) each delivery is: deliveries are sent blocks, in order, none twice
RECURSIVE Match(_, _)
Match(o, k) == IF o = <<>> THEN TRUE
               ELSE IF k > Len(blocks) THEN FALSE
               ELSE IF Head(o) = SentBlock(k) THEN Match(Tail(o), k + 1) ELSE Match(o, k + 1)
Sound == Match(out, 1)
\* without a fault every non-empty block is delivered (an empty block carries nothing; either way is accepted)
NonEmpty(s) == SelectSeq(s, LAMBDA b : b.size > 0)
Complete == (Done /\ fault.k = "none") =>
              NonEmpty(out) = NonEmpty([k \in 1..Len(blocks) |-> SentBlock(k)])
\* after a damaged page every block that starts in a later page is delivered again
Resume == (Done /\ fault.k # "none") =>
            LET pd == items[fault.at].page
                bp == BsPages(Wire(blocks), 1, <<>>, 0)
            IN \A k \in 1..Len(blocks) :
                 (bp[k] > pd /\ blocks[k].size > 0) => \E i \in 1..Len(out) : out[i] = SentBlock(k)
=============================================================================
