-------------------------------- MODULE Pfc --------------------------------
(* Page Format - Clear (EN 300 708 section 4) as received by vbi_pfc_demux_feed() /
   _vbi_pfc_demux_decode() in src/pfc_demux.c.

   SENDER (pure operators): a list of blocks [app, size, fill] is laid out as the byte stream
   BS SH SH SH SH data... with filler bytes, where the first block separator of every packet is
   moved to an offset the block pointer can express (a multiple of 3), the stream is cut into
   packets of K bytes with their block pointer, and the packets into pages of NP packets with a
   header carrying the continuity index and the packet count.  TLC enumerates all block lists,
   i.e. every alignment of separators, structure headers and data relative to packet and page ends.
   CHANNEL (fault alphabet, one fault per transmission, at UNIT granularity): an item is dropped, or one Hamming 8/4
   protected unit of it is hit once (err1: must be corrected = no fault) or twice (err2: unreadable).  Units of a header:
   mrag0 mrag1 (magazine / packet number), pgu pgt (page number), s1 (continuity index) s2 (packet count, low) s3 (stream)
   s4 (packet count, high), c1 c2 (control bits); of a packet: mrag0 mrag1, bp (block pointer), el i = the i-th data byte
   when it is a block separator, a filler byte or a structure header nibble (user data bytes are not protected).
   RECEIVER: the state machine of the demultiplexer, one item per step.  What an unreadable unit means is fixed by
   the statement only as far as "the damaged block is discarded, nothing that was not sent is delivered, delivery
   resumes"; the receiver has a policy pol:  "strict" - any unreadable unit in an item that may belong to our magazine
   discards the block in progress and waits for the next header;  "lenient" - only the units needed are looked at, an
   item whose addressing is unreadable is taken as not for us (a header ends the page and keeps the block, the
   continuity index decides later; a packet is lost).  The properties hold for both; an implementation may mix them.
   Property C15 (PFC half): Sound, Complete, Resume below.

   Wire elements are integers: 0..255 data byte, BS = 300, FILL = 301, 400+n = structure header
   nibble n.                                                                                   *)
EXTENDS Naturals, Integers, Sequences, FiniteSets, TLC

CONSTANTS K,            \* data bytes per packet (39)
          NP,           \* packets per page (1..25)
          CiStart,      \* continuity index of the first page (15: the index wraps at the first page end)
          Sizes,        \* block sizes
          Fills,        \* numbers of extra filler bytes in front of a block
          MaxBlocks,
          Faults,       \* subset of {"none", "drop", "err1", "err2"}
          Units,        \* unit classes that are hit: subset of HdrUnits \cup {"bp", "bs", "fill", "sh"} (mrag0 / mrag1 also in packets)
          UnitBlocks,   \* units are hit in transmissions of at most this many blocks
          Policies,     \* subset of {"strict", "lenient"}
          TailCheck,    \* TRUE: a header arriving before the announced last packet of the page resets (repaired code)
          Foreign,      \* other traffic of the magazine between two of our pages: subset of {"none", "page", "stream", "mag"}
                        \*   "page": header + first packet of another page of our magazine; "stream": our page number with
                        \*   the next stream number, header + first packet; both packets carry a complete block of the other
                        \*   service.  "mag": a header of another magazine in the middle of our page (parallel mode)
          TailAtForeign, \* TRUE (as coded): the missing-tail test is made at EVERY header of our magazine, before the page filter
          Noise,        \* UNRELATED TELETEXT PACKETS mixed into the transmission (classes, 0 = none): n in 26..31 = packet n of OUR
                        \*   magazine (X/26 X/27 X/28 enhancement packets, M/29, and what is M/30 M/31 = 8/30, 8/31 / an IDL channel
                        \*   when the page is in magazine 8 / another one); 100 + n, n in 1..31 = packet n of ANOTHER magazine (rows of
                        \*   its pages, its non-data packets, other IDL channels).  None of them is a data packet X/1..X/25 of a page of
                        \*   our magazine: the receiver must not react to them at all.  Every such packet carries, like a PFC
                        \*   packet, a block pointer 0 and a complete block of another service (accepting any of it violates Sound)
          NoisePos,     \* where: "all" = one behind EVERY item (header, data packet, foreign header / packet), i.e. at every
                        \*   position between our header and the last data packet and between pages, and one in front of the first
                        \*   header; "one" = a single packet, at every position in turn
          NoiseFaults   \* the fault kinds noise is combined with

BS == 300
FILL == 301
ERR == 499              \* a Hamming protected byte hit twice
NoBP == 13              \* block pointer value "no block starts in this packet" (13 * 3 = 39)

VARIABLES blocks, fault, fgn, nz, pol, items, pos, rx, out,
          aux          \* ghost, fixed by blocks: [sent |-> the blocks as they must be delivered, bsp |-> the page in which each block starts]
vars == <<blocks, fault, fgn, nz, pol, items, pos, rx, out, aux>>    \* nz = [c |-> noise class, at |-> 0: everywhere / n: behind the n-th item only]

-----------------------------------------------------------------------------
(* sender *)
DataByte(b, i) == (37 * b + 11 * i + 5) % 256
Rep(x, n) == [i \in 1..n |-> x]
ValidBP(o) == o % 3 = 0 /\ o + 3 <= K

\* does the packet in progress (the last Len(w) % K elements) already contain a block separator
Started(w) == LET o == Len(w) % K IN \E i \in (Len(w) - o + 1)..Len(w) : w[i] = BS

Align(w) == IF Started(w) THEN w
            ELSE LET o == Len(w) % K
                     up == IF o % 3 = 0 THEN o ELSE o + 3 - (o % 3)
                 IN IF ValidBP(up) THEN w \o Rep(FILL, up - o) ELSE w \o Rep(FILL, K - o)

SH(app, size) == LET v == app + size * 32 IN
                 <<400 + (v % 16), 400 + ((v \div 16) % 16), 400 + ((v \div 256) % 16), 400 + ((v \div 4096) % 16)>>

RECURSIVE Lay(_, _, _)
Lay(bl, k, w) ==
  IF k > Len(bl) THEN w
  ELSE LET b == bl[k]
           w1 == Align(w \o Rep(FILL, b.fill))
       IN Lay(bl, k + 1, w1 \o <<BS>> \o SH(b.app, b.size) \o [i \in 1..b.size |-> DataByte(k, i)])

Wire(bl) == LET w == Lay(bl, 1, <<>>) IN IF Len(w) % K = 0 THEN w ELSE w \o Rep(FILL, K - (Len(w) % K))

\* first packet of a page of another service: a complete block (application 5) that must never be delivered
ForeignSize == IF K >= 13 THEN 8 ELSE K - 5
ForeignData == <<BS>> \o SH(5, ForeignSize) \o [i \in 1..ForeignSize |-> 200 + i] \o Rep(FILL, K - 5 - ForeignSize)

FirstBS(d) == LET idx == {i \in 1..Len(d) : d[i] = BS} IN
              IF idx = {} THEN NoBP ELSE ((CHOOSE i \in idx : \A j \in idx : i <= j) - 1) \div 3

\* the transmission: headers and packets; fg = kind of foreign traffic
Items(bl, fg) ==
  LET w == Wire(bl)
      n == Len(w) \div K
      pk(j) == LET d == SubSeq(w, (j - 1) * K + 1, j * K) IN
               [t |-> "P", page |-> (j - 1) \div NP, no |-> ((j - 1) % NP) + 1, bp |-> FirstBS(d), data |-> d]
      hd(p) == [t |-> "H", page |-> p, ci |-> (p + CiStart) % 16,
                n |-> IF (p + 1) * NP <= n THEN NP ELSE n - p * NP]
      \* behind the last packet of page p (j = its last packet)
      after(j) == IF j % NP # 0 /\ j # n THEN <<>>
                  ELSE LET p == (j - 1) \div NP IN
                       CASE fg = "page"   -> <<[t |-> "X", page |-> p], [t |-> "P", page |-> p, no |-> 1, bp |-> 0, data |-> ForeignData]>>
                         [] fg = "stream" -> <<[t |-> "S", page |-> p], [t |-> "P", page |-> p, no |-> 1, bp |-> 0, data |-> ForeignData]>>
                         [] OTHER -> <<>>
      \* behind the first packet of a page
      mid(j) == IF fg = "mag" /\ (j - 1) % NP = 0 THEN <<[t |-> "M", page |-> (j - 1) \div NP]>> ELSE <<>>
      RECURSIVE Sq(_)
      Sq(j) == IF j > n THEN <<>>
                ELSE (IF (j - 1) % NP = 0 THEN <<hd((j - 1) \div NP)>> ELSE <<>>) \o <<pk(j)>> \o mid(j) \o after(j) \o Sq(j + 1)
  IN Sq(1)

\* unrelated packets (class c) mixed into the items: behind every item / behind the at-th item (at = Len + 1: in front of the first)
NoisePk(c, p) == [t |-> "U", page |-> p, own |-> c < 100, no |-> c % 100, bp |-> 0, data |-> ForeignData]
WithNoise(its, z) ==
  IF z.c = 0 THEN its
  ELSE LET RECURSIVE Mix(_)
           Mix(j) == IF j > Len(its) THEN <<>>
                     ELSE <<its[j]>> \o (IF z.at \in {0, j} THEN <<NoisePk(z.c, its[j].page)>> ELSE <<>>) \o Mix(j + 1)
       IN (IF z.at \in {0, Len(its) + 1} THEN <<NoisePk(z.c, 0)>> ELSE <<>>) \o Mix(1)
NoiseOf(its) == {[c |-> 0, at |-> 0]}
                \cup {[c |-> c, at |-> 0] : c \in IF "all" \in NoisePos THEN Noise \ {0} ELSE {}}
                \cup {[c |-> c, at |-> j] : c \in IF "one" \in NoisePos THEN Noise \ {0} ELSE {}, j \in 1..(Len(its) + 1)}

\* where (page) each block's separator lies, for the Resume property
RECURSIVE BsPages(_, _, _, _)
BsPages(w, i, acc, cnt) ==
  IF i > Len(w) THEN acc
  ELSE IF w[i] = BS THEN BsPages(w, i + 1, Append(acc, ((i - 1) \div K) \div NP), cnt + 1)
       ELSE BsPages(w, i + 1, acc, cnt)

-----------------------------------------------------------------------------
(* receiver: vbi_pfc_demux_reset / vbi_pfc_demux_feed / _vbi_pfc_demux_decode *)
Reset(r) == [r EXCEPT !.ci = 256, !.packet = 256, !.np = 0, !.buf = <<>>, !.left = 0, !.app = -1]
Rx0 == [ci |-> 256, packet |-> 256, np |-> 0, buf |-> <<>>, left |-> 0, app |-> -1, got |-> <<>>]

IsNib(x) == x >= 400 /\ x <= 415

RECURSIVE Decode(_, _, _, _), Scan(_, _, _, _)
\* r: receiver state, d: packet data (1-based), bp: byte offset of the pointed separator or >= K, col: bytes consumed
Decode(r, d, bp, col) ==
  IF col >= K THEN r
  ELSE IF r.left > 0
  THEN LET size == IF r.left < K - col THEN r.left ELSE K - col
           r1 == [r EXCEPT !.buf = @ \o SubSeq(d, col + 1, col + size), !.left = @ - size]
       IN IF r1.left > 0 THEN r1
          ELSE IF r1.app < 0
               THEN IF \E i \in 1..4 : ~IsNib(r1.buf[i]) THEN Reset(r1)
                    ELSE LET v == (r1.buf[1] - 400) + (r1.buf[2] - 400) * 16 + (r1.buf[3] - 400) * 256 + (r1.buf[4] - 400) * 4096
                         IN Decode([r1 EXCEPT !.app = v % 32, !.left = v \div 32, !.buf = <<>>], d, bp, col + size)
               ELSE Scan([r1 EXCEPT !.got = Append(@, [app |-> r1.app, size |-> Len(r1.buf), bytes |-> r1.buf])], d, bp, col + size)
  ELSE Scan(r, d, bp, col)
\* no block in progress: find the next separator
Scan(r, d, bp, col) ==
  IF col >= K THEN r
  ELSE IF col = 0
  THEN IF bp >= K THEN r
       ELSE IF d[bp + 1] # BS THEN Reset(r)
            ELSE Decode([r EXCEPT !.buf = <<>>, !.left = 4, !.app = -1], d, bp, bp + 1)
  ELSE LET rest == {i \in (col + 1)..K : d[i] # FILL} IN
       IF rest = {} THEN r
       ELSE LET i == CHOOSE x \in rest : \A y \in rest : x <= y IN
            IF d[i] # BS THEN Reset(r)
            ELSE Decode([r EXCEPT !.buf = <<>>, !.left = 4, !.app = -1], d, bp, i)

HdrUnits == {"mrag0", "mrag1", "pgu", "pgt", "s1", "s2", "s3", "s4", "c1", "c2"}
NoHit == [u |-> "none", i |-> 0]

\* a header of our magazine that is not for us: ends our page, nothing is accepted until our next header
NotOurs(r) == LET r1 == IF TailAtForeign /\ TailCheck /\ r.packet <= r.np THEN Reset(r) ELSE r IN [r1 EXCEPT !.np = 0]

\* h: the unit of this item that is unreadable (NoHit: none), p: policy
Feed(r, it, h, p) ==
  IF it.t = "U" THEN r                       \* an unrelated packet (Noise) changes nothing: same deliveries, no block lost
  ELSE IF h.u \in {"mrag0", "mrag1"} THEN (IF p = "strict" THEN Reset(r) ELSE r)     \* whose packet it was is unknown
  ELSE IF it.t = "M" THEN r                  \* header of another magazine: does not end our page
  ELSE IF h.u # "none" /\ p = "strict" THEN Reset(r)
  ELSE IF it.t \in {"X", "S"}                \* header of our magazine that is not for us
  THEN NotOurs(r)
  ELSE IF it.t = "H"
  THEN IF h.u \in {"pgu", "pgt", "s1", "s2", "s3", "s4"} THEN NotOurs(r)         \* (lenient) cannot be recognised / used
       ELSE LET r1 == IF it.ci # r.ci \/ (TailCheck /\ r.packet <= r.np) THEN Reset(r) ELSE r
            IN [r1 EXCEPT !.ci = (it.ci + 1) % 16, !.packet = 1, !.np = it.n]
  ELSE IF r.np = 0 THEN r
       ELSE IF it.no # r.packet \/ it.no > r.np THEN Reset(r)
            ELSE IF h.u = "bp" THEN Reset(r)                       \* uncorrectable block pointer
                 ELSE LET d == IF h.u = "el" THEN [it.data EXCEPT ![h.i] = ERR] ELSE it.data
                      IN Decode([r EXCEPT !.packet = it.no + 1], d, it.bp * 3, 0)

-----------------------------------------------------------------------------
Block == [app : {3}, size : Sizes, fill : Fills]
SentBlockOf(bl, k) == [app |-> bl[k].app, size |-> bl[k].size, bytes |-> [i \in 1..bl[k].size |-> DataByte(k, i)]]
\* the Hamming protected units of an item that the channel may hit (filler runs: their first and last byte)
ElClass(d, i) == IF d[i] = BS THEN "bs" ELSE IF d[i] = FILL THEN "fill" ELSE IF IsNib(d[i]) THEN "sh" ELSE "data"
FillEdge(d, i) == i = 1 \/ i = Len(d) \/ d[i - 1] # FILL \/ d[i + 1] # FILL
UnitsOf(it) ==
  IF it.t = "P"
  THEN {[u |-> x, i |-> 0] : x \in Units \cap {"mrag0", "mrag1", "bp"}}
       \cup {[u |-> "el", i |-> i] : i \in {j \in 1..Len(it.data) : ElClass(it.data, j) \in Units /\ (it.data[j] = FILL => FillEdge(it.data, j))}}
  ELSE IF it.t = "U" THEN {}
  ELSE {[u |-> x, i |-> 0] : x \in Units \cap HdrUnits}
FaultsOf(its, nb) ==
  {[k |-> "none", at |-> 0, u |-> "-", i |-> 0]}
  \cup (IF "drop" \in Faults THEN {[k |-> "drop", at |-> j, u |-> "-", i |-> 0] : j \in {x \in 1..Len(its) : its[x].t # "U"}} ELSE {})
  \cup (IF nb <= UnitBlocks
        THEN UNION {{[k |-> e, at |-> j, u |-> h.u, i |-> h.i] : e \in Faults \cap {"err1", "err2"}, h \in UnitsOf(its[j])} : j \in 1..Len(its)}
        ELSE {})

Init == /\ blocks \in UNION {[1..n -> Block] : n \in 1..MaxBlocks}
        /\ fgn \in Foreign
        /\ aux = [sent |-> [k \in 1..Len(blocks) |-> SentBlockOf(blocks, k)], bsp |-> BsPages(Wire(blocks), 1, <<>>, 0)]
        /\ nz \in NoiseOf(Items(blocks, fgn))
        /\ items = WithNoise(Items(blocks, fgn), nz)
        /\ fault \in {f \in FaultsOf(items, Len(blocks)) : nz.c = 0 \/ f.k \in NoiseFaults}
        /\ pol \in (IF fault.k = "err2" THEN Policies ELSE {CHOOSE p \in Policies : TRUE})     \* the policies differ for err2 only
        /\ pos = 1 /\ rx = Rx0 /\ out = <<>>

\* what the k-th item does to a receiver of policy p (r1.got = the blocks delivered while it is fed)
StepOf(r, k, p) ==
  LET it == items[k]
      h == IF fault.k = "err2" /\ fault.at = k THEN [u |-> fault.u, i |-> fault.i] ELSE NoHit     \* err1 is corrected
  IN IF fault.k = "drop" /\ fault.at = k THEN r ELSE Feed(r, it, h, p)

Step == /\ pos <= Len(items)
        /\ LET r1 == StepOf(rx, pos, pol)
           IN /\ rx' = [r1 EXCEPT !.got = <<>>] /\ out' = out \o r1.got
        /\ pos' = pos + 1 /\ UNCHANGED <<blocks, fault, fgn, nz, pol, items, aux>>

\* the same steps taken at once (the transmission is fixed in the initial state, so a behaviour is one chain):
\* Leap is the composition of the remaining Steps; MC_Pfc_eq checks that it is (LeapAgrees)
RECURSIVE RunAll(_, _, _, _, _)
RunAll(r, k, o, hs, p) == IF k > Len(items) THEN [rx |-> r, out |-> o, hist |-> hs]
                          ELSE LET r1 == StepOf(r, k, p) IN RunAll([r1 EXCEPT !.got = <<>>], k + 1, o \o r1.got, Append(hs, r1.got), p)
Leap == /\ pos <= Len(items)
        /\ LET res == RunAll(rx, pos, out, <<>>, pol) IN rx' = res.rx /\ out' = res.out
        /\ pos' = Len(items) + 1 /\ UNCHANGED <<blocks, fault, fgn, nz, pol, items, aux>>
LeapSpec == Init /\ [][Leap]_vars
Next == Step
Spec == Init /\ [][Next]_vars

-----------------------------------------------------------------------------
(* C15, PFC half *)
SentBlock(k) == aux.sent[k]
Done == pos > Len(items)
\* which block (index) each delivery is: deliveries are sent blocks, in order, none twice
RECURSIVE Match(_, _)
Match(o, k) == IF o = <<>> THEN TRUE
               ELSE IF k > Len(blocks) THEN FALSE
               ELSE IF Head(o) = SentBlock(k) THEN Match(Tail(o), k + 1) ELSE Match(o, k + 1)
Sound == Match(out, 1)
\* the unrelated packets change nothing: the deliveries are those of the same transmission without them
NoiseNeutral == (Done /\ fault.k = "none") =>
                  LET its == Items(blocks, fgn)
                      RECURSIVE Go(_, _, _)
                      Go(r, k, o) == IF k > Len(its) THEN o ELSE LET r1 == Feed(r, its[k], NoHit, pol) IN Go([r1 EXCEPT !.got = <<>>], k + 1, o \o r1.got)
                  IN out = Go(Rx0, 1, <<>>)
ASSUME \A c \in Noise : c = 0 \/ c \in 26..31 \/ c \in 101..131
LeapAgrees == Done => (out = RunAll(Rx0, 1, <<>>, <<>>, pol).out)
\* without a fault every non-empty block is delivered (an empty block carries nothing; either way is accepted)
NonEmpty(s) == SelectSeq(s, LAMBDA b : b.size > 0)
Complete == (Done /\ fault.k \in {"none", "err1"}) => NonEmpty(out) = NonEmpty(aux.sent)
\* after a damaged page every block that starts in a later page is delivered again
Resume == (Done /\ fault.k \notin {"none", "err1"}) =>
            LET pd == items[fault.at].page
            IN \A k \in 1..Len(blocks) :
                 (aux.bsp[k] > pd /\ blocks[k].size > 0) => \E i \in 1..Len(out) : out[i] = SentBlock(k)
=============================================================================
