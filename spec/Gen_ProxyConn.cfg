CONSTANTS Clients = {1, 2, 3} Prios = {1, 2} FixTokenOwner = TRUE FixFlushClosed = TRUE FixRegrant = TRUE
  FixHdrLen = TRUE FixPartial = TRUE Depth = 40 Acts = {"Accept","Connect","ServiceReq","ConnectRej","PidReq","Ioctl","Suspend","ReclaimCnf","CloseReq","TokenReq","Notify","WrongState","PartialHdr","HdrLegal","HdrIllegal","BadMsg","Disconnect"}
SPECIFICATION GSpec
CONSTRAINT Dump
CHECK_DEADLOCK FALSE
