-------------------------- MODULE Trace_ExportText --------------------------
(* Trace validation of the text export module and of vbi_print_page_region (table mode) against ExportText.

   Log (one JSON object per line), recorded by harness/drv_exportio.c on pages fetched from the decoder:
   Page    rows cols u sz                 the vbi_page the decoder produced (code and size of every cell)
   Export  gfx skip unrepr cp             output of the text module converted back from the requested encoding with
                                          iconv (cp = code points; terminal control sequences removed when the
                                          control option is on, then skip = 1); gfx = the gfx_chr option; unrepr =
                                          the page's codes the C library cannot represent in that encoding
   Table   col row w h unrepr cp needed href runs
                                          vbi_print_page_region(table = TRUE): cp = the complete output converted
                                          back, needed = its size in bytes, href its identity; runs = <<from, to,
                                          ret, guard, h>>: buffer sizes from..to returned ret, modified `guard`
                                          bytes outside the buffer and delivered data of identity h            *)
EXTENDS ExportText, Json, IOUtils, TLC

Log == ndJsonDeserialize(IOEnv.TRACEFILE)
VARIABLE l
tvars == <<pg, l>>
Ev == Log[l]
NoPage == [rows |-> 0, cols |-> 0, u |-> <<>>, sz |-> <<>>]
AsSet(q) == {q[i] : i \in DOMAIN q}

TPage == /\ Ev.a = "Page" /\ Len(Ev.u) = Ev.rows * Ev.cols /\ Len(Ev.sz) = Ev.rows * Ev.cols
         /\ pg' = [rows |-> Ev.rows, cols |-> Ev.cols, u |-> Ev.u, sz |-> Ev.sz]
TExport == /\ Ev.a = "Export" /\ pg.rows > 0
           /\ Ev.cp = ExportText(pg, Ev.gfx, AsSet(Ev.unrepr), Ev.skip = 1)
           /\ UNCHANGED pg
RunOK(run, needed, href) ==
  /\ run[4] = 0                                                   \* nothing outside the stated buffer size
  /\ run[3] = TableReturn(run[1], needed) /\ run[3] = TableReturn(run[2], needed)
  /\ run[3] > 0 => run[5] = href
TTable == /\ Ev.a = "Table" /\ RegionOK(pg, Ev.col, Ev.row, Ev.w, Ev.h)
          /\ Ev.cp = TableText(pg, Ev.col, Ev.row, Ev.w, Ev.h, AsSet(Ev.unrepr))
          /\ Ev.needed > 0
          /\ \A i \in DOMAIN Ev.runs : RunOK(Ev.runs[i], Ev.needed, Ev.href)
          /\ UNCHANGED pg

TInit == pg = NoPage /\ l = 1
TNext == l <= Len(Log) /\ l' = l + 1 /\ (TPage \/ TExport \/ TTable)
TSpec == TInit /\ [][TNext]_tvars
TraceAccepted == LET n == TLCGet("stats").diameter - 1 IN
                 IF n = Len(Log) THEN TRUE
                 ELSE PrintT(<<"TV-REJECT", n + 1, Len(Log)>>) /\ FALSE

(* explanation of a rejected line: the log is <<Page, rejected line>> *)
FirstDiff(a, b) == IF \E i \in 1..Len(a) : i > Len(b) \/ a[i] # b[i]
                   THEN CHOOSE i \in 1..Len(a) : (i > Len(b) \/ a[i] # b[i]) /\ \A j \in 1..(i - 1) : j <= Len(b) /\ a[j] = b[j]
                   ELSE Len(a) + 1
Explain ==
  LET p == [rows |-> Log[1].rows, cols |-> Log[1].cols, u |-> Log[1].u, sz |-> Log[1].sz]
      ev == Log[2]
      exp == IF ev.a = "Export" THEN ExportText(p, ev.gfx, AsSet(ev.unrepr), ev.skip = 1)
             ELSE TableText(p, ev.col, ev.row, ev.w, ev.h, AsSet(ev.unrepr))
      d == FirstDiff(exp, ev.cp)
      bad == IF ev.a = "Table" THEN {i \in DOMAIN ev.runs : ~RunOK(ev.runs[i], ev.needed, ev.href)} ELSE {}
  IN PrintT(<<"TV-EXPECT", [textlen |-> Len(exp), gotlen |-> Len(ev.cp), firstdiff |-> d,
                            expected |-> IF d <= Len(exp) THEN exp[d] ELSE 0 - 1,
                            got |-> IF d <= Len(ev.cp) THEN ev.cp[d] ELSE 0 - 1,
                            badruns |-> {ev.runs[i] : i \in bad}]>>)
=============================================================================
