-------------------------- MODULE Trace_ExportText --------------------------
(* Trace validation of the text export module and of vbi_print_page_region (table mode) against ExportText.

   Log (one JSON object per line), recorded by harness/drv_exportio.c on pages fetched from the decoder:
   Page    rows cols u sz                 the vbi_page the decoder produced (code and size of every cell)
   Export  gfx skip unrepr dec cp         output of the text module converted back from the requested encoding with
                                          iconv (dec = 1: the conversion succeeded, cp = code points; terminal control
                                          sequences removed when the control option is on, then skip = 1); gfx = the
                                          gfx_chr option; unrepr = the page's codes the C library cannot represent in
                                          that encoding
   Table   col row w h unrepr dec cp needed href runs
                                          vbi_print_page_region(table = TRUE): cp = the complete output converted
                                          back, needed = its size in bytes, href its identity; runs = <<from, to,
                                          ret, guard, h>>: buffer sizes from..to returned ret, modified `guard`
                                          bytes outside the buffer and delivered data of identity h

   Every line is judged; the verdict of a rejected line is printed as <<"TV-BAD", line, what, class>> and counted,
   AllAccepted fails at the end of the log when any line was rejected. *)
EXTENDS ExportText, Json, IOUtils, TLC

Log == ndJsonDeserialize(IOEnv.TRACEFILE)
VARIABLES l, nbad
tvars == <<pg, l, nbad>>
Ev == Log[l]
NoPage == [rows |-> 0, cols |-> 0, u |-> <<>>, sz |-> <<>>]
AsSet(q) == {q[i] : i \in DOMAIN q}

\* first position where the delivered text differs from the specified one, and what kind of difference it is
FirstDiff(a, b) == IF \E i \in 1..Len(a) : i > Len(b) \/ a[i] # b[i]
                   THEN CHOOSE i \in 1..Len(a) : (i > Len(b) \/ a[i] # b[i]) /\ \A j \in 1..(i - 1) : j <= Len(b) /\ a[j] = b[j]
                   ELSE Len(a) + 1
Class(exp, got) ==
  LET d == FirstDiff(exp, got) IN
  IF d > Len(got) THEN "characters-lost"
  ELSE IF d > Len(exp) THEN "characters-added"
  ELSE IF IsGfx(got[d]) THEN "graphics-not-replaced"
  ELSE IF IsDrcs(got[d]) THEN "drcs-not-replaced"
  ELSE IF exp[d] = LF \/ got[d] = LF THEN (IF Len(got) < Len(exp) THEN "characters-lost" ELSE "characters-added")
  ELSE "wrong-character"

ExportVerdict(ev) ==
  IF ev.dec # 1 THEN <<"export-text", "not-in-requested-encoding">>
  ELSE IF ExportAccepted(pg, ev.gfx, AsSet(ev.unrepr), ev.skip = 1, ev.cp) THEN <<"ok", "">>
       ELSE <<"export-text", Class(ExportText(pg, ev.gfx, AsSet(ev.unrepr), ev.skip = 1), ev.cp)>>

RunGuardOK(run) == run[4] = 0                                    \* nothing outside the stated buffer size
RunRetOK(run, needed) == run[3] = TableReturn(run[1], needed) /\ run[3] = TableReturn(run[2], needed)
RunDataOK(run, href) == run[3] > 0 => run[5] = href
TableVerdict(ev) ==
  IF ~RegionOK(pg, ev.col, ev.row, ev.w, ev.h) THEN <<"table", "malformed">>
  ELSE IF ev.dec # 1 THEN <<"table-text", "not-in-requested-encoding">>
  ELSE LET exp == TableText(pg, ev.col, ev.row, ev.w, ev.h, AsSet(ev.unrepr)) IN
       IF ev.cp # exp THEN <<"table-text", Class(exp, ev.cp)>>
       ELSE IF ev.needed <= 0 THEN <<"table-size", "failed-with-large-buffer">>
       ELSE IF \E i \in DOMAIN ev.runs : ~RunGuardOK(ev.runs[i]) THEN <<"table-size", "wrote-beyond-buffer-size">>
       ELSE IF \E i \in DOMAIN ev.runs : ~RunRetOK(ev.runs[i], ev.needed) THEN <<"table-size", "wrong-return-value">>
       ELSE IF \E i \in DOMAIN ev.runs : ~RunDataOK(ev.runs[i], ev.href) THEN <<"table-size", "data-depends-on-buffer-size">>
       ELSE <<"ok", "">>

Judge(v) == /\ IF v[1] = "ok" THEN TRUE ELSE PrintT(<<"TV-BAD", l, v[1], v[2]>>)
            /\ nbad' = nbad + (IF v[1] = "ok" THEN 0 ELSE 1)
TPage == /\ Ev.a = "Page" /\ Len(Ev.u) = Ev.rows * Ev.cols /\ Len(Ev.sz) = Ev.rows * Ev.cols
         /\ pg' = [rows |-> Ev.rows, cols |-> Ev.cols, u |-> Ev.u, sz |-> Ev.sz] /\ UNCHANGED nbad
TExport == Ev.a = "Export" /\ pg.rows > 0 /\ Judge(ExportVerdict(Ev)) /\ UNCHANGED pg
TTable == Ev.a = "Table" /\ pg.rows > 0 /\ Judge(TableVerdict(Ev)) /\ UNCHANGED pg

TInit == pg = NoPage /\ l = 1 /\ nbad = 0
TNext == l <= Len(Log) /\ l' = l + 1 /\ (TPage \/ TExport \/ TTable)
TSpec == TInit /\ [][TNext]_tvars
AllAccepted == l = Len(Log) + 1 => nbad = 0
TraceAccepted == LET n == TLCGet("stats").diameter - 1 IN
                 IF n = Len(Log) THEN TRUE
                 ELSE PrintT(<<"TV-REJECT", n + 1, Len(Log)>>) /\ FALSE
=============================================================================
