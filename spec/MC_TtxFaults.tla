--------------------------- MODULE MC_TtxFaults ---------------------------
(* constants of the TtxFaults models (tuples and records cannot be written in a .cfg) *)
EXTENDS TtxFaults
\* page descriptors <<page number, subcodes it is transmitted with>>; 2048 = 0x800 (magazine 8, address 0)
\* 4660 = 0x1234, 8537 = 0x2159 (clock pages), 291 = 0x0123
PagesM1  == {<<256, {0}>>, <<257, {1, 2}>>}
PagesM8  == {<<2048, {0}>>, <<2049, {1, 2}>>}
PagesC1  == {<<256, {0}>>, <<257, {4660}>>}
PagesC8  == {<<2048, {4660}>>, <<2049, {0}>>}
PagesC8b == {<<2048, {291, 8537}>>, <<2049, {0}>>}
PagesX   == {<<256, {0}>>, <<2048, {4660}>>, <<2049, {0}>>}
PagesMix == {<<256, {0}>>, <<257, {1, 2}>>, <<2048, {4660}>>, <<2049, {0}>>}
PagesOne1 == {<<256, {0}>>}
PagesSub1 == {<<257, {1, 2}>>}
PagesTwo8 == {<<2048, {0}>>, <<2049, {4660}>>}
PagesOne8 == {<<2048, {4660}>>}

HdrAll == {"page", "s12", "s34", "ctrl"}
\* a parity error in the header text bytes of these columns (8..31: the text a decoder compares to detect a channel switch, 9..11 the
\* page number in it; 32..39: the clock)
Htxt(cs) == [f |-> "htxt", cols |-> cs]
HtxtAll == {Htxt({8}), Htxt({10}), Htxt({20}), Htxt({31}), Htxt({36}), Htxt({14, 15})}
HtxtFew == {Htxt({13}), Htxt({20, 35})}
HtxtSim == {Htxt({12}), Htxt({17}), Htxt({30}), Htxt({38})}
\* rolling header pages (<= 0x199) of one magazine: two and more are stored before the damaged header arrives
PagesH1 == {<<256, {0}>>, <<257, {0}>>, <<258, {1, 2}>>}
PagesH8 == {<<256, {0}>>, <<257, {0}>>, <<2048, {0}>>}
Par(k, adj) == [f |-> "par", k |-> k, adj |-> adj]
RowAll == {[f |-> "mrag"], Par(1, FALSE), Par(2, FALSE), Par(2, TRUE), Par(3, FALSE), Par(3, TRUE), Par(40, TRUE)}
RowPar == RowAll \ {[f |-> "mrag"]}
RowBurst == {Par(2, TRUE)}
RowFew == {[f |-> "mrag"], Par(1, FALSE), Par(2, TRUE)}
PktAll == {"mrag", "desig"}
\* a parity error in exactly the byte of column c
Parc(c) == [f |-> "parc", col |-> c]
ParcModes == {Parc(c) : c \in 0..12}         \* the columns ProgM1..3 address in row 1 (0..11) and a column nothing addresses
ParcA == {Parc(2), Parc(3), Parc(7)}         \* ProgA, row 1: characters at columns 2 and 7
ParcSim == {Parc(5), Parc(6), Parc(20), Parc(39)}
RowFewA == {[f |-> "mrag"], Par(2, TRUE), Parc(2), Parc(3)}
RowFewM == {[f |-> "mrag"], Par(2, TRUE), Parc(0), Parc(1), Parc(7)}     \* ProgM1: colour, G1 mosaic, character set designation; ProgA: a character at column 7
RowAllSim == RowAll \cup ParcSim
\* X/27/0: link control byte, each of the six links
FlofAll == {[f |-> "lcb"]} \cup {[f |-> "link", k |-> k] : k \in 1..6}
FlofFew == {[f |-> "lcb"], [f |-> "link", k |-> 2]}
NoFlofFaults == {}
TripAll == 1..13

\* X/26/0 packets (TtxX26): rows ascending, columns ascending within a row
ProgA == <<RowT(1), ChT(2, 16, 65), ChT(7, 16, 98), RowT(2), ChT(0, 16, 81), ChT(39, 15, 35),
           RowT(24), ChT(20, 16, 42), TermT, TermT, TermT, TermT, TermT>>
ProgB == <<RowT(2), ChT(5, 15, 49), RowColT(3, 4), ChT(5, 16, 90), ChT(6, 9, 77), ChT(30, 16, 48),
           RowT(23), ChT(1, 16, 120), ChT(38, 16, 57), RowT(24), ChT(0, 15, 61), ChT(39, 16, 71), TermT>>
ProgC == <<RowT(1), ChT(0, 16, 72), ChT(1, 16, 105), ChT(3, 15, 39), ChT(9, 16, 51), ChT(10, 16, 52),
           ChT(11, 15, 63), ChT(20, 16, 85), ChT(21, 16, 86), ChT(22, 16, 87), ChT(37, 16, 120), ChT(38, 16, 121), ChT(39, 16, 122)>>
ProgD == <<RowT(1), ChT(4, 16, 68), RowT(2), ChT(4, 16, 69), RowT(3), ChT(4, 16, 70), RowT(4), ChT(4, 15, 48),
           RowT(5), ChT(4, 16, 71), RowT(6), ChT(4, 16, 74), TermT>>
\* every mode of the column address group once, at row 1 columns 0..11 (data: a code >= 32 every character mode accepts;
\* for the modes with a diacritical mark a combination ISO 10646 has precomposed)
ProgM1 == <<RowT(1), ChT(0, 0, 3), ChT(1, 1, 53), ChT(2, 2, 45), ChT(3, 3, 4), ChT(4, 4, 0), ChT(5, 5, 0),
            ChT(6, 7, 1), ChT(7, 8, 36), ChT(8, 9, 77), ChT(9, 10, 0), ChT(10, 11, 45), ChT(11, 12, 64)>>
ProgM2 == <<RowT(1), ChT(0, 13, 65), ChT(1, 14, 1), ChT(2, 15, 35), ChT(3, 16, 65), ChT(4, 17, 97), ChT(5, 18, 101),
            ChT(6, 19, 111), ChT(7, 20, 110), ChT(8, 21, 97), ChT(9, 22, 97), ChT(10, 23, 99), ChT(11, 24, 117)>>
ProgM3 == <<RowT(1), ChT(0, 26, 97), ChT(1, 27, 99), ChT(2, 29, 111), ChT(3, 30, 97), ChT(4, 31, 115), ChT(5, 12, 1),
            ChT(6, 14, 3), ChT(7, 8, 0), ChT(8, 0, 7), ChT(9, 3, 1), ChT(10, 7, 2), ChT(11, 9, 90)>>
ProgM4 == <<RowT(1), ChT(0, 6, 53), ChT(1, 0, 5), ChT(2, 16, 66), ChT(3, 14, 2), ChT(5, 15, 49), ChT(6, 12, 16), ChT(8, 2, 60),
            TermT, TermT, TermT, TermT, TermT>>
ProgsModes == <<ProgM1, ProgM2, ProgM3, ProgM4>>
ProgsAll == <<ProgA, ProgB, ProgC, ProgD>>
ProgsAB  == <<ProgA, ProgB>>
ProgsSim == <<ProgA, ProgB, ProgM1>>
ProgsAM  == <<ProgA, ProgM1>>
ProgsA   == <<ProgA>>
NoProgs  == <<>>

\* model checking: which faults happened does not matter for the future, only how many
mcview == <<mode, open, lastm, cache, term, Len(flts), npk, lastAct>>

\* the rule of TtxX26 for a lost triplet, for every packet and position
ASSUME ProgsAllOK == /\ \A e \in 1..Len(ProgsAll) : WellFormed(ProgsAll[e])
                     /\ \A e \in 1..Len(ProgsModes) : WellFormed(ProgsModes[e])
\* the packets ProgM1..4 together use every mode of the column address group except the two diacritical marks libzvbi's
\* character repertoire has no composed letters for (25 dot below, 28 underline: shown as U+0000, not a matter of C03)
ASSUME AllModes == {ProgsModes[e][j].m : e \in 1..4, j \in 2..8} \cup {ProgsModes[e][j].m : e \in 1..3, j \in 9..13} = (0..31) \ {25, 28}
RuleRest    == \A e \in 1..Len(ProgsAll), j \in 0..13 : NotMisplaced(ProgsAll[e], j, "rest")
RuleTriplet == npk >= 0 /\ \A e \in 1..Len(ProgsAll), j \in 0..13 : NotMisplaced(ProgsAll[e], j, "triplet")   \* violated: negative test
=============================================================================
