--------------------------- MODULE MC_TtxFaults ---------------------------
(* constants of the TtxFaults models (tuples and records cannot be written in a .cfg) *)
EXTENDS TtxFaults
\* page descriptors <<page number, subcodes it is transmitted with>>; 2048 = 0x800 (magazine 8, address 0)
\* 4660 = 0x1234, 8537 = 0x2159 (clock pages), 291 = 0x0123
PagesM1  == {<<256, {0}>>, <<257, {1, 2}>>}
PagesM8  == {<<2048, {0}>>, <<2049, {1, 2}>>}
PagesC1  == {<<256, {0}>>, <<257, {4660}>>}
PagesC8  == {<<2048, {4660}>>, <<2049, {0}>>}
PagesC8b == {<<2048, {291, 8537}>>, <<2049, {0}>>}
PagesX   == {<<256, {0}>>, <<2048, {4660}>>, <<2049, {0}>>}
PagesMix == {<<256, {0}>>, <<257, {1, 2}>>, <<2048, {4660}>>, <<2049, {0}>>}
PagesOne1 == {<<256, {0}>>}
PagesSub1 == {<<257, {1, 2}>>}
PagesTwo8 == {<<2048, {0}>>, <<2049, {4660}>>}
PagesOne8 == {<<2048, {4660}>>}

HdrAll == {"page", "s12", "s34", "ctrl"}
Par(k, adj) == [f |-> "par", k |-> k, adj |-> adj]
RowAll == {[f |-> "mrag"], Par(1, FALSE), Par(2, FALSE), Par(2, TRUE), Par(3, FALSE), Par(3, TRUE), Par(40, TRUE)}
RowPar == RowAll \ {[f |-> "mrag"]}
RowBurst == {Par(2, TRUE)}
RowFew == {[f |-> "mrag"], Par(1, FALSE), Par(2, TRUE)}
PktAll == {"mrag", "desig"}
TripAll == 1..13

\* X/26/0 packets (TtxX26): rows ascending, columns ascending within a row
ProgA == <<RowT(1), ChT(2, 16, 65), ChT(7, 16, 98), RowT(2), ChT(0, 16, 81), ChT(39, 15, 35),
           RowT(24), ChT(20, 16, 42), TermT, TermT, TermT, TermT, TermT>>
ProgB == <<RowT(2), ChT(5, 15, 49), RowColT(3, 4), ChT(5, 16, 90), ChT(6, 9, 77), ChT(30, 16, 48),
           RowT(23), ChT(1, 16, 120), ChT(38, 16, 57), RowT(24), ChT(0, 15, 61), ChT(39, 16, 71), TermT>>
ProgC == <<RowT(1), ChT(0, 16, 72), ChT(1, 16, 105), ChT(3, 15, 39), ChT(9, 16, 51), ChT(10, 16, 52),
           ChT(11, 15, 63), ChT(20, 16, 85), ChT(21, 16, 86), ChT(22, 16, 87), ChT(37, 16, 120), ChT(38, 16, 121), ChT(39, 16, 122)>>
ProgD == <<RowT(1), ChT(4, 16, 68), RowT(2), ChT(4, 16, 69), RowT(3), ChT(4, 16, 70), RowT(4), ChT(4, 15, 48),
           RowT(5), ChT(4, 16, 71), RowT(6), ChT(4, 16, 74), TermT>>
ProgsAll == <<ProgA, ProgB, ProgC, ProgD>>
ProgsAB  == <<ProgA, ProgB>>
ProgsA   == <<ProgA>>
NoProgs  == <<>>

\* model checking: which faults happened does not matter for the future, only how many
mcview == <<mode, open, lastm, cache, term, Len(flts), npk, lastAct>>

\* the rule of TtxX26 for a lost triplet, for every packet and position
ASSUME ProgsAllOK == \A e \in 1..Len(ProgsAll) : WellFormed(ProgsAll[e])
RuleRest    == \A e \in 1..Len(ProgsAll), j \in 0..13 : NotMisplaced(ProgsAll[e], j, "rest")
RuleTriplet == npk >= 0 /\ \A e \in 1..Len(ProgsAll), j \in 0..13 : NotMisplaced(ProgsAll[e], j, "triplet")   \* violated: negative test
=============================================================================
