\* inputs beyond the sub-language (the exclusion clauses of CcDisplay!Violated lifted): the check reports what caption.c does
\* with them as the known finding of the clause that was broken first
CONSTANTS Chans = {3} Rows = {12, 14} Chars = {65} MaxPairs = 7
  Indents = {0} Depths = {2, 3} Tabs = {1}
  Kinds = {"RCL", "RDC", "EOC", "RU", "PAC", "CR", "BS", "TEXT"}
  Beyond = {"move", "resize", "flip", "work", "fresh"}
  Mix <- NoMix Bursts <- NoBurst
SPECIFICATION GSpec
VIEW gview
ACTION_CONSTRAINT TDump
CHECK_DEADLOCK FALSE
