\* the right edge in paint-on mode: column 29..32 written and overwritten, BS / DER / TO there, cursor moved back by PAC
CONSTANTS Chans = {3} Rows = {14} Chars = {65} MaxPairs = 6
  Indents = {28} Depths = {2} Tabs = {1, 3}
  Kinds = {"RDC", "PAC", "BS", "DER", "TO", "TEXT"}
  Beyond = {}
  Mix <- NoMix Bursts <- NoBurst
SPECIFICATION GSpec
VIEW gview2
ACTION_CONSTRAINT TDump
CHECK_DEADLOCK FALSE
