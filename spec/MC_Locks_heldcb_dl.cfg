CONSTANTS Prog <- CcQuick ResetLocking = "release" EventUnlock = FALSE HandlerFetch = TRUE
SPECIFICATION Spec
INVARIANTS HolderOK
