CONSTANTS Prog <- CcQuick ResetLocking = "release" EventUnlock = FALSE HandlerFetch = TRUE Arm = 2 GapLocked = TRUE ResizeSameUnlocks = TRUE
SPECIFICATION Spec
INVARIANTS HolderOK
