CONSTANTS MaxCount = 3 MaxExtra = 1 Rule = "coded"
SPECIFICATION Spec
INVARIANTS TypeOK
CONSTRAINT Dump
CHECK_DEADLOCK FALSE
