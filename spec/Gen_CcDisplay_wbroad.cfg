\* broad random walks, two channels (one per field), long enough to fill rows
CONSTANTS Chans = {1, 3} Rows = {0, 1, 2, 5, 9, 12, 13, 14} Chars = {65, 98, 32, 42} MaxPairs = 30
  Indents = {0, 8, 20, 28} Depths = {2, 3, 4} Tabs = {1, 2, 3}
  Kinds = {"RCL", "RDC", "EOC", "EDM", "ENM", "CR", "BS", "DER", "RU", "TO", "PAC", "PACX", "MID", "SPC", "NULL", "TEXT"}
  Beyond = {}
  Mix <- MixBroad Bursts <- BurstsWalk
SPECIFICATION GSpec
INVARIANT Dump
CHECK_DEADLOCK FALSE
