--------------------------- MODULE Gen_RawDecoder ---------------------------
(* API histories for the raw decoder driver (harness/drv_rawsvc.c): for every transition the model
   checker explores, the shortest history leading to it.  Each step carries what the specification
   predicts: the returned service set, the records of a decode (row, id bits, line), and the internal
   state the driver can print (service set, job ids, pattern, readjust).
   Sampling rates come from the file named by the environment variable C04_RATES (json array of
   [rate, spl]) so that the admission arithmetic is evaluated by TLC for exactly the rates the replay
   uses; configurations within 100 ns of an admission limit are skipped (Robust). *)
EXTENDS MC_RawDecoder, Json, IOUtils
CONSTANTS SampleN        \* 1 of SampleN decode transitions is printed (all other transitions always)
VARIABLE hist
gvars == <<vars, hist>>
EnvRates == IF "C04_RATES" \in DOMAIN IOEnv
            THEN LET j == JsonDeserialize(IOEnv.C04_RATES) IN [k \in 1..Len(j) |-> [rate |-> j[k][1], spl |-> j[k][2]]]
            ELSE Rates
GenRates == SelectSeq(EnvRates, Robust)
ASSUME PrintT(<<"TAB", ToJson(FullTable)>>)       \* the transcribed table, compared with the library's by the check
Out == [act |-> lastAct', img |-> img', ret |-> ret', svc |-> services', jobs |-> jobs', pat |-> pattern', rj |-> readjust',
        dg |-> dg', ug |-> ug', lines |-> [i \in 1..Len(img') |-> TrueLine(dg', i - 1)[2]]]
GInit == Init /\ hist = << [act |-> [a |-> "new", api |-> api, rate |-> RateCfgs[rc], scanning |-> Scanning], img |-> <<>>, ret |-> ret, svc |-> {},
                            jobs |-> <<>>, pat |-> <<>>, rj |-> readjust, dg |-> dg, ug |-> ug, lines |-> <<>>] >>
GNext == Next /\ hist' = Append(hist, Out)
GSpec == GInit /\ [][GNext]_gvars
Dump == IF lastAct'.a # "decode" \/ SampleN = 1 \/ RandomElement(1..SampleN) = 1 THEN PrintT(<<"TR", ToJson(hist')>>) ELSE TRUE
\* random walks: one random frame per decode instead of all frames (cfg: Images <- RandImages)
RandImages(g) == { [i \in 1..Rows(g) |-> LET w == WavesOn(g, i - 1) IN
                                           IF w = {} \/ RandomElement(1..3) = 1 THEN "blank" ELSE RandomElement(w)] }
\* random walks (tlc -simulate): print the walk when it reaches the depth
SimDump == TLCGet("level") = MaxDepth => PrintT(<<"TR", ToJson(hist)>>)
=============================================================================
