CONSTANTS PilStep = 1 Step = 1 Fams = {"vcni","pil","pp","flg","c16","mjd","utc","lto","h1","h2","h3","rej","bcd","rng","tag","ind","ind8"}
SPECIFICATION Spec
INVARIANTS Property
CHECK_DEADLOCK FALSE
