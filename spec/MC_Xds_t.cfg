CONSTANTS NK = 3 KeyCls <- Cls3 KeyTyp <- Typ3 Bytes = {64, 98} L = 4 MaxEv = 8 ErrPairs <- ErrAll HalfGuard = TRUE
SPECIFICATION Spec
CONSTRAINT Bounded
INVARIANTS TypeOK Delivered InBounds LengthOK NoCross CurAgree InfoOK EvOK
CHECK_DEADLOCK FALSE
