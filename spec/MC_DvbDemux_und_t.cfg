CONSTANTS HdlVal = 5 MinPL = 27 TtxN = 2 VpsN = 1 TSP = 11 HL = 17 TSH = 10 MaxLines = 64
  Streams <- StreamsUt RecStreams <- RecUnd CorLines = {1, 64} Policies = {"none", "err", "all"} RecMode = "std" CcStarts = {}
SPECIFICATION Spec
INVARIANTS PartitionInvariance OnePiece Recovery RecoveryMeaningful NoLookaheadOverrun Consumed
CHECK_DEADLOCK FALSE
