---------------------------- MODULE Gen_TtxCache ----------------------------
(* Operation sequences for the cache driver: random walks (tlc -simulate) through the model with
   the coded replacement policy.  Only the operations are used (the real cache resolves evictions
   its own way and its log is validated under the open policy). *)
EXTENDS TtxCache, Json
VARIABLE hist
gvars == <<vars, hist>>
GInit == Init /\ hist = <<>>
GNext == Next /\ hist' = Append(hist, lastAct')
GSpec == GInit /\ [][GNext]_gvars
Dump == /\ (nops = MaxOps => PrintT(<<"TR", ToJson([limit |-> limit, ops |-> hist])>>))
        /\ nops < MaxOps
=============================================================================
