------------------------------ MODULE Gen_IdlA ------------------------------
(* Behaviours for the IDL driver: listener, and per step the packet as sent (units, fault, wire bytes with the dummy
   bytes marked) and what the reference receiver delivers. *)
EXTENDS IdlA, Json
VARIABLE hist
gvars == <<vars, hist>>
gview == vars
ASSUME AllStuffOK
GInit == Init /\ hist = <<>>
Step(a, o) == IF a.a = "Mix" THEN [act |-> a, wire |-> Payload(a.it.pay, a.it.fmt, a.it.spalen).wire, out |-> o] ELSE
              IF a.a = "Send"
              THEN LET pl == Payload(a.it.pay, a.it.fmt, a.it.spalen)
                   IN [act |-> a, wire |-> pl.wire, out |-> [i \in 1..Len(o) |-> [lost |-> o[i].lost, dep |-> o[i].dep, bytes |-> Delivered(a.it)]]]
              ELSE [act |-> a, wire |-> <<>>, out |-> o]
GNext == Next /\ hist' = Append(hist, Step(lastAct', out'))
GSpec == GInit /\ [][GNext]_gvars
Dump == (npk = ModeLen(mode)) => PrintT(<<"TR", ToJson([lst |-> lst, mode |-> mode, steps |-> hist])>>)
=============================================================================
