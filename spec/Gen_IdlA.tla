------------------------------ MODULE Gen_IdlA ------------------------------
EXTENDS IdlA, Json
VARIABLE hist
gvars == <<vars, hist>>
gview == vars
GInit == Init /\ hist = <<>>
GNext == Next /\ hist' = Append(hist, [act |-> lastAct', out |-> out'])
GSpec == GInit /\ [][GNext]_gvars
Dump == /\ (npk = MaxPk => PrintT(<<"TR", ToJson(hist)>>)) /\ npk < MaxPk
=============================================================================
