CONSTANTS Prog <- CcXds ResetLocking = "asfound" EventUnlock = TRUE HandlerFetch = TRUE
SPECIFICATION Spec
INVARIANTS HolderOK
