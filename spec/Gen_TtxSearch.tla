------------------------- MODULE Gen_TtxSearch -------------------------
(* Behaviour generation for TtxSearch: the API-level history (population, arguments of
   vbi_search_new, every vbi_search_next call with the result the specification predicts)
   is printed once per terminal state; bin/check replays it against the real library. *)
EXTENDS TtxSearch, Json

VARIABLES hist, ipop       \* ipop: the population of the initial state (updates are part of the history)
gvars == <<vars, hist, ipop>>

GInit == Init /\ hist = <<>> /\ ipop = pop

Rec(d) == [d |-> d, r |-> last'.r,
           pg |-> IF last'.r = "success" THEN last'.pg ELSE 0,
           sub |-> IF last'.r = "success" THEN last'.sub ELSE 0,
           occ |-> IF last'.r = "success" THEN last'.occ ELSE 0]

GNext == /\ Next
         /\ ipop' = ipop
         /\ hist' = IF ncalls' > ncalls THEN Append(hist, Rec(wdir')) 
                    ELSE IF pop' # pop
                         THEN LET k == CHOOSE k \in Key : pop'[k] # pop[k]
                              IN Append(hist, [d |-> 0, r |-> "update", pg |-> k[1], sub |-> k[2], occ |-> pop'[k]])
                         ELSE hist

GSpec == GInit /\ [][GNext]_gvars

PopList == LET ks == SortAsc({k \in Key : TRUE}) IN [i \in 1..Len(ks) |-> <<ks[i][1], ks[i][2], ipop[ks[i]]>>]
\* the population is reported as of the initial state: updates are part of the history
Dump == (pc = "idle" /\ ncalls = MaxCalls) =>
          PrintT(<<"TR", ToJson([arg |-> arg, calls |-> hist, pop0 |-> PopList])>>)
=============================================================================
