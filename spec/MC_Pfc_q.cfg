CONSTANTS CiStart = 14 K = 6 NP = 2 Sizes = {0, 1, 2, 4, 7} Fills = {0, 1, 2} MaxBlocks = 3 Faults = {"none", "drop", "err2"} Units = {"mrag0", "mrag1", "pgu", "pgt", "s1", "s2", "s3", "s4", "c1", "c2", "bp", "bs", "fill", "sh"} Policies = {"strict", "lenient"} UnitBlocks = 2 TailCheck = TRUE Foreign = {"none", "page"} TailAtForeign = TRUE Noise = {0, 26, 31, 128} NoisePos = {"all"} NoiseFaults = {"none"}
SPECIFICATION LeapSpec
INVARIANTS Sound Complete Resume NoiseNeutral
CHECK_DEADLOCK FALSE
