CONSTANTS Carriers = {"vps"} Vals = {"a", "b"} Labels = {"p"} Times = {} Bads = {}
  WssWords = {"x", "x2", "y", "bad"} MaxRecv = 11 UnknownOnce = TRUE XdsGuard = TRUE Calls = {}
  Handlers = {"h1", "h2"} InitMasks = {{"NETWORK", "NETWORK_ID", "PROG_ID", "LOCAL_TIME", "ASPECT", "TTX_PAGE", "CAPTION"}, {"NETWORK", "TTX_PAGE"}} RegMasks = {{"ASPECT"}, {"PROG_INFO", "TTX_PAGE"}} Apis = {"reg"} MaxReg = 2 CdLen = 40 IdleSteps = {} MaxGap = 0 MaxIdle = 0
SPECIFICATION Spec
CONSTRAINT Bounded
INVARIANTS TypeOK Faithful
PROPERTIES OfThisReception OnlyAfterRepeat VpsLabelTwice NetworkMeansChange OneNetworkEvent NotAgainWhileSame StationKept CacheKept CacheDropped Gated WssOnlyAfterRepeats AspectRevertOnlyOnChange GapKeeps DropOutOnce
CHECK_DEADLOCK FALSE
