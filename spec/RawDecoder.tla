----------------------------- MODULE RawDecoder -----------------------------
(* The raw VBI decoder of libzvbi: which scan line is searched for which data service and what
   comes out (src/raw_decoder.c, src/sampling_par.c, the libzvbi 0.2 wrappers in src/decoder.c).

   State as in struct _vbi3_raw_decoder: the sampling parameters, the service set, the job list
   (one bit slicer per job, merged jobs carry several service bits) and the pattern
   [row][way]: per scan line the jobs to try, in the order learned from earlier frames, with the
   blank-line counter in the last way.  One action per API call of BOTH interface generations.

   The bit slicer is abstracted: job j succeeds on a row iff the row carries the waveform of j's
   service (decided on real waveforms by the replay, see checks/c04.py).  An image maps every
   row to the waveform it carries (or "blank"); only waveforms on lines the standards allow.

   The property C04 (combinatorial part) is stated below the actions: Complete, OnlyRequested,
   IdentifiedAs, LineNumbers, Ascending, BlankSilent, Bounded, RemovedEverywhere, JobsOK,
   SearchedOnOwnLines, AddReturnsDecodable, LearningKeepsJobs, NoRunOff.

   Service table: transcribed from the documented table _vbi_service_table (raw_decoder.c:58,
   the documented interface; ITU-R BT.653, EN 300 706, ETS 300 231, EN 300 294, EIA 608).
   Deviations of the code from its documentation that are modelled as found:
    * the third table entry carries BOTH Teletext B bits, so a request for level 1.0 lines only
      (L10) is answered with L10+L25 and lines 6/318/319 are searched too (sliced.h documents
      that the id may be any of the three "regardless of line number");
    * strict = 1 is documented to accept a service that MAY use more lines than are sampled;
      the test that would do this (first > last) can never be true, 1 behaves like 2;
    * strict 0 admits a service none of whose lines is sampled (it is then decoded nowhere;
      as found, Fixed = FALSE: it was searched on ALL lines of the field);
    * vbi_raw_decoder_add_services (0.2 interface) first re-admits the services added earlier
      with the NEW strictness (and forgets what was learned), resize re-admits with strict 0.
   Fixed = FALSE gives remove_services and lines_containing_data as found (three defects, see
   MC_RawDecoder_orig*.cfg). *)
EXTENDS Integers, Sequences, FiniteSets, TLC

CONSTANTS Scanning,      \* 625 | 525
          Use,           \* names of the table entries in play
          Geoms,         \* geometries offered to new / set_sampling_par / resize
          AddSets,       \* sets of service bits offered to add / remove
          RateCfgs,      \* sequence of [rate |-> Hz, spl |-> samples per line]
          Apis,          \* subset of {"new", "old"}
          Stricts,       \* subset of {0, 1, 2}
          Ways, MaxJobs, \* 8, 8 in the library
          MaxCalls, MaxDecodes, MaxCarried, MaxDepth,
          ShortOut,      \* TRUE: decode is also called with fewer output records than rows
          Fixed          \* TRUE: vbi3_raw_decoder_remove_services as repaired

VARIABLES api, rc,       \* interface generation, index into RateCfgs (fixed per behaviour)
          ug,            \* sampling parameters in the caller's hands
          dg,            \* sampling parameters inside the decoder (NoGeom = cleared)
          services,      \* rd->services (set of service bits)
          jobs,          \* sequence of sets of bits (job->id)
          pattern,       \* sequence (rows) of sequences (ways) of integers
          readjust,
          ret,           \* result of the last call: returned set / records
          lastAct, img,  \* the last call and the image it decoded
          ncalls, ndec
vars == <<api, rc, ug, dg, services, jobs, pattern, readjust, ret, lastAct, img, ncalls, ndec>>

-----------------------------------------------------------------------------
(* the service table *)
Svc(n, ids, std, f1, f2, l1, l2, cr, br, cb, fb, pl, fn, ln, w) ==
  [name |-> n, ids |-> ids, std |-> std, first |-> <<f1, f2>>, last |-> <<l1, l2>>, cri_rate |-> cr, bit_rate |-> br,
   cri_bits |-> cb, frc_bits |-> fb, payload |-> pl, fieldnum |-> fn, linenum |-> ln, wave |-> w]

FullTable == <<
  Svc("TTX_A",     {"A"},          625,  6, 318, 22, 335, 6203125, 6203125, 18, 6, 296, FALSE, FALSE, "ttx_a"),
  Svc("TTX_B_L10", {"L10"},        625,  7, 320, 22, 335, 6937500, 6937500, 18, 6, 336, FALSE, FALSE, "ttx_b"),
  Svc("TTX_B",     {"L10", "L25"}, 625,  6, 318, 22, 335, 6937500, 6937500, 18, 6, 336, FALSE, FALSE, "ttx_b"),
  Svc("TTX_C_625", {"C625"},       625,  6, 318, 22, 335, 5734375, 5734375, 18, 6, 264, FALSE, FALSE, "ttx_c625"),
  Svc("TTX_D_625", {"D625"},       625,  6, 318, 22, 335, 5642787, 5642787, 18, 6, 272, FALSE, FALSE, "ttx_d625"),
  Svc("VPS",       {"VPS"},        625, 16,   0, 16,   0, 5000000, 2500000, 32, 0, 104, TRUE,  FALSE, "vps"),
  Svc("VPS_F2",    {"VPS2"},       625,  0, 329,  0, 329, 5000000, 2500000, 32, 0, 104, TRUE,  FALSE, "vps"),
  Svc("WSS_625",   {"WSS"},        625, 23,   0, 23,   0, 5000000,  833333, 32, 0,  14, TRUE,  TRUE,  "wss"),
  Svc("CC_625_F1", {"CC625_1"},    625, 22,   0, 22,   0, 1000000,  500000, 14, 2,  16, TRUE,  FALSE, "cc625"),
  Svc("CC_625_F2", {"CC625_2"},    625,  0, 335,  0, 335, 1000000,  500000, 14, 2,  16, TRUE,  FALSE, "cc625"),
  Svc("TTX_B_525", {"B525"},       525, 10, 272, 21, 284, 5727272, 5727272, 18, 6, 272, FALSE, FALSE, "ttx_b525"),
  Svc("TTX_C_525", {"C525"},       525, 10, 272, 21, 284, 5727272, 5727272, 18, 6, 264, FALSE, FALSE, "ttx_c525"),
  Svc("TTX_D_525", {"D525"},       525, 10, 272, 21, 284, 5727272, 5727272, 18, 6, 272, FALSE, FALSE, "ttx_d525"),
  Svc("CC_525_F1", {"CC525_1"},    525, 21,   0, 21,   0, 1006976,  503488,  4, 0,  16, TRUE,  TRUE,  "cc525"),
  Svc("CC_525_F2", {"CC525_2"},    525,  0, 284,  0, 284, 1006976,  503488,  4, 0,  16, TRUE,  TRUE,  "cc525"),
  Svc("CC_2X_525", {"CC2X"},       525, 10,   0, 21,   0, 1006976, 1006976, 12, 8,  32, TRUE,  FALSE, "cc2x") >>

\* entries of the scanning standard in play, in table order (add_services walks the table in order)
Table == SelectSeq(FullTable, LAMBDA e : e.std = Scanning /\ e.name \in Use)
Std   == SelectSeq(FullTable, LAMBDA e : e.std = Scanning)
Bits  == UNION {Table[k].ids : k \in 1..Len(Table)}
WaveOf(b) == LET k == CHOOSE k \in 1..Len(FullTable) : b \in FullTable[k].ids IN FullTable[k].wave
\* jobs that share one bit slicer (add_services: "Level 1.0 and 2.5", "Field 1 and 2")
MergeSets == {{"L10", "L25"}, {"CC525_1", "CC525_2"}, {"CC625_1", "CC625_2"}, {"VPS", "VPS2"}}
Mergeable(ids) == \E M \in MergeSets : ids \subseteq M

Max(a, b) == IF a > b THEN a ELSE b
Min(a, b) == IF a < b THEN a ELSE b

-----------------------------------------------------------------------------
(* sampling parameters: start = first line of each field as told to the decoder (0 = unknown),
   tstart = the lines really sampled (ghost, for the transmitter), swap = the first stored
   field is really the second one (ghost; only possible when the field order is unknown)      *)
NoGeom == [std |-> 0, start |-> <<0, 0>>, tstart |-> <<0, 0>>, count |-> <<0, 0>>, il |-> FALSE, sync |-> FALSE, swap |-> FALSE]
Rows(g) == g.count[1] + g.count[2]

\* _vbi_sampling_par_valid_log (format and bytes_per_line are valid in every replayed configuration)
Valid(g) ==
  /\ ~(g.count[1] = 0 /\ g.count[2] = 0)
  /\ g.std \in {525, 625}
  /\ LET m == IF g.std = 525 THEN <<1, 262, 263, 525>> ELSE <<1, 311, 312, 625>> IN
       /\ (g.start[1] # 0 => (g.start[1] >= m[1] /\ g.start[1] + g.count[1] <= m[2]))
       /\ (g.start[2] # 0 => (g.start[2] >= m[3] /\ g.start[2] + g.count[2] <= m[4]))
  /\ (g.il => (g.count[1] = g.count[2] /\ g.count[1] # 0))

\* durations in ns (integer arithmetic; configurations within 100 ns of a limit are not used, see Robust)
SigNs(e)  == (e.cri_bits * 1000000) \div (e.cri_rate \div 1000) + ((e.frc_bits + e.payload) * 1000000) \div (e.bit_rate \div 1000)
LineNs(r) == (r.spl * 1000000) \div (r.rate \div 1000)
Headroom(strict) == IF strict > 0 THEN 1000 ELSE 0
Abs(x) == IF x < 0 THEN -x ELSE x
Robust(r) == \A k \in 1..Len(FullTable), s \in {0, 1} : Abs(LineNs(r) - Headroom(s) - SigNs(FullTable[k])) >= 100

\* _vbi_sampling_par_permit_service
FastEnough(e, r) == LET m == Max(e.cri_rate, e.bit_rate) IN (IF e.name = "WSS_625" THEN m ELSE (m * 3) \div 2) <= r.rate
LongEnough(e, r, strict) == LineNs(r) - Headroom(strict) >= SigNs(e)
Covered(e, g, strict, f) ==
  \/ e.first[f] = 0 \/ e.last[f] = 0                       \* no data on this field
  \/ /\ g.count[f] # 0                                      \* "requires data from field f"
     /\ \/ strict <= 0 \/ g.start[f] = 0
        \/ (strict = 1 /\ e.first[f] > e.last[f])           \* (never true: strict 1 = strict 2)
        \/ ~(g.start[f] > e.first[f] \/ g.start[f] + g.count[f] - 1 < e.last[f])
Permit(e, g, r, strict) ==
  /\ e.std = g.std
  /\ (e.linenum => ~((e.first[1] > 0 /\ g.start[1] = 0) \/ (e.first[2] > 0 /\ g.start[2] = 0)))
  /\ FastEnough(e, r)
  /\ LongEnough(e, r, strict)
  /\ (e.fieldnum => g.sync)
  /\ Covered(e, g, strict, 1) /\ Covered(e, g, strict, 2)

\* lines_containing_data: 0-based first row and number of rows per field
LinesOf(e, g) ==
  LET F(f) ==
        LET s0 == IF f = 1 THEN 0 ELSE g.count[1]
            first == g.start[f]
            last == first + g.count[f] - 1
        IN IF ~g.sync THEN <<s0, g.count[f]>>
           ELSE IF e.first[f] = 0 \/ e.last[f] = 0 THEN <<s0, 0>>
           ELSE IF first > 0 /\ g.count[f] > 0
                THEN IF e.first[f] > last \/ e.last[f] < first
                     THEN (IF Fixed THEN <<s0, 0>> ELSE <<s0, g.count[f]>>)    \* as found: all lines of the field
                     ELSE LET a == Max(first, e.first[f]) b == Min(e.last[f], last) IN <<s0 + (a - first), b + 1 - a>>
                ELSE <<s0, g.count[f]>>
  IN {F(1)[1] + k : k \in 0..(F(1)[2] - 1)} \cup {F(2)[1] + k : k \in 0..(F(2)[2] - 1)}

-----------------------------------------------------------------------------
(* the pattern *)
Zeros(n) == [k \in 1..n |-> 0]
Compact(row) == LET p == SelectSeq(row, LAMBDA x : x > 0) IN p \o Zeros(Ways - Len(p))
FreeWays(row, jn) == Cardinality({k \in 1..Ways : row[k] <= 0}) + Cardinality({k \in 1..Ways : row[k] = jn})
FirstWay(row, jn) == CHOOSE k \in 1..Ways : (row[k] <= 0 \/ row[k] = jn) /\ \A m \in 1..(k - 1) : ~(row[m] <= 0 \/ row[m] = jn)

\* add_job_to_pattern: rows 0-based; returns [ok, pat]
AddJobToPattern(pat, jn, rows) ==
  LET bad == {i \in rows : FreeWays(pat[i + 1], jn) <= 1}
  IN IF bad # {}
     THEN LET stop == CHOOSE i \in bad : \A m \in bad : i <= m      \* rows up to the failing one are left compacted
          IN [ok |-> FALSE, pat |-> [i \in 1..Len(pat) |-> IF (i - 1) \in rows /\ i - 1 <= stop THEN Compact(pat[i]) ELSE pat[i]]]
     ELSE [ok |-> TRUE,
           pat |-> [i \in 1..Len(pat) |->
                      IF (i - 1) \in rows
                      THEN LET c == Compact(pat[i]) IN [c EXCEPT ![FirstWay(c, jn)] = jn, ![Ways] = -128]
                      ELSE pat[i]]]

\* remove_job_from_pattern
DropJob(seq, jn) == LET kept == SelectSeq(seq, LAMBDA x : x # jn) IN [k \in 1..Len(kept) |-> IF kept[k] > jn THEN kept[k] - 1 ELSE kept[k]]
RemoveJobFromPattern(pat, jn) ==
  [i \in 1..Len(pat) |->
     IF Fixed THEN LET d == DropJob(SubSeq(pat[i], 1, Ways - 1), jn) IN d \o Zeros(Ways - 1 - Len(d)) \o <<pat[i][Ways]>>
     ELSE LET d == DropJob(pat[i], jn) IN d \o Zeros(Ways - Len(d))]          \* as found: the counter moves down with the jobs

-----------------------------------------------------------------------------
(* vbi3_raw_decoder_add_services: fold over the table; st = [sv, jb, pat, stop] *)
AddOne(st, e, S, g, r, strict) ==
  IF st.stop \/ e.ids \cap S = {} THEN st
  ELSE LET cand == {j \in 1..Len(st.jb) : Mergeable(st.jb[j] \cup e.ids)}
           j == IF cand = {} THEN Len(st.jb) + 1 ELSE CHOOSE x \in cand : \A y \in cand : x <= y
       IN IF j > MaxJobs THEN [st EXCEPT !.stop = TRUE]
          ELSE IF ~Permit(e, g, r, strict) THEN st
          ELSE LET a == AddJobToPattern(st.pat, j, LinesOf(e, g))
               IN IF ~a.ok THEN [st EXCEPT !.pat = a.pat]
                  ELSE [sv |-> st.sv \cup e.ids,
                        jb |-> IF j > Len(st.jb) THEN Append(st.jb, e.ids) ELSE [st.jb EXCEPT ![j] = @ \cup e.ids],
                        pat |-> a.pat, stop |-> FALSE]

RECURSIVE AddFold(_, _, _, _, _, _)
AddFold(st, k, S, g, r, strict) == IF k > Len(Table) THEN st ELSE AddFold(AddOne(st, Table[k], S, g, r, strict), k + 1, S, g, r, strict)

AddServices(sv, jb, pat, S0, g, r, strict) ==
  LET S == S0 \ sv
  IN IF S = {} THEN [sv |-> sv, jb |-> jb, pat |-> pat, stop |-> FALSE]
     ELSE AddFold([sv |-> sv, jb |-> jb, pat |-> IF pat = <<>> THEN [i \in 1..Rows(g) |-> Zeros(Ways)] ELSE pat, stop |-> FALSE],
                  1, S, g, r, strict)

(* vbi3_raw_decoder_remove_services *)
RECURSIVE RemFold(_, _, _, _)
RemFold(jb, pat, jn, S) ==
  IF jn > Len(jb) THEN [jb |-> jb, pat |-> pat, sib |-> {}]
  ELSE IF jb[jn] \cap S # {}
       THEN LET rest == RemFold([k \in 1..(Len(jb) - 1) |-> IF k < jn THEN jb[k] ELSE jb[k + 1]],
                                IF pat = <<>> THEN pat ELSE RemoveJobFromPattern(pat, jn), jn, S)
            IN [rest EXCEPT !.sib = @ \cup (jb[jn] \ S)]
       ELSE RemFold(jb, pat, jn + 1, S)

RemoveServices(sv, jb, pat, S, g, r) ==
  LET x == RemFold(jb, pat, 1, S)
  IN IF Fixed
     \* repaired: a merged job is dropped as a whole, its other services are added again
     THEN AddServices(sv \ (S \cup x.sib), x.jb, x.pat, x.sib, g, r, 0)
     \* as found: the sibling of a merged job stays in rd->services without a job
     ELSE [sv |-> sv \ S, jb |-> x.jb, pat |-> x.pat, stop |-> FALSE]

-----------------------------------------------------------------------------
(* decode_pattern on one row; returns [hit, row] *)
RECURSIVE Walk(_, _, _, _, _)
Walk(row, k, carried, jb, rj) ==
  LET j == row[k] IN
  IF j > 0
  THEN IF carried # "blank" /\ \E b \in jb[j] : WaveOf(b) = carried
       THEN LET r1 == [row EXCEPT ![Ways] = -128] IN [hit |-> j, row |-> [r1 EXCEPT ![k] = r1[1], ![1] = j]]
       ELSE IF k = Ways THEN [hit |-> -1, row |-> row]               \* would run into the next row (NoRunOff)
       ELSE Walk(row, k + 1, carried, jb, rj)
  ELSE IF k = 1 THEN [hit |-> 0, row |-> IF rj = 0 THEN Tail(row) \o <<row[1]>> ELSE row]    \* predicted blank
  ELSE IF row[Ways] < 0 THEN [hit |-> 0, row |-> row]
  ELSE [hit |-> 0, row |-> [row EXCEPT ![k] = row[1], ![1] = row[Ways]]]                       \* found nothing: predict blank

LineOf(g, i) ==    \* i 0-based logical row
  IF i >= g.count[1] THEN (IF g.sync /\ g.start[2] # 0 THEN g.start[2] + i - g.count[1] ELSE 0)
  ELSE (IF g.sync /\ g.start[1] # 0 THEN g.start[1] + i ELSE 0)

RECURSIVE DecFold(_, _, _, _, _, _, _, _)
DecFold(pat, out, i, image, jb, g, rj, maxl) ==
  IF i >= Rows(g) \/ Len(out) >= maxl THEN [pat |-> pat, out |-> out]
  ELSE LET w == Walk(pat[i + 1], 1, image[i + 1], jb, rj)
       IN DecFold([pat EXCEPT ![i + 1] = w.row],
                  IF w.hit > 0 THEN Append(out, [row |-> i, ids |-> jb[w.hit], line |-> LineOf(g, i)]) ELSE out,
                  i + 1, image, jb, g, rj, maxl)

-----------------------------------------------------------------------------
(* images: what a broadcaster may put on the sampled lines *)
TrueLine(g, i) ==   \* <<field, ITU-R line>> of logical row i
  LET second == (i >= g.count[1]) # g.swap
      k == IF i >= g.count[1] THEN i - g.count[1] ELSE i
  IN IF second THEN <<2, g.tstart[2] + k>> ELSE <<1, g.tstart[1] + k>>
Transmittable == {"ttx_a", "ttx_b", "ttx_c625", "ttx_d625", "vps", "wss", "cc625", "ttx_b525", "ttx_c525", "ttx_d525", "cc525"}
\* the statement covers a service from 13.5 MHz upward (Teletext class) resp. from twice its clock rate upward: a frame
\* sampled more slowly does not carry it
Envelope(w) == IF w \in {"vps", "wss"} THEN 10000000 ELSE IF w \in {"cc625", "cc525"} THEN 2100000 ELSE 13500000
WavesOn(g, i) == LET fl == TrueLine(g, i) IN
  {w \in {Std[k].wave : k \in {k \in 1..Len(Std) : Std[k].first[fl[1]] # 0 /\ Std[k].first[fl[1]] <= fl[2] /\ fl[2] <= Std[k].last[fl[1]]}}
        \cap Transmittable : RateCfgs[rc].rate >= Envelope(w)}
RECURSIVE BuildImg(_, _, _)
BuildImg(g, i, left) ==      \* sequences for rows i..Rows(g) with at most `left` rows carrying a signal
  IF i > Rows(g) THEN {<<>>}
  ELSE {<<"blank">> \o t : t \in BuildImg(g, i + 1, left)} \cup
       (IF left = 0 THEN {} ELSE {<<w>> \o t : w \in WavesOn(g, i - 1), t \in BuildImg(g, i + 1, left - 1)})
Images(g) == BuildImg(g, 1, MaxCarried)

-----------------------------------------------------------------------------
Init == /\ api \in Apis /\ rc \in 1..Len(RateCfgs)
        /\ ug \in {g \in Geoms : api = "old" \/ Valid(g)}      \* vbi3_raw_decoder_new returns NULL for invalid parameters
        /\ dg = IF api = "new" THEN ug ELSE NoGeom              \* 0.2: the parameters reach the decoder with add_services
        /\ services = {} /\ jobs = <<>> /\ pattern = <<>> /\ readjust = 1
        /\ ret = [set |-> {}] /\ lastAct = [a |-> "new"] /\ img = <<>> /\ ncalls = 0 /\ ndec = 0

Call == ncalls' = ncalls + 1 /\ UNCHANGED <<api, rc, ndec>> /\ img' = <<>>

\* vbi3_raw_decoder_set_sampling_par as a function of the state
SetPar(sv, g, strict) ==
  IF ~Valid(g) THEN [sv |-> {}, jb |-> <<>>, pat |-> <<>>, stop |-> FALSE, g |-> NoGeom]
  ELSE [g |-> g] @@ AddServices({}, <<>>, <<>>, sv, g, RateCfgs[rc], strict)

Add(S, strict) ==
  /\ Call /\ lastAct' = [a |-> "add", set |-> S, strict |-> strict]
  /\ LET p == IF api = "old" THEN SetPar(services, ug, strict)       \* 0.2 wrapper: parameters first, with the new strictness
              ELSE [sv |-> services, jb |-> jobs, pat |-> pattern, g |-> dg]
         x == AddServices(p.sv, p.jb, p.pat, S, p.g, RateCfgs[rc], strict)
     IN /\ services' = x.sv /\ jobs' = x.jb /\ pattern' = x.pat /\ dg' = p.g
        /\ readjust' = IF api = "old" THEN 1 ELSE readjust
        /\ ret' = [set |-> x.sv]
  /\ UNCHANGED ug

Remove(S) ==
  /\ Call /\ lastAct' = [a |-> "remove", set |-> S]
  /\ LET x == RemoveServices(services, jobs, pattern, S, dg, RateCfgs[rc])
     IN services' = x.sv /\ jobs' = x.jb /\ pattern' = x.pat /\ ret' = [set |-> x.sv]
  /\ UNCHANGED <<ug, dg, readjust>>

\* new: vbi3_raw_decoder_set_sampling_par (sp, strict); old: vbi_raw_decoder_resize (start, count), strict 0,
\* nothing happens when start and count are unchanged
Resize(g, strict) ==
  /\ Call /\ lastAct' = [a |-> "resize", g |-> g, strict |-> strict]
  /\ IF api = "old" /\ g.start = ug.start /\ g.count = ug.count
     THEN UNCHANGED <<ug, dg, services, jobs, pattern, readjust>> /\ ret' = [set |-> services]
     ELSE LET x == SetPar(services, g, strict)
          IN /\ ug' = g /\ dg' = x.g /\ services' = x.sv /\ jobs' = x.jb /\ pattern' = x.pat /\ readjust' = 1
             /\ ret' = [set |-> x.sv]

Reset ==
  /\ Call /\ lastAct' = [a |-> "reset"]
  /\ services' = {} /\ jobs' = <<>> /\ pattern' = <<>> /\ readjust' = 1 /\ ret' = [set |-> {}]
  /\ UNCHANGED <<ug, dg>>

Decode(image, maxl) ==
  /\ ndec' = ndec + 1 /\ UNCHANGED <<api, rc, ncalls, ug, dg, services, jobs>>
  /\ lastAct' = [a |-> "decode", maxl |-> maxl] /\ img' = image
  /\ IF services = {}
     THEN ret' = [recs |-> <<>>] /\ UNCHANGED <<pattern, readjust>>
     ELSE LET x == DecFold(pattern, <<>>, 0, image, jobs, dg, readjust, maxl)
          IN pattern' = x.pat /\ ret' = [recs |-> x.out] /\ readjust' = (readjust + 1) % 16

\* geometries a resize can lead to: the 0.2 interface changes start and count only
ResizeTargets == {g \in Geoms : api = "new" \/ (g.il = ug.il /\ g.sync = ug.sync /\ g.std = ug.std)}
\* the 0.2 interface has no output size: one record per row of the caller's parameters
MaxLs == IF api = "old" THEN {Rows(ug)} ELSE IF ShortOut /\ Rows(dg) > 1 THEN {Rows(dg), 1} ELSE {Rows(dg)}

Next == \/ /\ ncalls < MaxCalls
           /\ \/ \E S \in AddSets, s \in Stricts : Add(S \cap Bits, s)
              \/ \E S \in AddSets : Remove(S \cap Bits)
              \/ \E g \in ResizeTargets, s \in (IF api = "old" THEN {0} ELSE Stricts) : Resize(g, s)
              \/ Reset
        \/ /\ ndec < MaxDecodes
           /\ \E im \in Images(dg), m \in MaxLs : Decode(im, m)
Spec == Init /\ [][Next]_vars

-----------------------------------------------------------------------------
(* C04, combinatorial part.  A row is "wanted" when it carries the waveform of a service the
   decoder reports as decoded (rd->services, the value every add/remove call returns) on a line
   where that service is looked for. *)
Recs == IF "recs" \in DOMAIN ret THEN ret.recs ELSE <<>>
IsDecode == lastAct.a = "decode"
Entries(b) == {k \in 1..Len(Table) : b \in Table[k].ids}
\* service bit b is transmitted on <<field, line>> fl (lines of the table; any row when the field order is unknown)
OnItsLine(b, g, i) == LET fl == TrueLine(g, i) IN
                        \/ ~g.sync
                        \/ \E k \in Entries(b) : /\ Table[k].first[fl[1]] # 0
                                                 /\ g.start[fl[1]] = 0 \/ (Table[k].first[fl[1]] <= fl[2] /\ fl[2] <= Table[k].last[fl[1]])
Wanted(i) == img[i + 1] # "blank" /\ \E b \in services : WaveOf(b) = img[i + 1] /\ OnItsLine(b, dg, i)
WantedRows == {i \in 0..(Rows(dg) - 1) : Wanted(i)}
RecRows == {Recs[k].row : k \in 1..Len(Recs)}
Full == lastAct.maxl >= Rows(dg)

\* exactly one record per carried row of a decoded service (all of them when the output array has a record per row)
Complete == (IsDecode /\ img # <<>>) =>
               /\ \A k, m \in 1..Len(Recs) : k # m => Recs[k].row # Recs[m].row
               /\ Full => RecRows = WantedRows
               /\ ~Full => (RecRows \subseteq WantedRows /\ Len(Recs) = Min(lastAct.maxl, Cardinality(WantedRows)))
\* never a service that is not decoded/requested; the id names the transmitted waveform
OnlyRequested == IsDecode => \A k \in 1..Len(Recs) : Recs[k].ids # {} /\ Recs[k].ids \subseteq services
IdentifiedAs  == (IsDecode /\ img # <<>>) => \A k \in 1..Len(Recs) : \A b \in Recs[k].ids : WaveOf(b) = img[Recs[k].row + 1]
\* the ITU-R line number when the field order and the first line of the field are known, else 0
LineNumbers == (IsDecode /\ img # <<>>) => \A k \in 1..Len(Recs) :
                  LET fl == TrueLine(dg, Recs[k].row) IN
                  Recs[k].line = IF dg.sync /\ dg.start[fl[1]] # 0 THEN fl[2] ELSE 0
Ascending == IsDecode => \A k \in 1..(Len(Recs) - 1) :
                /\ Recs[k].row < Recs[k + 1].row
                /\ (Recs[k].line # 0 /\ Recs[k + 1].line # 0) => Recs[k].line < Recs[k + 1].line
BlankSilent == (IsDecode /\ img # <<>>) => \A k \in 1..Len(Recs) : img[Recs[k].row + 1] # "blank"
Bounded == IsDecode => Len(Recs) <= lastAct.maxl /\ Len(Recs) <= Rows(dg)

\* a removed service is in no job and no pattern slot names a job that does not exist
JobsOK == /\ \A j \in 1..Len(jobs) : jobs[j] # {} /\ jobs[j] \subseteq services
          /\ services = UNION {jobs[j] : j \in 1..Len(jobs)}
          /\ \A i \in 1..Len(pattern), k \in 1..Ways : pattern[i][k] <= Len(jobs)
          /\ Len(jobs) <= MaxJobs
\* (a bit that the table makes part of a service still requested stays: Teletext B level 1.0 implies both bits)
Implied(X) == UNION {Table[k].ids : k \in {k \in 1..Len(Table) : Table[k].ids \cap X # {}}}
RemovedEverywhere == lastAct.a = "remove" => services \cap lastAct.set \subseteq Implied(services \ lastAct.set)
\* the last way of every row is the counter, never a job: decode_pattern stops inside the row
NoRunOff == /\ \A i \in 1..Len(pattern) : pattern[i][Ways] <= 0
            /\ (pattern # <<>> => Len(pattern) = Rows(dg))
\* a job is only searched where one of its services can be transmitted
SearchedOnOwnLines == \A i \in 1..Len(pattern), k \in 1..Ways :
                         pattern[i][k] > 0 => \E b \in jobs[pattern[i][k]] : OnItsLine(b, dg, i - 1)
\* add_services returns the services asked for (and those decoded before) that the parameters permit
Permitted(S, g, strict) == UNION {Table[k].ids : k \in {k \in 1..Len(Table) : Table[k].ids \cap S # {} /\ Permit(Table[k], g, RateCfgs[rc], strict)}}
AddReturnsDecodable ==
  [][(lastAct'.a = "add" /\ Len(jobs') < MaxJobs) =>
        LET before == IF api = "old" THEN Permitted(services, dg', lastAct'.strict) ELSE services
        IN /\ ret'.set = services'
           /\ services' = before \cup Permitted(lastAct'.set \ before, dg', lastAct'.strict)]_vars
\* what was learned changes the order of the ways only
WaysOf(p, i) == {p[i][k] : k \in 1..Ways} \cap (1..MaxJobs)
LearningKeepsJobs == [][lastAct'.a = "decode" => /\ Len(pattern') = Len(pattern)
                                                   /\ \A i \in 1..Len(pattern) : WaysOf(pattern', i) = WaysOf(pattern, i)]_vars

TypeOK == /\ readjust \in 0..15 /\ services \subseteq Bits
          /\ Len(jobs) <= MaxJobs

(* The result variables (ret, lastAct, img) and the call counters do not influence what can happen next:
   model checking identifies states by `core` (VIEW) and checks the clauses about results as action
   properties, i.e. on every transition. *)
core == <<api, rc, ug, dg, services, jobs, pattern, readjust>>
DepthBound == TLCGet("level") < MaxDepth
ACompleteP      == [][Complete']_vars
AOnlyRequested  == [][OnlyRequested']_vars
AIdentifiedAs   == [][IdentifiedAs']_vars
ALineNumbers    == [][LineNumbers']_vars
AAscending      == [][Ascending']_vars
ABlankSilent    == [][BlankSilent']_vars
ABounded        == [][Bounded']_vars
ARemovedEverywhere == [][RemovedEverywhere']_vars
=============================================================================
