CONSTANTS Mags = {1, 8} Pages <- PagesX Rows = {1} Cids = {1, 2} Nats = {0} Flofs = {1, 2} Progs <- ProgsA
          HdrFaults <- HdrAll RowFaults <- RowFewA PktFaults <- PktAll TripFaults = {4} FlofFaults <- FlofFew MaxFaults = 2 MaxPk = 4
          HdrTxtFaults <- HtxtFew
SPECIFICATION Spec
VIEW mcview
CONSTRAINT Bounded
INVARIANTS OneVersion RollingOne OnlyTransmitted EnhNotMisplaced LinksContained HdrTextOnly
PROPERTIES KeepsRows BadRowContained AddressFaultNothing HeaderFaultOnlyAbandons ParityErrorContained DamagedLinkKept HeaderTextContained
CHECK_DEADLOCK FALSE
