CONSTANTS Mags = {1, 8} Pages <- PagesX Rows = {1, 24} Cids = {1, 2} Nats = {0} Flofs = {1} Progs <- ProgsA
          HdrFaults <- HdrAll RowFaults <- RowFew PktFaults <- PktAll TripFaults = {1, 4} MaxFaults = 2 MaxPk = 4
SPECIFICATION Spec
VIEW mcview
CONSTRAINT Bounded
INVARIANTS OneVersion RollingOne OnlyTransmitted EnhNotMisplaced
PROPERTIES KeepsRows BadRowContained AddressFaultNothing HeaderFaultOnlyAbandons
CHECK_DEADLOCK FALSE
