CONSTANTS Mags = {1, 8} Pages <- PagesX Rows = {1} Cids = {1, 2} Nats = {0} Flofs = {1, 2} Progs <- ProgsA
          HdrFaults <- HdrAll RowFaults <- RowFewA PktFaults <- PktAll TripFaults = {4} FlofFaults <- FlofFew MaxFaults = 2 MaxPk = 4
SPECIFICATION Spec
VIEW mcview
CONSTRAINT Bounded
INVARIANTS OneVersion RollingOne OnlyTransmitted EnhNotMisplaced LinksContained
PROPERTIES KeepsRows BadRowContained AddressFaultNothing HeaderFaultOnlyAbandons ParityErrorContained DamagedLinkKept
CHECK_DEADLOCK FALSE
