CONSTANTS Prog <- CcQuick ResetLocking = "asfound" EventUnlock = TRUE HandlerFetch = FALSE
SPECIFICATION Spec
INVARIANTS LocksetOK NoRace CallbackUnlocked NoSelfLock SnapshotAtomic ConsistentSet HolderOK
