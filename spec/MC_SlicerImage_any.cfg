\* the decoder without the admission rule of _vbi_sampling_par_valid_log: RowInside MUST be violated
\* (interlaced image with count[1] = count[0] + 1: the last line of the second field lies behind the image)
CONSTANTS MaxCount = 2 MaxExtra = 0 Rule = "any"
SPECIFICATION Spec
INVARIANTS TypeOK RowInside
CHECK_DEADLOCK FALSE
