\* a roll-up caption on field 1 interleaved with a text channel on field 2 (CC1, T3)
CONSTANTS Chans = {1, 7} Rows = {12} Chars = {65} MaxPairs = 6
  Indents = {4} Depths = {2} Tabs = {1}
  Kinds = {"RTD", "TR", "RU", "PAC", "CR", "TEXT"}
  Beyond = {}
  Mix <- NoMix Bursts <- NoBurst
SPECIFICATION GSpec
VIEW gview2
ACTION_CONSTRAINT TDump
CHECK_DEADLOCK FALSE
