CONSTANTS Clients = {1, 2, 3} Services = {"a"} Supported = {"a"} Base = 1 S = 1 MaxFrames = 4 Threaded = TRUE LevelsUsed = {1} Discards = {FALSE}
SPECIFICATION Spec
INVARIANTS TypeOK RefCount CursorOK QueueOrder Buffers Delivery InOrder DeviceOpen
PROPERTIES Filtered LossOnlyWhenFull OnlyBlockedLose
CHECK_DEADLOCK FALSE
