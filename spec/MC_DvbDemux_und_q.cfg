CONSTANTS HdlVal = 5 MinPL = 27 TtxN = 2 VpsN = 1 TSP = 11 HL = 17 TSH = 10 MaxLines = 64
  Streams <- StreamsUq RecStreams <- RecUnd CorLines = {2} Policies = {"err", "all"} RecMode = "std" CcStarts = {}
SPECIFICATION Spec
INVARIANTS PartitionInvariance OnePiece Recovery RecoveryMeaningful NoLookaheadOverrun Consumed
CHECK_DEADLOCK FALSE
