CONSTANTS CiStart = 14 K = 6 NP = 2 Sizes = {0, 1, 2, 4, 7} Fills = {0, 1, 2} MaxBlocks = 3 Faults = {"none", "drop", "err2"} Units = {"bp"} Policies = {"strict", "lenient"} UnitBlocks = 2 TailCheck = TRUE Foreign = {"none", "page"} TailAtForeign = FALSE Noise = {0} NoisePos = {"all"} NoiseFaults = {"none"}
SPECIFICATION Spec
INVARIANTS Sound Complete Resume
CHECK_DEADLOCK FALSE
