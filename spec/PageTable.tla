----------------------------- MODULE PageTable -----------------------------
(* vbi_page_table (src/page_table.c, page_table.h): a set of Teletext (page number, subpage number) pairs,
   page numbers MinPg..MaxPg (0x100..0x8FF), subpage numbers 0..MaxSub (0x3F7E); VBI_ANY_SUBNO = MaxSub + 1
   stands for "all subpages".  Written from the documentation comments of the functions.

   Representation of the abstract set.  The calls take single numbers or ranges, so a table reached through
   the calls of one model is always a union of ELEMENTS:
     page elements     a page of PagePts alone, or the BCD pages / the pages with a hex digit of a maximal run of
                       pages between two pages of PagePts (add_all_displayable_pages separates the two kinds);
     subpage elements  a number of SubPts alone, or a maximal run of numbers between two of them.
   Range arguments lie on element boundaries, single arguments are taken from PagePts / SubPts.  With
   PagePts = all pages and SubPts = all subpages every element is a single number (the scaled "point" models);
   with the real limits and a handful of points the same module generates the calls for the real library.

   pt.mem[e]   the subpage elements of page element e which are in the table
   pt.whole    page elements the caller added as whole pages and did not cut since.  A page which became complete
               by adding subpage ranges only is in the table with all its subpages, but the documentation does not
               say that such ranges are merged: contains_all_subpages / the VBI_ANY_SUBNO answer of next_subpage
               are required for pt.whole, forbidden for incomplete pages and left open in between ("open"). *)
EXTENDS Integers, Sequences, FiniteSets, TLC

CONSTANTS MinPg, MaxPg,       \* 0x100, 0x8FF (MaxPg scaled down in the point models)
          MaxSub,             \* 0x3F7E (scaled down in the point models)
          PagePts, SubPts,    \* numbers addressed individually
          BadPages, BadSubs   \* invalid arguments

AnySub == MaxSub + 1
Pages == MinPg..MaxPg
Subs == 0..MaxSub

ASSUME /\ PagePts \subseteq Pages /\ SubPts \subseteq Subs
       /\ BadPages \cap Pages = {} /\ BadSubs \cap (Subs \cup {AnySub}) = {}

SMin(S) == CHOOSE x \in S : \A y \in S : x <= y
SMax(S) == CHOOSE x \in S : \A y \in S : x >= y
Lower(a, b) == IF a <= b THEN a ELSE b
Upper(a, b) == IF a <= b THEN b ELSE a

(* "displayable" pages: page numbers which are valid BCD numbers (the hundreds digit 1..8 always is) *)
IsBcd(p) == (p % 16) <= 9 /\ ((p \div 16) % 16) <= 9
Kind(p) == IF IsBcd(p) THEN "b" ELSE "h"

---------------------------------------------------------------------------
(* the partition *)
GapStarts(pts, lo, hi) == {a \in {p + 1 : p \in pts \cup {lo - 1}} : a <= hi /\ a \notin pts}
GapEnd(pts, a, hi) == LET later == {p \in pts : p > a} IN IF later = {} THEN hi ELSE SMin(later) - 1

PGaps == {<<a, GapEnd(PagePts, a, MaxPg)>> : a \in GapStarts(PagePts, MinPg, MaxPg)}
PEl == {[lo |-> p, hi |-> p, k |-> Kind(p)] : p \in PagePts}
       \cup {e \in {[lo |-> g[1], hi |-> g[2], k |-> kk] : g \in PGaps, kk \in {"b", "h"}} :
                \E p \in e.lo..e.hi : Kind(p) = e.k}
SEl == {[lo |-> s, hi |-> s] : s \in SubPts}
       \cup {[lo |-> a, hi |-> GapEnd(SubPts, a, MaxSub)] : a \in GapStarts(SubPts, 0, MaxSub)}

PagesOf == [e \in PEl |-> {p \in e.lo..e.hi : Kind(p) = e.k}]
SizeOf == [e \in PEl |-> Cardinality(PagesOf[e])]
FirstOf == [e \in PEl |-> CHOOSE p \in PagesOf[e] : \A q \in e.lo..(p - 1) : q \notin PagesOf[e]]
PtEl(p) == [lo |-> p, hi |-> p, k |-> Kind(p)]
SubEl(s) == [lo |-> s, hi |-> s]
Inside(e, f, l) == f <= e.lo /\ e.hi <= l          \* element e lies in the range f..l

PgLos == {e.lo : e \in PEl}
PgHis == {e.hi : e \in PEl}
SLos == {x.lo : x \in SEl}
SHis == {x.hi : x \in SEl}
(* ranges (first, last) and, as documented, (last, first) *)
RangeArgs(los, his) == {r \in (los \cup his) \X (los \cup his) :
                           \/ r[1] <= r[2] /\ r[1] \in los /\ r[2] \in his
                           \/ r[1] > r[2] /\ r[2] \in los /\ r[1] \in his}
PgRanges == RangeArgs(PgLos, PgHis)
SubRanges == RangeArgs(SLos, SHis)
(* invalid arguments: one bad number with a good one (either order), two bad numbers, ANY mixed with a number *)
BadPgRanges == {r \in (PagePts \cup BadPages) \X (PagePts \cup BadPages) :
                   /\ r[1] \in BadPages \/ r[2] \in BadPages
                   /\ r[1] \in BadPages \cup {SMin(PagePts)} /\ r[2] \in BadPages \cup {SMax(PagePts)}}
BadSubRanges == {r \in (SubPts \cup BadSubs \cup {AnySub}) \X (SubPts \cup BadSubs \cup {AnySub}) :
                    /\ (r[1] \notin Subs \/ r[2] \notin Subs) /\ r # <<AnySub, AnySub>>
                    /\ r[1] \in BadSubs \cup {AnySub, SMin(SubPts)} /\ r[2] \in BadSubs \cup {AnySub, SMax(SubPts)}}

---------------------------------------------------------------------------
(* the table as a value; every call as a pure operator on it *)
Empty == [mem |-> [e \in PEl |-> {}], whole |-> {}]

ValidPg(p) == p \in Pages
ValidSub(s) == s \in Subs

TAddPages(T, f, l) ==
    LET in == {e \in PEl : Inside(e, Lower(f, l), Upper(f, l))}
    IN [mem |-> [e \in PEl |-> IF e \in in THEN SEl ELSE T.mem[e]], whole |-> T.whole \cup in]
TRemovePages(T, f, l) ==
    LET in == {e \in PEl : Inside(e, Lower(f, l), Upper(f, l))}
    IN [mem |-> [e \in PEl |-> IF e \in in THEN {} ELSE T.mem[e]], whole |-> T.whole \ in]
TAddDisplayable(T) ==
    LET in == {e \in PEl : e.k = "b"}
    IN [mem |-> [e \in PEl |-> IF e \in in THEN SEl ELSE T.mem[e]], whole |-> T.whole \cup in]
TAddSubpages(T, p, f, l) ==
    LET e == PtEl(p)
        in == {x \in SEl : Inside(x, Lower(f, l), Upper(f, l))}
    IN [mem |-> [T.mem EXCEPT ![e] = @ \cup in], whole |-> T.whole]
TRemoveSubpages(T, p, f, l) ==
    LET e == PtEl(p)
        in == {x \in SEl : Inside(x, Lower(f, l), Upper(f, l))}
    IN [mem |-> [T.mem EXCEPT ![e] = @ \ in],
        whole |-> IF T.mem[e] \cap in = {} THEN T.whole ELSE T.whole \ {e}]

Op(o, p, a, b) == [o |-> o, p |-> p, a |-> a, b |-> b]

OpsAddAll == {Op("add_all_pages", 0, 0, 0)}
OpsAddDisp == {Op("add_all_displayable_pages", 0, 0, 0)}
OpsRemoveAll == {Op("remove_all_pages", 0, 0, 0)}
OpsAddPages == {Op("add_pages", 0, r[1], r[2]) : r \in PgRanges \cup BadPgRanges}
OpsRemovePages == {Op("remove_pages", 0, r[1], r[2]) : r \in PgRanges \cup BadPgRanges}
OpsAddPage == {Op("add_page", p, 0, 0) : p \in PagePts \cup BadPages}
OpsRemovePage == {Op("remove_page", p, 0, 0) : p \in PagePts \cup BadPages}
SubRangeOps(name) == {Op(name, p, r[1], r[2]) : p \in PagePts, r \in SubRanges \cup BadSubRanges \cup {<<AnySub, AnySub>>}}
                     \cup {Op(name, p, r[1], r[2]) : p \in BadPages, r \in {<<SMin(SLos), SMax(SHis)>>, <<AnySub, AnySub>>}}
OpsAddSubpages == SubRangeOps("add_subpages")
OpsRemoveSubpages == SubRangeOps("remove_subpages")
SubOps(name) == {Op(name, p, s, 0) : p \in PagePts, s \in SubPts \cup BadSubs \cup {AnySub}}
                \cup {Op(name, p, s, 0) : p \in BadPages, s \in {SMin(SLos), AnySub}}
OpsAddSubpage == SubOps("add_subpage")
OpsRemoveSubpage == SubOps("remove_subpage")
Mutators == OpsAddAll \cup OpsAddDisp \cup OpsRemoveAll \cup OpsAddPages \cup OpsRemovePages \cup OpsAddPage
            \cup OpsRemovePage \cup OpsAddSubpages \cup OpsRemoveSubpages \cup OpsAddSubpage \cup OpsRemoveSubpage

(* argument check of a mutator, as documented: page numbers in range; subpage numbers both in range or both ANY *)
ArgsOk(op) ==
    CASE op.o \in {"add_all_pages", "add_all_displayable_pages", "remove_all_pages"} -> TRUE
      [] op.o \in {"add_pages", "remove_pages"} -> ValidPg(op.a) /\ ValidPg(op.b)
      [] op.o \in {"add_page", "remove_page"} -> ValidPg(op.p)
      [] op.o \in {"add_subpages", "remove_subpages"} ->
            ValidPg(op.p) /\ ((ValidSub(op.a) /\ ValidSub(op.b)) \/ (op.a = AnySub /\ op.b = AnySub))
      [] op.o \in {"add_subpage", "remove_subpage"} -> ValidPg(op.p) /\ (ValidSub(op.a) \/ op.a = AnySub)
      [] OTHER -> TRUE

Eff(op, T) ==
    IF ~ArgsOk(op) THEN T                                     \* a failed call changes nothing
    ELSE CASE op.o = "add_all_pages" -> TAddPages(T, MinPg, MaxPg)
           [] op.o = "add_all_displayable_pages" -> TAddDisplayable(T)
           [] op.o = "remove_all_pages" -> TRemovePages(T, MinPg, MaxPg)
           [] op.o = "add_pages" -> TAddPages(T, op.a, op.b)
           [] op.o = "remove_pages" -> TRemovePages(T, op.a, op.b)
           [] op.o = "add_page" -> TAddPages(T, op.p, op.p)
           [] op.o = "remove_page" -> TRemovePages(T, op.p, op.p)
           [] op.o = "add_subpages" -> IF op.a = AnySub THEN TAddPages(T, op.p, op.p) ELSE TAddSubpages(T, op.p, op.a, op.b)
           [] op.o = "remove_subpages" -> IF op.a = AnySub THEN TRemovePages(T, op.p, op.p) ELSE TRemoveSubpages(T, op.p, op.a, op.b)
           [] op.o = "add_subpage" -> IF op.a = AnySub THEN TAddPages(T, op.p, op.p) ELSE TAddSubpages(T, op.p, op.a, op.a)
           [] op.o = "remove_subpage" -> IF op.a = AnySub THEN TRemovePages(T, op.p, op.p) ELSE TRemoveSubpages(T, op.p, op.a, op.a)
           [] OTHER -> T                                      \* queries

---------------------------------------------------------------------------
(* queries, computed on the elements *)
ElP == [p \in Pages |-> CHOOSE e \in PEl : e.lo <= p /\ p <= e.hi /\ Kind(p) = e.k]
ElS == [s \in Subs |-> CHOOSE x \in SEl : x.lo <= s /\ s <= x.hi]
ElOfPage(p) == ElP[p]
ElOfSub(s) == ElS[s]
Complete(T, e) == T.mem[e] = SEl
QContainsPage(T, p) == ValidPg(p) /\ T.mem[ElOfPage(p)] # {}
QContainsSubpage(T, p, s) == /\ ValidPg(p)
                             /\ IF s = AnySub THEN T.mem[ElOfPage(p)] # {} ELSE ValidSub(s) /\ ElOfSub(s) \in T.mem[ElOfPage(p)]
(* "T" required, "F" forbidden, "O" open (complete through subpage ranges only) *)
QContainsAll(T, p) == IF ~ValidPg(p) THEN "F"
                      ELSE LET e == ElOfPage(p) IN IF e \in T.whole THEN "T" ELSE IF Complete(T, e) THEN "O" ELSE "F"
(* multiple subpages of a page count as one page *)
QNumPages(T) == LET RECURSIVE sum(_)
                    sum(S) == IF S = {} THEN 0 ELSE LET e == CHOOSE x \in S : TRUE IN SizeOf[e] + sum(S \ {e})
                IN sum({e \in PEl : T.mem[e] # {}})

None == [ok |-> FALSE, pg |-> 0, sub |-> 0, open |-> FALSE]
(* the next higher page of element e after page p, MaxPg + 1 if none *)
NextInEl(e, p) == IF p < FirstOf[e] THEN FirstOf[e]
                  ELSE IF \A q \in PagesOf[e] : q <= p THEN MaxPg + 1
                  ELSE CHOOSE q \in PagesOf[e] : q > p /\ \A r \in (p + 1)..(q - 1) : r \notin PagesOf[e]
(* first item of page q: VBI_ANY_SUBNO when all its subpages are in the table, else its lowest subpage *)
FirstItem(T, q) == LET e == ElOfPage(q)
                   IN IF Complete(T, e) THEN [ok |-> TRUE, pg |-> q, sub |-> AnySub, open |-> e \notin T.whole]
                      ELSE [ok |-> TRUE, pg |-> q, sub |-> SMin({x.lo : x \in T.mem[e]}), open |-> FALSE]
NextPageAfter(T, p) == LET c == {NextInEl(e, p) : e \in {x \in PEl : T.mem[x] # {}}} \ {MaxPg + 1}
                       IN IF c = {} THEN None ELSE FirstItem(T, SMin(c))
(* next_subpage as documented: pgno below MinPg -> the lowest page and subpage; otherwise the next subpage of this page,
   or if there is none the first subpage of the next higher page; VBI_ANY_SUBNO stands for the highest subpage *)
QNextSubpage(T, p, s) ==
    IF p < MinPg THEN NextPageAfter(T, MinPg - 1)
    ELSE IF ValidPg(p) /\ s # AnySub /\ ~Complete(T, ElOfPage(p))
         THEN LET c == {x \in T.mem[ElOfPage(p)] : x.hi > s}
              IN IF c = {} THEN NextPageAfter(T, p)
                 ELSE LET x == CHOOSE y \in c : \A z \in c : y.lo <= z.lo
                      IN [ok |-> TRUE, pg |-> p, sub |-> IF x.lo > s THEN x.lo ELSE s + 1, open |-> FALSE]
         ELSE NextPageAfter(T, p)
QNextPage(T, p) == LET r == QNextSubpage(T, p, AnySub) IN [r EXCEPT !.sub = AnySub, !.open = FALSE]

QueryPages == PgLos \cup PgHis \cup BadPages
QuerySubs == SLos \cup SHis \cup {AnySub}
OpsContainsPage == {Op("contains_page", p, 0, 0) : p \in PagePts \cup BadPages}
OpsContainsSubpage == {Op("contains_subpage", p, s, 0) : p \in PagePts \cup BadPages, s \in SubPts \cup BadSubs \cup {AnySub}}
OpsContainsAll == {Op("contains_all_subpages", p, 0, 0) : p \in PagePts \cup BadPages}
OpsNumPages == {Op("num_pages", 0, 0, 0)}
OpsNextPage == {Op("next_page", p, 0, 0) : p \in QueryPages}
OpsNextSubpage == {Op("next_subpage", p, s, 0) : p \in QueryPages, s \in QuerySubs}
Queries == OpsContainsPage \cup OpsContainsSubpage \cup OpsContainsAll \cup OpsNumPages \cup OpsNextPage \cup OpsNextSubpage
Ops == Mutators \cup Queries

(* calls whose answer the documentation does not determine are not made: a subpage number which does not exist asked
   of a complete page; next_subpage continued inside a page all of whose subpages are one item (VBI_ANY_SUBNO) *)
Defined(op, T) ==
    CASE op.o = "contains_subpage" -> IF op.a \in BadSubs /\ ValidPg(op.p) THEN ~Complete(T, ElOfPage(op.p)) ELSE TRUE
      [] op.o = "next_subpage" -> IF ValidPg(op.p) /\ op.a # AnySub THEN ~Complete(T, ElOfPage(op.p)) ELSE TRUE
      [] OTHER -> TRUE

Ret(op, T) ==
    CASE op \in Mutators -> [ok |-> ArgsOk(op)]
      [] op.o = "contains_page" -> [ok |-> QContainsPage(T, op.p)]
      [] op.o = "contains_subpage" -> [ok |-> QContainsSubpage(T, op.p, op.a)]
      [] op.o = "contains_all_subpages" -> [all |-> QContainsAll(T, op.p)]
      [] op.o = "num_pages" -> [n |-> QNumPages(T)]
      [] op.o = "next_page" -> QNextPage(T, op.p)
      [] op.o = "next_subpage" -> QNextSubpage(T, op.p, op.a)

---------------------------------------------------------------------------
VARIABLE pt
vars == <<pt>>

Init == pt = Empty
Do(op) == Defined(op, pt) /\ pt' = Eff(op, pt)

AddAllPages == \E op \in OpsAddAll : Do(op)
AddAllDisplayablePages == \E op \in OpsAddDisp : Do(op)
RemoveAllPages == \E op \in OpsRemoveAll : Do(op)
AddPages == \E op \in OpsAddPages : Do(op)
RemovePages == \E op \in OpsRemovePages : Do(op)
AddPage == \E op \in OpsAddPage : Do(op)
RemovePage == \E op \in OpsRemovePage : Do(op)
AddSubpages == \E op \in OpsAddSubpages : Do(op)
RemoveSubpages == \E op \in OpsRemoveSubpages : Do(op)
AddSubpage == \E op \in OpsAddSubpage : Do(op)
RemoveSubpage == \E op \in OpsRemoveSubpage : Do(op)
Query == \E op \in Queries : Do(op)

Next == \/ AddAllPages \/ AddAllDisplayablePages \/ RemoveAllPages \/ AddPages \/ RemovePages \/ AddPage \/ RemovePage
        \/ AddSubpages \/ RemoveSubpages \/ AddSubpage \/ RemoveSubpage \/ Query
Spec == Init /\ [][Next]_vars

---------------------------------------------------------------------------
(* PROPERTIES, stated on single (page, subpage) numbers - not on the elements the calls are computed with *)
Has(T, p, s) == ElS[s] \in T.mem[ElP[p]]
Members(T) == {m \in Pages \X Subs : Has(T, m[1], m[2])}
Between(x, a, b) == Lower(a, b) <= x /\ x <= Upper(a, b)

TypeOK == /\ pt.mem \in [PEl -> SUBSET SEl] /\ pt.whole \subseteq PEl
(* only single pages have single subpages; whole pages are complete *)
RepInv == /\ \A e \in PEl : e.lo # e.hi => pt.mem[e] \in {{}, SEl}
          /\ \A e \in pt.whole : Complete(pt, e)

(* set algebra: the (page, subpage) numbers a successful call names, point by point; everything else is untouched;
   ranges with first > last are taken as last..first *)
Names(op, p, s) ==
    CASE op.o \in {"add_all_pages", "remove_all_pages"} -> TRUE
      [] op.o = "add_all_displayable_pages" -> IsBcd(p)
      [] op.o \in {"add_pages", "remove_pages"} -> Between(p, op.a, op.b)
      [] op.o \in {"add_page", "remove_page"} -> p = op.p
      [] op.o \in {"add_subpages", "remove_subpages"} -> p = op.p /\ (op.a = AnySub \/ Between(s, op.a, op.b))
      [] op.o \in {"add_subpage", "remove_subpage"} -> p = op.p /\ (op.a = AnySub \/ s = op.a)
Adds(op) == op.o \in {"add_all_pages", "add_all_displayable_pages", "add_pages", "add_page", "add_subpages", "add_subpage"}

SetAlgebra == \A op \in Mutators :
    LET T2 == Eff(op, pt)
    IN IF ArgsOk(op)
       THEN \A p \in Pages, s \in Subs :
               Has(T2, p, s) <=> IF Adds(op) THEN Has(pt, p, s) \/ Names(op, p, s) ELSE Has(pt, p, s) /\ ~Names(op, p, s)
       ELSE T2 = pt /\ Ret(op, pt).ok = FALSE
(* add then contains, remove then does not contain - through the queries *)
AddThenContains == \A op \in Mutators : (ArgsOk(op) /\ Adds(op)) =>
    LET T2 == Eff(op, pt)
    IN \A p \in Pages, s \in Subs : Names(op, p, s) => QContainsSubpage(T2, p, s) /\ QContainsPage(T2, p)
RemoveThenNot == \A op \in Mutators : (ArgsOk(op) /\ ~Adds(op)) =>
    LET T2 == Eff(op, pt)
    IN \A p \in Pages, s \in Subs : Names(op, p, s) => ~QContainsSubpage(T2, p, s)
Idempotent == \A op \in Mutators : LET T2 == Eff(op, pt) IN Eff(op, T2) = T2
SwappedRange == \A op \in OpsAddPages \cup OpsRemovePages \cup OpsAddSubpages \cup OpsRemoveSubpages :
    Eff([op EXCEPT !.a = op.b, !.b = op.a], pt) = Eff(op, pt)
(* whole pages: added as a page -> all subpages, reported as such; cut -> not reported as such *)
AddsWholePage(op, p) ==            \* the call names page p as a whole
    CASE op.o \in {"add_subpages", "add_subpage"} -> op.a = AnySub /\ op.p = p
      [] OTHER -> Adds(op) /\ Names(op, p, 0)
WholePages == \A op \in Mutators : ArgsOk(op) =>
    LET T2 == Eff(op, pt)
    IN \A p \in Pages :
         /\ AddsWholePage(op, p) => QContainsAll(T2, p) = "T"
         /\ (~Adds(op) /\ \E s \in Subs : Names(op, p, s)) => QContainsAll(T2, p) = "F"
         /\ QContainsAll(T2, p) = "T" => QContainsAll(pt, p) = "T" \/ AddsWholePage(op, p)
         /\ (QContainsAll(T2, p) = "F") <=> (\E s \in Subs : ~Has(T2, p, s))

(* queries *)
QueriesAgree ==
    /\ \A p \in Pages : QContainsPage(pt, p) <=> \E s \in Subs : Has(pt, p, s)
    /\ \A p \in Pages : QContainsSubpage(pt, p, AnySub) <=> QContainsPage(pt, p)
    /\ \A m \in Pages \X Subs : QContainsSubpage(pt, m[1], m[2]) <=> m \in Members(pt)
    /\ \A p \in BadPages : ~QContainsPage(pt, p) /\ QContainsAll(pt, p) = "F" /\ \A s \in Subs \cup {AnySub} : ~QContainsSubpage(pt, p, s)
    /\ QNumPages(pt) = Cardinality({p \in Pages : \E s \in Subs : Has(pt, p, s)})

(* iteration: items are (page, ANY) for a page with all its subpages and (page, subpage) otherwise, ascending by
   page then subpage; next_subpage returns the least item above its argument; iterating from (0, ANY) enumerates
   exactly the table; next_page enumerates each page once and as many as num_pages counts *)
Items(T) == {<<p, AnySub>> : p \in {q \in Pages : \A s \in Subs : Has(T, q, s)}}
            \cup {m \in Members(T) : \E s \in Subs : ~Has(T, m[1], s)}
Less(a, b) == a[1] < b[1] \/ (a[1] = b[1] /\ a[2] < b[2])
LeastAbove(S, a) == LET c == {m \in S : Less(a, m)}
                    IN IF c = {} THEN <<>> ELSE CHOOSE m \in c : \A n \in c : m = n \/ Less(m, n)
AsItem(r) == IF r.ok THEN <<r.pg, r.sub>> ELSE <<>>
NextIsLeastAbove == \A op \in OpsNextSubpage : Defined(op, pt) =>
    AsItem(QNextSubpage(pt, op.p, op.a)) = LeastAbove(Items(pt), <<IF op.p < MinPg THEN MinPg - 1 ELSE op.p, op.a>>)
RECURSIVE EnumFrom(_, _, _)
EnumFrom(T, p, s) == LET r == QNextSubpage(T, p, s) IN IF r.ok THEN <<<<r.pg, r.sub>>>> \o EnumFrom(T, r.pg, r.sub) ELSE <<>>
RECURSIVE EnumPagesFrom(_, _)
EnumPagesFrom(T, p) == LET r == QNextPage(T, p) IN IF r.ok THEN <<r.pg>> \o EnumPagesFrom(T, r.pg) ELSE <<>>
IterationExact ==
    LET E == EnumFrom(pt, 0, AnySub)
        P == EnumPagesFrom(pt, 0)
    IN /\ \A i \in 1..(Len(E) - 1) : Less(E[i], E[i + 1])
       /\ {E[i] : i \in 1..Len(E)} = Items(pt)
       /\ \A i \in 1..(Len(P) - 1) : P[i] < P[i + 1]
       /\ {P[i] : i \in 1..Len(P)} = {p \in Pages : QContainsPage(pt, p)}
       /\ Len(P) = QNumPages(pt)
(* observable representation: cutting a whole page leaves exactly the rest as single subpages *)
CutSplits == \A op \in OpsRemoveSubpages \cup OpsRemoveSubpage : (ArgsOk(op) /\ op.a # AnySub /\ PtEl(op.p) \in pt.whole) =>
    LET E == EnumFrom(Eff(op, pt), op.p - 1, AnySub)
    IN {E[i][2] : i \in {j \in 1..Len(E) : E[j][1] = op.p}} = {s \in Subs : ~Between(s, op.a, IF op.o = "remove_subpage" THEN op.a ELSE op.b)}
=============================================================================
