\* caption / ITV line alphabet on field 1, all services enabled
CONSTANTS
  Mags = {} PageSet <- NoPages Rows = {} Cids = {} Flofs = {} SysPages = {} SpecialPages = {} DesyncPages = {} InertPages = {} HFlags = {}
  Nats = {} X26Dc = {} X26Good = {} ExtPk = {} ExtDc = {}
  NK = 0 KeyCls <- Cls0 KeyTyp <- Typ0 Bytes = {64} L = 2 ErrPairs = {}
  Carriers = {} Vals = {} WssWords = {}
  Fns = {0} Uds = {0} Types <- TypesAll Masks <- NoMasks
  CcChans = {1} CcKinds = {"RCL", "RU", "TR", "PAC", "CR", "MID", "TO", "BS"} CcRows = {0, 14} CcChars = {60}
  FetchPages = {} FetchSubs = {} FetchLv = {} FetchNav = {} SearchPages = {} Modules = {} Regions = {} Patterns = {} CcPages = {} Levels = {} RegionVals = {}
  ArbKinds = {} ProgOn = FALSE ProgN26 = {} ItvLens = {} DtSet = {"reg"} MaxLines = 4 MaxSteps = 7
SPECIFICATION SpecAll
VIEW mcview
CONSTRAINT Bounded
INVARIANTS TypeOK CursorOK ItvBound HandlersOK FrameOK
CHECK_DEADLOCK FALSE
