---------------------------- MODULE MC_DvbDemux ----------------------------
(* Model checking of DvbDemux (property C07).

   PartitionInvariance: for every stream of `Streams`, every receiver policy of `Policies` and every
   partition of the stream into feed calls (callback interface) or coroutine calls (max_lines from
   CorLines; a coroutine call may also stop in the middle of its buffer) the frames handed out after
   every call are those of the sequential reference for the bytes received so far.  TLC explores the
   graph of (bytes fed, receiver state); every path of it is one partition, all 2^(n-1) are covered.

   Recovery is a statement about the reference alone (PartitionInvariance carries it over to every
   partition): `RecStreams` are a damaged region followed by intact packets P1 P2 P3 P4 carrying the
   frames F1 .. F4; all but at most the first frame after the damage have to be delivered exactly as
   sent: F2 and F3 (F4 is completed only by a later packet).  RecMode selects what is asserted:
     "std"    policy "all" recovers on every stream; policy "err" recovers on every stream except
              those marked `quiet` (bytes were lost, the damaged packet swallows the head of P1 and
              its data units still parse without an error)
     "orig"   policy "none" on the not-quiet streams  (expected to fail: the defect repaired in /repo)
     "known"  policy "err" on the quiet streams       (expected to fail: the known finding)

   Continuity (transport stream): a stream of 21 transport packets (7 PES packets) whose counters begin at
   every value of CcStarts - so every counter value 0 .. 15 and the wrap 15 -> 0 occur at the start, in the
   middle and at the end of a PES packet -
     DupTransparent  sending any one packet twice (immediately, or with a packet of another PID between), and
                     inserting packets of other PIDs, null packets or adaptation-field-only packets of the own
                     PID anywhere changes nothing: the same frames are delivered (ISO 13818-1 2.4.3.3)
     LossBounded     losing any one packet costs at most the frames up to and including the first frame after
                     the damaged PES packet: all later frames are delivered as sent
   Capacity (MC_DvbDemux_cap.cfg, MaxLines = 3): frames of exactly MaxLines lines are ordinary frames (all
   frames delivered), frames of more data units (in one PES packet, or spread over two packets of the same
   frame, known and undefined line numbers) are damage: Recovery; all partitions, max_lines 1 .. MaxLines. *)
EXTENDS DvbDemux

CONSTANTS Streams, RecStreams, CorLines, Policies, RecMode,
          CcStarts     \* continuity counter values the streams of the continuity family begin with (subset of 0..15)
VARIABLES sid, mode, s
vars == <<sid, mode, s>>
ASSUME FreshFrameTakes       \* no data unit is "the first of a new frame" for the frame that was begun for it

X == Streams[sid].bytes

Init == /\ sid \in 1..Len(Streams) /\ mode \in ({0} \cup CorLines)
        /\ \E pol \in (IF Streams[sid].ts THEN {"all"} ELSE Policies) : s = S0(Streams[sid].ts, mode = 0, Streams[sid].pid, pol)

FeedCall == /\ mode = 0 /\ s.ce < Len(X)
            /\ \E n \in 1..(Len(X) - s.ce) : s' = Feed(X, s, n)
CorCall == /\ mode > 0
           /\ \/ s.ret /\ (s.rd < s.ce \/ ~s.ts) /\ s' = Cor(X, s, 0, mode)
              \/ (~s.ret \/ s.rd = s.ce) /\ s.ce < Len(X) /\ \E n \in 1..(Len(X) - s.ce) : s' = Cor(X, s, n, mode)
Next == (FeedCall \/ CorCall) /\ UNCHANGED <<sid, mode>>
Spec == Init /\ [][Next]_vars

\* what is delivered when the first k bytes arrive in one piece
Whole(st, k, pol) == IF st.ts THEN Feed(st.bytes, S0(TRUE, TRUE, st.pid, pol), k).d.out
                     ELSE Frames(st.bytes, k, pol)
PolIx == [none |-> 1, err |-> 2, all |-> 3]
PolOf == <<"none", "err", "all">>
RefTab == [i \in 1..Len(Streams) |-> [p \in 1..3 |->
             IF PolOf[p] \in Policies \/ (Streams[i].ts /\ p = 3)
             THEN [k \in 0..Len(Streams[i].bytes) |-> Whole(Streams[i], k, PolOf[p])] ELSE <<>>]]
Ref(k) == RefTab[sid][PolIx[s.d.pol]][k]

IsPrefix(a, b) == Len(a) <= Len(b) /\ SubSeq(b, 1, Len(a)) = a

PartitionInvariance ==
  /\ mode = 0 => s.d.out = Ref(s.ce)
  /\ mode > 0 /\ ~s.ret => s.d.out = CorView(Ref(s.ce), mode)
  /\ mode > 0 /\ s.ret => IsPrefix(s.d.out, CorView(Ref(s.ce), mode))
\* the PES receiver fed in one piece is the sequential reference too
OnePieceOK == \A i \in 1..Len(RecStreams) : \A pol \in Policies : ~RecStreams[i].ts =>
                Feed(RecStreams[i].bytes, S0(FALSE, TRUE, 0, pol), Len(RecStreams[i].bytes)).d.out
                  = Frames(RecStreams[i].bytes, Len(RecStreams[i].bytes), pol)
(* facts about the reference, not about the state: TLC evaluates an invariant in every distinct state, so they are
   asked for in the initial states of the first stream only *)
AtStart == s.ce = 0 /\ sid = 1 /\ mode = 0
OnePiece == AtStart => OnePieceOK
NoLookaheadOverrun == ~s.bad /\ s.rd <= s.ce /\ s.left <= s.rd /\ s.tn <= s.rd
Consumed == mode = 0 => s.rd = s.ce           \* a feed call uses up its buffer

Asserted(st, pol) == IF st.ts THEN pol = "all" /\ RecMode = "std"
                     ELSE CASE RecMode = "std" -> pol = "all" \/ (pol = "err" /\ ~st.quiet)
                            [] RecMode = "orig" -> pol = "none" /\ ~st.quiet
                            [] RecMode = "known" -> pol = "err" /\ st.quiet
                            [] OTHER -> FALSE
Recovers(st, pol) == IsSuffix(st.sent, Whole(st, Len(st.bytes), pol))
RecoveryOK == \A i \in 1..Len(RecStreams) : \A pol \in {"none", "err", "all"} :
                 Asserted(RecStreams[i], pol) => (Recovers(RecStreams[i], pol) \/ (PrintT(<<"no recovery", i, pol>>) /\ FALSE))
Recovery == AtStart => RecoveryOK
\* vacuity guard: the damaged streams do differ from the intact one, and something is asserted
RecoveryMeaningful == AtStart => /\ \E i \in 1..Len(RecStreams) : \E pol \in {"none", "err", "all"} : Asserted(RecStreams[i], pol)
                                 /\ \A i \in 2..Len(RecStreams) : RecStreams[i].ts = RecStreams[1].ts => RecStreams[i].bytes # RecStreams[1].bytes

-----------------------------------------------------------------------------
(* streams for the scaled layout HdlVal = 5, MinPL = 27, TtxN = 2, VpsN = 1, TSP = 11, HL = 17:
   a PES packet has 33 bytes (15 header bytes up to the data_identifier, 18 bytes of data units) *)
T(l, a, b) == [line |-> l, id |-> TTX, data |-> <<a, b>>]
V(a) == [line |-> 16, id |-> VPS, data |-> <<a>>]
W(a, b) == [line |-> 23, id |-> WSS625, data |-> <<a, b>>]
(* F1 .. F4, and F5 / F6 for the packet that gets damaged.  Consecutive frames are recognisable (the
   first line of a frame is not above the last line of its predecessor); F1 and F3 are not: when F2 is
   lost, F3 looks like a continuation of F1.  The same holds for F5/F6 and F2.                      *)
Fr == << <<T(7, 34, 35), V(77)>>, <<T(8, 36, 37), W(5, 6)>>, <<T(17, 38, 39), T(320, 40, 41)>>, <<T(8, 42, 43)>>,
         <<T(0, 50, 51), V(78)>>, <<T(7, 52, 53)>> >>
Pts(i) == <<i % 8, 1000 * i + 7>>
Pk(i) == EncPes(Fr[i], Pts(i), 153, 33)
\* as the receiver returns it: the two reserved bits behind the 14 WSS bits arrive as ones
Rx(l) == IF l.id = WSS625 THEN [l EXCEPT !.data = <<l.data[1], (l.data[2] % 64) + 192>>] ELSE l
Deliv(i) == [lines |-> [j \in 1..Len(Fr[i]) |-> Rx(Fr[i][j])], pts |-> Pts(i)]
Tail4 == Pk(1) \o Pk(2) \o Pk(3) \o Pk(4)
Tail2 == Pk(1) \o Pk(2)
Sent4 == <<Deliv(2), Deliv(3)>>
SetAt(q, i, v) == [q EXCEPT ![i + 1] = v]

\* [bytes, quiet]
PesDamage == <<
   [b |-> <<>>, q |-> FALSE],                                         \* 1 intact
   [b |-> <<9, 8, 0, 0, 1, 5, 9, 0, 0>>, q |-> FALSE],                \* 2 junk with a start code prefix of a low stream id, ending 00 00
   [b |-> SubSeq(Pk(5), 1, 20), q |-> FALSE],                         \* 3 truncated packet: a data unit crosses the claimed end
   [b |-> <<0, 0, 1, 224, 0, 3, 9, 9, 9>>, q |-> FALSE],              \* 4 packet of another stream
   [b |-> <<0, 0, 1, 189, 0, 2, 7, 7>>, q |-> FALSE],                 \* 5 VBI stream id, too short
   [b |-> SetAt(Pk(5), 8, 4), q |-> FALSE],                           \* 6 wrong PES_header_data_length
   [b |-> SetAt(Pk(5), 16, 200), q |-> FALSE],                        \* 7 first data unit crosses the packet end
   [b |-> SetAt(Pk(5), 7, 0), q |-> FALSE],                           \* 8 no PTS in the first packet of a frame
   [b |-> SubSeq(Pk(5), 1, 12) \o SubSeq(Pk(5), 14, 33), q |-> FALSE],            \* 9 one byte lost in the header
   [b |-> SubSeq(Pk(5), 1, 12) \o <<3>> \o SubSeq(Pk(5), 13, 33), q |-> FALSE],   \* 10 one byte inserted
   [b |-> Pk(5) \o <<0>>, q |-> FALSE],                               \* 11 stray byte between packets
   [b |-> SetAt(Pk(5), 17, 60), q |-> FALSE],                         \* 12 line_offset out of range in the first data unit
   [b |-> Pk(6) \o SetAt(Pk(5), 22, 0), q |-> FALSE],                 \* 13 intact packet, then a packet with a too short VPS unit behind a good line
   [b |-> SubSeq(Pk(6), 1, 32), q |-> TRUE],                          \* 14 last byte (stuffing) of a packet lost
   [b |-> SubSeq(Pk(6), 1, 29), q |-> TRUE] >>                        \* 15 last four bytes (stuffing) lost

PesStream(i, tail) == [ts |-> FALSE, pid |-> 0, bytes |-> PesDamage[i].b \o tail, sent |-> Sent4, quiet |-> PesDamage[i].q]

Ts(i, cc) == TsPackets(Pk(i), 291, cc, TRUE)            \* 3 packets each
Ts4(i, cc) == TsPackets(EncPes(Fr[i], Pts(i), 153, 44), 291, cc, TRUE)     \* the same frame in 4 packets
Ts5(i, cc) == TsPackets(EncPes(Fr[i], Pts(i), 153, 55), 291, cc, TRUE)     \* in 5 packets
TsTail4 == Ts(1, 5) \o Ts(2, 8) \o Ts(3, 11) \o Ts(4, 14)
TsTail2 == Ts(1, 5) \o Ts(2, 8)
Other == <<71, 0, 17, 16, 1, 2, 3, 4, 5, 6, 7, 8, 9, 10, 11>>      \* other PID
TsDamage == <<
   <<>>,
   Other,
   <<5, 6, 7>>,                                                    \* junk before the first packet
   SubSeq(Ts(5, 2), 1, 30),                                        \* last packet of a PES packet lost
   SubSeq(Ts(5, 2), 1, 15) \o SubSeq(Ts(5, 2), 31, 45),            \* middle packet lost (continuity)
   SubSeq(Ts(5, 2), 1, 30) \o SubSeq(Ts(5, 2), 16, 45),            \* packet repeated
   SubSeq(Ts(5, 2), 1, 20) \o <<1, 1>> \o SubSeq(Ts(5, 2), 21, 45),  \* two bytes inserted: sync lost
   SetAt(Ts(5, 2), 16, 128),                                       \* transport error indicator
   SetAt(Ts(5, 2), 16, 65),                                        \* unexpected payload unit start
   Ts(6, 15) \o SubSeq(Ts(5, 2), 1, 44),                           \* 10 intact packet, then one with its last byte lost
   SubSeq(Ts(6, 15), 1, 15) \o Ts(6, 15) \o Ts(5, 2),              \* 11 first packet of a PES packet, counter 15, sent twice (15 15 0 1 2 ..)
   SubSeq(Ts(6, 14), 1, 30) \o SubSeq(Ts(6, 14), 16, 45) \o Ts4(5, 1),   \* 12 middle packet, counter 15, sent twice (14 15 15 0 1 ..)
   SubSeq(Ts(6, 13), 1, 45) \o SubSeq(Ts(6, 13), 31, 45) \o Ts5(5, 0) >>   \* 13 last packet, counter 15, sent twice (13 14 15 15 0 ..)
TsStream(i, tail) == [ts |-> TRUE, pid |-> 291, bytes |-> TsDamage[i] \o tail, sent |-> Sent4, quiet |-> FALSE]

Sel(f(_, _), ix, tail) == [k \in 1..Len(ix) |-> f(ix[k], tail)]
AllPes == [i \in 1..Len(PesDamage) |-> i]
AllTs == [i \in 1..Len(TsDamage) |-> i]

RecAll == Sel(PesStream, AllPes, Tail4) \o Sel(TsStream, AllTs, TsTail4)
\* partitions: quick = three representative streams, thorough = every damage followed by two packets
StreamsQ == Sel(PesStream, <<3, 14>>, Tail2) \o Sel(TsStream, <<5, 12>>, TsTail2)
StreamsO == Sel(PesStream, <<3>>, Tail2)
StreamsT == Sel(PesStream, AllPes, Tail2) \o Sel(TsStream, AllTs, TsTail2)

-----------------------------------------------------------------------------
(* ---- continuity counter over its whole range ---- *)
CSeq == <<6, 1, 2, 3, 4, 6, 1>>                       \* consecutive frames are recognisable, also across one lost frame
NC == Len(CSeq)
CPts(j) == <<j % 8, 500 * j + 3>>
CPk(j) == EncPes(Fr[CSeq[j]], CPts(j), 153, 33)
CDeliv(j) == [lines |-> [i \in 1..Len(Fr[CSeq[j]]) |-> Rx(Fr[CSeq[j]][i])], pts |-> CPts(j)]
CPackets(cc0) == LET b == Cat([j \in 1..NC |-> TsPackets(CPk(j), 291, cc0 + 3 * (j - 1), TRUE)])
                 IN [k \in 1..(3 * NC) |-> SubSeq(b, TSL * (k - 1) + 1, TSL * k)]
NP == 3 * NC
PesOfPacket(k) == ((k - 1) \div 3) + 1
Null == <<71, 31, 255, 16>> \o [i \in 1..TSP |-> 255]                               \* null packet, PID 0x1FFF
AfOnly(cc) == <<71, 1, 35, 32 + (cc % 16)>> \o <<TSP - 1, 0>> \o [i \in 1..(TSP - 2) |-> 255]  \* own PID, adaptation field only:
                                                                                      \* the counter is that of the previous packet
WholeTs(b) == Feed(b, S0(TRUE, TRUE, 291, "all"), Len(b)).d.out
Ins(ps, k, x) == Cat(SubSeq(ps, 1, k - 1)) \o x \o Cat(SubSeq(ps, k, Len(ps)))       \* x in front of packet k
\* (tables: TLC evaluates a constant definition without parameters once)
CPTab == [c \in CcStarts |-> CPackets(c)]
BaseTab == [c \in CcStarts |-> WholeTs(Cat(CPTab[c]))]
BaseOut(cc0) == BaseTab[cc0]
DupTransparentOK ==
  \A cc0 \in CcStarts : LET ps == CPTab[cc0]  ref == BaseTab[cc0] IN
     /\ ref = [j \in 1..(NC - 1) |-> CDeliv(j)]                \* whatever the first counter value is
     /\ \A k \in 1..NP :
          /\ WholeTs(Ins(ps, k + 1, ps[k])) = ref \/ (PrintT(<<"duplicate packet changes the output", cc0, k>>) /\ FALSE)
          /\ WholeTs(Ins(ps, k + 1, Other \o ps[k])) = ref \/ (PrintT(<<"duplicate behind a foreign packet changes the output", cc0, k>>) /\ FALSE)
          \* three times is not allowed to a transmitter: the receiver may ignore the third packet too or take it for a loss
          /\ k <= 12 => \/ IsSuffix([i \in 1..(NC - 2 - PesOfPacket(k)) |-> CDeliv(PesOfPacket(k) + 1 + i)], WholeTs(Ins(ps, k + 1, ps[k] \o ps[k])))
                         \/ (PrintT(<<"packet sent three times costs more than the damaged and the next frame", cc0, k>>) /\ FALSE)
          /\ WholeTs(Ins(ps, k, Other)) = ref /\ WholeTs(Ins(ps, k, Null \o Other)) = ref
          /\ WholeTs(Ins(ps, k + 1, AfOnly(cc0 + k - 1))) = ref \/ (PrintT(<<"adaptation field only packet changes the output", cc0, k>>) /\ FALSE)
DupTransparent == AtStart => DupTransparentOK
(* packet k lost (k in the first four PES packets): the frames behind the first frame after the damaged PES packet *)
LossBoundedOK ==
  \A cc0 \in CcStarts : LET ps == CPTab[cc0] IN
     \A k \in 1..12 :
        LET j == PesOfPacket(k)
            out == WholeTs(Cat(SubSeq(ps, 1, k - 1)) \o Cat(SubSeq(ps, k + 1, NP)))
        IN \/ /\ IsSuffix([i \in 1..(NC - 2 - j) |-> CDeliv(j + 1 + i)], out)
              /\ out # BaseOut(cc0)                             \* and the loss is a loss
           \/ (PrintT(<<"lost packet costs more than the damaged and the next frame", cc0, k>>) /\ FALSE)
LossBounded == AtStart => LossBoundedOK

-----------------------------------------------------------------------------
(* ---- capacity of a frame (MaxLines = 3 in MC_DvbDemux_cap.cfg) ---- *)
CapFr == << <<T(7, 60, 61), T(0, 62, 63), T(0, 64, 65)>>,                               \* 1: exactly MaxLines, undefined lines
            <<T(7, 60, 61), T(9, 62, 63), T(320, 64, 65)>>,                             \* 2: exactly MaxLines, known lines
            <<T(7, 60, 61), T(0, 62, 63), T(0, 64, 65), T(0, 66, 67)>>,                 \* 3: one unit too many, undefined lines
            <<T(7, 60, 61), T(9, 62, 63), T(10, 64, 65), T(320, 66, 67), T(321, 68, 69)>>,   \* 4: two too many, known lines
            <<T(7, 60, 61), T(0, 62, 63)>>, <<T(0, 64, 65), T(0, 66, 67)>>,             \* 5 + 6: one frame in two packets, 4 units
            <<T(7, 60, 61), T(8, 62, 63)>>, <<T(9, 64, 65), T(10, 66, 67)>>,            \* 7 + 8: the same with known lines
            <<T(0, 66, 67)>> >>                                                          \* 9: behind 1: the frame goes on in a second packet
CapPts == <<6, 4242>>
CapPk(i) == EncPes(CapFr[i], CapPts, 153, 33)
CapDeliv(i) == [lines |-> CapFr[i], pts |-> CapPts]
Sent14 == <<Deliv(1), Deliv(2), Deliv(3)>>
\* [bytes, sent]: an exactly full frame is an ordinary frame - it and everything behind it is delivered
CapDamage == <<
   [b |-> CapPk(1), sent |-> <<CapDeliv(1)>> \o Sent14],
   [b |-> CapPk(2), sent |-> <<CapDeliv(2)>> \o Sent14],
   [b |-> Pk(6) \o CapPk(1), sent |-> <<Deliv(6), CapDeliv(1)>> \o Sent14],
   [b |-> CapPk(3), sent |-> Sent4],
   [b |-> CapPk(4), sent |-> Sent4],
   [b |-> CapPk(5) \o CapPk(6), sent |-> Sent4],
   [b |-> CapPk(7) \o CapPk(8), sent |-> Sent4],
   [b |-> CapPk(1) \o CapPk(9), sent |-> Sent4],
   [b |-> Pk(6) \o CapPk(3), sent |-> Sent4] >>
CapPes(i, tail) == [ts |-> FALSE, pid |-> 0, bytes |-> CapDamage[i].b \o tail, sent |-> CapDamage[i].sent, quiet |-> FALSE]
RECURSIVE TsOfPes(_, _)        \* a sequence of whole PES packets as transport packets, counters from cc
TsOfPes(b, cc) == IF b = <<>> THEN <<>>
                  ELSE LET n == PLen(b, 0) + 6 IN TsPackets(SubSeq(b, 1, n), 291, cc, TRUE) \o TsOfPes(SubSeq(b, n + 1, Len(b)), cc + (n \div TSP))
CapTs(i, tail) == [ts |-> TRUE, pid |-> 291, bytes |-> TsOfPes(CapDamage[i].b \o tail, 9), sent |-> CapDamage[i].sent, quiet |-> FALSE]
AllCap == [i \in 1..Len(CapDamage) |-> i]
RecCap == Sel(CapPes, AllCap, Tail4) \o Sel(CapTs, AllCap, Tail4)
StreamsNil == << [ts |-> TRUE, pid |-> 291, bytes |-> <<71>>, sent |-> <<>>, quiet |-> FALSE] >>   \* MC_DvbDemux_cont.cfg: the facts alone
\* quick: an exactly full frame / a frame with one unit too many in one packet / in two packets
StreamsCq == Sel(CapPes, <<1, 4, 6>>, Tail2) \o Sel(CapTs, <<1, 4>>, Tail2)
StreamsCt == Sel(CapPes, AllCap, Tail2) \o Sel(CapTs, AllCap, Tail2)
-----------------------------------------------------------------------------
(* ---- round 3: frames that begin with an undefined line; every residue of the packet length (MC_DvbDemux_und_*.cfg) ---- *)
U1(a, b) == T(0, a, b)                                               \* undefined line of the first field (lofp 0xE0)
U2(a, b) == [line |-> 0, id |-> TTX, data |-> <<a, b>>, f2 |-> TRUE]  \* of the second field (0xC0)
UFr == << <<T(7, 70, 71), T(12, 72, 73)>>,                    \* 1: ends in the first field
          <<T(7, 70, 71), T(330, 72, 73)>>,                   \* 2: ends in the second field
          <<U1(74, 75), T(9, 76, 77), T(321, 78, 79)>>,       \* 3: begins with an undefined line of the first field
          <<U2(74, 75), T(320, 76, 77), T(330, 78, 79)>>,     \* 4: ... of the second field
          <<U1(80, 81), U1(82, 83)>>, <<U2(84, 85)>>, <<U1(86, 87), T(9, 88, 89)>> >>     \* 5 6 7: undefined lines only, fields alternate
UPts(i) == <<(i + 3) % 8, 2000 * i + 9>>
UPk(i) == EncPes(UFr[i], UPts(i), 153, 33)
UD(i) == [lines |-> [j \in 1..Len(UFr[i]) |-> [line |-> UFr[i][j].line, id |-> TTX, data |-> UFr[i][j].data]], pts |-> UPts(i)]
(* [bytes, sent].  Field back / field up at the start of a packet (clause FieldUpStartsFrame) / first frame of the stream: every
   frame is delivered as sent.  Same field: the boundary is not recognisable, the frames behind the next one are asserted. *)
UndDamage == <<
   [b |-> UPk(3), sent |-> <<UD(3)>> \o Sent14],                                          \* 1 first frame of the stream, first field
   [b |-> UPk(4), sent |-> <<UD(4)>> \o Sent14],                                          \* 2 first frame, second field
   [b |-> UPk(1) \o UPk(4), sent |-> <<UD(1), UD(4)>> \o Sent14],                         \* 3 second frame, field goes up
   [b |-> UPk(2) \o UPk(3), sent |-> <<UD(2), UD(3)>> \o Sent14],                         \* 4 second frame, field goes back
   [b |-> Pk(6) \o UPk(1) \o UPk(4) \o UPk(3), sent |-> <<Deliv(6), UD(1), UD(4), UD(3)>> \o Sent14],   \* 5 later frames: up, then back
   [b |-> UPk(2) \o UPk(5) \o UPk(6) \o UPk(7), sent |-> <<UD(2), UD(5), UD(6), UD(7)>> \o Sent14],     \* 6 undefined lines only: back, up, back
   [b |-> UPk(1) \o UPk(3), sent |-> Sent4],                                              \* 7 same field (first): not recognisable
   [b |-> UPk(2) \o UPk(4), sent |-> Sent4] >>                                            \* 8 same field (second)
UndPes(i, tail) == [ts |-> FALSE, pid |-> 0, bytes |-> UndDamage[i].b \o tail, sent |-> UndDamage[i].sent, quiet |-> FALSE]
UndTs(i, tail) == [ts |-> TRUE, pid |-> 291, bytes |-> TsOfPes(UndDamage[i].b \o tail, 9), sent |-> UndDamage[i].sent, quiet |-> FALSE]
AllUnd == [i \in 1..Len(UndDamage) |-> i]
FieldUpNo == FALSE      \* MC_DvbDemux_und_fup.cfg: the other reading of the clause FieldUpStartsFrame (demonstration: Recovery fails on stream 3)
(* PES_packet_length of a 5 x TSP byte packet rewritten to claim k x TSP + r bytes, k = 3, 4, every residue r in 0 .. TSP - 1: the
   claimed end lies inside transport packet k, which goes on without payload_unit_start (EN 300 472 4.2 demands N x 184 - 6; the
   field passes every header test).  ResTs(j): j = (k - 3) * TSP + r + 1 *)
P55 == EncPes(Fr[5], Pts(5), 153, 5 * TSP)
WithLen(P, n) == SetAt(SetAt(P, 4, (n - 6) \div 256), 5, (n - 6) % 256)
ResK(j) == 3 + ((j - 1) \div TSP)
ResR(j) == (j - 1) % TSP
ResLen(j) == ResK(j) * TSP + ResR(j)
ResTs(j, tail) == [ts |-> TRUE, pid |-> 291, bytes |-> TsPackets(WithLen(P55, ResLen(j)), 291, 0, TRUE) \o tail, sent |-> Sent4, quiet |-> FALSE]
ResPes(j, tail) == [ts |-> FALSE, pid |-> 0, bytes |-> WithLen(P55, ResLen(j)) \o tail, sent |-> Sent4, quiet |-> FALSE]
AllRes == [j \in 1..(2 * TSP) |-> j]
RecUnd == Sel(UndPes, AllUnd, Tail4) \o Sel(UndTs, AllUnd, Tail4) \o Sel(ResTs, AllRes, TsTail4) \o Sel(ResPes, AllRes, Tail4)
\* quick: second frame begins with an undefined second field line (PES, TS), alternating (PES), residues 1 (k = 3) and TSP - 1 (k = 4) in a TS
StreamsUq == Sel(UndPes, <<3, 6>>, Tail2) \o Sel(UndTs, <<3>>, Tail2) \o Sel(ResTs, <<2, 2 * TSP>>, TsTail2)
StreamsUt == Sel(UndPes, AllUnd, Tail2) \o Sel(UndTs, AllUnd, Tail2) \o Sel(ResTs, AllRes, TsTail2) \o Sel(ResPes, <<2, 7, 13, 2 * TSP>>, Tail2)
=============================================================================
