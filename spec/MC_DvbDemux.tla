---------------------------- MODULE MC_DvbDemux ----------------------------
(* Model checking of DvbDemux: every partition of a stream into feed calls (callback interface) and
   into coroutine calls (max_lines from CorLines), for a set of streams made of a damaged region
   followed by intact packets.  Streams = tuple of [ts, pid, bytes, sent]: `sent` are the frames the
   intact tail carries, without the first and the last one (the last is completed only by a later
   packet).                                                                                       *)
EXTENDS DvbDemux

CONSTANTS Streams, CorLines
VARIABLES sid, mode, s
vars == <<sid, mode, s>>

X == Streams[sid].bytes

Init == /\ sid \in 1..Len(Streams) /\ mode \in ({0} \cup CorLines)
        /\ s = S0(Streams[sid].ts, mode = 0, Streams[sid].pid)

FeedCall == /\ mode = 0 /\ s.ce < Len(X)
            /\ \E n \in 1..(Len(X) - s.ce) : s' = Feed(X, s, n)
CorCall == /\ mode > 0
           /\ \/ s.ret /\ (s.rd < s.ce \/ ~s.ts) /\ s' = Cor(X, s, 0, mode)
              \/ (~s.ret \/ s.rd = s.ce) /\ s.ce < Len(X) /\ \E n \in 1..(Len(X) - s.ce) : s' = Cor(X, s, n, mode)
Next == (FeedCall \/ CorCall) /\ UNCHANGED <<sid, mode>>
Spec == Init /\ [][Next]_vars

\* what is delivered when the first k bytes arrive in one piece
Whole(i, k) == IF Streams[i].ts THEN Feed(Streams[i].bytes, S0(TRUE, TRUE, Streams[i].pid), k).d.out
               ELSE Frames(Streams[i].bytes, k)
RefTab == [i \in 1..Len(Streams) |-> [k \in 0..Len(Streams[i].bytes) |-> Whole(i, k)]]

IsPrefix(a, b) == Len(a) <= Len(b) /\ SubSeq(b, 1, Len(a)) = a

PartitionInvariance ==
  /\ mode = 0 => s.d.out = RefTab[sid][s.ce]
  /\ mode > 0 /\ ~s.ret => s.d.out = CorView(RefTab[sid][s.ce], mode)
  /\ mode > 0 /\ s.ret => IsPrefix(s.d.out, CorView(RefTab[sid][s.ce], mode))
\* the PES receiver fed in one piece is the sequential reference too
OnePiece == \A i \in 1..Len(Streams) : ~Streams[i].ts =>
              Feed(Streams[i].bytes, S0(FALSE, TRUE, 0), Len(Streams[i].bytes)).d.out = Frames(Streams[i].bytes, Len(Streams[i].bytes))
Recovery == s.ce = Len(X) /\ mode = 0 => IsSuffix(Streams[sid].sent, s.d.out)
\* weaker reading: a packet whose length field reaches into the following packet damages that one too
RecoveryClaimed == s.ce = Len(X) /\ mode = 0 => IsSuffix(Streams[sid].sentc, s.d.out)
NoLookaheadOverrun == ~s.bad /\ s.rd <= s.ce /\ s.left <= s.rd /\ s.tn <= s.rd
Consumed == mode = 0 => s.rd = s.ce           \* a feed call uses up its buffer

-----------------------------------------------------------------------------
(* streams for the scaled layout HdlVal = 5, MinPL = 27, TtxN = 2, VpsN = 1, TSP = 11, HL = 17 *)
T(l, a, b) == [line |-> l, id |-> TTX, data |-> <<a, b>>]
V(a) == [line |-> 16, id |-> VPS, data |-> <<a>>]
W(a, b) == [line |-> 23, id |-> WSS625, data |-> <<a, b>>]
Fr == << <<T(7, 34, 35), V(77)>>, <<T(7, 36, 37), W(5, 6)>>, <<T(9, 38, 39), T(320, 40, 41)>>, <<T(8, 42, 43)>>, <<T(0, 50, 51), V(78)>> >>
Pts(i) == <<i % 8, 1000 * i + 7>>
Pk(i) == EncPes(Fr[i], Pts(i), 153, 33)
\* as the receiver returns it: the two reserved bits behind the 14 WSS bits arrive as ones
Rx(l) == IF l.id = WSS625 THEN [l EXCEPT !.data = <<l.data[1], (l.data[2] % 64) + 192>>] ELSE l
Deliv(i) == [lines |-> [j \in 1..Len(Fr[i]) |-> Rx(Fr[i][j])], pts |-> Pts(i)]
Tail4 == Pk(1) \o Pk(2) \o Pk(3) \o Pk(4)
Sent4 == <<Deliv(2), Deliv(3)>>
SetAt(q, i, v) == [q EXCEPT ![i + 1] = v]

PesDamage == <<
   <<>>,                                           \* intact
   <<9, 8, 0, 0, 1, 5, 9, 0, 0>>,                  \* junk with a start code prefix of a low stream id, ending 00 00
   SubSeq(Pk(5), 1, 20),                           \* truncated packet
   <<0, 0, 1, 224, 0, 3, 9, 9, 9>>,                \* packet of another stream
   <<0, 0, 1, 189, 0, 2, 7, 7>>,                   \* VBI stream id, too short
   SetAt(Pk(5), 8, 4),                             \* wrong PES_header_data_length
   SetAt(Pk(5), 16, 200),                          \* first data unit crosses the packet end
   SetAt(Pk(5), 7, 0),                             \* no PTS in the first packet of a frame
   SubSeq(Pk(5), 1, 12) \o SubSeq(Pk(5), 14, 33),  \* one byte lost
   SubSeq(Pk(5), 1, 12) \o <<3>> \o SubSeq(Pk(5), 13, 33),   \* one byte inserted
   Pk(5) \o <<0>> >>                               \* stray byte between packets

Reaches == {3, 9}             \* damage whose PES_packet_length covers the head of the first intact packet
PesStreams == [i \in 1..Len(PesDamage) |-> [ts |-> FALSE, pid |-> 0, bytes |-> PesDamage[i] \o Tail4, sent |-> Sent4,
                                             sentc |-> IF i \in Reaches THEN <<Deliv(3)>> ELSE Sent4]]

Ts(i, cc) == TsPackets(Pk(i), 291, cc, TRUE)            \* 3 packets each
TsTail == Ts(1, 5) \o Ts(2, 8) \o Ts(3, 11) \o Ts(4, 14)
Other == <<71, 0, 17, 16, 1, 2, 3, 4, 5, 6, 7, 8, 9, 10, 11>>      \* other PID
TsDamage == <<
   <<>>,
   Other,
   <<5, 6, 7>>,                                                    \* junk before the first packet
   SubSeq(Ts(5, 2), 1, 30),                                        \* last packet of a PES packet lost
   SubSeq(Ts(5, 2), 1, 15) \o SubSeq(Ts(5, 2), 31, 45),            \* middle packet lost (continuity)
   SubSeq(Ts(5, 2), 1, 30) \o SubSeq(Ts(5, 2), 16, 45),            \* packet repeated
   SubSeq(Ts(5, 2), 1, 20) \o <<1, 1>> \o SubSeq(Ts(5, 2), 21, 45),  \* two bytes inserted: sync lost
   SetAt(Ts(5, 2), 16, 128),                                       \* transport error indicator
   SetAt(Ts(5, 2), 16, 65) >>                                      \* unexpected payload unit start
TsStreams == [i \in 1..Len(TsDamage) |-> [ts |-> TRUE, pid |-> 291, bytes |-> TsDamage[i] \o TsTail, sent |-> Sent4, sentc |-> Sent4]]

StreamsQ == SubSeq(PesStreams, 1, 4) \o SubSeq(TsStreams, 1, 3)
StreamsT == PesStreams \o TsStreams
=============================================================================
