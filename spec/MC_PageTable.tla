---------------------------- MODULE MC_PageTable ----------------------------
(* constants for the exhaustive runs of PageTable (negative numbers cannot be written in a .cfg).
   Scaled universes: pages 0x100..0x10F (BCD 100-109, hex 10A-10F) or 0x100..0x11F (+ BCD 110-119, hex 11A-11F),
   subpages 0..3, VBI_ANY_SUBNO = 4. *)
EXTENDS PageTable
PtsQ == {256, 266}                 \* 0x100 (first, BCD), 0x10A (hex); gaps 101-109 (BCD), 10B-10F (hex)
PtsT == {256, 266, 287}            \* + 0x11F (last, hex); gap 10B-11E holds BCD and hex pages
SubsQ == {0, 3}                    \* elements 0, 1-2, 3
SubsAll == 0..3                    \* every subpage number its own element
BadPgQ == {0, 272}
BadPgT == {0, 288}
BadSubQ == {0 - 1, 5}
=============================================================================
