CONSTANTS Prog <- TraceProg ResetLocking = "release" EventUnlock = TRUE HandlerFetch = TRUE
SPECIFICATION TSpec
INVARIANTS Clean HolderOK
POSTCONDITION TraceAccepted
CHECK_DEADLOCK FALSE
