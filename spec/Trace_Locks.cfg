CONSTANTS Prog <- TraceProg ResetLocking = "release" EventUnlock = TRUE HandlerFetch = TRUE Arm = 40 GapLocked = TRUE ResizeSameUnlocks = TRUE
SPECIFICATION TSpec
INVARIANTS Clean HolderOK
POSTCONDITION TraceAccepted
CHECK_DEADLOCK FALSE
