CONSTANTS Pgnos = {256} Subnos = {0, 1} Sizes = {2} Fns = {"lop"} NSlots = 1 NNSlots = 1
  MaxOps = 10 MaxPuts = 4 Limits = {100} NetLimit = 1 Policy = "impl" SkipCollected = TRUE ExactFirst = TRUE
  GetMasks = {65535} ClockVals = {} MaxNets = 2
SPECIFICATION Spec
CONSTRAINT Bounded
INVARIANTS TypeOK RefsAreHandles HeldAlive ListsOK WithinLimit NetsOK StatOK NoDupVictim UniqueKey
CHECK_DEADLOCK FALSE
