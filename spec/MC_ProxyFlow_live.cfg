CONSTANTS Clients = {1, 2} Services = {"a", "b"} Supported = {"a", "b"} Base = 1 S = 1 MaxFrames = 4 Threaded = FALSE
  LevelsUsed = {1} Discards = {FALSE} Faulty = {1}
  Prios = {2} FixTokenOwner = TRUE FixFlushClosed = TRUE FixRegrant = TRUE FixHdrLen = TRUE FixPartial = TRUE
  WSrv <- MCWSrv FullMatrix = FALSE
SPECIFICATION FSpecFair
PROPERTIES WitnessServed
CHECK_DEADLOCK FALSE
