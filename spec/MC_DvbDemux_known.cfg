CONSTANTS HdlVal = 5 MinPL = 27 TtxN = 2 VpsN = 1 TSP = 11 HL = 17 TSH = 10 MaxLines = 64
  Streams <- StreamsO RecStreams <- RecAll CorLines = {} Policies = {"err"} RecMode = "known" CcStarts = {}
SPECIFICATION Spec
INVARIANTS Recovery RecoveryMeaningful
CHECK_DEADLOCK FALSE
