------------------------------ MODULE MC_Locks ------------------------------
(* Thread programs for the exhaustive runs of Locks (sequences cannot be written in a .cfg). *)
EXTENDS Locks

O(n) == [op |-> n]
\* service decoder: a decoding thread, one or two fetching threads, a thread requesting a channel switch
CcQuick == ("dec" :> <<O("DecText"), O("DecNull"), O("DecText")>>) @@ ("fetch" :> <<O("Fetch"), O("Fetch")>>)
           @@ ("switch" :> <<O("Switch")>>)
CcXds   == ("dec" :> <<O("DecText"), O("DecXdsNet"), O("DecCmd")>>) @@ ("fetch" :> <<O("Fetch"), O("Fetch")>>)
           @@ ("switch" :> <<O("Switch")>>)
CcTtx   == ("dec" :> <<O("DecTtxSame"), O("DecTtxIncon"), O("DecTtxOther"), O("DecText")>>) @@ ("fetch" :> <<O("Fetch")>>)
           @@ ("switch" :> <<O("Switch"), O("Switch")>>)
CcFour  == ("dec" :> <<O("DecText"), O("DecXdsNet"), O("DecText")>>) @@ ("fetch" :> <<O("Fetch"), O("Fetch")>>)
           @@ ("fetch2" :> <<O("Fetch")>>) @@ ("switch" :> <<O("Switch"), O("Switch")>>)
CcLong  == ("dec" :> <<O("DecText"), O("DecTtxIncon"), O("DecXdsNet"), O("DecNull"), O("DecCmd"), O("DecTtxSame")>>)
           @@ ("fetch" :> <<O("Fetch"), O("Fetch"), O("Fetch")>>) @@ ("switch" :> <<O("Switch"), O("Switch")>>)
CcBig   == ("dec" :> <<O("DecText"), O("DecXdsNet"), O("DecCmd"), O("DecTtxSame")>>) @@ ("fetch" :> <<O("Fetch"), O("Fetch")>>)
           @@ ("fetch2" :> <<O("Fetch"), O("Fetch")>>) @@ ("switch" :> <<O("Switch"), O("Switch")>>)
\* time stamp gaps (dropped frames) in the decoding thread while a switch is requested
CcGap   == ("dec" :> <<O("DecGap"), O("DecText"), O("DecGap"), O("DecNull"), O("DecNull")>>) @@ ("fetch" :> <<O("Fetch")>>)
           @@ ("switch" :> <<O("Switch"), O("Switch")>>)

\* raw decoder: a decoding thread and threads changing / checking the services
A(s) == [op |-> "Add", s |-> s]
R(s) == [op |-> "Remove", s |-> s]
RdQuick == ("dec" :> <<O("RawDecode"), O("ResizeSame"), O("RawDecode")>>) @@ ("add" :> <<A({"ttx"}), O("AddNothing"), A({"vps"})>>)
           @@ ("rem" :> <<R({"ttx"}), R({"wss"})>>)
\* the decoding thread changes the geometry itself between two decodes (others add / remove / check meanwhile)
RdPaths == ("dec" :> <<O("RawDecode"), O("ResizeZero"), O("RawDecode"), O("Reset"), O("ResizeSame")>>) @@ ("add" :> <<A({"ttx"}), O("AddNothing")>>)
           @@ ("rem" :> <<R({"ttx"})>>) @@ ("chk" :> <<O("Check")>>)
RdBig   == ("dec" :> <<O("RawDecode"), O("RawDecode"), O("RawDecode")>>) @@ ("add" :> <<A({"ttx", "cc"}), R({"cc"}), A({"vps"})>>)
           @@ ("rem" :> <<R({"ttx"}), A({"ttx"}), R({"vps"})>>) @@ ("chk" :> <<O("Check"), O("Check")>>)
RdFour  == ("dec" :> <<O("RawDecode"), O("RawDecode"), O("RawDecode")>>) @@ ("add" :> <<A({"ttx", "cc"}), A({"vps"})>>)
           @@ ("rem" :> <<R({"ttx"}), R({"vps"})>>) @@ ("chk" :> <<O("Check"), O("Check")>>)
\* outside the documented usage: a geometry change concurrent with decoding
RdResize == ("dec" :> <<O("RawDecode"), O("RawDecode")>>) @@ ("add" :> <<A({"ttx"})>>) @@ ("rsz" :> <<O("Resize")>>)
=============================================================================
