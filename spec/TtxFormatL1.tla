---------------------------- MODULE TtxFormatL1 ----------------------------
(* Level 1 presentation of one Teletext row, written from EN 300 706 section 12.2 (spacing
   attributes, Table 26) and section 15 (character sets, Table 36 national option sub-sets).

   FormatRow(codes, nat) maps the 40 seven-bit codes of a row to 40 cells
   [u, fg, bg, fl, cn, sz]: character (ISO 10646 value as libzvbi documents it in format.h:
   G1 block mosaics are U+EE00 + code, contiguous form with bit 5 set, separated form with bit 5
   cleared), foreground and background colour 0..7, flash, conceal, size (0 normal, 2 double
   height).  LowerRow gives the row below a row that contains double height characters.

   Covered: alpha and mosaic colours, flash/steady, conceal, contiguous/separated mosaics,
   hold/release mosaics, black/new background, normal/double height, national option sub-sets
   English (0) and German (1).  Not covered (never generated): box codes, ESC, double width and
   double size (they are Level 1.5/2.5 features in the decoder).                              *)
EXTENDS Naturals, Sequences

\* Table 36: the 13 positions that depend on the national option sub-set
NatPos == <<35, 36, 64, 91, 92, 93, 94, 95, 96, 123, 124, 125, 126>>
English == <<163, 36, 64, 8592, 189, 8594, 8593, 35, 8212, 188, 8214, 190, 247>>
German  == <<35, 36, 167, 196, 214, 220, 94, 95, 176, 228, 246, 252, 223>>

G0(c, nat) ==
  LET idx == {i \in 1..13 : NatPos[i] = c} IN
  IF idx # {} THEN (IF nat = 1 THEN German ELSE English)[CHOOSE i \in idx : TRUE]
  ELSE IF c = 127 THEN 9632 ELSE c

IsMosaic(c) == (c >= 32 /\ c <= 63) \/ (c >= 96 /\ c <= 127)
Mosaic(c, sep) == IF sep THEN 60928 + c - 32 ELSE 60928 + c          \* 0xEE00

\* attribute state at the start of a row (12.2)
S0 == [fg |-> 7, bg |-> 0, mos |-> FALSE, sep |-> FALSE, fl |-> FALSE, cn |-> FALSE, dh |-> FALSE,
       hold |-> FALSE, held |-> 32]

\* effect of a spacing attribute that is Set-At (acts on its own cell already)
SetAt(s, c) ==
  IF c = 9 THEN [s EXCEPT !.fl = FALSE]                                   \* steady
  ELSE IF c = 12 THEN (IF s.dh THEN [s EXCEPT !.dh = FALSE, !.held = 32] ELSE s)   \* normal size
  ELSE IF c = 24 THEN [s EXCEPT !.cn = TRUE]                              \* conceal
  ELSE IF c = 25 THEN [s EXCEPT !.sep = FALSE]                            \* contiguous mosaics
  ELSE IF c = 26 THEN [s EXCEPT !.sep = TRUE]                             \* separated mosaics
  ELSE IF c = 28 THEN [s EXCEPT !.bg = 0]                                 \* black background
  ELSE IF c = 29 THEN [s EXCEPT !.bg = s.fg]                              \* new background
  ELSE IF c = 30 THEN [s EXCEPT !.hold = TRUE]                            \* hold mosaics
  ELSE s
\* effect of a Set-After attribute (acts from the next cell on)
SetAfter(s, c) ==
  IF c <= 7 THEN [s EXCEPT !.fg = c, !.cn = FALSE, !.mos = FALSE, !.held = IF s.mos THEN 32 ELSE s.held]
  ELSE IF c = 8 THEN [s EXCEPT !.fl = TRUE]
  ELSE IF c = 13 THEN (IF s.dh THEN s ELSE [s EXCEPT !.dh = TRUE, !.held = 32])
  ELSE IF c >= 16 /\ c <= 23 THEN [s EXCEPT !.fg = c - 16, !.cn = FALSE, !.mos = TRUE, !.held = IF s.mos THEN s.held ELSE 32]
  ELSE IF c = 31 THEN [s EXCEPT !.hold = FALSE]
  ELSE s

Cell(s, u) == [u |-> u, fg |-> s.fg, bg |-> s.bg, fl |-> s.fl, cn |-> s.cn, sz |-> IF s.dh THEN 2 ELSE 0]

RECURSIVE Fmt(_, _, _, _)
Fmt(codes, nat, i, s) ==
  IF i > Len(codes) THEN <<>>
  ELSE LET c == codes[i] IN
       IF c < 32
       THEN LET s1 == SetAt(s, c)
                shown == IF s1.hold /\ s1.mos THEN s1.held ELSE 32
            IN <<Cell(s1, shown)>> \o Fmt(codes, nat, i + 1, SetAfter(s1, c))
       ELSE IF s.mos /\ IsMosaic(c)
            THEN LET u == Mosaic(c, s.sep) IN <<Cell(s, u)>> \o Fmt(codes, nat, i + 1, [s EXCEPT !.held = u])
            ELSE <<Cell(s, G0(c, nat))>> \o Fmt(codes, nat, i + 1, s)

FormatRow(codes, nat) == Fmt(codes, nat, 1, S0)
HasDouble(codes, nat) == \E i \in 1..40 : FormatRow(codes, nat)[i].sz = 2
\* the row below: lower halves under double height characters, spaces elsewhere
LowerRow(codes, nat) == LET up == FormatRow(codes, nat) IN
                        [i \in 1..40 |-> IF up[i].sz = 2 THEN [up[i] EXCEPT !.sz = 6]
                                         ELSE [u |-> 32, fg |-> up[i].fg, bg |-> up[i].bg, fl |-> FALSE, cn |-> FALSE, sz |-> 0]]
=============================================================================
