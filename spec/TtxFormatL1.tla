---------------------------- MODULE TtxFormatL1 ----------------------------
(* Level 1 presentation of one Teletext row, written from EN 300 706 section 12.2 (spacing
   attributes, Table 26) and section 15 (character sets, Table 36 national option sub-sets).

   FormatRow(codes, nat) maps the 40 seven-bit codes of a row to 40 cells
   [u, fg, bg, fl, cn, sz, bx]: character (ISO 10646 value as libzvbi documents it in format.h:
   G1 block mosaics are U+EE00 + code, contiguous form with bit 5 set, separated form with bit 5
   cleared), foreground and background colour 0..7, flash, conceal, size and boxed.  Size as
   libzvbi's vbi_size names it: 0 normal, 1 double width, 2 double height, 3 double size, 4 the
   position covered by the right half of a double width / double size character, and in the row
   below (LowerRow): 6 lower half of a double height character, 7 lower left and 5 lower right part
   of a double size character.

   All 32 spacing attributes of Table 26:
     Set-At     09 steady, 0C normal size, 18 conceal, 19 contiguous mosaics, 1A separated mosaics,
                1C black background, 1D new background, 1E hold mosaics
     Set-After  00-07 alpha colour, 08 flash, 0A end box, 0B start box, 0D double height,
                0E double width, 0F double size, 10-17 mosaic colour, 1B ESC, 1F release mosaics
   A spacing attribute is displayed as a space, or - in mosaics mode with hold mosaics in force - as
   the held mosaic character: the most recent mosaic character (bit 5 set) of the row, in its
   original contiguous / separated form; the held character is reset to space at the start of the
   row, at a change of alphanumerics / mosaics mode (either way) and at a change of SIZE (normal,
   double height, double width, double size: any change, by a Set-At or a Set-After code).
   Start box / end box act when two of them are transmitted in succession, the box starts (ends)
   between the two.  ESC switches between the default and the second G0 set of packets X/28 or M/29;
   no such packet is transmitted here, both are the set the national option bits select.
   Double width / double size: the character occupies its own and the next position; the code
   transmitted for the covered position is not displayed but acts as attribute (so 0C in the covered
   position ends the double width) and a mosaic there still becomes the held character ("the most
   recent mosaics character ... on that row").  Double height and double size are not transmitted on
   rows 23 and 24 (12.2), the checks place such rows on rows 1..22 only; a size attribute in column 39
   governs nothing, and the transmitter returns to normal size before column 39 (a double width
   character has no room there).

   National option sub-sets English (0) and German (1). *)
EXTENDS Naturals, Sequences

\* Table 36: the 13 positions that depend on the national option sub-set
NatPos == <<35, 36, 64, 91, 92, 93, 94, 95, 96, 123, 124, 125, 126>>
English == <<163, 36, 64, 8592, 189, 8594, 8593, 35, 8212, 188, 8214, 190, 247>>
German  == <<35, 36, 167, 196, 214, 220, 94, 95, 176, 228, 246, 252, 223>>

G0(c, nat) ==
  LET idx == {i \in 1..13 : NatPos[i] = c} IN
  IF idx # {} THEN (IF nat = 1 THEN German ELSE English)[CHOOSE i \in idx : TRUE]
  ELSE IF c = 127 THEN 9632 ELSE c

IsMosaic(c) == (c >= 32 /\ c <= 63) \/ (c >= 96 /\ c <= 127)
Mosaic(c, sep) == IF sep THEN 60928 + c - 32 ELSE 60928 + c          \* 0xEE00

Normal == 0  DoubleWidth == 1  DoubleHeight == 2  DoubleSize == 3  OverTop == 4
OverBottom == 5  DoubleHeight2 == 6  DoubleSize2 == 7
Wide(sz) == sz \in {DoubleWidth, DoubleSize}
Tall(sz) == sz \in {DoubleHeight, DoubleSize}

\* attribute state at the start of a row (12.2)
S0 == [fg |-> 7, bg |-> 0, mos |-> FALSE, sep |-> FALSE, fl |-> FALSE, cn |-> FALSE, sz |-> Normal,
       hold |-> FALSE, held |-> 32, bx |-> FALSE]

\* a change of size resets the held mosaic character
Resize(s, sz) == IF s.sz = sz THEN s ELSE [s EXCEPT !.sz = sz, !.held = 32]

\* effect of a spacing attribute that is Set-At (acts on its own cell already)
SetAt(s, c) ==
  IF c = 9 THEN [s EXCEPT !.fl = FALSE]                                   \* steady
  ELSE IF c = 12 THEN Resize(s, Normal)                                   \* normal size
  ELSE IF c = 24 THEN [s EXCEPT !.cn = TRUE]                              \* conceal
  ELSE IF c = 25 THEN [s EXCEPT !.sep = FALSE]                            \* contiguous mosaics
  ELSE IF c = 26 THEN [s EXCEPT !.sep = TRUE]                             \* separated mosaics
  ELSE IF c = 28 THEN [s EXCEPT !.bg = 0]                                 \* black background
  ELSE IF c = 29 THEN [s EXCEPT !.bg = s.fg]                              \* new background
  ELSE IF c = 30 THEN [s EXCEPT !.hold = TRUE]                            \* hold mosaics
  ELSE s
\* effect of a Set-After attribute (acts from the next cell on); nxt = the code that follows (0 at the end of the row),
\* last = the attribute stands in column 39
SetAfter(s, c, nxt, last) ==
  IF c <= 7 THEN [s EXCEPT !.fg = c, !.cn = FALSE, !.mos = FALSE, !.held = IF s.mos THEN 32 ELSE s.held]
  ELSE IF c = 8 THEN [s EXCEPT !.fl = TRUE]
  ELSE IF c = 10 THEN (IF nxt = 10 THEN [s EXCEPT !.bx = FALSE] ELSE s)   \* end box
  ELSE IF c = 11 THEN (IF nxt = 11 THEN [s EXCEPT !.bx = TRUE] ELSE s)    \* start box
  ELSE IF c = 13 THEN Resize(s, DoubleHeight)
  ELSE IF c = 14 THEN (IF last THEN s ELSE Resize(s, DoubleWidth))
  ELSE IF c = 15 THEN (IF last THEN s ELSE Resize(s, DoubleSize))
  ELSE IF c >= 16 /\ c <= 23 THEN [s EXCEPT !.fg = c - 16, !.cn = FALSE, !.mos = TRUE, !.held = IF s.mos THEN s.held ELSE 32]
  ELSE IF c = 31 THEN [s EXCEPT !.hold = FALSE]
  ELSE s                                                                  \* 27 ESC: no second G0 set designated

Cell(s, u) == [u |-> u, fg |-> s.fg, bg |-> s.bg, fl |-> s.fl, cn |-> s.cn, sz |-> s.sz, bx |-> s.bx]

\* cov: this position is covered by the right half of the cell to its left (left)
RECURSIVE Fmt(_, _, _, _, _, _)
Fmt(codes, nat, i, s, cov, left) ==
  IF i > Len(codes) THEN <<>>
  ELSE LET c   == codes[i]
           nxt == IF i < Len(codes) THEN codes[i + 1] ELSE 0
           s1  == IF c < 32 THEN SetAt(s, c) ELSE s
           mch == c >= 32 /\ s1.mos /\ IsMosaic(c)
           u   == IF c < 32 THEN (IF s1.hold /\ s1.mos THEN s1.held ELSE 32)
                  ELSE IF mch THEN Mosaic(c, s1.sep) ELSE G0(c, nat)
           s2  == IF mch THEN [s1 EXCEPT !.held = u] ELSE s1
           own == Cell(s2, u)
           wide == ~cov /\ Wide(s2.sz) /\ i < Len(codes)
           cell == IF cov THEN [left EXCEPT !.sz = OverTop]
                   ELSE IF Wide(s2.sz) /\ ~wide THEN [own EXCEPT !.sz = Normal]     \* no room in the last column
                   ELSE own
           s3  == IF c < 32 THEN SetAfter(s2, c, nxt, i = Len(codes)) ELSE s2
       IN <<cell>> \o Fmt(codes, nat, i + 1, s3, wide, own)

FormatRow(codes, nat) == Fmt(codes, nat, 1, S0, FALSE, Cell(S0, 32))
\* (of a formatted row up) the row contains double height or double size characters: the row below is not displayed
TallIn(up) == \E i \in 1..Len(up) : Tall(up[i].sz)
\* the row contains any character or attribute space that is not of normal size
SizedIn(up) == \E i \in 1..Len(up) : up[i].sz # Normal
\* the row below: lower halves under double height / double size characters, spaces elsewhere
LowerOf(up) ==
  [i \in 1..Len(up) |-> IF up[i].sz = DoubleHeight THEN [up[i] EXCEPT !.sz = DoubleHeight2]
                        ELSE IF up[i].sz = DoubleSize THEN [up[i] EXCEPT !.sz = DoubleSize2]
                        ELSE IF up[i].sz = OverTop /\ i > 1 /\ up[i - 1].sz = DoubleSize THEN [up[i] EXCEPT !.sz = OverBottom]
                        ELSE [u |-> 32, fg |-> up[i].fg, bg |-> up[i].bg, fl |-> FALSE, cn |-> FALSE, sz |-> Normal, bx |-> up[i].bx]]
HasDouble(codes, nat) == TallIn(FormatRow(codes, nat))
HasSize(codes, nat) == SizedIn(FormatRow(codes, nat))
LowerRow(codes, nat) == LowerOf(FormatRow(codes, nat))
=============================================================================
