CONSTANTS Mags = {1} Pages <- PagesR Rows = {1, 24} Cids = {1, 2} Flofs = {1, 2} FaultKinds = {} MaxFaults = 0 MaxPk = 7
SPECIFICATION GSpec
VIEW rview
ACTION_CONSTRAINT RetxDump
CHECK_DEADLOCK FALSE
