------------------------------ MODULE ProxyFlow ------------------------------
(* Faulty client x frame flow: the proxy daemon's connection layer (ProxyConn, on top of ProxyToken) and its data
   path (ProxyQueue) as ONE state machine - the composition behind the sentence of C19 "partial messages followed
   by silence or disconnect at any byte ... it drops at most that connection, releases its resources and keeps
   delivering complete, correct data to all other clients".

   Both modules are instantiated over the union of their variables; every step of the daemon is a joint step:

     what happens (daemon/proxyd.c)                      ProxyConn                        ProxyQueue
     connection accepted                                 CAccept                          Accept
     CONNECT_REQ taken                                   MConnect                         Connect
     CONNECT_REQ refused (no service can be granted)     MConnectRej                      ConnectRej
     SERVICE_REQ taken                                   MServiceReq                      ServiceReq
     token request, notify, ioctl, suspend, reclaim cnf  MTokenReq .. MReclaimCnf         Other
     k of the 8 header bytes / header + part of body     PartialHdr / HdrLegal            Partial
     illegal length, refused message, wrong state,       HdrIllegal, BadMsg, WrongState,  Disconnect
       close request, pid request, end of file             MCloseReq, MPidReq, Disconnect
     reply written, indications, scheduler timer         WriteDone, CSendGrant, ...       (nothing)
     frame captured                                      (nothing)                        Tick | Fetch, Capture
     frame forwarded to c (connection idle both ways)    Idle(c)                          Send
     client reads a frame                                (nothing)                        Read

   A client in `Faulty` may do all of that in any order and stop anywhere; the others (the witnesses) connect with
   their service set WSrv[c] and read what they get.  The daemon forwards frames to a connection only while it is idle
   (no message received in part, no reply pending): a client that stops in the middle of a message accumulates the
   frames captured from then on in the queue, and when the buffers are used up the oldest one is taken away from it
   (ProxyQueue!TakeBuffer) - the witnesses must not notice.

   Properties: the invariants and action properties of both modules (ProxyQueue: Delivery, InOrder, Filtered,
   RefCount, CursorOK, CanCapture, OnlyBlockedLose, OthersKept; ProxyConn: NoCrash, StillAccepts, Released, ListOK,
   OnlyOwnSteps) on the joint behaviours, plus
     Coupled          the two layers agree on connection state, read phase, "has services", device open
     ReleasedAll      a dropped connection holds no cursor (hence, by RefCount, no buffer reference), no socket
                      content, no dues, no subscription
     WitnessLosesNothing  a witness never loses a frame while it reads what it gets
     WitnessServed    (liveness, fair daemon and witness) every frame owed to a witness is eventually read by it *)
EXTENDS Naturals, Sequences, FiniteSets, TLC

CONSTANTS Clients, Services, Supported, Base, S, MaxFrames, Threaded, LevelsUsed, Discards, Faulty,   \* ProxyQueue
          Prios, FixTokenOwner, FixFlushClosed, FixRegrant, FixHdrLen, FixPartial,                    \* ProxyConn
          WSrv,               \* [Clients -> SUBSET Services]: what a witness subscribes to
          FullMatrix          \* token and notify requests too (they leave the data path alone)

VARIABLES conn, req, granted, open, devsrv, queue, nfree, cur, frame, sock, tmp, rdp, owed,           \* ProxyQueue
          order, cst, prio, valid, tok, svc, nsi, holders, up, rd, wr,                                      \* ProxyConn
          actor               \* ghost: the client that caused the last step (0: the daemon, the capture clock, a reader)

Q == INSTANCE ProxyQueue
C == INSTANCE ProxyConn

qvars == <<conn, req, granted, open, devsrv, queue, nfree, cur, frame, sock, tmp, rdp, owed>>
cvars == <<order, cst, prio, valid, tok, svc, nsi, holders, up, rd, wr>>
fview == <<qvars, cvars>>             \* VIEW: the ghost is not part of the state
fvars == <<qvars, cvars, actor>>

FInit == Q!Init /\ C!CInit /\ actor = 0

---------------------------------------------------------------------------
(* client steps *)

FAccept(c) == Q!Accept(c) /\ C!CAccept(c)
FConnect(c, sv, l) == Q!Connect(c, sv, l) /\ C!MConnect(c, granted'[c] # {}, FALSE)
\* services requested of which the device supports none: CONNECT_REJ, connection closed
FConnectRej(c) == Q!ConnectRej(c) /\ C!MConnectRej(c)
FServiceReq(c, sv, l, rs, dc) == Q!ServiceReq(c, sv, l, rs, dc) /\ C!MServiceReq(c, granted'[c] # {})
\* (the token layer is ProxyToken's business: one representative per kind of message is enough here - answered in
\* every state, answered in FORWARD only, taken without an answer; FullMatrix adds the token and notify requests)
FOther(c) == /\ Q!Other(c)
             /\ \/ C!MSuspend(c) \/ C!MIoctl(c) \/ C!MReclaimCnf(c)
                \/ FullMatrix /\ \E p \in Prios, v \in BOOLEAN : C!MTokenReq(c, p, v)
                \/ FullMatrix /\ \E F \in SUBSET C!Flags : C!MNotify(c, F)
FPartial(c) == Q!Partial(c) /\ (C!PartialHdr(c) \/ C!HdrLegal(c))
\* every way a connection ends is ProxyConn!Drop(c) - HdrIllegal, BadMsg, WrongState, MCloseReq, MPidReq under the
\* precondition that the daemon reads from c, Disconnect (end of file, write error) at any time: one joint step
FDrop(c) == Q!Disconnect(c) /\ C!Disconnect(c)

FaultyStep(c) ==
  /\ actor' = c
  /\ \/ FAccept(c) \/ FConnectRej(c) \/ FOther(c) \/ FPartial(c) \/ FDrop(c)
     \/ \E sv \in SUBSET Services, l \in LevelsUsed : FConnect(c, sv, l)
     \/ \E sv \in SUBSET Services, l \in LevelsUsed, rs \in BOOLEAN, dc \in Discards : FServiceReq(c, sv, l, rs, dc)
WitnessStep(c) == actor' = c /\ (FAccept(c) \/ \E l \in LevelsUsed : FConnect(c, WSrv[c], l))

---------------------------------------------------------------------------
(* daemon, capture clock, readers *)

\* a frame is forwarded only while the connection is idle in both directions (vbi_proxy_msg_is_idle)
FSend(c) == Q!Send(c) /\ C!Idle(c) /\ up /\ UNCHANGED cvars
FRead(c) == Q!Read(c) /\ UNCHANGED cvars
\* the main loop takes the next frame when it has nothing else to do: every reply written, everybody served
Settled == \A c \in Clients : ~wr[c]
FTick == Q!Tick(Q!BlockedNow, TRUE) /\ Settled /\ up /\ UNCHANGED cvars
FFetch == Q!Fetch /\ up /\ UNCHANGED cvars
FCapture == Q!Capture(FALSE) /\ up /\ UNCHANGED cvars
FDaemon(c) == (C!WriteDone(c) \/ C!CSendReclaim(c) \/ C!CSendGrant(c)) /\ UNCHANGED qvars

FNext == \/ \E c \in Faulty : FaultyStep(c)
         \/ \E c \in Clients \ Faulty : WitnessStep(c)
         \/ /\ actor' = 0
            /\ \/ \E c \in Clients : FSend(c) \/ FRead(c) \/ FDaemon(c)
               \/ FTick \/ FFetch \/ FCapture
               \/ C!CTimer /\ UNCHANGED qvars

D(A) == actor' = 0 /\ A
Fair == \A c \in Clients \ Faulty : WF_fvars(D(FSend(c))) /\ WF_fvars(D(FRead(c))) /\ WF_fvars(D(FDaemon(c)))
FSpec == FInit /\ [][FNext]_fvars
FSpecFair == FSpec /\ Fair

---------------------------------------------------------------------------
(* properties of the composition *)

\* the properties of the two layers, on the joint behaviours (a .cfg cannot name Q!X)
QTypeOK == Q!TypeOK          QRefCount == Q!RefCount      QCursorOK == Q!CursorOK    QQueueOrder == Q!QueueOrder
QBuffers == Q!Buffers        QDelivery == Q!Delivery      QInOrder == Q!InOrder      QDeviceOpen == Q!DeviceOpen
QCanCapture == Q!CanCapture  QFiltered == Q!Filtered      QLossOnlyWhenFull == Q!LossOnlyWhenFull
QOnlyBlockedLose == Q!OnlyBlockedLose                     QOthersKept == Q!OthersKept
CTypeOK == C!CTypeOK         CNoCrash == C!NoCrash        CSingleOwner == C!SingleOwner
CReleased == C!Released      CListOK == C!ListOK          CStillAccepts == C!StillAccepts
COnlyOwnSteps == C!OnlyOwnSteps

Coupled == /\ \A c \in Clients : /\ conn[c] = cst[c]
                                 /\ rdp[c] <=> (rd[c] # "idle")
                                 /\ svc[c] <=> (granted[c] # {})
           /\ open <=> C!DevOpen

ReleasedAll == \A c \in Clients : cst[c] = "none" =>
                  /\ cur[c] = 0 /\ sock[c] = <<>> /\ owed[c] = <<>> /\ ~rdp[c]
                  /\ granted[c] = {} /\ req[c] = Q!NoReq

\* C19, first sentence, for the whole daemon: a step caused by client c - any message, a part of one, a refused one,
\* a disconnect at any byte - leaves the daemon up and, for every other client d, leaves alone: its connection, its
\* place in the list, its subscription, its I/O phases, what it has received, what is queued for it, what it is owed
KeptFor(d) == /\ cst'[d] = cst[d] /\ svc'[d] = svc[d] /\ rd'[d] = rd[d] /\ wr'[d] = wr[d]
              /\ (d \in C!Range(order) <=> d \in C!Range(order'))
              /\ conn'[d] = conn[d] /\ granted'[d] = granted[d] /\ req'[d] = req[d] /\ rdp'[d] = rdp[d]
              /\ sock'[d] = sock[d] /\ owed'[d] = owed[d]
              /\ Q!Ids(Q!QueuedFor(queue', cur', d)) = Q!Ids(Q!QueuedFor(queue, cur, d))
FaultIsolated == [][actor' # 0 => (up' /\ \A d \in Clients \ {actor'} : KeptFor(d))]_fvars
\* ... and it costs at most its own connection: the daemon goes on capturing (CanCapture) and accepting (CStillAccepts)

\* a witness whose socket has room never loses a frame, whatever the faulty clients do or leave undone
WitnessLosesNothing == [][\A w \in Clients \ Faulty : Q!Lost(w) => (Threaded \/ Q!Blocked(w))]_fvars

\* every frame owed to a witness is read by it in the end (fair daemon, fair witness)
WitnessServed == \A w \in Clients \ Faulty : []<>(owed[w] = <<>>)

\* state constraint for the larger configurations: the witnesses connect first, in the order of their numbers (they
\* never leave), then the faulty clients start (the interleavings of the setup are covered by the smaller ones)
SetupFirst == /\ (\E c \in Faulty : cst[c] # "none") => \A w \in Clients \ Faulty : cst[w] = "fwd"
              /\ \A v, w \in Clients \ Faulty : (v < w /\ cst[w] # "none") => cst[v] = "fwd"

\* reachability companions (must be violated)
NeverStuckWithFrames == \A c \in Clients : rdp[c] => cur[c] = 0
\* a client in the middle of a message never has a frame taken away (violated: the bounds reach the force-free
\* of a stuck client, so CanCapture and WitnessLosesNothing are not vacuous there)
NeverStuckLoses == Q!NeverStuckLoses
=============================================================================
