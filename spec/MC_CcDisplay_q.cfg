CONSTANTS Chans = {1, 3} Rows = {0, 14} Chars = {65, 32} MaxPairs = 4
SPECIFICATION Spec
CONSTRAINT Bounded
INVARIANTS CursorOK WindowOK
PROPERTIES PopOnStable
CHECK_DEADLOCK FALSE
