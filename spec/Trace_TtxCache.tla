--------------------------- MODULE Trace_TtxCache ---------------------------
(* Trace validation for TtxCache: harness/drv_cache.c performs operations on a real vbi_cache and
   logs, after each, the complete projection of the cache read through cache-priv.h.  The choices
   the specification leaves open (which unreferenced pages were evicted, which networks dropped)
   are read off the log; everything else - results, keys, zombies, list membership and order, all
   counters and statistics - must be exactly what the specification computes. *)
EXTENDS TtxCache, Json, IOUtils

Log == ndJsonDeserialize(IOEnv.TRACEFILE)
VARIABLE l
tvars == <<vars, l>>
Ev == Log[l]

LoggedIds  == {Ev.pages[k].id : k \in 1..Len(Ev.pages)}
LoggedNets == {Ev.nets[k].n : k \in 1..Len(Ev.nets)}
LNet(n)    == Ev.nets[CHOOSE k \in 1..Len(Ev.nets) : Ev.nets[k].n = n]
\* networks that disappeared, or turned into zombies, in this step
DroppedNets == {n \in Nets : n \notin LoggedNets \/ (LNet(n).z /\ ~net[n].zombie)}
VanishedIds == Ids \ LoggedIds

PageRec(p) == [net |-> p.net, pgno |-> p.pgno, subno |-> p.subno, size |-> p.size, prio |-> p.prio,
               ref |-> p.ref, zombie |-> p.z]

Observed ==
  /\ res' = Ev.res
  /\ DOMAIN pg' = LoggedIds /\ Len(Ev.pages) = Cardinality(LoggedIds)
  /\ \A k \in 1..Len(Ev.pages) :
        LET p == Ev.pages[k] IN
        \* a zombie has lost its priority class in the code; everything else must agree
        IF p.z THEN [pg'[p.id] EXCEPT !.prio = 0] = PageRec(p) ELSE pg'[p.id] = PageRec(p)
  /\ plist' = Ev.plist
  /\ Range(Ev.rlist) = {i \in DOMAIN pg' : pg'[i].ref > 0} /\ Len(Ev.rlist) = Cardinality(Range(Ev.rlist))
  /\ \A c \in 1..Len(Ev.chains) : Ev.chains[c] = SelectSeq(mru', LAMBDA x : x \in Range(Ev.chains[c]))
  /\ UNION {Range(Ev.chains[c]) : c \in 1..Len(Ev.chains)} = Range(mru')
  /\ Ev.ctr.ncp = Cardinality(DOMAIN pg') /\ Ev.ctr.mem = MemUsed' /\ Ev.ctr.limit = limit'
  /\ Ev.ctr.ncn = NCachedNets'
  /\ DOMAIN net' = LoggedNets /\ Len(Ev.nets) = Cardinality(LoggedNets)
  /\ \A k \in 1..Len(Ev.nets) :
        LET x == Ev.nets[k] IN
        /\ net'[x.n] = [ref |-> x.ref, zombie |-> x.z]
        \* (no priming of an expression that mentions Ev: l' would select the next log line)
        /\ x.ncp = Cardinality({i \in DOMAIN pg' : pg'[i].net = x.n})
        /\ x.nrp = Cardinality({i \in DOMAIN pg' : pg'[i].net = x.n /\ pg'[i].ref > 0})
  /\ nmru' = [k \in 1..Len(Ev.nets) |-> Ev.nets[k].n]
  /\ \A k \in 1..Len(Ev.stat) :
        LET x == Ev.stat[k] IN
        <<x[1], x[2]>> \in DOMAIN stat' /\
        stat'[<<x[1], x[2]>>] = [nsub |-> x[3], maxsub |-> x[4], smin |-> x[5], smax |-> x[6], clock |-> x[7]]
  /\ \A s \in 1..NSlots : slot'[s] = Ev.slot[s]
  /\ \A t \in 1..NNSlots : nslot'[t] = Ev.nslot[t]
  /\ Ev.held_ok

TReset == /\ Ev.a = "Reset"
          /\ pg' = <<>> /\ mru' = <<>> /\ plist' = <<>> /\ net' = <<>> /\ nmru' = <<>> /\ stat' = <<>>
          /\ slot' = [s \in 1..NSlots |-> None] /\ nslot' = [t \in 1..NNSlots |-> None]
          /\ nextid' = 1 /\ nextnet' = 1 /\ limit' = Ev.limit
          /\ res' = None /\ nops' = 0 /\ nputs' = 0 /\ dupvictim' = FALSE /\ lastAct' = [a |-> "init"]

\* teardown: every handle released, cache deleted (LeakSanitizer watches the real process)
TDelete == /\ Ev.a = "Delete" /\ Ev.deleted
           /\ pg' = <<>> /\ mru' = <<>> /\ plist' = <<>> /\ net' = <<>> /\ nmru' = <<>> /\ stat' = <<>>
           /\ slot' = [s \in 1..NSlots |-> None] /\ nslot' = [t \in 1..NNSlots |-> None]
           /\ UNCHANGED <<nextid, nextnet, limit, nops, nputs, dupvictim>>
           /\ res' = None /\ lastAct' = [a |-> "Delete"]

TNext == /\ l <= Len(Log) /\ l' = l + 1
         /\ \/ TReset
            \/ TDelete
            \/ Ev.a = "AddNet" /\ AddNet(Ev.t, DroppedNets) /\ Observed
            \/ Ev.a = "NetUnref" /\ NetUnref(Ev.t, DroppedNets) /\ Observed
            \/ Ev.a = "Put" /\ Put(Ev.t, Ev.pgno, Ev.subno, Ev.fn, Ev.size, Ev.s, VanishedIds) /\ Observed
            \/ Ev.a = "Get" /\ Get(Ev.t, Ev.pgno, Ev.subno, Ev.m, Ev.s) /\ Observed
            \/ Ev.a = "Ref" /\ Ref(Ev.s, Ev.s2) /\ Observed
            \/ Ev.a = "Unref" /\ UnrefPage(Ev.s, VanishedIds) /\ Observed
            \/ Ev.a = "SetClock" /\ SetClock(Ev.t, Ev.pgno, Ev.c) /\ Observed

TInit == Init /\ l = 1
TSpec == TInit /\ [][TNext]_tvars

TraceAccepted == LET n == TLCGet("stats").diameter - 1 IN
                 IF n = Len(Log) THEN TRUE
                 ELSE PrintT(<<"TV-REJECT", n + 1, Len(Log)>>) /\ FALSE
=============================================================================
