---------------------------- MODULE SlicedFilter ----------------------------
(* vbi_sliced_filter (src/sliced_filter.c, sliced_filter.h): keeps / drops the sliced lines of a frame by data service
   and Teletext packets by the page they belong to.  On top of PageTable: the variable pt is the filter's table of
   wanted Teletext (page, subpage) numbers.

   Written from the comments of the source and the page / magazine rules of EN 300 706 (9.3.1, 9.3.1.3):
     * a page starts with its header packet X/0 and consists of the packets X/1 .. X/29 of the same magazine which
       follow; it ends with the next header of its magazine, in magazine serial mode (C11) with the next header of
       any magazine.  There is no end mark, so a decoder shows a page when the header which ends it arrives;
     * packets X/30, X/31 (broadcast service data, independent data lines) and time filling headers (page number FF)
       belong to no page;
     * C11 is a property of the service, the same in all headers (variable serial).
   What the filter keeps:
     * a line of a service in the keep set: always (Teletext as a whole is service "ttx");
     * else a Teletext packet: iff it belongs to a wanted page - wanted is decided when the header arrives: a page with
       a BCD number iff (page, subcode) is in the table, any other ("system") page iff keep_ttx_system_pages;
     * the header which ends a wanted page is kept too (it is the end mark), and so is the very first header after
       new / reset (its timestamp matters for subtitle timing);
     * nothing else; the kept lines are copied unchanged and in order; at most max_lines_out of them.
   The stream state is coded as in the implementation, one flag per magazine (keep) and the start flag; the property
   Faithful compares every decision with the rules above evaluated on the history of lines since the last reset.

   Not determined by the sources and therefore not generated: packets of a magazine after a time filling header /
   after a serial mode header of another magazine before its next header (keep = "u", "p"; the time filling header is
   dropped, so a kept page it ends still gets the next header as its end mark); feeding after the Teletext
   service was switched between "whole service" and "by page", or after an output overflow, without a reset (stale). *)
EXTENDS PageTable

CONSTANTS HdrPages,      \* page numbers carried by headers (magazine = hundreds digit, 8 is transmitted as 0)
          HdrSubs,       \* subcodes carried by headers
          RowNums,       \* packet numbers 1..29 used for the packets of a page
          Services,      \* other data services, e.g. {"vps", "cc", "wss"}
          BulkServices,  \* services sent in bulk
          BulkN,         \* a "bulk" line stands for BulkN consecutive lines of one service (frames larger than 50 lines)
          MaxLines,      \* lines per frame
          MaxHist,       \* lines between two resets
          MaxConf,       \* configuration calls per behaviour
          MaxFrames

Mag(pg) == pg \div 256
Mags == {Mag(p) : p \in HdrPages}
AllSvc == Services \cup {"ttx"}

VARIABLES svc,      \* keep set of services
          sys,      \* keep_ttx_system_pages
          serial,   \* magazine serial mode of the stream
          keep,     \* [Mags -> {"k", "d", "u", "p"}]: packets of the page in progress are kept / dropped / undetermined;
                    \* "p": undetermined, and a kept page still waits for its end mark in the output
          start,    \* no page header since new / reset
          hist,     \* lines processed since the last reset: [l, w, kept]; w: wanted (header) / service kept (others)
          frame,    \* the lines of the frame being put together
          out,      \* indices into frame of the lines kept so far
          failAt,   \* 0, or the index of the line on which filtering failed (Hamming error)
          stale,    \* a reset is needed before the next frame
          res,      \* result of the last call
          nconf, nframes
fvars == <<pt, svc, sys, serial, keep, start, hist, frame, out, failAt, stale, res, nconf, nframes>>

Line(k, m, a, b, s) == [k |-> k, m |-> m, a |-> a, b |-> b, s |-> s]     \* a, b numbers; s a name
Hdrs == {Line("hdr", Mag(p), p, s, "") : p \in HdrPages, s \in HdrSubs}
Rows == {Line("row", m, y, 0, "") : m \in Mags, y \in RowNums}
Fills == {Line("fill", m, 0, 0, "") : m \in Mags}
Bsds == {Line("bsd", 8, 30, 0, ""), Line("bsd", SMin(Mags), 31, 0, "")}         \* 8/30 and an independent data line
Svcs == {Line("svc", 0, 0, 1, s) : s \in Services} \cup {Line("svc", 0, 0, BulkN, s) : s \in BulkServices}
Bads == {Line("bad", 0, 0, 0, w) : w \in {"addr", "page", "flags"}}        \* uncorrectable Hamming error in that field
Lines == Hdrs \cup Rows \cup Fills \cup Bsds \cup Svcs \cup Bads
IsTtx(l) == l.k # "svc"
Count(l) == IF l.k = "svc" THEN l.b ELSE 1                             \* sliced lines a model line stands for

Wanted(T, y, l) == IF IsBcd(l.a) THEN QContainsSubpage(T, l.a, l.b) ELSE y
InitKeep == [m \in Mags |-> "d"]           \* no page in progress: packets belong to no page
NoRes == [call |-> "none"]

FInit == /\ pt = Empty /\ svc = {} /\ sys = FALSE /\ serial \in BOOLEAN
         /\ keep = InitKeep /\ start = TRUE /\ hist = <<>>
         /\ frame = <<>> /\ out = <<>> /\ failAt = 0 /\ stale = FALSE /\ res = NoRes /\ nconf = 0 /\ nframes = 0

---------------------------------------------------------------------------
(* configuration calls (between frames) *)
Idle == frame = <<>>
Conf(r) == /\ Idle /\ nconf < MaxConf /\ nconf' = nconf + 1 /\ res' = r
           /\ UNCHANGED <<serial, keep, start, hist, frame, out, failAt, nframes>>

KeepServices(S) ==
    /\ Conf([call |-> "keep_services", set |-> S, ok |-> TRUE, now |-> svc \cup S])
    /\ svc' = svc \cup S
    /\ pt' = IF "ttx" \in S THEN Empty ELSE pt
    /\ stale' = (stale \/ ("ttx" \in S /\ "ttx" \notin svc))
    /\ UNCHANGED sys
DropServices(S) ==
    /\ Conf([call |-> "drop_services", set |-> S, ok |-> TRUE, now |-> svc \ S])
    /\ svc' = svc \ S
    /\ pt' = IF "ttx" \in S THEN Empty ELSE pt
    /\ stale' = (stale \/ ("ttx" \in S /\ "ttx" \in svc))
    /\ UNCHANGED sys
(* keep: nothing to do while all of Teletext is kept; drop: "all of Teletext" becomes "all pages but these" *)
TableCall(name, op) ==
    LET ok == ArgsOk(op)
        adds == Adds(op)
        whole == "ttx" \in svc
    IN /\ Conf([call |-> name, op |-> op, ok |-> ok])
       /\ IF ~ok \/ (adds /\ whole) THEN UNCHANGED <<pt, svc, stale>>
          ELSE /\ pt' = Eff(op, IF whole THEN TAddPages(Empty, MinPg, MaxPg) ELSE pt)
               /\ svc' = svc \ {"ttx"}
               /\ stale' = (stale \/ whole)
       /\ UNCHANGED sys
KeepTtxPages == \E op \in OpsAddPages : TableCall("keep_ttx_pages", op)
DropTtxPages == \E op \in OpsRemovePages : TableCall("drop_ttx_pages", op)
KeepTtxPage == \E op \in OpsAddPage : TableCall("keep_ttx_page", op)
DropTtxPage == \E op \in OpsRemovePage : TableCall("drop_ttx_page", op)
KeepTtxSubpages == \E op \in OpsAddSubpages : TableCall("keep_ttx_subpages", op)
DropTtxSubpages == \E op \in OpsRemoveSubpages : TableCall("drop_ttx_subpages", op)
KeepTtxSubpage == \E op \in OpsAddSubpage : TableCall("keep_ttx_subpage", op)
DropTtxSubpage == \E op \in OpsRemoveSubpage : TableCall("drop_ttx_subpage", op)
KeepSystemPages(b) ==
    /\ Conf([call |-> "keep_ttx_system_pages", flag |-> b, ok |-> TRUE])
    /\ sys' = b /\ UNCHANGED <<pt, svc, stale>>
Reset ==
    /\ Idle /\ res' = [call |-> "reset"]
    /\ keep' = InitKeep /\ start' = TRUE /\ hist' = <<>> /\ stale' = FALSE
    /\ UNCHANGED <<pt, svc, sys, serial, frame, out, failAt, nconf, nframes>>

---------------------------------------------------------------------------
(* one line of the frame passes the filter *)
Decide(l, d, w) == /\ frame' = Append(frame, l)
                   /\ out' = IF d THEN Append(out, Len(frame) + 1) ELSE out
                   /\ hist' = Append(hist, [l |-> l, w |-> w, kept |-> d, pass |-> IsTtx(l) /\ "ttx" \in svc])
                   /\ UNCHANGED <<pt, svc, sys, serial, failAt, stale, res, nconf, nframes>>
Feedable == ~stale /\ Len(frame) < MaxLines /\ Len(hist) < MaxHist /\ nframes < MaxFrames

PassThrough(l) ==            \* the service of the line is in the keep set; Teletext is not looked into
    /\ Feedable /\ failAt = 0
    /\ (IF IsTtx(l) THEN "ttx" ELSE l.s) \in svc
    /\ Decide(l, TRUE, TRUE) /\ UNCHANGED <<keep, start>>
OtherService(l) ==
    /\ Feedable /\ failAt = 0 /\ l.k = "svc" /\ l.s \notin svc
    /\ Decide(l, FALSE, FALSE) /\ UNCHANGED <<keep, start>>
Header(l) ==
    /\ Feedable /\ failAt = 0 /\ l.k = "hdr" /\ "ttx" \notin svc
    /\ LET w == Wanted(pt, sys, l)
           ended == IF serial THEN Mags ELSE {l.m}
           endsWanted == \E m \in ended : keep[m] \in {"k", "p"}
       IN /\ Decide(l, w \/ endsWanted \/ start, w)
          /\ keep' = [m \in Mags |-> IF m = l.m THEN (IF w THEN "k" ELSE "d") ELSE IF serial THEN "u" ELSE keep[m]]
          /\ start' = FALSE
PagePacket(l) ==
    /\ Feedable /\ failAt = 0 /\ l.k = "row" /\ "ttx" \notin svc /\ keep[l.m] \in {"k", "d"}
    /\ Decide(l, keep[l.m] = "k", FALSE) /\ UNCHANGED <<keep, start>>
TimeFilling(l) ==
    /\ Feedable /\ failAt = 0 /\ l.k = "fill" /\ "ttx" \notin svc
    /\ Decide(l, FALSE, FALSE)
    /\ keep' = [m \in Mags |-> IF m = l.m \/ serial THEN (IF keep[m] \in {"k", "p"} THEN "p" ELSE "u") ELSE keep[m]]
    /\ UNCHANGED start
NoPagePacket(l) ==
    /\ Feedable /\ failAt = 0 /\ l.k = "bsd" /\ "ttx" \notin svc
    /\ Decide(l, FALSE, FALSE) /\ UNCHANGED <<keep, start>>
Damaged(l) ==                \* the call fails at this line; the lines before it have been filtered
    /\ Feedable /\ failAt = 0 /\ l.k = "bad" /\ "ttx" \notin svc
    /\ frame' = Append(frame, l) /\ failAt' = Len(frame) + 1
    /\ UNCHANGED <<pt, svc, sys, serial, keep, start, hist, out, stale, res, nconf, nframes>>
Unread(l) ==                 \* lines after the failure are not looked at
    /\ Feedable /\ failAt # 0 /\ l.k \in {"hdr", "row", "svc"}
    /\ frame' = Append(frame, l)
    /\ UNCHANGED <<pt, svc, sys, serial, keep, start, hist, out, failAt, stale, res, nconf, nframes>>

(* the call: vbi_sliced_filter_cor with room for max lines (the callback variant always has room).
   Sizes are in sliced lines: a "bulk" model line stands for BulkN of them. *)
RECURSIVE Width(_, _)
Width(f, n) == IF n = 0 THEN 0 ELSE Width(f, n - 1) + Count(f[n])      \* sliced lines of the first n model lines
RECURSIVE WidthOf(_, _, _)
WidthOf(f, o, n) == IF n = 0 THEN 0 ELSE WidthOf(f, o, n - 1) + Count(f[o[n]])   \* sliced lines of the first n kept lines
RECURSIVE Fit(_, _, _)
Fit(f, o, max) == IF o = <<>> \/ Count(f[Head(o)]) > max THEN <<>> ELSE <<Head(o)>> \o Fit(f, Tail(o), max - Count(f[Head(o)]))
Room == Width(frame, Len(frame))
Call(max) ==
    /\ frame # <<>>
    /\ LET fit == Fit(frame, out, max)
           over == Len(fit) < Len(out)
       IN /\ res' = [call |-> "filter", max |-> max, size |-> Room, wout |-> WidthOf(frame, fit, Len(fit)),
                     ok |-> ~over /\ failAt = 0,
                     nin |-> IF over THEN Width(frame, out[Len(fit) + 1] - 1)
                             ELSE IF failAt # 0 THEN Width(frame, failAt - 1) ELSE Width(frame, Len(frame)),
                     out |-> fit, all |-> out]
          /\ stale' = (stale \/ over)
    /\ frame' = <<>> /\ out' = <<>> /\ failAt' = 0 /\ nframes' = nframes + 1
    /\ UNCHANGED <<pt, svc, sys, serial, keep, start, hist, nconf>>
CallEnough == Call(Room)
CallShort == \E max \in {0, 1} : max < Room /\ ~(\E i \in 1..Len(frame) : Count(frame[i]) > 1) /\ Call(max)

FNext == \/ \E S \in (SUBSET AllSvc) \ {{}} : KeepServices(S) \/ DropServices(S)
         \/ KeepTtxPages \/ DropTtxPages \/ KeepTtxPage \/ DropTtxPage
         \/ KeepTtxSubpages \/ DropTtxSubpages \/ KeepTtxSubpage \/ DropTtxSubpage
         \/ \E b \in BOOLEAN : KeepSystemPages(b)
         \/ Reset
         \/ \E l \in Lines : \/ PassThrough(l) \/ OtherService(l) \/ Header(l) \/ PagePacket(l) \/ TimeFilling(l)
                             \/ NoPagePacket(l) \/ Damaged(l) \/ Unread(l)
         \/ CallEnough \/ CallShort
FSpec == FInit /\ [][FNext]_fvars

---------------------------------------------------------------------------
(* PROPERTIES *)
FTypeOK == /\ svc \subseteq AllSvc /\ sys \in BOOLEAN /\ serial \in BOOLEAN /\ start \in BOOLEAN /\ stale \in BOOLEAN
           /\ keep \in [Mags -> {"k", "d", "u", "p"}]
           /\ \A i \in 1..Len(frame) : frame[i] \in Lines
           /\ failAt \in 0..Len(frame)
(* all of Teletext kept: the table is not in use *)
WholeServiceNoTable == "ttx" \in svc => pt = Empty

(* the rules, evaluated on the history since the last reset *)
HeadersBefore(i, m) == {j \in 1..(i - 1) : hist[j].l.k = "hdr" /\ (serial \/ hist[j].l.m = m)}
(* the page in progress in magazine m just before line i is a wanted one *)
InWantedPage(i, m) == LET hs == HeadersBefore(i, m)
                      IN hs # {} /\ LET j == SMax(hs) IN hist[j].l.m = m /\ hist[j].w
ShouldKeep(i) ==
    LET e == hist[i]
        l == e.l
    IN IF e.pass THEN TRUE
       ELSE CASE l.k = "svc" -> e.w
              [] l.k = "row" -> InWantedPage(i, l.m)
              [] l.k = "hdr" -> \/ e.w
                                \/ \E m \in (IF serial THEN Mags ELSE {l.m}) : InWantedPage(i, m)
                                \/ ~\E j \in 1..(i - 1) : hist[j].l.k = "hdr"
              [] OTHER -> FALSE
Faithful == \A i \in 1..Len(hist) : hist[i].kept = ShouldKeep(i)

(* the output is a subsequence of the frame: order preserved, nothing invented, nothing twice *)
OrderPreserved == /\ \A i \in 1..Len(out) : out[i] \in 1..Len(frame)
                  /\ \A i \in 1..(Len(out) - 1) : out[i] < out[i + 1]
(* and exactly the lines decided to keep in this frame *)
OutputIsDecisions == LET n == Len(frame) - (IF failAt = 0 THEN 0 ELSE Len(frame) - failAt + 1)   \* lines processed
                         base == Len(hist) - n
                     IN (base >= 0 /\ n >= 0) =>
                          {out[i] : i \in 1..Len(out)} = {j \in 1..n : hist[base + j].kept}
(* never more than max lines; a call reporting success delivered all kept lines and read the whole frame *)
CallResult == res.call = "filter" =>
    /\ res.wout <= res.max /\ res.nin <= res.size
    /\ res.ok => res.out = res.all /\ res.nin = res.size
    /\ Len(res.out) <= Len(res.all) /\ \A i \in 1..Len(res.out) : res.out[i] = res.all[i]
CallResultA == [][(nframes' # nframes) => CallResult']_fvars
(* reset returns to the initial behaviour: with no line since new / reset the stream state is that of a new filter
   (Faithful then says that all decisions depend on the lines since the reset and the configuration only) *)
ResetInitial == (hist = <<>> /\ frame = <<>>) => (keep = InitKeep /\ start)
(* a failed configuration call changes nothing *)
FailedConfNoChange == [][(nconf' # nconf /\ ~res'.ok) => UNCHANGED <<pt, svc, sys, keep, start, stale>>]_fvars
=============================================================================
