---------------------------- MODULE Trace_Locks ----------------------------
(* Trace validation for Locks: harness/drv_locks.c runs the real library with 2-4 threads and
   records mutex operations (observed through the linker's --wrap), VERIF_REGION markers,
   callbacks, fetched pages and raw decoder calls with one global sequence number (taken while
   the mutex is held).  The log is replayed on the mutex state of Locks (Acquire / Release /
   Holds); every property of Locks is evaluated on the recorded execution:

     LocksetOK         a marker of a guarded region is reached only by the holder of the region's mutex
                       (this flags a missing lock also when the accesses did not physically overlap)
     CallbackUnlocked  an event handler is entered without cc.mutex
     NoSelfLock        no thread asks for a mutex it owns
     SnapshotAtomic    a fetched page equals the content the decoding thread exposed at its latest
                       release of cc.mutex before the fetching thread's critical section
     CountdownOK       chswcd changes as coded (request: 1; vbi_decode: count down; reset, matching header: 0)
     ResetRuns         the countdown reaching zero is followed by the reset in the decoding thread
     LockBalance       at every API call / return of a thread (frame, fetch, switch request, raw decoder call, thread end)
                       the thread owns no mutex (a fetch made by a handler: event_mutex only): every exit path unlocked
     ProloguePresent   every vbi_decode() passes through exactly one chswcd_mutex section of its own before the next frame
                       (regular frame: count down; time stamp outside 25..50 ms: arm the countdown if it is not running)
     SwitchServed      a request of vbi_channel_switched() is served by the next regular frame (the countdown is 1 there)
                       unless a reset or a matching Teletext header cleared it as coded
     ContextOK         every marker / handler is reached in a lock context of the table Contexts of Locks
     ConsistentSet     the service set changes per critical section exactly by the requested add / remove,
                       API return values agree, and every raw decode returns the services of the set that
                       was current in its critical section (all services are present in the test image)
*)
EXTENDS Locks, Integers, Json, IOUtils

Log == ndJsonDeserialize(IOEnv.TRACEFILE)
TraceThreads == {"dec", "f1", "f2", "f3", "sw", "sw2", "mod1", "mod2", "chk1", "chk2"}
TraceProg == [t \in TraceThreads |-> <<>>]

VARIABLES l,
          tpub,      \* caption page contents (8 hashes) last exposed by the decoding thread
          tsnap,     \* per thread: tpub at its latest acquisition of cc.mutex
          tcd,       \* chswcd
          tneed,     \* the countdown reached zero, reset outstanding
          tacc,      \* per thread: latest chswcd marker in the current critical section
          tsvc,      \* raw decoder: current service set
          tcall,     \* per thread: raw decoder call in progress
          tret,      \* per thread: service set at the end of its latest critical section
          tchk,      \* results of vbi_raw_decoder_check_services seen so far: {<<<<geometry, arg>>, val>>}
          tfr,       \* frame in progress: [gap, pro] time stamp out of step, countdown sections seen (pro = -1: no frame yet)
          treq,      \* a channel switch request is waiting
          tgeom,     \* raw decoder geometry: "full" or "zero" (no lines: nothing is decodable)
          bad        \* first property violated by the recorded execution
tvars == <<vars, l, tpub, tsnap, tcd, tneed, tacc, tsvc, tcall, tret, tchk, tfr, treq, tgeom, bad>>

Ev == Log[l]
Has(f) == f \in DOMAIN Ev
Rng(s) == {s[i] : i \in 1..Len(s)}
Ok == [p |-> "", t |-> "", d |-> <<>>]
Flag(p, d) == IF bad = Ok THEN [p |-> p, t |-> Ev.t, d |-> d] ELSE bad
NoAcc == [fn |-> "", w |-> 0]
NoCall == [op |-> "", arg |-> {}, g |-> "full"]      \* g: geometry in the call's critical section
NoPages == [i \in 1..8 |-> ""]
AllServices == {"ttx", "vps", "cc", "wss"}
NoFrame == [gap |-> FALSE, pro |-> -1]
IsGap(dt) == dt < 25000 \/ dt > 50000          \* vbi_decode(): "timestamp shall advance by 1/30 to 1/25 seconds"

TraceInit == /\ tpub = NoPages /\ tsnap = [t \in TraceThreads |-> NoPages] /\ tcd = 0 /\ tneed = FALSE
             /\ tacc = [t \in TraceThreads |-> NoAcc] /\ tsvc = {} /\ tcall = [t \in TraceThreads |-> NoCall]
             /\ tret = [t \in TraceThreads |-> {}] /\ tchk = {} /\ bad = Ok
             /\ tfr = NoFrame /\ treq = FALSE /\ tgeom = "full"
LocksUnchanged == UNCHANGED <<ops, code, page, ver, chswcd, svc, jobs, par, loc, published, req>>

TReset == /\ Ev.e = "Reset"
          /\ holder' = [m \in Mutexes |-> Free]
          /\ tpub' = NoPages /\ tsnap' = [t \in TraceThreads |-> NoPages] /\ tcd' = 0 /\ tneed' = FALSE
          /\ tacc' = [t \in TraceThreads |-> NoAcc] /\ tsvc' = {} /\ tcall' = [t \in TraceThreads |-> NoCall]
          /\ tret' = [t \in TraceThreads |-> {}] /\ tchk' = {} /\ bad' = bad
          /\ tfr' = NoFrame /\ treq' = FALSE /\ tgeom' = "full"

TLock == /\ Ev.e = "lock" \/ (Ev.e = "trylock" /\ Ev.ok = 1)
         /\ Acquire(Ev.t, Ev.m)
         /\ tsnap' = IF Ev.m = "cc" THEN [tsnap EXCEPT ![Ev.t] = tpub] ELSE tsnap
         /\ UNCHANGED <<tpub, tcd, tneed, tacc, tsvc, tcall, tret, tchk, bad, tfr, treq, tgeom>>

TTryFail == /\ Ev.e = "trylock" /\ Ev.ok = 0
            /\ UNCHANGED <<holder, tpub, tsnap, tcd, tneed, tacc, tsvc, tcall, tret, tchk, bad, tfr, treq, tgeom>>

\* value of chswcd the code must leave behind, by the function whose marker was reached in this critical section
CountdownAfter(a) == CASE a.fn = "vbi_channel_switched" -> 1
                       [] a.fn = "vbi_decode" -> IF tfr.gap THEN GapVal(tcd) ELSE TickVal(tcd)
                       [] a.fn = "vbi_chsw_reset" -> 0
                       [] a.fn = "store_lop" /\ a.w = 1 -> 0
                       [] OTHER -> tcd
\* service set the call must leave behind
GeomAfter(c) == CASE c.op = "resize_zero" -> "zero" [] c.op = "resize_full" -> "full" [] OTHER -> tgeom
ServicesAfter(c) == CASE c.op = "add" -> IF tgeom = "full" THEN AddVal(tsvc, c.arg) ELSE {}
                      [] c.op = "remove" -> RemoveVal(tsvc, c.arg)
                      [] c.op \in {"resize_zero", "reset"} -> {}     \* invalid sampling parameters / reset: nothing is decoded
                      [] OTHER -> tsvc                               \* decode, check, resize to the same or back to the full geometry

TUnlock ==
  /\ Ev.e = "unlock" /\ Release(Ev.t, Ev.m)
  /\ tpub' = IF Ev.m = "cc" /\ Has("pv") THEN Ev.pv ELSE tpub
  /\ IF Ev.m = "chsw"
     THEN LET a == tacc[Ev.t]
              tick == a.fn = "vbi_decode" /\ ~tfr.gap IN
          /\ tcd' = Ev.v
          /\ tneed' = IF tick THEN TickFires(tcd) ELSE tneed
          /\ tfr' = IF a.fn = "vbi_decode" /\ Ev.t = "dec" THEN [tfr EXCEPT !.pro = @ + 1] ELSE tfr
          /\ treq' = CASE a.fn = "vbi_channel_switched" -> TRUE
                        [] a.fn = "vbi_chsw_reset" \/ (a.fn = "store_lop" /\ a.w = 1) -> FALSE      \* cleared as coded
                        [] tick /\ TickFires(tcd) -> FALSE                                          \* served
                        [] OTHER -> treq
          /\ bad' = IF Ev.v # CountdownAfter(a) THEN Flag("CountdownOK", <<a.fn, tcd, Ev.v>>)
                    ELSE IF tick /\ tneed THEN Flag("ResetRuns", <<"no reset before the next frame">>)
                    ELSE IF tick /\ treq /\ ~TickFires(tcd) THEN Flag("SwitchServed", <<"request not served by the next regular frame", tcd>>)
                    ELSE IF a.fn = "vbi_decode" /\ Ev.t = "dec" /\ tfr.pro >= 1 THEN Flag("ProloguePresent", <<"second countdown section in one frame">>)
                    ELSE bad
          /\ UNCHANGED <<tsvc, tret, tgeom>>
     ELSE IF Ev.m = "rd"
     THEN /\ tsvc' = Rng(Ev.svc) /\ tret' = [tret EXCEPT ![Ev.t] = Rng(Ev.svc)]
          /\ tgeom' = GeomAfter(tcall[Ev.t])
          /\ bad' = IF Rng(Ev.svc) # ServicesAfter(tcall[Ev.t]) THEN Flag("ConsistentSet", <<tcall[Ev.t].op, tcall[Ev.t].arg, tsvc, Rng(Ev.svc)>>) ELSE bad
          /\ UNCHANGED <<tcd, tneed, tfr, treq>>
     ELSE UNCHANGED <<tcd, tneed, tsvc, tret, bad, tfr, treq, tgeom>>
  /\ tacc' = [tacc EXCEPT ![Ev.t] = NoAcc]
  /\ tcall' = IF Ev.m = "rd" THEN [tcall EXCEPT ![Ev.t].g = GeomAfter(tcall[Ev.t])] ELSE tcall
  /\ UNCHANGED <<tsnap, tchk>>

TAcc == /\ Ev.e = "acc"
        /\ bad' = IF Ev.r \in DOMAIN Guard /\ ~Holds(Ev.t, Ev.r) THEN Flag("LocksetOK", <<Ev.r, Ev.w, Ev.fn>>)
                  ELSE IF <<Ev.fn, HeldBy(Ev.t)>> \notin Contexts THEN Flag("ContextOK", <<Ev.fn, HeldBy(Ev.t)>>)
                  ELSE bad
        /\ tacc' = IF Ev.r = "chswcd" THEN [tacc EXCEPT ![Ev.t] = [fn |-> Ev.fn, w |-> Ev.w]] ELSE tacc
        /\ tneed' = IF Ev.fn = "vbi_caption_channel_switched" THEN FALSE ELSE tneed
        /\ UNCHANGED <<holder, tpub, tsnap, tcd, tsvc, tcall, tret, tchk, tfr, treq, tgeom>>

TCb == /\ Ev.e = "cb"
       /\ bad' = IF holder["cc"] = Ev.t THEN Flag("CallbackUnlocked", <<Ev.type>>)
                 ELSE IF <<"handler", HeldBy(Ev.t)>> \notin Contexts THEN Flag("ContextOK", <<"handler", HeldBy(Ev.t)>>)
                 ELSE bad
       /\ UNCHANGED <<holder, tpub, tsnap, tcd, tneed, tacc, tsvc, tcall, tret, tchk, tfr, treq, tgeom>>

TSelfLock == /\ Ev.e = "selflock"
             /\ bad' = Flag("NoSelfLock", <<Ev.m>>)
             /\ UNCHANGED <<holder, tpub, tsnap, tcd, tneed, tacc, tsvc, tcall, tret, tchk, tfr, treq, tgeom>>

TFetched == /\ Ev.e = "fetched"
            /\ bad' = IF Ev.h # tsnap[Ev.t][Ev.pg] THEN Flag("SnapshotAtomic", <<Ev.pg, Ev.h, tsnap[Ev.t][Ev.pg]>>)
                      ELSE IF ~(HeldBy(Ev.t) \subseteq {"ev"}) THEN Flag("LockBalance", <<"vbi_fetch_cc_page", HeldBy(Ev.t)>>)
                      ELSE bad
            /\ UNCHANGED <<holder, tpub, tsnap, tcd, tneed, tacc, tsvc, tcall, tret, tchk, tfr, treq, tgeom>>

\* state of the library when the threads start
TStart == /\ Ev.e = "start"
          /\ tpub' = IF Has("pv") THEN Ev.pv ELSE tpub
          /\ tsvc' = IF Has("svc") THEN Rng(Ev.svc) ELSE tsvc
          /\ UNCHANGED <<holder, tsnap, tcd, tneed, tacc, tcall, tret, tchk, bad, tfr, treq, tgeom>>

\* the function a thread returned from before this event (for the LockBalance report)
Returned(t) == IF tcall[t].op = "" THEN "?" ELSE tcall[t].op
Balanced(t, allowed) == HeldBy(t) \subseteq allowed

\* an API call begins: the thread owns nothing (a handler calling vbi_fetch_cc_page owns event_mutex)
TCall == /\ Ev.e = "call" /\ Ev.op # "frame"
         /\ tcall' = [tcall EXCEPT ![Ev.t] = [op |-> Ev.op, arg |-> IF Has("arg") THEN Rng(Ev.arg) ELSE {}, g |-> tgeom]]
         /\ bad' = IF ~Balanced(Ev.t, IF Ev.op = "fetch" THEN {"ev"} ELSE {}) THEN Flag("LockBalance", <<Returned(Ev.t), HeldBy(Ev.t)>>) ELSE bad
         /\ UNCHANGED <<holder, tpub, tsnap, tcd, tneed, tacc, tsvc, tret, tchk, tfr, treq, tgeom>>

\* the decoding thread enters vbi_decode(): the previous frame went through its countdown section and left nothing locked
TFrame == /\ Ev.e = "call" /\ Ev.op = "frame"
          /\ tcall' = [tcall EXCEPT ![Ev.t] = [op |-> "vbi_decode", arg |-> {}, g |-> tgeom]]
          /\ tfr' = [gap |-> IsGap(Ev.dt), pro |-> 0]
          /\ bad' = IF ~Balanced(Ev.t, {}) THEN Flag("LockBalance", <<Returned(Ev.t), HeldBy(Ev.t)>>)
                    ELSE IF tfr.pro = 0 THEN Flag("ProloguePresent", <<"frame without a countdown section", tfr.gap, tcd>>)
                    ELSE bad
          /\ UNCHANGED <<holder, tpub, tsnap, tcd, tneed, tacc, tsvc, tret, tchk, treq, tgeom>>

TEnd == /\ Ev.e = "end"
        /\ bad' = IF ~Balanced(Ev.t, {}) THEN Flag("LockBalance", <<Returned(Ev.t), HeldBy(Ev.t)>>)
                  ELSE IF Ev.t = "dec" /\ tfr.pro = 0 THEN Flag("ProloguePresent", <<"frame without a countdown section", tfr.gap, tcd>>)
                  ELSE bad
        /\ UNCHANGED <<holder, tpub, tsnap, tcd, tneed, tacc, tsvc, tcall, tret, tchk, tfr, treq, tgeom>>

TRet == /\ Ev.e = "ret"
        /\ IF Ev.op = "check"
           THEN /\ tchk' = tchk \cup {<<<<tcall[Ev.t].g, tcall[Ev.t].arg>>, Rng(Ev.val)>>}
                /\ bad' = IF ~Balanced(Ev.t, {}) THEN Flag("LockBalance", <<Ev.op, HeldBy(Ev.t)>>)
                          ELSE IF \E x \in tchk : x[1] = <<tcall[Ev.t].g, tcall[Ev.t].arg>> /\ x[2] # Rng(Ev.val) THEN Flag("ConsistentSet", <<"check", tcall[Ev.t].arg, Rng(Ev.val)>>) ELSE bad
           ELSE /\ bad' = IF ~Balanced(Ev.t, {}) THEN Flag("LockBalance", <<Ev.op, HeldBy(Ev.t)>>)
                          ELSE IF Ev.op \in {"add", "remove"} /\ Rng(Ev.val) # tret[Ev.t] THEN Flag("ConsistentSet", <<"return", Ev.op, Rng(Ev.val), tret[Ev.t]>>)
                          ELSE bad
                /\ UNCHANGED tchk
        /\ UNCHANGED <<holder, tpub, tsnap, tcd, tneed, tacc, tsvc, tcall, tret, tfr, treq, tgeom>>

TRawDec == /\ Ev.e = "rawdec"
           /\ bad' = IF ~Balanced(Ev.t, {}) THEN Flag("LockBalance", <<"decode", HeldBy(Ev.t)>>)
                     ELSE IF Rng(Ev.ids) # tret[Ev.t] \cap AllServices THEN Flag("ConsistentSet", <<"decode", Rng(Ev.ids), tret[Ev.t]>>) ELSE bad
           /\ UNCHANGED <<holder, tpub, tsnap, tcd, tneed, tacc, tsvc, tcall, tret, tchk, tfr, treq, tgeom>>

\* A recorded step that breaks a property is not a step of the specification: the behaviour ends at that log
\* line (TV-REJECT) and the property is named on the output.  (Reporting it as an invariant violation would
\* make TLC print the whole recorded execution, tens of thousands of states.)
Conforms == bad' = Ok \/ (PrintT(<<"TV-BAD", l, bad'>>) /\ FALSE)
TNext == /\ l <= Len(Log) /\ l' = l + 1 /\ LocksUnchanged
         /\ (TReset \/ TLock \/ TTryFail \/ TUnlock \/ TAcc \/ TCb \/ TSelfLock \/ TFetched \/ TStart \/ TCall \/ TFrame \/ TEnd \/ TRet \/ TRawDec)
         /\ Conforms

TInit == Init /\ l = 1 /\ TraceInit
TSpec == TInit /\ [][TNext]_tvars

\* (bad stays Ok along every accepted behaviour; kept as an invariant for the record)
Clean == bad = Ok

TraceAccepted == LET n == TLCGet("stats").diameter - 1 IN
                 IF n = Len(Log) THEN TRUE
                 ELSE PrintT(<<"TV-REJECT", n + 1, Len(Log)>>) /\ FALSE
=============================================================================
