CONSTANT Cfgs <- CfgSet
SPECIFICATION Spec
INVARIANTS TypeOK ChannelOk WriteBound LineBound InnerBound
PROPERTIES Rightward ScanRight
CHECK_DEADLOCK FALSE
