CONSTANT Cfgs <- CfgSet
SPECIFICATION Spec
INVARIANTS TypeOK ChannelOk WriteBound RefusedIdle LineBound InnerBound
PROPERTIES Rightward ScanRight CfgFixed
CHECK_DEADLOCK FALSE
