CONSTANT Cfgs <- CfgList
SPECIFICATION Spec
INVARIANTS TypeOK ChannelOk WriteBound LineBound ImageBound
PROPERTIES Rightward
CHECK_DEADLOCK FALSE
