CONSTANTS TimeBits = 64 FixedZone <- Fixed RejectZones <- Reject Refs <- RefsEdge Offsets <- OffsEdge
  PMonths = {2} PDays = {29} PHours = {0} PMinutes = {0} TzValues <- TzAll
SPECIFICATION Spec
INVARIANTS TypeOK FieldsOK NearestYear FailsOK WindowOK PtyOK RelationalOK
PROPERTIES FrameTZ
CHECK_DEADLOCK FALSE
