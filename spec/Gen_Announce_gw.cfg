CONSTANTS Carriers = {"vps"} Vals = {"a", "b"} Labels = {"p"} Times = {} Bads = {}
  WssWords = {"x", "y"} MaxRecv = 8 UnknownOnce = TRUE XdsGuard = TRUE Calls = {}
  Handlers = {"h1"} InitMasks = {{"NETWORK", "NETWORK_ID", "PROG_ID", "LOCAL_TIME", "ASPECT", "TTX_PAGE", "CAPTION"}} RegMasks = {} Apis = {"reg"} MaxReg = 0 CdLen = 40 IdleSteps = {36, 40} MaxGap = 1 MaxIdle = 1
SPECIFICATION GSpec
VIEW gview
INVARIANTS Dump TypeOK Faithful
PROPERTIES OfThisReception OnlyAfterRepeat VpsLabelTwice NetworkMeansChange OneNetworkEvent NotAgainWhileSame StationKept CacheKept CacheDropped Gated WssOnlyAfterRepeats AspectRevertOnlyOnChange GapKeeps DropOutOnce
CHECK_DEADLOCK FALSE
