CONSTANTS Clients = {1, 2, 3} Prios = {1, 2} FixTokenOwner = TRUE FixFlushClosed = TRUE FixRegrant = TRUE
  FixHdrLen = TRUE FixPartial = TRUE
CONSTANT NsiValues <- OnlyOff
SPECIFICATION CSpec
INVARIANTS CTypeOK SingleOwner NoCrash OneHolder HolderIsOwner Released ListOK
CHECK_DEADLOCK FALSE
