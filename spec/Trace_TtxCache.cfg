CONSTANTS Pgnos = {256, 257, 258, 273, 369, 427} Subnos = {} Sizes = {} Fns = {} NSlots = 6 NNSlots = 3
  MaxOps = 1000000 MaxPuts = 1000000 Limits = {0} NetLimit = 1 Policy = "any" SkipCollected = TRUE ExactFirst = TRUE
  GetMasks = {} ClockVals = {} MaxNets = 1000000
SPECIFICATION TSpec
INVARIANTS RefsAreHandles HeldAlive ListsOK WithinLimit NetsOK StatOK UniqueKey
POSTCONDITION TraceAccepted
CHECK_DEADLOCK FALSE
