INIT Init
NEXT Next
CHECK_DEADLOCK FALSE
