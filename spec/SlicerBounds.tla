---------------------------- MODULE SlicerBounds ----------------------------
(* Memory accesses of one bit slicer call on one scan line (property C05).

   A slicer is configured for a line of `spl` samples of `bps` bytes ("samples_per_line ...
   limits the number of bytes read from the raw data buffer", bit_slicer.h / decoder.h) and for an
   output buffer that holds the payload of the service.  It works in two phases:

     scan     the clock run-in is searched sample by sample; step n looks at sample n and, for the
              slope of the adaptive threshold and the oversampling, at its right neighbour; the
              low-pass variant (used when one bit covers more than 24 samples) looks at a window of
              16 samples and maintains the sum incrementally (adds sample n+16, drops sample n);
     bits     as soon as the run-in pattern is complete at scan step n, the framing code and the
              payload are sampled at the positions n + ((phase_shift + k * step) >> 8), linearly
              interpolated with the right neighbour (low-pass: the 16 sample window starting there,
              counted from the sample after n).  Nothing but the precomputed number of scan steps
              keeps these positions inside the line.

   The image content decides at which step the run-in completes and whether the framing code
   matches; the model leaves both open (every step at which enough run-in bits can have been
   clocked in, match and mismatch), which is exactly "any image content whatsoever".  The numbers of
   a configuration (scan steps, phase_shift, step, skip ...) are the fields of the real configured
   object, dumped by harness/drv_rawdec.c; the configuration is chosen in Init, so one TLC run
   decides a whole list of configurations.

   Properties:  LineBound  - no access at or behind byte spl * bps of the line
                InnerBound - a line that is not the last row of an image never reads behind the next row
                             (with LineBound for the last row: no access behind the image)
                WriteBound - at most ceil(payload bits / 8) bytes are stored, and only when all bits were sampled
                ChannelOk  - the sampled channel lies inside the pixel
                Rightward  - within the bits phase the accesses only move right
                ScanRight  - the search only moves right, one sample per step               *)
EXTENDS Naturals, Sequences, TLC

CONSTANT Cfgs          \* set of configuration records, see MC_SlicerBounds / generated module SlicerCfgs

Window == 16           \* low-pass window, samples

VARIABLES cf,          \* configuration under examination
          pc,          \* "idle", "pro" (low-pass prologue), "scan", "bits", "done"
          n,           \* scan step
          k,           \* data bit (framing code bits first)
          lo, hi,      \* lowest / highest byte offset (from the line start) read in this step
          w            \* bytes stored in the output buffer
vars == <<cf, pc, n, k, lo, hi, w>>

C == cf

\* ---------------------------------------------------------------- geometry
ByteLo(c, s) == c.skip + s * c.bps                 \* first byte of the sampled channel of sample s
ByteHi(c, s) == ByteLo(c, s) + c.wide              \* 16 bit pixels: the channel straddles both bytes
Limit(c)     == c.spl * c.bps
PayloadBits(c) == IF c.endian >= 2 THEN c.payload ELSE 8 * c.payload
DataBits(c)  == c.frc_bits + PayloadBits(c)
Permitted(c) == (PayloadBits(c) + 7) \div 8
\* octet routines store one byte per octet; bit routines one per 8 bits and the remaining bits at the end
Stored(c)    == IF c.endian >= 2 THEN (c.payload \div 8) + 1 ELSE c.payload

BitPos(c, j)  == (c.phase_shift + j * c.step) \div 256
\* samples looked at by scan step m / by data bit j after the run-in completed in step m
ScanFirst(c, m) == m
ScanLast(c, m)  == IF c.lp = 1 THEN m + Window ELSE m + 1
BitFirst(c, m, j) == IF c.lp = 1 THEN m + 1 + BitPos(c, j) ELSE m + BitPos(c, j)
BitLast(c, m, j)  == IF c.lp = 1 THEN BitFirst(c, m, j) + Window - 1 ELSE BitFirst(c, m, j) + 1

\* ---------------------------------------------------------------- behaviour
Init == cf \in Cfgs /\ pc = "idle" /\ n = 0 /\ k = 0 /\ lo = 0 /\ hi = 0 /\ w = 0

Started(c) ==          \* state after the call began on configuration c
  /\ n' = 0 /\ k' = 0 /\ w' = 0
  /\ IF c.lp = 1
     THEN pc' = "pro" /\ lo' = ByteLo(c, 0) /\ hi' = ByteHi(c, Window - 1)
     ELSE IF c.scan > 0
          THEN pc' = "scan" /\ lo' = ByteLo(c, 0) /\ hi' = ByteHi(c, ScanLast(c, 0))
          ELSE pc' = "done" /\ lo' = 0 /\ hi' = 0

Start ==               \* the call: skip the sample offset, low-pass: sum up the first window
  /\ pc = "idle" /\ cf' = cf /\ Started(cf)

FirstScan ==           \* low-pass: the loop body runs before the step counter is tested
  /\ pc = "pro" /\ pc' = "scan" /\ n' = 0
  /\ lo' = ByteLo(C, 0) /\ hi' = ByteHi(C, ScanLast(C, 0))
  /\ UNCHANGED <<cf, k, w>>

ScanStep ==            \* run-in not complete: next sample
  /\ pc = "scan" /\ n + 1 < C.scan
  /\ n' = n + 1 /\ lo' = ByteLo(C, ScanFirst(C, n + 1)) /\ hi' = ByteHi(C, ScanLast(C, n + 1))
  /\ UNCHANGED <<cf, pc, k, w>>

GiveUp ==              \* search limit reached
  /\ pc = "scan" /\ n + 1 >= C.scan
  /\ pc' = "done" /\ UNCHANGED <<cf, n, k, lo, hi, w>>

CriFound ==            \* run-in complete in step n: first data bit
  /\ pc = "scan" /\ DataBits(C) > 0
  /\ pc' = "bits" /\ k' = 0
  /\ lo' = ByteLo(C, BitFirst(C, n, 0)) /\ hi' = ByteHi(C, BitLast(C, n, 0))
  /\ UNCHANGED <<cf, n, w>>

NextBit ==
  /\ pc = "bits" /\ k + 1 < DataBits(C)
  /\ k' = k + 1
  /\ lo' = ByteLo(C, BitFirst(C, n, k + 1)) /\ hi' = ByteHi(C, BitLast(C, n, k + 1))
  /\ UNCHANGED <<cf, pc, n, w>>

FrcMismatch ==         \* framing code sampled, does not match: nothing stored
  /\ pc = "bits" /\ C.frc_bits > 0 /\ k = C.frc_bits - 1
  /\ pc' = "done" /\ UNCHANGED <<cf, n, k, lo, hi, w>>

Deliver ==             \* all bits sampled: the payload is in the buffer
  /\ pc = "bits" /\ k + 1 = DataBits(C)
  /\ pc' = "done" /\ w' = Stored(C) /\ UNCHANGED <<cf, n, k, lo, hi>>

Next == Start \/ FirstScan \/ ScanStep \/ GiveUp \/ CriFound \/ NextBit \/ FrcMismatch \/ Deliver
Spec == Init /\ [][Next]_vars

\* ---------------------------------------------------------------- properties
Reading == pc \in {"pro", "scan", "bits"}
TypeOK == /\ cf \in Cfgs /\ pc \in {"idle", "pro", "scan", "bits", "done"}
          /\ n \in Nat /\ k \in Nat /\ lo \in Nat /\ hi \in Nat /\ w \in Nat /\ lo <= hi
LineBound  == Reading => hi < Limit(C)
\* a line that is not the last row of its image is followed by at least one more row of the same size:
\* whatever it reads behind its own end must stay inside that row (the last row is LineBound itself)
InnerBound == Reading => hi < 2 * Limit(C)
WriteBound == w <= Permitted(C) /\ (w > 0 => pc = "done" /\ k + 1 = DataBits(C))
ChannelOk  == (C.skip - C.soff * C.bps) + C.wide < C.bps
\* within a line the accesses of the data bits move to the right only (so the last bit is the worst)
Rightward  == [][(pc = "bits" /\ pc' = "bits") => hi' >= hi]_vars
ScanRight  == [][(pc = "scan" /\ pc' = "scan") => (hi' = hi + C.bps /\ lo' = lo + C.bps)]_vars
=============================================================================
