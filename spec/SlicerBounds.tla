---------------------------- MODULE SlicerBounds ----------------------------
(* Memory accesses of one bit slicer call on one scan line (property C05).

   A slicer is configured for a line of `spl` samples of `bps` bytes ("samples_per_line ...
   limits the number of bytes read from the raw data buffer", bit_slicer.h / decoder.h) and for an
   output buffer that holds the payload of the service.  It works in two phases:

     scan     the clock run-in is searched sample by sample; step n looks at sample n and, for the
              slope of the adaptive threshold and the oversampling, at its right neighbour; the
              low-pass variant (used when one bit covers more than 24 samples) looks at a window of
              16 samples and maintains the sum incrementally (adds sample n+16, drops sample n);
     bits     as soon as the run-in pattern is complete at scan step n, the framing code and the
              payload are sampled at the positions n + ((phase_shift + k * step) >> 8), linearly
              interpolated with the right neighbour (low-pass: the 16 sample window starting there,
              counted from the sample after n).  Nothing but the precomputed number of scan steps
              keeps these positions inside the line.

   The image content decides at which step the run-in completes and whether the framing code
   matches; the model leaves both open (every step at which enough run-in bits can have been
   clocked in, match and mismatch), which is exactly "any image content whatsoever".  The numbers of
   a configuration (scan steps, phase_shift, step, skip ...) are the fields of the real configured
   object, dumped by harness/drv_rawdec.c; the configuration is chosen in Init, so one TLC run
   decides a whole list of configurations.

   Lines that are too short for the service (a cropped or truncated line, samples_per_line from 1 up to
   what the service needs) are configurations like any other.  The two interfaces differ:
     vbi3_bit_slicer_set_params()  may refuse (returns FALSE, field ok = 0): then a later slice call reads
                                   nothing and stores nothing (action Refused); or it accepts (ok = 1) and
                                   the search limit it computed is judged by LineBound like every other;
     vbi_bit_slicer_init()         is void and cannot refuse (ok = 1 always): whatever limit it computed,
                                   every vbi_bit_slice() call must stay inside raw_samples.
   The search limit `scan` is the SIGNED value of cri_samples / cri_bytes of the object.  The code counts
   it down in an unsigned variable (Steps): a negative limit is not "no search" but 2^32 + scan steps,
   and the low-pass slicer, which tests its counter after the loop body (0 == --i), wraps around with a
   limit of 0.  Such a limit shows here as a search that walks out of the line (LineBound).

   Properties:  LineBound  - no access at or behind byte spl * bps of the line
                InnerBound - a line that is not the last row of an image never reads behind the next row
                             (with LineBound for the last row: no access behind the image)
                WriteBound - at most ceil(payload bits / 8) bytes are stored, and only when all bits were sampled
                ChannelOk  - the sampled channel lies inside the pixel
                RefusedIdle - a slicer whose parameters were refused reads and stores nothing
                Rightward  - within the bits phase the accesses only move right
                ScanRight  - the search only moves right, one sample per step               *)
EXTENDS Integers, Sequences, TLC

CONSTANT Cfgs          \* set of configuration records, see MC_SlicerBounds / generated module SlicerCfgs

Window == 16           \* low-pass window, samples
Huge   == 2147483647   \* stands for a count of 2^32 - x steps (TLC's largest integer; every line ends long before)

VARIABLES cf,          \* configuration under examination
          pc,          \* "idle", "pro" (low-pass prologue), "scan", "bits", "done"
          n,           \* scan step
          k,           \* data bit (framing code bits first)
          lo, hi,      \* lowest / highest byte offset (from the line start) read in this step
          w            \* bytes stored in the output buffer
vars == <<cf, pc, n, k, lo, hi, w>>

C == cf

\* ---------------------------------------------------------------- geometry
ByteLo(c, s) == c.skip + s * c.bps                 \* first byte of the sampled channel of sample s
ByteHi(c, s) == ByteLo(c, s) + c.wide              \* 16 bit pixels: the channel straddles both bytes
Limit(c)     == c.spl * c.bps
PayloadBits(c) == IF c.endian >= 2 THEN c.payload ELSE 8 * c.payload
DataBits(c)  == c.frc_bits + PayloadBits(c)
Permitted(c) == (PayloadBits(c) + 7) \div 8
\* octet routines store one byte per octet; bit routines one per 8 bits and the remaining bits at the end
Stored(c)    == IF c.endian >= 2 THEN (c.payload \div 8) + 1 ELSE c.payload

BitPos(c, j)  == (c.phase_shift + j * c.step) \div 256
\* samples looked at by scan step m / by data bit j after the run-in completed in step m
ScanFirst(c, m) == m
ScanLast(c, m)  == IF c.lp = 1 THEN m + Window ELSE m + 1
BitFirst(c, m, j) == IF c.lp = 1 THEN m + 1 + BitPos(c, j) ELSE m + BitPos(c, j)
BitLast(c, m, j)  == IF c.lp = 1 THEN BitFirst(c, m, j) + Window - 1 ELSE BitFirst(c, m, j) + 1

\* number of search steps: the limit is copied into an `unsigned int` counter.
\*   CORE() of bit_slicer.c, bit_slicer_tmpl() of decoder.c:  for (i = limit; i > 0; --i)      a negative limit wraps
\*   low_pass_bit_slicer_Y8():  i = limit; for (;;) { body; if (0 == --i) return FALSE; }    0 and negative limits wrap
Steps(c) == IF c.scan < 0 THEN Huge
            ELSE IF c.scan = 0 /\ c.lp = 1 THEN Huge
            ELSE c.scan

\* ---------------------------------------------------------------- behaviour
Init == cf \in Cfgs /\ pc = "idle" /\ n = 0 /\ k = 0 /\ lo = 0 /\ hi = 0 /\ w = 0

Started(c) ==          \* state after the call began on configuration c
  /\ n' = 0 /\ k' = 0 /\ w' = 0
  /\ IF c.lp = 1
     THEN pc' = "pro" /\ lo' = ByteLo(c, 0) /\ hi' = ByteHi(c, Window - 1)
     ELSE IF Steps(c) > 0
          THEN pc' = "scan" /\ lo' = ByteLo(c, 0) /\ hi' = ByteHi(c, ScanLast(c, 0))
          ELSE pc' = "done" /\ lo' = 0 /\ hi' = 0

Start ==               \* the call: skip the sample offset, low-pass: sum up the first window
  /\ pc = "idle" /\ cf.ok = 1 /\ cf' = cf /\ Started(cf)

Refused ==             \* the parameters were refused when the slicer was configured: a call returns FALSE at once
  /\ pc = "idle" /\ cf.ok = 0
  /\ pc' = "done" /\ UNCHANGED <<cf, n, k, lo, hi, w>>

FirstScan ==           \* low-pass: the loop body runs before the step counter is tested
  /\ pc = "pro" /\ pc' = "scan" /\ n' = 0
  /\ lo' = ByteLo(C, 0) /\ hi' = ByteHi(C, ScanLast(C, 0))
  /\ UNCHANGED <<cf, k, w>>

ScanStep ==            \* run-in not complete: next sample
  /\ pc = "scan" /\ n + 1 < Steps(C)
  /\ n' = n + 1 /\ lo' = ByteLo(C, ScanFirst(C, n + 1)) /\ hi' = ByteHi(C, ScanLast(C, n + 1))
  /\ UNCHANGED <<cf, pc, k, w>>

GiveUp ==              \* search limit reached
  /\ pc = "scan" /\ n + 1 >= Steps(C)
  /\ pc' = "done" /\ UNCHANGED <<cf, n, k, lo, hi, w>>

CriFound ==            \* run-in complete in step n: first data bit
  /\ pc = "scan" /\ DataBits(C) > 0
  /\ pc' = "bits" /\ k' = 0
  /\ lo' = ByteLo(C, BitFirst(C, n, 0)) /\ hi' = ByteHi(C, BitLast(C, n, 0))
  /\ UNCHANGED <<cf, n, w>>

NextBit ==
  /\ pc = "bits" /\ k + 1 < DataBits(C)
  /\ k' = k + 1
  /\ lo' = ByteLo(C, BitFirst(C, n, k + 1)) /\ hi' = ByteHi(C, BitLast(C, n, k + 1))
  /\ UNCHANGED <<cf, pc, n, w>>

FrcMismatch ==         \* framing code sampled, does not match: nothing stored
  /\ pc = "bits" /\ C.frc_bits > 0 /\ k = C.frc_bits - 1
  /\ pc' = "done" /\ UNCHANGED <<cf, n, k, lo, hi, w>>

Deliver ==             \* all bits sampled: the payload is in the buffer
  /\ pc = "bits" /\ k + 1 = DataBits(C)
  /\ pc' = "done" /\ w' = Stored(C) /\ UNCHANGED <<cf, n, k, lo, hi>>

Next == Start \/ Refused \/ FirstScan \/ ScanStep \/ GiveUp \/ CriFound \/ NextBit \/ FrcMismatch \/ Deliver
Spec == Init /\ [][Next]_vars

\* ---------------------------------------------------------------- properties
Reading == pc \in {"pro", "scan", "bits"}
TypeOK == /\ pc \in {"idle", "pro", "scan", "bits", "done"}
          /\ n \in Nat /\ k \in Nat /\ lo \in Nat /\ hi \in Nat /\ w \in Nat /\ lo <= hi
LineBound  == Reading => hi < Limit(C)
\* a line that is not the last row of its image is followed by at least one more row of the same size:
\* whatever it reads behind its own end must stay inside that row (the last row is LineBound itself)
InnerBound == Reading => hi < 2 * Limit(C)
\* a refused configuration never reads a sample and never delivers
RefusedIdle == C.ok = 0 => (pc \in {"idle", "done"} /\ w = 0)
WriteBound == w <= Permitted(C) /\ (w > 0 => pc = "done" /\ k + 1 = DataBits(C))
ChannelOk  == (C.skip - C.soff * C.bps) + C.wide < C.bps
\* within a line the accesses of the data bits move to the right only (so the last bit is the worst)
Rightward  == [][(pc = "bits" /\ pc' = "bits") => hi' >= hi]_vars
\* the configuration is chosen once (Init: cf \in Cfgs) and never changes during a call
CfgFixed   == [][cf' = cf]_vars
ScanRight  == [][(pc = "scan" /\ pc' = "scan") => (hi' = hi + C.bps /\ lo' = lo + C.bps)]_vars
=============================================================================
