---------------------------- MODULE SlicerBounds ----------------------------
(* Memory accesses of one bit slicer call on one scan line (property C05).

   A slicer is configured for a line of `spl` samples of `bps` bytes ("samples_per_line ...
   limits the number of bytes read from the raw data buffer", bit_slicer.h / decoder.h) and for an
   output buffer that holds the payload of the service.  It works in two phases:

     scan     the clock run-in is searched sample by sample; step n looks at sample n and, for the
              slope of the adaptive threshold and the oversampling, at its right neighbour; the
              low-pass variant (used when one bit covers more than 24 samples) looks at a window of
              16 samples and maintains the sum incrementally (adds sample n+16, drops sample n);
     bits     as soon as the run-in pattern is complete at scan step n, the framing code and the
              payload are sampled at the positions n + ((phase_shift + k * step) >> 8), linearly
              interpolated with the right neighbour (low-pass: the 16 sample window starting there,
              counted from the sample after n).  Nothing but the precomputed number of scan steps
              keeps these positions inside the line.

   The image content decides at which step the run-in completes and whether the framing code
   matches; the model leaves both open (every n, match and mismatch), which is exactly "any image
   content whatsoever".  The numbers of a configuration (scan steps, phase_shift, step, skip ...)
   are the fields of the real configured object, dumped by harness/drv_rawdec.c.

   Properties:  LineBound  - no access at or behind byte spl * bps of the line
                ImageBound - no access behind the image the line is part of (`after` more bytes)
                WriteBound - at most ceil(payload bits / 8) bytes are stored
                ChannelOk  - the sampled channel lies inside the pixel                         *)
EXTENDS Naturals, Sequences, TLC

CONSTANT Cfgs          \* sequence of configuration records, see MC_SlicerBounds / generated module

Window == 16           \* low-pass window, samples

VARIABLES ci,          \* configuration under examination (0 = none yet)
          pc,          \* "idle", "pro" (low-pass prologue), "scan", "bits", "done"
          n,           \* scan step
          k,           \* data bit (framing code bits first)
          lo, hi,      \* lowest / highest byte offset (from the line start) read in this step
          w            \* bytes stored in the output buffer
vars == <<ci, pc, n, k, lo, hi, w>>

C == Cfgs[ci]

\* ---------------------------------------------------------------- geometry
ByteLo(c, s) == c.skip + s * c.bps                 \* first byte of the sampled channel of sample s
ByteHi(c, s) == ByteLo(c, s) + c.wide              \* 16 bit pixels: the channel straddles both bytes
Limit(c)     == c.spl * c.bps
DataBits(c)  == c.frc_bits + (IF c.endian >= 2 THEN c.payload ELSE 8 * c.payload)
PayloadBits(c) == IF c.endian >= 2 THEN c.payload ELSE 8 * c.payload
Permitted(c) == (PayloadBits(c) + 7) \div 8
\* octet routines store one byte per octet; bit routines one per 8 bits and the remaining bits at the end
Stored(c)    == IF c.endian >= 2 THEN (c.payload \div 8) + 1 ELSE c.payload

BitPos(c, j)  == (c.phase_shift + j * c.step) \div 256
\* samples looked at by scan step m / by data bit j after the run-in completed in step m
ScanFirst(c, m) == m
ScanLast(c, m)  == IF c.lp = 1 THEN m + Window ELSE m + 1
BitFirst(c, m, j) == IF c.lp = 1 THEN m + 1 + BitPos(c, j) ELSE m + BitPos(c, j)
BitLast(c, m, j)  == IF c.lp = 1 THEN BitFirst(c, m, j) + Window - 1 ELSE BitFirst(c, m, j) + 1

\* ---------------------------------------------------------------- behaviour
Init == ci = 0 /\ pc = "idle" /\ n = 0 /\ k = 0 /\ lo = 0 /\ hi = 0 /\ w = 0

Pick(c) ==
  /\ pc = "idle" /\ ci' = c /\ n' = 0 /\ k' = 0 /\ w' = 0
  /\ IF Cfgs[c].lp = 1
     THEN pc' = "pro" /\ lo' = ByteLo(Cfgs[c], 0) /\ hi' = ByteHi(Cfgs[c], Window - 1)
     ELSE IF Cfgs[c].scan > 0
          THEN pc' = "scan" /\ lo' = ByteLo(Cfgs[c], 0) /\ hi' = ByteHi(Cfgs[c], ScanLast(Cfgs[c], 0))
          ELSE pc' = "done" /\ lo' = 0 /\ hi' = 0

FirstScan ==
  /\ pc = "pro" /\ pc' = "scan" /\ n' = 0
  /\ lo' = ByteLo(C, 0) /\ hi' = ByteHi(C, ScanLast(C, 0))
  /\ UNCHANGED <<ci, k, w>>

ScanStep ==            \* run-in not complete: next sample
  /\ pc = "scan" /\ n + 1 < C.scan
  /\ n' = n + 1 /\ lo' = ByteLo(C, ScanFirst(C, n + 1)) /\ hi' = ByteHi(C, ScanLast(C, n + 1))
  /\ UNCHANGED <<ci, pc, k, w>>

GiveUp ==              \* search limit reached
  /\ pc = "scan" /\ n + 1 >= C.scan
  /\ pc' = "done" /\ UNCHANGED <<ci, n, k, lo, hi, w>>

CriFound ==            \* run-in complete in step n: first data bit
  /\ pc = "scan" /\ DataBits(C) > 0
  /\ pc' = "bits" /\ k' = 0
  /\ lo' = ByteLo(C, BitFirst(C, n, 0)) /\ hi' = ByteHi(C, BitLast(C, n, 0))
  /\ UNCHANGED <<ci, n, w>>

NextBit ==
  /\ pc = "bits" /\ k + 1 < DataBits(C)
  /\ k' = k + 1
  /\ lo' = ByteLo(C, BitFirst(C, n, k + 1)) /\ hi' = ByteHi(C, BitLast(C, n, k + 1))
  /\ UNCHANGED <<ci, pc, n, w>>

FrcMismatch ==         \* framing code sampled, does not match: nothing stored
  /\ pc = "bits" /\ C.frc_bits > 0 /\ k = C.frc_bits - 1
  /\ pc' = "done" /\ UNCHANGED <<ci, n, k, lo, hi, w>>

Deliver ==             \* all bits sampled: the payload is in the buffer
  /\ pc = "bits" /\ k + 1 = DataBits(C)
  /\ pc' = "done" /\ w' = Stored(C) /\ UNCHANGED <<ci, n, k, lo, hi>>

Next == (\E c \in 1..Len(Cfgs) : Pick(c)) \/ FirstScan \/ ScanStep \/ GiveUp \/ CriFound \/ NextBit
        \/ FrcMismatch \/ Deliver
Spec == Init /\ [][Next]_vars

\* ---------------------------------------------------------------- properties
Reading == pc \in {"pro", "scan", "bits"}
TypeOK == /\ ci \in 0..Len(Cfgs) /\ pc \in {"idle", "pro", "scan", "bits", "done"}
          /\ n \in Nat /\ k \in Nat /\ lo \in Nat /\ hi \in Nat /\ w \in Nat /\ lo <= hi
LineBound  == Reading => hi < Limit(C)
ImageBound == Reading => hi < Limit(C) + C.after
WriteBound == ci > 0 => w <= Permitted(C)
ChannelOk  == ci > 0 => (C.skip - C.soff * C.bps) + C.wide < C.bps
\* within a line the accesses of the data bits move to the right only (so the last bit is the worst)
Rightward  == [][(pc = "bits" /\ pc' = "bits") => hi' >= hi]_vars
=============================================================================
