------------------------------ MODULE ProxyConn ------------------------------
(* The proxy daemon's connection layer on top of ProxyToken: what a client can send at which byte
   position in which connection state, and what the daemon does with it
   (vbi_proxyd_handle_client_sockets, vbi_proxy_msg_handle_read, vbi_proxyd_check_msg,
   vbi_proxyd_take_message).

   Per connection: the read phase `rd` ("idle": between messages; "hdr": 1..7 bytes of a header
   received; "body": header complete and legal, body incomplete) and `wr` (a reply or indication is
   queued or partly written).  The daemon reads from a connection only while nothing is queued for it,
   and sends indications only while the connection is idle in both directions.

   One action per complete message kind x connection state (the matrix of take_message), one per
   way a client can deviate: a message cut anywhere (PartialHdr, HdrLegal + silence), an illegal
   length field (HdrIllegal), a message that fails check_msg (BadMsg: wrong size for its type, a
   server-to-client or unknown type, bad magic), a message not allowed in the state (WrongState),
   a disconnect at any point (Disconnect).

   Property BadClientIsolated (C19, first sentence): whatever one client does, the daemon stays up
   (up' = TRUE, ProxyToken!NoCrash), no other connection is closed or loses its subscription, and the
   daemon keeps accepting connections; a faulty client loses at most its own connection, whose
   resources (list entry, services, token) are released (ProxyToken!Gone).

   FixHdrLen = FALSE / FixPartial = FALSE reproduce the code before c4645fa and d129e15+ed95f84
   (assertions reachable by an illegal length field / a partly received message). *)
EXTENDS ProxyToken

CONSTANTS FixHdrLen,      \* illegal length field: phase two of the read is skipped (c4645fa)
          FixPartial      \* a partly received message is a normal condition (d129e15, ed95f84)

VARIABLES rd, wr
cvars == <<vars, rd, wr>>

CTypeOK == /\ TypeOK
           /\ rd \in [Clients -> {"idle", "hdr", "body"}] /\ wr \in [Clients -> BOOLEAN]
           /\ \A c \in Clients : cst[c] = "none" => rd[c] = "idle" /\ ~wr[c]

CInit == Init /\ rd = [c \in Clients |-> "idle"] /\ wr = [c \in Clients |-> FALSE]

Readable(c) == up /\ cst[c] # "none" /\ ~wr[c]          \* the daemon reads only when nothing is queued
Idle(c) == rd[c] = "idle" /\ ~wr[c]                      \* vbi_proxy_msg_is_idle
Reply(c) == wr' = [wr EXCEPT ![c] = TRUE] /\ rd' = [rd EXCEPT ![c] = "idle"]
NoReply(c) == wr' = wr /\ rd' = [rd EXCEPT ![c] = "idle"]
Reset(c) == wr' = [wr EXCEPT ![c] = FALSE] /\ rd' = [rd EXCEPT ![c] = "idle"]
Crash == up' = FALSE /\ UNCHANGED <<order, cst, prio, valid, tok, svc, nsi, holders, rd, wr>>

\* the connection is dropped: vbi_proxyd_close + removal (ProxyToken!Gone)
Drop(c) == Gone(c) /\ Reset(c)

---------------------------------------------------------------------------
(* well-formed, complete messages: the matrix of vbi_proxyd_take_message *)

CAccept(c) == Accept(c) /\ UNCHANGED <<rd, wr>>

\* CONNECT_REQ in WAIT_CON_REQ: confirmed (s: services granted; f: NO_STATUS_IND among the client flags) ...
MConnect(c, s, f) == Readable(c) /\ Connect(c, s, f) /\ Reply(c)
\* ... or rejected (incompatible version / no service could be granted): CONNECT_REJ is queued and the
\* connection closed in the same pass.  DAEMON_PID_REQ likewise (confirmation, then close).
MConnectRej(c) == Readable(c) /\ cst[c] = "wait" /\ Drop(c)
MPidReq(c) == Readable(c) /\ cst[c] = "wait" /\ Drop(c)

MServiceReq(c, s) == Readable(c) /\ ServiceReq(c, s) /\ Reply(c)
MTokenReq(c, p, v) == Readable(c) /\ TokenReq(c, p, v) /\ Reply(c)
MNotify(c, F) == Readable(c) /\ Notify(c, F) /\ Reply(c)
\* CHN_IOCTL_REQ: confirmed or rejected, no state change (the device is opened and closed again if needed)
MIoctl(c) == Readable(c) /\ cst[c] = "fwd" /\ Reply(c) /\ UNCHANGED vars
\* CHN_SUSPEND_REQ: rejected in every state
MSuspend(c) == Readable(c) /\ Reply(c) /\ UNCHANGED vars
\* CHN_RECLAIM_CNF: no reply, every state
MReclaimCnf(c) == Readable(c) /\ ReclaimCnf(c) /\ NoReply(c)
\* CLOSE_REQ: every state
MCloseReq(c) == Readable(c) /\ Drop(c)

\* a message that is well-formed but not allowed in the connection state: connection dropped
\* (CONNECT_REQ, DAEMON_PID_REQ in FORWARD; SERVICE/TOKEN/NOTIFY/IOCTL requests before the connect)
WrongState(c) == Readable(c) /\ Drop(c)

---------------------------------------------------------------------------
(* deviations *)

\* 1..7 bytes of a header, then silence
PartialHdr(c) == /\ Readable(c) /\ rd[c] \in {"idle", "hdr"}
                 /\ IF FixPartial THEN rd' = [rd EXCEPT ![c] = "hdr"] /\ UNCHANGED <<vars, wr>> ELSE Crash
\* header complete, legal length, body missing: silence
HdrLegal(c) == /\ Readable(c)
               /\ IF FixPartial THEN rd' = [rd EXCEPT ![c] = "body"] /\ UNCHANGED <<vars, wr>> ELSE Crash
\* header complete, length field below the header size or above the buffer size
HdrIllegal(c) == /\ Readable(c) /\ rd[c] \in {"idle", "hdr"}
                 /\ IF FixHdrLen THEN Drop(c) ELSE Crash
\* complete message rejected by check_msg: length does not fit the type, type is a daemon-to-client or
\* unknown one, bad magic / endian magic
BadMsg(c) == Readable(c) /\ Drop(c)
\* the client closes its socket (at any byte): the daemon sees EOF or a write error
Disconnect(c) == up /\ cst[c] # "none" /\ Drop(c)

---------------------------------------------------------------------------
(* daemon steps *)

WriteDone(c) == up /\ wr[c] /\ wr' = [wr EXCEPT ![c] = FALSE] /\ UNCHANGED <<vars, rd>>
CSendReclaim(c) == Idle(c) /\ SendReclaim(c) /\ Reply(c)
CSendGrant(c) == Idle(c) /\ SendGrant(c) /\ Reply(c)
CTimer == Timer /\ UNCHANGED <<rd, wr>>

\* everything client c can cause
ClientStep(c) ==
  \/ \E s \in BOOLEAN : MServiceReq(c, s) \/ \E f \in BOOLEAN : MConnect(c, s, f)
  \/ MConnectRej(c) \/ MPidReq(c) \/ MIoctl(c) \/ MSuspend(c) \/ MReclaimCnf(c) \/ MCloseReq(c)
  \/ \E p \in Prios, v \in BOOLEAN : MTokenReq(c, p, v)
  \/ \E F \in SUBSET Flags : MNotify(c, F)
  \/ WrongState(c) \/ PartialHdr(c) \/ HdrLegal(c) \/ HdrIllegal(c) \/ BadMsg(c) \/ Disconnect(c)

CNext == \/ \E c \in Clients : CAccept(c) \/ ClientStep(c) \/ WriteDone(c) \/ CSendReclaim(c) \/ CSendGrant(c)
         \/ CTimer

CSpec == CInit /\ [][CNext]_cvars

---------------------------------------------------------------------------
(* properties *)

\* Whatever client c does: the daemon stays up, and every other connection keeps its state, its
\* subscription, its place in the list and its I/O phase.
OthersKept(c) == \A d \in Clients \ {c} :
                    /\ cst'[d] = cst[d] /\ svc'[d] = svc[d] /\ rd'[d] = rd[d] /\ wr'[d] = wr[d]
                    /\ (d \in Range(order) <=> d \in Range(order'))
BadClientIsolated == [][\A c \in Clients : ClientStep(c) => up' /\ OthersKept(c)]_cvars
\* the same, stated from the other side (cheaper to evaluate): the connection of d changes only by a step
\* of d itself or a daemon step for d
ConnChanged(d) == \/ cst'[d] # cst[d] \/ svc'[d] # svc[d] \/ rd'[d] # rd[d] \/ wr'[d] # wr[d]
                  \/ ~(d \in Range(order) <=> d \in Range(order'))
OwnStep(d) == ClientStep(d) \/ CAccept(d) \/ WriteDone(d) \/ CSendReclaim(d) \/ CSendGrant(d)
OnlyOwnSteps == [][\A d \in Clients : ConnChanged(d) => OwnStep(d)]_cvars
\* ... and the daemon still accepts connections
StillAccepts == up => \A c \in Clients : cst[c] = "none" => ENABLED CAccept(c)
\* a dropped connection has released everything it had
Released == \A c \in Clients : cst[c] = "none" => tok[c] = "NONE" /\ ~svc[c] /\ c \notin holders /\ c \notin Listed
\* the list holds every open connection exactly once
ListOK == \A c \in Clients : cst[c] # "none" <=> c \in Listed

\* reachability companions (must be violated)
NeverPartial == \A c \in Clients : rd[c] = "idle"
NeverDroppedWithToken == [][\A c \in Clients : (cst[c] # "none" /\ cst'[c] = "none") => tok[c] = "NONE"]_cvars
=============================================================================
