CONSTANTS CiStart = 14 K = 39 NP = 3 Sizes = {1, 34, 77, 300} Fills = {0, 2} MaxBlocks = 2 Faults = {"none", "drop"} Units = {"bp"} Policies = {"strict"} UnitBlocks = 2 TailCheck = TRUE Foreign = {"none", "page", "stream", "mag"} TailAtForeign = TRUE Noise = {0, 26, 27, 28, 29, 30, 31, 101, 125, 126, 127, 128, 129, 130, 131} NoisePos = {"all", "one"} NoiseFaults = {"none"}
SPECIFICATION GLeapSpec
CONSTRAINT Dump
INVARIANTS Sound Complete Resume NoiseNeutral
CHECK_DEADLOCK FALSE
