CONSTANTS TimeBits = 32 FixedZone <- Fixed RejectZones <- Reject Refs <- Refs32 Offsets <- OffsQ
  PMonths = {1,2,3,4,5,6,7,8,9,10,11,12} PDays <- DaysQ PHours = {0, 3, 23} PMinutes = {0, 59} TzValues = {"U"}
SPECIFICATION Spec
INVARIANTS TypeOK FieldsOK NearestYear FailsOK WindowOK PtyOK RelationalOK
PROPERTIES FrameTZ
CHECK_DEADLOCK FALSE
