-------------------------- MODULE Trace_CanvasCells --------------------------
(* Trace validation of vbi_draw_vt_page_region / vbi_draw_cc_page_region against CanvasCells.

   Log of harness/drv_exportio.c (one JSON object per line, strings of cell marks split into sequences by the check):
   Page  rows cols sz           sizes of the cells of the vbi_page the decoder produced
   Draw  fmt stride col row w h cells pad pre post
         one region drawn into a fresh canvas of the documented size (rowstride * h * cell height bytes) that
         was filled with a guard pattern and lies between two guard bands.  Projection to cells: cells[i][j] =
         (or uni = the mark of all cells when they are all alike)
         "G" the pixel block equals the block the library's full-page rendering (same format, reveal, flash)
         shows for page cell (row + i, col + j), "U" the guard pattern is intact, "X" anything else;
         pad[i] = "U" / "X" for the bytes between the end of the region's pixel rectangle and the next line
         (stride exact: none; plus5 / plus8: 5 / 8 bytes; full: the rest of a page-wide image);  pre / post =
         number of modified bytes in the guard bands before / after the canvas.
   Pages and regions generated from the edge pages of MC_CanvasCells (Gen_CanvasCells) carry the model page with its geometry
   (Page: m = [rows, cols, fr, fc, sz]) and the model region (Draw: mrg = [col, row, w, h]).  For these the trace
   specification first verifies the correspondence the generator relies on - the real page is the model page with the filler
   row / column stretched (Abstracts), the real region's edges lie in the rows / columns the model region's edges stand for
   (RegionMaps) and the real region cuts a character iff the model region does; a failure is reported with class "binding"
   (the case that ran is not the case TLC enumerated: the check is broken, not the library).
   A Draw line is accepted iff the observation equals CanvasCells!Post applied to a fresh canvas: nothing
   outside the region's rectangle is touched (any region, stride, format), an unsupported format touches
   nothing at all, and a region that does not cut a double width / double size character shows, cell by
   cell, what the full-page rendering shows.

   Every line is judged (a rejected line does not end the validation): the verdict of a rejected line is
   printed as <<"TV-BAD", line, reason, "cut" | "whole">> and counted; AllAccepted fails at the end of the log
   when any line was rejected. *)
EXTENDS MC_CanvasCells, Json, IOUtils

Log == ndJsonDeserialize(IOEnv.TRACEFILE)
VARIABLES l, model, nbad                   \* (the current page is the variable page of CanvasCells)
tvars == <<l, model, nbad, vars>>
Ev == Log[l]
NoPage == [rows |-> 0, cols |-> 0, sz |-> <<>>]
NoModel == [rows |-> 0, cols |-> 0, fr |-> 0, fc |-> 0, sz |-> <<>>]

\* ---- correspondence between a real page and the edge page it was generated from (geometry g = the model record itself)
\* index i of n real rows (columns) -> index in the model with m rows (columns) and filler f
MapIx(i, n, m, f) == IF i < f THEN i ELSE IF i > n - (m - f) THEN m - (n - i) ELSE f
Abstracts(g, p) == /\ p.rows >= g.rows /\ p.cols >= g.cols /\ Len(g.sz) = g.rows * g.cols
                   /\ \A i \in 1..p.rows : \A j \in 1..p.cols :
                        Sz(p, i, j) = g.sz[(MapIx(i, p.rows, g.rows, g.fr) - 1) * g.cols + MapIx(j, p.cols, g.cols, g.fc)]
RegionMaps(g, p, rg, mrg) == /\ MapIx(rg.col, p.cols, g.cols, g.fc) = mrg[1] /\ MapIx(rg.col + rg.w - 1, p.cols, g.cols, g.fc) = mrg[1] + mrg[3] - 1
                             /\ MapIx(rg.row, p.rows, g.rows, g.fr) = mrg[2] /\ MapIx(rg.row + rg.h - 1, p.rows, g.rows, g.fr) = mrg[2] + mrg[4] - 1
                             /\ CutsBorder(p, rg) = Cuts([rows |-> g.rows, cols |-> g.cols, sz |-> g.sz], [col |-> mrg[1], row |-> mrg[2], w |-> mrg[3], h |-> mrg[4]])

\* the region in the model's coordinates (from 1)
Rg(ev) == [col |-> ev.col + 1, row |-> ev.row + 1, w |-> ev.w, h |-> ev.h]
\* the marks of the region's cells: a matrix, or (lossless shorthand of the recorder) uni = the mark all cells have
Uniform(ev) == "uni" \in DOMAIN ev
Shape(ev) == /\ Len(ev.pad) = ev.h
             /\ ~Uniform(ev) => Len(ev.cells) = ev.h /\ \A i \in 1..ev.h : Len(ev.cells[i]) = ev.w

\* the observation the specification predicts for cell (i, j) of the region's canvas
Expect(p, ev, i, j) == PostMark(p, Rg(ev), ev.fmt, Rg(ev).row + i - 1, Rg(ev).col + j - 1)
\* (every cell of a log line lies in the region, where PostMark does not depend on the cell: uniform lines are compared once)
AllAsExpected(p, ev) == IF Uniform(ev) THEN ev.uni = Expect(p, ev, 1, 1)
                        ELSE \A i \in 1..ev.h : \A j \in 1..ev.w : ev.cells[i][j] = Expect(p, ev, i, j)
Verdict(p, ev) ==
  IF ~RegionOK(p, Rg(ev)) \/ ~Shape(ev) THEN "malformed"
  ELSE IF "mrg" \in DOMAIN ev /\ (model.rows = 0 \/ ~RegionMaps(model, p, Rg(ev), ev.mrg)) THEN "region-is-not-the-modelled-one"
  ELSE IF ev.pre # 0 THEN "outside:before-canvas"                        \* Frame: nothing outside the region's rectangle
  ELSE IF ev.post # 0 THEN "outside:after-canvas"
  ELSE IF \E i \in 1..ev.h : ev.pad[i] # "U" THEN "outside:line-padding"
  ELSE IF ~Supported(ev.fmt)
       THEN (IF AllAsExpected(p, ev) THEN "ok" ELSE "unsupported-format-drew")
  ELSE IF CutsBorder(p, Rg(ev)) THEN "ok"                                    \* (= Cuts, ASSUME MarksOK)
  ELSE IF AllAsExpected(p, ev) THEN "ok"
  ELSE "cells-differ-from-full-page"

\* (the pages of the decoder need not be WellFormed: enhancement data can leave continuation cells without an anchor; Post, Cuts
\* and the frame condition are meaningful for any arrangement of sizes)
TPage == /\ Ev.a = "Page" /\ Len(Ev.sz) = Ev.rows * Ev.cols
         /\ LET np == [rows |-> Ev.rows, cols |-> Ev.cols, sz |-> Ev.sz]
                nm == IF "m" \in DOMAIN Ev THEN Ev.m ELSE NoModel IN
            /\ page' = np /\ model' = nm
            /\ IF nm.rows > 0 /\ ~Abstracts(nm, np)
               THEN PrintT(<<"TV-BAD", l, "page-is-not-the-modelled-one", "binding">>) /\ nbad' = nbad + 1
               ELSE UNCHANGED nbad
TDraw == /\ Ev.a = "Draw" /\ page.rows > 0 /\ UNCHANGED <<page, model>>
         /\ LET v == Verdict(page, Ev) IN
            /\ IF v = "ok" THEN TRUE
               ELSE PrintT(<<"TV-BAD", l, v, IF v = "region-is-not-the-modelled-one" THEN "binding"
                                              ELSE IF RegionOK(page, Rg(Ev)) /\ CutsBorder(page, Rg(Ev)) THEN "cut" ELSE "whole">>)
            /\ nbad' = nbad + (IF v = "ok" THEN 0 ELSE 1)

TInit == /\ l = 1 /\ page = NoPage /\ model = NoModel /\ nbad = 0 /\ canvas = <<>> /\ ndraw = 0
         /\ last = [rg |-> [col |-> 1, row |-> 1, w |-> 1, h |-> 1], fmt |-> "none", stride |-> "none"]
TNext == l <= Len(Log) /\ l' = l + 1 /\ (TPage \/ TDraw) /\ UNCHANGED <<canvas, ndraw, last>>
TSpec == TInit /\ [][TNext]_tvars
AllAccepted == l = Len(Log) + 1 => nbad = 0
TraceAccepted == LET n == TLCGet("stats").diameter - 1 IN
                 IF n = Len(Log) THEN TRUE
                 ELSE PrintT(<<"TV-REJECT", n + 1, Len(Log)>>) /\ FALSE
=============================================================================
