-------------------------- MODULE Trace_CanvasCells --------------------------
(* Trace validation of vbi_draw_vt_page_region / vbi_draw_cc_page_region against CanvasCells.

   Log of harness/drv_exportio.c (one JSON object per line, strings of cell marks split into sequences by the check):
   Page  rows cols sz           sizes of the cells of the vbi_page the decoder produced
   Draw  fmt stride col row w h cells pad pre post
         one region drawn into a fresh canvas of the documented size (rowstride * h * cell height bytes) that
         was filled with a guard pattern and lies between two guard bands.  Projection to cells: cells[i][j] =
         "G" the pixel block equals the block the library's full-page rendering (same format, reveal, flash)
         shows for page cell (row + i, col + j), "U" the guard pattern is intact, "X" anything else;
         pad[i] = "U" / "X" for the bytes between the end of the region's pixel rectangle and the next line
         (stride exact: none; plus5 / plus8: 5 / 8 bytes; full: the rest of a page-wide image);  pre / post =
         number of modified bytes in the guard bands before / after the canvas.
   A Draw line is accepted iff the observation equals CanvasCells!Post applied to a fresh canvas: nothing
   outside the region's rectangle is touched (any region, stride, format), an unsupported format touches
   nothing at all, and a region that does not cut a double width / double size character shows, cell by
   cell, what the full-page rendering shows.

   Every line is judged (a rejected line does not end the validation): the verdict of a rejected line is
   printed as <<"TV-BAD", line, reason, "cut" | "whole">> and counted; AllAccepted fails at the end of the log
   when any line was rejected. *)
EXTENDS MC_CanvasCells, Json, IOUtils

Log == ndJsonDeserialize(IOEnv.TRACEFILE)
VARIABLES l, page, nbad
tvars == <<l, page, nbad, vars>>
Ev == Log[l]
NoPage == [rows |-> 0, cols |-> 0, sz |-> <<>>]

\* the region in the model's coordinates (from 1)
Rg(ev) == [col |-> ev.col + 1, row |-> ev.row + 1, w |-> ev.w, h |-> ev.h]
\* the observation the specification predicts for cell (i, j) of the region's canvas
Expect(p, ev, i, j) == PostMark(p, Rg(ev), ev.fmt, Rg(ev).row + i - 1, Rg(ev).col + j - 1)
Shape(ev) == Len(ev.cells) = ev.h /\ Len(ev.pad) = ev.h /\ \A i \in 1..ev.h : Len(ev.cells[i]) = ev.w

Verdict(p, ev) ==
  IF ~RegionOK(p, Rg(ev)) \/ ~Shape(ev) THEN "malformed"
  ELSE IF ev.pre # 0 THEN "outside:before-canvas"                        \* Frame: nothing outside the region's rectangle
  ELSE IF ev.post # 0 THEN "outside:after-canvas"
  ELSE IF \E i \in 1..ev.h : ev.pad[i] # "U" THEN "outside:line-padding"
  ELSE IF ~Supported(ev.fmt)
       THEN (IF \A i \in 1..ev.h : \A j \in 1..ev.w : ev.cells[i][j] = "U" THEN "ok" ELSE "unsupported-format-drew")
  ELSE IF Cuts(p, Rg(ev)) THEN "ok"
  ELSE IF \A i \in 1..ev.h : \A j \in 1..ev.w : ev.cells[i][j] = Expect(p, ev, i, j) THEN "ok"
  ELSE "cells-differ-from-full-page"

\* (the pages of the decoder need not be WellFormed: enhancement data can leave continuation cells without an anchor; Post, Cuts
\* and the frame condition are meaningful for any arrangement of sizes)
TPage == /\ Ev.a = "Page" /\ Len(Ev.sz) = Ev.rows * Ev.cols
         /\ page' = [rows |-> Ev.rows, cols |-> Ev.cols, sz |-> Ev.sz] /\ UNCHANGED nbad
TDraw == /\ Ev.a = "Draw" /\ page.rows > 0 /\ UNCHANGED page
         /\ LET v == Verdict(page, Ev) IN
            /\ IF v = "ok" THEN TRUE
               ELSE PrintT(<<"TV-BAD", l, v, IF RegionOK(page, Rg(Ev)) /\ Cuts(page, Rg(Ev)) THEN "cut" ELSE "whole">>)
            /\ nbad' = nbad + (IF v = "ok" THEN 0 ELSE 1)

TInit == l = 1 /\ page = NoPage /\ nbad = 0 /\ Init
TNext == l <= Len(Log) /\ l' = l + 1 /\ (TPage \/ TDraw) /\ UNCHANGED vars
TSpec == TInit /\ [][TNext]_tvars
AllAccepted == l = Len(Log) + 1 => nbad = 0
TraceAccepted == LET n == TLCGet("stats").diameter - 1 IN
                 IF n = Len(Log) THEN TRUE
                 ELSE PrintT(<<"TV-REJECT", n + 1, Len(Log)>>) /\ FALSE
=============================================================================
