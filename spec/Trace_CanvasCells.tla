-------------------------- MODULE Trace_CanvasCells --------------------------
(* Trace validation of vbi_draw_vt_page_region / vbi_draw_cc_page_region against CanvasCells.

   Log of harness/drv_exportio.c:
   Page  rows cols sz           sizes of the cells of the vbi_page the decoder produced
   Draw  fmt stride col row w h cells pad pre post
         one region drawn into a fresh canvas of the documented size (rowstride * h * cell height bytes) that
         was filled with a guard pattern and lies between two guard bands.  Projection to cells: cells[i][j] =
         "G" the pixel block equals the block the library's full-page rendering (same format, reveal, flash)
         shows for page cell (row + i, col + j), "U" the guard pattern is intact, "X" anything else;
         pad[i] = "U" / "X" for the bytes between the end of the region's pixel rectangle and the next line
         (stride exact: none; plus5: 5 bytes; full: the rest of a page-wide image);  pre / post = number of
         modified bytes in the guard bands before / after the canvas.
   A Draw line is accepted iff the observation equals CanvasCells!Post applied to a fresh canvas: nothing
   outside the region's rectangle is touched (any region, stride, format), an unsupported format touches
   nothing at all, and a region that does not cut a double width / double size character shows, cell by
   cell, what the full-page rendering shows. *)
EXTENDS MC_CanvasCells, Json, IOUtils

Log == ndJsonDeserialize(IOEnv.TRACEFILE)
VARIABLES l, page
tvars == <<l, page, vars>>
Ev == Log[l]
NoPage == [rows |-> 0, cols |-> 0, sz |-> <<>>]

\* the region in the model's coordinates (from 1)
Rg(ev) == [col |-> ev.col + 1, row |-> ev.row + 1, w |-> ev.w, h |-> ev.h]
\* the observation the specification predicts for cell (i, j) of the region's canvas
Expect(p, ev, i, j) ==
  LET rg == Rg(ev)
      r == rg.row + i - 1  c == rg.col + j - 1
      after == Post(p, rg, ev.fmt, Fresh(p))[<<r, c>>]
  IN IF after = U THEN "U" ELSE IF after = Shown(p, r, c) THEN "G" ELSE "X"
FrameOK(ev) == ev.pre = 0 /\ ev.post = 0 /\ \A i \in DOMAIN ev.pad : ev.pad[i] = "U"
Observed(p, ev) ==
  /\ RegionOK(p, Rg(ev))
  /\ FrameOK(ev)
  /\ Len(ev.cells) = ev.h /\ \A i \in 1..ev.h : Len(ev.cells[i]) = ev.w
  /\ (~Supported(ev.fmt) \/ ~Cuts(p, Rg(ev))) => \A i \in 1..ev.h : \A j \in 1..ev.w : ev.cells[i][j] = Expect(p, ev, i, j)

TPage == /\ Ev.a = "Page" /\ Len(Ev.sz) = Ev.rows * Ev.cols
         /\ page' = [rows |-> Ev.rows, cols |-> Ev.cols, sz |-> Ev.sz]
         /\ WellFormed(page')
TDraw == Ev.a = "Draw" /\ page.rows > 0 /\ Observed(page, Ev) /\ UNCHANGED page

TInit == l = 1 /\ page = NoPage /\ Init
TNext == l <= Len(Log) /\ l' = l + 1 /\ (TPage \/ TDraw) /\ UNCHANGED vars
TSpec == TInit /\ [][TNext]_tvars
TraceAccepted == LET n == TLCGet("stats").diameter - 1 IN
                 IF n = Len(Log) THEN TRUE
                 ELSE PrintT(<<"TV-REJECT", n + 1, Len(Log)>>) /\ FALSE
=============================================================================
