CONSTANTS MinPg = 256 MaxPg = 2303 MaxSub = 16254 Depth = 0
  PagePts = {256} SubPts = {0} BadPages = {255} BadSubs = {16256}
  HdrPages = {256, 427, 512} HdrSubs = {0} RowNums = {1} Services = {"vps"} BulkServices = {} BulkN = 60
  MaxLines = 3 MaxHist = 3 MaxConf = 1 MaxFrames = 1
SPECIFICATION TSpec
VIEW tview
ACTION_CONSTRAINT DumpCall
CHECK_DEADLOCK FALSE
