CONSTANTS Scanning = 525 Use <- UseNtsc Geoms <- GeomsNtsc AddSets <- AddNtsc RateCfgs <- Rates Apis = {"new", "old"}
  Stricts = {0, 1, 2} Ways = 8 MaxJobs = 8 MaxCalls = 9 MaxDecodes = 9 MaxCarried = 2 MaxDepth = 5 ShortOut = TRUE Fixed = TRUE
SPECIFICATION Spec
VIEW core
CONSTRAINT DepthBound
INVARIANTS TypeOK JobsOK NoRunOff SearchedOnOwnLines
PROPERTIES ACompleteP AOnlyRequested AIdentifiedAs ALineNumbers AAscending ABlankSilent ABounded ARemovedEverywhere AddReturnsDecodable LearningKeepsJobs
CHECK_DEADLOCK FALSE
