CONSTANTS Chans = {1, 3} Rows = {0, 14} Chars = {65, 32} MaxPairs = 4
SPECIFICATION GSpec
VIEW gview
INVARIANT Dump
CHECK_DEADLOCK FALSE
