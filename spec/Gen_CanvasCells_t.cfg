CONSTANTS Geo <- GeoT Kinds = {1, 2, 3, 4, 5, 6, 7} Variants <- VariantsAll NVar = 4
  Pages = {} Formats = {} Strides = {} MaxDraws = 0 Clip = "region"
SPECIFICATION GSpec
CONSTRAINT Dump
CHECK_DEADLOCK FALSE
