CONSTANTS Clients = {1, 2, 3} Services = {"ttx", "wss", "x"} Supported = {"ttx", "wss"} Base = 1 S = 4 MaxFrames = 1000
  Threaded = FALSE LevelsUsed = {0, 2} Discards = {FALSE} Faulty = {} Depth = 90 WTick = 40 WRead = 8
SPECIFICATION GSpec
CONSTRAINT Dump
CHECK_DEADLOCK FALSE
