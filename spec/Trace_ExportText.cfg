CONSTANTS Codes = {0} SizeVals = {0} MRows = 1 MCols = 1 Gfxs = {32} UnreprSets = {}
SPECIFICATION TSpec
INVARIANT AllAccepted
POSTCONDITION TraceAccepted
CHECK_DEADLOCK FALSE
