CONSTANTS Carriers = {"xds"} Vals = {"a", "b", "u"} WssWords = {} MaxRecv = 8 UnknownOnce = TRUE XdsGuard = FALSE
SPECIFICATION Spec
CONSTRAINT Bounded
INVARIANTS TypeOK Faithful
PROPERTIES OnlyAfterRepeat NetworkMeansChange OneNetworkEvent CacheKept CacheDropped
CHECK_DEADLOCK FALSE
