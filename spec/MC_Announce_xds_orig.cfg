CONSTANTS Carriers = {"xds"} Vals = {"a", "b", "u"} WssWords = {} MaxRecv = 8 UnknownOnce = TRUE XdsGuard = FALSE Calls = {"a", "b"}
SPECIFICATION Spec
CONSTRAINT Bounded
INVARIANTS TypeOK Faithful XdsSettles
PROPERTIES OnlyAfterRepeat NetworkMeansChange OneNetworkEvent CacheKept CacheDropped
CHECK_DEADLOCK FALSE
