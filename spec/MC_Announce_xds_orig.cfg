CONSTANTS Carriers = {"xds"} Vals = {"a", "b", "u"} Labels = {} Times = {} Bads = {}
  WssWords = {} MaxRecv = 8 UnknownOnce = TRUE XdsGuard = FALSE Calls = {"a", "b"}
  Handlers = {"h1"} InitMasks = {{"NETWORK", "NETWORK_ID", "PROG_ID", "LOCAL_TIME", "ASPECT", "TTX_PAGE", "CAPTION"}} RegMasks = {} Apis = {"reg"} MaxReg = 0 CdLen = 40 IdleSteps = {} MaxGap = 0 MaxIdle = 0
SPECIFICATION Spec
CONSTRAINT Bounded
INVARIANTS TypeOK Faithful XdsSettles
PROPERTIES OfThisReception OnlyAfterRepeat VpsLabelTwice NetworkMeansChange OneNetworkEvent NotAgainWhileSame StationKept CacheKept CacheDropped Gated WssOnlyAfterRepeats AspectRevertOnlyOnChange GapKeeps DropOutOnce
CHECK_DEADLOCK FALSE
