------------------------- MODULE Trace_SlicerBounds -------------------------
(* Trace validation for SlicerBounds: the log holds slicer calls of the real library recorded
   through vbi3_bit_slicer_slice_with_points() (harness/drv_rawdec.c, command P): per call the
   fields of the configured object, the scan step at which the last run-in bit was clocked in, the
   sample every framing code / payload bit was taken from, and the result.  The log is accepted iff
   every call is a behaviour of SlicerBounds, i. e. the run-in completes at a step the model has and
   every bit is sampled exactly where the model says; all invariants of SlicerBounds (LineBound ...)
   are evaluated in every state of the recorded executions.                                    *)
EXTENDS SlicerBounds, Json, IOUtils

Log == ndJsonDeserialize(IOEnv.TRACEFILE)
TraceCfgs == {Log[1].cf}      \* only needed to instantiate SlicerBounds; the configurations come with the Start lines

VARIABLE l
tvars == <<vars, l>>
Ev == Log[l]

TStart == /\ Ev.a = "Start" /\ Ev.cf.ok = 1 /\ cf' = Ev.cf /\ Started(Ev.cf)

\* the search went on until step Ev.n (ScanStep repeated), where the last run-in bit was clocked in
TCri == /\ Ev.a = "Cri" /\ pc \in {"pro", "scan"} /\ Ev.n < Steps(C) /\ (pc = "scan" => Ev.n >= n)
        /\ pc' = "scan" /\ n' = Ev.n
        /\ lo' = ByteLo(C, ScanFirst(C, Ev.n)) /\ hi' = ByteHi(C, ScanLast(C, Ev.n))
        /\ UNCHANGED <<cf, k, w>>

TBit == /\ Ev.a = "Bit"
        /\ \/ CriFound /\ BitFirst(C, n, 0) = Ev.pos
           \/ NextBit /\ BitFirst(C, n, k + 1) = Ev.pos

TEnd == /\ Ev.a = "End"
        /\ IF Ev.r = 1 THEN Deliver
           ELSE /\ pc \in {"pro", "scan", "done"} /\ pc' = "done"      \* run-in not found, or framing code mismatch (no points reported)
                /\ UNCHANGED <<cf, n, k, lo, hi, w>>

TNext == /\ l <= Len(Log) /\ l' = l + 1
         /\ (TStart \/ TCri \/ TBit \/ TEnd)

TInit == /\ l = 1 /\ cf = Log[1].cf /\ pc = "idle" /\ n = 0 /\ k = 0 /\ lo = 0 /\ hi = 0 /\ w = 0
TSpec == TInit /\ [][TNext]_tvars

\* TypeOK without the membership of cf in the (log sized) configuration set
TTypeOK == /\ pc \in {"idle", "pro", "scan", "bits", "done"}
           /\ n \in Nat /\ k \in Nat /\ lo \in Nat /\ hi \in Nat /\ w \in Nat /\ lo <= hi

TraceAccepted == LET d == TLCGet("stats").diameter - 1 IN
                 IF d = Len(Log) THEN TRUE
                 ELSE PrintT(<<"TV-REJECT", d + 1, Len(Log)>>) /\ FALSE
=============================================================================
