CONSTANTS TimeBits = 64 FixedZone <- Fixed RejectZones <- Reject Refs <- RefsOne Offsets <- OffsNone
  PMonths = {1} PDays = {1} PHours = {0} PMinutes = {0} TzValues = {"U"}
SPECIFICATION Spec
INVARIANTS TypeOK CalendarQuickOK LayoutQuickOK
PROPERTIES FrameTZ
CHECK_DEADLOCK FALSE
