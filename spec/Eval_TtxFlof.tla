---------------------------- MODULE Eval_TtxFlof ----------------------------
(* Evaluates TtxFlof for the checks: for every magazine M of the linking page, link set f and variant v the six links
   as transmitted (raw: units, tens, relative magazine bits, subcode) and the links a fetch with navigation must offer
   (want: page number, subcode; page number 0 = no link); and the row 24 rule for every fetch variant. *)
EXTENDS TtxFlof, Json, TLC
VARIABLE x
ASSUME CoversAllMagazines
Raw(l) == <<l.units, l.tens, l.rel, l.sub>>
Want(M, l) == LET t == Target(M, l) IN <<t.pg, t.sub>>
Entry(M, f, v) == [M |-> M, f |-> f, v |-> v, raw |-> [k \in 1..6 |-> Raw(LinkSet(f, v)[k - 1])],
                   want |-> [k \in 1..6 |-> Want(M, LinkSet(f, v)[k - 1])]]
R24(own, flof, nrows, nav) == [own |-> own, flof |-> flof, nrows |-> nrows, nav |-> nav,
                               row24 |-> Row24(IF own THEN 1 ELSE 0, flof, nrows, nav)]
Init == /\ x = 0
        /\ \A M \in 1..8, f \in {1, 2}, v \in Variants : PrintT(<<"TR", ToJson(Entry(M, f, v))>>)
        /\ \A own \in BOOLEAN, flof \in BOOLEAN, nrows \in {24, 25}, nav \in BOOLEAN : PrintT(<<"TR", ToJson(R24(own, flof, nrows, nav))>>)
Next == FALSE /\ x' = x
=============================================================================
