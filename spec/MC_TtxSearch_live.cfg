CONSTANTS NP = 3 MaxSub = 1 MaxOcc = 1 MaxCalls = 2
  AllowTurn = TRUE AllowUpdate = FALSE SecondWrapStops = TRUE ClampSub = TRUE
SPECIFICATION FairSpec
INVARIANTS TypeOK
PROPERTY Termination
CHECK_DEADLOCK FALSE
