CONSTANTS Pgnos = {256, 257, 369, 427} Subnos = {0, 1, 2, 256} Sizes = {1, 2} Fns = {"unknown", "lop"} NSlots = 4 NNSlots = 2
  MaxOps = 40 MaxPuts = 1000 Limits = {3, 5, 1000} NetLimit = 1 Policy = "impl" SkipCollected = TRUE ExactFirst = TRUE
  GetMasks = {15, 255, 65535} ClockVals = {TRUE, FALSE} MaxNets = 1000
SPECIFICATION GSpec
CONSTRAINT Dump
CHECK_DEADLOCK FALSE
