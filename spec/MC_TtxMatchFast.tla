------------------------- MODULE MC_TtxMatchFast -------------------------
(* OccF (TtxMatch, the occurrence set computed only from the places where CanStart allows a match
   to begin) and the table OccTab of TtxMatchPage (which moreover takes the ends in a blank tail from
   the blank row) equal Occ for every pattern tree with up to MaxExh nodes incl. ill anchored ones,
   case folded and not, on every row of NCaches generated caches. *)
EXTENDS TtxMatchRows, TLC
CONSTANTS MaxExh, NCaches
VARIABLE job
Cs == TLCEval([c \in 1..NCaches |-> Cache(c)])
Rows == UNION {{RowText(Cs[c].lib[i]) : i \in 1..Len(Cs[c].lib)} : c \in 1..NCaches}
Init == job = <<0, 0>>
Next == \/ job = <<0, 0>> /\ \E n \in 1..MaxExh : job' = <<n, 999999999>>
        \/ job[1] > 0 /\ job[2] = 999999999 /\ \E k \in 0..(T(job[1]) - 1) : job' = <<job[1], k>>
Same == (job[1] > 0 /\ job[2] < 999999999) => LET p == Unrank(job[1], job[2], "none") IN
                       \A cf \in BOOLEAN :
                         /\ \A s \in Rows : OccF(p, s, cf) = Occ(p, s, cf)
                         /\ \A c \in 1..NCaches : LET tab == OccTab(p, cf, Cs[c]) IN
                              \A i \in 1..Len(tab) : OccOfRow(tab[i]) = Occ(p, RowText(Cs[c].lib[i]), cf)
=============================================================================
