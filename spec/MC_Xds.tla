------------------------------ MODULE MC_Xds ------------------------------
EXTENDS Xds
\* key tables for the configurations (tuples cannot be written in a .cfg file)
Cls2 == <<0, 0>>
Typ2 == <<16, 17>>
Cls3 == <<0, 0, 1>>
Typ3 == <<16, 17, 16>>
ErrAll == Bytes \X (Bytes \cup {0})
ErrFew == {<<64, 64>>, <<64, 0>>}
=============================================================================
