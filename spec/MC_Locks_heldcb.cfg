CONSTANTS Prog <- CcQuick ResetLocking = "release" EventUnlock = FALSE HandlerFetch = TRUE
SPECIFICATION Spec
INVARIANTS LocksetOK NoRace CallbackUnlocked NoSelfLock SnapshotAtomic ConsistentSet HolderOK
