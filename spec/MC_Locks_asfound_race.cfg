CONSTANTS Prog <- CcQuick ResetLocking = "asfound" EventUnlock = TRUE HandlerFetch = FALSE Arm = 2 GapLocked = TRUE ResizeSameUnlocks = TRUE
SPECIFICATION Spec
INVARIANTS NoRace
