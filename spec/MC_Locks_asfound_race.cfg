CONSTANTS Prog <- CcQuick ResetLocking = "asfound" EventUnlock = TRUE HandlerFetch = FALSE
SPECIFICATION Spec
INVARIANTS NoRace
