CONSTANTS TimeBits = 64 FixedZone <- Fixed RejectZones <- Reject Refs <- RefsT Offsets <- OffsT
  PMonths = {1} PDays = {1} PHours = {0} PMinutes = {0} TzValues = {"U"}
SPECIFICATION GSpec
CHECK_DEADLOCK FALSE
