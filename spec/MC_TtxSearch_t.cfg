CONSTANTS NP = 4 MaxSub = 2 MaxOcc = 1 MaxCalls = 3
  AllowTurn = TRUE AllowUpdate = FALSE SecondWrapStops = TRUE ClampSub = TRUE
SPECIFICATION Spec
INVARIANTS TypeOK Exact Sound EmptyIffNoPages BoundedWalk
CHECK_DEADLOCK FALSE
