CONSTANTS Carriers = {"vps", "p1"} Vals = {"a", "b"} Labels = {"p"} Times = {"t"} Bads = {}
  WssWords = {} MaxRecv = 5 UnknownOnce = TRUE XdsGuard = TRUE Calls = {}
  Handlers = {"h1", "h2"} InitMasks = {{"NETWORK", "NETWORK_ID", "PROG_ID", "LOCAL_TIME", "ASPECT", "TTX_PAGE", "CAPTION"}, {"NETWORK_ID", "TTX_PAGE"}} RegMasks = {{"CAPTION"}, {"PROG_ID", "LOCAL_TIME"}, {"NETWORK"}} Apis = {"add"} MaxReg = 2
SPECIFICATION GSpec
VIEW gview
INVARIANTS Dump TypeOK Faithful
PROPERTIES OfThisReception OnlyAfterRepeat VpsLabelTwice NetworkMeansChange OneNetworkEvent NotAgainWhileSame StationKept CacheKept CacheDropped Gated WssOnlyAfterRepeats AspectRevertOnlyOnChange
CHECK_DEADLOCK FALSE
