CONSTANTS Chans = {1, 3} Rows = {0, 14} Chars = {65, 32} MaxPairs = 5
  Indents = {0, 28} Depths = {2, 3} Tabs = {1, 3}
  Kinds = {"RCL", "RDC", "EOC", "EDM", "ENM", "CR", "BS", "DER", "RU", "TO", "PAC", "MID", "SPC", "NULL", "TEXT"}
  Beyond = {}
SPECIFICATION Spec
CONSTRAINT Bounded
INVARIANTS CursorOK WindowOK
PROPERTIES PopOnStable OneRep RepWindow DerClears BsOne
CHECK_DEADLOCK FALSE
