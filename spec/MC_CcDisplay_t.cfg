\* a caption channel on field 1, a caption channel and its text channel on field 2 (CC1, CC3, T3): all codes, 4 pairs
CONSTANTS Chans = {1, 3, 7} Rows = {0, 14} Chars = {65, 32} MaxPairs = 4
  Indents = {0, 28} Depths = {2, 3} Tabs = {1, 3}
  Kinds = {"RCL", "RDC", "EOC", "EDM", "ENM", "CR", "BS", "DER", "RU", "TO", "PAC", "MID", "SPC", "NULL", "TEXT",
           "FON", "BAO", "BT", "FA", "TR", "RTD"}
  Beyond = {}
SPECIFICATION Spec
CONSTRAINT Bounded
INVARIANTS CursorOK WindowOK TextOK TintedOK
PROPERTIES PopOnStable OneRep RepWindow DerClears BsOne TextRow RestartHomes OneChannel FlashRule BackspaceIn
CHECK_DEADLOCK FALSE
