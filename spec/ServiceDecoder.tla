--------------------------- MODULE ServiceDecoder ---------------------------
(* The data service decoder behind its public alphabet (src/vbi.c vbi_decode, vbi_channel_switched,
   vbi_event_handler_register; src/packet.c; src/caption.c; src/teletext.c vbi_fetch_vt_page ...;
   src/search.c; src/export.c; src/exp-gfx.c), as far as property C01 needs it:

     * the structured HISTORY GENERATOR:  frames of <= 4 sliced lines with a time step, every line
       kind the decoder distinguishes (Teletext packets by class, caption pairs by EIA-608 class on
       both fields incl. XDS, VPS, WSS, "Arbitrary" lines whose bytes are chosen by the seeded
       concretiser of the check) interleaved in any order with every read-side API call;
     * the STATE ORACLE:  an abstraction of the decoder state that is sufficient for sanity
       invariants (bounded buffers and cursors, see the section "invariants") and, where the
       sub-modules decide it exactly, for the observable state the driver compares (set of cached
       page keys, channel-switch countdown).

   The verdict on crash / undefined behaviour / leak / hang is NOT taken here: it comes from the
   instrumented build (ASan, UBSan, LSan, watchdog, allocation counters) that executes these
   histories (harness/drv_service.c, checks/c01.py).

   Composition:  the sub-modules are INSTANCEd, not copied:
       TA  == TtxAssembly   page reception (headers, rows, FLOF, fillers, damaged packets) -> cache key set
       X   == Xds           XDS packet separator of caption field 2 with its index arithmetic
       AN  == Announce      station announcement (VPS, 8/30 format 1/2, WSS) -> cache drop on a station change
       TE  == TtxEvents     handler list and the enabled-services mask
   Shaped after the code and written here: the frame loop and channel-switch countdown of vbi_decode /
   vbi_chsw_reset, the X/26 triplet counter (packet.c case 26), the caption cursor machine of
   caption_command (mode, row, column, roll-up window per channel, current channel, ITV buffer
   count), the page slot / search context / level settings of the read side.                    *)
EXTENDS Naturals, Integers, Sequences, FiniteSets, TLC

CONSTANTS
  Mags, PageSet, Rows, Cids, Flofs,     \* TtxAssembly: PageSet = set of <<pgno, subpage numbers>>
  SysPages,                             \* page numbers in PageSet whose rows reclassify other pages: MIP, BTT
  SpecialPages,                         \* page numbers in PageSet that are not certainly Level One Pages (hex numbers, TOP, MOT, POP, DRCS ...)
  HFlags,                               \* header control bit sets used: "none", "subt", "news", "supp", "inhibit"
  DesyncPages, InertPages,              \* special pages on which X/26 makes the decoder resynchronise (BTT) / is processed like on a LOP (MOT, MIP, trigger)
  NK, KeyCls, KeyTyp, Bytes, L,         \* Xds
  ErrPairs,
  Carriers, Vals, WssWords,             \* Announce
  Fns, Uds, Types, Masks,               \* TtxEvents
  CcChans, CcKinds, CcRows, CcChars,    \* caption: channels 1..4 used, code kinds used, PAC rows, printable codes
  FetchPages, FetchSubs, FetchLv, FetchNav, SearchPages,   \* read side: page / subpage numbers, levels 0..3, navigation flag asked for
  Modules, Regions, Patterns,           \* export modules, render regions, search patterns (ids)
  ArbKinds,                             \* kinds of Arbitrary lines
  DtSet,                                \* time steps used: subset of {"reg", "same", "back", "jump"}
  Nats, X26Dc, X26Good, ExtPk, ExtDc,   \* header national option values; X/26 designations (-1 = expected next) and decodable
                                        \* triplets; extension packet numbers (27, 28, 29) and designation codes
  CcPages, Levels, RegionVals,          \* read side: caption page numbers, level and region arguments
  ProgOn, ProgN26, ItvLens,             \* transmission programmes (bursts) enabled; numbers of X/26 packets in a page programme; pairs of an ITV text
  MaxLines,                             \* lines per frame (4)
  MaxSteps

\* ---- sub-module variables
VARIABLES tmode, topen, tlastm, tcache, tlatest, tterm, tnfault, tnpk, tact           \* TtxAssembly
VARIABLES xcnt, xbuf, xchk, xcur, xout, xmaxidx, xtx, xtxcur, xref, xinfo, xcyc, xevs, xnev, xact   \* Xds
VARIABLES alast, acycle, anuid, acache, aevs, aprev, awlast, awrep, aaspect, awrun, axcall, axrun, anrecv, aact,   \* Announce
          avpid, ahmask, ahorder, avseen, aann, anreg, acd, agap    \* (acd, agap: Announce's own drop-out countdown, never armed here) Announce: VPS label, its own handler list (fixed: one handler for all types), ghosts
VARIABLES hl, hrec, hnextid, emask, hdl, hlog, hntop, hfreed, hact, htx, htxok, hnprobe                     \* TtxEvents
\* ---- own variables
VARIABLES pc,        \* "idle" | "frame": inside vbi_decode's loop over the lines of a frame
          nl,        \* lines of the current frame so far
          started,   \* vbi->time > 0
          behind,    \* frames (of 0.04 s) by which the timestamps lag behind vbi->time, the latest time ever passed
          chswcd,    \* vbi->chswcd: frames until the assumed channel switch is executed (0 = none pending)
          sure,      \* ghost: the reference still predicts the cache exactly (no line of unknown effect since the last reset)
          cdk,       \* ghost: the value of chswcd is known exactly
          ntrip,     \* per magazine: raw_page.num_triplets (-1 = enhancement of this page rejected)
          hflags,    \* per magazine: control bits C5..C10 of the page in transmission ("none" or the bit set)
          ccs,       \* caption channel 0..7 (CC1-4, T1-4): [mode, row, row1, roll, col]
          curch,     \* cc->curr_chan
          xdsmode,   \* cc->xds: field 2 pairs belong to an XDS packet
          cclast,    \* cc->last: field 1 control pair to be ignored when repeated, or <<>>
          itv,       \* cc->itv_count
          slot,      \* page held by the application: "none" | "vt" | "cc" | "maybe" (fetch result not predicted)
          srch,      \* search context: "none" | "alive"
          level, region,      \* vbi_teletext_set_level / set_default_region
          prog,      \* transmission programme: lines the transmitter is committed to send next (bursts)
          nstep, lastAct

taV == <<tmode, topen, tlastm, tcache, tlatest, tterm, tnfault, tnpk, tact>>
xV  == <<xcnt, xbuf, xchk, xcur, xout, xmaxidx, xtx, xtxcur, xref, xinfo, xcyc, xevs, xnev, xact>>
anV == <<alast, acycle, anuid, acache, aevs, aprev, awlast, awrep, aaspect, awrun, axcall, axrun, anrecv, aact,
         avpid, ahmask, ahorder, avseen, aann, anreg, acd, agap>>
evV == <<hl, hrec, hnextid, emask, hdl, hlog, hntop, hfreed, hact, htx, htxok, hnprobe>>
ccV == <<ccs, curch, xdsmode, cclast, itv>>
rdV == <<slot, srch, level, region>>
frV == <<pc, nl, started, chswcd, behind>>
vars == <<taV, xV, anV, evV, ccV, rdV, frV, sure, cdk, ntrip, hflags, prog, nstep, lastAct>>

TA == INSTANCE TtxAssembly WITH Pages <- PageSet, MaxPk <- MaxSteps, FaultKinds <- {"hpage", "hctrl", "rpar", "mrag"},
         MaxFaults <- MaxSteps, mode <- tmode, open <- topen, lastm <- tlastm, cache <- tcache, latest <- tlatest,
         term <- tterm, nfault <- tnfault, npk <- tnpk, lastAct <- tact
X  == INSTANCE Xds WITH MaxEv <- MaxSteps, HalfGuard <- TRUE, cnt <- xcnt, buf <- xbuf, chk <- xchk, cur <- xcur, out <- xout,
         maxidx <- xmaxidx, tx <- xtx, txcur <- xtxcur, ref <- xref, info <- xinfo, cyc <- xcyc, evs <- xevs,
         nev <- xnev, lastAct <- xact
AN == INSTANCE Announce WITH MaxRecv <- MaxSteps, UnknownOnce <- TRUE, XdsGuard <- TRUE, Calls <- {}, xcall <- axcall, xrun <- axrun, last <- alast, cycle <- acycle,
         nuid <- anuid, cache <- acache, evs <- aevs, prev <- aprev, wlast <- awlast, wrep <- awrep, aspect <- aaspect,
         wrun <- awrun, nrecv <- anrecv, lastAct <- aact,
         \* one programme label / local time, no damaged payloads; Announce's own handler list is fixed to one handler for all
         \* event types and never changes (registrations are modelled here with TtxEvents)
         Labels <- {"p"}, Times <- {"t"}, Bads <- {}, Handlers <- {"h1"}, RegMasks <- {}, Apis <- {}, MaxReg <- 0,
         InitMasks <- {{"NETWORK", "NETWORK_ID", "PROG_ID", "LOCAL_TIME", "ASPECT", "TTX_PAGE", "CAPTION"}},
         vpid <- avpid, hmask <- ahmask, horder <- ahorder, vseen <- avseen, ann <- aann, nreg <- anreg,
         \* time stamp jumps and the countdown are modelled here (chswcd): Announce's Gap / Idle are never taken, acd stays 0
         cd <- acd, gap <- agap, CdLen <- 40, IdleSteps <- {}, MaxGap <- 0, MaxIdle <- 0
TE == INSTANCE TtxEvents WITH MaxTop <- 2 * MaxSteps, MaxNested <- 0, FixUp <- TRUE, hl <- hl, rec <- hrec, nextid <- hnextid,
         emask <- emask, dl <- hdl, log <- hlog, ntop <- hntop, freed <- hfreed, lastAct <- hact,
         MaxProbe <- 0, ResetOnActivate <- TRUE, tx <- htx, txok <- htxok, nprobe <- hnprobe

-----------------------------------------------------------------------------
CcChan0(i) == IF i < 4 THEN [mode |-> "none", row |-> 14, row1 |-> 12, roll |-> 3, col |-> 1]
                       ELSE [mode |-> "text", row |-> 0, row1 |-> 0, roll |-> 15, col |-> 1]
CcInit == /\ ccs = [i \in 0..7 |-> CcChan0(i)] /\ curch = 0 /\ xdsmode = FALSE /\ cclast = <<>> /\ itv = 0

Init == /\ TA!Init /\ X!Init /\ AN!Init /\ TE!Init /\ CcInit
        /\ pc = "idle" /\ nl = 0 /\ started = FALSE /\ chswcd = 0 /\ behind = 0 /\ sure = TRUE /\ cdk = TRUE
        /\ ntrip = [m \in Mags |-> 0] /\ hflags = [m \in Mags |-> "none"]
        /\ slot = "none" /\ srch = "none" /\ level = 3 /\ region = 16
        /\ prog = <<>> /\ nstep = 0 /\ lastAct = [a |-> "init"]

\* the same with one handler for every event type already registered (model checking of the line alphabet)
InitAll == /\ TA!Init /\ X!Init /\ AN!Init /\ CcInit
           /\ hl = <<1>> /\ hrec = (1 :> [fn |-> CHOOSE f \in Fns : TRUE, ud |-> CHOOSE u \in Uds : TRUE, mask |-> Types])
           /\ hnextid = 2 /\ emask = Types /\ hdl = TE!Idle /\ hlog = <<>> /\ hntop = 0 /\ hfreed = {} /\ hact = [a |-> "init"] /\ htx = "none" /\ htxok = FALSE /\ hnprobe = 0
           /\ pc = "idle" /\ nl = 0 /\ started = FALSE /\ chswcd = 0 /\ behind = 0 /\ sure = TRUE /\ cdk = TRUE
           /\ ntrip = [m \in Mags |-> 0] /\ hflags = [m \in Mags |-> "none"]
           /\ slot = "none" /\ srch = "none" /\ level = 3 /\ region = 16
           /\ prog = <<>> /\ nstep = 0 /\ lastAct = [a |-> "init"]

TtxOn == "ttx" \in emask          \* packet.c: packets 0..29 are looked at only with a TTX_PAGE handler
Min(a, b) == IF a < b THEN a ELSE b
Max(a, b) == IF a > b THEN a ELSE b
Tick(a) == nstep' = nstep + 1 /\ lastAct' = a
NoTtx == UNCHANGED <<taV, ntrip, hflags>>
NoneOpen == [m \in Mags |-> TA!None]
\* page 0x900 (2304) is no transmitted page: vbi_fetch_vt_page() composes the TOP index from the BTT / AIT tables whenever
\* a network has sent them, so whether a fetch of it succeeds is not decided by the page store
Plain(pg) == pg \notin SpecialPages /\ pg \in 256..2303

\* vbi_teletext_desync(): the pages in transmission are abandoned
TtxDesync == /\ topen' = NoneOpen /\ tterm' = <<>> /\ ntrip' = [m \in Mags |-> 0]
             /\ UNCHANGED <<tmode, tlastm, tcache, tlatest, tnfault, tnpk, tact, hflags>>
\* vbi_caption_channel_switched()
CcReset == /\ ccs' = [i \in 0..7 |-> CcChan0(i)] /\ xdsmode' = FALSE /\ itv' = 0
           /\ UNCHANGED <<curch, cclast>>
XdsDrop == IF xcur # X!NoKey
           THEN /\ xcnt' = [xcnt EXCEPT ![xcur] = 0] /\ xchk' = [xchk EXCEPT ![xcur] = 0] /\ xcur' = X!NoKey
                /\ xtx' = [xtx EXCEPT ![xcur] = X!Closed] /\ xtxcur' = X!NoKey
                /\ UNCHANGED <<xbuf, xout, xmaxidx, xref, xinfo, xcyc, xevs, xnev, xact>>
           ELSE UNCHANGED xV
XdsReset == /\ xcnt' = [k \in X!Keys |-> 0] /\ xchk' = [k \in X!Keys |-> 0] /\ xcur' = X!NoKey
            /\ xtx' = [k \in X!Keys |-> X!Closed] /\ xtxcur' = X!NoKey
            /\ UNCHANGED <<xbuf, xout, xmaxidx, xref, xinfo, xcyc, xevs, xnev, xact>>
\* the network record is cleared (memset(&vbi->network, 0))
NetClear == /\ alast' = [c \in Carriers |-> "0"] /\ acycle' = 0 /\ anuid' = "0" /\ acache' = TRUE /\ aevs' = <<>>
            /\ aann' = "none" /\ UNCHANGED <<avpid, ahmask, ahorder, avseen, anreg, acd, agap>>
\* vbi_chsw_reset(vbi, 0)
AnReset == /\ NetClear /\ awlast' = "none" /\ awrep' = 0 /\ aaspect' = "init" /\ awrun' = 0
           /\ UNCHANGED <<aprev, axcall, axrun, anrecv, aact>>
\* new network: nothing cached, nothing in transmission, caption and XDS state cleared
TtxCapReset == /\ tcache' = {} /\ tlatest' = [p \in DOMAIN tlatest |-> 0] /\ topen' = NoneOpen /\ tterm' = <<>>
               /\ ntrip' = [m \in Mags |-> 0] /\ UNCHANGED <<tmode, tlastm, tnfault, tnpk, tact, hflags>>
               /\ CcReset /\ XdsReset

-----------------------------------------------------------------------------
(* vbi_decode(): time check, then the lines of the frame one by one.  The check compares the timestamp with vbi->time,
   the LATEST time ever passed: after a step backwards the frames stay irregular until the timestamps have caught up. *)
Dts == {"reg", "same", "back", "jump"}          \* +0.04 s, +0, -1 s (25 frames), +10 s
MaxBehind == 100
Regular(dt) == dt = "reg" /\ behind = 0
StationMask == {"net", "netid", "ltime", "progid"}
TtxDesyncOn == emask \cap ({"ttx"} \cup StationMask) # {}
CcDesyncOn  == emask \cap ({"cc"} \cup StationMask) # {}
BeginFrame(dt) ==
  /\ pc = "idle" /\ pc' = "frame" /\ nl' = 0 /\ started' = TRUE
  /\ (dt = "back" /\ started) => behind + 25 <= MaxBehind
  /\ behind' = IF ~started THEN 0
                ELSE CASE dt = "reg" -> (IF behind > 0 THEN behind - 1 ELSE 0) [] dt = "same" -> behind
                       [] dt = "back" -> behind + 25 [] dt = "jump" -> 0
  /\ IF started /\ ~Regular(dt)
     THEN \* frame dropping: resynchronise, assume a channel switch 40 good frames later
          /\ chswcd' = IF chswcd = 0 THEN 40 ELSE chswcd
          /\ (IF TtxDesyncOn THEN TtxDesync ELSE NoTtx)
          /\ (IF CcDesyncOn THEN XdsDrop /\ itv' = 0 ELSE UNCHANGED <<xV, itv>>)
          /\ UNCHANGED <<ccs, curch, xdsmode, cclast, anV, sure, cdk>>
     ELSE IF chswcd = 1
          THEN \* the countdown expires: vbi_chsw_reset(vbi, 0) -- if the countdown was not cancelled unnoticed
               /\ chswcd' = 0 /\ UNCHANGED cdk
               /\ IF cdk THEN TtxCapReset /\ AnReset /\ sure' = TRUE
                         ELSE UNCHANGED <<taV, ntrip, hflags, xV, anV, ccV>> /\ sure' = FALSE
          ELSE /\ chswcd' = IF chswcd > 0 THEN chswcd - 1 ELSE 0
               /\ UNCHANGED <<taV, ntrip, hflags, xV, anV, ccV, sure, cdk>>
  /\ UNCHANGED <<evV, rdV, prog>>
  /\ Tick([a |-> "BeginFrame", dt |-> dt])

EndFrame == /\ pc = "frame" /\ pc' = "idle" /\ UNCHANGED <<nl, started, chswcd, behind>>
            /\ UNCHANGED <<taV, xV, anV, evV, ccV, rdV, sure, cdk, ntrip, hflags, prog>>
            /\ Tick([a |-> "EndFrame"])

InFrame == pc = "frame" /\ nl < MaxLines
\* (the last conjunct of every line action: sure' is determined before)
LineTick(a) == /\ nl' = nl + 1 /\ UNCHANGED <<pc, started, behind>> /\ UNCHANGED <<evV, rdV>>
               /\ cdk' = (cdk /\ sure') /\ Tick(a)

-----------------------------------------------------------------------------
(* Teletext lines *)
\* store_lop(): a Level One Page whose header may roll (no C5 C6 C7 C9 C10, page <= 199 or serial mode, decimal
\* number) with the network's header text confirms the network: a pending countdown is cancelled
Elig(v, fl) == Plain(v.pg) /\ fl = "none" /\ (v.pg <= 409 \/ tmode = "serial")
Cancel(m) == chswcd' = IF TtxOn /\ tterm' # <<>> /\ Elig(tterm'[1], hflags[m]) THEN 0 ELSE chswcd
\* serial mode: the decoder may store the page of another magazine already now (TtxAssembly: "earlier, never later")
EarlyStore(m) == tmode = "serial" /\ chswcd > 0 /\ \E k \in Mags : k # m /\ topen[k] # TA!None

TtxHeader(p, sub, erase, nat, fl) ==
  LET m == TA!MagOf(TA!PgnoOf(p)) IN
  /\ InFrame
  /\ IF TtxOn THEN /\ TA!Header(p, sub, erase, nat)
                   /\ ntrip' = [ntrip EXCEPT ![m] = 0] /\ hflags' = [hflags EXCEPT ![m] = fl]
              ELSE NoTtx
  /\ Cancel(m)
  /\ sure' = (sure /\ ~(TtxOn /\ EarlyStore(m)))
  /\ UNCHANGED <<xV, anV, ccV>>
  /\ LineTick([a |-> "TtxHeader", pg |-> TA!PgnoOf(p), sub |-> sub, erase |-> erase, nat |-> nat, fl |-> fl])
\* the header of the page in transmission again (another subpage of a rolling page, or a repetition): not in the
\* language of TtxAssembly, effect not predicted
TtxSameHeader(m, sub) ==
  /\ InFrame /\ topen[m] # TA!None
  /\ sure' = (sure /\ ~TtxOn) /\ UNCHANGED <<taV, ntrip, hflags, chswcd, xV, anV, ccV>>
  /\ LineTick([a |-> "TtxSameHeader", pg |-> topen[m].pg, sub |-> sub])
TtxFiller(m) ==
  /\ InFrame
  /\ IF TtxOn /\ topen[m] # TA!None THEN TA!Filler(m) /\ ntrip' = [ntrip EXCEPT ![m] = 0] /\ UNCHANGED hflags ELSE NoTtx
  /\ IF topen[m] # TA!None THEN Cancel(m) ELSE UNCHANGED chswcd
  /\ sure' = (sure /\ ~(TtxOn /\ EarlyStore(m)))
  /\ UNCHANGED <<xV, anV, ccV>>
  /\ LineTick([a |-> "TtxFiller", m |-> m])
TtxRow(m, r, c) ==
  /\ InFrame
  /\ IF TtxOn /\ (tmode = "serial" => tlastm = m) THEN TA!Row(m, r, c) /\ UNCHANGED <<ntrip, hflags>> ELSE NoTtx
  \* rows of a MIP / BTT page reclassify other pages (page_type -> function DISCARD ...)
  /\ sure' = (sure /\ ~(TtxOn /\ topen[m] # TA!None /\ topen[m].pg \in SysPages))
  /\ UNCHANGED <<chswcd, xV, anV, ccV>>
  /\ LineTick([a |-> "TtxRow", m |-> m, r |-> r, c |-> c, pg |-> IF topen[m] = TA!None THEN 0 ELSE topen[m].pg])
TtxFlof(m, f) ==
  /\ InFrame
  /\ IF TtxOn /\ topen[m] # TA!None /\ (tmode = "serial" => tlastm = m) THEN TA!Flof(m, f) /\ UNCHANGED <<ntrip, hflags>> ELSE NoTtx
  /\ UNCHANGED <<chswcd, xV, anV, ccV, sure>>
  /\ LineTick([a |-> "TtxFlof", m |-> m, f |-> f])
\* damaged packets (two bit errors in a Hamming protected byte / parity error), as in TtxAssembly
TtxHeaderBad(p, what) ==
  LET m == TA!MagOf(TA!PgnoOf(p)) IN
  /\ InFrame
  /\ IF TtxOn THEN /\ (IF what = "page" THEN TA!HeaderPageBad(p) ELSE TA!HeaderCtrlBad(p))
                   /\ ntrip' = IF what = "page" THEN [k \in Mags |-> 0] ELSE [ntrip EXCEPT ![m] = 0]
                   /\ UNCHANGED hflags
              ELSE NoTtx
  /\ IF what = "ctrl" THEN Cancel(m) ELSE UNCHANGED chswcd
  /\ sure' = (sure /\ ~(TtxOn /\ what = "ctrl" /\ EarlyStore(m)))
  /\ UNCHANGED <<xV, anV, ccV>>
  /\ LineTick([a |-> "TtxHeaderBad", pg |-> TA!PgnoOf(p), what |-> what])
TtxRowBad(kind, m, r, c) ==
  /\ InFrame
  /\ IF TtxOn /\ (tmode = "serial" => tlastm = m) THEN TA!RowBad(kind, m, r, c) /\ UNCHANGED <<ntrip, hflags>> ELSE NoTtx
  /\ UNCHANGED <<chswcd, xV, anV, ccV, sure>>
  /\ LineTick([a |-> "TtxRowBad", kind |-> kind, m |-> m, r |-> r, c |-> c])

(* packet X/26 (packet.c case 26): designation dc, `good` of its 13 triplets decode before the first
   uncorrectable one.  dc = -1 stands for "the designation the decoder expects next". *)
X26(m, dc, good) ==
  LET n == ntrip[m]
      o == topen[m]
      d == IF dc = -1 THEN (IF n >= 0 THEN Min(n \div 13, 15) ELSE 0) ELSE dc
      live == TtxOn /\ o # TA!None
      desync == live /\ o.pg \in DesyncPages                   \* function BTT: "X/26 ?" -> vbi_teletext_desync()
      \* other special pages received from scratch have no function yet and take the triplets like a LOP; a cached copy
      \* may have been converted (DRCS, POP, AIT ...) by the formatter in the meantime: not predicted
      unknown == live /\ ~Plain(o.pg) /\ o.pg \notin DesyncPages \cup InertPages /\ ~o.erase /\ \E c \in tcache : c.pg = o.pg
  IN /\ InFrame
     /\ IF desync THEN TtxDesync
        ELSE /\ UNCHANGED <<taV, hflags>>
             /\ ntrip' = IF live THEN [ntrip EXCEPT ![m] = IF n >= 16 * 13 \/ n # d * 13 THEN -1 ELSE n + good] ELSE ntrip
     /\ sure' = (sure /\ ~unknown)
     /\ UNCHANGED <<chswcd, xV, anV, ccV>>
     /\ LineTick([a |-> "X26", m |-> m, dc |-> dc, good |-> good, n |-> ntrip[m]])
\* X/27 (links: /0 FLOF is TtxFlof, /4 /5 object and DRCS links), X/28, M/29 with their designation codes
Ext(m, packet, dc) ==
  /\ InFrame
  \* M/29 and X/28/0,1,4 change presentation defaults only; X/28/3 turns the page into a DRCS page or discards it
  /\ sure' = (sure /\ ~(TtxOn /\ packet = 28 /\ dc = 3 /\ topen[m] # TA!None))
  /\ UNCHANGED <<taV, ntrip, hflags, chswcd, xV, anV, ccV>>
  /\ LineTick([a |-> "Ext", m |-> m, packet |-> packet, dc |-> dc])

\* packet 8/30 format 1 / 2 and the VPS line: station announcement (Announce); a confirmed change of
\* the identified station drops the cache (vbi_chsw_reset(vbi, nuid)), the network record stays
Station(c, v) ==
  /\ InFrame /\ c \in Carriers
  /\ AN!Recv(c, v, CHOOSE l \in AN!PayloadsOf(c) : TRUE)
  /\ IF sure /\ anuid' # anuid /\ anuid # "0"
     THEN TtxCapReset /\ chswcd' = 0
     ELSE UNCHANGED <<taV, ntrip, hflags, xV, ccV, chswcd>>
  /\ UNCHANGED sure
  /\ LineTick([a |-> "Station", c |-> c, v |-> v])
Wss(w) ==
  /\ InFrame /\ AN!RecvWss(w)
  /\ UNCHANGED <<taV, ntrip, hflags, chswcd, xV, ccV, sure>>
  /\ LineTick([a |-> "Wss", w |-> w])
WssCpr(k) ==
  /\ InFrame /\ UNCHANGED <<taV, ntrip, hflags, chswcd, xV, anV, ccV, sure>>
  /\ LineTick([a |-> "WssCpr", k |-> k])

-----------------------------------------------------------------------------
(* Caption lines: caption_command() / vbi_decode_caption() reduced to what moves a cursor or an index *)
FieldOf(c) == IF c <= 2 THEN 1 ELSE 2                  \* caption channel 1..4 -> field
ChBit(c)   == IF c \in {2, 4} THEN 1 ELSE 0
AllCcCodes == {[k |-> "RCL"], [k |-> "RDC"], [k |-> "EOC"], [k |-> "EDM"], [k |-> "ENM"], [k |-> "CR"], [k |-> "BS"], [k |-> "DER"],
            [k |-> "FON"], [k |-> "TR"], [k |-> "RTD"], [k |-> "BGA"], [k |-> "MID"], [k |-> "SPC"], [k |-> "EXT"], [k |-> "OPT"]}
           \cup {[k |-> "RU", n |-> n] : n \in {2, 3, 4}}
           \cup {[k |-> "TO", n |-> n] : n \in {1, 3}}
           \cup {[k |-> "PAC", row |-> r, indent |-> i] : r \in CcRows, i \in {0, 28}}
CcCodes == {c \in AllCcCodes : c.k \in CcKinds}

PutChar(s) == [s EXCEPT !.col = IF s.col < 33 THEN s.col + 1 ELSE s.col]
\* effect on channel state s (the channel the code addresses)
CcDo(s, code) ==
  CASE code.k = "PAC" ->
         IF s.mode = "none" THEN s
         ELSE LET r1 == Max(code.row - s.roll + 1, 0)
                  t == IF s.mode = "roll" THEN [s EXCEPT !.row1 = r1, !.row = r1 + s.roll - 1, !.col = 1]
                                          ELSE [s EXCEPT !.row = code.row, !.col = 1]
              IN [t EXCEPT !.col = Min(1 + code.indent, 33)]
    [] code.k \in {"BGA", "MID", "SPC"} -> PutChar(s)
    [] code.k = "BS" -> IF s.mode # "none" /\ s.col > 1 THEN [s EXCEPT !.col = s.col - 1] ELSE s
    [] code.k = "CR" ->
         IF s.mode = "none" THEN s
         ELSE LET lastrow == Min(s.row1 + s.roll - 1, 14) IN
              IF s.row < lastrow THEN [s EXCEPT !.row = s.row + 1, !.col = 1] ELSE [s EXCEPT !.col = 1]
    [] code.k = "TO" -> IF s.mode = "none" THEN s ELSE [s EXCEPT !.col = Min(s.col + code.n, 33)]
    [] OTHER -> s
\* mode commands act on the channel they switch to
CcMode(s, code) ==
  CASE code.k = "RCL" -> [s EXCEPT !.mode = "pop"]
    [] code.k = "RDC" -> [s EXCEPT !.mode = "paint"]
    [] code.k = "RU"  -> IF s.mode = "roll" /\ s.roll = code.n THEN s
                         ELSE [s EXCEPT !.mode = "roll", !.roll = code.n, !.row = 14, !.col = 1, !.row1 = 15 - code.n]
    [] code.k = "EOC" -> [s EXCEPT !.mode = "pop", !.row = 14, !.col = 1]
    [] code.k = "TR"  -> [s EXCEPT !.row = 0, !.col = 1]
    [] OTHER -> s

CcCtrl(c, code) ==
  LET f2 == FieldOf(c) - 1
      chan == (IF curch >= 4 THEN 4 ELSE 0) + f2 * 2 + ChBit(c)
      rep == f2 = 0 /\ cclast = <<c, code>>
      newch == IF code.k \in {"RCL", "RU", "RDC", "EOC"} THEN chan % 4
               ELSE IF code.k \in {"TR", "RTD"} THEN (chan % 4) + 4 ELSE -1
  IN /\ InFrame
     /\ cclast' = IF f2 = 0 THEN (IF rep THEN <<>> ELSE <<c, code>>) ELSE cclast
     /\ IF rep THEN UNCHANGED <<ccs, curch, itv>>
        ELSE /\ curch' = IF newch >= 0 THEN newch ELSE curch
             /\ ccs' = IF newch >= 0 THEN [ccs EXCEPT ![newch] = CcMode(@, code)] ELSE [ccs EXCEPT ![chan] = CcDo(@, code)]
             /\ itv' = IF code.k = "CR" /\ chan = 5 /\ "trig" \in emask THEN 0 ELSE itv
     \* on field 2 a control code ends the XDS packet in progress (Xds!Caption)
     /\ IF f2 = 1 THEN xdsmode' = FALSE /\ X!Caption ELSE UNCHANGED <<xdsmode, xV>>
     /\ UNCHANGED <<taV, ntrip, hflags, chswcd, anV, sure>>
     /\ LineTick([a |-> "CcCtrl", c |-> c, code |-> code])

\* itv_separator(): one character of the T2 text channel
ItvPut(n, ch) == IF ch = 60 THEN 1 ELSE IF n > 254 THEN 1 ELSE n + 1
\* a pair of printable characters (c2 = 0: one character); on field 2 it is XDS payload while a packet is open
CcText(f, c1, c2) ==
  LET ch == (IF curch \in {1, 3, 5, 7} THEN 1 ELSE 0) + (IF curch >= 4 THEN 4 ELSE 0) + (f - 1) * 2
      n == IF c2 = 0 THEN 1 ELSE 2
      s == ccs[ch]
      s1 == PutChar(s)
  IN /\ InFrame
     /\ IF f = 2 /\ xdsmode
        THEN X!Data(c1, c2) /\ UNCHANGED <<ccs, itv>>
        ELSE /\ UNCHANGED xV
             /\ IF s.mode = "none" THEN UNCHANGED <<ccs, itv>>
                ELSE /\ ccs' = [ccs EXCEPT ![ch] = IF n = 2 THEN PutChar(s1) ELSE s1]
                     /\ itv' = IF ch = 5 /\ "trig" \in emask
                               THEN (IF n = 2 THEN ItvPut(ItvPut(itv, c1), c2) ELSE ItvPut(itv, c1)) ELSE itv
     /\ cclast' = IF f = 1 THEN <<>> ELSE cclast
     /\ UNCHANGED <<curch, xdsmode, taV, ntrip, hflags, chswcd, anV, sure>>
     /\ LineTick([a |-> "CcText", f |-> f, c1 |-> c1, c2 |-> c2])
CcNull(f) ==
  /\ InFrame /\ UNCHANGED <<ccV, xV, taV, ntrip, hflags, chswcd, anV, sure>>
  /\ LineTick([a |-> "CcNull", f |-> f])

\* XDS control pairs on field 2 (Xds module); a completed packet of the channel class may rename the station
\* (XDS network name -> vbi_chsw_reset): its effect on the cache is not decided here
XdsHeader(k, start) ==
  /\ InFrame /\ X!Header(k, start) /\ xdsmode' = TRUE
  /\ UNCHANGED <<ccs, curch, cclast, itv, taV, ntrip, hflags, chswcd, anV, sure>>
  /\ LineTick([a |-> IF start THEN "XdsStart" ELSE "XdsCont", k |-> k, cls |-> KeyCls[k], typ |-> KeyTyp[k]])
XdsEnd(good) ==
  /\ InFrame /\ X!End(good) /\ xdsmode' = FALSE
  /\ sure' = (sure /\ ~(good /\ xcur # X!NoKey /\ KeyCls[xcur] = 2))
  /\ UNCHANGED <<ccs, curch, cclast, itv, taV, ntrip, hflags, chswcd, anV>>
  /\ LineTick([a |-> "XdsEnd", good |-> good, c |-> xact'.c])
XdsError(b1, b2) ==
  /\ InFrame /\ xdsmode /\ X!Error(b1, b2)
  /\ UNCHANGED <<ccV, taV, ntrip, hflags, chswcd, anV, sure>>
  /\ LineTick([a |-> "XdsError", b1 |-> b1, b2 |-> b2])

\* a line whose bytes are left to the seeded concretiser (uniform random, bit-flipped valid packet, all 00 / FF,
\* Hamming-valid but semantically extreme, foreign service id / line number): its effect is unknown
Arbitrary(kind) ==
  \* (caption field 1, WSS and lines of services the decoder does not handle cannot touch the page store or the network record)
  /\ InFrame /\ sure' = (sure /\ kind \in {"cc1", "wss", "cpr", "foreign"})
  /\ UNCHANGED <<taV, ntrip, hflags, chswcd, xV, anV, ccV>>
  /\ LineTick([a |-> "Arbitrary", kind |-> kind])

-----------------------------------------------------------------------------
(* read side and control calls (only between frames) *)
Idle == pc = "idle" /\ prog = <<>>
Call(a) == /\ UNCHANGED <<taV, xV, anV, ccV, frV, sure, cdk, ntrip, hflags, prog>> /\ Tick(a)
Must == {<<c.pg, c.sub>> : c \in tcache}                                  \* certainly cached
May  == Must \cup {<<topen[m].pg, topen[m].sub>> : m \in {k \in Mags : topen[k] # TA!None}}   \* (serial mode: stored early)
AnySub == 16255     \* VBI_ANY_SUBNO 0x3F7F
FetchOk(pg, sub) ==
  IF ~sure \/ ~Plain(pg) THEN "any"
  ELSE IF sub = AnySub THEN (IF \E k \in Must : k[1] = pg THEN "yes" ELSE IF \E k \in May : k[1] = pg THEN "any" ELSE "no")
  ELSE IF <<pg, sub>> \in Must THEN "yes" ELSE IF \E k \in May : k[1] = pg THEN "any" ELSE "no"
Fetch(pg, sub, lv, nav) ==
  /\ Idle /\ Call([a |-> "Fetch", pg |-> pg, sub |-> sub, lv |-> lv, nav |-> nav, ok |-> FetchOk(pg, sub)])
  /\ slot' = (IF FetchOk(pg, sub) = "yes" THEN "vt" ELSE IF FetchOk(pg, sub) = "no" THEN "none" ELSE "maybe")
  /\ UNCHANGED <<srch, level, region, evV>>
FetchCc(ch) ==
  /\ Idle /\ Call([a |-> "FetchCc", ch |-> ch]) /\ slot' = (IF ch \in 1..8 THEN "cc" ELSE "none")
  /\ UNCHANGED <<srch, level, region, evV>>
Unref == /\ Idle /\ slot # "none" /\ Call([a |-> "Unref"]) /\ slot' = "none" /\ UNCHANGED <<srch, level, region, evV>>
OnSlot(what, arg) == /\ Idle /\ slot # "none" /\ Call([a |-> what, arg |-> arg]) /\ UNCHANGED <<rdV, evV>>
Classify(pg) == Idle /\ Call([a |-> "Classify", pg |-> pg]) /\ UNCHANGED <<rdV, evV>>
Title(pg, sub) == Idle /\ Call([a |-> "Title", pg |-> pg, sub |-> sub]) /\ UNCHANGED <<rdV, evV>>
SearchNew(pat, pg, sub) ==       \* pat: id of (pattern text, casefold, regexp) in the check's table
  /\ Idle /\ Call([a |-> "SearchNew", pat |-> pat, pg |-> pg, sub |-> sub])
  /\ srch' = "alive" /\ UNCHANGED <<slot, level, region, evV>>
SearchNext(dir) == /\ Idle /\ srch = "alive" /\ Call([a |-> "SearchNext", dir |-> dir]) /\ UNCHANGED <<rdV, evV>>
SearchDelete == /\ Idle /\ srch = "alive" /\ Call([a |-> "SearchDelete"]) /\ srch' = "none" /\ UNCHANGED <<slot, level, region, evV>>
\* vbi_channel_switched(): the reset is executed by the next regular frame
ChannelSwitched == /\ Idle /\ chswcd' = 1 /\ cdk' = TRUE /\ UNCHANGED <<pc, nl, started, behind>>
                   /\ UNCHANGED <<taV, xV, anV, ccV, rdV, evV, sure, ntrip, hflags, prog>> /\ Tick([a |-> "ChannelSwitched"])
SetLevel(lv) == /\ Idle /\ Call([a |-> "SetLevel", lv |-> lv]) /\ level' = lv /\ UNCHANGED <<slot, srch, region, evV>>
SetRegion(r) == /\ Idle /\ Call([a |-> "SetRegion", r |-> r]) /\ region' = (IF r \in 0..87 THEN r ELSE region)
                /\ UNCHANGED <<slot, srch, level, evV>>
\* vbi_event_handler_register / unregister (mask {}): the handler list of TtxEvents; newly wanted services are reset
\* (vbi_event_enable: teletext_channel_switched / caption_channel_switched / network record cleared)
Register(fn, ud, mask) ==
  /\ Idle /\ TE!Register(fn, ud, mask)
  /\ IF "ttx" \in emask' /\ "ttx" \notin emask THEN TtxDesync ELSE NoTtx
  /\ IF "cc" \in emask' /\ "cc" \notin emask THEN CcReset /\ XdsReset ELSE UNCHANGED <<ccV, xV>>
  /\ IF (emask' \ emask) \cap {"net", "netid"} # {}
     THEN NetClear /\ UNCHANGED <<awlast, awrep, aaspect, awrun, aprev, axcall, axrun, anrecv, aact>> ELSE UNCHANGED anV
  /\ UNCHANGED <<rdV, frV, sure, cdk, prog>>
  /\ Tick([a |-> IF mask = {} THEN "Unregister" ELSE "Register", fn |-> fn, ud |-> ud, mask |-> mask])

-----------------------------------------------------------------------------
(* transmission programmes: the transmitter commits itself to a burst of lines, so that complete pages, full
   enhancement packet sets and long XDS packets occur in random walks *)
Line(l) ==
  CASE l.a = "H"   -> TtxHeader(l.p, l.sub, l.erase, 0, "none")
    [] l.a = "R"   -> TtxRow(l.m, l.r, l.c)
    [] l.a = "X26" -> X26(l.m, -1, 13)
    [] l.a = "X26p" -> X26(l.m, -1, 5)            \* only 5 of the 13 triplets decode
    [] l.a = "CC"  -> CcCtrl(l.c, l.code)
    [] l.a = "CT"  -> CcText(l.f, l.c1, l.c2)
    [] l.a = "E"   -> Ext(l.m, l.packet, l.dc)
    [] l.a = "F"   -> TtxFiller(l.m)
    [] l.a = "XS"  -> XdsHeader(l.k, TRUE)
    [] l.a = "XD"  -> CcText(2, l.b, l.b)
    [] l.a = "XH"  -> CcText(2, l.b, 0)             \* half pair: one byte, the second is NUL
    [] l.a = "XE"  -> XdsEnd(TRUE)
Rep(n, l) == [i \in 1..n |-> l]
RECURSIVE RowSeq(_, _, _)
RowSeq(m, S, c) == IF S = {} THEN <<>>
                   ELSE LET r == CHOOSE x \in S : \A y \in S : x <= y
                        IN <<[a |-> "R", m |-> m, r |-> r, c |-> c]>> \o RowSeq(m, S \ {r}, c)
PageProg(p, sub, c, n26) ==
  LET m == TA!MagOf(TA!PgnoOf(p)) IN
  <<[a |-> "H", p |-> p, sub |-> sub, erase |-> TRUE]>> \o RowSeq(m, Rows, c) \o Rep(n26, [a |-> "X26", m |-> m])
  \* a damaged packet and one more after the set (with 15 packets before: the sequence check must reject the last one)
  \o (IF n26 >= 15 THEN <<[a |-> "X26p", m |-> m], [a |-> "X26", m |-> m]>> ELSE <<>>)
  \o <<[a |-> "E", m |-> m, packet |-> 27, dc |-> 4], [a |-> "F", m |-> m]>>
\* ITV trigger text on the T2 text channel (field 1, second channel): text restart, n pairs without "<", carriage return
ItvProg(n) == LET ch == CHOOSE x \in CcChars : x # 60 IN
              <<[a |-> "CC", c |-> 2, code |-> [k |-> "TR"]]>> \o Rep(n, [a |-> "CT", f |-> 1, c1 |-> ch, c2 |-> ch])
              \o <<[a |-> "CC", c |-> 2, code |-> [k |-> "CR"]]>>
XdsProg(k, n) == <<[a |-> "XS", k |-> k]>> \o Rep(n, [a |-> "XD", b |-> CHOOSE b \in Bytes : TRUE]) \o <<[a |-> "XE"]>>
\* the same with one half pair in front: the packet reaches ODD fill levels (29, 31, 33 bytes before the end code), the
\* length guard has to count the second byte of the pair about to be stored
XdsProgH(k, n) == <<[a |-> "XS", k |-> k], [a |-> "XH", b |-> CHOOSE b \in Bytes : TRUE]>>
                  \o Rep(n, [a |-> "XD", b |-> CHOOSE b \in Bytes : TRUE]) \o <<[a |-> "XE"]>>
StartProg(pr, what) ==
  /\ Idle /\ prog' = pr
  /\ UNCHANGED <<taV, xV, anV, ccV, frV, sure, cdk, ntrip, hflags, rdV, evV>> /\ Tick([a |-> "StartProg", what |-> what])
ProgLine == /\ prog # <<>> /\ Line(Head(prog)) /\ prog' = Tail(prog)
ProgFrame == /\ prog # <<>> /\ ((pc = "idle" /\ BeginFrame("reg")) \/ (pc = "frame" /\ nl >= MaxLines /\ EndFrame))

-----------------------------------------------------------------------------
\* the line alphabet by service
TtxLines ==
  \/ \E p \in PageSet, s \in 0..2, e \in BOOLEAN, n \in Nats, fl \in HFlags : TtxHeader(p, s, e, n, fl)
  \/ \E m \in Mags, s \in 0..2 : TtxSameHeader(m, s)
  \/ \E m \in Mags : TtxFiller(m)
  \/ \E m \in Mags, r \in Rows, c \in Cids : TtxRow(m, r, c)
  \/ \E m \in Mags, f \in Flofs : TtxFlof(m, f)
  \/ \E p \in PageSet, w \in {"page", "ctrl"} : TtxHeaderBad(p, w)
  \/ \E k \in {"rpar", "mrag"}, m \in Mags, r \in Rows : TtxRowBad(k, m, r, CHOOSE c \in Cids : TRUE)
  \/ \E m \in Mags, dc \in X26Dc, g \in X26Good : X26(m, dc, g)
  \/ \E m \in Mags, pk \in ExtPk, dc \in ExtDc : Ext(m, pk, dc)
StationLines ==
  \/ \E c \in Carriers, v \in Vals : Station(c, v)
  \/ \E w \in WssWords : Wss(w)
  \/ \E k \in {0, 1} : WssCpr(k)
CcLines ==
  \/ \E c \in CcChans, code \in CcCodes : CcCtrl(c, code)
  \/ \E f \in {FieldOf(c) : c \in CcChans}, c1 \in CcChars, c2 \in CcChars \cup {0} : CcText(f, c1, c2)
  \/ \E f \in {FieldOf(c) : c \in CcChans} : CcNull(f)
XdsLines ==
  \/ \E k \in X!Keys, s \in BOOLEAN : XdsHeader(k, s)
  \/ \E g \in BOOLEAN : XdsEnd(g)
  \/ \E e \in ErrPairs : XdsError(e[1], e[2])
  \/ \E c1 \in Bytes, c2 \in Bytes \cup {0} : xdsmode /\ CcText(2, c1, c2)
ArbLines == \E k \in ArbKinds : Arbitrary(k)
FreeLine == TtxLines \/ StationLines \/ CcLines \/ XdsLines \/ ArbLines

\* the read side and control calls by kind
FetchCalls ==
  \/ \E pg \in FetchPages, sub \in FetchSubs, lv \in FetchLv, nav \in FetchNav : Fetch(pg, sub, lv, nav)
  \/ \E ch \in CcPages : FetchCc(ch)
SlotCalls ==
  \/ Unref
  \/ OnSlot("Links", 0) \/ OnSlot("Print", 0)
  \/ \E md \in Modules : OnSlot("Export", md)
  \/ \E rg \in Regions : OnSlot("Render", rg)
SearchCalls ==
  \/ \E pat \in Patterns, pg \in SearchPages, sub \in FetchSubs : SearchNew(pat, pg, sub)
  \/ \E d \in {-1, 1} : SearchNext(d)
  \/ SearchDelete
MiscCalls ==
  \/ \E pg \in FetchPages : Classify(pg)
  \/ \E pg \in FetchPages, sub \in FetchSubs : Title(pg, sub)
  \/ ChannelSwitched
  \/ \E lv \in Levels : SetLevel(lv)
  \/ \E r \in RegionVals : SetRegion(r)
HandlerCalls == \E fn \in Fns, ud \in Uds, mk \in Masks : Register(fn, ud, mk)
ReadSide == FetchCalls \/ SlotCalls \/ SearchCalls \/ MiscCalls \/ HandlerCalls

PagePrograms ==
  \E p \in PageSet : \E s \in p[2], c \in Cids, n \in ProgN26 :
        (topen[TA!MagOf(p[1])] = TA!None \/ topen[TA!MagOf(p[1])].pg # p[1]) /\ StartProg(PageProg(p, s, c, n), "page")
XdsPrograms == \/ \E k \in X!Keys, n \in {1, 15, 16, 17} : StartProg(XdsProg(k, n), "xds")
               \/ \E k \in X!Keys, n \in {14, 15, 16} : StartProg(XdsProgH(k, n), "xds")
ItvPrograms == \E n \in ItvLens : CcChars \ {60} # {} /\ StartProg(ItvProg(n), "itv")
Programmes == PagePrograms \/ XdsPrograms \/ ItvPrograms

Next == IF prog # <<>> THEN ProgLine \/ ProgFrame
        ELSE \/ \E dt \in DtSet : BeginFrame(dt)
             \/ EndFrame
             \/ (FreeLine /\ UNCHANGED prog)
             \/ ReadSide
             \/ (ProgOn /\ Programmes)

Spec == Init /\ [][Next]_vars
SpecAll == InitAll /\ [][Next]_vars
\* the programmes alone, from their first line to their last (the bounds are reached: see Reach* below)
ProgSeeds == {PageProg(p, CHOOSE s \in p[2] : TRUE, CHOOSE c \in Cids : TRUE, n) : p \in PageSet, n \in ProgN26}
             \cup {XdsProg(k, n) : k \in X!Keys, n \in {1, 15, 16, 17}} \cup {XdsProgH(k, n) : k \in X!Keys, n \in {14, 15, 16}}
             \cup (IF CcChars \ {60} # {} THEN {ItvProg(n) : n \in ItvLens} ELSE {})
InitProg == /\ TA!Init /\ X!Init /\ AN!Init /\ CcInit
            /\ hl = <<1>> /\ hrec = (1 :> [fn |-> CHOOSE f \in Fns : TRUE, ud |-> CHOOSE u \in Uds : TRUE, mask |-> Types])
            /\ hnextid = 2 /\ emask = Types /\ hdl = TE!Idle /\ hlog = <<>> /\ hntop = 0 /\ hfreed = {} /\ hact = [a |-> "init"] /\ htx = "none" /\ htxok = FALSE /\ hnprobe = 0
            /\ pc = "idle" /\ nl = 0 /\ started = FALSE /\ chswcd = 0 /\ behind = 0 /\ sure = TRUE /\ cdk = TRUE
            /\ ntrip = [m \in Mags |-> 0] /\ hflags = [m \in Mags |-> "none"]
            /\ slot = "none" /\ srch = "none" /\ level = 3 /\ region = 16
            /\ prog \in ProgSeeds /\ nstep = 0 /\ lastAct = [a |-> "init"]
SpecProg == InitProg /\ [][Next]_vars
ProgOnly == prog # <<>>
Bounded == nstep < MaxSteps
\* model checking view: action labels, per-module step counters and event logs are not part of the state
mcview == <<tmode, topen, tlastm, tcache, tlatest, xcnt, xbuf, xchk, xcur, xmaxidx, xtx, xtxcur, xinfo, xcyc,
            alast, acycle, anuid, awlast, awrep, aaspect, hl, hrec, emask, ccV, rdV, frV, sure, cdk, ntrip, hflags, prog, nstep>>

-----------------------------------------------------------------------------
(* invariants: type and bound sanity of the composition *)
TypeOK ==
  /\ pc \in {"idle", "frame"} /\ nl \in 0..MaxLines /\ chswcd \in 0..40 /\ behind \in 0..MaxBehind
  /\ slot \in {"none", "vt", "cc", "maybe"} /\ srch \in {"none", "alive"}
  /\ curch \in 0..7 /\ region \in 0..87
  /\ X!TypeOK /\ AN!TypeOK
\* packet.c: enh[16 * 13] is never indexed past its end
TripletBound == \A m \in Mags : ntrip[m] \in -1..(16 * 13)
\* Xds: no write outside a packet buffer, delivered packets have 1..32 bytes
XdsBound == X!InBounds /\ X!LengthOK /\ \A k \in X!Keys : xcnt[k] <= L + 2
\* caption.c: cursor inside the 15 x 34 page, the roll-up window inside the page (memmove in CR), ITV buffer index
CursorOK == \A i \in 0..7 : /\ ccs[i].col \in 1..33 /\ ccs[i].row \in 0..14 /\ ccs[i].row1 \in 0..14
                            /\ ccs[i].roll \in {2, 3, 4, 15} /\ ccs[i].row1 + ccs[i].roll <= 15
ItvBound == itv \in 0..255
\* cache key set bounded by what was transmitted; one open page per magazine, in its own magazine
CacheBound == /\ TA!OneVersion /\ TA!OnlyTransmitted
              /\ \A m \in Mags : topen[m] = TA!None \/ TA!MagOf(topen[m].pg) = m
\* handler list consistent, enabled services = union of the masks
HandlersOK == TE!ListOK /\ TE!Acquire
\* a frame never has more than MaxLines lines; without a time anomaly or a requested switch no countdown runs
FrameOK == nl <= MaxLines /\ (~started => chswcd \in {0, 1})
\* whenever the reference claims to know the cache, the countdown is known too
SureKnows == sure => cdk
\* vacuity guards: these must be VIOLATED in the programme model (the limits are reached, the guards are exercised)
ReachTripletLimit == \A m \in Mags : ntrip[m] < 16 * 13
ReachTripletReject == \A m \in Mags : ntrip[m] # -1
ReachXdsLimit == \A k \in X!Keys : xcnt[k] < L + 2
ReachItvLimit == itv < 254
=============================================================================
