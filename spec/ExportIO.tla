------------------------------ MODULE ExportIO ------------------------------
(* The output layer of the export interface (property C16), written from the documentation in
   src/export.h (struct vbi_export: target, buffer.data/offset/capacity, write_error) and the doc
   comments of vbi_export_mem / _alloc / _stdio / _file, vbi_export_write / _putc / _printf / _flush
   and _vbi_export_grow_buffer_space in src/export.c:

   * an export module produces a byte stream by calling the output functions; all of them go
     through ONE buffer [data, offset, capacity] with offset <= capacity;
   * MEM: the buffer is the caller's memory, capacity = the caller's size.  When the space does
     not suffice the target changes to ALLOC ("to calculate the actually needed amount") - the
     caller's memory is never written beyond its size - and the data written so far is carried
     over "because the output may fit after all"; at the end the first min(offset, size) bytes are
     copied back and the number of bytes actually needed is returned;
   * ALLOC: the buffer grows as needed and is returned;
   * FP / FILE: the buffer is flushed into the stream / file; large writes and printf "may call
     vbi_export_flush() and write the data directly into the file".

   The module's byte stream is target independent by definition here (byte k of the stream is
   Pat(k)), so "the four targets yield byte-identical data" is: for every entry point the data the
   caller receives is exactly the stream (ResultFaithful).

   Records (pure operators) are used so that the same definitions serve the model (variables
   below) and the trace validation of the real library (Trace_ExportIO).                        *)
EXTENDS Naturals, Sequences, TLC

CONSTANTS Entries,        \* subset of {"MEM", "ALLOC", "FP", "FILE"}
          CallerSizes,    \* sizes of the caller's buffer tried with MEM
          WSizes,         \* sizes of vbi_export_write calls
          PSizes,         \* lengths of vbi_export_printf outputs
          GSizes,         \* _vbi_export_grow_buffer_space requests
          FastAt,         \* writes of at least this size bypass the buffer on file targets (4096 in the library)
          Slack,          \* extra capacities an allocation may add (allocator policy is not specified)
          MaxOps,
          CarryOver,      \* TRUE: the design as documented.  FALSE: the switch to ALLOC forgets the old data
          SwitchOnOverflow \* TRUE: as documented.  FALSE: MEM keeps writing into the caller's memory

Pat(k) == (k % 251) + 1
Stream(a, b) == [i \in 1..(b - a) |-> Pat(a + i)]          \* bytes a+1 .. b of the module's output
Min(a, b) == IF a < b THEN a ELSE b
Prefix(s, n) == SubSeq(s, 1, Min(n, Len(s)))

IsFileTarget(t) == t \in {"FP", "FILE"}

Begin(t, n) == [entry |-> t, target |-> t, csize |-> IF t = "MEM" THEN n ELSE 0,
                off |-> 0, cap |-> IF t = "MEM" THEN n ELSE 0, own |-> IF t = "MEM" THEN "caller" ELSE "lib",
                buf |-> <<>>,      \* the bytes in the buffer, Len(buf) = off
                cmem |-> <<>>,     \* what has been stored into the caller's memory (MEM only), by address
                sink |-> <<>>,     \* what has reached the stream / file
                made |-> 0]        \* bytes produced by the module so far

Fits(s, min) == s.cap >= min /\ s.off <= s.cap - min

\* _vbi_export_grow_buffer_space(e, min): afterwards at least min bytes can be stored at offset; c = new capacity
Grow(s, min, c) ==
  IF Fits(s, min) THEN s
  ELSE IF s.target = "MEM" /\ SwitchOnOverflow
       THEN [s EXCEPT !.target = "ALLOC", !.own = "lib", !.cap = c,
                      !.buf = IF CarryOver THEN @ ELSE [i \in 1..Len(@) |-> 0]]
       ELSE [s EXCEPT !.cap = c, !.own = IF s.target = "MEM" THEN "caller" ELSE "lib"]
GrowOK(s, min, c) == Fits(s, min) \/ c >= s.off + min

\* n bytes of the stream stored at offset
Store(s, n) == LET new == Stream(s.made, s.made + n) IN
               [s EXCEPT !.buf = @ \o new, !.off = @ + n, !.made = @ + n,
                         !.cmem = IF s.own = "caller" THEN @ \o new ELSE @]
FlushR(s) == IF IsFileTarget(s.target) THEN [s EXCEPT !.sink = @ \o s.buf, !.buf = <<>>, !.off = 0] ELSE s
Direct(s, n) == LET f == FlushR(s) IN [f EXCEPT !.sink = @ \o Stream(s.made, s.made + n), !.made = @ + n]

\* the output functions.  c: capacity after a (possible) allocation; k: space a printf asks for (n or n + 1: the
\* formatted text may need room for a terminating NUL); d: a file target writes directly
WriteR(s, n, c) == IF IsFileTarget(s.target) /\ n >= FastAt THEN Direct(s, n) ELSE Store(Grow(s, n, c), n)
PutcR(s, c) == Store(Grow(s, 1, c), 1)
PrintfR(s, n, k, c, d) == IF d THEN Direct(s, n) ELSE Store(Grow(s, k, c), n)
GrowR(s, n, c) == Grow(s, n, c)

\* what the caller has after the export function returned
EndR(s) ==
  LET f == FlushR(s) IN
  IF s.entry = "MEM"
  THEN LET n == Min(f.off, s.csize)
           mem == IF s.target = "ALLOC" THEN Prefix(f.buf, n) \o SubSeq(s.cmem, n + 1, Len(s.cmem)) ELSE s.cmem
       IN [ret |-> f.off, out |-> mem, touched |-> Len(mem)]
  ELSE IF s.entry = "ALLOC" THEN [ret |-> f.off, out |-> f.buf, touched |-> 0]
  ELSE [ret |-> Len(f.sink), out |-> f.sink, touched |-> 0]

(* What a caller observes from an export whose stream has length len, for a target and buffer size:
   the returned size and whether the data is defined ("If buffer_size is too small it returns the
   required size and the buffer contents are undefined"). *)
Observable(t, size, len) == [ret |-> len, defined |-> t # "MEM" \/ len <= size]

-----------------------------------------------------------------------------
VARIABLES s, nops, res, lastOp
vars == <<s, nops, res, lastOp>>

Idle == [entry |-> "none"]
NoRes == [ret |-> 0, out |-> <<>>, touched |-> 0, csize |-> 0, made |-> 0, entry |-> "none"]

Init == /\ \E t \in Entries : \E n \in (IF t = "MEM" THEN CallerSizes ELSE {0}) : s = Begin(t, n)
        /\ nops = 0 /\ res = NoRes /\ lastOp = [op |-> "begin"]

Caps(x, min) == IF Fits(x, min) THEN {x.cap} ELSE {x.off + min + e : e \in Slack}

DoWrite == \E n \in WSizes : \E c \in Caps(s, n) :
             s' = WriteR(s, n, c) /\ lastOp' = [op |-> "w", n |-> n]
DoPutc == \E c \in Caps(s, 1) : s' = PutcR(s, c) /\ lastOp' = [op |-> "c", n |-> 1]
DoPrintf == \E n \in PSizes : \E k \in {n, n + 1} : \E c \in Caps(s, k) :
              \E d \in (IF IsFileTarget(s.target) THEN BOOLEAN ELSE {FALSE}) :
                s' = PrintfR(s, n, k, c, d) /\ lastOp' = [op |-> "p", n |-> n]
DoGrow == \E n \in GSizes : \E c \in Caps(s, n) : s' = GrowR(s, n, c) /\ lastOp' = [op |-> "g", n |-> n]
DoFlush == s' = FlushR(s) /\ lastOp' = [op |-> "f", n |-> 0]

Op == /\ s.entry # "none" /\ nops < MaxOps
      /\ (DoWrite \/ DoPutc \/ DoPrintf \/ DoGrow \/ DoFlush)
      /\ nops' = nops + 1 /\ UNCHANGED res
End == /\ s.entry # "none"
       /\ res' = [ret |-> EndR(s).ret, out |-> EndR(s).out, touched |-> EndR(s).touched,
                  csize |-> s.csize, made |-> s.made, entry |-> s.entry]
       /\ s' = Idle /\ lastOp' = [op |-> "end"] /\ UNCHANGED nops
Next == Op \/ End
Spec == Init /\ [][Next]_vars

-----------------------------------------------------------------------------
Running == s.entry # "none"

TypeOK == Running => /\ s.target \in {"MEM", "ALLOC", "FP", "FILE"}
                     /\ s.off \in Nat /\ s.cap \in Nat /\ s.made \in Nat /\ s.own \in {"caller", "lib"}

\* "The number of bytes written into the buffer so far. Must be <= capacity."
OffsetWithinCapacity == Running => s.off <= s.cap /\ s.off = Len(s.buf)

\* the caller's memory is used only while the target is MEM, with the caller's size as capacity,
\* and nothing is ever stored beyond that size
MemBounded == Running => /\ Len(s.cmem) <= s.csize
                         /\ (s.own = "caller" => s.target = "MEM" /\ s.cap = s.csize /\ s.cmem = s.buf)
                         /\ (s.target = "MEM" => s.entry = "MEM" /\ s.own = "caller")

\* nothing is lost or duplicated on the way: buffer and sink together are the stream
Conserved == Running => s.sink \o s.buf = Stream(0, s.made)

\* the data every entry point delivers is the module's stream; MEM returns the size needed and never
\* touches more than its size
ResultFaithful ==
  res.entry # "none" =>
    /\ res.ret = res.made
    /\ res.entry # "MEM" => res.out = Stream(0, res.made)
    /\ res.entry = "MEM" => /\ res.touched <= res.csize
                            /\ Observable("MEM", res.csize, res.made).defined => Prefix(res.out, res.made) = Stream(0, res.made)

\* the target only ever changes from MEM to ALLOC
TargetChange == [][Running /\ Running' => (s'.target = s.target \/ (s.target = "MEM" /\ s'.target = "ALLOC"))]_vars

\* reachability companions (must be VIOLATED): the output fits after a switch to ALLOC / a direct file write happened
NeverFitsAfterSwitch == ~(Running /\ s.entry = "MEM" /\ s.target = "ALLOC" /\ s.off <= s.csize /\ s.off > 0)
=============================================================================
