CONSTANTS NK = 2 KeyCls <- Cls2 KeyTyp <- Typ2 Bytes = {65, 66} L = 3 MaxEv = 7 HalfGuard = TRUE
SPECIFICATION Spec
CONSTRAINT Bounded
INVARIANTS TypeOK Delivered InBounds LengthOK NoCross CurAgree InfoOK EvOK
CHECK_DEADLOCK FALSE
