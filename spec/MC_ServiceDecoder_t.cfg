\* composition, small alphabets, deeper: frame loop, countdown, handlers, read side, programmes
CONSTANTS
  Mags = {1, 2} PageSet <- PagesS Rows = {1} Cids = {1} Flofs = {} SysPages <- SysS SpecialPages <- SpecialS DesyncPages = {496} InertPages = {510} HFlags = {"none"}
  Nats = {0} X26Dc <- DcNext X26Good = {13} ExtPk = {28} ExtDc = {0}
  NK = 1 KeyCls <- Cls1 KeyTyp <- Typ1 Bytes = {64} L = 2 ErrPairs <- ErrS
  Carriers = {"vps"} Vals = {"a", "b"} WssWords = {"x"}
  Fns = {0} Uds = {0} Types <- TypesAll Masks <- MasksS
  CcChans = {3} CcKinds = {"RU"} CcRows = {14} CcChars = {65}
  FetchPages = {256} FetchSubs = {16255} FetchLv = {2} FetchNav = {TRUE} SearchPages = {256} Modules = {"text"} Regions = {0} Patterns = {0} CcPages = {1} Levels = {0} RegionVals = {99}
  ArbKinds = {"ttx"} DtSet = {"reg", "jump", "back"} ProgOn = TRUE ProgN26 = {2} ItvLens = {} MaxLines = 2 MaxSteps = 7
SPECIFICATION Spec
VIEW mcview
CONSTRAINT Bounded
INVARIANTS TypeOK TripletBound XdsBound CursorOK ItvBound CacheBound HandlersOK FrameOK SureKnows
CHECK_DEADLOCK FALSE
