------------------------------ MODULE DvbDemux ------------------------------
(* The DVB VBI demultiplexer (vbi_dvb_pes_demux_new / _vbi_dvb_ts_demux_new, vbi_dvb_demux_feed,
   vbi_dvb_demux_cor; src/dvb_demux.h) for property C07.

   Three layers:
   1. What a frame is (EN 301 775 4.1, 4.5.2 and the documentation of the demultiplexer): data units
      of a PES packet become sliced lines; lines of one frame ascend; a packet whose first line does
      not ascend starts a new frame, which completes (delivers) the previous one with the PTS of its
      first packet.  Extract / PacketFrame.
   2. The reference: Frames(stream) = what a receiver reading the PES stream strictly sequentially,
      without any buffering concerns, delivers.  RefPes.
   3. The incremental receiver fed with arbitrary chunks: it keeps `skip, lookahead, leftover` (PES)
      and `skip, lookahead, consume, buffered, in_sync, continuity, pes_todo` (TS) between calls, as
      the wrap-around logic documented in dvb_demux.c does.  RunPes / RunTs.
   Properties: PartitionInvariance (layer 3 = layer 2 after every prefix and for every chunking;
   callback and coroutine interface), Recovery, NoLookaheadOverrun.

   What happens to the frame in progress when the PES receiver meets damage is left open by the
   property (it only speaks about the frames after the damage); it is a policy `pol` of the receiver,
   fixed for its life time:
     "none"  the lines collected so far are kept (libzvbi up to the repair of the dead `err < 0` test in
             demux_pes_packet())
     "err"   they are dropped when a data unit of a packet is malformed (the comment in demux_pes_packet():
             "just discard the data collected so far for this frame"; libzvbi after the repair)
     "all"   they are dropped at every anomaly: malformed data unit, bytes belonging to no packet,
             malformed VBI packet header (what the TS receiver does with its own anomalies)
   PartitionInvariance holds for each policy; which policies satisfy Recovery is decided by TLC
   (MC_DvbDemux).  The TS receiver has one policy only.                                           *)
EXTENDS DvbStream

CONSTANTS HL,          \* PES_HEADER_LOOKAHEAD (48)
          TSH,         \* TS_HEADER_LOOKAHEAD (10): TS header + start code, stream_id, PES_packet_length
          MaxLines     \* capacity of the sliced buffer of one frame (64)

TSS == TSL + TSH - 1   \* TS_SYNC_SEARCH_LOOKAHEAD

ASSUME HL >= HB /\ TSH = 10 /\ TSP >= TSH - 4 /\ MinPL + 6 - HB > HL

-----------------------------------------------------------------------------
(* ---- layer 1: data units -> lines -> frames ---- *)

FS0 == [lines |-> <<>>, lf |-> 0, lfl |-> 0, lfr |-> 0, ldu |-> 0, ndu |-> 0]

DropLast(fs) == [fs EXCEPT !.lines = SubSeq(@, 1, Len(@) - 1)]
SetLast(fs, id, data) == [fs EXCEPT !.lines[Len(fs.lines)] = [line |-> @.line, id |-> id, data |-> data]]

(* allocate the next line of the frame for a data unit with line_offset/field_parity byte b.
   "new": the line does not ascend and this is the first unit of the packet -> a new frame begins.
   A frame holds at most MaxLines lines (vbi_dvb_demux.sliced[64]); every data unit that yields a line takes
   a slot, also those with line_offset 0 ("undefined line", EN 301 775 4.5.2: Teletext only).  Room is
   tested where the slot is taken, i.e. AFTER the decision whether the unit begins a new frame: the first
   unit of the next frame completes a frame of exactly MaxLines lines; the unit MaxLines + 1 of one frame
   is a malformed unit ("err": VBI_ERR_SLICED_BUFFER_OVERFLOW) whatever its line number is.             *)
(* Where a frame begins when the line number is undefined (line_offset 0, Teletext only: the unit tells its field parity and
   nothing else).  EN 301 775 4.1 / 4.5.2: the lines of a frame ascend, so within a frame the field can only go up.
     - the unit is the first data unit of a packet and its field lies BELOW the field of the last line taken: the field went
       back, a new frame begins (no choice);
     - first unit of a packet, field ABOVE the last one (second field behind first field lines): EN 301 775 allows both a new
       frame (a frame that carries second field lines only) and the second field of the same frame sent in a packet of its
       own.  The demultiplexer documents "the toggling of the field_parity flag indicates a new field ... so we take the
       line_offset into account as well" and takes ANY change of the field at the start of a packet for a new frame.  This
       is the named clause FieldUpStartsFrame (TRUE = libzvbi; a cfg may replace it by FALSE: the frame goes on);
     - same field: the unit goes on with the frame in progress - a frame that begins so is not recognisable for any receiver;
     - nothing taken yet in this frame (ldu = 0: the first unit after a frame was completed, or of the stream): it is the
       first line of the frame whatever its field is.  Without this a frame that begins with an undefined line of the second
       field would be "new" again and again - no frame could ever take it (Progress below).                                 *)
FieldUpStartsFrame == TRUE
UndefStartsFrame(fs, field) ==
  fs.ldu # 0 /\ fs.ndu = 0 /\ (field < fs.lf \/ (field > fs.lf /\ FieldUpStartsFrame))
LineAddr(fs, b, s625) ==
  LET field == 1 - Bits(b, 5, 5)
      off   == b % 32
      fl    == IF off = 0 THEN 0 ELSE (IF field = 1 THEN (IF s625 THEN 313 ELSE 263) ELSE 0) + off
      full  == Len(fs.lines) >= MaxLines
  IN IF fl # 0 THEN
            IF fl <= fs.lfr THEN [r |-> IF fs.ndu > 0 THEN "err" ELSE "new", fs |-> fs]
            ELSE IF full THEN [r |-> "err", fs |-> fs]
            ELSE [r |-> "ok", fs |-> [fs EXCEPT !.lf = field, !.lfl = off, !.lfr = fl, !.ndu = @ + 1,
                                                 !.lines = Append(@, [line |-> fl, id |-> 0, data |-> <<>>])]]
     ELSE IF UndefStartsFrame(fs, field) THEN [r |-> "new", fs |-> fs]
     ELSE IF fs.ldu # 0 /\ field < fs.lf THEN [r |-> "err", fs |-> fs]
     ELSE IF full THEN [r |-> "err", fs |-> fs]
     ELSE [r |-> "ok", fs |-> [fs EXCEPT !.lf = field, !.lfl = 0, !.ndu = @ + 1,
                                          !.lines = Append(@, [line |-> 0, id |-> 0, data |-> <<>>])]]

(* Progress: a frame that was just begun takes its first unit - "new" is never answered twice for the same data unit, so the
   loop "complete the frame, begin the next one, look at the unit again" of PacketFrame / demux_pes_packet_frame() ends. *)
FreshFrameTakes == \A b \in 0..255 : \A s625 \in BOOLEAN : LineAddr(FS0, b, s625).r # "new"

\* one data unit at offset q of X (its length was checked against the packet end)
Unit(fs, X, q) ==
  LET id == At(X, q)  len == At(X, q + 1)  b == At(X, q + 2) IN
  IF id \in {DuTtx, DuTtxSub} THEN
      IF len < 2 + TtxN THEN [r |-> "err", fs |-> fs]
      ELSE IF At(X, q + 3) # 228 THEN [r |-> "skip", fs |-> fs]        \* other framing code: not System B
      ELSE LET a == LineAddr(fs, b, TRUE) IN
           IF a.r # "ok" THEN a
           ELSE IF a.fs.lfl > 0 /\ a.fs.lfl \notin 7..22 THEN [r |-> "err", fs |-> DropLast(a.fs)]
           ELSE [r |-> "ok", fs |-> SetLast(a.fs, TTX, [i \in 1..TtxN |-> Rev8(At(X, q + 3 + i))])]
  ELSE IF id = DuVps THEN
      IF len < 1 + VpsN THEN [r |-> "err", fs |-> fs]
      ELSE LET a == LineAddr(fs, b, TRUE) IN
           IF a.r # "ok" THEN a
           ELSE IF a.fs.lines[Len(a.fs.lines)].line # 16 THEN [r |-> "err", fs |-> DropLast(a.fs)]
           ELSE [r |-> "ok", fs |-> SetLast(a.fs, VPS, [i \in 1..VpsN |-> At(X, q + 2 + i)])]
  ELSE IF id = DuWss THEN
      IF len < 3 THEN [r |-> "err", fs |-> fs]
      ELSE LET a == LineAddr(fs, b, TRUE) IN
           IF a.r # "ok" THEN a
           ELSE IF a.fs.lines[Len(a.fs.lines)].line # 23 THEN [r |-> "err", fs |-> DropLast(a.fs)]
           ELSE [r |-> "ok", fs |-> SetLast(a.fs, WSS625, <<Rev8(At(X, q + 3)), Rev8(At(X, q + 4))>>)]
  ELSE IF id = DuCc THEN
      IF len < 3 THEN [r |-> "err", fs |-> fs]
      ELSE LET a == LineAddr(fs, b, TRUE) IN
           IF a.r # "ok" THEN a
           ELSE IF a.fs.lines[Len(a.fs.lines)].line # 21 THEN [r |-> "err", fs |-> DropLast(a.fs)]
           ELSE [r |-> "ok", fs |-> SetLast(a.fs, CC625F1, <<Rev8(At(X, q + 3)), Rev8(At(X, q + 4))>>)]
  ELSE IF id = DuWssCpr THEN
      IF len < 4 THEN [r |-> "err", fs |-> fs]
      ELSE LET a == LineAddr(fs, b, FALSE) IN
           IF a.r # "ok" THEN a
           ELSE [r |-> "ok", fs |-> SetLast(a.fs, WSSCPR, <<At(X, q + 3), At(X, q + 4), At(X, q + 5)>>)]
  ELSE IF id = DuCc525 THEN
      IF len < 3 THEN [r |-> "err", fs |-> fs]
      ELSE LET a == LineAddr(fs, b, FALSE) IN
           IF a.r # "ok" THEN a
           ELSE [r |-> "ok", fs |-> SetLast(a.fs, IF a.fs.lf = 0 THEN CC525F1 ELSE CC525F2,
                                            <<Rev8(At(X, q + 3)), Rev8(At(X, q + 4))>>)]
  ELSE [r |-> "skip", fs |-> fs]         \* stuffing, sample data (not delivered), unknown ids

(* the data units in [q, e) of X.  r = "ok": all done; "err": malformed unit at q; "new": the unit at q
   belongs to the next frame and nothing of this packet was taken yet. *)
RECURSIVE Extract(_, _, _, _)
Extract(fs, X, q, e) ==
  IF q + 2 >= e THEN [r |-> "ok", fs |-> fs, q |-> q]
  ELSE IF q + 2 + At(X, q + 1) > e THEN [r |-> "err", fs |-> fs, q |-> q]     \* unit crosses the packet end
  ELSE LET u == Unit(fs, X, q) IN
       IF u.r \in {"ok", "skip"}
       THEN Extract([u.fs EXCEPT !.ldu = At(X, q)], X, q + 2 + At(X, q + 1), e)
       ELSE [r |-> u.r, fs |-> u.fs, q |-> q]

(* Receiver state above the packet layer:
   nf  a new frame begins with the next packet (initially, and after a frame was completed)
   ppts, fpts  time stamp of the current packet / of the first packet of the frame in progress
   fs  the frame in progress;  out  frames delivered;  cb  callback interface (else coroutine) *)
D0(cb, pol) == [nf |-> TRUE, ppts |-> <<0, 0>>, fpts |-> <<0, 0>>, fs |-> FS0, out |-> <<>>, cb |-> cb, pol |-> pol]

RECURSIVE PacketFrame(_, _, _, _)
PacketFrame(d, X, q, e) ==
  LET d1 == IF d.nf THEN [d EXCEPT !.fs = FS0, !.fpts = d.ppts, !.nf = FALSE] ELSE d
      x  == Extract(d1.fs, X, q, e)
  IN IF x.r # "new" THEN [d |-> [d1 EXCEPT !.fs = x.fs], r |-> x.r, q |-> x.q]
     ELSE IF ~d.cb THEN [d |-> [d1 EXCEPT !.nf = TRUE], r |-> "cb", q |-> x.q]
     ELSE PacketFrame([d1 EXCEPT !.nf = TRUE, !.out = Append(@, [lines |-> d1.fs.lines, pts |-> d1.fpts])],
                      X, x.q, e)

(* PES packet header at offset p of X as a receiver accepts it (EN 300 472 4.2): header data length
   0x24, a VBI data_identifier, '10', not scrambled, data_alignment_indicator, and a PTS - which may
   be missing only in a packet continuing a frame.  The PTS prefix/marker bits are not examined. *)
ValidHdr(d, X, p) ==
  LET f == Bits(At(X, p + 7), 7, 6) IN
  IF At(X, p + 8) # HdlVal \/ ~DidLegal(At(X, p + HB - 1))
     \/ Bits(At(X, p + 6), 7, 4) # 8 \/ Bits(At(X, p + 6), 2, 2) # 1
  THEN [ok |-> FALSE, d |-> d]
  ELSE IF f >= 2 THEN [ok |-> TRUE, d |-> [d EXCEPT !.ppts = PtsOf(X, p)]]
  ELSE [ok |-> ~d.nf, d |-> d]

PLen(X, p) == At(X, p + 4) * 256 + At(X, p + 5)
DropE(d) == IF d.pol \in {"err", "all"} THEN [d EXCEPT !.nf = TRUE] ELSE d     \* malformed data unit
DropJ(d) == IF d.pol = "all" THEN [d EXCEPT !.nf = TRUE] ELSE d               \* junk, malformed header
StartCode(X, p) == At(X, p) = 0 /\ At(X, p + 1) = 0 /\ At(X, p + 2) = 1

-----------------------------------------------------------------------------
(* ---- layer 2: the reference.  n = number of stream bytes received so far ---- *)
RECURSIVE RefPes(_, _, _, _)
RefPes(X, n, pos, d) ==
  IF pos + HL > n THEN d                          \* a header is examined when HL bytes of it are there
  ELSE IF ~StartCode(X, pos) \/ At(X, pos + 3) < 188 THEN RefPes(X, n, pos + 1, DropJ(d))
  ELSE IF At(X, pos + 3) # 189 THEN RefPes(X, n, pos + 6 + PLen(X, pos), d)         \* packet of another stream
  ELSE IF PLen(X, pos) < MinPL THEN RefPes(X, n, pos + 6 + PLen(X, pos), DropJ(d))
  ELSE LET v == ValidHdr(d, X, pos)  e == pos + 6 + PLen(X, pos) IN
       IF ~v.ok THEN RefPes(X, n, e, DropJ(d))
       ELSE IF e > n THEN v.d
       ELSE LET r == PacketFrame([v.d EXCEPT !.fs.ndu = 0], X, pos + HB, e) IN
            RefPes(X, n, e, IF r.r = "err" THEN DropE(r.d) ELSE r.d)

Frames(X, n, pol) == RefPes(X, n, 0, D0(TRUE, pol)).out

-----------------------------------------------------------------------------
(* ---- layer 3: the incremental receiver ----
   X     the stream (all of it; the receiver may only read below ce)
   rd    stream bytes consumed from the caller's buffers;  ce  end of the current buffer
   cz    size of the current buffer (as passed to this call)
   PES:  skip, look, left   (bytes to discard, bytes needed, bytes kept from earlier buffers:
         the kept bytes are always X[rd - left .. rd) )
   TS:   tskip, tlook, tcons, tn (bytes in the TS header buffer = X[rd - tn .. rd)), sync, cont,
         ptodo (PES bytes still to come), pbuf (PES bytes collected), fbp/ftodo (units still to
         extract from pbuf; coroutine re-entry)
   ret   the last call returned because a frame is complete (coroutine)
   bad   ghost: a byte outside the readable window was examined                                *)
S0(ts, cb, pid, pol) ==
  [rd |-> 0, ce |-> 0, cz |-> 0, skip |-> 0, look |-> HL, left |-> 0, d |-> D0(cb, pol), ret |-> FALSE, bad |-> FALSE,
   ts |-> ts, pid |-> pid, tskip |-> 0, tlook |-> TSS, tcons |-> 0, tn |-> 0, sync |-> FALSE, cont |-> -1,
   ptodo |-> 0, pbuf |-> <<>>, fbp |-> 0, ftodo |-> 0]

\* make `look` bytes available behind the discarded ones; ok = FALSE: more data needed
Wrap(s) ==
  LET sl0 == s.ce - s.rd
      a == IF s.skip = 0 THEN [s |-> s, more |-> FALSE]
           ELSE IF s.skip <= s.left THEN [s |-> [s EXCEPT !.left = @ - s.skip, !.skip = 0], more |-> FALSE]
           ELSE LET k == s.skip - s.left IN
                IF k > sl0 THEN [s |-> [s EXCEPT !.skip = k - sl0, !.left = 0, !.rd = s.ce], more |-> TRUE]
                ELSE [s |-> [s EXCEPT !.skip = 0, !.left = 0, !.rd = @ + k], more |-> FALSE]
      t == a.s
      sl == t.ce - t.rd
      av == t.left + sl
  IN IF a.more THEN [ok |-> FALSE, s |-> t, se |-> 0, rend |-> 0]
     ELSE IF t.look > av \/ av > t.cz THEN          \* not in one piece in the caller's buffer
            IF t.look > t.left THEN
               IF t.look - t.left > sl THEN [ok |-> FALSE, s |-> [t EXCEPT !.left = @ + sl, !.rd = t.ce], se |-> 0, rend |-> 0]
               ELSE [ok |-> TRUE, s |-> [t EXCEPT !.rd = @ + (t.look - t.left), !.left = t.look],
                     se |-> t.rd - t.left, rend |-> t.rd + (t.look - t.left)]
            ELSE [ok |-> TRUE, s |-> t, se |-> t.rd - t.look, rend |-> t.rd]
     ELSE [ok |-> TRUE, s |-> t, se |-> t.ce - t.look, rend |-> t.ce]

\* start code search from p; positions up to se may be examined
RECURSIVE Scan(_, _, _)
Scan(X, p, se) ==
  LET nx == IF At(X, p + 2) \notin {0, 1} THEN p + 3          \* none of p, p+1, p+2 starts 00 00 01
            ELSE IF ~StartCode(X, p) \/ At(X, p + 3) < 188 THEN p + 1
            ELSE p
  IN IF nx = p THEN [k |-> IF At(X, p + 3) = 189 THEN "vbi" ELSE "other", p |-> p]
     ELSE IF nx >= se THEN [k |-> "none", p |-> nx]
     ELSE Scan(X, nx, se)

StepPes(X, w) ==
  LET s == w.s  dst == s.rd - s.left IN
  IF s.look > HL THEN      \* the data units of a packet are available in [dst, dst + look)
      LET r == PacketFrame([s.d EXCEPT !.fs.ndu = 0], X, dst, dst + s.look) IN
      IF r.r = "cb" THEN [s EXCEPT !.d = r.d, !.ret = TRUE]
      ELSE [s EXCEPT !.d = IF r.r = "err" THEN DropE(r.d) ELSE r.d, !.skip = s.look, !.look = HL]
  ELSE
      LET c == Scan(X, dst, w.se)
          rel == c.p - dst
          hi == IF c.k = "none" THEN c.p - 1 + 3 ELSE IF c.k = "other" THEN c.p + 5 ELSE c.p + HB - 1
          s0 == [s EXCEPT !.bad = @ \/ hi >= w.rend \/ dst > w.se]
          s1 == IF rel > 0 THEN [s0 EXCEPT !.d = DropJ(@)] ELSE s0
      IN IF c.k = "none" THEN [s1 EXCEPT !.skip = rel]
         ELSE IF c.k = "other" THEN [s1 EXCEPT !.skip = rel + 6 + PLen(X, c.p)]
         ELSE IF PLen(X, c.p) < MinPL THEN [s1 EXCEPT !.d = DropJ(@), !.skip = rel + 6 + PLen(X, c.p)]
         ELSE LET v == ValidHdr(s1.d, X, c.p) IN
              IF ~v.ok THEN [s1 EXCEPT !.d = DropJ(@), !.skip = rel + 6 + PLen(X, c.p)]
              ELSE [s1 EXCEPT !.d = v.d, !.skip = rel + HB, !.look = PLen(X, c.p) + 6 - HB]

RECURSIVE RunPes(_, _)
RunPes(X, s) ==
  LET w == Wrap(s) IN
  IF ~w.ok THEN w.s
  ELSE LET t == StepPes(X, w) IN IF t.ret THEN t ELSE RunPes(X, t)

-----------------------------------------------------------------------------
(* transport stream receiver (ISO 13818-1 2.4.3.2, EN 300 472 4.1) *)
Slice(X, a, n) == [i \in 1..n |-> At(X, a + i - 1)]
Mn(a, b) == IF a < b THEN a ELSE b

\* next packet header expected behind this one (avail bytes of it, from offset p, are buffered)
TsNextPacket(s, avail) ==
  IF avail <= TSL THEN [s EXCEPT !.tskip = TSL - avail, !.tn = 0, !.tlook = TSH]
  ELSE [s EXCEPT !.tn = avail - TSL, !.tlook = TSH - Mn(avail - TSL, TSH)]
TsDropPes(s, avail) == TsNextPacket([s EXCEPT !.d.nf = TRUE, !.ptodo = 0, !.tcons = 0], avail)

\* payload of the packet at buffer offset p goes to the PES packet in progress
TsTake(X, s, p, avail) ==
  LET base == s.rd - s.tn + p IN
  IF avail <= TSL THEN
      LET consume == Mn(s.ptodo, TSP)  frag == Mn(avail - 4, consume) IN
      [s EXCEPT !.pbuf = @ \o Slice(X, base + 4, frag), !.ptodo = @ - frag, !.tcons = consume - frag,
                !.tn = 0, !.tlook = TSH]
  ELSE
      LET frag == Mn(s.ptodo, TSP) IN
      [s EXCEPT !.pbuf = @ \o Slice(X, base + 4, frag), !.ptodo = @ - frag,
                !.tn = avail - TSL, !.tlook = TSH - Mn(avail - TSL, TSH)]

(* continuity_counter (ISO 13818-1 2.4.3.3): 4 bits, incremented with every packet of the PID that carries
   payload, 15 is followed by 0.  The receiver keeps in `cont` the value expected next (not reduced: header byte
   b3 + 1, so 17 .. 32; -1 = nothing known) and compares modulo 16 with the counter cc of the packet:
     "first"  nothing known yet (start, after loss of synchronisation): the packet is accepted
     "next"   the expected value
     "dup"    the value of the previous packet of the PID: a duplicate packet (2.4.3.3: a packet may be sent
              twice) - it is skipped and NOTHING else changes, in particular not the expected value
     "lost"   any other value: packets were lost; the PES packet and the frame in progress are dropped and the
              receiver waits for the next PES packet start, expecting cc + 1                                  *)
ContClass(cont, cc) ==
  IF cont < 0 THEN "first"
  ELSE IF cont % 16 = cc THEN "next"
  ELSE IF (cont + 15) % 16 = cc THEN "dup"
  ELSE "lost"

(* the transport packet header at buffer offset p (2.4.3.2), in the order the receiver looks at the fields:
   transport_error_indicator, PID filter, transport_scrambling_control, adaptation_field_control ('10': no
   payload - skipped before the counter is looked at, the counter does not advance in such packets; '00'/'11':
   not allowed in a VBI stream, EN 300 472 4.1), continuity_counter, payload_unit_start / PES packet start *)
TsHeaderAt(X, s, p, avail) ==
  LET base == s.rd - s.tn + p
      b1 == At(X, base + 1)  b3 == At(X, base + 3)
      pid == (b1 % 32) * 256 + At(X, base + 2)
      afc == Bits(b3, 5, 4)
      cls == ContClass(s.cont, b3 % 16)
  IN IF Bits(b1, 7, 7) = 1 THEN TsDropPes(s, avail)                 \* transport_error_indicator
     ELSE IF pid # s.pid THEN TsNextPacket(s, avail)
     ELSE IF Bits(b3, 7, 6) # 0 THEN TsDropPes(s, avail)            \* scrambled
     ELSE IF afc = 2 THEN TsNextPacket(s, avail)                    \* adaptation field only
     ELSE IF afc # 1 THEN TsDropPes(s, avail)
     ELSE IF cls = "dup" THEN TsNextPacket(s, avail)
     ELSE IF cls = "lost" THEN TsDropPes([s EXCEPT !.cont = b3 + 1], avail)
     ELSE LET s1 == [s EXCEPT !.cont = b3 + 1] IN
          IF s1.ptodo = 0 THEN
              IF ~StartCode(X, base + 4) \/ At(X, base + 7) # 189 \/ PLen(X, base + 4) < MinPL
              THEN TsDropPes(s1, avail)
              ELSE TsTake(X, [s1 EXCEPT !.pbuf = <<>>, !.ptodo = PLen(X, base + 4) + 6], p, avail)
          ELSE IF Bits(b1, 6, 6) = 1 THEN TsDropPes(s1, avail)      \* unexpected payload_unit_start
          ELSE TsTake(X, s1, p, avail)

RECURSIVE SyncAt(_, _, _, _)
SyncAt(X, base, tn, p) ==
  IF p >= TSL THEN -1
  ELSE IF At(X, base + p) = 71
          /\ \/ p + TSL < tn /\ At(X, base + p + TSL) = 71
             \/ p + 7 < tn /\ StartCode(X, base + p + 4) /\ At(X, base + p + 7) = 189
       THEN p
  ELSE SyncAt(X, base, tn, p + 1)

\* one round of the TS receiver.  fin: "more" (out of data), "cb" (frame complete), "go"
TsRound(X, s) ==
  LET sl0 == s.ce - s.rd
      \* A: rest of the payload of the current packet
      a == IF s.tcons = 0 THEN [s |-> s, fin |-> "go"]
           ELSE IF s.tcons > sl0 THEN
                [s |-> [s EXCEPT !.pbuf = @ \o Slice(X, s.rd, sl0), !.ptodo = @ - sl0, !.tcons = @ - sl0, !.rd = s.ce],
                 fin |-> "more"]
           ELSE LET t == [s EXCEPT !.pbuf = @ \o Slice(X, s.rd, s.tcons), !.ptodo = @ - s.tcons,
                                   !.rd = @ + s.tcons, !.tcons = 0] IN
                IF t.ptodo # 0 THEN [s |-> t, fin |-> "go"]
                ELSE LET v == ValidHdr(t.d, t.pbuf, 0) IN
                     IF ~v.ok THEN [s |-> [t EXCEPT !.d.nf = TRUE, !.ftodo = 0], fin |-> "again"]
                     ELSE [s |-> [t EXCEPT !.d = [v.d EXCEPT !.fs.ndu = 0], !.fbp = HB, !.ftodo = Len(t.pbuf) - HB],
                           fin |-> "go"]
      \* B: data units of a complete PES packet
      b == IF a.fin # "go" \/ a.s.ftodo = 0 THEN a
           ELSE LET t == a.s
                    r == PacketFrame(t.d, t.pbuf, t.fbp, t.fbp + t.ftodo) IN
                IF r.r = "cb" THEN [s |-> [t EXCEPT !.d = r.d, !.ftodo = (t.fbp + t.ftodo) - r.q, !.fbp = r.q, !.ret = TRUE],
                                    fin |-> "cb"]
                ELSE IF r.r = "err" THEN [s |-> [t EXCEPT !.d = [r.d EXCEPT !.nf = TRUE], !.ftodo = 0], fin |-> "go"]
                ELSE [s |-> [t EXCEPT !.d = r.d, !.ftodo = 0, !.fbp = r.q], fin |-> "go"]
      \* C: skip the rest of a packet we do not want;  D: collect the next header
      c == IF b.fin # "go" THEN b
           ELSE LET t == b.s  sl == t.ce - t.rd IN
                IF t.tskip > sl THEN [s |-> [t EXCEPT !.tskip = @ - sl, !.rd = t.ce], fin |-> "more"]
                ELSE LET u == [t EXCEPT !.rd = @ + t.tskip, !.tskip = 0]  sl2 == u.ce - u.rd IN
                     IF u.tlook > sl2 THEN [s |-> [u EXCEPT !.tn = @ + sl2, !.tlook = @ - sl2, !.rd = u.ce], fin |-> "more"]
                     ELSE [s |-> [u EXCEPT !.tn = @ + u.tlook, !.rd = @ + u.tlook], fin |-> "go"]
  IN IF c.fin # "go" THEN c
     ELSE LET t == c.s  base == t.rd - t.tn IN
          IF t.sync THEN
              IF At(X, base) # 71
              THEN [s |-> [t EXCEPT !.sync = FALSE, !.d.nf = TRUE, !.ptodo = 0, !.tcons = 0, !.cont = -1,
                                    !.tlook = TSS - t.tn, !.bad = @ \/ t.tn < TSH], fin |-> "go"]
              ELSE [s |-> [TsHeaderAt(X, t, 0, t.tn) EXCEPT !.bad = @ \/ t.tn < TSH], fin |-> "go"]
          ELSE LET p == SyncAt(X, base, t.tn, 0) IN
               IF p < 0 THEN [s |-> [t EXCEPT !.tn = @ - TSL, !.tlook = TSS - (t.tn - TSL), !.bad = @ \/ t.tn < TSS], fin |-> "go"]
               ELSE [s |-> [TsHeaderAt(X, [t EXCEPT !.sync = TRUE], p, t.tn - p) EXCEPT !.bad = @ \/ t.tn < TSS], fin |-> "go"]

RECURSIVE RunTs(_, _)
RunTs(X, s) ==
  LET r == TsRound(X, s) IN
  IF r.fin \in {"more", "cb"} THEN r.s ELSE RunTs(X, r.s)

-----------------------------------------------------------------------------
Run(X, s) == IF s.ts THEN (IF s.ce = s.rd THEN s ELSE RunTs(X, s)) ELSE RunPes(X, s)

\* vbi_dvb_demux_feed(buffer, n): frames are handed to the callback while the buffer is consumed
Feed(X, s, n) == [Run(X, [s EXCEPT !.ce = @ + n, !.cz = n, !.ret = FALSE]) EXCEPT !.cz = 0]

(* vbi_dvb_demux_cor(sliced, maxl, pts, &buffer, &left): n > 0 passes a new buffer (the previous one was
   used up), n = 0 calls again with the rest of the previous buffer.  Returns when a frame is complete
   (the first maxl lines are copied out) or the buffer is used up. *)
Cor(X, s, n, maxl) ==
  LET t == [Run(X, [s EXCEPT !.ce = @ + n, !.cz = (s.ce + n) - s.rd, !.ret = FALSE]) EXCEPT !.cz = 0]
      k == Mn(Len(t.d.fs.lines), maxl)
  IN IF t.ret /\ k > 0
     THEN [t EXCEPT !.d.out = Append(@, [lines |-> SubSeq(t.d.fs.lines, 1, k), pts |-> t.d.fpts]), !.d.fs.lines = <<>>]
     ELSE t

\* the scalars a debugger shows after a call
ScalPes(s) == <<s.skip, s.look, s.left, IF s.d.nf THEN 1 ELSE 0, Len(s.d.fs.lines)>>
ScalTs(s) == <<s.tskip, s.tlook, s.tcons, s.tn, IF s.sync THEN 1 ELSE 0, s.cont, s.ptodo, s.ftodo,
               IF s.d.nf THEN 1 ELSE 0, Len(s.d.fs.lines)>>

\* delivered frames as the coroutine interface shows them: no empty frames, at most maxl lines
CorView(out, maxl) ==
  LET ne == SelectSeq(out, LAMBDA f : Len(f.lines) > 0) IN
  [i \in 1..Len(ne) |-> [lines |-> SubSeq(ne[i].lines, 1, Mn(Len(ne[i].lines), maxl)), pts |-> ne[i].pts]]

IsSuffix(a, b) == Len(a) <= Len(b) /\ SubSeq(b, Len(b) - Len(a) + 1, Len(b)) = a
=============================================================================
