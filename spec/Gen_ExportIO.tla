---------------------------- MODULE Gen_ExportIO ----------------------------
(* Operation scripts for the scripted export module of harness/drv_exportio.c: one behaviour of the
   ExportIO model per distinct state reached (entry point, caller size, operations).  The real write
   layer executes each script through the public target functions and the recorded run is validated
   against ExportIO by Trace_ExportIO (the model is nondeterministic in the allocator's capacities and in
   how printf reaches a file, so the binding is trace validation, not replay). *)
EXTENDS ExportIO, Json
VARIABLE hist
gvars == <<vars, hist>>
gview == vars
GInit == Init /\ hist = <<>>
GNext == Next /\ hist' = IF lastOp'.op = "end" THEN hist ELSE Append(hist, lastOp')
GSpec == GInit /\ [][GNext]_gvars
Dump == res.entry # "none" => PrintT(<<"TR", ToJson([entry |-> res.entry, csize |-> res.csize, ops |-> hist])>>)
=============================================================================
