--------------------------- MODULE TtxPatSpace ---------------------------
(* The PATTERN SPACE of the C17 regular-expression layer: pattern ASTs of TtxMatch over a small
   alphabet, enumerated by index so that TLC can walk a stratum exhaustively or take a strided
   sample of it (Gen_TtxMatch) and so that Judge_TtxMatch can name a pattern by <<family, n, k>>.

   family "T": every expression tree with n nodes over Leaves, the unary operators * + ? and
               the binary operators concatenation and alternation (the right operand of a
               concatenation is no concatenation, same for alternations: "abc" exists once).
               Anchors are kept only where they are anchors of the whole pattern or of a whole
               alternative (WellAnchored); "a^b", "(^a)*" belong to the odd patterns of the check.
   family "P": two continuations with a common prefix, xy|xz  (xy)*xz  x?xy  x*xy  (x|y)z|xy ...
               - the place where the states of ure's automaton share symbols
   family "L": literal patterns (vbi_search_new regexp = FALSE) incl. characters that are
               operators in a regular expression
   family "X": named patterns with a special role (empty matches, row separator)               *)
EXTENDS Naturals, Sequences

Chr(c) == [k |-> "chr", c |-> c]
AnyCh    == [k |-> "any"]
Cls(s) == [k |-> "cls", s |-> s]
NCls(s) == [k |-> "ncls", s |-> s]
Bol    == [k |-> "bol"]
Eol    == [k |-> "eol"]
Cat2(x, y) == [k |-> "cat", a |-> <<x, y>>]
Alt2(x, y) == [k |-> "alt", a |-> <<x, y>>]
Un(op, x)  == [k |-> op, p |-> x]

\*           a        b        A        .    [ab]           [bC]           [^a]        ^    $
Leaves == << Chr(97), Chr(98), Chr(65), AnyCh, Cls({97, 98}), Cls({98, 67}), NCls({97}), Bol, Eol >>
NL     == Len(Leaves)
NCore  == 7                    \* Leaves[1..NCore] consume a character
UnOps  == << "star", "plus", "opt" >>
MaxN   == 8                    \* T[9] still fits into 32 bits, T[10] does not

(* T[n] = number of trees with n nodes, B[n] = number of those whose root is a concatenation
   (= number whose root is an alternation).  Tab[n] = <<T[n], B[n]>>. *)
RECURSIVE SumB(_, _, _)
SumB(tab, n, i) == IF i > n - 2 THEN 0
                   ELSE tab[i][1] * (tab[n - 1 - i][1] - tab[n - 1 - i][2]) + SumB(tab, n, i + 1)
RECURSIVE BuildTab(_)
BuildTab(tab) == LET n == Len(tab) + 1 IN
                 IF n > MaxN THEN tab
                 ELSE IF n = 1 THEN BuildTab(<< <<NL, 0>> >>)
                 ELSE LET b == SumB(tab, n, 1) IN BuildTab(Append(tab, <<3 * tab[n - 1][1] + 2 * b, b>>))
Tab == BuildTab(<<>>)
T(n) == Tab[n][1]
B(n) == Tab[n][2]
NB(n) == Tab[n][1] - Tab[n][2]      \* trees whose root is not the excluded binary operator

(* Unrank(n, k, ex): the k-th tree (0 <= k) with n nodes whose root is not the binary operator ex
   ("none": no restriction, then k < T(n); otherwise k < NB(n)).  Order: unary roots, then
   concatenations, then alternations. *)
RECURSIVE Unrank(_, _, _), Bin(_, _, _, _)
Unrank(n, k, ex) ==
  IF n = 1 THEN Leaves[k + 1]
  ELSE IF k < 3 * T(n - 1)
       THEN Un(UnOps[(k \div T(n - 1)) + 1], Unrank(n - 1, k % T(n - 1), "none"))
       ELSE LET k2 == k - 3 * T(n - 1)
                op == IF ex = "cat" THEN "alt" ELSE IF ex = "alt" THEN "cat"
                      ELSE IF k2 < B(n) THEN "cat" ELSE "alt"
                k3 == IF ex = "none" /\ k2 >= B(n) THEN k2 - B(n) ELSE k2
            IN Bin(n, op, k3, 1)
Bin(n, op, k, i) ==
  LET m == n - 1 - i
      blk == T(i) * NB(m)
  IN IF k < blk THEN [k |-> op, a |-> << Unrank(i, k \div NB(m), "none"), Unrank(m, k % NB(m), op) >>]
     ELSE Bin(n, op, k - blk, i + 1)

(* anchors only where they anchor the whole pattern or a whole alternative *)
RECURSIVE AnchOK(_, _, _)
AnchOK(p, lead, trail) ==
  CASE p.k = "bol" -> lead
    [] p.k = "eol" -> trail
    [] p.k \in {"chr", "any", "cls", "ncls"} -> TRUE
    [] p.k = "cat" -> \A i \in 1..Len(p.a) : AnchOK(p.a[i], lead /\ i = 1, trail /\ i = Len(p.a))
    [] p.k = "alt" -> \A i \in 1..Len(p.a) : AnchOK(p.a[i], lead, trail)
    [] OTHER -> AnchOK(p.p, FALSE, FALSE)
WellAnchored(p) == AnchOK(p, TRUE, TRUE)

-----------------------------------------------------------------------------
(* family "P": index k -> shape (k % NShapes), x y z core leaves *)
NShapes == 10
NPrefix == NShapes * NCore * NCore * NCore
Prefix(k) ==
  LET sh == k % NShapes
      q  == k \div NShapes
      x  == Leaves[(q % NCore) + 1]
      y  == Leaves[((q \div NCore) % NCore) + 1]
      z  == Leaves[((q \div (NCore * NCore)) % NCore) + 1]
  IN CASE sh = 0 -> Alt2(Cat2(x, y), Cat2(x, z))                         \* xy|xz
       [] sh = 1 -> Cat2(Cat2(Un("star", Cat2(x, y)), x), z)             \* (xy)*xz
       [] sh = 2 -> Cat2(Cat2(Un("opt", x), x), y)                       \* x?xy
       [] sh = 3 -> Cat2(Cat2(Un("star", x), x), y)                      \* x*xy
       [] sh = 4 -> Alt2(Cat2(Alt2(x, y), z), Cat2(x, y))                \* (x|y)z|xy
       [] sh = 5 -> Cat2(Cat2(x, Un("star", y)), z)                      \* xy*z
       [] sh = 6 -> Cat2(Cat2(x, Un("opt", Cat2(y, z))), y)              \* x(yz)?y
       [] sh = 7 -> Alt2(Cat2(Cat2(x, y), z), Cat2(x, Un("plus", y)))    \* xyz|xy+
       \* an occurrence that begins within a longer attempt which fails, or is cut off by the end of the text
       [] sh = 8 -> Alt2(Cat2(Cat2(x, y), z), y)                         \* xyz|y
       [] sh = 9 -> Cat2(Un("star", Cat2(x, y)), y)                      \* (xy)*y

(* family "L": literal patterns (vbi_search_new regexp = FALSE).  Meta = every character which vbi_search_new
   escapes before it hands the pattern to ure (the operators of ure and the rest of its list), each at the start, in
   the middle and at the end of a pattern and alone.  The page texts (TtxMatchRows!LitRow) hold the literal text for
   the characters a page can show, and everywhere text that would match if the character were taken for an operator. *)
\*        !   "   #   $   %   &   (   )   *   +   ,   -   .   /   :   ;   =   ?   @   [   \   ]   ^   _   {    |    }    ~
Meta == << 33, 34, 35, 36, 37, 38, 40, 41, 42, 43, 44, 45, 46, 47, 58, 59, 61, 63, 64, 91, 92, 93, 94, 95, 123, 124, 125, 126 >>
NMeta == Len(Meta)
\* what the default national character subset cannot show as such (0x5B..0x60, 0x7B..0x7E are national option positions;
\* "#" is shown by code 0x5F - the transmitter of the check knows that)
Showable(c) == c \notin {91, 92, 93, 94, 95, 123, 124, 125, 126}
NLForms == 7
NLit == NLForms * NMeta
MetaClasses == 6
MetaIdx(k) == (k \div NLForms) + 1
Lit3(k) ==
  LET m == Meta[MetaIdx(k)]
      fm == k % NLForms
  IN CASE fm = 0 -> <<m>>
       [] fm = 1 -> <<m, 97>>            \* ma
       [] fm = 2 -> <<m, 98>>            \* mb
       [] fm = 3 -> <<97, m>>            \* am
       [] fm = 4 -> <<98, m>>            \* bm
       [] fm = 5 -> <<97, m, 98>>        \* amb
       [] fm = 6 -> <<65, m, 66>>        \* AmB
Literal(k) == LET s == Lit3(k) IN [k |-> "cat", a |-> [i \in 1..Len(s) |-> Chr(s[i])]]

(* family "X": named patterns.  The check knows the ure text of each by its position.
   1-6 match the empty string (an empty match is no occurrence), 7-9 can match the separator which
   search.c puts between the rows (it is not displayed: no occurrence contains it). *)
Digits == {48, 49, 50, 51, 52, 53, 54, 55, 56, 57}
Named == << Un("star", Chr(97)),                          \* a*
            Bol,                                          \* ^
            Eol,                                          \* $
            Cat2(Un("star", Chr(98)), Eol),               \* b*$
            Cat2(Bol, Un("star", Chr(97))),               \* ^a*
            Un("opt", Cat2(Chr(97), Chr(98))),            \* (ab)?
            Chr(10),                                      \* \n
            NCls(Digits),                                 \* [\P4]   (no digit)
            Cls({32, 10}) >>                              \* [\p9]   (white space)
NNamed == Len(Named)

PatOf(f, n, k) == CASE f = "T" -> Unrank(n, k, "none")
                    [] f = "P" -> Prefix(k)
                    [] f = "L" -> Literal(k)
                    [] f = "X" -> Named[k + 1]
CountOf(f, n) == CASE f = "T" -> T(n) [] f = "P" -> NPrefix [] f = "L" -> NLit [] f = "X" -> NNamed
Admitted(f, n, k) == IF f = "T" THEN WellAnchored(Unrank(n, k, "none")) ELSE TRUE
=============================================================================
