----------------------------- MODULE CanvasCells -----------------------------
(* Rendering clause of property C16 at the granularity of character cells.

   From the documentation: exp-gfx.h / exp-gfx.c (vbi_draw_vt_page_region, vbi_draw_cc_page_region: "Draw a
   subsection of a ... vbi_page", one character occupies 12 x 10 (16 x 26) pixels, canvas of rowstride * height
   * 10 (26) bytes, rowstride = byte distance from line to line, formats RGBA32_LE and PAL8 only) and format.h
   (vbi_size: "Double width or height characters expand into the next column right and/or next row below";
   scanning two rows one finds  DOUBLE_WIDTH OVER_TOP | DOUBLE_HEIGHT / DOUBLE_HEIGHT2 | DOUBLE_SIZE OVER_TOP /
   DOUBLE_SIZE2 OVER_BOTTOM; every cell carries the code of its anchor).

   A page is [rows, cols, sz] (sz row-major, vbi_size values).  What the full-page rendering shows in a cell is
   Shown: the glyph of the cell itself (its own vertical half when it is part of a double height / size
   character), the left half when it is the anchor of a wide character, the right half of its left neighbour
   when it is an OVER_TOP / OVER_BOTTOM cell.  Pixels inside a cell are not modelled: the oracle for a cell is
   the library's full-page rendering, as the statement defines it.

   Post is the specification of a region draw: exactly the cells of the region become Shown, every other cell
   (and every byte that is not part of a cell of the region: line padding, memory before and after the canvas)
   stays untouched - for every region, stride and format; an unsupported format draws nothing.  Paint is the
   drawing procedure the documentation of the character drawing routine describes (a cell paints itself, a wide
   cell also its right half, OVER_ cells paint nothing), clipped to the region when Clip is TRUE.  TLC checks
   that Paint implements Post and the frame condition.                                                    *)
EXTENDS Naturals, Sequences, FiniteSets, TLC

Wide(z) == z \in {1, 3, 7}            \* DOUBLE_WIDTH, DOUBLE_SIZE, DOUBLE_SIZE2: the right half lies in the next column
Covered(z) == z \in {4, 5}            \* OVER_TOP, OVER_BOTTOM: painted by the left neighbour
Supported(fmt) == fmt \in {"RGBA32_LE", "PAL8"}

Sz(p, r, c) == p.sz[(r - 1) * p.cols + c]
Cells(p) == (1..p.rows) \X (1..p.cols)
U == [src |-> <<0, 0>>, half |-> "untouched"]
Shown(p, r, c) == IF Covered(Sz(p, r, c)) THEN [src |-> <<r, c - 1>>, half |-> "right"]
                  ELSE [src |-> <<r, c>>, half |-> IF Wide(Sz(p, r, c)) THEN "left" ELSE "whole"]

\* pages as the formatter produces them (format.h)
WellFormed(p) ==
  \A rc \in Cells(p) : LET r == rc[1]  c == rc[2]  z == Sz(p, r, c) IN
    /\ Wide(z) => c < p.cols /\ Sz(p, r, c + 1) = (IF z = 7 THEN 5 ELSE 4)
    /\ Covered(z) => c > 1 /\ Wide(Sz(p, r, c - 1))
    /\ z = 2 => r < p.rows /\ Sz(p, r + 1, c) = 6
    /\ z = 3 => r < p.rows /\ Sz(p, r + 1, c) = 7
    /\ z = 6 => r > 1 /\ Sz(p, r - 1, c) = 2
    /\ z = 7 => r > 1 /\ Sz(p, r - 1, c) = 3

\* regions: rg = [col, row, w, h], first column / row = 1
RegionOK(p, rg) == rg.col >= 1 /\ rg.row >= 1 /\ rg.w >= 1 /\ rg.h >= 1 /\ rg.col + rg.w - 1 <= p.cols /\ rg.row + rg.h - 1 <= p.rows
InRegion(rg, r, c) == r >= rg.row /\ r < rg.row + rg.h /\ c >= rg.col /\ c < rg.col + rg.w
\* the cells of the double width / double size character anchored at (r, c)
CharCells(p, r, c) == IF Sz(p, r, c) = 1 THEN {<<r, c>>, <<r, c + 1>>}
                      ELSE IF Sz(p, r, c) = 3 THEN {<<r, c>>, <<r, c + 1>>, <<r + 1, c>>, <<r + 1, c + 1>>} ELSE {}
\* "cutting through a double-width or double-size character" (only anchors in or next to the region can be cut)
Cuts(p, rg) == \E r \in (IF rg.row > 1 THEN rg.row - 1 ELSE 1)..(rg.row + rg.h - 1) :
                 \E c \in (IF rg.col > 1 THEN rg.col - 1 ELSE 1)..(rg.col + rg.w - 1) :
                   /\ r <= p.rows /\ c <= p.cols /\ Sz(p, r, c) \in {1, 3}
                   /\ LET cs == CharCells(p, r, c) IN
                      (\E x \in cs : InRegion(rg, x[1], x[2])) /\ (\E x \in cs : ~InRegion(rg, x[1], x[2]))
CutsAll(p, rg) == \E rc \in Cells(p) : LET cs == CharCells(p, rc[1], rc[2]) IN
                    (\E x \in cs : InRegion(rg, x[1], x[2])) /\ (\E x \in cs : ~InRegion(rg, x[1], x[2]))

\* ---- specification of a draw
Post(p, rg, fmt, cv) == IF ~Supported(fmt) THEN cv
                        ELSE [rc \in DOMAIN cv |-> IF InRegion(rg, rc[1], rc[2]) THEN Shown(p, rc[1], rc[2]) ELSE cv[rc]]

\* what an observer who compares a cell of a fresh canvas after the draw with the guard pattern and with the full-page rendering
\* sees: "U" untouched, "G" the full-page rendering's cell, "X" anything else; PostMark is the same in closed form (MarksOK)
Mark(p, cv, r, c) == IF cv[<<r, c>>] = U THEN "U" ELSE IF cv[<<r, c>>] = Shown(p, r, c) THEN "G" ELSE "X"
PostMark(p, rg, fmt, r, c) == IF Supported(fmt) /\ InRegion(rg, r, c) THEN "G" ELSE "U"

\* ---- the drawing procedure: cells of the region in reading order
RegionSeq(rg) == [i \in 1..(rg.w * rg.h) |-> <<rg.row + ((i - 1) \div rg.w), rg.col + ((i - 1) % rg.w)>>]
PaintCell(p, rg, cv, r, c, clip) ==
  LET z == Sz(p, r, c) IN
  IF Covered(z) THEN cv
  ELSE LET own == [cv EXCEPT ![<<r, c>>] = Shown(p, r, c)] IN
       IF Wide(z) /\ <<r, c + 1>> \in DOMAIN cv /\ (clip => InRegion(rg, r, c + 1))
       THEN [own EXCEPT ![<<r, c + 1>>] = [src |-> <<r, c>>, half |-> "right"]]
       ELSE own
RECURSIVE PaintFrom(_, _, _, _, _)
PaintFrom(p, rg, cv, i, clip) ==
  IF i > rg.w * rg.h THEN cv
  ELSE LET rc == RegionSeq(rg)[i] IN PaintFrom(p, rg, PaintCell(p, rg, cv, rc[1], rc[2], clip), i + 1, clip)
Paint(p, rg, fmt, cv, clip) == IF Supported(fmt) THEN PaintFrom(p, rg, cv, 1, clip) ELSE cv

-----------------------------------------------------------------------------
CONSTANTS PageM,        \* the page of the model
          Formats, Strides, MaxDraws,
          Clip          \* TRUE: the drawing procedure stays inside the region.  FALSE: it paints right halves regardless
VARIABLES canvas, ndraw, last
vars == <<canvas, ndraw, last>>

Fresh(p) == [rc \in Cells(p) |-> U]
AllRegions(p) == {rg \in [col : 1..p.cols, row : 1..p.rows, w : 1..p.cols, h : 1..p.rows] : RegionOK(p, rg)}
Init == canvas = Fresh(PageM) /\ ndraw = 0 /\ last = [rg |-> [col |-> 1, row |-> 1, w |-> 1, h |-> 1], fmt |-> "none", stride |-> "none"]
\* partial updates of one image: the canvas pointer is the region's place in the image, any stride
Draw(rg, fmt, stride) == /\ ndraw < MaxDraws
                         /\ canvas' = Paint(PageM, rg, fmt, canvas, Clip)
                         /\ ndraw' = ndraw + 1 /\ last' = [rg |-> rg, fmt |-> fmt, stride |-> stride]
Next == \E rg \in AllRegions(PageM) : \E fmt \in Formats : \E st \in Strides : Draw(rg, fmt, st)
Spec == Init /\ [][Next]_vars

ASSUME PageOK == WellFormed(PageM)
\* never writes outside the region's rectangle - for any region, stride and format
Frame == [][\A rc \in Cells(PageM) : ~InRegion(last'.rg, rc[1], rc[2]) => canvas'[rc] = canvas[rc]]_vars
\* unsupported formats draw nothing
NothingIfUnsupported == [][~Supported(last'.fmt) => canvas' = canvas]_vars
\* regions that do not cut a wide character: exactly the specified cells
ImplementsPost == [][~Cuts(PageM, last'.rg) => canvas' = Post(PageM, last'.rg, last'.fmt, canvas)]_vars
\* whatever has been drawn shows what the full-page rendering shows there
Faithful == \A rc \in Cells(PageM) : canvas[rc] = U \/ canvas[rc] = Shown(PageM, rc[1], rc[2])
\* the whole page drawn in one call is the full-page rendering, and so is any way of drawing it in pieces that
\* cover it without cutting (e.g. row by row, as the image export modules do)
Whole(p) == [col |-> 1, row |-> 1, w |-> p.cols, h |-> p.rows]
ASSUME FullPageIsShown == Post(PageM, Whole(PageM), "PAL8", Fresh(PageM)) = [rc \in Cells(PageM) |-> Shown(PageM, rc[1], rc[2])]
                   /\ Paint(PageM, Whole(PageM), "PAL8", Fresh(PageM), Clip) = [rc \in Cells(PageM) |-> Shown(PageM, rc[1], rc[2])]
ASSUME MarksOK == \A rg \in AllRegions(PageM) : \A fmt \in Formats : \A rc \in Cells(PageM) :
                    /\ Mark(PageM, Post(PageM, rg, fmt, Fresh(PageM)), rc[1], rc[2]) = PostMark(PageM, rg, fmt, rc[1], rc[2])
                    /\ Cuts(PageM, rg) = CutsAll(PageM, rg)
ASSUME RowByRow == LET RowRg(r) == [col |-> 1, row |-> r, w |-> PageM.cols, h |-> 1]
                F[r \in 0..PageM.rows] == IF r = 0 THEN Fresh(PageM) ELSE Paint(PageM, RowRg(r), "RGBA32_LE", F[r - 1], Clip)
            IN F[PageM.rows] = [rc \in Cells(PageM) |-> Shown(PageM, rc[1], rc[2])]
=============================================================================
