----------------------------- MODULE CanvasCells -----------------------------
(* Rendering clause of property C16 at the granularity of character cells.

   From the documentation: exp-gfx.h / exp-gfx.c (vbi_draw_vt_page_region, vbi_draw_cc_page_region: "Draw a
   subsection of a ... vbi_page", one character occupies 12 x 10 (16 x 26) pixels, canvas of rowstride * height
   * 10 (26) bytes, rowstride = byte distance from line to line, formats RGBA32_LE and PAL8 only) and format.h
   (vbi_size: "Double width or height characters expand into the next column right and/or next row below";
   scanning two rows one finds  DOUBLE_WIDTH OVER_TOP | DOUBLE_HEIGHT / DOUBLE_HEIGHT2 | DOUBLE_SIZE OVER_TOP /
   DOUBLE_SIZE2 OVER_BOTTOM; every cell carries the code of its anchor).

   A page is [rows, cols, sz] (sz row-major, vbi_size values).  Any arrangement of sizes is a page: the
   formatter clips a character at the page's edge (a double width / size character in the LAST column has no
   OVER_TOP cell, its right half lies outside the page; a double height / size character in the LAST row has no
   lower half), enhancement data and the artificial 41st column leave continuation cells without an anchor, and
   vbi_page is a public structure.  WellFormed describes the arrangement of format.h where everything fits.

   What the full-page rendering shows in a cell is Shown: the glyph of the cell itself (its own vertical half
   when it is part of a double height / size character), the left half when the cell is wide, the right half of
   its left neighbour when it is an OVER_TOP / OVER_BOTTOM cell next to a wide cell, a blank when such a cell
   has no wide left neighbour.  Pixels inside a cell are not modelled: the oracle for a cell is the library's
   full-page rendering, as the statement defines it.

   The canvas of the model is the image of the page plus one MARGIN column right of the page's last column: it
   stands for whatever lies there in memory (the padding of a pixel line, the beginning of the next pixel line,
   the bytes behind the canvas).  No region contains a margin cell.

   Post is the specification of a region draw: exactly the cells of the region become Shown, every other cell
   (and every byte that is not part of a cell of the region: line padding, memory before and after the canvas,
   the margin) stays untouched - for every region, stride and format; an unsupported format draws nothing.
   Paint is the drawing procedure the documentation of the character drawing routine describes (a cell paints
   itself, a wide cell also its right half, OVER_ cells with a wide left neighbour paint nothing), with the
   right half clipped according to Clip:
     "region"  the right half is drawn iff its cell belongs to the region                    (the design)
     "inside"  clipping only when the region's right edge lies inside the page: a region ending at the page's
               right edge draws a wide cell of the last column at full width                 (broken design)
     "none"    the right half is always drawn                                                (broken design)
   TLC checks that Paint under "region" implements Post and the frame condition, and that the two broken designs
   violate the frame condition (companion configurations).                                                *)
EXTENDS Naturals, Sequences, FiniteSets, TLC

Wide(z) == z \in {1, 3, 7}            \* DOUBLE_WIDTH, DOUBLE_SIZE, DOUBLE_SIZE2: the right half lies in the next column
Covered(z) == z \in {4, 5}            \* OVER_TOP, OVER_BOTTOM: painted by a wide left neighbour
Supported(fmt) == fmt \in {"RGBA32_LE", "PAL8"}

IsPage(p) == p.rows >= 1 /\ p.cols >= 1 /\ DOMAIN p.sz = 1..(p.rows * p.cols) /\ \A i \in DOMAIN p.sz : p.sz[i] \in 0..7
Sz(p, r, c) == p.sz[(r - 1) * p.cols + c]
Cells(p) == (1..p.rows) \X (1..p.cols)
Area(p) == (1..p.rows) \X (1..(p.cols + 1))          \* the page image and the margin column
Margin(p) == {<<r, p.cols + 1>> : r \in 1..p.rows}
OnPage(p, r, c) == r \in 1..p.rows /\ c \in 1..p.cols
U == [src |-> <<0, 0>>, half |-> "untouched"]
LeftWide(p, r, c) == c > 1 /\ Wide(Sz(p, r, c - 1))
Shown(p, r, c) == IF Covered(Sz(p, r, c))
                  THEN (IF LeftWide(p, r, c) THEN [src |-> <<r, c - 1>>, half |-> "right"] ELSE [src |-> <<r, c>>, half |-> "blank"])
                  ELSE [src |-> <<r, c>>, half |-> IF Wide(Sz(p, r, c)) THEN "left" ELSE "whole"]

\* pages where every character fits (format.h)
WellFormed(p) ==
  \A rc \in Cells(p) : LET r == rc[1]  c == rc[2]  z == Sz(p, r, c) IN
    /\ Wide(z) => c < p.cols /\ Sz(p, r, c + 1) = (IF z = 7 THEN 5 ELSE 4)
    /\ Covered(z) => c > 1 /\ Wide(Sz(p, r, c - 1))
    /\ z = 2 => r < p.rows /\ Sz(p, r + 1, c) = 6
    /\ z = 3 => r < p.rows /\ Sz(p, r + 1, c) = 7
    /\ z = 6 => r > 1 /\ Sz(p, r - 1, c) = 2
    /\ z = 7 => r > 1 /\ Sz(p, r - 1, c) = 3

\* regions: rg = [col, row, w, h], first column / row = 1
RegionOK(p, rg) == rg.col >= 1 /\ rg.row >= 1 /\ rg.w >= 1 /\ rg.h >= 1 /\ rg.col + rg.w - 1 <= p.cols /\ rg.row + rg.h - 1 <= p.rows
InRegion(rg, r, c) == r >= rg.row /\ r < rg.row + rg.h /\ c >= rg.col /\ c < rg.col + rg.w
EndsAtPageEdge(p, rg) == rg.col + rg.w - 1 = p.cols
\* the cells ON THE PAGE of the double width / double size character whose (upper) left part is the cell (r, c); the lower left
\* part of a double size character counts as a character of its own (it is one when the upper part is missing).  A character
\* clipped by the page's edge consists of what is left of it.
CharCells(p, r, c) == LET z == Sz(p, r, c)
                          all == IF z \in {1, 7} THEN {<<r, c>>, <<r, c + 1>>}
                                 ELSE IF z = 3 THEN {<<r, c>>, <<r, c + 1>>, <<r + 1, c>>, <<r + 1, c + 1>>} ELSE {}
                      IN {x \in all : OnPage(p, x[1], x[2])}
\* "cutting through a double-width or double-size character" (only characters beginning in or next to the region can be cut)
Cuts(p, rg) == \E r \in (IF rg.row > 1 THEN rg.row - 1 ELSE 1)..(rg.row + rg.h - 1) :
                 \E c \in (IF rg.col > 1 THEN rg.col - 1 ELSE 1)..(rg.col + rg.w - 1) :
                   /\ r <= p.rows /\ c <= p.cols /\ Wide(Sz(p, r, c))
                   /\ LET cs == CharCells(p, r, c) IN
                      (\E x \in cs : InRegion(rg, x[1], x[2])) /\ (\E x \in cs : ~InRegion(rg, x[1], x[2]))
\* the same, looking only at the characters that begin in the rows and columns along the region's border (a wide character
\* reaches one column to the right and one row down)
CutsBorder(p, rg) ==
  LET rows == (IF rg.row > 1 THEN rg.row - 1 ELSE 1)..(rg.row + rg.h - 1)
      cols == (IF rg.col > 1 THEN rg.col - 1 ELSE 1)..(rg.col + rg.w - 1)
      cut(r, c) == /\ r >= 1 /\ c >= 1 /\ r <= p.rows /\ c <= p.cols /\ Wide(Sz(p, r, c))
                   /\ LET cs == CharCells(p, r, c) IN
                      (\E x \in cs : InRegion(rg, x[1], x[2])) /\ (\E x \in cs : ~InRegion(rg, x[1], x[2]))
  IN \/ \E r \in rows : cut(r, rg.col - 1) \/ cut(r, rg.col + rg.w - 1)
     \/ \E c \in cols : cut(rg.row - 1, c) \/ cut(rg.row + rg.h - 1, c)
CutsAll(p, rg) == \E rc \in Cells(p) : LET cs == CharCells(p, rc[1], rc[2]) IN
                    (\E x \in cs : InRegion(rg, x[1], x[2])) /\ (\E x \in cs : ~InRegion(rg, x[1], x[2]))

\* ---- specification of a draw
Post(p, rg, fmt, cv) == IF ~Supported(fmt) THEN cv
                        ELSE [rc \in DOMAIN cv |-> IF InRegion(rg, rc[1], rc[2]) THEN Shown(p, rc[1], rc[2]) ELSE cv[rc]]

\* what an observer who compares a cell of a fresh canvas after the draw with the guard pattern and with the full-page rendering
\* sees: "U" untouched, "G" the full-page rendering's cell, "X" anything else; PostMark is the same in closed form (MarksOK)
Mark(p, cv, r, c) == IF cv[<<r, c>>] = U THEN "U" ELSE IF cv[<<r, c>>] = Shown(p, r, c) THEN "G" ELSE "X"
PostMark(p, rg, fmt, r, c) == IF Supported(fmt) /\ InRegion(rg, r, c) THEN "G" ELSE "U"

\* ---- the drawing procedure: cells of the region in reading order
RegionSeq(rg) == [i \in 1..(rg.w * rg.h) |-> <<rg.row + ((i - 1) \div rg.w), rg.col + ((i - 1) % rg.w)>>]
RightHalfDrawn(p, rg, r, c, clip) ==
  CASE clip = "region" -> InRegion(rg, r, c + 1)
    [] clip = "inside" -> InRegion(rg, r, c + 1) \/ EndsAtPageEdge(p, rg)
    [] clip = "none"   -> TRUE
PaintCell(p, rg, cv, r, c, clip) ==
  LET z == Sz(p, r, c) IN
  IF Covered(z) /\ LeftWide(p, r, c) THEN cv
  ELSE LET own == [cv EXCEPT ![<<r, c>>] = Shown(p, r, c)] IN
       IF Wide(z) /\ RightHalfDrawn(p, rg, r, c, clip)
       THEN [own EXCEPT ![<<r, c + 1>>] = [src |-> <<r, c>>, half |-> "right"]]         \* (r, c + 1) may be a margin cell
       ELSE own
RECURSIVE PaintFrom(_, _, _, _, _)
PaintFrom(p, rg, cv, i, clip) ==
  IF i > rg.w * rg.h THEN cv
  ELSE LET rc == RegionSeq(rg)[i] IN PaintFrom(p, rg, PaintCell(p, rg, cv, rc[1], rc[2], clip), i + 1, clip)
Paint(p, rg, fmt, cv, clip) == IF Supported(fmt) THEN PaintFrom(p, rg, cv, 1, clip) ELSE cv

-----------------------------------------------------------------------------
CONSTANTS Pages,        \* the pages of the model: the property speaks about every page
          Formats, Strides, MaxDraws,
          Clip          \* "region": the drawing procedure stays inside the region; "inside" / "none": see above
VARIABLES page, canvas, ndraw, last
vars == <<page, canvas, ndraw, last>>

Fresh(p) == [rc \in Area(p) |-> U]
AllRegions(p) == {rg \in [col : 1..p.cols, row : 1..p.rows, w : 1..p.cols, h : 1..p.rows] : RegionOK(p, rg)}
Init == /\ page \in Pages /\ canvas = Fresh(page) /\ ndraw = 0
        /\ last = [rg |-> [col |-> 1, row |-> 1, w |-> 1, h |-> 1], fmt |-> "none", stride |-> "none"]
\* partial updates of one image: the canvas pointer is the region's place in the image, any stride
Draw(rg, fmt, stride) == /\ ndraw < MaxDraws
                         /\ canvas' = Paint(page, rg, fmt, canvas, Clip)
                         /\ ndraw' = ndraw + 1 /\ last' = [rg |-> rg, fmt |-> fmt, stride |-> stride]
                         /\ UNCHANGED page
Next == \E rg \in AllRegions(page) : \E fmt \in Formats : \E st \in Strides : Draw(rg, fmt, st)
Spec == Init /\ [][Next]_vars

ASSUME PagesOK == \A p \in Pages : IsPage(p)
\* never writes outside the region's rectangle - for any region, stride and format (the margin is outside every region)
Frame == [][\A rc \in Area(page) : ~InRegion(last'.rg, rc[1], rc[2]) => canvas'[rc] = canvas[rc]]_vars
MarginUntouched == \A rc \in Margin(page) : canvas[rc] = U
\* unsupported formats draw nothing
NothingIfUnsupported == [][~Supported(last'.fmt) => canvas' = canvas]_vars
\* regions that do not cut a wide character: exactly the specified cells
ImplementsPost == [][~Cuts(page, last'.rg) => canvas' = Post(page, last'.rg, last'.fmt, canvas)]_vars
\* whatever has been drawn shows what the full-page rendering shows there
Faithful == \A rc \in Cells(page) : canvas[rc] = U \/ canvas[rc] = Shown(page, rc[1], rc[2])
\* the whole page drawn in one call is the full-page rendering, and so is any way of drawing it in pieces that
\* cover it without cutting (e.g. row by row, as the image export modules do)
Whole(p) == [col |-> 1, row |-> 1, w |-> p.cols, h |-> p.rows]
Rendering(p) == [rc \in Area(p) |-> IF rc \in Cells(p) THEN Shown(p, rc[1], rc[2]) ELSE U]
ASSUME FullPageIsShown == \A p \in Pages : /\ Post(p, Whole(p), "PAL8", Fresh(p)) = Rendering(p)
                                           /\ Clip = "region" => Paint(p, Whole(p), "PAL8", Fresh(p), Clip) = Rendering(p)
ASSUME MarksOK == \A p \in Pages : \A rg \in AllRegions(p) :
                    /\ \A fmt \in Formats : LET cv == Post(p, rg, fmt, Fresh(p)) IN
                         \A rc \in Cells(p) : Mark(p, cv, rc[1], rc[2]) = PostMark(p, rg, fmt, rc[1], rc[2])
                    /\ Cuts(p, rg) = CutsAll(p, rg) /\ Cuts(p, rg) = CutsBorder(p, rg)
ASSUME RowByRow == Clip = "region" => \A p \in Pages :
                     LET RowRg(r) == [col |-> 1, row |-> r, w |-> p.cols, h |-> 1]
                         F[r \in 0..p.rows] == IF r = 0 THEN Fresh(p) ELSE Paint(p, RowRg(r), "RGBA32_LE", F[r - 1], Clip)
                     IN F[p.rows] = Rendering(p)
=============================================================================
