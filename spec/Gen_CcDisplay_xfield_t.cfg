\* a text channel on field 1 interleaved with a pop-on caption on field 2 (T1, CC3): every code of one field between the codes of the other
CONSTANTS Chans = {5, 3} Rows = {12} Chars = {65} MaxPairs = 6
  Indents = {4} Depths = {2} Tabs = {1}
  Kinds = {"RTD", "RCL", "EOC", "PAC", "CR", "TEXT"}
  Beyond = {}
  Mix <- NoMix Bursts <- NoBurst
SPECIFICATION GSpec
VIEW gview2
ACTION_CONSTRAINT TDump
CHECK_DEADLOCK FALSE
