CONSTANTS Scanning = 625 Use <- UsePal Geoms <- GeomsPalQ AddSets <- AddPalQ RateCfgs <- Rate1 Apis = {"new"}
  Stricts = {0} Ways = 8 MaxJobs = 8 MaxCalls = 9 MaxDecodes = 9 MaxCarried = 2 MaxDepth = 5 ShortOut = FALSE Fixed = FALSE
SPECIFICATION Spec
VIEW core
CONSTRAINT DepthBound
INVARIANTS TypeOK NoRunOff
PROPERTIES ACompleteP
CHECK_DEADLOCK FALSE
