CONSTANTS HdlVal = 36 MinPL = 178 TtxN = 42 VpsN = 13 TSP = 184 HL = 48 TSH = 10 MaxLines = 64 SegMax = 251
SPECIFICATION TSpec
POSTCONDITION TraceAccepted
CHECK_DEADLOCK FALSE
