CONSTANTS Carriers = {"vps", "p1", "p2"} Vals = {"a", "b"} Labels = {"p", "q"} Times = {"t"} Bads = {}
  WssWords = {} MaxRecv = 4 UnknownOnce = TRUE XdsGuard = TRUE Calls = {}
  Handlers = {"h1", "h2"} InitMasks = {{"NETWORK", "NETWORK_ID", "PROG_ID", "LOCAL_TIME", "ASPECT", "TTX_PAGE", "CAPTION"}, {"NETWORK", "TTX_PAGE"}, {"TTX_PAGE"}} RegMasks = {{"CAPTION"}, {"NETWORK_ID", "PROG_ID"}, {"PROG_ID", "LOCAL_TIME"}, {"NETWORK", "NETWORK_ID", "PROG_ID", "LOCAL_TIME", "ASPECT", "TTX_PAGE", "CAPTION"}} Apis = {"reg"} MaxReg = 2 CdLen = 40 IdleSteps = {} MaxGap = 0 MaxIdle = 0
SPECIFICATION Spec
CONSTRAINT Bounded
INVARIANTS TypeOK Faithful
PROPERTIES OfThisReception OnlyAfterRepeat VpsLabelTwice NetworkMeansChange OneNetworkEvent NotAgainWhileSame StationKept CacheKept CacheDropped Gated WssOnlyAfterRepeats AspectRevertOnlyOnChange GapKeeps DropOutOnce
CHECK_DEADLOCK FALSE
