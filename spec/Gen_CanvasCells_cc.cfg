CONSTANTS Geo <- GeoQ Kinds = {3} Variants <- VariantsAll NVar = 1
  Pages = {} Formats = {} Strides = {} MaxDraws = 0 Clip = "region"
SPECIFICATION GSpec
CONSTRAINT Dump
CHECK_DEADLOCK FALSE
