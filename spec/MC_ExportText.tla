---------------------------- MODULE MC_ExportText ----------------------------
EXTENDS ExportText
\* A, a-umlaut, contiguous mosaic, DRCS / + Cyrillic er, Arabic private, smooth mosaic
CodesQ == {65, 228, 60961}
CodesM == {65, 228, 60961, 61441}
CodesT == {65, 228, 1088, 58912, 60961, 61234, 61441}
Unr == {{}, {228, 1088, 58912, 60961, 61234, 61441}, {1088, 35}}
=============================================================================
