CONSTANTS Clients = {1, 2, 3} Services = {"a", "b"} Supported = {"a", "b"} Base = 1 S = 1 MaxFrames = 6 Threaded = FALSE
  LevelsUsed = {1} Discards = {FALSE} Faulty = {1}
  Prios = {2} FixTokenOwner = TRUE FixFlushClosed = TRUE FixRegrant = TRUE FixHdrLen = TRUE FixPartial = TRUE
  WSrv <- MCWSrv FullMatrix = FALSE
SPECIFICATION FSpec
INVARIANTS Coupled ReleasedAll
  QTypeOK QRefCount QCursorOK QQueueOrder QBuffers QDelivery QInOrder QDeviceOpen QCanCapture
  CTypeOK CNoCrash CSingleOwner CReleased CListOK CStillAccepts
PROPERTIES QFiltered QLossOnlyWhenFull QOnlyBlockedLose FaultIsolated WitnessLosesNothing
VIEW fview
CHECK_DEADLOCK FALSE
CONSTRAINT SetupFirst
