CONSTANTS Clients = {1, 2} Services = {"a", "b"} Supported = {"a", "b"} Base = 1 S = 2 MaxFrames = 4 Threaded = FALSE LevelsUsed = {1} Discards = {FALSE, TRUE} Faulty = {}
SPECIFICATION Spec
INVARIANTS TypeOK RefCount CursorOK QueueOrder Buffers Delivery InOrder DeviceOpen CanCapture
PROPERTIES Filtered LossOnlyWhenFull OnlyBlockedLose
CHECK_DEADLOCK FALSE
