----------------------------- MODULE TtxEvents -----------------------------
(* Event handler registration and delivery of the service decoder (src/vbi.c:
   vbi_event_handler_register/unregister, the deprecated vbi_event_handler_add/remove,
   vbi_send_event, vbi_event_enable).

   The handler list is a singly linked list of records; a delivery walks it with the cursor
   vbi->next_handler which the (un)registration functions repair when they free the record it
   points to.  One action per list operation / per loop iteration of vbi_send_event / per call
   made from inside a running callback, so TLC explores every point at which a callback can
   add, change or remove itself or any other handler.

   Handler records get increasing ids (allocation order = registration order = list order).
   Property C11: see Once, InOrder, OwnPointer, NoDangling, Acquire below.                *)
EXTENDS Naturals, Sequences, FiniteSets, TLC

CONSTANTS Fns, Uds,        \* handler functions and user pointers
          Types,           \* event types
          Masks,           \* event masks used in registrations (subsets of Types, {} = remove)
          MaxTop,          \* top-level calls (registrations and raises)
          MaxNested,       \* registration calls made from inside callbacks, per delivery
          FixUp,           \* TRUE: removal repairs the delivery cursor (as coded)
          MaxProbe,        \* page transmissions that run across registration calls (0: none)
          ResetOnActivate  \* TRUE (as coded): enabling Teletext acquisition discards the pages in progress

None == 0

VARIABLES hl,        \* list of live record ids, in list order
          rec,       \* id -> [fn, ud, mask]
          nextid,
          emask,     \* vbi->event_mask: services enabled
          dl,        \* delivery: [on, t, nxt, incb, snap, called, removed, nested]
          log,       \* callbacks of the current/last delivery: <<id, fn, ud>>
          ntop, freed, lastAct,
          tx,        \* a Teletext page in transmission across API calls: "none" | "open" (the decoder has its header) | "lost"
          txok,      \* ghost: Teletext was requested at the header and ever since
          nprobe
vars == <<hl, rec, nextid, emask, dl, log, ntop, freed, lastAct, tx, txok, nprobe>>

Idle == [on |-> FALSE, t |-> "none", nxt |-> None, incb |-> None, snap |-> {}, called |-> <<>>,
         removed |-> {}, nested |-> 0]

Init == /\ hl = <<>> /\ rec = <<>> /\ nextid = 1 /\ emask = {} /\ dl = Idle /\ log = <<>>
        /\ ntop = 0 /\ freed = {} /\ lastAct = [a |-> "init"]
        /\ tx = "none" /\ txok = FALSE /\ nprobe = 0

Range(s) == {s[i] : i \in 1..Len(s)}
Pos(id) == CHOOSE i \in 1..Len(hl) : hl[i] = id
NextOf(id) == IF Pos(id) = Len(hl) THEN None ELSE hl[Pos(id) + 1]
UnionMask(R, H) == UNION {R[i].mask : i \in Range(H)}

-----------------------------------------------------------------------------
(* the list operation shared by register (match on fn and ud) and add (match on fn only);
   nest = 1 when called from inside a running callback *)
ListOp(match(_), fn, ud, mask, nest) ==
  LET hit == {i \in Range(hl) : match(rec[i])}
      B(d) == [d EXCEPT !.nested = @ + nest]
  IN IF hit # {}
     THEN IF mask = {}
          THEN \* unlink and free every matching record; repair the cursor if it pointed to one
               LET keep == SelectSeq(hl, LAMBDA i : i \notin hit)
                   RECURSIVE Skip(_)
                   Skip(i) == IF i = None THEN None ELSE IF i \in hit THEN Skip(NextOf(i)) ELSE i
               IN /\ hl' = keep
                  /\ rec' = [i \in Range(keep) |-> rec[i]]
                  /\ freed' = freed \cup hit
                  /\ dl' = IF dl.on
                           THEN B([dl EXCEPT !.nxt = IF FixUp THEN Skip(dl.nxt) ELSE dl.nxt,
                                             !.removed = @ \cup hit])
                           ELSE dl
                  /\ emask' = UnionMask(rec, keep)
                  /\ UNCHANGED nextid
          ELSE /\ rec' = [i \in DOMAIN rec |-> IF i \in hit THEN [rec[i] EXCEPT !.mask = mask] ELSE rec[i]]
               /\ emask' = UnionMask(rec', hl)
               \* a handler whose new mask no longer contains the event counts as removed for it
               /\ dl' = IF dl.on THEN B(IF dl.t \notin mask THEN [dl EXCEPT !.removed = @ \cup hit] ELSE dl) ELSE dl
               /\ UNCHANGED <<hl, nextid, freed>>
     ELSE IF mask = {} THEN /\ dl' = (IF dl.on THEN B(dl) ELSE dl) /\ UNCHANGED <<hl, rec, nextid, emask, freed>>
     ELSE /\ hl' = Append(hl, nextid)
          /\ rec' = [i \in DOMAIN rec \cup {nextid} |-> IF i = nextid THEN [fn |-> fn, ud |-> ud, mask |-> mask] ELSE rec[i]]
          /\ nextid' = nextid + 1
          /\ emask' = emask \cup mask
          /\ dl' = (IF dl.on THEN B(dl) ELSE dl)
          /\ UNCHANGED freed

RegisterOp(fn, ud, mask, nest) == ListOp(LAMBDA r : r.fn = fn /\ r.ud = ud, fn, ud, mask, nest)
AddOp(fn, ud, mask, nest)      == ListOp(LAMBDA r : r.fn = fn, fn, ud, mask, nest)

\* effect of a changed service mask on the page in transmission (vbi_event_enable): newly requested Teletext resets the
\* Teletext decoder (vbi_teletext_channel_switched), the page in progress is discarded; while Teletext is not requested
\* its packets are dropped
TxEffect == /\ tx' = IF ResetOnActivate /\ "ttx" \notin emask /\ "ttx" \in emask' /\ tx = "open" THEN "lost" ELSE tx
            /\ txok' = (txok /\ "ttx" \in emask') /\ UNCHANGED nprobe
TxSame == UNCHANGED <<tx, txok, nprobe>>

\* top level
Register(fn, ud, mask) == /\ ~dl.on /\ ntop < MaxTop /\ RegisterOp(fn, ud, mask, 0) /\ TxEffect
                          /\ ntop' = ntop + 1 /\ UNCHANGED log
                          /\ lastAct' = [a |-> "Register", fn |-> fn, ud |-> ud, mask |-> mask, in |-> FALSE]
Add(fn, ud, mask)      == /\ ~dl.on /\ ntop < MaxTop /\ AddOp(fn, ud, mask, 0) /\ TxEffect
                          /\ ntop' = ntop + 1 /\ UNCHANGED log
                          /\ lastAct' = [a |-> "Add", fn |-> fn, ud |-> ud, mask |-> mask, in |-> FALSE]
\* from inside the running callback
NRegister(fn, ud, mask) == /\ dl.on /\ dl.incb # None /\ dl.nested < MaxNested /\ RegisterOp(fn, ud, mask, 1) /\ TxEffect
                           /\ UNCHANGED <<ntop, log>>
                           /\ lastAct' = [a |-> "Register", fn |-> fn, ud |-> ud, mask |-> mask, in |-> TRUE]
NAdd(fn, ud, mask)      == /\ dl.on /\ dl.incb # None /\ dl.nested < MaxNested /\ AddOp(fn, ud, mask, 1) /\ TxEffect
                           /\ UNCHANGED <<ntop, log>>
                           /\ lastAct' = [a |-> "Add", fn |-> fn, ud |-> ud, mask |-> mask, in |-> TRUE]

-----------------------------------------------------------------------------
(* vbi_send_event *)
Raise(t) ==
  /\ ~dl.on /\ ntop < MaxTop
  /\ dl' = [on |-> TRUE, t |-> t, nxt |-> IF hl = <<>> THEN None ELSE hl[1], incb |-> None,
            snap |-> {i \in Range(hl) : t \in rec[i].mask}, called |-> <<>>, removed |-> {}, nested |-> 0]
  /\ log' = <<>> /\ ntop' = ntop + 1
  /\ UNCHANGED <<hl, rec, nextid, emask, freed>> /\ TxSame
  /\ lastAct' = [a |-> "Raise", t |-> t]

\* one loop iteration: eh = cursor; cursor = eh->next; call if the mask matches
Step ==
  /\ dl.on /\ dl.incb = None /\ dl.nxt # None
  /\ dl.nxt \in Range(hl)                      \* otherwise the code touches a freed record (NoDangling)
  /\ LET eh == dl.nxt
         hit == dl.t \in rec[eh].mask
     IN /\ dl' = [dl EXCEPT !.nxt = NextOf(eh), !.incb = IF hit THEN eh ELSE None,
                            !.called = IF hit THEN Append(@, eh) ELSE @]
        /\ log' = IF hit THEN Append(log, <<rec[eh].fn, rec[eh].ud>>) ELSE log
        /\ lastAct' = IF hit THEN [a |-> "Call", fn |-> rec[eh].fn, ud |-> rec[eh].ud] ELSE [a |-> "Skip"]
  /\ UNCHANGED <<hl, rec, nextid, emask, ntop, freed>> /\ TxSame

Return ==
  /\ dl.on /\ dl.incb # None
  /\ dl' = [dl EXCEPT !.incb = None]
  /\ UNCHANGED <<hl, rec, nextid, emask, log, ntop, freed>> /\ TxSame
  /\ lastAct' = [a |-> "Return"]

EndDelivery ==
  /\ dl.on /\ dl.incb = None /\ dl.nxt = None
  /\ dl' = [dl EXCEPT !.on = FALSE]
  /\ UNCHANGED <<hl, rec, nextid, emask, log, ntop, freed>> /\ TxSame
  /\ lastAct' = [a |-> "End"]

-----------------------------------------------------------------------------
(* a Teletext page whose transmission runs across API calls: header and first rows, ... , last rows and the terminating
   header.  It is stored and announced (one TTX_PAGE delivery to the handlers requesting it, no nested calls) iff the
   decoder got its header and still has it, and Teletext is requested when it ends. *)
TxHeader ==
  /\ ~dl.on /\ tx = "none" /\ nprobe < MaxProbe
  /\ tx' = (IF "ttx" \in emask THEN "open" ELSE "lost") /\ txok' = ("ttx" \in emask) /\ nprobe' = nprobe + 1
  /\ UNCHANGED <<hl, rec, nextid, emask, dl, log, ntop, freed>>
  /\ lastAct' = [a |-> "TxHeader"]
TxEnd ==
  /\ ~dl.on /\ tx # "none"
  /\ LET stored == tx = "open" /\ "ttx" \in emask
         ids == SelectSeq(hl, LAMBDA i : "ttx" \in rec[i].mask)
     IN /\ log' = IF stored THEN [k \in 1..Len(ids) |-> <<rec[ids[k]].fn, rec[ids[k]].ud>>] ELSE <<>>
        /\ lastAct' = [a |-> "TxEnd", stored |-> stored]
  /\ tx' = "none" /\ txok' = FALSE
  /\ UNCHANGED <<hl, rec, nextid, emask, dl, ntop, freed, nprobe>>

Next ==
  \/ \E f \in Fns, u \in Uds, m \in Masks : Register(f, u, m) \/ Add(f, u, m) \/ NRegister(f, u, m) \/ NAdd(f, u, m)
  \/ \E t \in Types : Raise(t)
  \/ Step \/ Return \/ EndDelivery
  \/ TxHeader \/ TxEnd

Spec == Init /\ [][Next]_vars
FairSpec == Spec /\ WF_vars(Step \/ Return \/ EndDelivery)

-----------------------------------------------------------------------------
(* C11 *)
\* the cursor never points to a freed record
NoDangling == dl.on => (dl.nxt = None \/ dl.nxt \in Range(hl))
\* no handler is called twice for one event, and calls follow registration (= list = id) order
Increasing(s) == \A i, j \in 1..Len(s) : i < j => s[i] < s[j]
OnceInOrder == Increasing(dl.called)
\* when the delivery ends, every handler registered for the type at the raise and not removed
\* (or unmasked) during the delivery has been called
AllCalled == (~dl.on /\ dl.t # "none") => \A i \in dl.snap \ dl.removed : \E k \in 1..Len(dl.called) : dl.called[k] = i
\* a handler that was not registered for the type and was not added during this delivery is never called
OnlyRegistered == \A k \in 1..Len(dl.called) : dl.called[k] \in dl.snap \/ dl.called[k] \in Range(hl) \/ dl.called[k] \in freed
\* services enabled = union of the masks of the registered handlers (Teletext acquired iff "ttx" in emask)
Acquire == emask = UnionMask(rec, hl)
\* ... exactly while requested: a page is stored iff Teletext was requested from its header to its end without a gap
AcquireExact == [][lastAct'.a = "TxEnd" => (lastAct'.stored <=> txok)]_vars
ListOK == /\ Range(hl) = DOMAIN rec /\ Increasing(hl) /\ freed \cap Range(hl) = {}
          /\ \A i, j \in Range(hl) : (rec[i].fn = rec[j].fn /\ rec[i].ud = rec[j].ud) => i = j
          /\ \A i \in Range(hl) : rec[i].mask # {}
Terminates == dl.on ~> ~dl.on
=============================================================================
