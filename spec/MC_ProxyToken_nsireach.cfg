CONSTANTS Clients = {1, 2, 3} Prios = {1, 2} FixTokenOwner = TRUE FixFlushClosed = TRUE FixRegrant = TRUE
SPECIFICATION Spec
INVARIANTS NeverMixedReclaim
CHECK_DEADLOCK FALSE
