\* background / foreground attribute codes after a space (the codes backspace over it), characters, mid-row codes and PACs after them
CONSTANTS Chans = {3} Rows = {13} Chars = {65, 32} MaxPairs = 6
  Indents = {0} Depths = {2} Tabs = {1}
  Kinds = {"RDC", "PAC", "BAO", "BT", "FA", "TEXT"}
  Beyond = {}
  Mix <- NoMix Bursts <- NoBurst
SPECIFICATION GSpec
VIEW gview2
CONSTRAINT Started
ACTION_CONSTRAINT TDump
CHECK_DEADLOCK FALSE
