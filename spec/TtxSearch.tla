--------------------------- MODULE TtxSearch ---------------------------
(* vbi_search_new / vbi_search_next (src/search.c) on top of the page walk
   _vbi_cache_foreach_page (src/cache.c), one loop iteration per action.

   Page slots 1..NP stand for increasing page numbers in 0x100..0x8FF (the driver
   maps them to real numbers, decimal and hex); subpage numbers 0..MaxSub, a slot
   holds either the single "subno 0" page or a subset of subpages 1..MaxSub.
   pop[k] = -1: key not cached; otherwise the number of (non-overlapping)
   occurrences of the pattern in rows 1-23 of the cached page.

   Property C17: Termination (every call returns) and Exact (the sequence of
   results of repeated calls is the reference sequence RefPass, then NOT_FOUND). *)
EXTENDS Naturals, Integers, Sequences, FiniteSets, TLC

CONSTANTS NP, MaxSub, MaxOcc, MaxCalls,
          AllowTurn,        \* direction changes between calls
          AllowUpdate,      \* cache updates between calls
          SecondWrapStops,  \* TRUE: the walk ends at its second wrap-around (repaired code)
          ClampSub          \* TRUE: a start position outside a page's subpage range is clamped
                            \*       into it instead of skipping the page (repaired code)

Pages == 1..NP
TOP   == MaxSub + 3          \* stands for 0x3F7E; TOP-1 is still above every cached subno
ANY   == MaxSub + 4          \* VBI_ANY_SUBNO
Key   == Pages \X (0..MaxSub)

VARIABLES pop,               \* cached pages
          start, stop0, stop1, dir, f, b,     \* search context (f/b: occurrence cursors in the start page)
          arg,               \* arguments of vbi_search_new: <<page, subno>>
          pc, wp, ws, wrapped, wraps, held, wdir,   \* running call: walk state
          ncalls, last,      \* number of completed calls, last result
          pass, found, clean \* ghost: start of the running pass, results in it, no update in it

ctxv == <<start, stop0, stop1, dir, f, b>>
walk == <<pc, wp, ws, wrapped, wraps, held, wdir>>
vars == <<pop, ctxv, arg, walk, ncalls, last, pass, found, clean>>

Cached(k)  == pop[k] >= 0
SubsOf(p)  == {s \in 0..MaxSub : Cached(<<p, s>>)}
NSub(p)    == Cardinality(SubsOf(p))
Min(S)     == CHOOSE x \in S : \A y \in S : x <= y
Max(S)     == CHOOSE x \in S : \A y \in S : x >= y
AnyCached  == \E k \in Key : Cached(k)

\* lexicographic order on positions <<page, sub>>
Lt(a, c) == a[1] < c[1] \/ (a[1] = c[1] /\ a[2] < c[2])
Le(a, c) == a = c \/ Lt(a, c)

\* a slot is well formed: subno 0 alone, or a subset of 1..MaxSub
PageCfg == {c \in [0..MaxSub -> -1..MaxOcc] : c[0] >= 0 => \A s \in 1..MaxSub : c[s] < 0}
WellFormed(q) == \A p \in Pages : q[<<p, 0>>] >= 0 => \A s \in 1..MaxSub : q[<<p, s>>] < 0

Init ==
  /\ \E cfg \in [Pages -> PageCfg] : pop = [k \in Key |-> cfg[k[1]][k[2]]]
  /\ arg \in Pages \X ((0..MaxSub) \cup {ANY})
  /\ stop0 = <<arg[1], IF arg[2] = ANY THEN 0 ELSE arg[2]>>
  /\ stop1 = IF arg[2] = 0
             THEN <<IF arg[1] = 1 THEN NP ELSE arg[1] - 1, TOP>>   \* (pgno - 1, 0x3F7E)
             ELSE IF arg[2] = ANY THEN <<arg[1], TOP>> ELSE <<arg[1], arg[2] - 1>>
  /\ start = stop0 /\ dir = 0 /\ f = 0 /\ b = MaxOcc + 1
  /\ pc = "idle" /\ wp = 1 /\ ws = 0 /\ wrapped = FALSE /\ wraps = 0 /\ held = FALSE /\ wdir = 1
  /\ ncalls = 0 /\ last = [r |-> "none"]
  /\ pass = [from |-> <<0, 0>>, d |-> 0, turn |-> FALSE, occ |-> 0] /\ found = <<>> /\ clean = TRUE

-----------------------------------------------------------------------------
(* vbi_search_next(), first part: direction handling, then the entry of
   _vbi_cache_foreach_page *)
Next1(d) ==
  /\ pc = "idle" /\ ncalls < MaxCalls
  /\ (dir # 0 /\ d # dir) => AllowTurn
  /\ LET fresh == dir = 0
         turn  == dir # 0 /\ d # dir
         st    == IF fresh THEN (IF d > 0 THEN stop0 ELSE stop1) ELSE start
     IN /\ start' = st
        /\ dir' = d
        /\ f' = IF fresh THEN 0 ELSE f
        /\ b' = IF fresh THEN MaxOcc + 1 ELSE b
        /\ stop0' = IF turn THEN start ELSE stop0
        /\ stop1' = IF turn THEN start ELSE stop1
        /\ pass' = IF fresh THEN [from |-> st, d |-> d, turn |-> FALSE, occ |-> 0]
                   ELSE IF turn THEN [from |-> start, d |-> d, turn |-> TRUE,
                                      occ |-> IF d > 0 THEN f ELSE b]
                   ELSE pass
        /\ found' = IF fresh \/ turn THEN <<>> ELSE found
        /\ clean' = IF fresh \/ turn THEN TRUE ELSE clean
        /\ wdir' = d /\ wrapped' = FALSE /\ wraps' = 0
        /\ IF ~AnyCached
           THEN /\ pc' = "idle" /\ last' = [r |-> "empty"] /\ ncalls' = ncalls + 1
                /\ UNCHANGED <<wp, ws, held>>
           ELSE /\ wp' = st[1] /\ ws' = st[2]
                /\ held' = (st[2] <= MaxSub /\ Cached(st))
                /\ pc' = IF held' THEN "cb" ELSE "step"
                /\ UNCHANGED <<ncalls, last>>
  /\ UNCHANGED <<pop, arg>>

\* result of search_page_fwd / search_page_rev on the held page
this == <<wp, ws>>
CbResult ==
  IF wdir > 0
  THEN IF (IF Le(stop0, start) THEN wrapped /\ Le(stop0, this)
                               ELSE Lt(this, start) \/ Le(stop0, this))
       THEN "abort"
       ELSE IF this = start THEN (IF f + 1 <= pop[this] THEN "hit" ELSE "miss")
                            ELSE (IF pop[this] >= 1 THEN "hit" ELSE "miss")
  ELSE IF (IF Le(start, stop1) THEN wrapped /\ Le(this, stop1)
                               ELSE Lt(start, this) \/ Le(this, stop1))
       THEN "abort"
       ELSE IF this = start THEN (IF (IF b > pop[this] THEN pop[this] ELSE b - 1) >= 1 THEN "hit" ELSE "miss")
                            ELSE (IF pop[this] >= 1 THEN "hit" ELSE "miss")

HitOcc == IF wdir > 0 THEN (IF this = start THEN f + 1 ELSE 1)
          ELSE (IF this = start /\ b <= pop[this] THEN b - 1 ELSE pop[this])

Callback ==
  /\ pc = "cb"
  /\ held' = FALSE
  /\ CASE CbResult = "abort" ->
            /\ pc' = "idle" /\ last' = [r |-> "notfound"] /\ ncalls' = ncalls + 1
            /\ dir' = 0 /\ found' = Append(found, <<0, 0, 0>>)
            /\ UNCHANGED <<start, f, b>>
       [] CbResult = "hit" ->
            /\ pc' = "idle" /\ last' = [r |-> "success", pg |-> wp, sub |-> ws, occ |-> HitOcc]
            /\ ncalls' = ncalls + 1
            /\ start' = this /\ f' = HitOcc /\ b' = HitOcc
            /\ found' = Append(found, <<wp, ws, HitOcc>>)
            /\ UNCHANGED dir
       [] OTHER ->
            /\ pc' = "step" /\ UNCHANGED <<last, ncalls, start, f, b, dir, found>>
  /\ UNCHANGED <<pop, arg, stop0, stop1, wp, ws, wrapped, wraps, wdir, pass, clean>>

\* subno += dir
Step ==
  /\ pc = "step"
  /\ ws' = ws + wdir /\ pc' = "scan"
  /\ UNCHANGED <<pop, ctxv, arg, wp, wrapped, wraps, held, wdir, ncalls, last, pass, found, clean>>

OutOfRange == NSub(wp) = 0 \/ ws < Min(SubsOf(wp)) \/ ws > Max(SubsOf(wp))

\* one evaluation of the while condition of the walk, and one iteration of its body
Scan ==
  /\ pc = "scan"
  /\ IF OutOfRange
     THEN IF ClampSub /\ NSub(wp) > 0 /\ ((wdir < 0 /\ ws > Max(SubsOf(wp))) \/ (wdir > 0 /\ ws < Min(SubsOf(wp))))
          THEN /\ ws' = IF wdir < 0 THEN Max(SubsOf(wp)) ELSE Min(SubsOf(wp))
               /\ UNCHANGED <<wp, wrapped, wraps, pc, held, last, ncalls, dir, found>>
          ELSE LET wrap == IF wdir < 0 THEN wp = 1 ELSE wp = NP
                   np   == IF wdir < 0 THEN (IF wp = 1 THEN NP ELSE wp - 1)
                                       ELSE (IF wp = NP THEN 1 ELSE wp + 1)
               IN IF wrap /\ wrapped /\ SecondWrapStops
                  THEN \* every page has been visited: all done
                       /\ pc' = "idle" /\ last' = [r |-> "notfound"] /\ ncalls' = ncalls + 1
                       /\ dir' = 0 /\ found' = Append(found, <<0, 0, 0>>)
                       /\ UNCHANGED <<wp, ws, wrapped, wraps, held>>
                  ELSE /\ wp' = np
                       /\ wrapped' = (wrapped \/ wrap)
                       /\ wraps' = IF wrap /\ wraps < 3 THEN wraps + 1 ELSE wraps
                       /\ ws' = IF NSub(np) = 0 THEN 0
                                ELSE IF wdir < 0 THEN Max(SubsOf(np)) ELSE Min(SubsOf(np))
                       /\ UNCHANGED <<pc, held, last, ncalls, dir, found>>
     ELSE /\ held' = Cached(<<wp, ws>>)
          /\ pc' = IF held' THEN "cb" ELSE "step"
          /\ UNCHANGED <<wp, ws, wrapped, wraps, last, ncalls, dir, found>>
  /\ UNCHANGED <<pop, arg, start, stop0, stop1, f, b, wdir, pass, clean>>

\* the decoder stores a page between two calls (new page, or new content of a cached page)
Update(k, n) ==
  /\ AllowUpdate /\ pc = "idle" /\ ncalls > 0 /\ ncalls < MaxCalls /\ clean
  /\ pop[k] # n
  /\ pop' = [pop EXCEPT ![k] = n] /\ WellFormed(pop')
  /\ clean' = FALSE
  /\ UNCHANGED <<ctxv, arg, walk, ncalls, last, pass, found>>

Next == \/ \E d \in {-1, 1} : Next1(d)
        \/ Callback \/ Step \/ Scan
        \/ \E k \in Key, n \in 0..MaxOcc : Update(k, n)

Spec     == Init /\ [][Next]_vars
FairSpec == Spec /\ WF_vars(Callback \/ Step \/ Scan)

-----------------------------------------------------------------------------
(* The reference, written without the walk: the keys in circular order from a
   position, in a direction. *)
Keys == {k \in Key : Cached(k)}

RECURSIVE SortAsc(_)
SortAsc(S) == IF S = {} THEN <<>>
              ELSE LET m == CHOOSE x \in S : \A y \in S : Le(x, y) IN <<m>> \o SortAsc(S \ {m})
RECURSIVE Rev(_)
Rev(s) == IF s = <<>> THEN <<>> ELSE Rev(Tail(s)) \o <<Head(s)>>

\* forward from position a: keys >= a ascending, then keys < a ascending
CircFwd(a) == SortAsc({k \in Keys : Le(a, k)}) \o SortAsc({k \in Keys : Lt(k, a)})
\* backward from position a: keys <= a descending, then keys > a descending
CircRev(a) == Rev(SortAsc({k \in Keys : Le(k, a)})) \o Rev(SortAsc({k \in Keys : Lt(a, k)}))

RECURSIVE Expand(_, _)          \* every key once per occurrence, in reading order of direction d
Expand(ks, d) ==
  IF ks = <<>> THEN <<>>
  ELSE LET k == Head(ks)
           n == pop[k]
           occs == IF d > 0 THEN [i \in 1..n |-> <<k[1], k[2], i>>]
                            ELSE [i \in 1..n |-> <<k[1], k[2], n + 1 - i>>]
       IN occs \o Expand(Tail(ks), d)

DropKey(ks, k) == SelectSeq(ks, LAMBDA x : x # k)

RefPass ==
  IF ~pass.turn
  THEN Expand(IF pass.d > 0 THEN CircFwd(pass.from) ELSE CircRev(pass.from), pass.d)
  ELSE \* direction change at a found page: the rest of that page, then everything else
       LET k == pass.from
           rest == IF pass.d > 0
                   THEN [i \in 1..(pop[k] - pass.occ) |-> <<k[1], k[2], pass.occ + i>>]
                   ELSE [i \in 1..(pass.occ - 1) |-> <<k[1], k[2], pass.occ - i>>]
       IN rest \o Expand(DropKey(IF pass.d > 0 THEN CircFwd(k) ELSE CircRev(k), k), pass.d)

IsPrefix(s, t) == Len(s) <= Len(t) /\ SubSeq(t, 1, Len(s)) = s

\* Exact: at every return, the results of the pass so far are a prefix of the reference,
\* and NOT_FOUND is returned exactly when the reference is exhausted
Exact ==
  (pc = "idle" /\ clean /\ pass.d # 0 /\ last.r \in {"success", "notfound"}) =>
     LET ref == RefPass \o << <<0, 0, 0>> >> IN IsPrefix(found, ref)

\* Sound: a reported page is cached and contains the pattern
Sound == (pc = "idle" /\ last.r = "success") => pop[<<last.pg, last.sub>>] >= last.occ /\ last.occ >= 1

EmptyIffNoPages == (pc = "idle" /\ last.r = "empty") => ~AnyCached

TypeOK == /\ pc \in {"idle", "cb", "step", "scan"} /\ wp \in Pages /\ ws \in -1..(ANY + 1)
          /\ dir \in {-1, 0, 1} /\ f \in 0..(MaxOcc + 1) /\ b \in 0..(MaxOcc + 1)

\* safety form of termination: a call never wraps around more than twice
BoundedWalk == wraps <= 2

Termination == (pc # "idle") ~> (pc = "idle")
=============================================================================
