\* flash: Flash On, then mid-row codes, PACs and characters in every order (paint-on, field 2)
CONSTANTS Chans = {3} Rows = {13} Chars = {65} MaxPairs = 5
  Indents = {0} Depths = {2} Tabs = {1}
  Kinds = {"RDC", "PAC", "MID", "FON", "TEXT"}
  Beyond = {}
  Mix <- NoMix Bursts <- NoBurst
SPECIFICATION GSpec
VIEW gview2
CONSTRAINT Started
ACTION_CONSTRAINT TDump
CHECK_DEADLOCK FALSE
