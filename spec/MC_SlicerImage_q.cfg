CONSTANTS MaxCount = 2 MaxExtra = 1
SPECIFICATION Spec
INVARIANTS TypeOK RowInside OwnRow OutBound OneEach Result
CHECK_DEADLOCK FALSE
