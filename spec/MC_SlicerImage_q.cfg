CONSTANTS MaxCount = 2 MaxExtra = 1 Rule = "coded"
SPECIFICATION Spec
INVARIANTS TypeOK RowInside FarInside OwnRow OutBound OneEach Result OnlyValidDecoded RejectedIdle
CHECK_DEADLOCK FALSE
