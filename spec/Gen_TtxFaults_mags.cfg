CONSTANTS Mags = {1, 8} Pages <- PagesX Rows = {1} Cids = {1, 2} Nats = {0} Flofs = {} Progs <- NoProgs
          HdrFaults <- HdrAll RowFaults <- RowFew PktFaults = {} TripFaults = {} FlofFaults <- NoFlofFaults MaxFaults = 1 MaxPk = 5 FaultFrom = {0}
SPECIFICATION GSpec
VIEW gview
INVARIANT DumpF
CHECK_DEADLOCK FALSE
