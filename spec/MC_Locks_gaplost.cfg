CONSTANTS Prog <- CcGap ResetLocking = "release" EventUnlock = TRUE HandlerFetch = TRUE Arm = 2 GapLocked = FALSE ResizeSameUnlocks = TRUE
SPECIFICATION Spec
INVARIANTS SwitchServed
