---------------------------- MODULE Gen_CcDisplay ----------------------------
(* Byte-pair sequences for the caption driver with the visible page of every channel at the
   visibility points and the caption events the specification predicts.

   Two ways to steer the generation (both leave the set of behaviours of CcDisplay untouched, they
   only select among its steps):
   * Mix    - a tuple of code classes; when not empty every step first draws a class from it (classes that
              occur more often are drawn more often) and then takes a step of that class if one is enabled.
              TLC's simulator picks uniformly among successor states, which would otherwise be dominated
              by the many PACs.
   * Bursts - after a control pair on field 1 the same pair is sent another b times (b drawn from the tuple Bursts):
              runs of 2, 3, 4 identical pairs = one, two, two commands.  *)
EXTENDS CcDisplay, Json
CONSTANTS Mix, Bursts
VARIABLES hist, want, burst
gvars == <<vars, hist, want, burst>>
gview == <<ch, cur, last, lm, dm, np, burst>>
\* finer: paths that reach the same state of the machine with another last pair are both continued (the decoder
\* under test may tell them apart, e.g. in its memory of the last control pair)
gview2 == <<ch, cur, last, lm, dm, np, burst, lastAct>>
GInit == Init /\ hist = <<>> /\ want = 0 /\ burst = 0
\* the cells of a memory that are not empty: <<row, col, code, fg, ul, it, flash, opacity, bg>> (the order of the driver's cells)
B(b) == IF b THEN 1 ELSE 0
Cells(mem) == LET S == {<<r, k>> \in (0..14) \X Cols : mem[r][k].u # 0} IN
              {LET y == mem[x[1]][x[2]] IN <<x[1], x[2], y.u, y.fg, B(y.ul), B(y.it), B(y.fl), y.op, y.bg>> : x \in S}
Glyphs(c) == Cells(ch'[c].disp)
SetToSeq(S) == LET RECURSIVE F(_) F(T) == IF T = {} THEN <<>> ELSE LET x == CHOOSE y \in T : TRUE IN <<x>> \o F(T \ {x}) IN F(S)

KindOf(act) == IF act.a = "Text" THEN "TEXT" ELSE IF act.a = "Null" THEN "NULL" ELSE act.code.k
\* in a weighted walk a code for a channel that has no mode yet is a wasted step (ignored by the standard and the decoder)
Useful(d, code) == ch[TargetOf(d, code)].mode # "none" \/ code.k \in CapModes
TextUseful(f) == cur[f] \in Chans /\ ch[cur[f]].mode # "none"
\* the steps of CcDisplay of the classes KS that are enabled (and useful) in the current state, as records like lastAct
Acts(KS) == {[a |-> "Ctrl", c |-> x[1], code |-> x[2], t |-> TargetOf(x[1], x[2])] :
                x \in {y \in DChans \X {z \in Codes : z.k \in KS} :
                         TargetOf(y[1], y[2]) \in Chans /\ Useful(y[1], y[2]) /\ (IsRep(y[1], y[2]) \/ Legal(y[1], y[2]))}}
            \cup (IF "TEXT" \in KS /\ K("TEXT")
                  THEN {[a |-> "Text", f |-> x[1], c1 |-> x[2], c2 |-> x[3]] :
                          x \in {y \in Fields \X Chars \X (Chars \cup {0}) :
                                   TextUseful(y[1]) /\ TextViolated(y[1]) \subseteq Beyond}}
                  ELSE {})
            \cup (IF "NULL" \in KS /\ K("NULL") THEN {[a |-> "Null", f |-> f] : f \in Fields} ELSE {})
Apply(a) == CASE a.a = "Ctrl" -> Ctrl(a.c, a.code) [] a.a = "Text" -> Text(a.f, a.c1, a.c2) [] OTHER -> Null(a.f)
RepeatOK == /\ lastAct.a = "Ctrl" /\ lastAct.code \in Codes /\ TargetOf(lastAct.c, lastAct.code) \in Chans
            /\ (IsRep(lastAct.c, lastAct.code) \/ Legal(lastAct.c, lastAct.code))
\* breadth-first search (Mix empty): every step of CcDisplay.  Weighted walk: ONE step, drawn at random from the enabled
\* steps of the class that was drawn before (a walk then costs one successor per pair instead of several hundred).
Step == IF Mix = <<>> THEN Next /\ UNCHANGED <<want, burst>>
        ELSE IF burst > 0 /\ RepeatOK
        THEN Ctrl(lastAct.c, lastAct.code) /\ burst' = burst - 1 /\ want' = want
        ELSE /\ LET S == IF want = 0 THEN {} ELSE Acts({Mix[want]})
                    T == IF S = {} THEN Acts(AllKinds) ELSE S
                IN \E a \in {RandomElement(T)} : Apply(a)
             /\ want' = RandomElement(1..Len(Mix))
             /\ burst' = IF lastAct'.a = "Ctrl" /\ FieldOf(lastAct'.c) = 1 THEN Bursts[RandomElement(1..Len(Bursts))] ELSE 0
\* (evidence only) where the channel the pair acts on stood before the pair: <<mode, roll-up depth, row, column>>
At == LET c == IF lastAct'.a = "Ctrl" THEN lastAct'.t ELSE IF lastAct'.a = "Text" THEN cur[lastAct'.f] ELSE 0 IN
      IF c \notin Chans THEN <<>> ELSE <<ch[c].mode, ch[c].roll, ch[c].row, ch[c].col>>
\* the exclusion clauses the pair breaks (only with Beyond # {}; a swallowed repetition breaks none)
Broken == IF lastAct'.a = "Ctrl" THEN (IF IsRep(lastAct'.c, lastAct'.code) THEN {} ELSE Violated(lastAct'.c, lastAct'.code))
          ELSE IF lastAct'.a = "Text" THEN TextViolated(lastAct'.f) ELSE {}
GNext == np < MaxPairs /\ Step
         /\ hist' = Append(hist, [act |-> lastAct', vis |-> [c \in 1..8 |-> IF c \in vis' THEN SetToSeq(Glyphs(c)) ELSE <<-1>>],
                                  ev |-> [c \in 1..8 |-> c \in ev'], at |-> At, beyond |-> SetToSeq(Broken)])
GSpec == GInit /\ [][GNext]_gvars

\* Probes.  Backspace, tab offsets, special characters, ENM and characters in pop-on mode are no visibility points:
\* what they did shows at the next one.  A probe is a control pair that is a visibility point for channel c and changes
\* nothing else: the command of the current mode again (RUx of the same depth, RDC in paint-on mode) and EOC in pop-on
\* mode (the loaded caption becomes visible), RTD for a text channel.  Its expected page is computed by the machine like any other step.
ProbeCode(s) == CASE s.mode = "paint" -> [k |-> "RDC"] [] s.mode = "roll" -> [k |-> "RU", n |-> s.roll]
                  [] s.mode = "text" -> [k |-> "RTD"] [] OTHER -> [k |-> "EOC"]
Probeable(chv, lastv, c) == /\ c \in Chans /\ chv[c].mode # "none" /\ (chv[c].mode = "pop" => ~chv[c].stale)
                            /\ ~(FieldOf(c) = 1 /\ lastv = <<DataOf(c), ProbeCode(chv[c])>>)
ProbeRec(chv, c) == [act |-> [a |-> "Ctrl", c |-> DataOf(c), code |-> ProbeCode(chv[c]), t |-> c],
                     vis |-> [d \in 1..8 |-> IF d = c THEN SetToSeq(Cells(Do(chv[c], ProbeCode(chv[c])).disp)) ELSE <<-1>>],
                     ev |-> [d \in 1..8 |-> FALSE], probe |-> TRUE, beyond |-> <<>>]
\* the channel the last pair acted on (0: none)
Touched == IF lastAct'.a = "Ctrl" THEN lastAct'.t ELSE IF lastAct'.a = "Text" THEN cur'[lastAct'.f] ELSE 0
\* transition cover (breadth-first search): one behaviour per explored transition - the shortest path to its source state,
\* the transition, a probe of the channel it touched
TDump == IF Beyond # {} /\ \A i \in 1..Len(hist') : hist'[i].beyond = <<>> THEN TRUE     \* (the other covers print those)
         ELSE PrintT(<<"TR", ToJson(IF Touched # 0 /\ Probeable(ch', last', Touched) THEN Append(hist', ProbeRec(ch', Touched)) ELSE hist')>>)
\* random walks: the whole walk, then a probe of every channel
RECURSIVE Probes(_, _)
Probes(S, lastv) == IF S = {} THEN <<>>
                    ELSE LET c == CHOOSE x \in S : \A y \in S : x <= y IN
                         IF Probeable(ch, lastv, c) THEN <<ProbeRec(ch, c)>> \o Probes(S \ {c}, <<DataOf(c), ProbeCode(ch[c])>>)
                         ELSE Probes(S \ {c}, lastv)
Dump == np = MaxPairs => PrintT(<<"TR", ToJson(hist \o Probes(Chans, last))>>)

\* (cover "text") the way down the text window is walked with CR only: a text channel above row 14 is empty, its cursor in
\* column 1, and the walk leaves MaxPairs - 14 - 1 pairs for the last rows
Ladder == \A c \in Chans : (c > 4 /\ ch[c].row < 13) => (ch[c].disp = Mem0 /\ ch[c].col = 1 /\ ch[c].pen = Pen0 /\ np <= ch[c].row + 1)
\* (covers "attrf", "attrb") states in which the channel still has no mode after the first pair are not continued (codes before any
\* mode command are the business of the covers "mode" and "rep")
Started == np >= 1 => \E c \in Chans : ch[c].mode # "none"
NoMix == <<>>
NoBurst == <<0>>
BurstsWalk == <<0, 0, 0, 0, 0, 0, 1, 1, 1, 2, 3>>
\* broad walks: every class, characters more often than any single control class
MixBroad == <<"TEXT", "TEXT", "TEXT", "TEXT", "TEXT", "PAC", "PAC", "PAC", "MID", "SPC", "RCL", "RDC", "RU", "RU", "EOC", "EOC", "EDM", "ENM",
              "CR", "CR", "BS", "DER", "TO", "NULL">>
\* the right edge: rows are filled, the cursor is moved back and forth, cells are erased
MixEdge == <<"TEXT", "TEXT", "TEXT", "TEXT", "TEXT", "TEXT", "PAC", "PAC", "BS", "BS", "BS", "DER", "DER", "TO", "TO", "TO", "MID", "SPC", "RDC", "RCL",
             "EOC", "EOC", "RU", "CR", "EDM", "ENM">>
\* roll-up windows on every base row
MixRoll == <<"TEXT", "TEXT", "TEXT", "TEXT", "PAC", "PAC", "PAC", "CR", "CR", "CR", "RU", "RU", "EDM", "RCL", "BS", "DER", "MID", "NULL">>
\* attributes between characters
MixAttr == <<"TEXT", "TEXT", "TEXT", "TEXT", "TEXT", "TEXT", "PAC", "PAC", "PACX", "MID", "MID", "FON", "FON", "BAOX", "BAOX", "BAOX", "BT", "FA",
             "RDC", "RU", "RCL", "EOC", "EOC", "CR", "BS", "DER", "EDM", "ENM", "TO", "SPC">>
\* captions and text channels of both fields taking turns
MixText == <<"TEXT", "TEXT", "TEXT", "TEXT", "TEXT", "TEXT", "CR", "CR", "CR", "RTD", "RTD", "RTD", "TR", "PAC", "PAC", "MID", "RU", "RCL", "EOC", "EOC",
             "RDC", "EDM", "ENM", "BS", "DER", "TO", "FON", "BAO", "NULL">>
\* one text channel, many carriage returns
MixTextDeep == <<"TEXT", "TEXT", "TEXT", "TEXT", "TEXT", "CR", "CR", "CR", "CR", "CR", "CR", "PAC", "PACX", "MID", "BS", "DER", "TO", "FON", "BAO", "RTD", "SPC">>
=============================================================================
