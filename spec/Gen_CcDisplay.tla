---------------------------- MODULE Gen_CcDisplay ----------------------------
(* Byte-pair sequences for the caption driver with the visible page of every channel at the
   visibility points and the caption events the specification predicts. *)
EXTENDS CcDisplay, Json
VARIABLE hist
gvars == <<vars, hist>>
gview == <<ch, cur, last, lm, np>>
GInit == Init /\ hist = <<>>
\* the glyph cells of the displayed memory of channel c: <<row, col, code, fg, ul, it>>
Glyphs(c) == LET S == {<<r, k>> \in (0..14) \X Cols : ch'[c].disp[r][k].u # 0 /\ ch'[c].disp[r][k].u # 32} IN
             {<<x[1], x[2], ch'[c].disp[x[1]][x[2]].u, ch'[c].disp[x[1]][x[2]].fg,
                IF ch'[c].disp[x[1]][x[2]].ul THEN 1 ELSE 0, IF ch'[c].disp[x[1]][x[2]].it THEN 1 ELSE 0>> : x \in S}
SetToSeq(S) == LET RECURSIVE F(_) F(T) == IF T = {} THEN <<>> ELSE LET x == CHOOSE y \in T : TRUE IN <<x>> \o F(T \ {x}) IN F(S)
VisOut == [c \in vis' |-> SetToSeq(Glyphs(c))]
GNext == np < MaxPairs /\ Next /\ hist' = Append(hist, [act |-> lastAct', vis |-> [c \in 1..4 |-> IF c \in vis' THEN SetToSeq(Glyphs(c)) ELSE <<-1>>],
                                                        ev |-> [c \in 1..4 |-> c \in ev']])
GSpec == GInit /\ [][GNext]_gvars
Dump == np = MaxPairs => PrintT(<<"TR", ToJson(hist)>>)
=============================================================================
