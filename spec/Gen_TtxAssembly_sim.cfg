CONSTANTS Mags = {1, 2} Pages <- PagesA Rows = {1, 2, 24} Cids = {1, 2} Flofs = {1, 2} FaultKinds = {} MaxFaults = 0 MaxPk = 14
SPECIFICATION GSpec
INVARIANT Dump
CHECK_DEADLOCK FALSE
