CONSTANTS MaxCount = 4 MaxExtra = 2
SPECIFICATION Spec
INVARIANTS TypeOK RowInside OwnRow OutBound OneEach Result
CHECK_DEADLOCK FALSE
