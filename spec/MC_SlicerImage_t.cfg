CONSTANTS MaxCount = 4 MaxExtra = 2 Rule = "coded"
SPECIFICATION Spec
INVARIANTS TypeOK RowInside FarInside OwnRow OutBound OneEach Result OnlyValidDecoded RejectedIdle
CHECK_DEADLOCK FALSE
