CONSTANTS HdlVal = 5 MinPL = 27 TtxN = 2 VpsN = 1 TSP = 11 HL = 17 TSH = 10 MaxLines = 64
  Streams <- StreamsO RecStreams <- RecAll CorLines = {} Policies = {"none"} RecMode = "orig" CcStarts = {}
SPECIFICATION Spec
INVARIANTS Recovery RecoveryMeaningful
CHECK_DEADLOCK FALSE
