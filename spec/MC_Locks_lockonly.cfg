CONSTANTS Prog <- CcXds ResetLocking = "lockonly" EventUnlock = TRUE HandlerFetch = FALSE Arm = 2 GapLocked = TRUE ResizeSameUnlocks = TRUE
SPECIFICATION Spec
INVARIANTS LocksetOK NoRace CallbackUnlocked NoSelfLock SnapshotAtomic ConsistentSet HolderOK
