CONSTANTS Prog <- CcXds ResetLocking = "lockonly" EventUnlock = TRUE HandlerFetch = FALSE
SPECIFICATION Spec
INVARIANTS LocksetOK NoRace CallbackUnlocked NoSelfLock SnapshotAtomic ConsistentSet HolderOK
