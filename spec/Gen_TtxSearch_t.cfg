CONSTANTS NP = 3 MaxSub = 2 MaxOcc = 1 MaxCalls = 3
  AllowTurn = TRUE AllowUpdate = FALSE SecondWrapStops = TRUE ClampSub = TRUE
SPECIFICATION GSpec
CONSTRAINT Dump
CHECK_DEADLOCK FALSE
