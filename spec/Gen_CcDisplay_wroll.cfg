\* random walks in roll-up mode: all 15 PAC rows x depths 2, 3, 4, carriage returns in runs
CONSTANTS Chans = {1, 4} Rows = {0, 1, 2, 3, 4, 5, 6, 7, 8, 9, 10, 11, 12, 13, 14} Chars = {65, 98, 32} MaxPairs = 30
  Indents = {0, 28} Depths = {2, 3, 4} Tabs = {1, 2, 3}
  Kinds = {"RCL", "RDC", "EOC", "EDM", "ENM", "CR", "BS", "DER", "RU", "TO", "PAC", "PACX", "MID", "SPC", "NULL", "TEXT"}
  Beyond = {}
  Mix <- MixRoll Bursts <- BurstsWalk
SPECIFICATION GSpec
INVARIANT Dump
CHECK_DEADLOCK FALSE
