------------------------------ MODULE Announce ------------------------------
(* Station / programme / time / aspect announcements of the service decoder:
   vbi_decode_vps and parse_bsd (src/packet.c), the XDS network-name branch of xds_decoder
   (src/caption.c), vbi_chsw_reset (src/vbi.c), vbi_decode_wss_625 (src/wss.c).

   The network record is modelled as coded: one last-received value per carrier, ONE repeat
   state ("cycle") shared by all carriers, the network id, and the reset that a change of the
   identified station triggers.  The property C13 is stated separately (Faithful,
   OnlyAfterRepeat, NetworkMeansChange, OneNetworkEvent, CacheKept, ChangeAnnounced, WssOnlyAfterRepeats) and
   TLC checks it over all interleavings of the carriers.

   Values: a, b identify known stations, u is a code the station table does not know
   (network id 0), 0 = nothing received yet.  The XDS carrier identifies by a hash of the
   name, i.e. every name is "known" but yields ids different from the CNI table.           *)
EXTENDS Naturals, Sequences, FiniteSets, TLC

CONSTANTS Carriers,        \* subset of {"vps", "p1", "p2", "xds"}
          Vals,            \* subset of {"a", "b", "u"}
          WssWords,        \* WSS words used: "x", "y" (valid parity), "bad" (even parity)
          MaxRecv,
          UnknownOnce,     \* TRUE: a change to an unidentified station raises one event (repaired code)
          XdsGuard,        \* TRUE: XDS name path announces only a changed id (repaired code)
          Calls            \* XDS call letters (Channel class, type 2) the stations send: subset of {"a", "b"}; {} = none

VARIABLES last,      \* per carrier: value stored in the network record
          cycle,     \* shared repeat state: 0 nothing, 1 first reception, 2/3 announced
          nuid,      \* identified station ("0" = none/unknown)
          cache,     \* TRUE while the pages cached before the last station change are still there
          evs,       \* events raised by the last reception: sequence of records
          prev,      \* ghost: per carrier the value received before this one
          wlast, wrep, aspect,    \* WSS: last word, repeat count, announced aspect
          wrun,                   \* ghost: length of the current run of identical WSS words
          xcall,                  \* XDS: stored call letters ("0" = none): the station id is computed from them when present
          xrun,                   \* ghost: consecutive receptions of the same XDS name with no other XDS change in between
          nrecv, lastAct
vars == <<last, cycle, nuid, cache, evs, prev, wlast, wrep, aspect, wrun, xcall, xrun, nrecv, lastAct>>

Nuid(c, v) == IF v = "0" THEN "0"
              ELSE IF c = "xds" THEN (IF v = "u" THEN "Xu" ELSE IF v = "a" THEN "Xa" ELSE "Xb")
              ELSE IF v = "u" THEN "0" ELSE IF v = "a" THEN "A" ELSE "B"

\* XDS station id: hash of the call letters if the station sends any, else of the network name
XId(call, v) == IF call = "0" THEN Nuid("xds", v) ELSE IF call = "a" THEN "Ca" ELSE "Cb"
IdOf(c, v, call) == IF c = "xds" THEN XId(call, v) ELSE Nuid(c, v)

Init == /\ last = [c \in Carriers |-> "0"] /\ cycle = 0 /\ nuid = "0" /\ cache = TRUE /\ evs = <<>>
        /\ prev = [c \in Carriers |-> "0"]
        /\ wlast = "none" /\ wrep = 0 /\ aspect = "init" /\ wrun = 0
        /\ xcall = "0" /\ xrun = 0
        /\ nrecv = 0 /\ lastAct = [a |-> "init"]

Ev(t, c, v, id, rec) == [t |-> t, c |-> c, v |-> v, nuid |-> id, cni |-> rec, call |-> IF c = "xds" THEN xcall ELSE "-"]

-----------------------------------------------------------------------------
\* Hamming/BCD protected carriers announce their time / programme label on every reception
Always(c, v) == IF c = "p1" THEN <<[t |-> "LOCAL_TIME", c |-> c, v |-> v, nuid |-> "-", cni |-> "-", call |-> "-"]>>
                ELSE IF c = "p2" THEN <<[t |-> "PROG_ID", c |-> c, v |-> v, nuid |-> "-", cni |-> "-", call |-> "-"]>>
                ELSE <<>>

(* one received VPS line / packet 8/30 format 1 or 2 / completed XDS network name *)
Recv(c, v) ==
  /\ nrecv' = nrecv + 1 /\ lastAct' = [a |-> "Recv", c |-> c, v |-> v]
  /\ prev' = [prev EXCEPT ![c] = v]
  /\ UNCHANGED <<wlast, wrep, aspect, wrun, xcall>>
  /\ xrun' = IF c # "xds" THEN xrun ELSE IF prev[c] = v THEN xrun + 1 ELSE 1
  /\ IF v # last[c]
     THEN /\ last' = [last EXCEPT ![c] = v] /\ cycle' = 1 /\ evs' = Always(c, v)
          /\ UNCHANGED <<nuid, cache>>
     ELSE IF cycle # 1 THEN evs' = Always(c, v) /\ UNCHANGED <<last, cycle, nuid, cache>>
     ELSE LET id == IdOf(c, v, xcall)
              guard == IF c = "xds" THEN (XdsGuard => id # nuid) ELSE id # nuid
              reset == guard /\ nuid # "0"
              \* vbi_chsw_reset(vbi, 0): clears the whole network record and raises its own event
              wipe == reset /\ id = "0" /\ ~UnknownOnce
              rec == IF wipe THEN [x \in Carriers |-> "0"] ELSE last
              e0 == IF wipe THEN <<Ev("NETWORK", c, "0", "0", rec)>> ELSE <<>>
              e1 == IF guard THEN <<Ev("NETWORK", c, v, id, rec)>> ELSE <<>>
              e2 == <<Ev("NETWORK_ID", c, v, IF guard THEN id ELSE nuid, rec)>>
              e3 == IF c = "vps" THEN <<Ev("PROG_ID", c, v, "-", rec)>> ELSE <<>>   \* VPS label, confirmed with its CNI
          IN /\ evs' = e0 \o e1 \o e2 \o e3 \o Always(c, v)
             /\ nuid' = IF guard THEN id ELSE nuid
             /\ cache' = IF reset THEN FALSE ELSE cache
             /\ last' = rec
             /\ cycle' = IF c = "xds" THEN 3 ELSE 2

(* a completed XDS "network call letters" packet.  As coded: changed letters make the stored network NAME forgotten, so
   that the next two name packets count as "changed, then repeated" and the id is computed again - from the new letters. *)
RecvCall(v) ==
  /\ "xds" \in Carriers
  /\ nrecv' = nrecv + 1 /\ lastAct' = [a |-> "Call", v |-> v]
  /\ evs' = <<>> /\ UNCHANGED <<nuid, cache, prev, wlast, wrep, aspect, wrun>>
  /\ IF v # xcall
     THEN /\ xcall' = v /\ xrun' = 0
          /\ IF cycle # 1 THEN last' = [last EXCEPT !["xds"] = "0"] /\ cycle' = 0 ELSE UNCHANGED <<last, cycle>>
     ELSE UNCHANGED <<xcall, xrun, last, cycle>>

(* the application caches pages of the station it is tuned to (sentinel for CacheKept) *)
Refill == /\ ~cache /\ cache' = TRUE /\ evs' = <<>> /\ lastAct' = [a |-> "Refill"]
          /\ UNCHANGED <<last, cycle, nuid, prev, wlast, wrep, aspect, wrun, xcall, xrun, nrecv>>

(* one received WSS line *)
AspectOf(w) == IF w = "x" THEN "ax" ELSE IF w = "y" THEN "ay" ELSE "abad"
RecvWss(w) ==
  /\ nrecv' = nrecv + 1 /\ lastAct' = [a |-> "Wss", w |-> w]
  /\ wrun' = IF w = wlast THEN wrun + 1 ELSE 1
  /\ UNCHANGED <<last, cycle, nuid, cache, prev, xcall, xrun>>
  /\ IF w # wlast
     THEN /\ wlast' = w /\ wrep' = 0 /\ evs' = <<>> /\ UNCHANGED aspect
     ELSE /\ wlast' = w
          /\ wrep' = IF wrep < 3 THEN wrep + 1 ELSE wrep
          /\ IF wrep + 1 < 3 \/ w = "bad" \/ AspectOf(w) = aspect
             THEN evs' = <<>> /\ UNCHANGED aspect
             ELSE /\ aspect' = AspectOf(w)
                  /\ evs' = <<[t |-> "ASPECT", c |-> "wss", v |-> w, nuid |-> "-", cni |-> AspectOf(w), call |-> "-"]>>

Next == \/ \E c \in Carriers, v \in Vals : Recv(c, v)
        \/ \E w \in WssWords : RecvWss(w)
        \/ \E v \in Calls : RecvCall(v)
        \/ Refill
Spec == Init /\ [][Next]_vars
Bounded == nrecv < MaxRecv

-----------------------------------------------------------------------------
(* C13 *)
Net(s)   == SelectSeq(s, LAMBDA e : e.t = "NETWORK")
NetId(s) == SelectSeq(s, LAMBDA e : e.t = "NETWORK_ID")

\* payloads carry what was transmitted on the announcing carrier
Faithful == \A i \in 1..Len(evs) :
              evs[i].t \in {"NETWORK", "NETWORK_ID"} =>
                 /\ evs[i].cni[evs[i].c] = evs[i].v
                 /\ evs[i].nuid = IdOf(evs[i].c, evs[i].v, xcall)
\* (action properties, checked as invariants over the pair (state, its last reception))
\* an identifier is announced only on a reception that repeats the previous one of its carrier
OnlyAfterRepeat == [][\A i \in 1..Len(evs') : evs'[i].t \in {"NETWORK", "NETWORK_ID"} =>
                        /\ lastAct'.a = "Recv" /\ prev[lastAct'.c] = lastAct'.v /\ evs'[i].v = lastAct'.v]_vars
\* a network event means the identified station changed, and there is at most one per change
NetworkMeansChange == [][Len(Net(evs')) > 0 => nuid' # nuid]_vars
OneNetworkEvent    == [][Len(Net(evs')) <= 1]_vars
\* the cache is dropped only when the identified station changes, and then it is dropped
CacheKept    == [][(cache /\ ~cache') => (nuid' # nuid /\ nuid # "0")]_vars
CacheDropped == [][(nuid # "0" /\ nuid' # nuid) => ~cache']_vars
\* a single deviating reception never announces the deviating value: it is never a repeat
\* (covered by OnlyAfterRepeat); and after v v w v v the station is still v without NETWORK event
\* WSS: announced only with valid parity, after at least three identical repeats, not again while unchanged
WssOnlyAfterRepeats == [][\A i \in 1..Len(evs') : evs'[i].t = "ASPECT" =>
                            /\ lastAct'.a = "Wss" /\ lastAct'.w # "bad" /\ wrun' >= 4
                            /\ evs'[i].cni = AspectOf(lastAct'.w) /\ aspect # aspect']_vars
\* XDS alone: when the same name keeps arriving (three receptions with no other XDS change in between) the identified
\* station is the transmitted one - a change of the call letters under an unchanged name is announced too
XdsSettles == (Carriers = {"xds"} /\ xrun >= 3) => nuid = XId(xcall, prev["xds"])
TypeOK == cycle \in 0..3 /\ wrep \in 0..3
=============================================================================
