------------------------------ MODULE Announce ------------------------------
(* Station / programme / time / aspect announcements of the service decoder:
   vbi_decode_vps and parse_bsd / parse_8_30 (src/packet.c), the XDS network-name branch of xds_decoder
   (src/caption.c), vbi_chsw_reset, vbi_event_enable, vbi_event_handler_register/_unregister/_add/_remove,
   vbi_send_event (src/vbi.c), vbi_decode_wss_625 (src/wss.c).

   The network record is modelled as coded: one last-received value per carrier, ONE repeat
   state ("cycle") shared by all carriers, the network id, the VPS programme label stored at the first
   reception of a CNI, and the reset that a change of the identified station triggers.  The list of
   registered handlers with their event masks is part of the state: what is decoded depends on the
   union of the masks, and a NEWLY activated event type resets the part of the state that feeds it
   (vbi_event_enable) - these resets are the named parts NetReset / AspReset / PidReset of Enable.
   The property C13 is stated separately (Faithful, OfThisReception, OnlyAfterRepeat, NetworkMeansChange,
   OneNetworkEvent, NotAgainWhileSame, StationKept, CacheKept, CacheDropped, VpsLabelTwice, Gated,
   WssOnlyAfterRepeats, AspectRevertOnlyOnChange, GapKeeps, DropOutOnce) and TLC checks it over all interleavings of the carriers
   and of the registrations.

   Values: a, b identify known stations, u is a code the station table does not know
   (network id 0), 0 = nothing received yet.  The XDS carrier identifies by a hash of the
   name, i.e. every name is "known" but yields ids different from the CNI table.
   Payloads vary independently of the CNI: a PDC label (VPS: PIL, PTY, PCS audio; 8/30 format 2: LCI, LUF, PRF,
   PCS, MI, PIL, PTY) or a local time (8/30 format 1: MJD, UTC, offset); "bad" is a payload the decoder must
   refuse (8/30-2: uncorrectable Hamming error, 8/30-1: a time that is not BCD).

   Time stamps (vbi_decode): every reception is one frame.  Gap = the time stamps jump (frames were dropped): the decoder
   desynchronises and, if none is running, arms the drop-out countdown `cd` (vbi->chswcd = 40 frames).  Every frame with
   a regular time stamp ticks it; when it expires (CdFire, in an empty frame: Idle) the decoder assumes a channel
   switch: vbi_chsw_reset(vbi, 0) forgets the network record, drops the cache and, if a station was identified, raises
   a NETWORK event with a zeroed record.  The countdown is cancelled as coded: by the reset of an identified station
   change (vbi_chsw_reset) and by a rolling page header (the sentinel page, Refill).                      *)
EXTENDS Naturals, Sequences, FiniteSets, TLC

CONSTANTS Carriers,        \* subset of {"vps", "p1", "p2", "xds"}
          Vals,            \* subset of {"a", "b", "u"}
          Labels,          \* PDC labels the stations transmit on VPS and in 8/30 format 2, e.g. {"p", "q"}
          Times,           \* local times transmitted in 8/30 format 1, e.g. {"t", "s"}
          Bads,            \* {"bad"} or {}: damaged payloads of the two Teletext carriers
          WssWords,        \* WSS words used: parity-valid words and "bad" (even parity)
          MaxRecv,
          UnknownOnce,     \* TRUE: a change to an unidentified station raises one event (repaired code)
          XdsGuard,        \* TRUE: XDS name path announces only a changed id (repaired code)
          Calls,           \* XDS call letters (Channel class, type 2) the stations send: subset of {"a", "b"}; {} = none
          Handlers,        \* handler slots (function, user_data), e.g. {"h1", "h2"}
          InitMasks,       \* event masks handler h1 may be registered with before the stream starts
          RegMasks,        \* event masks used by registrations in mid-stream
          Apis,            \* subset of {"reg", "add"}: vbi_event_handler_register/_unregister or the deprecated _add/_remove
          MaxReg,          \* bound on the number of registrations in mid-stream
          CdLen,           \* length of the drop-out countdown in frames (40 as coded)
          IdleSteps,       \* numbers of consecutive empty frames with regular time stamps (action Idle), e.g. {1, 38, 40}
          MaxGap, MaxIdle  \* bounds on the number of time stamp jumps / Idle actions (0: time stamps always regular)

VARIABLES last,      \* per carrier: value stored in the network record
          cycle,     \* shared repeat state: 0 nothing, 1 first reception, 2/3 announced
          nuid,      \* identified station ("0" = none/unknown)
          vpid,      \* VPS label stored at the first reception of a CNI (vbi->vps_pid); "0" = cleared
          cache,     \* TRUE while the pages cached before the last station change are still there
          evs,       \* events raised by the last step: sequence of records
          hmask,     \* per handler slot: its event mask ({} = not registered)
          horder,    \* registered handlers in the order of registration (= order of delivery)
          prev,      \* ghost: per carrier the value received before this one
          vseen,     \* ghost: labels received on VPS since its CNI last differed from the one before
          ann,       \* ghost: station id of the last NETWORK event ("none": no listener has been told one yet)
          wlast, wrep, aspect,    \* WSS: last word, repeat count, announced aspect ("init" = none, aspect_source 0)
          wrun,                   \* ghost: length of the current run of identical WSS words
          xcall,                  \* XDS: stored call letters ("0" = none): the station id is computed from them when present
          xrun,                   \* ghost: consecutive receptions of the same XDS name with no other XDS change or NetReset in between
          cd,        \* drop-out countdown (vbi->chswcd): 0 = not running
          gap,       \* ghost record: fr = regular frames since the countdown was armed, chg = a change of the identified station (from a known one) was announced since then,
                     \*               n = number of time stamp jumps, idle = number of Idle actions
          nrecv, nreg, lastAct
vars == <<last, cycle, nuid, vpid, cache, evs, hmask, horder, prev, vseen, ann, wlast, wrep, aspect, wrun, xcall, xrun,
          cd, gap, nrecv, nreg, lastAct>>

NetTypes == {"NETWORK", "NETWORK_ID"}
AspTypes == {"ASPECT", "PROG_INFO"}         \* both are fed by the programme info record that holds the announced aspect ratio
Types == NetTypes \cup AspTypes \cup {"PROG_ID", "LOCAL_TIME", "TTX_PAGE", "CAPTION"}
MaskOf(hm) == UNION {hm[h] : h \in Handlers}
emask == MaskOf(hmask)                       \* vbi->event_mask

Nuid(c, v) == IF v = "0" THEN "0"
              ELSE IF c = "xds" THEN (IF v = "u" THEN "Xu" ELSE IF v = "a" THEN "Xa" ELSE "Xb")
              ELSE IF v = "u" THEN "0" ELSE IF v = "a" THEN "A" ELSE "B"

\* XDS station id: hash of the call letters if the station sends any, else of the network name
XId(call, v) == IF call = "0" THEN Nuid("xds", v) ELSE IF call = "a" THEN "Ca" ELSE "Cb"
IdOf(c, v, call) == IF c = "xds" THEN XId(call, v) ELSE Nuid(c, v)

PayloadsOf(c) == IF c = "vps" THEN Labels ELSE IF c = "p2" THEN Labels \cup Bads
                 ELSE IF c = "p1" THEN Times \cup Bads ELSE {"-"}

\* words with the same meaning (they differ in reserved bits only) announce the same aspect
AspectOf(w) == IF w = "bad" THEN "abad" ELSE IF w = "x2" THEN "ax" ELSE "a" \o w

Init == /\ last = [c \in Carriers |-> "0"] /\ cycle = 0 /\ nuid = "0" /\ vpid = "0" /\ evs = <<>>
        /\ \E m \in InitMasks : hmask = [h \in Handlers |-> IF h = "h1" THEN m ELSE {}]
        /\ horder = <<"h1">>
        /\ cache = ("TTX_PAGE" \in hmask["h1"])          \* the sentinel page is transmitted first; only a Teletext handler makes it decoded
        /\ prev = [c \in Carriers |-> "0"] /\ vseen = {} /\ ann = "none"
        /\ wlast = "none" /\ wrep = 0 /\ aspect = "init" /\ wrun = 0
        /\ xcall = "0" /\ xrun = 0
        /\ cd = 0 /\ gap = [fr |-> 0, chg |-> FALSE, n |-> 0, idle |-> 0]
        /\ nrecv = 0 /\ nreg = 0 /\ lastAct = [a |-> "Init", m |-> hmask["h1"]]

Ev(t, c, v, l, id, rec) == [t |-> t, c |-> c, v |-> v, l |-> l, nuid |-> id, cni |-> rec, call |-> IF c = "xds" THEN xcall ELSE "-"]

-----------------------------------------------------------------------------
\* parse_8_30: the Hamming/BCD protected carriers announce their time / programme label on every reception - if somebody listens
Always(c, v, l) == IF c = "p1" /\ "LOCAL_TIME" \in emask /\ l # "bad" THEN <<Ev("LOCAL_TIME", c, v, l, "-", "-")>>
                   ELSE IF c = "p2" /\ "PROG_ID" \in emask /\ l # "bad" THEN <<Ev("PROG_ID", c, v, l, "-", "-")>>
                   ELSE <<>>

\* the CNI of a packet 8/30 is looked at only while a handler wants network events (BSDATA_EVENTS), a VPS line and
\* an XDS name always; a format 2 packet with an uncorrectable byte is dropped as a whole
CniDecoded(c, l) == /\ c \in {"p1", "p2"} => emask \cap NetTypes # {}
                    /\ ~(c = "p2" /\ l = "bad")

\* the frames of an action tick the countdown and the ghost; a reception is never the frame in which the countdown expires
\* (the model lets it expire in empty frames only: Idle)
Dec(n) == IF cd > n THEN cd - n ELSE 0
HasNet(es) == \E i \in 1..Len(es) : es[i].t = "NETWORK"
GapTick(n, es) == gap' = [gap EXCEPT !.fr = IF cd > 0 THEN @ + n ELSE @, !.chg = @ \/ (cd > 0 /\ HasNet(es) /\ nuid # "0")]

LastAnn(es, old) == LET n == SelectSeq(es, LAMBDA e : e.t = "NETWORK") IN IF n = <<>> THEN old ELSE n[Len(n)].nuid

(* the network identification part of a received VPS line / packet 8/30 format 1 or 2 / completed XDS network name *)
RecvCni(c, v, l) ==
  /\ prev' = [prev EXCEPT ![c] = v]
  /\ vseen' = IF c # "vps" THEN vseen ELSE IF prev[c] = v THEN vseen \cup {l} ELSE {l}
  /\ xrun' = IF c # "xds" THEN xrun ELSE IF prev[c] = v THEN xrun + 1 ELSE 1
  /\ UNCHANGED wrun
  /\ IF v # last[c]
     THEN /\ last' = [last EXCEPT ![c] = v] /\ cycle' = 1 /\ evs' = Always(c, v, l)
          /\ vpid' = (IF c = "vps" THEN l ELSE vpid) /\ cd' = Dec(1)
          /\ UNCHANGED <<nuid, cache, wlast, wrep, aspect>>
     ELSE IF cycle # 1 THEN evs' = Always(c, v, l) /\ cd' = Dec(1) /\ UNCHANGED <<last, cycle, nuid, vpid, cache, wlast, wrep, aspect>>
     ELSE LET id == IdOf(c, v, xcall)
              guard == IF c = "xds" THEN (XdsGuard => id # nuid) ELSE id # nuid
              reset == guard /\ nuid # "0"
              \* vbi_chsw_reset(vbi, 0): clears the whole network record and raises its own event
              wipe == reset /\ id = "0" /\ ~UnknownOnce
              rec == IF wipe THEN [x \in Carriers |-> "0"] ELSE last
              e0 == IF wipe THEN <<Ev("NETWORK", c, "0", "-", "0", rec)>> ELSE <<>>
              \* vbi_chsw_reset: the aspect ratio announced for the old station is withdrawn (AspectRevert) and WSS starts over
              ea == IF reset /\ aspect # "init" THEN <<Ev("ASPECT", "revert", "-", "-", "-", "adefault")>> ELSE <<>>
              e1 == IF guard THEN <<Ev("NETWORK", c, v, "-", id, rec)>> ELSE <<>>
              e2 == <<Ev("NETWORK_ID", c, v, "-", IF guard THEN id ELSE nuid, rec)>>
              \* VPS label: announced with its CNI when it equals the one of the first reception, else stored
              pdc == c = "vps" /\ "PROG_ID" \in emask
              e3 == IF pdc /\ l = vpid THEN <<Ev("PROG_ID", c, v, l, "-", "-")>> ELSE <<>>
          IN /\ evs' = e0 \o ea \o e1 \o e2 \o e3 \o Always(c, v, l)
             /\ nuid' = IF guard THEN id ELSE nuid
             /\ cache' = IF reset THEN FALSE ELSE cache
             /\ last' = rec
             /\ cycle' = IF c = "xds" THEN 3 ELSE 2
             /\ vpid' = IF pdc /\ l # vpid THEN l ELSE vpid
             /\ IF reset THEN wlast' = "none" /\ wrep' = 0 /\ aspect' = "init" /\ cd' = 0       \* vbi_chsw_reset cancels the countdown
                ELSE cd' = Dec(1) /\ UNCHANGED <<wlast, wrep, aspect>>
  /\ ann' = LastAnn(evs', ann)

(* one received VPS line / packet 8/30 format 1 or 2 / completed XDS network name *)
Recv(c, v, l) ==
  /\ cd # 1
  /\ nrecv' = nrecv + 1 /\ lastAct' = [a |-> "Recv", c |-> c, v |-> v, l |-> l]
  /\ UNCHANGED <<hmask, horder, nreg, xcall>>
  /\ IF CniDecoded(c, l)
     THEN RecvCni(c, v, l)
     ELSE /\ evs' = Always(c, v, l) /\ cd' = Dec(1)
          /\ UNCHANGED <<last, cycle, nuid, vpid, cache, prev, vseen, ann, wlast, wrep, aspect, wrun, xrun>>
  /\ GapTick(1, evs')

(* a completed XDS "network call letters" packet.  As coded: changed letters make the stored network NAME forgotten, so
   that the next two name packets count as "changed, then repeated" and the id is computed again - from the new letters. *)
RecvCall(v) ==
  /\ "xds" \in Carriers
  /\ nrecv' = nrecv + 1 /\ lastAct' = [a |-> "Call", v |-> v]
  /\ evs' = <<>> /\ UNCHANGED <<cd, gap, nuid, vpid, cache, hmask, horder, nreg, prev, vseen, ann, wlast, wrep, aspect, wrun>>
  /\ IF v # xcall
     THEN /\ xcall' = v /\ xrun' = 0
          /\ IF cycle # 1 THEN last' = [last EXCEPT !["xds"] = "0"] /\ cycle' = 0 ELSE UNCHANGED <<last, cycle>>
     ELSE UNCHANGED <<xcall, xrun, last, cycle>>

(* the application caches pages of the station it is tuned to (sentinel for CacheKept); Teletext pages are decoded
   only while a TTX_PAGE handler is registered *)
\* The page takes three frames (header, row, terminating header); it is stored with the third: its rolling header cancels a
\* running countdown (vbi_decode_teletext: same_header -> chswcd = 0).  While the countdown runs the page may be sent again.
Refill == /\ (~cache \/ cd > 0) /\ "TTX_PAGE" \in emask
          /\ cd = 0 \/ cd > 3
          /\ cd' = 0 /\ GapTick(3, <<>>)
          /\ cache' = TRUE /\ evs' = <<>> /\ lastAct' = [a |-> "Refill"]
          /\ UNCHANGED <<last, cycle, nuid, vpid, hmask, horder, prev, vseen, ann, wlast, wrep, aspect, wrun, xcall, xrun, nrecv, nreg>>

(* one received WSS line (decoded with or without a listener) *)
RecvWss(w) ==
  /\ cd # 1 /\ cd' = Dec(1) /\ GapTick(1, <<>>)
  /\ nrecv' = nrecv + 1 /\ lastAct' = [a |-> "Wss", w |-> w]
  /\ wrun' = IF w = wlast THEN wrun + 1 ELSE 1
  /\ UNCHANGED <<last, cycle, nuid, vpid, cache, hmask, horder, nreg, prev, vseen, ann, xcall, xrun>>
  /\ IF w # wlast
     THEN /\ wlast' = w /\ wrep' = 0 /\ evs' = <<>> /\ UNCHANGED aspect
     ELSE /\ wlast' = w
          /\ wrep' = IF wrep < 3 THEN wrep + 1 ELSE wrep
          /\ IF wrep + 1 < 3 \/ w = "bad" \/ AspectOf(w) = aspect
             THEN evs' = <<>> /\ UNCHANGED aspect
             ELSE /\ aspect' = AspectOf(w)
                  /\ evs' = <<Ev("ASPECT", "wss", w, "-", "-", AspectOf(w))>>

-----------------------------------------------------------------------------
(* vbi_event_enable(new mask): what a newly activated event type resets *)
NewNet(old, new) == (new \ old) \cap NetTypes # {}
Enable(new) ==
  LET act == new \ emask IN
  /\ evs' = <<>>
  /\ IF act \cap NetTypes # {}                                     \* NetReset: the new listener shall learn the station
     THEN last' = [c \in Carriers |-> "0"] /\ cycle' = 0 /\ nuid' = "0" /\ xcall' = "0" /\ ann' = "none" /\ xrun' = 0
     ELSE UNCHANGED <<last, cycle, nuid, xcall, ann, xrun>>
  /\ aspect' = IF act \cap AspTypes # {} /\ emask \cap AspTypes = {}    \* AspReset: ... and the aspect ratio, when nobody listened
               THEN "init" ELSE aspect                               \* to programme info before
  /\ vpid' = IF "PROG_ID" \in act THEN "0" ELSE vpid                 \* PidReset
  /\ UNCHANGED <<cache, prev, vseen, wlast, wrep, wrun, nrecv, cd, gap>>

(* vbi_event_handler_register / vbi_event_handler_add with a mask that is not empty *)
Register(h, m, api) ==
  /\ m # {} /\ m # hmask[h] /\ nreg < MaxReg
  /\ nreg' = nreg + 1 /\ lastAct' = [a |-> "Register", h |-> h, m |-> m, api |-> api]
  /\ hmask' = [hmask EXCEPT ![h] = m]
  /\ horder' = IF hmask[h] # {} THEN horder ELSE Append(horder, h)
  /\ Enable(MaskOf(hmask'))

(* vbi_event_handler_unregister / vbi_event_handler_remove (also of a handler that is not registered) *)
Unregister(h, api) ==
  /\ nreg < MaxReg
  /\ nreg' = nreg + 1 /\ lastAct' = [a |-> "Unregister", h |-> h, api |-> api]
  /\ hmask' = [hmask EXCEPT ![h] = {}]
  /\ horder' = SelectSeq(horder, LAMBDA x : x # h)
  /\ Enable(MaskOf(hmask'))

-----------------------------------------------------------------------------
(* vbi_decode with a time stamp that does not continue the previous one (an empty frame after dropped ones): Teletext and
   caption decoder desynchronise (nothing of a whole unit is pending), the countdown is armed unless it runs already.
   (Before the first frame there is no previous time stamp; the XDS units take several frames: not combined with gaps.) *)
Gap == /\ "xds" \notin Carriers /\ gap.n < MaxGap /\ nrecv > 0
       /\ cd' = IF cd = 0 THEN CdLen ELSE cd
       /\ gap' = [gap EXCEPT !.n = @ + 1, !.fr = IF cd = 0 THEN 0 ELSE @, !.chg = IF cd = 0 THEN FALSE ELSE @]
       /\ evs' = <<>> /\ lastAct' = [a |-> "Gap"]
       /\ UNCHANGED <<last, cycle, nuid, vpid, cache, hmask, horder, prev, vseen, ann, wlast, wrep, aspect, wrun, xcall, xrun, nrecv, nreg>>

(* the countdown expires: vbi_chsw_reset(vbi, 0) *)
CdFire == LET zero == [x \in Carriers |-> "0"]
              e0 == IF nuid # "0" THEN <<Ev("NETWORK", "cd", "0", "-", "0", zero)>> ELSE <<>>
              ea == IF aspect # "init" THEN <<Ev("ASPECT", "revert", "-", "-", "-", "adefault")>> ELSE <<>>
          IN /\ last' = zero /\ cycle' = 0 /\ nuid' = "0" /\ xcall' = "0" /\ cache' = FALSE
             /\ evs' = e0 \o ea /\ ann' = LastAnn(evs', ann)
             /\ wlast' = "none" /\ wrep' = 0 /\ aspect' = "init" /\ cd' = 0
             /\ UNCHANGED <<vpid, prev, vseen, wrun, xrun>>

(* n empty frames with regular time stamps (vbi_decode(vbi, NULL, 0, t)) *)
Idle(n) == /\ gap.idle < MaxIdle
           /\ lastAct' = [a |-> "Idle", n |-> n]
           /\ gap' = [gap EXCEPT !.idle = @ + 1, !.fr = IF cd > 0 THEN @ + (IF n < cd THEN n ELSE cd) ELSE @]
           /\ UNCHANGED <<hmask, horder, nrecv, nreg>>
           /\ IF cd > 0 /\ n >= cd THEN CdFire
              ELSE /\ cd' = Dec(n) /\ evs' = <<>>
                   /\ UNCHANGED <<last, cycle, nuid, vpid, cache, prev, vseen, ann, wlast, wrep, aspect, wrun, xcall, xrun>>

Next == \/ Gap
        \/ \E n \in IdleSteps : Idle(n)
        \/ \E c \in Carriers, v \in Vals : \E l \in PayloadsOf(c) : Recv(c, v, l)
        \/ \E w \in WssWords : RecvWss(w)
        \/ \E v \in Calls : RecvCall(v)
        \/ Refill
        \/ \E h \in Handlers, m \in RegMasks, api \in Apis : Register(h, m, api)
        \/ \E h \in Handlers, api \in Apis : Unregister(h, api)
Spec == Init /\ [][Next]_vars
Bounded == nrecv < MaxRecv

(* vbi_send_event: every raised event is handed to the handlers whose mask has its type, in the order of registration *)
RECURSIVE Flat(_)
Flat(s) == IF s = <<>> THEN <<>> ELSE Head(s) \o Flat(Tail(s))
Delivered(es, order, hm) ==
  Flat([i \in 1..Len(es) |->
          LET hs == SelectSeq(order, LAMBDA h : es[i].t \in hm[h])
          IN [j \in 1..Len(hs) |-> [h |-> hs[j], e |-> es[i]]]])

-----------------------------------------------------------------------------
(* C13 *)
Net(s)   == SelectSeq(s, LAMBDA e : e.t = "NETWORK")
NetId(s) == SelectSeq(s, LAMBDA e : e.t = "NETWORK_ID")

\* payloads carry what was transmitted on the announcing carrier
Faithful == \A i \in 1..Len(evs) :
              evs[i].t \in NetTypes =>
                 IF evs[i].c = "cd" THEN evs[i].nuid = "0" /\ \A x \in Carriers : evs[i].cni[x] = "0"    \* drop-out: no station
                 ELSE /\ evs[i].cni[evs[i].c] = evs[i].v
                      /\ evs[i].nuid = IdOf(evs[i].c, evs[i].v, xcall)
\* (action properties, checked as invariants over the pair (state, its last reception))
\* every event carries the carrier, the identifier and the programme label / time of the very reception that raised it
OfThisReception == [][\A i \in 1..Len(evs') :
                        \/ evs'[i].c = "revert"
                        \/ /\ lastAct'.a = "Idle" /\ evs'[i].c = "cd" /\ evs'[i].t = "NETWORK"
                        \/ /\ lastAct'.a = "Wss" /\ evs'[i].t = "ASPECT" /\ evs'[i].v = lastAct'.w
                        \/ /\ lastAct'.a = "Recv" /\ evs'[i].c = lastAct'.c /\ evs'[i].v = lastAct'.v
                           /\ evs'[i].t \in {"PROG_ID", "LOCAL_TIME"} => evs'[i].l = lastAct'.l /\ evs'[i].l # "bad"
                           /\ evs'[i].t = "PROG_ID" => evs'[i].c \in {"vps", "p2"}
                           /\ evs'[i].t = "LOCAL_TIME" => evs'[i].c = "p1"]_vars
\* an identifier is announced only on a reception that repeats the previous one of its carrier
OnlyAfterRepeat == [][\A i \in 1..Len(evs') : (evs'[i].t \in NetTypes /\ evs'[i].c # "cd") =>
                        /\ lastAct'.a = "Recv" /\ prev[lastAct'.c] = lastAct'.v /\ evs'[i].v = lastAct'.v]_vars
\* a VPS programme label (no error protection) is announced only when the same label was received before with this CNI
VpsLabelTwice == [][\A i \in 1..Len(evs') : (evs'[i].t = "PROG_ID" /\ evs'[i].c = "vps") =>
                        /\ prev["vps"] = evs'[i].v /\ evs'[i].l \in vseen]_vars
\* a network event means the identified station changed, and there is at most one per change
NetworkMeansChange == [][Len(Net(evs')) > 0 => nuid' # nuid]_vars
OneNetworkEvent    == [][Len(Net(evs')) <= 1]_vars
\* no listener is told the station it was told last
NotAgainWhileSame  == [][\A i \in 1..Len(evs') : evs'[i].t = "NETWORK" => evs'[i].nuid # ann]_vars
\* registrations: the identified station, the repeat state and the cache survive unless a network event type was NEWLY
\* activated; no registration raises an event
StationKept == [][lastAct'.a \in {"Register", "Unregister"} =>
                    /\ evs' = <<>> /\ cache' = cache
                    /\ ~NewNet(emask, MaskOf(hmask')) => UNCHANGED <<last, cycle, nuid, xcall, ann>>]_vars
\* the cache is dropped only when the identified station changes, and then it is dropped
\* (or when the drop-out countdown expires - the statement leaves open what a drop-out alone does)
Fired == lastAct'.a = "Idle" /\ cd > 0 /\ cd' = 0
CacheKept    == [][(cache /\ ~cache') => ((lastAct'.a = "Recv" /\ nuid' # nuid /\ nuid # "0") \/ Fired)]_vars
CacheDropped == [][(lastAct'.a = "Recv" /\ nuid # "0" /\ nuid' # nuid) => ~cache']_vars
\* programme label and local time are decoded for listeners only
Gated == [][\A i \in 1..Len(evs') : evs'[i].t \in {"PROG_ID", "LOCAL_TIME"} => evs'[i].t \in emask]_vars
\* a single deviating reception never announces the deviating value: it is never a repeat
\* (covered by OnlyAfterRepeat); and after v v w v v the station is still v without NETWORK event
\* WSS: announced only with valid parity, after at least three identical repeats, not again while unchanged
WssOnlyAfterRepeats == [][\A i \in 1..Len(evs') : (evs'[i].t = "ASPECT" /\ evs'[i].c # "revert") =>
                            /\ lastAct'.a = "Wss" /\ lastAct'.w # "bad" /\ wrun' >= 4
                            /\ evs'[i].cni = AspectOf(lastAct'.w) /\ aspect # aspect']_vars
\* the announced aspect ratio is withdrawn only together with a change of the identified station, once
AspectRevertOnlyOnChange == [][\A i \in 1..Len(evs') : evs'[i].c = "revert" =>
                                 /\ (nuid' # nuid /\ nuid # "0") \/ Fired
                                 /\ aspect # "init" /\ aspect' = "init" /\ ~cache']_vars
\* Across gaps in the time stamps.  A jump alone raises nothing and keeps station, repeat state and cache; a drop-out event
\* (NETWORK without station) is raised only by the expiring countdown, names no station, and the countdown expires only
\* after CdLen regular frames in which no station change was announced: a change of the identified station after a gap is
\* announced by ONE network event and drops the cache once - the drop-out it explains does not reset the decoder again.
GapKeeps   == [][lastAct'.a = "Gap" => evs' = <<>> /\ cache' = cache /\ UNCHANGED <<last, cycle, nuid, vpid, ann, aspect>>]_vars
DropOutAct == /\ Fired => (~gap.chg /\ gap'.fr >= CdLen)
              /\ (lastAct'.a = "Idle" /\ ~Fired) => (evs' = <<>> /\ cache' = cache /\ UNCHANGED <<last, cycle, nuid>>)
              /\ \A i \in 1..Len(evs') : evs'[i].c = "cd" => (Fired /\ nuid # "0" /\ nuid' = "0")
DropOutOnce == [][DropOutAct]_vars
\* XDS alone: when the same name keeps arriving (three receptions with no other XDS change in between) the identified
\* station is the transmitted one - a change of the call letters under an unchanged name is announced too
XdsSettles == (Carriers = {"xds"} /\ xrun >= 3) => nuid = XId(xcall, prev["xds"])
TypeOK == /\ cycle \in 0..3 /\ wrep \in 0..3 /\ cd \in 0..CdLen /\ \A h \in Handlers : hmask[h] \subseteq Types
          /\ \A h \in Handlers : (hmask[h] # {}) <=> (\E i \in 1..Len(horder) : horder[i] = h)
=============================================================================
