CONSTANTS K = 39 NP = 3 Sizes = {0, 1, 2, 34, 37, 40, 77, 300} Fills = {0, 1, 2} MaxBlocks = 3 Faults = {"none", "drop", "badbp"} TailCheck = TRUE Foreign = {"none", "page", "stream", "mag"} TailAtForeign = TRUE
SPECIFICATION GSpec
CONSTRAINT Dump
CHECK_DEADLOCK FALSE
