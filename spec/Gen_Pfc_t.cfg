CONSTANTS CiStart = 14 K = 39 NP = 3 Sizes = {1, 34, 37, 40, 77, 300} Fills = {0, 2} MaxBlocks = 3 Faults = {"none", "drop", "err2"} Units = {"bp"} Policies = {"strict"} UnitBlocks = 3 TailCheck = TRUE Foreign = {"none", "page", "stream", "mag"} TailAtForeign = TRUE Noise = {0} NoisePos = {"all"} NoiseFaults = {"none"}
SPECIFICATION GLeapSpec
CONSTRAINT Dump
INVARIANTS Sound Complete Resume
CHECK_DEADLOCK FALSE
