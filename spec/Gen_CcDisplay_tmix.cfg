\* the caption and the text channel of one data channel (CC3, T3 on field 2): mode commands switch between them, EDM / ENM in text
\* mode act on the caption and do not end text mode
CONSTANTS Chans = {3, 7} Rows = {14} Chars = {65} MaxPairs = 5
  Indents = {0} Depths = {2} Tabs = {1}
  Kinds = {"RTD", "TR", "RCL", "EOC", "RU", "EDM", "ENM", "CR", "TEXT"}
  Beyond = {}
  Mix <- NoMix Bursts <- NoBurst
SPECIFICATION GSpec
VIEW gview2
ACTION_CONSTRAINT TDump
CHECK_DEADLOCK FALSE
