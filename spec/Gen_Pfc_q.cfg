CONSTANTS CiStart = 15 K = 39 NP = 2 Sizes = {0, 1, 33, 34, 35, 38, 73} Fills = {0, 1, 2} MaxBlocks = 2 Faults = {"none", "drop", "err2"} Units = {"bp"} Policies = {"strict"} UnitBlocks = 2 TailCheck = TRUE Foreign = {"none", "page"} TailAtForeign = TRUE Noise = {0} NoisePos = {"all"} NoiseFaults = {"none"}
SPECIFICATION GLeapSpec
CONSTRAINT Dump
INVARIANTS Sound Complete Resume
CHECK_DEADLOCK FALSE
