CONSTANTS K = 39 NP = 2 Sizes = {0, 1, 33, 34, 35, 38, 73} Fills = {0, 1, 2} MaxBlocks = 2 Faults = {"none", "drop", "badbp"} TailCheck = TRUE Foreign = {"none", "page"} TailAtForeign = TRUE
SPECIFICATION GSpec
CONSTRAINT Dump
CHECK_DEADLOCK FALSE
