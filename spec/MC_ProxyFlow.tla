---------------------------- MODULE MC_ProxyFlow ----------------------------
(* model values for ProxyFlow: the witnesses' service sets (functions cannot be written in a .cfg) *)
EXTENDS ProxyFlow
\* client 2 takes service "a", every other witness everything: different, overlapping sets
MCWSrv == [c \in Clients |-> IF c = 2 THEN {"a"} ELSE Services]
=============================================================================
