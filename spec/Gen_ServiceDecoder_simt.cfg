CONSTANTS
  Mags = {1, 2} PageSet <- PagesG Rows = {1, 2, 3, 4, 5, 6} Cids = {1, 2, 3} Flofs = {1} SysPages <- SysG SpecialPages <- SpecialG DesyncPages = {496} InertPages = {509, 510, 766, 487}
  HFlags = {"none", "subt", "inhibit"}
  Nats = {0} X26Dc <- DcAll X26Good = {13, 5} ExtPk = {27, 28, 29} ExtDc = {0, 4, 15}
  NK = 4 KeyCls <- Cls4 KeyTyp <- Typ4 Bytes = {64, 65} L = 32 ErrPairs <- ErrS
  Carriers = {"vps", "p1", "p2"} Vals = {"a", "b", "u"} WssWords = {"x", "y", "bad"}
  Fns = {0, 1} Uds = {0, 1} Types <- TypesAll Masks <- MasksG
  CcChans = {1, 2, 3, 4}
  CcKinds = {"RCL", "RDC", "EOC", "EDM", "ENM", "CR", "BS", "DER", "FON", "TR", "RTD", "BGA", "MID", "SPC", "EXT", "OPT", "RU", "TO", "PAC"}
  CcRows = {0, 14} CcChars = {60, 65, 32}
  FetchPages <- FetchG FetchSubs = {1, 16255} FetchLv = {0, 1, 2, 3} FetchNav = {TRUE, FALSE} SearchPages = {256, 2303}
  Modules = {"text", "html", "png", "ppm", "xpm", "vtx", "tmpl", "nosuch"}
  Regions = {0, 1, 2, 3, 4} Patterns = {0, 1, 2, 3, 4, 5} CcPages = {0, 1, 2, 3, 4, 5, 6, 7, 8, 9} Levels <- LevelsAll RegionVals = {0, 16, 32, 80, 87, 99}
  ArbKinds = {"ttx", "cc1", "cc2", "vps", "wss", "cpr", "foreign", "mixed"} DtSet = {"reg", "same", "back", "jump"}
  ProgOn = TRUE ProgN26 = {0, 2, 15, 16, 17} ItvLens = {10, 130} MaxLines = 4 MaxSteps = 2000
SPECIFICATION SimSpec
INVARIANT SimDump
CHECK_DEADLOCK FALSE
