CONSTANTS Mags = {1, 2} Pages <- PagesA Rows = {1, 24} Cids = {1, 2} Flofs = {1} FaultKinds = {"hpage", "hctrl", "rpar", "mrag"} MaxFaults = 2 MaxPk = 6
SPECIFICATION Spec
CONSTRAINT Bounded
INVARIANTS OneVersion OnlyTransmitted
PROPERTIES KeepsRows BadRowContained
CHECK_DEADLOCK FALSE
