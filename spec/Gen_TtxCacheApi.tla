-------------------------- MODULE Gen_TtxCacheApi --------------------------
(* behaviours of TtxCacheApi with the result of every look-up and, after every action, the observations that do not
   disturb the order of use (vbi_cache_hi_subno and the wildcard vbi_is_cached of every page) *)
EXTENDS TtxCacheApi, Json
VARIABLE hist
gvars == <<vars, hist>>
gview == vars
GInit == Init /\ hist = <<>>
GNext == nops < MaxOps /\ Next
         /\ hist' = Append(hist, [act |-> lastAct', res |-> res',
                                  obs |-> [p \in Pages |-> [any |-> \E s \in Subs : <<p, s>> \in cached', hi |-> hi'[p]]]])
GSpec == GInit /\ [][GNext]_gvars
Dump == nops = MaxOps => PrintT(<<"TR", ToJson(hist)>>)
=============================================================================
