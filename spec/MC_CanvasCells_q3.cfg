CONSTANTS Pages <- EdgePagesQ Formats = {"PAL8", "YUV420"} Strides = {"any"} MaxDraws = 1 Clip = "region"
SPECIFICATION Spec
INVARIANTS Faithful MarginUntouched
PROPERTIES Frame NothingIfUnsupported ImplementsPost
CHECK_DEADLOCK FALSE
