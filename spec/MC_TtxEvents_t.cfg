CONSTANTS Fns = {1, 2} Uds = {1, 2} Types = {"ttx", "net"} Masks <- M2 MaxTop = 4 MaxNested = 2 FixUp = TRUE MaxProbe = 0 ResetOnActivate = TRUE
SPECIFICATION Spec
INVARIANTS NoDangling OnceInOrder AllCalled OnlyRegistered Acquire ListOK
CHECK_DEADLOCK FALSE
