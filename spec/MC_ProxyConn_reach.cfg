CONSTANTS Clients = {1, 2} Prios = {1, 2} FixTokenOwner = TRUE FixFlushClosed = TRUE FixRegrant = TRUE
  FixHdrLen = TRUE FixPartial = TRUE
SPECIFICATION CSpec
PROPERTIES NeverDroppedWithToken
CHECK_DEADLOCK FALSE
