SPECIFICATION TSpec
POSTCONDITION TraceAccepted
CHECK_DEADLOCK FALSE
