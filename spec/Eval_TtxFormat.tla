--------------------------- MODULE Eval_TtxFormat ---------------------------
(* Evaluates the Level 1 presentation (TtxFormatL1) of a library of rows: TLC is the formatter
   of the checks, there is no second formatter in Python or C.  RowLib comes from the generated
   module RowLib (written by the check into its scratch directory). *)
EXTENDS TtxFormatL1, RowLib, Json, TLC
VARIABLE x
Cells(s) == [i \in 1..Len(s) |-> <<s[i].u, s[i].fg, s[i].bg, IF s[i].fl THEN 1 ELSE 0, IF s[i].cn THEN 1 ELSE 0, s[i].sz>>]
Entry(k, nat) == [k |-> k, nat |-> nat, cells |-> Cells(FormatRow(RowLib[k], nat)),
                  dh |-> HasDouble(RowLib[k], nat), lower |-> Cells(LowerRow(RowLib[k], nat))]
Init == x = 0 /\ \A k \in 1..Len(RowLib) : \A nat \in {0, 1} : PrintT(<<"TR", ToJson(Entry(k, nat))>>)
Next == FALSE /\ x' = x
=============================================================================
