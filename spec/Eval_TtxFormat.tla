--------------------------- MODULE Eval_TtxFormat ---------------------------
(* Evaluates the Level 1 presentation (TtxFormatL1) of a library of rows: TLC is the formatter
   of the checks, there is no second formatter in Python or C.  RowLib comes from the generated
   module RowLib (written by the check into its scratch directory). *)
EXTENDS TtxFormatL1, RowLib, Json, TLC
VARIABLE x
Cells(s) == [i \in 1..Len(s) |-> <<s[i].u, s[i].fg, s[i].bg, IF s[i].fl THEN 1 ELSE 0, IF s[i].cn THEN 1 ELSE 0, s[i].sz,
                                   IF s[i].bx THEN 1 ELSE 0>>]
\* amb: a double height / double size attribute is transmitted but governs no cell (e.g. in column 39, or followed by normal
\* size at once): whether the row below is then displayed is left open by 12.2 - the checks do not transmit such rows
Entry(k, nat) == LET up == FormatRow(RowLib[k], nat)  tall == TallIn(up) IN
                 [k |-> k, nat |-> nat, cells |-> Cells(up), dh |-> tall, sized |-> SizedIn(up),
                  amb |-> (\E i \in 1..40 : RowLib[k][i] \in {13, 15}) /\ ~tall, lower |-> Cells(LowerOf(up))]
Init == x = 0 /\ \A k \in 1..Len(RowLib) : \A nat \in {0, 1} : PrintT(<<"TR", ToJson(Entry(k, nat))>>)
Next == FALSE /\ x' = x
=============================================================================
