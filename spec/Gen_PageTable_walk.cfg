CONSTANTS MinPg = 256 MaxPg = 2303 MaxSub = 16254 Depth = 24
  PagePts <- RealPagePts SubPts <- RealSubPts BadPages <- RealBadPages BadSubs <- RealBadSubs
SPECIFICATION RSpec
CONSTRAINT DumpWalk
CHECK_DEADLOCK FALSE
