\* random walks along the right edge: indents 20..28, tab offsets, BS / DER, rows written up to and beyond column 32
CONSTANTS Chans = {2, 3} Rows = {0, 13, 14} Chars = {65, 98, 32} MaxPairs = 30
  Indents = {20, 24, 28} Depths = {2, 3, 4} Tabs = {1, 2, 3}
  Kinds = {"RCL", "RDC", "EOC", "EDM", "ENM", "CR", "BS", "DER", "RU", "TO", "PAC", "PACX", "MID", "SPC", "NULL", "TEXT"}
  Beyond = {}
  Mix <- MixEdge Bursts <- BurstsWalk
SPECIFICATION GSpec
INVARIANT Dump
CHECK_DEADLOCK FALSE
