CONSTANTS Mags = {1} Pages <- PagesOne1 Rows = {1} Cids = {1} Nats = {0} Flofs = {} Progs <- ProgsAll
          HdrFaults = {} RowFaults = {} PktFaults = {} TripFaults = {} FlofFaults <- NoFlofFaults MaxFaults = 0 MaxPk = 1
SPECIFICATION Spec
CONSTRAINT Bounded
INVARIANTS RuleTriplet
CHECK_DEADLOCK FALSE
