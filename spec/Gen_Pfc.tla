------------------------------ MODULE Gen_Pfc ------------------------------
(* Transmissions for the PFC driver: for every block list and fault the items as transmitted
   and the blocks the specification delivers after each item. *)
EXTENDS Pfc, Json
VARIABLE hist
gvars == <<vars, hist>>
GInit == Init /\ hist = <<>>
GNext == Next /\ hist' = Append(hist, SubSeq(out', Len(out) + 1, Len(out')))
GSpec == GInit /\ [][GNext]_gvars
Dump == Done => PrintT(<<"TR", ToJson([items |-> items, fault |-> fault, fgn |-> fgn, outs |-> hist])>>)
=============================================================================
