------------------------------ MODULE Gen_Pfc ------------------------------
(* Transmissions for the PFC driver: for every block list and fault the items as transmitted and, for each receiver
   policy the statement admits, the blocks the specification delivers after each item (alts; the policies differ
   for err2 faults only).  The generator configurations run with Policies = {"strict"}: pol is the first policy. *)
EXTENDS Pfc, Json
VARIABLE hist
gvars == <<vars, hist>>
GInit == Init /\ hist = <<>>
\* all items at once (Pfc!Leap)
GLeap == /\ pos <= Len(items)
         /\ LET res == RunAll(rx, pos, out, <<>>, pol)
            IN /\ rx' = res.rx /\ out' = res.out
               /\ hist' = IF fault.k = "err2" THEN <<res.hist, RunAll(rx, pos, out, <<>>, "lenient").hist>> ELSE <<res.hist>>
         /\ pos' = Len(items) + 1 /\ UNCHANGED <<blocks, fault, fgn, nz, pol, items, aux>>
GLeapSpec == GInit /\ [][GLeap]_gvars
Dump == Done => PrintT(<<"TR", ToJson([items |-> items, fault |-> fault, fgn |-> fgn, nz |-> nz, alts |-> hist])>>)
=============================================================================
