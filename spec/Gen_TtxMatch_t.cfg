CONSTANTS MaxExh = 4 SampleSizes = {5, 6, 7, 8} NNext = 2500 NSample = 600 NPre = 100000 NLi = 100000 FoldAllMax = 8
  NCaches = 24 CachesPer = 1 Cap = 8 NChunks = 64
SPECIFICATION Spec
CONSTRAINT Dump
CHECK_DEADLOCK FALSE
