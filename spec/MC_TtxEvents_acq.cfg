CONSTANTS Fns = {1, 2} Uds = {1} Types = {"ttx", "net"} Masks <- M2 MaxTop = 4 MaxNested = 1 FixUp = TRUE MaxProbe = 1 ResetOnActivate = TRUE
SPECIFICATION Spec
INVARIANTS NoDangling OnceInOrder AllCalled OnlyRegistered Acquire ListOK
PROPERTIES AcquireExact
CHECK_DEADLOCK FALSE
