--------------------------- MODULE MC_SlicedFilter ---------------------------
EXTENDS SlicedFilter
FBadSubs == {16256}
(* the result record of the last call does not influence the future *)
fview == <<pt, svc, sys, serial, keep, start, hist, frame, out, failAt, stale, nconf, nframes>>
=============================================================================
