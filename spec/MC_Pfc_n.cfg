CONSTANTS CiStart = 14 K = 6 NP = 2 Sizes = {0, 1, 2, 4, 7} Fills = {0, 1, 2} MaxBlocks = 2 Faults = {"none", "drop"} Units = {"bp"} Policies = {"strict", "lenient"} UnitBlocks = 2 TailCheck = TRUE Foreign = {"none", "page", "mag"} TailAtForeign = TRUE Noise = {0, 26, 27, 28, 29, 30, 31, 101, 125, 126, 127, 128, 129, 130, 131} NoisePos = {"all", "one"} NoiseFaults = {"none", "drop"}
SPECIFICATION LeapSpec
INVARIANTS Sound Complete Resume NoiseNeutral
CHECK_DEADLOCK FALSE
