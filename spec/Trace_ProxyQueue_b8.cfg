CONSTANTS Clients = {1,2,3,4,5,6,7,8,9,10,11,12,13,14,15,16,17,18,19,20,21,22,23,24,25,26,27,28,29,30,31,32,33,34,35,36,37,38,39,40}
  Services = {"ttx", "vps", "cc", "wss", "x"} Supported = {"ttx", "vps", "cc", "wss"} Base = 8 S = 100000 MaxFrames = 1000000
  Threaded = FALSE LevelsUsed = {0, 1, 2, 3} Discards = {FALSE, TRUE}
  Faulty = {1,2,3,4,5,6,7,8,9,10,11,12,13,14,15,16,17,18,19,20,21,22,23,24,25,26,27,28,29,30,31,32,33,34,35,36,37,38,39,40}
SPECIFICATION TSpec
INVARIANTS RefCount CursorOK QueueOrder Buffers Delivery InOrder DeviceOpen CanCapture
PROPERTIES Filtered LossOnlyWhenFull
POSTCONDITION TraceAccepted
CHECK_DEADLOCK FALSE
