------------------------------ MODULE TtxFlof ------------------------------
(* Editorial (FLOF) links of packet X/27/0 and the display of row 24 (EN 300 706 9.6.1, 9.6.2 and
   Annex J), as the property C02 states it: "the transmitted page and subpage number and its FLOF
   links"; the decoder under test is parse_27() / unham_page_link() in src/packet.c and
   vbi_format_vt_page() with navigation (flof_links, flof_navigation_bar) in src/teletext.c.

   X/27/0 carries six links.  A link is transmitted as page units, page tens, subcode S1..S4 and
   three RELATIVE magazine bits M1 M2 M3: "the magazine number of the linked page is the magazine
   number of the packet (its address bits, magazine 8 = 000) with the bits M1-M3 that are set to 1
   complemented" (9.6.1), i.e. address bits XOR relative bits, 000 = magazine 8.  Page number FF
   (units = tens = F) is "no page specified", canonically with subcode 3F7F; a valid page number
   with subcode 3F7F links to the page without naming a subpage.  Links 0..3 are the red, green,
   yellow and cyan link, link 4 is not used by Level 1 / 1.5 decoders, link 5 is the index link.

   Pure operators (no state): Eval_TtxFlof prints the link sets the checks transmit and the links
   a fetch with navigation must return, for every magazine 1..8 of the linking page. *)
EXTENDS Naturals, Sequences

Bit(x, i) == (x \div (2 ^ i)) % 2
Xor3(a, b) == ((Bit(a, 0) + Bit(b, 0)) % 2) + 2 * ((Bit(a, 1) + Bit(b, 1)) % 2) + 4 * ((Bit(a, 2) + Bit(b, 2)) % 2)

AnySub == 16255                                    \* 3F7F

\* magazine (1..8) a link of a page of magazine M (1..8) points into; rel = M1 + 2 M2 + 4 M3
LinkMag(M, rel) == LET x == Xor3(M % 8, rel) IN IF x = 0 THEN 8 ELSE x
NoPage(l) == l.units = 15 /\ l.tens = 15
\* the link a decoder must offer: page number 0 = no link
Target(M, l) == IF NoPage(l) THEN [pg |-> 0, sub |-> 0]
                ELSE [pg |-> (LinkMag(M, l.rel) * 256) + (l.tens * 16) + l.units, sub |-> l.sub]

-----------------------------------------------------------------------------
(* The link sets of the checks: set id f (TtxAssembly!Flofs) x variant v (chosen per transmission by
   the concretisation).  Link k of set (f, v) has the relative magazine bits (v + k) % 8 (f = 1) or
   (v + 3k + 2) % 8 (f = 2): over v = 0..7 and both sets every link position points into the own (rel = 0) and into
   each of the seven other magazines, for whatever magazine the page is in.  Page numbers are
   decimal (the property speaks of pages 100-899), link 4 of set 1 and a moving position of both
   sets are "no page": FF with 3F7F in set 1, FF with another subcode in set 2. *)
Variants == 0..7
NoneAt(f, v) == IF f = 1 THEN {4} \cup (IF v % 2 = 1 THEN {v \div 2} ELSE {})
                ELSE (IF v % 4 = 2 THEN {5} ELSE IF v % 4 = 0 THEN {v \div 4} ELSE {})
RawLink(f, v, k) ==
  IF k \in NoneAt(f, v) THEN [units |-> 15, tens |-> 15, rel |-> IF f = 1 THEN 0 ELSE (v + k) % 8, sub |-> IF f = 1 THEN AnySub ELSE k + 1]
  ELSE [units |-> ((3 * v) + k + f) % 10, tens |-> (v + (2 * k) + f) % 10,
        rel |-> IF f = 1 THEN (v + k) % 8 ELSE (v + (3 * k) + 2) % 8,
        sub |-> IF (v + k + f) % 3 = 0 THEN AnySub ELSE ((k + 1) * 16) + ((v + f) % 10)]
LinkSet(f, v) == [k \in 0..5 |-> RawLink(f, v, k)]

\* every position reaches every magazine, from every magazine; relative bits 000 and only they stay in the magazine
CoversAllMagazines ==
  \A M \in 1..8 : /\ {LinkMag(M, rel) : rel \in 0..7} = 1..8
                  /\ \A rel \in 0..7 : (LinkMag(M, rel) = M) <=> (rel = 0)
                  /\ \A k \in {0, 1, 2, 3, 5} :
                        1..8 \subseteq {Target(M, RawLink(f, v, k)).pg \div 256 : v \in Variants, f \in {1, 2}}

-----------------------------------------------------------------------------
(* Row 24 of the displayed page.  A fetch asks for 24 or 25 display rows, with or without navigation.
   c24 = content of the row 24 the stored version holds (0 = none was ever transmitted for it, or it
   was erased), flof = the version holds an X/27/0 (link control: row 24 displayed).
     "absent"  24 display rows: there is no row 24
     "own"     a transmitted row 24 is displayed as transmitted - also a row 24 kept from an earlier
               transmission of the page ("rows not retransmitted keep their previous content")
     "blank"   nothing transmitted, navigation off
     "open"    NAMED EXCLUSION GeneratedRow24: nothing transmitted, navigation on - the decoder may
               generate a row 24 by itself (libzvbi: the FLOF link numbers, a TOP bar): not compared *)
Row24(c24, flof, nrows, nav) ==
  IF nrows < 25 THEN "absent" ELSE IF c24 # 0 THEN "own" ELSE IF nav THEN "open" ELSE "blank"
=============================================================================
