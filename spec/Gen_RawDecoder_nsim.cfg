CONSTANTS Images <- RandImages Scanning = 525 Use <- UseNtsc Geoms <- GeomsNtsc AddSets <- AddNtsc RateCfgs <- GenRates Apis = {"new", "old"}
  Stricts = {0, 1, 2} Ways = 8 MaxJobs = 8 MaxCalls = 6 MaxDecodes = 8 MaxCarried = 4 MaxDepth = 11 ShortOut = TRUE Fixed = TRUE SampleN = 1
SPECIFICATION GSpec
INVARIANT SimDump
CHECK_DEADLOCK FALSE
