CONSTANTS PesResync = FALSE HdlVal = 5 MinPL = 27 TtxN = 2 VpsN = 1 TSP = 11 HL = 17 TSH = 10 MaxLines = 64
  Streams <- StreamsT CorLines = {1, 2, 64}
SPECIFICATION Spec
INVARIANTS PartitionInvariance OnePiece RecoveryClaimed NoLookaheadOverrun Consumed
CHECK_DEADLOCK FALSE
