----------------------------- MODULE Trace_Xds -----------------------------
(* Trace validation for Xds: the log holds, per received pair, the abstract action with its
   arguments and what the real code made observable (deliveries of vbi_xds_demux_feed, or
   the programme description texts and PROG_INFO counts of the service decoder).  Every
   invariant of Xds is evaluated in every state of the recorded execution. *)
EXTENDS MC_Xds, Json, IOUtils

Log == ndJsonDeserialize(IOEnv.TRACEFILE)
VARIABLE l
tvars == <<vars, l>>

Ev == Log[l]
Has(f) == f \in DOMAIN Ev
EvCnt(c) == Cardinality({i \in 1..Len(evs') : evs'[i] = c})

Observed ==
  /\ Has("d")    => SubSeq(out', Len(out) + 1, Len(out')) = Ev.d
  /\ Has("info") => info' = Ev.info
  /\ Has("evs")  => <<EvCnt(0), EvCnt(1)>> = Ev.evs

TReset == /\ Ev.a = "Reset"
          /\ cnt' = [k \in Keys |-> 0] /\ buf' = [k \in Keys |-> [i \in 0..(L + 1) |-> 0]]
          /\ chk' = [k \in Keys |-> 0] /\ cur' = NoKey /\ out' = <<>> /\ maxidx' = -1
          /\ tx' = [k \in Keys |-> Closed] /\ txcur' = NoKey /\ ref' = <<>>
          /\ info' = [k \in Keys |-> <<>>] /\ cyc' = [c \in 0..3 |-> {}] /\ evs' = <<>>
          /\ nev' = 0 /\ lastAct' = [a |-> "init"]

TNext == /\ l <= Len(Log) /\ l' = l + 1
         /\ \/ TReset
            \/ Ev.a = "Start" /\ Header(Ev.k, TRUE) /\ Observed
            \/ Ev.a = "Cont" /\ Header(Ev.k, FALSE) /\ Observed
            \/ Ev.a = "Data" /\ Data(Ev.b1, Ev.b2) /\ Observed
            \/ Ev.a = "End" /\ EndC(Ev.c) /\ Observed
            \/ Ev.a = "Caption" /\ Caption /\ Observed
            \/ Ev.a = "Null" /\ Null /\ Observed
            \/ Ev.a = "Error" /\ Error(Ev.b1, Ev.b2) /\ Observed

TInit == Init /\ l = 1
TSpec == TInit /\ [][TNext]_tvars

TraceAccepted == LET n == TLCGet("stats").diameter - 1 IN
                 IF n = Len(Log) THEN TRUE
                 ELSE PrintT(<<"TV-REJECT", n + 1, Len(Log)>>) /\ FALSE
=============================================================================
