CONSTANTS Clients = {1, 2, 3} Prios = {1, 2} FixTokenOwner = FALSE FixFlushClosed = TRUE FixRegrant = TRUE
SPECIFICATION Spec
INVARIANTS TypeOK SingleOwner NoCrash
CHECK_DEADLOCK FALSE
