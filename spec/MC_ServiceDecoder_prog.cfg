\* the transmission programmes alone: full X/26 sets (16 and 17 packets), XDS packets of 1, 15, 16, 17 pairs
CONSTANTS
  Mags = {1} PageSet <- PagesP Rows = {1} Cids = {1} Flofs = {} SysPages = {} SpecialPages = {} DesyncPages = {} InertPages = {} HFlags = {"none"}
  Nats = {} X26Dc = {} X26Good = {} ExtPk = {} ExtDc = {}
  NK = 1 KeyCls <- Cls1 KeyTyp <- Typ1 Bytes = {64} L = 32 ErrPairs = {}
  Carriers = {} Vals = {} WssWords = {}
  Fns = {0} Uds = {0} Types <- TypesAll Masks <- NoMasks
  CcChans = {} CcKinds = {"TR", "CR"} CcRows = {} CcChars = {65}
  FetchPages = {} FetchSubs = {} FetchLv = {} FetchNav = {} SearchPages = {} Modules = {} Regions = {} Patterns = {} CcPages = {} Levels = {} RegionVals = {}
  ArbKinds = {} DtSet = {"reg"} ProgOn = FALSE ProgN26 = {15, 16, 17} ItvLens = {130} MaxLines = 4 MaxSteps = 60
SPECIFICATION SpecProg
VIEW mcview
CONSTRAINT ProgOnly
\* run with -continue: the bound invariants must hold, the three Reach* vacuity guards must be violated
INVARIANTS TypeOK TripletBound XdsBound CursorOK ItvBound CacheBound HandlersOK FrameOK SureKnows ReachTripletLimit ReachTripletReject ReachXdsLimit ReachItvLimit
CHECK_DEADLOCK FALSE
