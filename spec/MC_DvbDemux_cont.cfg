CONSTANTS HdlVal = 5 MinPL = 27 TtxN = 2 VpsN = 1 TSP = 11 HL = 17 TSH = 10 MaxLines = 64
  Streams <- StreamsNil RecStreams <- RecAll CorLines = {} Policies = {"all"} RecMode = "std"
  CcStarts = {0, 1, 2, 3, 4, 5, 6, 7, 8, 9, 10, 11, 12, 13, 14, 15}
SPECIFICATION Spec
INVARIANTS DupTransparent LossBounded PartitionInvariance NoLookaheadOverrun
CHECK_DEADLOCK FALSE
