CONSTANTS PageM <- Page53 Formats = {"RGBA32_LE", "PAL8", "YUV420"} Strides = {"exact", "plus5"} MaxDraws = 2 Clip = TRUE
SPECIFICATION Spec
INVARIANTS Faithful
PROPERTIES Frame NothingIfUnsupported ImplementsPost
CHECK_DEADLOCK FALSE
