CONSTANTS NK = 2 KeyCls <- Cls2 KeyTyp <- Typ2 Bytes = {64, 65} L = 3 MaxEv = 7 ErrPairs <- ErrAll HalfGuard = FALSE
SPECIFICATION Spec
CONSTRAINT Bounded
INVARIANTS TypeOK Delivered InBounds LengthOK NoCross CurAgree InfoOK EvOK
CHECK_DEADLOCK FALSE
