CONSTANTS Formats = {0, 2, 4, 6, 8, 10, 12, 14} SpaLens = {0, 1, 2, 3, 4, 5, 6} StartCi = {0, 254} PayCi = {0, 9, 254, 255} ForeignLens = {1, 2, 3, 6} Bursts = {2, 16, 240, 255} MaxPk = 4
  Modes = {"unit", "pay", "mix"} ContFull = FALSE
  Listen <- ListenT
  Pays <- PaysT
SPECIFICATION GSpec
VIEW gview
CONSTRAINT Dump
PROPERTIES FlagOnlyAfterLoss FlagAfterLoss NothingForeign DeliveredIff DepPassed MixNeutral
CHECK_DEADLOCK FALSE
