CONSTANTS Formats = {0, 2, 4, 6, 8, 10, 12, 14} SpaLens = {0, 2, 3, 6} StartCi = {0, 254} PayCi = {0} ForeignLens = {2, 3} Bursts = {2, 16, 240, 255} MaxPk = 4
  Modes = {"cont"} ContFull = FALSE
  Listen <- ListenQ
  Pays <- SpecialPays
SPECIFICATION GSpec
VIEW gview
CONSTRAINT Dump
PROPERTIES FlagOnlyAfterLoss FlagAfterLoss NothingForeign DeliveredIff DepPassed
CHECK_DEADLOCK FALSE
