\* long random walks in one text channel (T2, field 1): carriage returns down the window and on its last row, text rolling up
CONSTANTS Chans = {6} Rows = {3} Chars = {65, 98, 32} MaxPairs = 60
  Indents = {0, 4, 28} Depths = {2} Tabs = {1, 3}
  Kinds = {"CR", "BS", "DER", "TO", "PAC", "PACX", "MID", "SPC", "NULL", "TEXT", "FON", "BAO", "TR", "RTD"}
  Beyond = {}
  Mix <- MixTextDeep Bursts <- BurstsWalk
SPECIFICATION GSpec
INVARIANT Dump
CHECK_DEADLOCK FALSE
