CONSTANTS Clients = {1,2,3,4,5,6,7,8,9,10,11,12,13,14,15,16,17,18,19,20,21,22,23,24,25,26,27,28,29,30,31,32,33,34,35,36,37,38,39,40}
  Prios = {1, 2, 3} FixTokenOwner = TRUE FixFlushClosed = TRUE FixRegrant = TRUE FixHdrLen = TRUE FixPartial = TRUE
SPECIFICATION TSpec
INVARIANTS SingleOwner NoCrash OneHolder HolderIsOwner Released ListOK
POSTCONDITION TraceAccepted
CHECK_DEADLOCK FALSE
