----------------------------- MODULE ExportText -----------------------------
(* Text clause of property C16: the characters the text export module and vbi_print_page_region (table
   mode) must deliver for a formatted page, written from the documentation:

   * format.h, vbi_char.unicode / vbi_size: a cell holds a UCS-2 code; private codes stand for what Unicode
     cannot express (U+E600..U+E7FF Arabic, U+E800 Turkish currency, U+EE00..U+EFFF G1/G3 mosaics and line
     drawing, U+F000.. DRCS); cells of size OVER_TOP, OVER_BOTTOM, DOUBLE_HEIGHT2, DOUBLE_SIZE2 repeat the code
     of their top/left anchor and "can be safely ignored when scanning the page";
   * lang.h, vbi_is_print / vbi_is_gfx / vbi_is_drcs: printable = below U+E600, graphics = U+EE00..U+EFFF;
   * exp-txt.c, option gfx_chr: "Replacement for block graphic characters"; the module prints the page row
     by row, each row terminated by a line feed; with terminal control codes the right / lower-right parts
     of double width / double size characters are not printed (the terminal doubles the anchor);
   * vbi_print_page_region: "rows separated by linefeeds", table mode prints "all characters within the
     source rectangle"; "Graphics characters, DRCS and all characters not representable in the target format
     will be replaced by spaces" - what is printed are the page's printable characters (vbi_is_print), every other
     code (mosaics, line drawing, DRCS, the private Arabic and Turkish codes) is a space.

   A page is [rows, cols, u, sz] with u and sz row-major sequences (code, vbi_size value).  Unrepr is the set
   of codes the requested character encoding cannot represent (taken from the C library's iconv by the
   recorder, see Trace_ExportText).                                                                     *)
EXTENDS Naturals, Sequences, FiniteSets

Space == 32
LF == 10
IsPrint(u) == u < 58880                        \* 0xE600
IsGfx(u) == u >= 60928 /\ u <= 61439           \* 0xEE00 .. 0xEFFF
IsDrcs(u) == u >= 61440                        \* 0xF000
Continuation(z) == z >= 4                      \* OVER_TOP 4, OVER_BOTTOM 5, DOUBLE_HEIGHT2 6, DOUBLE_SIZE2 7
Covered(z) == z = 4 \/ z = 5

Idx(pg, r, c) == (r - 1) * pg.cols + c         \* rows and columns from 1
In(unrepr, u) == IF u \in unrepr THEN Space ELSE u

\* ---- the text export module
ExportChar(u, gfx) == IF IsPrint(u) THEN u ELSE IF IsGfx(u) THEN gfx ELSE Space
ExportRow(pg, r, gfx, unrepr, skipCovered) ==
  LET cols == SelectSeq([c \in 1..pg.cols |-> c], LAMBDA c : ~(skipCovered /\ Covered(pg.sz[Idx(pg, r, c)])))
  IN [i \in 1..Len(cols) |-> In(unrepr, ExportChar(pg.u[Idx(pg, r, cols[i])], gfx))]
RECURSIVE ExportFrom(_, _, _, _, _)
ExportFrom(pg, r, gfx, unrepr, skipCovered) ==
  IF r > pg.rows THEN <<>>
  ELSE ExportRow(pg, r, gfx, unrepr, skipCovered) \o <<LF>> \o ExportFrom(pg, r + 1, gfx, unrepr, skipCovered)
ExportText(pg, gfx, unrepr, skipCovered) == ExportFrom(pg, 1, gfx, unrepr, skipCovered)

(* With terminal control codes the right parts of wide characters are not printed.  A cell of size OVER_TOP / OVER_BOTTOM is
   such a right part when its left neighbour is a double width / double size cell (format.h).  Enhancement data can leave a
   cell of this size without such a neighbour; whether the module prints it is not specified, so both are accepted:
   ExportAccepted runs over the cells with the set of positions of the delivered text that can have been reached. *)
WideAnchor(z) == z = 1 \/ z = 3 \/ z = 7
RightPart(pg, r, c) == Covered(pg.sz[Idx(pg, r, c)]) /\ c > 1 /\ WideAnchor(pg.sz[Idx(pg, r, c - 1)])
Orphan(pg, r, c) == Covered(pg.sz[Idx(pg, r, c)]) /\ ~RightPart(pg, r, c)
Adv(got, S, ch) == {j + 1 : j \in {x \in S : x <= Len(got) /\ got[x] = ch}}
RECURSIVE RowReach(_, _, _, _, _, _, _, _)
RowReach(pg, r, c, gfx, unrepr, skipCovered, got, S) ==
  IF c > pg.cols THEN Adv(got, S, LF)
  ELSE LET ch == In(unrepr, ExportChar(pg.u[Idx(pg, r, c)], gfx))
           S1 == IF skipCovered /\ RightPart(pg, r, c) THEN S
                 ELSE IF skipCovered /\ Orphan(pg, r, c) THEN S \cup Adv(got, S, ch)
                 ELSE Adv(got, S, ch)
       IN RowReach(pg, r, c + 1, gfx, unrepr, skipCovered, got, S1)
RECURSIVE PageReach(_, _, _, _, _, _, _)
PageReach(pg, r, gfx, unrepr, skipCovered, got, S) ==
  IF r > pg.rows \/ S = {} THEN S
  ELSE PageReach(pg, r + 1, gfx, unrepr, skipCovered, got, RowReach(pg, r, 1, gfx, unrepr, skipCovered, got, S))
ExportAccepted(pg, gfx, unrepr, skipCovered, got) == (Len(got) + 1) \in PageReach(pg, 1, gfx, unrepr, skipCovered, got, {1})
NoOrphans(pg) == \A r \in 1..pg.rows : \A c \in 1..pg.cols : ~Orphan(pg, r, c)

\* ---- vbi_print_page_region, table mode; region = columns col..col+w-1, rows row..row+h-1 (from 0 as in the API)
\* the page's printable characters; continuation cells, graphics, DRCS and the other private codes become spaces
TableChar(u, z) == IF Continuation(z) \/ ~IsPrint(u) THEN Space ELSE u
TableRow(pg, r, col, w, unrepr) ==
  [i \in 1..w |-> In(unrepr, TableChar(pg.u[Idx(pg, r, col + i)], pg.sz[Idx(pg, r, col + i)]))]
RECURSIVE TableFrom(_, _, _, _, _, _)
TableFrom(pg, r, last, col, w, unrepr) ==
  IF r > last THEN <<>>
  ELSE TableRow(pg, r, col, w, unrepr) \o (IF r < last THEN <<LF>> ELSE <<>>) \o TableFrom(pg, r + 1, last, col, w, unrepr)
TableText(pg, col, row, w, h, unrepr) == TableFrom(pg, row + 1, row + h, col, w, unrepr)
RegionOK(pg, col, row, w, h) == col >= 0 /\ row >= 0 /\ w >= 1 /\ h >= 1 /\ col + w <= pg.cols /\ row + h <= pg.rows

(* "size: Size of the buffer in bytes. The function fails when the data exceeds the buffer capacity" and returns
   "Number of bytes written into buf, a value of zero when some error occurred": with `needed` bytes of encoded
   text, a buffer of `size` bytes gives *)
TableReturn(size, needed) == IF size >= needed THEN needed ELSE 0

-----------------------------------------------------------------------------
(* A small model for TLC: every page over a few codes and sizes; the properties the operators must have. *)
CONSTANTS Codes, SizeVals, MRows, MCols, Gfxs, UnreprSets
VARIABLE pg
Pages == {[rows |-> MRows, cols |-> MCols, u |-> uu, sz |-> zz] : uu \in [1..(MRows * MCols) -> Codes], zz \in [1..(MRows * MCols) -> SizeVals]}
Init == pg \in Pages
Next == UNCHANGED pg
Spec == Init /\ [][Next]_pg

Regions == {<<c, r, w, h>> \in (0..MCols) \X (0..MRows) \X (1..MCols) \X (1..MRows) : RegionOK(pg, c, r, w, h)}
NCovered == Cardinality({i \in 1..(MRows * MCols) : Covered(pg.sz[i])})

\* one character per cell and one line feed per row; without the covered cells when they are skipped
ExportShape == \A g \in Gfxs : \A un \in UnreprSets :
                 /\ Len(ExportText(pg, g, un, FALSE)) = MRows * (MCols + 1)
                 /\ Len(ExportText(pg, g, un, TRUE)) = MRows * (MCols + 1) - NCovered
\* what comes out is a page character, the graphics replacement, a space or a line feed - never a private code
\* other than by way of the replacement, never an unrepresentable code
ExportChars == \A g \in Gfxs : \A un \in UnreprSets : \A k \in BOOLEAN :
                 LET t == ExportText(pg, g, un, k) IN
                 \A i \in 1..Len(t) : /\ t[i] \notin (un \ {Space})
                                      /\ t[i] \in {LF, Space, g} \/ (IsPrint(t[i]) /\ \E j \in 1..(MRows * MCols) : pg.u[j] = t[i])
\* printable, representable characters are delivered exactly, cell by cell
ExportExact == \A g \in Gfxs : \A un \in UnreprSets :
                 LET t == ExportText(pg, g, un, FALSE) IN
                 \A r \in 1..MRows : \A c \in 1..MCols :
                   LET u == pg.u[Idx(pg, r, c)]  o == t[(r - 1) * (MCols + 1) + c] IN
                   /\ (IsPrint(u) /\ u \notin un) => o = u
                   /\ (IsGfx(u) /\ g \notin un) => o = g
                   /\ t[r * (MCols + 1)] = LF
TableShape == \A rg \in Regions : \A un \in UnreprSets :
                Len(TableText(pg, rg[1], rg[2], rg[3], rg[4], un)) = rg[4] * rg[3] + (rg[4] - 1)
\* a region prints exactly the corresponding part of the whole page's table
TableRegion == \A rg \in Regions : \A un \in UnreprSets :
                 LET whole == TableText(pg, 0, 0, MCols, MRows, un)
                     part == TableText(pg, rg[1], rg[2], rg[3], rg[4], un) IN
                 \A i \in 0..(rg[4] - 1) : \A j \in 1..rg[3] :
                   part[i * (rg[3] + 1) + j] = whole[(rg[2] + i) * (MCols + 1) + rg[1] + j]
TableChars == \A un \in UnreprSets : LET t == TableText(pg, 0, 0, MCols, MRows, un) IN
                \A i \in 1..Len(t) : IsPrint(t[i]) /\ t[i] \notin (un \ {Space})
\* the acceptance relation: the specified text is accepted; without orphan continuation cells nothing else is (probed with
\* every text that differs from it by one deleted, one changed or one inserted character)
AcceptSound == \A g \in Gfxs : \A un \in UnreprSets : \A k \in BOOLEAN :
                 LET t == ExportText(pg, g, un, k)
                     Del(i) == SubSeq(t, 1, i - 1) \o SubSeq(t, i + 1, Len(t))
                     Chg(i) == [t EXCEPT ![i] = IF t[i] = 66 THEN 67 ELSE 66]
                     Ins(i) == SubSeq(t, 1, i - 1) \o <<t[i]>> \o SubSeq(t, i, Len(t))
                 IN /\ ExportAccepted(pg, g, un, k, t)
                    /\ (~k \/ NoOrphans(pg)) => \A i \in 1..Len(t) : /\ ~ExportAccepted(pg, g, un, k, Del(i))
                                                                     /\ ~ExportAccepted(pg, g, un, k, Chg(i))
                                                                     /\ ~ExportAccepted(pg, g, un, k, Ins(i))
ASSUME ReturnOK == \A n \in 0..5 : \A k \in 0..6 : TableReturn(k, n) \in {0, n} /\ (TableReturn(k, n) = n <=> (k >= n \/ n = 0))
=============================================================================
