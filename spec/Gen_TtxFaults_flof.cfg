CONSTANTS Mags = {1} Pages <- PagesOne1 Rows = {1} Cids = {1} Nats = {0} Flofs = {1, 2} Progs <- NoProgs
          HdrFaults = {} RowFaults = {} PktFaults <- PktAll TripFaults = {} FlofFaults <- FlofAll MaxFaults = 1 MaxPk = 7 FaultFrom = {0}
SPECIFICATION GSpec
VIEW gview
INVARIANT DumpL
CHECK_DEADLOCK FALSE
