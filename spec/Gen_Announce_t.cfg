CONSTANTS Carriers = {"vps", "p1", "p2"} Vals = {"a", "b", "u"} WssWords = {"x", "y", "bad"} MaxRecv = 7 UnknownOnce = TRUE XdsGuard = TRUE Calls = {}
SPECIFICATION GSpec
VIEW gview
CONSTRAINT Dump
CHECK_DEADLOCK FALSE
