CONSTANTS Codes <- CodesM SizeVals = {0, 4, 6} MRows = 2 MCols = 2 Gfxs = {35, 32} UnreprSets <- Unr
SPECIFICATION Spec
INVARIANTS ExportShape ExportChars ExportExact TableShape TableRegion TableChars AcceptSound
CHECK_DEADLOCK FALSE
