CONSTANTS Clients = {1, 2} Prios = {1, 2} FixTokenOwner = TRUE FixFlushClosed = TRUE FixRegrant = TRUE
  FixHdrLen = FALSE FixPartial = TRUE
SPECIFICATION CSpec
INVARIANTS CTypeOK SingleOwner NoCrash OneHolder HolderIsOwner StillAccepts Released ListOK
PROPERTIES BadClientIsolated GrantOnlyWhenFree GrantOnlyOnRequest
CHECK_DEADLOCK FALSE
