CONSTANTS NP = 2 MaxSub = 1 MaxOcc = 2 MaxCalls = 5
  AllowTurn = TRUE AllowUpdate = FALSE SecondWrapStops = TRUE ClampSub = TRUE
SPECIFICATION GSpec
CONSTRAINT Dump
CHECK_DEADLOCK FALSE
