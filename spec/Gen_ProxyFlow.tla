---------------------------- MODULE Gen_ProxyFlow ----------------------------
(* Stimulus schedules "faulty client x frame flow": random walks (tlc -simulate) through ProxyFlow, the composition
   of the daemon's connection layer and its data path.  The faulty clients do anything in any order - connect, ask
   for services, send the other requests, send a message in part (header bytes / header and a part of the body) and
   fall silent, send refused messages, disconnect in the middle; the witnesses connect with their service sets and
   read what they get while the capture clock ticks.

   Only walks that reach the situation of interest are printed: at least MinLost frames were taken away from a client
   in the middle of a message because the buffers were used up (nlost) - i.e. the silence lasted for more frames
   than the daemon has buffers, whatever their number is in the configuration.  Generation (not the specification) is
   steered: a frame arrives only when the witnesses have read everything (they keep up), and a client that is silent in
   the middle of a message stays so until MinLost frames were taken away (Hold); afterwards it may go on with the rest of
   the message, garbage, a disconnect.

   The walk is executed against the real daemon step by step (checks/c18.py Run, used by C19 and C18); daemon steps
   are not controllable and are dropped.  The recorded run is validated by Trace_ProxyQueue and Trace_ProxyConn. *)
EXTENDS ProxyFlow, Json
CONSTANTS Depth, MinLost, WTick, WRead, WPart
VARIABLES hist, nlost
gvars == <<fvars, hist, nlost>>

GWSrv == [c \in Clients |-> IF c % 2 = 1 THEN {"ttx"} ELSE {"ttx", "wss"}]

H(r) == hist' = Append(hist, r)
Keep == nlost' = nlost
RECURSIVE SeqOf(_)
SeqOf(T) == IF T = {} THEN <<>> ELSE LET x == CHOOSE y \in T : TRUE IN <<x>> \o SeqOf(T \ {x})

Witnesses == Clients \ Faulty
KeepsUp == \A w \in Witnesses : sock[w] = <<>> /\ cur[w] = 0
Hold(c) == rdp[c] /\ cur[c] # 0 /\ nlost < MinLost
\* the clients in the middle of a message that lose the head frame to the next capture
StuckVictims == {c \in Q!TakeBuffer.victims : rdp[c]}

GFaulty(c) ==
  /\ actor' = c /\ Keep
  /\ \/ FAccept(c) /\ H([a |-> "Accept", c |-> c])
     \* (at most: some header bytes, then the rest of the header and a part of the body)
     \/ \E k \in 1..WPart : rd[c] = "idle" /\ Q!Partial(c) /\ C!PartialHdr(c) /\ H([a |-> "Partial", c |-> c, ph |-> "hdr", k |-> k])
     \/ \E k \in 1..WPart : rd[c] # "body" /\ Q!Partial(c) /\ C!HdrLegal(c) /\ H([a |-> "Partial", c |-> c, ph |-> "body", k |-> k])
     \/ /\ ~Hold(c)
        /\ \/ \E sv \in SUBSET Services, l \in LevelsUsed :
                 FConnect(c, sv, l) /\ H([a |-> "Connect", c |-> c, srv |-> SeqOf(sv), l |-> l])
           \/ FConnectRej(c) /\ H([a |-> "ConnectRej", c |-> c])
           \/ \E sv \in SUBSET Services, l \in LevelsUsed, rs \in BOOLEAN :
                 FServiceReq(c, sv, l, rs, FALSE) /\ H([a |-> "ServiceReq", c |-> c, srv |-> SeqOf(sv), l |-> l, reset |-> rs])
           \/ Q!Other(c) /\ C!MSuspend(c) /\ H([a |-> "Other", c |-> c, m |-> "suspend"])
           \/ Q!Other(c) /\ C!MIoctl(c) /\ H([a |-> "Other", c |-> c, m |-> "ioctl"])
           \/ Q!Other(c) /\ C!MReclaimCnf(c) /\ H([a |-> "Other", c |-> c, m |-> "reclaimcnf"])
           \/ \E p \in Prios, v \in BOOLEAN :
                 Q!Other(c) /\ C!MTokenReq(c, p, v) /\ H([a |-> "Other", c |-> c, m |-> "token", p |-> p, v |-> v])
           \/ \E F \in SUBSET {"RELEASE", "TOKEN"} :          \* (FLUSH drops everybody's queue by design: not a flow step)
                 Q!Other(c) /\ C!MNotify(c, F) /\ H([a |-> "Other", c |-> c, m |-> "notify", f |-> SeqOf(F)])
           \/ Q!Disconnect(c) /\ C!Disconnect(c) /\ H([a |-> "Drop", c |-> c, how |-> "eof"])
           \/ rd[c] = "idle" /\ Q!Disconnect(c) /\ C!HdrIllegal(c) /\ H([a |-> "Drop", c |-> c, how |-> "hdr"])
           \/ Q!Disconnect(c) /\ C!BadMsg(c) /\ H([a |-> "Drop", c |-> c, how |-> "bad"])
           \/ Q!Disconnect(c) /\ C!WrongState(c) /\ H([a |-> "Drop", c |-> c, how |-> "state", st |-> cst[c]])
           \/ Q!Disconnect(c) /\ C!MCloseReq(c) /\ H([a |-> "Drop", c |-> c, how |-> "close"])
           \/ cst[c] = "wait" /\ Q!Disconnect(c) /\ C!MPidReq(c) /\ H([a |-> "Drop", c |-> c, how |-> "pid"])

GWitness(c) ==
  /\ actor' = c /\ Keep
  /\ \/ FAccept(c) /\ H([a |-> "Accept", c |-> c])
     \/ \E l \in LevelsUsed : FConnect(c, WSrv[c], l) /\ H([a |-> "Connect", c |-> c, srv |-> SeqOf(WSrv[c]), l |-> l])

GNext ==
  \/ \E c \in Faulty : GFaulty(c)
  \/ \E c \in Witnesses : GWitness(c)
  \/ /\ actor' = 0
     /\ \/ \E k \in 1..WTick : FTick /\ KeepsUp /\ nlost' = nlost + Cardinality(StuckVictims) /\ H([a |-> "Tick", k |-> k])
        \/ \E c \in Clients : \E k \in 1..(IF c \in Witnesses THEN WRead ELSE 1) : FRead(c) /\ Keep /\ H([a |-> "Read", c |-> c, k |-> k])
        \/ Keep /\ UNCHANGED hist /\ \/ \E c \in Clients : FSend(c) \/ FDaemon(c)
                                     \/ C!CTimer /\ UNCHANGED qvars

GSpec == FInit /\ hist = <<>> /\ nlost = 0 /\ [][GNext]_gvars
Dump == /\ (TLCGet("level") >= Depth /\ nlost >= MinLost) => PrintT(<<"TR", ToJson(hist)>>)
        /\ TLCGet("level") < Depth
=============================================================================
