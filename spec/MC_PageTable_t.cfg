CONSTANTS MinPg = 256 MaxPg = 287 MaxSub = 3
  PagePts <- PtsT SubPts <- SubsQ BadPages <- BadPgT BadSubs <- BadSubQ
SPECIFICATION Spec
INVARIANTS TypeOK RepInv SetAlgebra AddThenContains RemoveThenNot Idempotent SwappedRange WholePages QueriesAgree NextIsLeastAbove IterationExact CutSplits
CHECK_DEADLOCK FALSE
