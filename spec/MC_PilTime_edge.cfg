CONSTANTS TimeBits = 64 FixedZone <- Fixed RejectZones <- Reject Refs <- RefsEdge Offsets <- OffsEdge
  PMonths <- MonthsAll PDays <- FieldsAll5 PHours <- HoursEdge PMinutes <- MinutesEdge TzValues = {"U"}
SPECIFICATION Spec
INVARIANTS TypeOK FieldsOK NearestYear FailsOK WindowOK PtyOK RelationalOK
PROPERTIES FrameTZ
CHECK_DEADLOCK FALSE
