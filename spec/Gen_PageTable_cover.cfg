CONSTANTS MinPg = 256 MaxPg = 2303 MaxSub = 16254 Depth = 3
  PagePts <- SmallPagePts SubPts <- SmallSubPts BadPages <- SmallBadPages BadSubs <- SmallBadSubs
SPECIFICATION GSpec
VIEW gview
CONSTRAINT Bound
ACTION_CONSTRAINT DumpStep
CHECK_DEADLOCK FALSE
