------------------------------ MODULE PilTime ------------------------------
(* Programme Identification Label -> time, validity windows, and the TZ frame condition:
   vbi_pil_lto_to_time, vbi_pil_to_time, vbi_pty_validity_window, vbi_pil_lto_validity_window,
   vbi_pil_validity_window (doc comments in src/pdc.h / src/pdc.c, EN 300 231 9.3 and Annex F).

   Written from the documentation, not from the code:
   * PIL layout (VBI_PIL macro): day << 15 | month << 11 | hour << 6 | minute.
   * "Since PILs do not contain a year field, the year is determined from the start parameter ...
     If pil contains a month more than five months after start, pil is assumed to refer to an
     earlier date than start."  Together with its mirror image (a month more than six months
     before start lies in the following year) this is the nearest-year rule at month granularity.
   * "February 29th is a valid date only if the estimated year is a leap year."
   * Failure ((time_t) -1 / FALSE) for invalid labels and for results a time_t cannot hold.
   * EN 300 231 9.3: a label is valid from 00:00 of its day (from 20:00 of the day before when the
     announced time is earlier than 04:00) until 04:00 of the following day; a programme type from
     its last transmission until 04:00 four weeks and one day later.  Annex F: invalid days and
     months 13, 14: indefinite window; month 0 and month 15 other than the service codes: none.
   * The functions that take a zone name change TZ while they work; the frame condition is that
     every call, whatever its outcome, leaves TZ as it found it (tz' = tz on every Call action).

   Instants.  A time_t does not fit TLC's 32 bit integers.  The Gregorian calendar repeats after
   146097 days (400 years, a whole number of weeks), so an instant is a record
        [e |-> 400-year era, d |-> day within the era (0 .. 146096), s |-> second of the day]
   with era 0 starting at 1970-01-01 00:00:00 UTC.  Calendar fields depend on d and s only
   (cycle years 1970 .. 2369); the era takes part in comparisons, which is all that
   representability needs.  2^63 - 1 s is era 730692561, so all three fields fit.             *)
EXTENDS Integers, Sequences, FiniteSets, TLC

CONSTANTS TimeBits,      \* width of the signed time_t of the platform: 32 or 64
          FixedZone,     \* function: zone strings the specification understands -> seconds east of UTC
          RejectZones,   \* zone strings the documentation lists as rejected ("" and names containing '=')
          Refs,          \* exploration: announced start times (instants)
          Offsets,       \* exploration: seconds east of UTC
          PMonths, PDays, PHours, PMinutes,   \* exploration: label fields
          TzValues       \* exploration: values of the TZ variable ("U" = unset, "S<text>" = set)

VARIABLES tz,       \* the process's TZ variable
          at1,      \* most recently announced start time (the reference, "AT-1")
          call      \* last API call
vars == <<tz, at1, call>>

-----------------------------------------------------------------------------
(* instants *)
Cycle == 146097
Day == 86400
T(e, d, s) == [e |-> e, d |-> d, s |-> s]
Norm(e, d, s) == LET d2 == d + (s \div Day) IN T(e + (d2 \div Cycle), d2 % Cycle, s % Day)
TAdd(t, secs) == Norm(t.e, t.d, t.s + secs)                 \* |secs| < 2^30
TAddDays(t, n) == Norm(t.e, t.d + n, t.s)
TLt(a, b) == \/ a.e < b.e
             \/ a.e = b.e /\ a.d < b.d
             \/ a.e = b.e /\ a.d = b.d /\ a.s < b.s
TLe(a, b) == a = b \/ TLt(a, b)
Far == 1000000
DayDiff(a, b) == IF a.e - b.e > 1 THEN Far ELSE IF a.e - b.e < -1 THEN -Far         \* whole days a.d - b.d
                 ELSE (a.e - b.e) * Cycle + (a.d - b.d)
SecDiff(a, b) == LET n == DayDiff(a, b) IN                                           \* a - b, saturating at +-20000 days
                 IF n > 20000 THEN 20000 * Day ELSE IF n < -20000 THEN -20000 * Day ELSE n * Day + (a.s - b.s)

MinusOne == T(-1, Cycle - 1, Day - 1)      \* the instant whose time_t is -1: not distinguishable from failure
TMax == IF TimeBits = 32 THEN T(0, 24855, 11647) ELSE T(730692561, 82883, 55807)       \* 2^31 - 1, 2^63 - 1
TMin == IF TimeBits = 32 THEN T(-1, 121241, 74752) ELSE T(-730692562, 63213, 30592)    \* -2^31, -2^63
Representable(t) == TLe(TMin, t) /\ TLe(t, TMax)
(* The C library's broken-down time holds the year in an int: beyond about +-2 * 10^9 years
   (era +-5368708) the conversion of the reference itself is impossible and a call may fail
   although its result would fit a 64 bit time_t. *)
StructTmOK(t) == t.e > -5000000 /\ t.e < 5000000

-----------------------------------------------------------------------------
(* civil calendar (proleptic Gregorian), days counted from 1970-01-01 *)
Leap(y) == y % 4 = 0 /\ (y % 100 # 0 \/ y % 400 = 0)
MonthLen(y, m) == IF m = 2 THEN (IF Leap(y) THEN 29 ELSE 28) ELSE IF m \in {4, 6, 9, 11} THEN 30 ELSE 31
LeapsBefore(y) == ((y - 1) \div 4) - ((y - 1) \div 100) + ((y - 1) \div 400)       \* leap years in 1 .. y-1
YearStart(y) == 365 * (y - 1970) + (LeapsBefore(y) - LeapsBefore(1970))
Cum == <<0, 31, 59, 90, 120, 151, 181, 212, 243, 273, 304, 334>>
ASSUME \A m \in 1..11 : Cum[m + 1] - Cum[m] = MonthLen(1971, m)
MonthStart(y, m) == Cum[m] + (IF m > 2 /\ Leap(y) THEN 1 ELSE 0)
DaysFromCivil(y, m, d) == YearStart(y) + MonthStart(y, m) + (d - 1)
CivilDef(n) ==                                       \* the inverse of DaysFromCivil, by definition
  LET y0 == 1970 + (n \div 366)
      y == CHOOSE c \in (y0 - 1)..(y0 + 2) : YearStart(c) <= n /\ n < YearStart(c + 1)
      k == n - YearStart(y)
      m == CHOOSE c \in 1..12 : MonthStart(y, c) <= k /\ k < MonthStart(y, c) + MonthLen(y, c)
  IN [y |-> y, m |-> m, d |-> k - MonthStart(y, m) + 1]
(* the same in closed form (years counted from 1 March; 153 days in any five months from March);
   CalendarOK checks CivilFromDays = CivilDef on every day of the cycle *)
CivilFromDays(n) ==
  LET z == n + 719468                                    \* days since 0000-03-01
      era == z \div Cycle
      doe == z % Cycle
      yoe == (doe - (doe \div 1460) + (doe \div 36524) - (doe \div 146096)) \div 365
      doy == doe - (365 * yoe + (yoe \div 4) - (yoe \div 100))
      mp == (5 * doy + 2) \div 153
      m == IF mp < 10 THEN mp + 3 ELSE mp - 9
  IN [y |-> yoe + era * 400 + (IF m <= 2 THEN 1 ELSE 0), m |-> m, d |-> doy - ((153 * mp + 2) \div 5) + 1]
(* broken-down form of an instant; y is the cycle year 1970 .. 2369 (true year = y + 400 * e) *)
Civil(t) == LET c == CivilFromDays(t.d) IN
            [e |-> t.e, y |-> c.y, m |-> c.m, d |-> c.d, hh |-> t.s \div 3600, mi |-> (t.s \div 60) % 60, ss |-> t.s % 60]
FromCivil(e, y, m, d, hh, mi, ss) == Norm(e, DaysFromCivil(y, m, d), hh * 3600 + mi * 60 + ss)   \* y in 1969 .. 2370

-----------------------------------------------------------------------------
(* labels *)
MkPil(m, d, hh, mi) == d * 32768 + m * 2048 + hh * 64 + mi
PilMonth(p) == (p \div 2048) % 16
PilDay(p) == (p \div 32768) % 32
PilHour(p) == (p \div 64) % 32
PilMinute(p) == p % 64
DateValid(p) == PilMonth(p) \in 1..12 /\ PilDay(p) \in 1..MonthLen(2000, PilMonth(p))     \* 29 February is a date
PilValid(p) == DateValid(p) /\ PilHour(p) < 24 /\ PilMinute(p) < 60
TIMER_CONTROL == MkPil(15, 0, 31, 63)
INHIBIT_TERMINATE == MkPil(15, 0, 30, 63)
INTERRUPTION == MkPil(15, 0, 29, 63)
CONTINUE == MkPil(15, 0, 28, 63)
NSPV == MkPil(15, 15, 31, 63)

(* year of a label month mp, seen from year yr / month mr *)
InferYear(yr, mr, mp) == IF mp - mr > 5 THEN yr - 1 ELSE IF mr - mp > 6 THEN yr + 1 ELSE yr

Fail == [ok |-> FALSE]
Ok(t) == [ok |-> TRUE, t |-> t]

(* the label's year in a zone where the reference reads loc (its civil form) *)
TargetAt(p, loc) ==
  LET y == InferYear(loc.y, loc.m, PilMonth(p))
  IN [e |-> loc.e, y |-> y, leapOK |-> ~(PilMonth(p) = 2 /\ PilDay(p) = 29 /\ ~Leap(y))]
LtoToTimeAt(p, loc, off) ==
  IF ~PilValid(p) THEN Fail
  ELSE LET g == TargetAt(p, loc) IN
       IF ~g.leapOK THEN Fail
       ELSE LET r == TAdd(FromCivil(g.e, g.y, PilMonth(p), PilDay(p), PilHour(p), PilMinute(p), 0), -off)
            IN IF Representable(r) THEN Ok(r) ELSE Fail
LocalOf(ref, off) == Civil(TAdd(ref, off))
Target(p, ref, off) == TargetAt(p, LocalOf(ref, off))
LtoToTime(p, ref, off) == LtoToTimeAt(p, LocalOf(ref, off), off)     \* vbi_pil_lto_to_time (p, ref, off)

(* windows *)
Indef == [ok |-> TRUE, bk |-> "min", ek |-> "max"]
Win(b, e) == [ok |-> TRUE, bk |-> "t", ek |-> "t", b |-> b, e |-> e]
NoWin == [ok |-> FALSE]
LocalMidnight(t, off) == LET c == Civil(TAdd(t, off)) IN TAdd(FromCivil(c.e, c.y, c.m, c.d, 0, 0, 0), -off)
PtyWindow(t, off) ==                        \* programme type last transmitted at t
  LET e == TAdd(TAddDays(LocalMidnight(t, off), 29), 4 * 3600)
  IN IF Representable(e) THEN Win(t, e) ELSE NoWin
DateWindowAt(p, loc, off, early) ==         \* the label's day; early: announced before 04:00
  LET mid == LtoToTimeAt(MkPil(PilMonth(p), PilDay(p), 0, 0), loc, off) IN
  IF ~mid.ok THEN NoWin
  ELSE LET b == IF early THEN TAdd(mid.t, -4 * 3600) ELSE mid.t
           e == TAdd(mid.t, 28 * 3600)
       IN IF Representable(b) /\ Representable(e) THEN Win(b, e) ELSE NoWin
(* vbi_pil_lto_validity_window: the SET of outcomes the documents allow.  It has one element except
   where header documentation and Annex F disagree: a real date with an unreal time (doc: error;
   Annex F only looks at the day) and 29 February in a common year (doc: error; Annex F: invalid
   day, indefinite window). *)
LtoWindowAt(p, ref, loc, off) ==
  LET mo == PilMonth(p) IN
  IF mo = 0 THEN {NoWin}
  ELSE IF mo <= 12 THEN
         IF ~DateValid(p) THEN {Indef}
         ELSE IF ~TargetAt(p, loc).leapOK THEN {NoWin, Indef}
         ELSE IF PilValid(p) THEN {DateWindowAt(p, loc, off, PilHour(p) < 4)}
         ELSE {NoWin, DateWindowAt(p, loc, off, PilHour(p) < 4)}
  ELSE IF mo <= 14 THEN {Indef}
  ELSE IF p \in {TIMER_CONTROL, INHIBIT_TERMINATE, INTERRUPTION, CONTINUE} THEN {Indef}
  ELSE IF p = NSPV THEN {PtyWindow(ref, 0)}       \* "ignores seconds_east and returns the same values as vbi_pty_validity_window"
  ELSE {NoWin}
LtoWindow(p, ref, off) == LtoWindowAt(p, ref, LocalOf(ref, off), off)

-----------------------------------------------------------------------------
(* zone names.  Zones in DOMAIN FixedZone have a fixed offset the specification knows; for every other
   name the C library's zone database is trusted: the postcondition is relational, stated over what
   localtime_r reports in that zone (records [y true year, m, d, hh, mi, ss, off seconds east]). *)
TrueYear(c) == c.y + 400 * c.e                      \* moderate eras only
FromCivilTrue(y, m, d, hh, mi, ss) == LET e == (y - 1970) \div 400 IN FromCivil(e, y - 400 * e, m, d, hh, mi, ss)
SameFields(l, y, m, d, hh, mi, ss) == l.y = y /\ l.m = m /\ l.d = d /\ l.hh = hh /\ l.mi = mi /\ l.ss = ss
(* Instant r "is" civil time (y m d hh:mi:ss) of the zone.  tab = local views of r - 1 h, r, r + 1 h.
   If that civil time exists near r, r must be an instant showing it; if the zone skips it (start of
   summer time) r must be the civil time taken with one of the offsets in force around it. *)
HitsCivil(r, tab, y, m, d, hh, mi, ss) ==
  LET hit == {i \in DOMAIN tab : SameFields(tab[i], y, m, d, hh, mi, ss)} IN
  IF hit # {} THEN 2 \in hit
  ELSE \E i \in DOMAIN tab : SecDiff(FromCivilTrue(y, m, d, hh, mi, ss), r) = tab[i].off
(* vbi_pil_to_time in a zone of the database: refloc = local view of the reference *)
ZoneToTimeOK(p, refloc, out, tab) ==
  IF ~PilValid(p) THEN ~out.ok
  ELSE LET y == InferYear(refloc.y, refloc.m, PilMonth(p)) IN
       IF PilMonth(p) = 2 /\ PilDay(p) = 29 /\ ~Leap(y) THEN ~out.ok
       ELSE out.ok /\ HitsCivil(out.t, tab, y, PilMonth(p), PilDay(p), PilHour(p), PilMinute(p), 0)
CivilDayPlus(y, m, d, n) == LET c == Civil(TAddDays(FromCivilTrue(y, m, d, 0, 0, 0), n)) IN
                            [y |-> TrueYear(c), m |-> c.m, d |-> c.d]
(* vbi_pil_validity_window / vbi_pty_validity_window in a zone of the database *)
ZoneDateWindowOK(p, refloc, out, tabb, tabe) ==
  LET y == InferYear(refloc.y, refloc.m, PilMonth(p))
      early == PilHour(p) < 4
      bd == CivilDayPlus(y, PilMonth(p), PilDay(p), IF early THEN -1 ELSE 0)
      ed == CivilDayPlus(y, PilMonth(p), PilDay(p), 1)
  IN /\ out.ok /\ out.bk = "t" /\ out.ek = "t"
     /\ HitsCivil(out.b, tabb, bd.y, bd.m, bd.d, IF early THEN 20 ELSE 0, 0, 0)
     /\ HitsCivil(out.e, tabe, ed.y, ed.m, ed.d, 4, 0, 0)
     /\ TLt(out.b, out.e)
ZonePtyWindowOK(ref, refloc, out, tabe) ==
  LET ed == CivilDayPlus(refloc.y, refloc.m, refloc.d, 29) IN
  /\ out.ok /\ out.bk = "t" /\ out.ek = "t" /\ out.b = ref /\ TLt(out.b, out.e)
  /\ HitsCivil(out.e, tabe, ed.y, ed.m, ed.d, 4, 0, 0)
ZoneWindowOK(p, ref, refloc, out, tabb, tabe) ==
  LET mo == PilMonth(p)
      y == InferYear(refloc.y, refloc.m, mo)
      indef == out.ok /\ out.bk = "min" /\ out.ek = "max"
  IN IF mo = 0 THEN ~out.ok
     ELSE IF mo <= 12 THEN
            IF ~DateValid(p) THEN indef
            ELSE IF mo = 2 /\ PilDay(p) = 29 /\ ~Leap(y) THEN ~out.ok \/ indef
            ELSE IF PilValid(p) THEN ZoneDateWindowOK(p, refloc, out, tabb, tabe)
            ELSE ~out.ok \/ ZoneDateWindowOK(p, refloc, out, tabb, tabe)
     ELSE IF mo <= 14 THEN indef
     ELSE IF p \in {TIMER_CONTROL, INHIBIT_TERMINATE, INTERRUPTION, CONTINUE} THEN indef
     ELSE IF p = NSPV THEN ZonePtyWindowOK(ref, refloc, out, tabe)   \* "the same values as vbi_pty_validity_window()"
     ELSE ~out.ok
(* local views of an instant in a fixed zone: what localtime_r reports there *)
LocalView(t, off) == LET c == Civil(TAdd(t, off)) IN
                     [y |-> TrueYear(c), m |-> c.m, d |-> c.d, hh |-> c.hh, mi |-> c.mi, ss |-> c.ss, off |-> off]
Tab3(t, off) == <<LocalView(TAdd(t, -3600), off), LocalView(t, off), LocalView(TAdd(t, 3600), off)>>

-----------------------------------------------------------------------------
(* actions: the environment changes TZ, the network announces a start time, the client calls *)
Init == tz \in TzValues /\ at1 \in Refs /\ call = [fn |-> "none"]
SetTZ(v) == tz' = v /\ call' = [fn |-> "setenv"] /\ UNCHANGED at1
Announce(r) == at1' = r /\ call' = [fn |-> "none"] /\ UNCHANGED tz
(* every API function, successful or not: TZ is what it was *)
Call(fn, arg) == call' = [fn |-> fn, arg |-> arg] /\ tz' = tz /\ UNCHANGED at1
LtoFns == {"lto_to_time", "lto_win"}
ZoneFns == {"to_time", "win", "pty_win"}
Next == \/ \E v \in TzValues : SetTZ(v)
        \/ \E r \in Refs : Announce(r)
        \/ \E fn \in LtoFns, off \in Offsets : Call(fn, off)
        \/ \E fn \in ZoneFns, z \in (DOMAIN FixedZone) \cup RejectZones \cup {"N"} : Call(fn, z)
Spec == Init /\ [][Next]_vars

-----------------------------------------------------------------------------
(* the property, over the explored label fields *)
IsLto == call.fn = "lto_to_time"
IsWin == call.fn = "lto_win"
AllPils(P(_)) == \A m \in PMonths, d \in PDays, hh \in PHours, mi \in PMinutes : P(MkPil(m, d, hh, mi))

TypeOK == /\ tz \in TzValues /\ at1 \in Refs
          /\ call.fn \in {"none", "setenv"} \cup LtoFns \cup ZoneFns

FrameTZ == [][call'.fn \in LtoFns \cup ZoneFns => tz' = tz]_vars

(* converted time, viewed in the zone, has the label's month, day, hour, minute *)
FieldsOK == IsLto => LET off == call.arg  loc == LocalOf(at1, off) IN
            AllPils(LAMBDA p : LET r == LtoToTimeAt(p, loc, off) IN
              r.ok => LET c == Civil(TAdd(r.t, off)) IN
                      /\ c.m = PilMonth(p) /\ c.d = PilDay(p) /\ c.hh = PilHour(p) /\ c.mi = PilMinute(p) /\ c.ss = 0
                      /\ Representable(r.t))
(* nearest year at month granularity: the label lies 6 months before to 5 months after the reference
   month, and in days: less than 215 before, less than 184 after *)
MonthIndex(c) == 12 * c.y + c.m
NearestYear == IsLto => LET off == call.arg  loc == LocalOf(at1, off) IN
            AllPils(LAMBDA p : LET r == LtoToTimeAt(p, loc, off) IN
              r.ok => LET c == Civil(TAdd(r.t, off))
                          dm == (c.e - loc.e) * 4800 + MonthIndex(c) - MonthIndex(loc)
                      IN /\ dm \in -6..5
                         /\ SecDiff(r.t, at1) > -215 * Day /\ SecDiff(r.t, at1) < 184 * Day)
(* failure exactly for invalid labels, 29 February when the year within the month window is not a leap
   year, and unrepresentable results; exactly one year lies within the month window *)
FailsOK == IsLto => LET off == call.arg  loc == LocalOf(at1, off) IN
            AllPils(LAMBDA p : LET r == LtoToTimeAt(p, loc, off)
                                   cands == {y \in (loc.y - 1)..(loc.y + 1) : (12 * y + PilMonth(p)) - MonthIndex(loc) \in -6..5} IN
              /\ ~PilValid(p) => ~r.ok
              /\ (PilValid(p) /\ ~r.ok /\ TimeBits = 64 /\ StructTmOK(at1)) =>
                    PilMonth(p) = 2 /\ PilDay(p) = 29 /\ \A y \in cands : ~Leap(y)
              /\ (r.ok /\ PilMonth(p) = 2 /\ PilDay(p) = 29) => Leap(Civil(TAdd(r.t, off)).y)
              /\ PilValid(p) => Cardinality(cands) = 1)
(* windows of valid labels: contain the start time, ordered, prescribed lengths and ends *)
WindowOK == IsWin => LET off == call.arg  loc == LocalOf(at1, off) IN
            AllPils(LAMBDA p : LET ws == LtoWindowAt(p, at1, loc, off)
                                   r == LtoToTimeAt(p, loc, off) IN
              /\ (PilValid(p) /\ r.ok) => Cardinality(ws) = 1
              /\ (PilValid(p) /\ r.ok) => \A w \in ws :
                   (w.ok /\ w.bk = "t") =>
                      LET cb == Civil(TAdd(w.b, off))
                          ce == Civil(TAdd(w.e, off)) IN
                      /\ TLe(w.b, r.t) /\ TLt(r.t, w.e) /\ TLt(w.b, w.e)
                      /\ SecDiff(w.e, w.b) = (IF PilHour(p) < 4 THEN 32 ELSE 28) * 3600
                      /\ cb.hh = (IF PilHour(p) < 4 THEN 20 ELSE 0) /\ cb.mi = 0 /\ cb.ss = 0
                      /\ ce.hh = 4 /\ ce.mi = 0 /\ ce.ss = 0
                      /\ DayDiff(TAdd(w.e, off), TAdd(r.t, off)) = 1
              /\ (PilValid(p) /\ r.ok /\ TimeBits = 64 /\ StructTmOK(at1)) => \A w \in ws : w.ok /\ w.bk = "t"
              /\ ~PilValid(p) => \A w \in ws : w.ok => (w.bk = "min" <=> w.ek = "max"))
PtyOK == IsWin => LET w == PtyWindow(at1, call.arg) IN
              w.ok => LET ce == Civil(TAdd(w.e, call.arg)) IN
                      /\ w.b = at1 /\ TLt(w.b, w.e)
                      /\ ce.hh = 4 /\ ce.mi = 0 /\ ce.ss = 0
                      /\ DayDiff(TAdd(w.e, call.arg), TAdd(at1, call.arg)) = 29
                      /\ SecDiff(w.e, w.b) > 28 * Day + 4 * 3600 /\ SecDiff(w.e, w.b) <= 29 * Day + 4 * 3600
(* the relational zone postcondition accepts the exact answer of a fixed zone and rejects an
   answer one hour or one day off *)
RelationalOK == IsLto => LET off == call.arg  loc == LocalOf(at1, off)  refloc == LocalView(at1, off) IN
            StructTmOK(at1) =>
            AllPils(LAMBDA p : LET r == LtoToTimeAt(p, loc, off) IN
                IF r.ok THEN /\ ZoneToTimeOK(p, refloc, r, Tab3(r.t, off))
                             /\ \A dt \in (IF PilMinute(p) = 0 THEN {-3600, 3600, Day} ELSE {}) :
                                  ~ZoneToTimeOK(p, refloc, Ok(TAdd(r.t, dt)), Tab3(TAdd(r.t, dt), off))
                ELSE TimeBits = 64 => ZoneToTimeOK(p, refloc, Fail, <<>>))

(* calendar: inverse, agreement of the closed form with the definition, continuity, anchors; label
   layout.  (State-level on purpose: TLC evaluates constant-level definitions at every start-up.)
   The Quick variants compare every fourth day / the edge minutes only. *)
CalendarBase(step) == call.fn = "none" =>
  /\ \A n \in -366..(Cycle + 366) :
        LET c == CivilFromDays(n) IN
        /\ DaysFromCivil(c.y, c.m, c.d) = n
        /\ c.m \in 1..12 /\ c.d \in 1..MonthLen(c.y, c.m)
        /\ n % step = 0 => c = CivilDef(n)
  /\ \A y \in 1969..2370 : YearStart(y + 1) - YearStart(y) = (IF Leap(y) THEN 366 ELSE 365)
  /\ DaysFromCivil(1970, 1, 1) = 0 /\ DaysFromCivil(2000, 3, 1) = 11017 /\ DaysFromCivil(2038, 1, 19) = 24855
  /\ DaysFromCivil(2100, 3, 1) = 47541 /\ DaysFromCivil(2370, 1, 1) = Cycle /\ DaysFromCivil(1969, 12, 31) = -1
  /\ Cycle % 7 = 0
  /\ Leap(2000) /\ ~Leap(2100) /\ Leap(2004) /\ ~Leap(1970) /\ Leap(2368)
  /\ Civil(TMax) = [e |-> 730692561, y |-> 2196, m |-> 12, d |-> 4, hh |-> 15, mi |-> 30, ss |-> 7]
CalendarOK == CalendarBase(1)
CalendarQuickOK == CalendarBase(4)
LayoutBase(mins) == call.fn = "none" =>
  /\ \A m \in 0..15, d \in 0..31, hh \in 0..31, mi \in mins :
        LET p == MkPil(m, d, hh, mi) IN
        p \in 0..1048575 /\ PilMonth(p) = m /\ PilDay(p) = d /\ PilHour(p) = hh /\ PilMinute(p) = mi
  /\ MkPil(15, 31, 31, 63) = 1048575 /\ MkPil(0, 0, 0, 1) = 1 /\ MkPil(0, 0, 1, 0) = 64 /\ MkPil(1, 0, 0, 0) = 2048 /\ MkPil(0, 1, 0, 0) = 32768
  /\ NSPV = 524287 /\ TIMER_CONTROL = 32767
LayoutOK == LayoutBase(0..63)
LayoutQuickOK == LayoutBase({0, 1, 31, 32, 62, 63})
=============================================================================
