--------------------------- MODULE Trace_PilTime ---------------------------
(* Trace validation for PilTime.  The log of harness/drv_piltime.c holds, per line, one action of the
   specification: SetTZ (the environment changed TZ), Announce (a new reference time) or Call (one
   API call with what the real function returned, errno, the TZ variable and the C library's zone
   state before and after, and - for functions that take a zone name - localtime_r's view of the
   reference and of the returned instants in that zone).

   Call lines are accepted iff
   * TZ before and after equal the specification's tz and the zone state is unchanged (frame),
   * fixed offsets and zones the specification understands: the outcome is exactly LtoToTime /
     LtoWindow / PtyWindow (one of the documented outcomes where the documents disagree),
   * other zone names: the relational postcondition over the C library's views holds,
   * a failed window call left *begin and *end untouched.
   Beyond the range of struct tm (StructTmOK) a call may also fail.  *)
EXTENDS MC_PilTime, Json, IOUtils

Log == ndJsonDeserialize(IOEnv.TRACEFILE)
VARIABLE l
tvars == <<vars, l>>
Ev == Log[l]

TOf(x) == T(x[1], x[2], x[3])
View(x) == [y |-> x[1], m |-> x[2], d |-> x[3], hh |-> x[4], mi |-> x[5], ss |-> x[6], off |-> x[7]]
Tab(xs) == [i \in DOMAIN xs |-> View(xs[i])]
TimeOut(ev) == IF ev.ok = 1 THEN Ok(TOf(ev.t)) ELSE Fail
WinOut(ev) == [ok |-> ev.ok = 1, bk |-> ev.bk, ek |-> ev.ek,
               b |-> IF ev.bk = "t" THEN TOf(ev.b) ELSE MinusOne, e |-> IF ev.ek = "t" THEN TOf(ev.e) ELSE MinusOne]
WinMatches(out, w) == /\ out.ok = w.ok
                      /\ w.ok => /\ out.bk = w.bk /\ out.ek = w.ek
                                 /\ w.bk = "t" => out.b = w.b /\ out.e = w.e
Untouched(ev) == ev.ok = 0 => ev.bk = "unch" /\ ev.ek = "unch"

(* expected outcomes with a known offset *)
TimeOK(ev, ref, off) == LET exp == LtoToTime(ev.pil, ref, off)  out == TimeOut(ev) IN
                        IF exp.ok THEN out = exp \/ (~out.ok /\ (exp.t = MinusOne \/ ~StructTmOK(ref)))
                        ELSE ~out.ok
(* the instant whose time_t is -1 cannot be told from failure by the C library's mktime: a call whose
   result or window bound is that instant may fail *)
WinSetOK(ev, ref, ws) == /\ Untouched(ev)
                         /\ \/ \E w \in ws : WinMatches(WinOut(ev), w)
                            \/ ev.ok = 0 /\ ~StructTmOK(ref)
                            \/ ev.ok = 0 /\ \E w \in ws : w.ok /\ w.bk = "t" /\ (w.b = MinusOne \/ w.e = MinusOne)
ZoneWindowExact(p, ref, off) == IF p = NSPV THEN {PtyWindow(ref, off)} ELSE LtoWindow(p, ref, off)

Frame(ev, cur) == ev.e0 = cur /\ ev.e1 = cur /\ ev.s1 = ev.s0

Observed(ev, cur, ref) ==
  /\ Frame(ev, cur)
  /\ IF ev.fn = "lto_to_time" THEN TimeOK(ev, ref, ev.arg)
     ELSE IF ev.fn = "lto_win" THEN WinSetOK(ev, ref, LtoWindow(ev.pil, ref, ev.arg))
     ELSE LET zone == IF ev.arg = "N" THEN cur ELSE ev.arg
              mayReject == ev.arg \in RejectZones IN
          IF zone \in DOMAIN FixedZone THEN
             LET off == FixedZone[zone] IN
             IF ev.fn = "to_time" THEN TimeOK(ev, ref, off)
             ELSE IF ev.fn = "win" THEN WinSetOK(ev, ref, ZoneWindowExact(ev.pil, ref, off))
             ELSE WinSetOK(ev, ref, {PtyWindow(ref, off)})
          ELSE IF Len(ev.loc) = 0 /\ (ev.fn # "win" \/ DateValid(ev.pil) \/ ev.pil = NSPV) THEN
             \* the C library cannot break the reference down in this zone and the outcome depends on it
             ev.ok = 0 /\ (ev.fn # "to_time" => Untouched(ev))
          ELSE LET refloc == IF Len(ev.loc) = 0 THEN View(<<2000, 1, 1, 0, 0, 0, 0>>) ELSE View(ev.loc) IN
             IF ev.fn = "to_time" THEN
                  \/ ZoneToTimeOK(ev.pil, refloc, TimeOut(ev), Tab(ev.tab))
                  \/ mayReject /\ ev.ok = 0
             ELSE /\ Untouched(ev)
                  /\ \/ IF ev.fn = "win" THEN ZoneWindowOK(ev.pil, ref, refloc, WinOut(ev), Tab(ev.tabb), Tab(ev.tabe))
                        ELSE ZonePtyWindowOK(ref, refloc, WinOut(ev), Tab(ev.tabe))
                     \/ mayReject /\ ev.ok = 0

TInit == tz = "?" /\ at1 = T(0, 0, 0) /\ call = [fn |-> "none"] /\ l = 1
TNext == /\ l <= Len(Log) /\ l' = l + 1
         /\ \/ Ev.a = "SetTZ" /\ SetTZ(Ev.v)
            \/ Ev.a = "Announce" /\ Announce(TOf(Ev.ref))
            \/ Ev.a = "Call" /\ Call(Ev.fn, Ev.arg) /\ Observed(Ev, tz, at1)
TSpec == TInit /\ [][TNext]_tvars

TraceAccepted == LET n == TLCGet("stats").diameter - 1 IN
                 IF n = Len(Log) THEN TRUE
                 ELSE PrintT(<<"TV-REJECT", n + 1, Len(Log)>>) /\ FALSE

(* explanation of a rejected call: the log is <<SetTZ, Announce, Call>> *)
Explain ==
  LET cur == Log[1].v  ref == TOf(Log[2].ref)  ev == Log[3]
      zone == IF ev.fn \in LtoFns THEN "-" ELSE IF ev.arg = "N" THEN cur ELSE ev.arg
      known == ev.fn \in LtoFns \/ zone \in DOMAIN FixedZone
      off == IF ev.fn \in LtoFns THEN ev.arg ELSE IF known THEN FixedZone[zone] ELSE 0
      what == IF ~known THEN <<"relational: label year", IF Len(ev.loc) = 0 THEN 0 ELSE InferYear(ev.loc[1], ev.loc[2], PilMonth(ev.pil))>>
              ELSE IF ev.fn \in {"lto_to_time", "to_time"} THEN <<"exact", LtoToTime(ev.pil, ref, off)>>
              ELSE IF ev.fn = "lto_win" THEN <<"one of", LtoWindow(ev.pil, ref, off)>>
              ELSE IF ev.fn = "win" THEN <<"one of", ZoneWindowExact(ev.pil, ref, off)>>
              ELSE <<"exact", PtyWindow(ref, off)>>
  IN PrintT(<<"TV-EXPECT", [frame |-> Frame(ev, cur), tz |-> cur, label |-> <<PilMonth(ev.pil), PilDay(ev.pil), PilHour(ev.pil), PilMinute(ev.pil)>>,
                           reflocal |-> IF ~known THEN [zone |-> zone] ELSE IF StructTmOK(ref) THEN LocalView(ref, off) ELSE Civil(TAdd(ref, off)), spec |-> what,
                           accepted |-> Observed(ev, cur, ref)]>>)
=============================================================================
