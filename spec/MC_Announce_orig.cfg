CONSTANTS Carriers = {"vps", "p1", "p2"} Vals = {"a", "b", "u"} Labels = {"p", "q"} Times = {"t", "s"} Bads = {"bad"}
  WssWords = {"x", "x2", "y", "bad"} MaxRecv = 6 UnknownOnce = FALSE XdsGuard = TRUE Calls = {}
  Handlers = {"h1"} InitMasks = {{"NETWORK", "NETWORK_ID", "PROG_ID", "LOCAL_TIME", "ASPECT", "TTX_PAGE", "CAPTION"}} RegMasks = {} Apis = {"reg"} MaxReg = 0 CdLen = 40 IdleSteps = {} MaxGap = 0 MaxIdle = 0
SPECIFICATION Spec
CONSTRAINT Bounded
INVARIANTS TypeOK Faithful
PROPERTIES OfThisReception OnlyAfterRepeat VpsLabelTwice NetworkMeansChange OneNetworkEvent NotAgainWhileSame StationKept CacheKept CacheDropped Gated WssOnlyAfterRepeats AspectRevertOnlyOnChange GapKeeps DropOutOnce
CHECK_DEADLOCK FALSE
