CONSTANTS Carriers = {"vps", "p1", "p2"} Vals = {"a", "b", "u"} WssWords = {"x", "y", "bad"} MaxRecv = 6 UnknownOnce = FALSE XdsGuard = TRUE Calls = {}
SPECIFICATION Spec
CONSTRAINT Bounded
INVARIANTS TypeOK Faithful
PROPERTIES OnlyAfterRepeat NetworkMeansChange OneNetworkEvent CacheKept CacheDropped WssOnlyAfterRepeats
CHECK_DEADLOCK FALSE
