CONSTANTS Chans = {1, 2, 3, 4} Rows = {0, 7, 13, 14} Chars = {65, 98, 32, 42} MaxPairs = 14
SPECIFICATION GSpec
INVARIANT Dump
CHECK_DEADLOCK FALSE
