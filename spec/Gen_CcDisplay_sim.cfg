\* broad random walks over all four caption channels (also used by checks/c16.py with -depth 16)
CONSTANTS Chans = {1, 2, 3, 4} Rows = {0, 1, 2, 3, 4, 5, 6, 7, 8, 9, 10, 11, 12, 13, 14} Chars = {65, 98, 32, 42} MaxPairs = 14
  Indents = {0, 4, 8, 12, 16, 20, 24, 28} Depths = {2, 3, 4} Tabs = {1, 2, 3}
  Kinds = {"RCL", "RDC", "EOC", "EDM", "ENM", "CR", "BS", "DER", "RU", "TO", "PAC", "PACX", "MID", "SPC", "NULL", "TEXT"}
  Beyond = {}
  Mix <- MixBroad Bursts <- BurstsWalk
SPECIFICATION GSpec
INVARIANT Dump
CHECK_DEADLOCK FALSE
