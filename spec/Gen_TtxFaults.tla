--------------------------- MODULE Gen_TtxFaults ---------------------------
(* Damaged transmissions for the Teletext driver (C03), generated from TtxFaults:
   exhaustive cfgs: one packet sequence per distinct final state of a bounded model (the faults used are
     part of the state, so every fault descriptor in every reachable situation gets its own behaviour);
   simulation cfgs (tlc -simulate): long random transmissions with several faults; the first fault is
     not placed before packet FaultFrom (chosen per walk) so that faults also hit late retransmissions.
   Every step carries the page versions it terminates, incl. the characters an enhancement packet shows at
   Level 1.5 (TtxX26!Lands); the dump ends with the final cache and the pages still in transmission. *)
EXTENDS MC_TtxFaults, Json
CONSTANT FaultFrom           \* set of packet indices; {0} = no restriction
VARIABLES hist, ffrom
gvars == <<vars, hist, ffrom>>
gview == <<mode, open, lastm, cache, flts, npk, ffrom>>
GInit == Init /\ hist = <<>> /\ ffrom \in FaultFrom
\* rows and links: the SET of allowed contents / link set ids (0 = blank / no link) per row 1..24 and link 1..6
RowList(f) == [k \in 1..24 |-> IF k \in DOMAIN f THEN f[k] ELSE {0}]
Ver(v) == [pg |-> v.pg, sub |-> v.sub, nat |-> v.nat, rows |-> RowList(v.rows), links |-> v.links,
           e |-> v.enh.e, n |-> v.enh.n, shown |-> Shown(v), must |-> MustShow(v), hbad |-> v.hbad]
TermOut == [i \in 1..Len(term') |-> Ver(term'[i])]
GNext == /\ npk < MaxPk /\ Next /\ (lastAct'.flt # Ok => npk >= ffrom)
         /\ hist' = Append(hist, [act |-> lastAct', term |-> TermOut]) /\ UNCHANGED ffrom
GSpec == GInit /\ [][GNext]_gvars
OpenKeys == {<<open[m].pg, open[m].sub>> : m \in {x \in Mags : open[x] # None}}
\* ovr: per X/26 packet of the model the positions whose character the enhancement data supply (the damage is put on the
\* parity bit there: the fall-back character sent with even parity of EN 300 706 table 25)
Out == [mode |-> mode, steps |-> hist, final |-> {Ver(c) : c \in cache}, open |-> OpenKeys,
        ovr |-> [e \in 1..Len(Progs) |-> Overridden(Progs[e])]]
\* an invariant is evaluated once per distinct state (by the VIEW): one behaviour per final state
Dump == npk = MaxPk => PrintT(<<"TR", ToJson(Out)>>)
\* only behaviours with a fault whose last packet terminates a page (a comparison point)
DumpT == (npk = MaxPk /\ term # <<>> /\ flts # <<>>) => PrintT(<<"TR", ToJson(Out)>>)
\* behaviours whose last packet terminates a page that has (had) FLOF links, with and without faults
DumpL == (npk = MaxPk /\ term # <<>> /\ \E k \in Links : term[1].links[k] # {0}) => PrintT(<<"TR", ToJson(Out)>>)
\* only behaviours with a fault
DumpF == (npk = MaxPk /\ flts # <<>>) => PrintT(<<"TR", ToJson(Out)>>)
=============================================================================
