------------------------------- MODULE Codecs -------------------------------
(* C12: the VPS, DVB PDC descriptor and Teletext packet 8/30 format 1 / 2 codings as pure operators,
   written from the standards as BIT STREAM FIELD TABLES (which transmitted bit carries which bit of
   which value), not from the C code:

     EN 300 231  8.2.2 (VPS data line, bytes 3..15, transmitted msb first),
                 8.2.1 / EN 300 706 9.8.2 (packet 8/30 format 2, bytes 13..25, Hamming 8/4),
     TR 101 231  (the shared VPS code 0xDC3 and its distinction bit, byte 5 bit 3),
     EN 300 468  6.2.29 (PDC descriptor, tag 0x69, length 3, 4 reserved bits, 20 bit PIL),
     EN 300 706  8.2 (Hamming 8/4), 9.8.1 (packet 8/30 format 1: NI msb first, time offset code,
                 MJD and UTC as BCD digits each incremented by one),
     pdc.h       VBI_PIL(month, day, hour, minute), vbi_program_id, vbi_pid_channel, vbi_cni_type.

   Buffers are sequences of bytes: VPS buffer index k = VPS byte k + 2, Teletext buffer index k =
   packet byte k + 3 (what VBI_SLICED_VPS / VBI_SLICED_TELETEXT_B deliver).  Only arithmetic
   (\div, %, ^) is used.  Every encoder is an OVERLAY: it rewrites exactly the bits the field table
   assigns to the values it stores; every decoder reads exactly those bits. *)
EXTENDS Integers, Sequences, FiniteSets, TLC

Bit(x, k)    == (x \div (2^k)) % 2                 \* bit k of x, bit 0 = lsb
Fld(x, lo, w) == (x \div (2^lo)) % (2^w)
B(p)         == IF p THEN 1 ELSE 0
SumTo(f(_), n) == LET s[k \in 0..n] == IF k = 0 THEN 0 ELSE s[k - 1] + f(k) IN s[n]
FlipBit(buf, i) ==                                  \* bit i of a buffer: byte i \div 8 (0 based), bit i % 8 (lsb = 0)
  TLCEval([buf EXCEPT ![(i \div 8) + 1] = IF Bit(@, i % 8) = 1 THEN @ - 2^(i % 8) ELSE @ + 2^(i % 8)])

(* ------------------------------------------------------------------------------------------ *)
(* Field tables.  An entry says: stream bits s .. s+w-1 carry, most significant first, the bits
   hi, hi-1, .. of value n.                                                                     *)
E(n, hi, s, w) == [n |-> n, hi |-> hi, s |-> s, w |-> w]
NoField == E("-", 0, 0, 0)
OwnerOf(tab, i) == IF \E e \in tab : i \in e.s..(e.s + e.w - 1)
                   THEN CHOOSE e \in tab : i \in e.s..(e.s + e.w - 1) ELSE NoField
\* pairs <<stream bit, weight>> of one value
BitsOf(tab, n, len) == LET g[i \in 0..len] == IF i = len THEN <<>>
                                                ELSE LET e == OwnerOf(tab, i)
                                                     IN (IF e.n = n THEN <<<<i, 2^(e.hi - (i - e.s))>>>> ELSE <<>>) \o g[i + 1]
                       IN g[0]
(* For the streams sent msb first (VPS, descriptor) an encoder / decoder works on SEGMENTS: the part of a table entry that lies
   inside buffer byte k, i.e. w bits at bit blo of the byte (lsb = 0) carrying the value bits vlo .. vlo+w-1.  The plan is
   derived from the field table by TLC; the bit-level view (OwnerOf) is what the frame / independence properties use. *)
SegsOfByte(tab, k) ==
  LET lo == 8 * (k - 1)   hi == 8 * k - 1
      seg(e) == LET s0 == IF e.s > lo THEN e.s ELSE lo
                    s1 == IF e.s + e.w - 1 < hi THEN e.s + e.w - 1 ELSE hi
                IN [n |-> e.n, k |-> k, blo |-> 7 - (s1 % 8), w |-> s1 - s0 + 1, vlo |-> e.hi - (s1 - e.s)]
      T == {seg(e) : e \in {e \in tab : e.s <= hi /\ e.s + e.w - 1 >= lo}}
  IN TLCEval([i \in 1..Cardinality(T) |-> CHOOSE t \in T : Cardinality({u \in T : u.blo > t.blo}) = i - 1])
PlanOf(tab, nbytes) == [k \in 1..nbytes |-> SegsOfByte(tab, k)]
SegsOfName(plan, n) == LET g[k \in 0..Len(plan)] == IF k = 0 THEN <<>> ELSE g[k - 1] \o SelectSeq(plan[k], LAMBDA t : t.n = n) IN g[Len(plan)]
Disjoint(tab) == \A e1, e2 \in tab : e1 # e2 => (e1.s + e1.w <= e2.s \/ e2.s + e2.w <= e1.s)

(* PIL = day(5) month(4) hour(5) minute(6), pdc.h VBI_PIL *)
MkPil(day, month, hour, minute) == day * 32768 + month * 2048 + hour * 64 + minute
PilDay(p) == Fld(p, 15, 5)   PilMonth(p) == Fld(p, 11, 4)   PilHour(p) == Fld(p, 6, 5)   PilMinute(p) == Fld(p, 0, 6)
PilFields(s) == {E("pil", 19, s, 5), E("pil", 14, s + 5, 4), E("pil", 10, s + 9, 5), E("pil", 5, s + 14, 6)}

(* VPS, EN 300 231 Figure 9 / Table 5: stream bit = (byte - 3) * 8 + bit, bit 0 = msb = first transmitted.
   byte 5 bits 0-1 PCS audio, bit 3 the TR 101 231 distinction bit; byte 11 bits 0-1 network bits 7-6;
   byte 11 bit 2 .. byte 13 bit 5 the PIL; byte 13 bits 6-7 + byte 14 bits 0-1 the country (CNI 11..8);
   byte 14 bits 2-7 network bits 5-0; byte 15 PTY.  CNI = country * 256 + network.                 *)
VpsAt(byte, bit) == (byte - 3) * 8 + bit
VpsTab == {E("pcs", 1, VpsAt(5, 0), 2), E("dist", 0, VpsAt(5, 3), 1),
           E("cni", 7, VpsAt(11, 0), 2), E("cni", 11, VpsAt(13, 6), 2), E("cni", 9, VpsAt(14, 0), 2),
           E("cni", 5, VpsAt(14, 2), 6), E("pty", 7, VpsAt(15, 0), 8)} \cup PilFields(VpsAt(11, 2))
VpsLen == 104
VpsOwner == TLCEval([i \in 0..(VpsLen - 1) |-> OwnerOf(VpsTab, i)])
VpsPlan  == TLCEval(PlanOf(VpsTab, 13))
VpsSegs  == TLCEval([n \in {"pcs", "dist", "cni", "pil", "pty"} |-> SegsOfName(VpsPlan, n)])

(* DVB PDC descriptor, EN 300 468 6.2.29: tag(8) length(8) reserved_future_use(4) PIL(20), msb first *)
DvbTab == {E("tag", 7, 0, 8), E("len", 7, 8, 8), E("rsv", 3, 16, 4)} \cup PilFields(20)
DvbLen == 40
DvbOwner == TLCEval([i \in 0..(DvbLen - 1) |-> OwnerOf(DvbTab, i)])
DvbPlan  == TLCEval(PlanOf(DvbTab, 5))
DvbSegs  == TLCEval([n \in {"tag", "len", "rsv", "pil"} |-> SegsOfName(DvbPlan, n)])

(* Packet 8/30 format 2, EN 300 231 Table 4: the 13 x 4 data bits of bytes 13..25 in transmission
   order (stream bit = (byte - 13) * 4 + d, d = 0 for data bit D1).  Every value is sent msb first.
   byte 13: LCI b1 b2, LUF, PRF; byte 14: PCS b1 b2, MI, reserved; byte 15: CNI 15..12;
   bytes 16..25: the contents of VPS bytes 11..15.                                              *)
P2Tab == {E("lci", 1, 0, 2), E("luf", 0, 2, 1), E("prf", 0, 3, 1), E("pcs", 1, 4, 2), E("mi", 0, 6, 1),
          E("rsv", 0, 7, 1), E("cni", 15, 8, 4), E("cni", 7, 12, 2), E("cni", 11, 34, 2), E("cni", 9, 36, 2),
          E("cni", 5, 38, 6), E("pty", 7, 44, 8)} \cup PilFields(14)
P2Len == 52
P2Names == {"lci", "luf", "prf", "pcs", "mi", "rsv", "cni", "pil", "pty"}
P2Owner == TLCEval([i \in 0..(P2Len - 1) |-> OwnerOf(P2Tab, i)])
P2Bits  == TLCEval([n \in P2Names |-> BitsOf(P2Tab, n, P2Len)])
\* the nibbles (0 based index = byte - 13) that carry CNI bits
P2CniNibbles == TLCEval({i \div 4 : i \in {j \in 0..(P2Len - 1) : P2Owner[j].n = "cni"}})

(* ------------------------------------------------------------------------------------------ *)
(* Hamming 8/4, EN 300 706 8.2: bits b1..b8 (b1 first transmitted = lsb) = P1 D1 P2 D2 P3 D3 P4 D4 *)
X4(a, b, c, d) == (a + b + c + d) % 2
Ham84(d) == LET d1 == Bit(d, 0)  d2 == Bit(d, 1)  d3 == Bit(d, 2)  d4 == Bit(d, 3)
                p1 == X4(1, d1, d3, d4)  p2 == X4(1, d1, d2, d4)  p3 == X4(1, d1, d2, d3)
                p4 == (1 + p1 + d1 + p2 + d2 + p3 + d3 + d4) % 2
            IN p1 + 2 * d1 + 4 * p2 + 8 * d2 + 16 * p3 + 32 * d3 + 64 * p4 + 128 * d4
\* the receiver of 8.2 (Table 2): parity tests A B C over (P1 D1 D3 D4) (D1 P2 D2 D4) (D1 D2 P3 D3), D over all
Unham84Tests(c) ==
  LET b(k) == Bit(c, k - 1)
      A == X4(b(1), b(2), b(6), b(8))  Bt == X4(b(2), b(3), b(4), b(8))  C == X4(b(2), b(4), b(5), b(6))
      D == (b(1) + b(2) + b(3) + b(4) + b(5) + b(6) + b(7) + b(8)) % 2
      data(x) == Bit(x, 1) + 2 * Bit(x, 3) + 4 * Bit(x, 5) + 8 * Bit(x, 7)
      \* the single bit taking part in exactly the failing tests
      bad == CASE A = 0 /\ Bt = 1 /\ C = 1 -> 1   [] A = 1 /\ Bt = 0 /\ C = 1 -> 3   [] A = 1 /\ Bt = 1 /\ C = 0 -> 5
               [] A = 0 /\ Bt = 0 /\ C = 0 -> 2   [] A = 1 /\ Bt = 0 /\ C = 0 -> 4   [] A = 0 /\ Bt = 1 /\ C = 0 -> 6
               [] A = 0 /\ Bt = 0 /\ C = 1 -> 8
  IN IF A = 1 /\ Bt = 1 /\ C = 1 THEN data(c)                       \* no error, or P4 wrong
     ELSE IF D = 1 THEN -1                                           \* double error
     ELSE data(IF b(bad) = 1 THEN c - 2^(bad - 1) ELSE c + 2^(bad - 1))
Unham84 == TLCEval([c \in 0..255 |-> Unham84Tests(c)])
Dist8(a, b) == SumTo(LAMBDA k : B(Bit(a, k - 1) # Bit(b, k - 1)), 8)

(* ------------------------------------------------------------------------------------------ *)
(* vbi_program_id as far as the codecs define it.  Channels / CNI types: pdc.h, network.h        *)
ChVps == 4   ChDvb == 5   CtNone == 0   CtVps == 1   Ct8302 == 3
Pid(ch, ct, cni, pil, luf, mi, prf, pcs, pty) ==
  [ch |-> ch, ct |-> ct, cni |-> cni, pil |-> pil, luf |-> luf, mi |-> mi, prf |-> prf, pcs |-> pcs, pty |-> pty,
   td |-> 0, rsv |-> 0]

(* ---------------------------------------- VPS --------------------------------------------- *)
VBit(b, i) == Bit(b[(i \div 8) + 1], 7 - (i % 8))
GetSegs(b, L) == SumTo(LAMBDA j : Fld(b[L[j].k], L[j].blo, L[j].w) * 2^(L[j].vlo), Len(L))
VpsGet(b, n) == GetSegs(b, VpsSegs[n])
VpsRawCni(b) == VpsGet(b, "cni")
\* overlay: the segments of the values in `names` are replaced by the bits of vals[name], everything else is kept
Overlay(b, plan, names, vals) ==
  TLCEval([k \in 1..Len(plan) |->
     LET sg == plan[k]
     IN b[k] + SumTo(LAMBDA j : IF sg[j].n \in names
                                THEN (Fld(vals[sg[j].n], sg[j].vlo, sg[j].w) - Fld(b[k], sg[j].blo, sg[j].w)) * 2^(sg[j].blo) ELSE 0, Len(sg))])

DecVpsCni(b) == LET raw == VpsRawCni(b)
                IN IF raw = 3523 (* 0xDC3 *) THEN (IF VpsGet(b, "dist") = 1 THEN 3521 (* ARD 0xDC1 *) ELSE 3522 (* ZDF 0xDC2 *))
                   ELSE raw
DecVpsPdc(b) == [ok |-> TRUE,
                 pid |-> Pid(ChVps, CtVps, DecVpsCni(b), VpsGet(b, "pil"), 0, 1, 0, VpsGet(b, "pcs"), VpsGet(b, "pty"))]

EncVpsCni(b, cni) ==
  IF cni \notin 0..4095 THEN [ok |-> FALSE, buf |-> b]
  ELSE [ok |-> TRUE, buf |-> Overlay(b, VpsPlan, {"cni"}, [cni |-> cni])]
PidInVpsRange(p) == p.cni \in 0..4095 /\ p.pil \in 0..1048575 /\ p.pcs \in 0..3 /\ p.pty \in 0..255
EncVpsPdc(b, p) ==
  IF ~PidInVpsRange(p) THEN [ok |-> FALSE, buf |-> b]
  ELSE [ok |-> TRUE, buf |-> Overlay(b, VpsPlan, {"cni", "pil", "pcs", "pty"},
                                     [cni |-> p.cni, pil |-> p.pil, pcs |-> p.pcs, pty |-> p.pty])]

(* ---------------------------------- DVB PDC descriptor ------------------------------------ *)
DvbGet(b, n) == GetSegs(b, DvbSegs[n])
DecDvb(b) == IF DvbGet(b, "tag") # 105 (* 0x69 *) \/ DvbGet(b, "len") # 3 THEN [ok |-> FALSE]
             ELSE [ok |-> TRUE, pid |-> Pid(ChDvb, CtNone, 0, DvbGet(b, "pil"), 0, 1, 0, 0, 0)]
EncDvb(b, p) ==
  IF p.pil \notin 0..1048575 THEN [ok |-> FALSE, buf |-> b]
  ELSE [ok |-> TRUE, buf |-> Overlay(b, DvbPlan, {"tag", "len", "rsv", "pil"},
                                     [tag |-> 105, len |-> 3, rsv |-> 15 (* 3.1: reserved_future_use = 1 *), pil |-> p.pil])]

(* ------------------------------------- packet 8/30 ---------------------------------------- *)
TB(b, n) == b[n - 3]                                    \* packet byte n = 4..45
\* format 2: the 13 Hamming decoded nibbles of bytes 13..25 (-1 = uncorrectable)
P2Nibbles(b) == TLCEval([k \in 1..13 |-> Unham84[TB(b, 12 + k)]])
NBit(nb, i) == Bit(nb[(i \div 4) + 1], i % 4)
P2Get(nb, n) == LET L == P2Bits[n] IN SumTo(LAMBDA k : NBit(nb, L[k][1]) * L[k][2], Len(L))
P2Cni(nb) == P2Get(nb, "cni")
Dec8302Pdc(b) == LET nb == P2Nibbles(b)
                 IN IF \E k \in 1..13 : nb[k] < 0 THEN [ok |-> FALSE]
                    ELSE [ok |-> TRUE, pid |-> Pid(P2Get(nb, "lci"), Ct8302, P2Cni(nb), P2Get(nb, "pil"), P2Get(nb, "luf"),
                                                   P2Get(nb, "mi"), P2Get(nb, "prf"), P2Get(nb, "pcs"), P2Get(nb, "pty"))]
(* The CNI alone: it MUST be refused when a byte carrying CNI bits is uncorrectable, it MUST be delivered when
   all 13 bytes are correctable; when only other bytes are damaged either is allowed, but a delivered CNI
   is always the one the (corrected) CNI bytes carry. *)
Dec8302CniMustReject(b) == LET nb == P2Nibbles(b) IN \E k \in P2CniNibbles : nb[k + 1] < 0
Dec8302CniMustAccept(b) == LET nb == P2Nibbles(b) IN \A k \in 1..13 : nb[k] >= 0
Dec8302CniValue(b) == LET nb == P2Nibbles(b) IN P2Cni(TLCEval([k \in 1..13 |-> IF nb[k] < 0 THEN 0 ELSE nb[k]]))
\* transmitter: v = [lci, luf, prf, pcs, mi, cni, pil, pty]; bytes 13..25 are rewritten entirely
Enc8302(b, v) ==
  LET vals == [n \in P2Names |-> IF n = "rsv" THEN 0 ELSE v[n]]
      nib(k) == SumTo(LAMBDA j : LET i == 4 * (k - 1) + (j - 1)   e == P2Owner[i]
                                 IN Bit(vals[e.n], e.hi - (i - e.s)) * 2^(j - 1), 4)
  IN TLCEval([k \in 1..42 |-> IF k \in 10..22 THEN Ham84(nib(k - 9)) ELSE b[k]])
P2InRange(v) == v.lci \in 0..3 /\ v.luf \in 0..1 /\ v.prf \in 0..1 /\ v.pcs \in 0..3 /\ v.mi \in 0..1
                /\ v.cni \in 0..65535 /\ v.pil \in 0..1048575 /\ v.pty \in 0..255

(* format 1, EN 300 706 9.8.1.  Bytes 13-14: NI, 16 bits transmitted msb first (Teletext bytes go lsb first,
   so each buffer byte holds its 8 NI bits reversed).  Byte 15 time offset code: bit 1 = 1, bits 2..6 the
   magnitude in half hours (bit 2 = lsb), bit 7 = 1 for a negative (west) offset, bit 8 = 1.
   Byte 16 bits 1-4, byte 17, byte 18: the five MJD digits, bytes 19-21: hours, minutes, seconds as two digits
   each, every digit incremented by one, the more significant digit in bits 5-8.                     *)
Rev8(x) == SumTo(LAMBDA k : Bit(x, k - 1) * 2^(8 - k), 8)
Dec8301Cni(b) == Rev8(TB(b, 13)) * 256 + Rev8(TB(b, 14))
LtoCode(b) == Fld(TB(b, 15), 1, 6)                       \* 0..63: sign * 32 + half hours
LtoSeconds(code) == (IF code >= 32 THEN -1 ELSE 1) * (code % 32) * 1800
MjdNibbles(b) == <<Fld(TB(b, 16), 0, 4), Fld(TB(b, 17), 4, 4), Fld(TB(b, 17), 0, 4), Fld(TB(b, 18), 4, 4), Fld(TB(b, 18), 0, 4)>>
UtcNibbles(b) == <<Fld(TB(b, 19), 4, 4), Fld(TB(b, 19), 0, 4), Fld(TB(b, 20), 4, 4), Fld(TB(b, 20), 0, 4),
                   Fld(TB(b, 21), 4, 4), Fld(TB(b, 21), 0, 4)>>
DigitsOK(nibs) == \A k \in 1..Len(nibs) : nibs[k] \in 1..10
\* MJD 40587 = 1970-01-01: MJD 0 is 1858-11-17; 45 days to 1859-01-01, then the years 1859..1969
LeapYear(y) == (y % 4 = 0 /\ y % 100 # 0) \/ y % 400 = 0
Mjd1970 == TLCEval(45 + SumTo(LAMBDA k : IF LeapYear(1858 + k) THEN 366 ELSE 365, 111))
(* The time as (days since 1970-01-01, second of the day): the product does not fit TLC's 32 bit integers.
   A seconds value of 60 (UTC leap second) is BCD valid and counts as the first second of the next minute. *)
Dec8301Time(b) ==
  LET m == MjdNibbles(b)  u == UtcNibbles(b)
      mjd == (m[1] - 1) * 10000 + (m[2] - 1) * 1000 + (m[3] - 1) * 100 + (m[4] - 1) * 10 + (m[5] - 1)
      hh == (u[1] - 1) * 10 + (u[2] - 1)  mm == (u[3] - 1) * 10 + (u[4] - 1)  ss == (u[5] - 1) * 10 + (u[6] - 1)
      sod == hh * 3600 + mm * 60 + ss
  IN IF ~DigitsOK(m) \/ ~DigitsOK(u) \/ hh > 23 \/ mm > 59 \/ ss > 60 THEN [ok |-> FALSE]
     ELSE [ok |-> TRUE, days |-> (mjd - Mjd1970) + (sod \div 86400), secs |-> sod % 86400, east |-> LtoSeconds(LtoCode(b))]
\* transmitter: v = [cni, lto (code 0..63), mjd, h, m, s]; rewrites NI, the 6 code bits, the 11 digit nibbles
Enc8301(b, v) ==
  LET d(x, p) == ((x \div p) % 10) + 1
  IN TLCEval([k \in 1..42 |->
       CASE k = 10 -> Rev8(v.cni \div 256)   [] k = 11 -> Rev8(v.cni % 256)
         [] k = 12 -> b[k] - Fld(b[k], 1, 6) * 2 + v.lto * 2
         [] k = 13 -> b[k] - Fld(b[k], 0, 4) + d(v.mjd, 10000)
         [] k = 14 -> d(v.mjd, 1000) * 16 + d(v.mjd, 100)   [] k = 15 -> d(v.mjd, 10) * 16 + d(v.mjd, 1)
         [] k = 16 -> d(v.h, 10) * 16 + d(v.h, 1)   [] k = 17 -> d(v.m, 10) * 16 + d(v.m, 1)
         [] k = 18 -> d(v.s, 10) * 16 + d(v.s, 1)
         [] OTHER -> b[k]])
P1InRange(v) == v.cni \in 0..65535 /\ v.lto \in 0..63 /\ v.mjd \in 0..99999 /\ v.h \in 0..23 /\ v.m \in 0..59 /\ v.s \in 0..60

(* ------------------------------------------------------------------------------------------ *)
(* Sanity of the tables and of the Hamming code, checked by TLC when the module is loaded.       *)
ASSUME Disjoint(VpsTab) /\ Disjoint(DvbTab) /\ Disjoint(P2Tab)
ASSUME \A i \in 0..(P2Len - 1) : P2Owner[i] # NoField           \* every data bit of format 2 is assigned
ASSUME \A i \in 0..(DvbLen - 1) : DvbOwner[i] # NoField
ASSUME Mjd1970 = 40587
ASSUME \A d \in 0..15 : Unham84[Ham84(d)] = d
\* the receiver of 8.2 is nearest-codeword decoding within distance 1, everything else is refused
ASSUME \A c \in 0..255 : LET near == {d \in 0..15 : Dist8(Ham84(d), c) <= 1}
                         IN IF near = {} THEN Unham84[c] = -1 ELSE near = {Unham84[c]}
=============================================================================
