\* mode changes on field 1: pop-on captions loaded, flipped, erased; roll-up and paint-on started from them
CONSTANTS Chans = {1} Rows = {13} Chars = {65} MaxPairs = 7
  Indents = {0} Depths = {2, 4} Tabs = {1}
  Kinds = {"RCL", "EOC", "RU", "RDC", "EDM", "ENM", "PAC", "TEXT"}
  Beyond = {}
  Mix <- NoMix Bursts <- NoBurst
SPECIFICATION GSpec
VIEW gview2
ACTION_CONSTRAINT TDump
CHECK_DEADLOCK FALSE
