----------------------------- MODULE MC_PilTime -----------------------------
(* exploration grids for PilTime (tuples, negative numbers and functions cannot be written in a .cfg) *)
EXTENDS PilTime
YearsQ == {1970, 2000, 2038}
YearsT == {1970, 1999, 2000, 2037, 2038, 2100}
(* first day 00:00:00, 15th 12:34:56, last day 23:59:59 of a month *)
RefOf(y, m, k) == IF k = 1 THEN FromCivil(0, y, m, 1, 0, 0, 0)
                  ELSE IF k = 2 THEN FromCivil(0, y, m, 15, 12, 34, 56)
                  ELSE FromCivil(0, y, m, MonthLen(y, m), 23, 59, 59)
RefsQ == {RefOf(y, m, k) : y \in YearsQ, m \in 1..12, k \in {1, 3}}
RefsT == {RefOf(y, m, k) : y \in YearsT, m \in 1..12, k \in 1..3}
Refs32 == {RefOf(y, m, k) : y \in {2037, 2038}, m \in {1, 2, 6, 7, 8, 12}, k \in {1, 3}} \cup {T(0, 24855, 11647), T(-1, 121241, 74752)}
RefsOne == {T(0, 11016, 43200)}
RefsEdge == {T(0, 11016, 43200), T(0, 10956, 86399)}        \* 2000-02-29 12:00:00, 1999-12-31 23:59:59
OffsEdge == {-20700, 3600}
(* a few instants at the ends of the 64 bit range and where struct tm gives up *)
RefsFar == {T(730692561, 82883, 55807), T(730692561, 82700, 0), T(-730692562, 63213, 30592), T(-730692562, 63400, 0),
            T(4999999, 100, 0), T(-4999999, 100, 0), T(-1, Cycle - 1, Day - 1), T(0, 0, 0)}
OffsQ == {-50400, -20700, -3600, 0, 3600, 20700, 50400}
OffsT == {h * 3600 : h \in -14..14} \cup {-20700, 20700}
OffsNone == {}
DaysQ == {1, 15, 28, 29, 30, 31}
DaysAll == 1..31
FieldsAll5 == 0..31
MonthsAll == 0..15
HoursEdge == {0, 3, 4, 12, 23, 24, 31}
MinutesEdge == {0, 59, 60, 63}
Fixed == ("SUTC" :> 0) @@ ("SXYZ-5:45" :> 20700) @@ ("SXYZ14" :> -50400) @@ ("SXYZ-14" :> 50400)
         @@ ("SXYZ3:30" :> -12600) @@ ("SXYZ-0:00:01" :> 1)
Reject == {"S", "SA=B"}
TzAll == {"U", "S", "SUTC", "SCET-1CEST", "SEurope/London"}
=============================================================================
