CONSTANTS Clients = {1, 2} Services = {"a", "b"} Supported = {"a", "b"} Base = 1 S = 1 MaxFrames = 4 Threaded = TRUE LevelsUsed = {1} Discards = {FALSE} Faulty = {}
SPECIFICATION Spec
INVARIANTS TypeOK RefCount CursorOK QueueOrder Buffers Delivery InOrder DeviceOpen CanCapture
PROPERTIES Filtered LossOnlyWhenFull OnlyBlockedLose OthersKept
CHECK_DEADLOCK FALSE
