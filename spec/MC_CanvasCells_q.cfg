CONSTANTS Pages <- SmallPages Formats = {"RGBA32_LE", "PAL8", "YUV420"} Strides = {"exact", "plus5"} MaxDraws = 2 Clip = "region"
SPECIFICATION Spec
INVARIANTS Faithful MarginUntouched
PROPERTIES Frame NothingIfUnsupported ImplementsPost
CHECK_DEADLOCK FALSE
