------------------------------ MODULE MC_Codecs ------------------------------
(* C12: the properties of the codings of Codecs.tla, decided by TLC over the full value ranges.
   The state is one test case (family, cx, cy; the names x and y are avoided: they are parameter
   names in Codecs and a variable of the same name stops TLC from caching the constant tables); the cases of a family are enumerated in blocks so that
   the workers share them.  Every clause of the property is one invariant:
     Inverse      Dec(Enc(v)) = v  (0xDC3 decodes to 0xDC1 / 0xDC2 by the distinction bit)
     Frame        Enc changes only the bits of the fields it writes (six backgrounds)
     ReEncode     Enc(b, Dec(b)) = b for every produced packet b (raw VPS code 0xDC3 excepted)
     Rejects      out-of-range values / bad BCD digits / non-times / uncorrectable bytes / wrong tag are
                  refused, encoders return the buffer unchanged
     ErrorTolerant one flipped bit per Hamming byte never changes the decoded values
     Independent  each output bit depends only on its field: flipping one background bit flips exactly that
                  bit of the output, or nothing when a written field owns it; decoders ignore foreign bits *)
EXTENDS Codecs
CONSTANTS PilStep,       \* 1: all 2^20 PILs; n > 1: every n-th PIL plus the per-field sweeps
          Step,          \* the same for the 16 bit CNIs, the MJDs and the times of day
          Fams           \* the case families to run (a subset of DOMAIN Fam)
VARIABLES ph, fam, cx, cy
vars == <<ph, fam, cx, cy>>

Seeded(k, len) == TLCEval([i \in 1..len |-> (k * 97 + i * i * 31 + i * k * 7 + (i * 131) \div (k + 2)) % 256])
Bg(len) == <<TLCEval([i \in 1..len |-> 0]), TLCEval([i \in 1..len |-> 255]), TLCEval([i \in 1..len |-> 170]), Seeded(1, len), Seeded(5, len), Seeded(11, len)>>
Bg13 == TLCEval(Bg(13))   Bg5 == TLCEval(Bg(5))   Bg42 == TLCEval(Bg(42))
NBg == 6

\* family |-> <<number of cx values, number of cy values>>
Fam == [vcni |-> <<4096, NBg>>, pil |-> <<1048576, 1>>, pp |-> <<1024, NBg>>, flg |-> <<128, NBg>>, c16 |-> <<65536, 1>>,
        mjd |-> <<100000, 1>>, utc |-> <<87840, 1>>, lto |-> <<64, NBg>>, h1 |-> <<104, 8>>, h2 |-> <<13, 64>>, h3 |-> <<104, 104>>,
        rej |-> <<12, NBg>>, bcd |-> <<11, 6>>, rng |-> <<300, 1>>, tag |-> <<512, 1>>, ind |-> <<104, NBg>>, ind8 |-> <<336, NBg>>]
BlockSize == 1024
NBlocks(f) == (Fam[f][1] + BlockSize - 1) \div BlockSize
PilSweep == {MkPil(d, 0, 0, 0) : d \in 0..31} \cup {MkPil(31, m, 31, 63) : m \in 0..15} \cup {MkPil(0, 0, h, 0) : h \in 0..31}
            \cup {MkPil(31, 15, 0, mi) : mi \in 0..63} \cup {MkPil(d, m, 31, 63) : d \in {0, 31}, m \in 0..15}
Sweep == [pil |-> PilSweep,
          c16 |-> {0, 65535, 3523, 7619, 64963} \cup {2^k : k \in 0..15} \cup {65535 - 2^k : k \in 0..15},
          mjd |-> {0, 40586, 40587, 40588, 99999} \cup {d * 10^k : d \in 0..9, k \in 0..4} \cup {99999 - d * 10^k : d \in 0..9, k \in 0..4},
          utc |-> {h * 3600 : h \in 0..23} \cup {m * 60 : m \in 0..59} \cup (0..59) \cup {86399 - h * 3600 : h \in 0..23}
                  \cup {86399 - m * 60 : m \in 0..59} \cup (86340..86399) \cup {86400 + 1439}]
XWanted(f, v) == IF f \notin DOMAIN Sweep THEN TRUE
                 ELSE LET st == IF f = "pil" THEN PilStep ELSE Step IN (IF v % st = 0 THEN TRUE ELSE v \in Sweep[f])

Init == ph = "start" /\ fam = "-" /\ cx = 0 /\ cy = 0
Next == \/ /\ ph = "start"
           /\ \E f \in Fams : \E blk \in 0..(NBlocks(f) - 1) : ph' = "blk" /\ fam' = f /\ cx' = blk /\ cy' = 0
        \/ /\ ph = "blk"
           /\ \E v \in (cx * BlockSize)..((cx + 1) * BlockSize - 1) : \E w \in 1..Fam[fam][2] :
                /\ v < Fam[fam][1] /\ XWanted(fam, v)
                /\ ph' = "leaf" /\ fam' = fam /\ cx' = v /\ cy' = w
Spec == Init /\ [][Next]_vars

(* ---------------------------------- the case of a state ----------------------------------- *)
DC3 == 3523
CniSeen(bg, cni) == IF cni = DC3 THEN (IF VpsGet(bg, "dist") = 1 THEN 3521 ELSE 3522) ELSE cni
\* deterministic companions for the values a family does not sweep
Mix(v, a, c, m) == ((v % 30011) * a + c) % m
VpsPidOf(v) == Pid(Mix(v, 3, 1, 6), Mix(v, 5, 0, 4), Mix(v, 13, 5, 4096), v % 1048576, Mix(v, 7, 0, 2), Mix(v, 11, 1, 2), Mix(v, 3, 1, 2),
                   Mix(v, 1, 0, 4), Mix(v, 17, 9, 256))
P2ValOf(v) == [lci |-> Mix(v, 1, 1, 4), luf |-> Mix(v, 7, 0, 2), prf |-> Mix(v, 3, 1, 2), pcs |-> Mix(v, 5, 2, 4), mi |-> Mix(v, 11, 1, 2),
               cni |-> Mix(v, 211, 77, 65536), pil |-> v % 1048576, pty |-> Mix(v, 17, 9, 256)]
P2PidOf(v) == Pid(v.lci, Ct8302, v.cni, v.pil, v.luf, v.mi, v.prf, v.pcs, v.pty)
P1ValOf(v) == [cni |-> Mix(v, 211, 77, 65536), lto |-> Mix(v, 5, 3, 64), mjd |-> Mix(v, 3, 40587, 100000), h |-> Mix(v, 7, 1, 24),
               m |-> Mix(v, 11, 2, 60), s |-> Mix(v, 13, 3, 60)]
P1TimeOf(v) == LET sod == v.h * 3600 + v.m * 60 + v.s
               IN [ok |-> TRUE, days |-> v.mjd - 40587 + (sod \div 86400), secs |-> sod % 86400, east |-> LtoSeconds(v.lto)]
VpsFrame(bg, out, names) == \A i \in 0..(VpsLen - 1) : VpsOwner[i].n \notin names => VBit(out, i) = VBit(bg, i)
BgOf(v) == (v % NBg) + 1
\* buffer bit index (FlipBit) of a VPS / descriptor stream bit (msb first)
SBit(i) == (i \div 8) * 8 + 7 - (i % 8)

(* per family: the record of clause results; a clause a family does not address is absent *)
CaseVcni == LET bg == Bg13[cy]  r == EncVpsCni(bg, cx)
            IN [inverse |-> r.ok /\ VpsRawCni(r.buf) = cx /\ DecVpsCni(r.buf) = CniSeen(bg, cx),
                frame   |-> VpsFrame(bg, r.buf, {"cni"}),
                reenc   |-> cx # DC3 => EncVpsCni(r.buf, DecVpsCni(r.buf)) = [ok |-> TRUE, buf |-> r.buf]]
VpsPdcClauses(bg, p) ==
  LET r == EncVpsPdc(bg, p)  d == DecVpsPdc(r.buf)
  IN [inverse |-> r.ok /\ d.ok /\ d.pid = Pid(ChVps, CtVps, CniSeen(bg, p.cni), p.pil, 0, 1, 0, p.pcs, p.pty),
      frame   |-> VpsFrame(bg, r.buf, {"cni", "pil", "pcs", "pty"}),
      reenc   |-> p.cni # DC3 => EncVpsPdc(r.buf, d.pid) = [ok |-> TRUE, buf |-> r.buf]]
P2Clauses(bg, v) ==
  LET b == Enc8302(bg, v)  d == Dec8302Pdc(b)
  IN [inverse |-> d.ok /\ d.pid = P2PidOf(v) /\ Dec8302CniMustAccept(b) /\ ~Dec8302CniMustReject(b) /\ Dec8302CniValue(b) = v.cni,
      frame   |-> \A k \in 1..42 : k \notin 10..22 => b[k] = bg[k],
      reenc   |-> Enc8302(b, [lci |-> d.pid.ch, luf |-> d.pid.luf, prf |-> d.pid.prf, pcs |-> d.pid.pcs, mi |-> d.pid.mi,
                              cni |-> d.pid.cni, pil |-> d.pid.pil, pty |-> d.pid.pty]) = b]
P1Owned(i) == (i \div 8) + 1 \in {10, 11, 14, 15, 16, 17, 18} \/ ((i \div 8) + 1 = 12 /\ i % 8 \in 1..6) \/ ((i \div 8) + 1 = 13 /\ i % 8 \in 0..3)
P1Clauses(bg, v) ==
  LET b == Enc8301(bg, v)
  IN [inverse |-> Dec8301Cni(b) = v.cni /\ Dec8301Time(b) = P1TimeOf(v) /\ LtoCode(b) = v.lto,
      frame   |-> \A i \in 0..335 : ~P1Owned(i) => Bit(b[(i \div 8) + 1], i % 8) = Bit(bg[(i \div 8) + 1], i % 8),
      reenc   |-> Enc8301(b, v) = b]
And(a, b) == [inverse |-> a.inverse /\ b.inverse, frame |-> a.frame /\ b.frame, reenc |-> a.reenc /\ b.reenc]
CasePil == LET p == VpsPidOf(cx)  dv == EncDvb(Bg5[BgOf(cx)], p)  dd == DecDvb(dv.buf)
               dvb == [inverse |-> dv.ok /\ dd.ok /\ dd.pid = Pid(ChDvb, CtNone, 0, cx, 0, 1, 0, 0, 0),
                       frame   |-> dv.buf = EncDvb(Bg5[BgOf(cx + 1)], p).buf /\ DvbGet(dv.buf, "rsv") = 15,     \* all 40 bits are written
                       reenc   |-> EncDvb(dv.buf, dd.pid) = dv]
           IN And(And(VpsPdcClauses(Bg13[BgOf(cx)], p), dvb), P2Clauses(Bg42[BgOf(cx)], P2ValOf(cx)))
CasePp == LET pv == [VpsPidOf(cx * 1031) EXCEPT !.pcs = cx \div 256, !.pty = cx % 256]
              tv == [P2ValOf(cx * 1031) EXCEPT !.pcs = cx \div 256, !.pty = cx % 256]
          IN And(VpsPdcClauses(Bg13[cy], pv), P2Clauses(Bg42[cy], tv))
CaseFlg == P2Clauses(Bg42[cy], [P2ValOf(cx * 523) EXCEPT !.lci = cx % 4, !.luf = (cx \div 4) % 2, !.mi = (cx \div 8) % 2,
                                                      !.prf = (cx \div 16) % 2, !.pcs = cx \div 32])
CaseC16 == And(P1Clauses(Bg42[BgOf(cx)], [P1ValOf(cx) EXCEPT !.cni = cx]), P2Clauses(Bg42[BgOf(cx)], [P2ValOf(cx) EXCEPT !.cni = cx]))
CaseMjd == P1Clauses(Bg42[BgOf(cx)], [P1ValOf(cx) EXCEPT !.mjd = cx])
\* all 86 400 seconds of the day, then the 1 440 leap second positions hh:mm:60
CaseUtc == P1Clauses(Bg42[BgOf(cx)],
                     IF cx < 86400 THEN [P1ValOf(cx) EXCEPT !.h = cx \div 3600, !.m = (cx \div 60) % 60, !.s = cx % 60]
                     ELSE [P1ValOf(cx) EXCEPT !.h = (cx - 86400) \div 60, !.m = (cx - 86400) % 60, !.s = 60])
CaseLto == P1Clauses(Bg42[cy], [P1ValOf(cx * 17) EXCEPT !.lto = cx])

\* Hamming: cx = bit inside bytes 13..25, cy = sample
HSample(k) == P2ValOf(k * 104729 + 12345)
CaseH1 == LET b == Enc8302(Bg42[BgOf(cy)], HSample(cy))  c == FlipBit(b, 72 + cx)
          IN [tolerant |-> Dec8302Pdc(c) = Dec8302Pdc(b) /\ Dec8302CniMustAccept(c) /\ Dec8302CniValue(c) = HSample(cy).cni]
\* two flipped bits in one byte: cx = byte 0..12, cy - 1 = i * 8 + j
CaseH2 == LET b == Enc8302(Bg42[BgOf(cx)], HSample(cx))  i == (cy - 1) \div 8  j == (cy - 1) % 8
              c == FlipBit(FlipBit(b, 72 + cx * 8 + i), 72 + cx * 8 + j)
          IN [rejects |-> i # j => (~Dec8302Pdc(c).ok /\ ~Dec8302CniMustAccept(c) /\ (cx \in P2CniNibbles => Dec8302CniMustReject(c)))]
\* one flipped bit in each of two different bytes
CaseH3 == LET b == Enc8302(Bg42[BgOf(cx)], HSample(cx + cy))  c == FlipBit(FlipBit(b, 72 + cx), 72 + cy - 1)
          IN [tolerant |-> cx \div 8 # (cy - 1) \div 8 => Dec8302Pdc(c) = Dec8302Pdc(b)]

BadPids == LET g == VpsPidOf(4711)
           IN <<[g EXCEPT !.cni = 4096], [g EXCEPT !.cni = 65535], [g EXCEPT !.cni = -1], [g EXCEPT !.cni = 2147483647],
                [g EXCEPT !.pil = 1048576], [g EXCEPT !.pil = -1], [g EXCEPT !.pil = 2147483647],
                [g EXCEPT !.pcs = 4], [g EXCEPT !.pcs = -1], [g EXCEPT !.pty = 256], [g EXCEPT !.pty = -1], [g EXCEPT !.pty = 2147483647]>>
CaseRej == LET p == BadPids[cx + 1]
           IN [rejects |-> /\ EncVpsPdc(Bg13[cy], p) = [ok |-> FALSE, buf |-> Bg13[cy]]
                           /\ (p.cni \notin 0..4095 => EncVpsCni(Bg13[cy], p.cni) = [ok |-> FALSE, buf |-> Bg13[cy]])
                           /\ (p.pil \notin 0..1048575 => EncDvb(Bg5[cy], p) = [ok |-> FALSE, buf |-> Bg5[cy]])]
\* cx = digit position 0..10 (5 MJD, 6 UTC digits), cy = the offending nibble value
DigitAt(pos) == <<<<13, 0>>, <<14, 4>>, <<14, 0>>, <<15, 4>>, <<15, 0>>, <<16, 4>>, <<16, 0>>, <<17, 4>>, <<17, 0>>, <<18, 4>>, <<18, 0>>>>[pos + 1]
SetNibble(b, pos, val) == LET at == DigitAt(pos) IN TLCEval([b EXCEPT ![at[1]] = @ - Fld(@, at[2], 4) * 2^(at[2]) + val * 2^(at[2])])
CaseBcd == LET b == Enc8301(Bg42[cy], P1ValOf(cx * 7919 + cy))  bad == <<0, 11, 12, 13, 14, 15>>[cy]
           IN [rejects |-> ~Dec8301Time(SetNibble(b, cx, bad)).ok]
\* BCD valid but no time of day: cx = 0..99 hours, 100..199 minutes, 200..299 seconds
CaseRng == LET v == P1ValOf(cx)  two == cx % 100  k == cx \div 100
               b == Enc8301(Bg42[BgOf(cx)], v)
               c == SetNibble(SetNibble(b, 5 + 2 * k, (two \div 10) + 1), 6 + 2 * k, (two % 10) + 1)
               lim == <<23, 59, 60>>[k + 1]
           IN [rejects |-> Dec8301Time(c).ok = (two <= lim)]
\* descriptor tag / length: cx = tag * 2 + (length is 3)
CaseTag == LET d == EncDvb(Bg5[4], VpsPidOf(cx)).buf  c == TLCEval([d EXCEPT ![1] = cx \div 2, ![2] = IF cx % 2 = 1 THEN 3 ELSE (cx \div 2) % 256])
           IN [rejects |-> DecDvb(c).ok = (c[1] = 105 /\ c[2] = 3)]
\* VPS / descriptor bit independence: cx = stream bit, cy = background
CaseInd == LET bg == Bg13[cy]  bf == FlipBit(bg, SBit(cx))  p == VpsPidOf(cx * 7 + cy)
               r == EncVpsPdc(bg, p)  rf == EncVpsPdc(bf, p)  c == EncVpsCni(bg, p.cni)  cf == EncVpsCni(bf, p.cni)
               o == VpsOwner[cx].n
           IN [indep |-> /\ rf.buf = (IF o \in {"cni", "pil", "pcs", "pty"} THEN r.buf ELSE FlipBit(r.buf, SBit(cx)))
                         /\ cf.buf = (IF o = "cni" THEN c.buf ELSE FlipBit(c.buf, SBit(cx)))
                         /\ (o = "-" => DecVpsPdc(bf) = DecVpsPdc(bg))
                         /\ (o \notin {"cni", "dist"} => DecVpsCni(bf) = DecVpsCni(bg))
                         /\ (o = "dist" /\ VpsRawCni(bg) # DC3 => DecVpsCni(bf) = DecVpsCni(bg))
                         /\ (cx < DvbLen /\ DvbOwner[cx].n = "rsv" =>
                               LET d == EncDvb(Bg5[cy], p).buf IN DecDvb(FlipBit(d, SBit(cx))) = DecDvb(d))]
\* packet 8/30: cx = buffer bit 0..335
CaseInd8 == LET b1 == Enc8301(Bg42[cy], P1ValOf(cx + cy))  b2 == Enc8302(Bg42[cy], P2ValOf(cx + cy))  byte == (cx \div 8) + 1
            IN [indep |-> /\ (~P1Owned(cx) => (Dec8301Cni(FlipBit(b1, cx)) = Dec8301Cni(b1) /\ Dec8301Time(FlipBit(b1, cx)) = Dec8301Time(b1)))
                          /\ (byte \notin {10, 11} => Dec8301Cni(FlipBit(b1, cx)) = Dec8301Cni(b1))
                          /\ (byte \notin 10..22 => (Dec8302Pdc(FlipBit(b2, cx)) = Dec8302Pdc(b2)
                                                     /\ Dec8302CniValue(FlipBit(b2, cx)) = Dec8302CniValue(b2)
                                                     /\ Dec8302CniMustAccept(FlipBit(b2, cx))))]

Clauses == CASE fam = "vcni" -> CaseVcni [] fam = "pil" -> CasePil [] fam = "pp" -> CasePp [] fam = "flg" -> CaseFlg
             [] fam = "c16" -> CaseC16 [] fam = "mjd" -> CaseMjd [] fam = "utc" -> CaseUtc [] fam = "lto" -> CaseLto
             [] fam = "h1" -> CaseH1 [] fam = "h2" -> CaseH2 [] fam = "h3" -> CaseH3 [] fam = "rej" -> CaseRej
             [] fam = "bcd" -> CaseBcd [] fam = "rng" -> CaseRng [] fam = "tag" -> CaseTag [] fam = "ind" -> CaseInd
             [] fam = "ind8" -> CaseInd8
Holds(c) == ph = "leaf" => (c \in DOMAIN Clauses => Clauses[c])

\* one invariant per clause (used for diagnosis); Property evaluates the case once and names the failing clause
Inverse       == Holds("inverse")
Frame         == Holds("frame")
ReEncode      == Holds("reenc")
Rejects       == Holds("rejects")
ErrorTolerant == Holds("tolerant")
Independent   == Holds("indep")
Property == ph = "leaf" => LET cl == Clauses
                           IN \A c \in DOMAIN cl : cl[c] \/ (PrintT(<<"CLAUSE-VIOLATED", c, fam, cx, cy>>) /\ FALSE)
=============================================================================
