------------------------------ MODULE MC_Codecs ------------------------------
(* C12: the properties of the codings of Codecs.tla, decided by TLC over the full value ranges.
   The state is one test case (family, x, y); the cases of a family are enumerated in blocks so that
   the workers share them.  Every clause of the property is one invariant:
     Inverse      Dec(Enc(v)) = v  (0xDC3 decodes to 0xDC1 / 0xDC2 by the distinction bit)
     Frame        Enc changes only the bits of the fields it writes (six backgrounds)
     ReEncode     Enc(b, Dec(b)) = b for every produced packet b (raw VPS code 0xDC3 excepted)
     Rejects      out-of-range values / bad BCD digits / non-times / uncorrectable bytes / wrong tag are
                  refused, encoders return the buffer unchanged
     ErrorTolerant one flipped bit per Hamming byte never changes the decoded values
     Independent  each output bit depends only on its field: flipping one background bit flips exactly that
                  bit of the output, or nothing when a written field owns it; decoders ignore foreign bits *)
EXTENDS Codecs
CONSTANTS PilStep,       \* 1: all 2^20 PILs; n > 1: every n-th PIL plus the per-field sweeps
          Fams           \* the case families to run (a subset of DOMAIN Fam)
VARIABLES ph, fam, x, y
vars == <<ph, fam, x, y>>

Seeded(k, len) == TLCEval([i \in 1..len |-> (k * 97 + i * i * 31 + i * k * 7 + (i * 131) \div (k + 2)) % 256])
Bg(len) == <<TLCEval([i \in 1..len |-> 0]), TLCEval([i \in 1..len |-> 255]), TLCEval([i \in 1..len |-> 170]), Seeded(1, len), Seeded(5, len), Seeded(11, len)>>
Bg13 == TLCEval(Bg(13))   Bg5 == TLCEval(Bg(5))   Bg42 == TLCEval(Bg(42))
NBg == 6

\* family |-> <<number of x values, number of y values>>
Fam == [vcni |-> <<4096, NBg>>, pil |-> <<1048576, 1>>, pp |-> <<1024, NBg>>, flg |-> <<128, NBg>>, c16 |-> <<65536, 1>>,
        mjd |-> <<100000, 1>>, utc |-> <<87840, 1>>, lto |-> <<64, NBg>>, h1 |-> <<104, 8>>, h2 |-> <<13, 64>>, h3 |-> <<104, 104>>,
        rej |-> <<12, NBg>>, bcd |-> <<11, 6>>, rng |-> <<300, 1>>, tag |-> <<512, 1>>, ind |-> <<104, NBg>>, ind8 |-> <<336, NBg>>]
BlockSize == 1024
NBlocks(f) == (Fam[f][1] + BlockSize - 1) \div BlockSize
PilSweep == {MkPil(d, 0, 0, 0) : d \in 0..31} \cup {MkPil(31, m, 31, 63) : m \in 0..15} \cup {MkPil(0, 0, h, 0) : h \in 0..31}
            \cup {MkPil(31, 15, 0, mi) : mi \in 0..63} \cup {MkPil(d, m, 31, 63) : d \in {0, 31}, m \in 0..15}
XWanted(f, v) == f # "pil" \/ PilStep = 1 \/ v % PilStep = 0 \/ v \in PilSweep

Init == ph = "start" /\ fam = "-" /\ x = 0 /\ y = 0
Next == \/ /\ ph = "start"
           /\ \E f \in Fams : \E blk \in 0..(NBlocks(f) - 1) : ph' = "blk" /\ fam' = f /\ x' = blk /\ y' = 0
        \/ /\ ph = "blk"
           /\ \E v \in (x * BlockSize)..((x + 1) * BlockSize - 1) : \E w \in 1..Fam[fam][2] :
                /\ v < Fam[fam][1] /\ XWanted(fam, v)
                /\ ph' = "leaf" /\ fam' = fam /\ x' = v /\ y' = w
Spec == Init /\ [][Next]_vars

(* ---------------------------------- the case of a state ----------------------------------- *)
DC3 == 3523
CniSeen(bg, cni) == IF cni = DC3 THEN (IF VpsGet(bg, "dist") = 1 THEN 3521 ELSE 3522) ELSE cni
\* deterministic companions for the values a family does not sweep
Mix(v, a, c, m) == ((v % 30011) * a + c) % m
VpsPidOf(v) == Pid(Mix(v, 3, 1, 6), Mix(v, 5, 0, 4), Mix(v, 13, 5, 4096), v % 1048576, Mix(v, 7, 0, 2), Mix(v, 11, 1, 2), Mix(v, 3, 1, 2),
                   Mix(v, 1, 0, 4), Mix(v, 17, 9, 256))
P2ValOf(v) == [lci |-> Mix(v, 1, 1, 4), luf |-> Mix(v, 7, 0, 2), prf |-> Mix(v, 3, 1, 2), pcs |-> Mix(v, 5, 2, 4), mi |-> Mix(v, 11, 1, 2),
               cni |-> Mix(v, 211, 77, 65536), pil |-> v % 1048576, pty |-> Mix(v, 17, 9, 256)]
P2PidOf(v) == Pid(v.lci, Ct8302, v.cni, v.pil, v.luf, v.mi, v.prf, v.pcs, v.pty)
P1ValOf(v) == [cni |-> Mix(v, 211, 77, 65536), lto |-> Mix(v, 5, 3, 64), mjd |-> Mix(v, 3, 40587, 100000), h |-> Mix(v, 7, 1, 24),
               m |-> Mix(v, 11, 2, 60), s |-> Mix(v, 13, 3, 60)]
P1TimeOf(v) == LET sod == v.h * 3600 + v.m * 60 + v.s
               IN [ok |-> TRUE, days |-> v.mjd - 40587 + (sod \div 86400), secs |-> sod % 86400, east |-> LtoSeconds(v.lto)]
VpsFrame(bg, out, names) == \A i \in 0..(VpsLen - 1) : VpsOwner[i].n \notin names => VBit(out, i) = VBit(bg, i)
BgOf(v) == (v % NBg) + 1
\* buffer bit index (FlipBit) of a VPS / descriptor stream bit (msb first)
SBit(i) == (i \div 8) * 8 + 7 - (i % 8)

(* per family: the record of clause results; a clause a family does not address is absent *)
CaseVcni == LET bg == Bg13[y]  r == EncVpsCni(bg, x)
            IN [inverse |-> r.ok /\ VpsRawCni(r.buf) = x /\ DecVpsCni(r.buf) = CniSeen(bg, x),
                frame   |-> VpsFrame(bg, r.buf, {"cni"}),
                reenc   |-> x # DC3 => EncVpsCni(r.buf, DecVpsCni(r.buf)) = [ok |-> TRUE, buf |-> r.buf]]
VpsPdcClauses(bg, p) ==
  LET r == EncVpsPdc(bg, p)  d == DecVpsPdc(r.buf)
  IN [inverse |-> r.ok /\ d.ok /\ d.pid = Pid(ChVps, CtVps, CniSeen(bg, p.cni), p.pil, 0, 1, 0, p.pcs, p.pty),
      frame   |-> VpsFrame(bg, r.buf, {"cni", "pil", "pcs", "pty"}),
      reenc   |-> p.cni # DC3 => EncVpsPdc(r.buf, d.pid) = [ok |-> TRUE, buf |-> r.buf]]
P2Clauses(bg, v) ==
  LET b == Enc8302(bg, v)  d == Dec8302Pdc(b)
  IN [inverse |-> d.ok /\ d.pid = P2PidOf(v) /\ Dec8302CniMustAccept(b) /\ ~Dec8302CniMustReject(b) /\ Dec8302CniValue(b) = v.cni,
      frame   |-> \A k \in 1..42 : k \notin 10..22 => b[k] = bg[k],
      reenc   |-> Enc8302(b, [lci |-> d.pid.ch, luf |-> d.pid.luf, prf |-> d.pid.prf, pcs |-> d.pid.pcs, mi |-> d.pid.mi,
                              cni |-> d.pid.cni, pil |-> d.pid.pil, pty |-> d.pid.pty]) = b]
P1Owned(i) == (i \div 8) + 1 \in {10, 11, 14, 15, 16, 17, 18} \/ ((i \div 8) + 1 = 12 /\ i % 8 \in 1..6) \/ ((i \div 8) + 1 = 13 /\ i % 8 \in 0..3)
P1Clauses(bg, v) ==
  LET b == Enc8301(bg, v)
  IN [inverse |-> Dec8301Cni(b) = v.cni /\ Dec8301Time(b) = P1TimeOf(v) /\ LtoCode(b) = v.lto,
      frame   |-> \A i \in 0..335 : ~P1Owned(i) => Bit(b[(i \div 8) + 1], i % 8) = Bit(bg[(i \div 8) + 1], i % 8),
      reenc   |-> Enc8301(b, v) = b]
And(a, b) == [inverse |-> a.inverse /\ b.inverse, frame |-> a.frame /\ b.frame, reenc |-> a.reenc /\ b.reenc]
CasePil == LET p == VpsPidOf(x)  dv == EncDvb(Bg5[BgOf(x)], p)  dd == DecDvb(dv.buf)
               dvb == [inverse |-> dv.ok /\ dd.ok /\ dd.pid = Pid(ChDvb, CtNone, 0, x, 0, 1, 0, 0, 0),
                       frame   |-> dv.buf = EncDvb(Bg5[BgOf(x + 1)], p).buf /\ DvbGet(dv.buf, "rsv") = 15,     \* all 40 bits are written
                       reenc   |-> EncDvb(dv.buf, dd.pid) = dv]
           IN And(And(VpsPdcClauses(Bg13[BgOf(x)], p), dvb), P2Clauses(Bg42[BgOf(x)], P2ValOf(x)))
CasePp == LET pv == [VpsPidOf(x * 1031) EXCEPT !.pcs = x \div 256, !.pty = x % 256]
              tv == [P2ValOf(x * 1031) EXCEPT !.pcs = x \div 256, !.pty = x % 256]
          IN And(VpsPdcClauses(Bg13[y], pv), P2Clauses(Bg42[y], tv))
CaseFlg == P2Clauses(Bg42[y], [P2ValOf(x * 523) EXCEPT !.lci = x % 4, !.luf = (x \div 4) % 2, !.mi = (x \div 8) % 2,
                                                      !.prf = (x \div 16) % 2, !.pcs = x \div 32])
CaseC16 == And(P1Clauses(Bg42[BgOf(x)], [P1ValOf(x) EXCEPT !.cni = x]), P2Clauses(Bg42[BgOf(x)], [P2ValOf(x) EXCEPT !.cni = x]))
CaseMjd == P1Clauses(Bg42[BgOf(x)], [P1ValOf(x) EXCEPT !.mjd = x])
\* all 86 400 seconds of the day, then the 1 440 leap second positions hh:mm:60
CaseUtc == P1Clauses(Bg42[BgOf(x)],
                     IF x < 86400 THEN [P1ValOf(x) EXCEPT !.h = x \div 3600, !.m = (x \div 60) % 60, !.s = x % 60]
                     ELSE [P1ValOf(x) EXCEPT !.h = (x - 86400) \div 60, !.m = (x - 86400) % 60, !.s = 60])
CaseLto == P1Clauses(Bg42[y], [P1ValOf(x * 17) EXCEPT !.lto = x])

\* Hamming: x = bit inside bytes 13..25, y = sample
HSample(k) == P2ValOf(k * 104729 + 12345)
CaseH1 == LET b == Enc8302(Bg42[BgOf(y)], HSample(y))  c == FlipBit(b, 72 + x)
          IN [tolerant |-> Dec8302Pdc(c) = Dec8302Pdc(b) /\ Dec8302CniMustAccept(c) /\ Dec8302CniValue(c) = HSample(y).cni]
\* two flipped bits in one byte: x = byte 0..12, y - 1 = i * 8 + j
CaseH2 == LET b == Enc8302(Bg42[BgOf(x)], HSample(x))  i == (y - 1) \div 8  j == (y - 1) % 8
              c == FlipBit(FlipBit(b, 72 + x * 8 + i), 72 + x * 8 + j)
          IN [rejects |-> i # j => (~Dec8302Pdc(c).ok /\ ~Dec8302CniMustAccept(c) /\ (x \in P2CniNibbles => Dec8302CniMustReject(c)))]
\* one flipped bit in each of two different bytes
CaseH3 == LET b == Enc8302(Bg42[BgOf(x)], HSample(x + y))  c == FlipBit(FlipBit(b, 72 + x), 72 + y - 1)
          IN [tolerant |-> x \div 8 # (y - 1) \div 8 => Dec8302Pdc(c) = Dec8302Pdc(b)]

BadPids == LET g == VpsPidOf(4711)
           IN <<[g EXCEPT !.cni = 4096], [g EXCEPT !.cni = 65535], [g EXCEPT !.cni = -1], [g EXCEPT !.cni = 2147483647],
                [g EXCEPT !.pil = 1048576], [g EXCEPT !.pil = -1], [g EXCEPT !.pil = 2147483647],
                [g EXCEPT !.pcs = 4], [g EXCEPT !.pcs = -1], [g EXCEPT !.pty = 256], [g EXCEPT !.pty = -1], [g EXCEPT !.pty = 2147483647]>>
CaseRej == LET p == BadPids[x + 1]
           IN [rejects |-> /\ EncVpsPdc(Bg13[y], p) = [ok |-> FALSE, buf |-> Bg13[y]]
                           /\ (p.cni \notin 0..4095 => EncVpsCni(Bg13[y], p.cni) = [ok |-> FALSE, buf |-> Bg13[y]])
                           /\ (p.pil \notin 0..1048575 => EncDvb(Bg5[y], p) = [ok |-> FALSE, buf |-> Bg5[y]])]
\* x = digit position 0..10 (5 MJD, 6 UTC digits), y = the offending nibble value
DigitAt(pos) == <<<<13, 0>>, <<14, 4>>, <<14, 0>>, <<15, 4>>, <<15, 0>>, <<16, 4>>, <<16, 0>>, <<17, 4>>, <<17, 0>>, <<18, 4>>, <<18, 0>>>>[pos + 1]
SetNibble(b, pos, val) == LET at == DigitAt(pos) IN TLCEval([b EXCEPT ![at[1]] = @ - Fld(@, at[2], 4) * 2^(at[2]) + val * 2^(at[2])])
CaseBcd == LET b == Enc8301(Bg42[y], P1ValOf(x * 7919 + y))  bad == <<0, 11, 12, 13, 14, 15>>[y]
           IN [rejects |-> ~Dec8301Time(SetNibble(b, x, bad)).ok]
\* BCD valid but no time of day: x = 0..99 hours, 100..199 minutes, 200..299 seconds
CaseRng == LET v == P1ValOf(x)  two == x % 100  k == x \div 100
               b == Enc8301(Bg42[BgOf(x)], v)
               c == SetNibble(SetNibble(b, 5 + 2 * k, (two \div 10) + 1), 6 + 2 * k, (two % 10) + 1)
               lim == <<23, 59, 60>>[k + 1]
           IN [rejects |-> Dec8301Time(c).ok = (two <= lim)]
\* descriptor tag / length: x = tag * 2 + (length is 3)
CaseTag == LET d == EncDvb(Bg5[4], VpsPidOf(x)).buf  c == TLCEval([d EXCEPT ![1] = x \div 2, ![2] = IF x % 2 = 1 THEN 3 ELSE (x \div 2) % 256])
           IN [rejects |-> DecDvb(c).ok = (c[1] = 105 /\ c[2] = 3)]
\* VPS / descriptor bit independence: x = stream bit, y = background
CaseInd == LET bg == Bg13[y]  bf == FlipBit(bg, SBit(x))  p == VpsPidOf(x * 7 + y)
               r == EncVpsPdc(bg, p)  rf == EncVpsPdc(bf, p)  c == EncVpsCni(bg, p.cni)  cf == EncVpsCni(bf, p.cni)
               o == VpsOwner[x].n
           IN [indep |-> /\ rf.buf = (IF o \in {"cni", "pil", "pcs", "pty"} THEN r.buf ELSE FlipBit(r.buf, SBit(x)))
                         /\ cf.buf = (IF o = "cni" THEN c.buf ELSE FlipBit(c.buf, SBit(x)))
                         /\ (o = "-" => DecVpsPdc(bf) = DecVpsPdc(bg))
                         /\ (o \notin {"cni", "dist"} => DecVpsCni(bf) = DecVpsCni(bg))
                         /\ (o = "dist" /\ VpsRawCni(bg) # DC3 => DecVpsCni(bf) = DecVpsCni(bg))
                         /\ (x < DvbLen /\ DvbOwner[x].n = "rsv" =>
                               LET d == EncDvb(Bg5[y], p).buf IN DecDvb(FlipBit(d, SBit(x))) = DecDvb(d))]
\* packet 8/30: x = buffer bit 0..335
CaseInd8 == LET b1 == Enc8301(Bg42[y], P1ValOf(x + y))  b2 == Enc8302(Bg42[y], P2ValOf(x + y))  byte == (x \div 8) + 1
            IN [indep |-> /\ (~P1Owned(x) => (Dec8301Cni(FlipBit(b1, x)) = Dec8301Cni(b1) /\ Dec8301Time(FlipBit(b1, x)) = Dec8301Time(b1)))
                          /\ (byte \notin {10, 11} => Dec8301Cni(FlipBit(b1, x)) = Dec8301Cni(b1))
                          /\ (byte \notin 10..22 => (Dec8302Pdc(FlipBit(b2, x)) = Dec8302Pdc(b2)
                                                     /\ Dec8302CniValue(FlipBit(b2, x)) = Dec8302CniValue(b2)
                                                     /\ Dec8302CniMustAccept(FlipBit(b2, x))))]

Clauses == CASE fam = "vcni" -> CaseVcni [] fam = "pil" -> CasePil [] fam = "pp" -> CasePp [] fam = "flg" -> CaseFlg
             [] fam = "c16" -> CaseC16 [] fam = "mjd" -> CaseMjd [] fam = "utc" -> CaseUtc [] fam = "lto" -> CaseLto
             [] fam = "h1" -> CaseH1 [] fam = "h2" -> CaseH2 [] fam = "h3" -> CaseH3 [] fam = "rej" -> CaseRej
             [] fam = "bcd" -> CaseBcd [] fam = "rng" -> CaseRng [] fam = "tag" -> CaseTag [] fam = "ind" -> CaseInd
             [] fam = "ind8" -> CaseInd8
Holds(c) == ph = "leaf" => (c \in DOMAIN Clauses => Clauses[c])

\* one invariant per clause (used for diagnosis); Property evaluates the case once and names the failing clause
Inverse       == Holds("inverse")
Frame         == Holds("frame")
ReEncode      == Holds("reenc")
Rejects       == Holds("rejects")
ErrorTolerant == Holds("tolerant")
Independent   == Holds("indep")
Property == ph = "leaf" => LET cl == Clauses
                           IN \A c \in DOMAIN cl : cl[c] \/ (PrintT(<<"CLAUSE-VIOLATED", c, fam, x, y>>) /\ FALSE)
=============================================================================
