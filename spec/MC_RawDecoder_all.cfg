CONSTANTS Scanning = 625 Use <- UsePalAll Geoms <- GeomsPalW AddSets <- AddPalT RateCfgs <- Rate1 Apis = {"new"}
  Stricts = {0, 2} Ways = 8 MaxJobs = 8 MaxCalls = 9 MaxDecodes = 9 MaxCarried = 1 MaxDepth = 5 ShortOut = FALSE Fixed = TRUE
SPECIFICATION Spec
VIEW core
CONSTRAINT DepthBound
INVARIANTS TypeOK JobsOK NoRunOff SearchedOnOwnLines
PROPERTIES ACompleteP AOnlyRequested AIdentifiedAs ALineNumbers AAscending ABlankSilent ABounded ARemovedEverywhere AddReturnsDecodable LearningKeepsJobs
CHECK_DEADLOCK FALSE
