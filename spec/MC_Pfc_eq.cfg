CONSTANTS CiStart = 14 K = 6 NP = 2 Sizes = {0, 1, 2, 4, 7} Fills = {0, 1, 2} MaxBlocks = 2 Faults = {"none", "drop", "err1", "err2"} Units = {"mrag0", "mrag1", "pgu", "pgt", "s1", "s2", "s3", "s4", "c1", "c2", "bp", "bs", "fill", "sh"} Policies = {"strict", "lenient"} UnitBlocks = 2 TailCheck = TRUE Foreign = {"none", "page", "stream", "mag"} TailAtForeign = TRUE Noise = {0} NoisePos = {"all"} NoiseFaults = {"none"}
SPECIFICATION Spec
INVARIANTS Sound Complete Resume LeapAgrees
CHECK_DEADLOCK FALSE
