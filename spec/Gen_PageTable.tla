---------------------------- MODULE Gen_PageTable ----------------------------
(* Call sequences for harness/drv_pagetable.c with, after every call, the return value and the complete table
   the specification predicts (as elements: the driver's sweep of the real table is folded onto them).
   Real limits: pages 0x100..0x8FF, subpages 0..0x3F7E. *)
EXTENDS PageTable, Json
VARIABLE hist
CONSTANT Depth
gvars == <<pt, hist>>
gview == pt

(* 0x100 first; 0x11F / 0x120 last and first bit of a word of the page bitmap (0x11F has a hex digit);
   0x899 last BCD page; 0x8FF last page *)
RealPagePts == {256, 287, 288, 2201, 2303}
RealSubPts == {0, 1, 121, 16253, 16254}          \* 0, 1, 0x79, 0x3F7D, 0x3F7E
RealBadPages == {0 - 1, 0, 255, 2304, 65536}     \* -1, 0, 0xFF, 0x900, 0x10000
RealBadSubs == {0 - 1, 16256, 65536}             \* -1, 0x3F80, 0x10000
SmallPagePts == {256, 287, 2303}
SmallSubPts == {0, 16254}
SmallBadPages == {255, 2304}
SmallBadSubs == {16256}

Obs(T) == [num |-> QNumPages(T),
           els |-> {[lo |-> e.lo, hi |-> e.hi, k |-> e.k,
                     all |-> IF e \in T.whole THEN "T" ELSE IF Complete(T, e) THEN "O" ELSE "F",
                     subs |-> {<<x.lo, x.hi>> : x \in T.mem[e]}] : e \in {x \in PEl : T.mem[x] # {}}}]
(* the partition, for folding the sweeps of the real table onto the elements *)
ASSUME PrintT(<<"TR", ToJson([pel |-> PEl, sel |-> SEl, minpg |-> MinPg, maxpg |-> MaxPg, maxsub |-> MaxSub])>>)
GInit == Init /\ hist = <<>>
(* only the calls are carried along; return values and predicted tables are computed when a behaviour is written *)
GNext == \E op \in Ops : Do(op) /\ hist' = Append(hist, op)
GSpec == GInit /\ [][GNext]_gvars
(* random walks: the kind of call is drawn first (weights by repetition), then its arguments; one call is evaluated per step *)
Kinds == <<OpsAddPages, OpsAddPages, OpsRemovePages, OpsRemovePages, OpsAddPage, OpsRemovePage,
           OpsAddSubpages, OpsAddSubpages, OpsAddSubpages, OpsAddSubpages, OpsRemoveSubpages, OpsRemoveSubpages, OpsRemoveSubpages,
           OpsRemoveSubpages, OpsAddSubpage, OpsAddSubpage, OpsRemoveSubpage, OpsRemoveSubpage,
           OpsAddAll, OpsAddDisp, OpsAddDisp, OpsRemoveAll, Queries, Queries, Queries, Queries>>
(* the drawn values are bound by \E over a singleton: a LET body would be evaluated again at every use *)
RNext == \E i \in {RandomElement({j \in 1..Len(Kinds) : Len(hist) >= 0})} :     \* (mentions hist: TLC evaluates a constant expression once only)
           \E op \in {RandomElement({o \in Kinds[i] : Defined(o, pt)})} : Do(op) /\ hist' = Append(hist, op)
RSpec == GInit /\ [][RNext]_gvars
RECURSIVE Annotate(_, _, _)
Annotate(T, h, i) == IF i > Len(h) THEN <<>>
                     ELSE LET T2 == Eff(h[i], T)
                          IN <<[op |-> h[i], ret |-> Ret(h[i], T), obs |-> Obs(T2)]>> \o Annotate(T2, h, i + 1)
(* transition cover: one shortest behaviour into every explored transition (Depth = number of calls + 1) *)
Bound == Len(hist) < Depth
DumpStep == PrintT(<<"TR", ToJson(Annotate(Empty, hist', 1))>>)
(* random walks (tlc -simulate): dumped at the bound *)
DumpWalk == /\ (Len(hist) = Depth => PrintT(<<"TR", ToJson(Annotate(Empty, hist, 1))>>))
            /\ Len(hist) < Depth
=============================================================================
