CONSTANTS Entries = {"MEM", "ALLOC", "FP", "FILE"} CallerSizes = {0} WSizes = {0} PSizes = {0} GSizes = {0}
  FastAt = 4096 Slack = {0} MaxOps = 0 CarryOver = TRUE SwitchOnOverflow = TRUE
SPECIFICATION TSpec
INVARIANTS TypeOK OffsetWithinCapacity MemBounded Conserved ResultFaithful AllAccepted
POSTCONDITION TraceAccepted
CHECK_DEADLOCK FALSE
