CONSTANTS MaxExh = 3 NCaches = 2
INIT Init
NEXT Next
INVARIANT Same
CHECK_DEADLOCK FALSE
