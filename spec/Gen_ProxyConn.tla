---------------------------- MODULE Gen_ProxyConn ----------------------------
(* Stimulus schedules for the proxy daemon: random walks (tlc -simulate) through ProxyConn; the client
   steps of a walk are executed against the real daemon (lib/vlib/proxy.py), whose recorded trace is then
   validated by Trace_ProxyConn.  Daemon steps of the walk are not controllable and are dropped. *)
EXTENDS ProxyConn, Json
CONSTANTS Depth, Acts      \* Acts: names of the client steps a walk may take
VARIABLE hist
gvars == <<cvars, hist>>
H(r) == hist' = Append(hist, r)
GNext ==
  \/ \E c \in Clients :
       \/ CAccept(c) /\ "Accept" \in Acts /\ H([a |-> "Accept", c |-> c])
       \/ \E s, f \in BOOLEAN : MConnect(c, s, f) /\ "Connect" \in Acts /\ H([a |-> "Connect", c |-> c, s |-> s, nsi |-> f])
       \/ \E s \in BOOLEAN : MServiceReq(c, s) /\ "ServiceReq" \in Acts /\ H([a |-> "ServiceReq", c |-> c, s |-> s])
       \/ MConnectRej(c) /\ "ConnectRej" \in Acts /\ H([a |-> "ConnectRej", c |-> c])
       \/ MPidReq(c) /\ "PidReq" \in Acts /\ H([a |-> "PidReq", c |-> c])
       \/ MIoctl(c) /\ "Ioctl" \in Acts /\ H([a |-> "Ioctl", c |-> c])
       \/ MSuspend(c) /\ "Suspend" \in Acts /\ H([a |-> "Suspend", c |-> c])
       \/ MReclaimCnf(c) /\ "ReclaimCnf" \in Acts /\ H([a |-> "ReclaimCnf", c |-> c])
       \/ MCloseReq(c) /\ "CloseReq" \in Acts /\ H([a |-> "CloseReq", c |-> c])
       \/ \E p \in Prios, v \in BOOLEAN : MTokenReq(c, p, v) /\ "TokenReq" \in Acts /\ H([a |-> "TokenReq", c |-> c, p |-> p, v |-> v])
       \/ \E F \in SUBSET Flags : MNotify(c, F) /\ "Notify" \in Acts /\ H([a |-> "Notify", c |-> c, f |-> F])
       \/ WrongState(c) /\ "WrongState" \in Acts /\ H([a |-> "WrongState", c |-> c, st |-> cst[c]])
       \/ PartialHdr(c) /\ "PartialHdr" \in Acts /\ H([a |-> "PartialHdr", c |-> c])
       \/ HdrLegal(c) /\ "HdrLegal" \in Acts /\ H([a |-> "HdrLegal", c |-> c])
       \/ HdrIllegal(c) /\ "HdrIllegal" \in Acts /\ H([a |-> "HdrIllegal", c |-> c])
       \/ BadMsg(c) /\ "BadMsg" \in Acts /\ H([a |-> "BadMsg", c |-> c])
       \/ Disconnect(c) /\ "Disconnect" \in Acts /\ H([a |-> "Disconnect", c |-> c])
       \/ WriteDone(c) /\ UNCHANGED hist
       \/ CSendReclaim(c) /\ UNCHANGED hist
       \/ CSendGrant(c) /\ UNCHANGED hist
  \/ CTimer /\ UNCHANGED hist
GSpec == CInit /\ hist = <<>> /\ [][GNext]_gvars
Dump == (TLCGet("level") >= Depth => PrintT(<<"TR", ToJson(hist)>>)) /\ TLCGet("level") < Depth
=============================================================================
