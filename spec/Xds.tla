------------------------------- MODULE Xds -------------------------------
(* Extended Data Service packets on caption field 2 (EIA-608 section 9):
   vbi_xds_demux_feed() in src/xds_demux.c and its twin xds_separator() in src/caption.c.

   One action = one received byte pair.  The RECEIVER part (cnt, buf, chk, cur) is shaped like
   the C code: a per-key sub-packet with a byte count that starts at 2, explicit buffer
   indices and the overflow guard, so that the index arithmetic itself is model checked
   (InBounds).  The REFERENCE part (tx, txcur, ref) states what a packet is in terms of the
   pairs the transmitter sent: a packet is the bytes sent for its key since its start pair,
   resumable after interruptions by a continue pair; it is intact iff it was started, no pair
   with a parity error arrived while it was in progress, it has 1..L bytes and the checksum
   over start pair, payload and end pair is 0 modulo 128.

   Property C09:  out = ref  (delivered = sent intact, in completion order, each once),
   InBounds (no write outside a packet buffer), and the decoded programme information
   (second layer: info, cyc, evs) equals the content of the delivered packets, announced
   on the second identical reception.                                                    *)
EXTENDS Naturals, Integers, Sequences, FiniteSets, TLC

CONSTANTS NK,          \* packet keys 1..NK
          KeyCls,      \* sequence: XDS class of key k (0 current, 1 future, 2 channel, 3 misc)
          KeyTyp,      \* sequence: XDS type of key k
          Bytes,       \* payload byte values (subset of 33..127)
          L,           \* payload limit (32)
          MaxEv,       \* bound on the number of pairs (CONSTRAINT)
          ErrPairs,    \* data pairs <<b1, b2>> that may arrive with a parity error
          HalfGuard    \* TRUE: the length check counts the second byte of a pair (repaired code)

Keys  == 1..NK
NoKey == 0

VARIABLES cnt, buf, chk, cur,      \* receiver
          out,                     \* delivered packets <<k, bytes>>
          maxidx,                  \* ghost: highest buffer index written so far
          tx, txcur, ref,          \* reference
          info, cyc, evs,          \* programme information layer (caption.c xds_decoder)
          nev, lastAct

rxv  == <<cnt, buf, chk, cur>>
refv == <<tx, txcur, ref>>
vars == <<rxv, out, maxidx, refv, info, cyc, evs, nev, lastAct>>

StartC1(k) == 2 * KeyCls[k] + 1
ContC1(k)  == 2 * KeyCls[k] + 2
Hdr(k)     == StartC1(k) + KeyTyp[k]
EndC1      == 15

Init ==
  /\ cnt = [k \in Keys |-> 0] /\ buf = [k \in Keys |-> [i \in 0..(L + 1) |-> 0]]
  /\ chk = [k \in Keys |-> 0] /\ cur = NoKey
  /\ out = <<>> /\ maxidx = -1
  /\ tx = [k \in Keys |-> [open |-> FALSE, bytes |-> <<>>, sum |-> 0, dead |-> FALSE]] /\ txcur = NoKey /\ ref = <<>>
  /\ info = [k \in Keys |-> <<>>] /\ cyc = [c \in 0..3 |-> {}] /\ evs = <<>>
  /\ nev = 0 /\ lastAct = [a |-> "init"]

-----------------------------------------------------------------------------
(* second layer: what the service decoder does with a delivered packet of the programme
   description types (one text line per key).  First reception of new data arms the class,
   a reception of unchanged data while armed raises one PROG_INFO event and disarms.      *)
Decode(k, bytes) ==
  LET c == KeyCls[k] IN
  IF info[k] # bytes
  THEN /\ info' = [info EXCEPT ![k] = bytes]
       /\ cyc' = [cyc EXCEPT ![c] = @ \cup {KeyTyp[k]}]
       /\ evs' = evs
  ELSE /\ info' = info
       /\ IF KeyTyp[k] \in cyc[c]
          THEN /\ evs' = Append(evs, c) /\ cyc' = [cyc EXCEPT ![c] = {}]
          ELSE /\ evs' = evs /\ cyc' = cyc

NoDecode == UNCHANGED <<info, cyc, evs>>

-----------------------------------------------------------------------------
(* receiver, as coded *)
Discard(k) == /\ cnt' = [cnt EXCEPT ![k] = 0] /\ chk' = [chk EXCEPT ![k] = 0] /\ cur' = NoKey

RxHeader(k, start) ==
  IF start
  THEN /\ chk' = [chk EXCEPT ![k] = Hdr(k)] /\ cnt' = [cnt EXCEPT ![k] = 2] /\ cur' = k
       /\ UNCHANGED <<buf, out, maxidx>> /\ NoDecode
  ELSE IF cnt[k] = 0
       THEN Discard(k) /\ UNCHANGED <<buf, out, maxidx>> /\ NoDecode
       ELSE /\ cur' = k /\ UNCHANGED <<cnt, chk, buf, out, maxidx>> /\ NoDecode

RxData(b1, b2) ==
  IF cur = NoKey THEN UNCHANGED <<rxv, out, maxidx>> /\ NoDecode
  ELSE LET n == cnt[cur]
           full == IF HalfGuard THEN n + (IF b2 # 0 THEN 1 ELSE 0) >= L + 2 ELSE n >= L + 2
           hi == IF HalfGuard /\ b2 = 0 THEN n - 2 ELSE n - 1
       IN IF full THEN Discard(cur) /\ UNCHANGED <<buf, out, maxidx>> /\ NoDecode
          ELSE /\ buf' = [buf EXCEPT ![cur] = [i \in 0..(L + 1) |->
                             IF i = n - 2 THEN b1
                             ELSE IF i = n - 1 /\ (b2 # 0 \/ ~HalfGuard) THEN b2 ELSE @[i]]]
               /\ maxidx' = IF hi > maxidx THEN hi ELSE maxidx
               /\ chk' = [chk EXCEPT ![cur] = (@ + b1 + b2) % 128]
               /\ cnt' = [cnt EXCEPT ![cur] = n + 1 + (IF b2 # 0 THEN 1 ELSE 0)]
               /\ UNCHANGED <<cur, out>> /\ NoDecode

RxEnd(c) ==
  IF cur = NoKey THEN UNCHANGED <<rxv, out, maxidx>> /\ NoDecode
  ELSE LET s == (chk[cur] + EndC1 + c) % 128
           bytes == [i \in 1..(cnt[cur] - 2) |-> buf[cur][i - 1]]
       IN /\ IF s = 0 /\ cnt[cur] > 2
             THEN out' = Append(out, <<cur, bytes>>) /\ Decode(cur, bytes)
             ELSE out' = out /\ NoDecode
          /\ Discard(cur) /\ UNCHANGED <<buf, maxidx>>

RxCaption == cur' = NoKey /\ UNCHANGED <<cnt, buf, chk, out, maxidx>> /\ NoDecode
RxNull    == UNCHANGED <<rxv, out, maxidx>> /\ NoDecode
RxError   == /\ IF cur # NoKey THEN Discard(cur) ELSE UNCHANGED <<cnt, chk, cur>>
             /\ UNCHANGED <<buf, out, maxidx>> /\ NoDecode

-----------------------------------------------------------------------------
(* reference: the transmitter's own packets.  The transmitter does not know what the channel did
   to a pair: it keeps sending the packet in progress (its checksum covers every byte it sent),
   while for the reference a packet is dead - not deliverable until started again - from the
   moment a pair of it arrived with a parity error or its 33rd byte was sent.               *)
Closed == [open |-> FALSE, bytes |-> <<>>, sum |-> 0, dead |-> FALSE]
Close(k) == /\ tx' = [tx EXCEPT ![k] = Closed] /\ txcur' = NoKey

RefHeader(k, start) ==
  IF start THEN /\ tx' = [tx EXCEPT ![k] = [open |-> TRUE, bytes |-> <<>>, sum |-> Hdr(k), dead |-> FALSE]]
                /\ txcur' = k /\ ref' = ref
  ELSE /\ txcur' = IF tx[k].open THEN k ELSE NoKey
       /\ UNCHANGED <<tx, ref>>

\* the transmitter sends a data pair of the packet in progress; damaged = it arrives with a parity error
RefData(b1, b2, damaged) ==
  IF txcur = NoKey THEN UNCHANGED refv
  ELSE LET nb == tx[txcur].bytes \o (IF b2 = 0 THEN <<b1>> ELSE <<b1, b2>>)
           over == Len(nb) > L
       IN /\ tx' = [tx EXCEPT ![txcur] = [open |-> TRUE, bytes |-> IF over THEN @.bytes ELSE nb,
                                          sum |-> (@.sum + b1 + b2) % 128, dead |-> @.dead \/ over \/ damaged]]
          /\ UNCHANGED <<txcur, ref>>

RefEnd(c) ==
  IF txcur = NoKey THEN UNCHANGED refv
  ELSE /\ ref' = IF ~tx[txcur].dead /\ (tx[txcur].sum + EndC1 + c) % 128 = 0 /\ Len(tx[txcur].bytes) >= 1
                 THEN Append(ref, <<txcur, tx[txcur].bytes>>) ELSE ref
       /\ Close(txcur)

RefCaption == txcur' = NoKey /\ UNCHANGED <<tx, ref>>

\* the checksum byte an honest transmitter appends to the packet in progress
GoodSum == IF txcur = NoKey THEN 0 ELSE (256 - ((tx[txcur].sum + EndC1) % 128)) % 128

-----------------------------------------------------------------------------
Tick(a) == nev' = nev + 1 /\ lastAct' = a

Header(k, start) == RxHeader(k, start) /\ RefHeader(k, start)
                    /\ Tick([a |-> IF start THEN "Start" ELSE "Cont", k |-> k])
Data(b1, b2)     == RxData(b1, b2) /\ RefData(b1, b2, FALSE) /\ Tick([a |-> "Data", b1 |-> b1, b2 |-> b2])
End(good)        == LET c == IF good THEN GoodSum ELSE (GoodSum + 1) % 128
                    IN RxEnd(c) /\ RefEnd(c) /\ Tick([a |-> "End", c |-> c])
EndC(c)          == RxEnd(c) /\ RefEnd(c) /\ Tick([a |-> "End", c |-> c])
Caption          == RxCaption /\ RefCaption /\ Tick([a |-> "Caption"])
Null             == RxNull /\ UNCHANGED refv /\ Tick([a |-> "Null"])
\* a data pair of the transmitter (b1, b2) arrives with a parity error
Error(b1, b2)    == RxError /\ RefData(b1, b2, TRUE) /\ Tick([a |-> "Error", b1 |-> b1, b2 |-> b2])

Next == \/ \E k \in Keys, s \in BOOLEAN : Header(k, s)
        \/ \E b1 \in Bytes, b2 \in Bytes \cup {0} : Data(b1, b2)
        \/ \E g \in BOOLEAN : End(g)
        \/ Caption \/ Null
        \/ \E e \in ErrPairs : Error(e[1], e[2])

Spec == Init /\ [][Next]_vars

Bounded == nev < MaxEv

-----------------------------------------------------------------------------
Delivered == out = ref                              \* C09, first sentence
InBounds  == maxidx < L                             \* "never corrupt ... memory"
LengthOK  == \A i \in 1..Len(out) : Len(out[i][2]) \in 1..L
NoCross   == \A k \in Keys : cnt[k] > 0 =>          \* a packet in progress holds exactly its own bytes
               /\ tx[k].open /\ ~tx[k].dead /\ Len(tx[k].bytes) = cnt[k] - 2
               /\ \A i \in 1..(cnt[k] - 2) : buf[k][i - 1] = tx[k].bytes[i]
CurAgree  == cur = (IF txcur # NoKey /\ ~tx[txcur].dead THEN txcur ELSE NoKey)
\* information layer: the text of a key is the last delivered content of that key
LastOf(k) == LET idx == {i \in 1..Len(out) : out[i][1] = k} IN
             IF idx = {} THEN <<>> ELSE out[CHOOSE i \in idx : \A j \in idx : j <= i][2]
InfoOK    == \A k \in Keys : info[k] = LastOf(k)
\* an announcement needs two deliveries of the class
EvOK      == \A c \in 0..3 : Cardinality({i \in 1..Len(evs) : evs[i] = c}) * 2
                               <= Cardinality({i \in 1..Len(out) : KeyCls[out[i][1]] = c})
TypeOK    == /\ cur \in Keys \cup {NoKey} /\ \A k \in Keys : cnt[k] \in 0..(L + 3)
=============================================================================
