CONSTANTS Clients = {1, 2} Services = {"a"} Supported = {"a"} Base = 1 S = 1 MaxFrames = 5 Threaded = FALSE LevelsUsed = {1} Discards = {FALSE} Faulty = {1, 2}
SPECIFICATION Spec

PROPERTIES NeverStuckLoses
CHECK_DEADLOCK FALSE
