----------------------------- MODULE TtxFaults -----------------------------
(* Property C03: reception of Teletext pages over a channel with bit errors, from the transmitter's
   side.  The error-free reference is the one of TtxAssembly (C02): a page is terminated by the next
   header of its own magazine with another page number; the stored page is the rows of this
   transmission over the previously stored version of the same page/subpage unless erased.  Added here:

   * magazines 1..8 (magazine 8 is transmitted as address 0, its pages are 0x800..0x8FF),
   * subcodes with all four digits in use (rolling / clock pages, one version per page, EN 300 706 A.1),
   * packets X/26/0: enhancement data in the sub-language of TtxX26, shown by a Level 1.5 fetch,
   * a FAULT on every received packet.  Every protected unit of a packet is ok, has one bit error
     (corrected: by definition the error-free behaviour, the check flips every single bit) or is
     UNCORRECTABLE (two bit errors in a Hamming 8/4 byte or 24/18 triplet; wrong parity in a text byte):

       header      "page"  page number bytes        -> the pages in progress of ALL magazines are abandoned
                   "s12"   subcode S1/S2 (+C4)      \
                   "s34"   subcode S3/S4 (+C5,C6)    > terminates the page of its magazine, opens nothing
                   "ctrl"  control bits C7..C14     /
                   "htxt"  wrong parity in the header TEXT bytes of the columns cols (8..39; data, neither address
                           nor control)             -> the header acts exactly like the intact one (terminates, opens
                                                        the page; nothing else is dropped - the decoder's comparison of
                                                        header texts that detects a channel switch must take a byte with
                                                        a parity error as inconclusive); the header row of the version
                                                        shows the transmitted character or a blank at these columns
                                                        (hbad), never another character
       text row    "mrag"  magazine / packet address -> changes nothing
                   "par"   wrong parity in k of the 40 bytes (k = 1, 2, 3, 40; adjacent or scattered)
                                                     -> the row is not received: it keeps the stored content
                                                        or stays blank
                   "parc"  wrong parity in exactly the byte of column col
                                                     -> as "par", UNLESS the enhancement data of the page supply the
                                                        character of (row, col) (TtxX26!Overridden, the exception the
                                                        statement makes): there the error may be forgiven - the row
                                                        as transmitted or the earlier content, both are allowed.  A
                                                        triplet that only sets colours, flash, character set,
                                                        display attributes or font style at (row, col) forgives nothing
       X/26        "mrag", "desig" (designation)     -> changes nothing
                   "trip"  triplet j = 1..13         -> triplets j..13 are dropped (TtxX26: Kept)
       X/27/0      "mrag", "desig", "lcb" (link control byte)
                                                     -> changes nothing: the links stored before stay
                   "link"  one of the six Hamming bytes of link k = 1..6 (a data unit, not an address or control
                           byte)                     -> link k keeps its earlier value or is no link; never another
                                                        page; the other links are the new or the earlier ones

   The stored content of a row and each link is a SET of allowed values wherever the statement leaves the
   outcome open (singletons otherwise): the replay accepts any member.

   vbi_decode_teletext() / lop_parity_check() / vbi_teletext_desync() of src/packet.c are the code under
   test; one action per received packet.  A header whose own address bytes are uncorrectable cannot be
   recognised as a header by any decoder and is outside the statement. *)
EXTENDS Naturals, Sequences, FiniteSets, TLC, TtxX26

CONSTANTS Mags,          \* magazines in use, subset of 1..8
          Pages,         \* page descriptors <<page number, set of subcodes it is transmitted with>>
          Rows, Cids,    \* row numbers, content ids (0 = blank / not received)
          Nats,          \* national option values used in headers
          Flofs,         \* link set ids of X/27/0
          Progs,         \* sequence of X/26/0 packets (13 triplets each)
          HdrFaults, RowFaults, PktFaults, TripFaults, FlofFaults,    \* the fault model, see above
          MaxPk, MaxFaults

Ok   == [f |-> "ok"]
None == [pg |-> 0]
NoEnh == [e |-> 0, n |-> 0]        \* enhancement data held: the first n triplets of Progs[e]

VARIABLES mode,        \* "serial" | "parallel"
          open,        \* per magazine: the page in transmission or None
          lastm,       \* magazine of the last header (serial mode: only this one sends further packets)
          cache,       \* set of stored page versions
          term,        \* versions terminated by the last packet: what a fetch must return now
          flts,        \* uncorrectable faults so far (ghost: makes behaviours with different faults distinct)
          npk, lastAct
vars == <<mode, open, lastm, cache, term, flts, npk, lastAct>>

PgnoOf(p) == p[1]
SubsOf(p) == p[2]
MagOf(pg) == pg \div 256               \* 1..8
Rolling(sub) == sub >= 256             \* clock / rolling subcode: the page has one version
Blank == [r \in Rows |-> 0]
NoCol == 99                            \* no single-column parity error
BlankS == [r \in Rows |-> {0}]
BASE == 99                             \* link value: the one of the stored version this transmission builds on
Links == 1..6

HdrTxtFaults == {}      \* records [f |-> "htxt", cols |-> set of columns 8..39]; a cfg overrides it (HdrTxtFaults <- ...)
HF == {Ok} \cup {[f |-> x] : x \in HdrFaults} \cup HdrTxtFaults
HdrOk(f) == f = Ok \/ f.f = "htxt"       \* address and control bytes of the header are intact
HBad(f) == IF f = Ok THEN {} ELSE f.cols
RF == {Ok} \cup RowFaults
PF == {Ok} \cup {[f |-> x] : x \in PktFaults}
LF == PF \cup FlofFaults
XF == PF \cup {[f |-> "trip", j |-> j] : j \in TripFaults}

Init == /\ mode \in {"serial", "parallel"} /\ open = [m \in Mags |-> None] /\ lastm = 0
        /\ cache = {} /\ term = <<>> /\ flts = <<>> /\ npk = 0 /\ lastAct = [a |-> "init", flt |-> Ok]

Stored(pg, sub) == {c \in cache : c.pg = pg /\ c.sub = sub}
Base(o) == IF o.erase THEN {} ELSE Stored(o.pg, o.sub)     \* the stored version a transmission builds on

\* the enhancement data a version holds once the page o is terminated: a retransmission carries the same data, the longer prefix survives
EnhOf(o) == LET old == Base(o)  b == CHOOSE c \in old : TRUE
            IN IF old = {} \/ b.enh.n <= o.enh.n THEN o.enh ELSE b.enh
Trips(enh) == IF enh.e = 0 THEN <<>> ELSE SubSeq(Progs[enh.e], 1, enh.n)

\* the version to store when the page o is terminated
Merge(o) ==
  LET old == Base(o)
      b   == CHOOSE c \in old : TRUE
      enh == EnhOf(o)
      kept(r) == IF old = {} THEN {0} ELSE b.rows[r]                   \* the row is not received
      blink(k) == IF old = {} THEN {0} ELSE b.links[k]
  IN [pg |-> o.pg, sub |-> o.sub, nat |-> o.nat,
      rows |-> [r \in Rows |-> IF o.rows[r] = 0 THEN kept(r)
                               ELSE IF o.pcol[r] = NoCol THEN {o.rows[r]}
                               ELSE IF <<r, o.pcol[r]>> \in Overridden(Trips(enh)) THEN kept(r) \cup {o.rows[r]}
                               ELSE kept(r)],
      links |-> [k \in Links |-> UNION {IF x = BASE THEN blink(k) ELSE {x} : x \in o.links[k]}],
      enh  |-> enh, hbad |-> o.hbad]

Terminate(m) ==
  IF open[m] = None THEN /\ UNCHANGED cache /\ term' = <<>>
  ELSE LET v == Merge(open[m])
           replaced == IF Rolling(v.sub) THEN {c \in cache : c.pg = v.pg} ELSE Stored(v.pg, v.sub)
       IN /\ cache' = (cache \ replaced) \cup {v}
          /\ term' = <<v>>

Step(a) == /\ npk' = npk + 1 /\ lastAct' = a
           /\ flts' = IF a.flt = Ok THEN flts ELSE Append(flts, a.flt)
MayFail(f) == f = Ok \/ Len(flts) < MaxFaults

NewPage(pg, sub, erase, nat, hbad) ==
  [pg |-> pg, sub |-> sub, erase |-> erase, nat |-> nat, rows |-> Blank, pcol |-> [r \in Rows |-> NoCol],
   links |-> [k \in Links |-> {BASE}], enh |-> NoEnh, x26 |-> FALSE, hbad |-> hbad]

\* page header of p/sub
Header(p, sub, erase, nat, f) ==
  LET pg == PgnoOf(p)  m == MagOf(pg) IN
  /\ sub \in SubsOf(p) /\ m \in Mags /\ MayFail(f)
  /\ open[m] = None \/ open[m].pg # pg
  /\ IF f.f = "page"
     THEN /\ open' = [x \in Mags |-> None] /\ term' = <<>> /\ UNCHANGED cache
     ELSE /\ Terminate(m)
          /\ open' = [open EXCEPT ![m] = IF HdrOk(f) THEN NewPage(pg, sub, erase, nat, HBad(f)) ELSE None]
  /\ lastm' = m /\ UNCHANGED mode
  /\ Step([a |-> "Header", pg |-> pg, sub |-> sub, erase |-> erase, nat |-> nat, flt |-> f])

\* time-filling header (page number FF) of magazine m: terminates, opens nothing
Filler(m, f) ==
  /\ open[m] # None /\ MayFail(f)
  /\ IF f.f = "page"
     THEN /\ open' = [x \in Mags |-> None] /\ term' = <<>> /\ UNCHANGED cache
     ELSE /\ Terminate(m) /\ open' = [open EXCEPT ![m] = None]
  /\ lastm' = m /\ UNCHANGED mode
  /\ Step([a |-> "Filler", m |-> m, flt |-> f])

\* packets that follow a header; those of a page whose header was lost still arrive
Follows(m) == /\ (mode = "serial" => lastm = m)
              /\ open[m] # None \/ flts # <<>>

Row(m, r, c, f) ==
  /\ Follows(m) /\ MayFail(f)
  /\ open' = IF open[m] = None \/ f.f = "mrag" THEN open
             ELSE [open EXCEPT ![m].rows[r] = IF f = Ok \/ f.f = "parc" THEN c ELSE 0,
                               ![m].pcol[r] = IF f.f = "parc" THEN f.col ELSE NoCol]
  /\ term' = <<>> /\ UNCHANGED <<mode, lastm, cache>>
  /\ Step([a |-> "Row", m |-> m, r |-> r, c |-> c, flt |-> f])

\* enhancement packet X/26/0 number e; one per transmission of a page; a page retransmitted on top of its
\* stored version repeats the enhancement data of that version
X26(m, e, f) ==
  /\ Follows(m) /\ MayFail(f)
  /\ open[m] # None => /\ ~open[m].x26
                       /\ \A b \in Base(open[m]) : b.enh.e \in {0, e}
  /\ open' = IF open[m] = None THEN open
             ELSE [open EXCEPT ![m].x26 = TRUE,
                               ![m].enh = IF f = Ok THEN [e |-> e, n |-> 13]
                                          ELSE IF f.f = "trip" /\ f.j > 1 THEN [e |-> e, n |-> f.j - 1]
                                          ELSE NoEnh]
  /\ term' = <<>> /\ UNCHANGED <<mode, lastm, cache>>
  /\ Step([a |-> "X26", m |-> m, e |-> e, trips |-> Progs[e], flt |-> f])

\* packet X/27/0 with the link set l (six links and the link control byte)
Flof(m, l, f) ==
  /\ Follows(m) /\ MayFail(f) /\ l # 0
  /\ open' = IF open[m] = None \/ f.f \in {"mrag", "desig", "lcb"} THEN open
             ELSE IF f = Ok THEN [open EXCEPT ![m].links = [k \in Links |-> {l}]]
             ELSE [open EXCEPT ![m].links = [k \in Links |-> IF k = f.k THEN open[m].links[k] \cup {0}
                                                                       ELSE open[m].links[k] \cup {l}]]
  /\ term' = <<>> /\ UNCHANGED <<mode, lastm, cache>>
  /\ Step([a |-> "Flof", m |-> m, l |-> l, flt |-> f])

Next == \/ \E p \in Pages, s \in UNION {SubsOf(q) : q \in Pages}, e \in BOOLEAN, n \in Nats, f \in HF : Header(p, s, e, n, f)
        \/ \E m \in Mags, f \in HF : Filler(m, f)
        \/ \E m \in Mags, r \in Rows, c \in Cids, f \in RF : Row(m, r, c, f)
        \/ \E m \in Mags, e \in 1..Len(Progs), f \in XF : X26(m, e, f)
        \/ \E m \in Mags, l \in Flofs, f \in LF : Flof(m, l, f)
Spec == Init /\ [][Next]_vars
Bounded == npk < MaxPk

-----------------------------------------------------------------------------
\* the characters a stored version shows on top of its rows at Level 1.5: set of <<row, column, unicode>>
\* (upper bound; MustShow: the characters completed by a later received triplet, see TtxX26)
Shown(v) == IF v.enh.e = 0 THEN {} ELSE Lands(SubSeq(Progs[v.enh.e], 1, v.enh.n))
MustShow(v) == IF v.enh.e = 0 THEN {} ELSE Complete(SubSeq(Progs[v.enh.e], 1, v.enh.n))

ProgsOK == \A e \in 1..Len(Progs) : WellFormed(Progs[e])
OneVersion == \A c, d \in cache : (c.pg = d.pg /\ c.sub = d.sub) => c = d
RollingOne == \A c, d \in cache : (c.pg = d.pg /\ Rolling(c.sub)) => c = d
\* C03: only transmitted page / subpage numbers are ever stored
OnlyTransmitted == \A c \in cache : \E p \in Pages : c.pg = PgnoOf(p) /\ c.sub \in SubsOf(p)
\* C03: enhancement characters are dropped, never misplaced
EnhNotMisplaced == \A c \in cache : c.enh.e # 0 => MustShow(c) \subseteq Shown(c) /\ Shown(c) \subseteq Lands(Progs[c.enh.e])
\* C03: a packet with an uncorrectable address or designation changes nothing
Untouched(o, n) == n = o \/ (o # None /\ n = [o EXCEPT !.x26 = TRUE])
AddressFaultNothing == [][lastAct'.flt.f \in {"mrag", "desig", "lcb"} =>
                             cache' = cache /\ \A m \in Mags : Untouched(open[m], open'[m])]_vars
\* C03: an uncorrectable header opens nothing and stores at most the page it terminates
HeaderFaultOnlyAbandons == [][lastAct'.a \in {"Header", "Filler"} /\ ~HdrOk(lastAct'.flt) =>
                                 /\ \A m \in Mags : open'[m] \in {None, open[m]}
                                 /\ cache' \subseteq cache \cup {term'[i] : i \in 1..Len(term')}]_vars
\* C03: a header whose TEXT has a parity error is contained: it terminates and opens what the intact header does, no other stored
\* page is dropped, no other magazine is touched; the damaged columns are remembered for the header row of the version
HeaderTextContained ==
  [][(lastAct'.a \in {"Header", "Filler"} /\ lastAct'.flt.f = "htxt") =>
       LET m == lastm' IN
       /\ \A c \in cache : c \in cache' \/ \E i \in 1..Len(term') : term'[i].pg = c.pg /\ (Rolling(term'[i].sub) \/ term'[i].sub = c.sub)
       /\ \A x \in Mags \ {m} : open'[x] = open[x]
       /\ open[m] # None => (Len(term') = 1 /\ term'[1] \in cache' /\ term'[1].pg = open[m].pg /\ term'[1].sub = open[m].sub)
       /\ lastAct'.a = "Header" => /\ open'[m] # None /\ open'[m].pg = lastAct'.pg /\ open'[m].sub = lastAct'.sub
                                   /\ open'[m].hbad = lastAct'.flt.cols]_vars
HdrTextOnly == \A c \in cache : c.hbad \subseteq 8..39
\* C03: a row with a parity error never adds or changes content of the page in transmission (a single damaged byte
\* leaves the decision to the termination: ParityErrorContained)
BadRowContained == [][lastAct'.a = "Row" /\ lastAct'.flt # Ok /\ lastAct'.flt.f # "parc" => \A m \in Mags : open[m] # None =>
                         \A r \in Rows : open'[m].rows[r] \in {0, open[m].rows[r]}]_vars
\* ... and so every row of a terminated version is blank, the stored row, or was received intact in this transmission
KeptRow(o, r) == IF Base(o) = {} THEN {0} ELSE (CHOOSE c \in Base(o) : TRUE).rows[r]
KeepsRows == [][\A i \in 1..Len(term') : LET v == term'[i]  o == open[MagOf(v.pg)] IN
                  \A r \in Rows : o.rows[r] = 0 => v.rows[r] = KeptRow(o, r)]_vars
\* C03: a row received with a parity error in one byte replaces nothing and shows nothing new unless the page's enhancement
\* data supply the character of exactly that position; a triplet of a mode that supplies no character excuses nothing
ParityErrorContained ==
  [][\A i \in 1..Len(term') : LET v == term'[i]  o == open[MagOf(v.pg)] IN
        \A r \in Rows : (o.rows[r] # 0 /\ o.pcol[r] # NoCol) =>
             \/ v.rows[r] = KeptRow(o, r)
             \/ /\ v.rows[r] = KeptRow(o, r) \cup {o.rows[r]}
                /\ \E j \in 1..v.enh.n : LET t == Progs[v.enh.e][j] IN t.a = o.pcol[r] /\ t.m \in CharModes]_vars
\* C03: an X/27 packet with a damaged link never shows a page number that was not transmitted for that link
LinksContained == \A c \in cache : \A k \in Links : c.links[k] # {} /\ c.links[k] \subseteq Flofs \cup {0}
\* ... and a damaged link keeps its value or is no link
DamagedLinkKept == [][(lastAct'.a = "Flof" /\ lastAct'.flt.f = "link") => LET m == lastAct'.m IN open[m] # None =>
                        /\ open'[m].links[lastAct'.flt.k] = open[m].links[lastAct'.flt.k] \cup {0}
                        /\ \A k \in Links : open[m].links[k] \subseteq open'[m].links[k]
                        /\ \A x \in Mags \ {m} : open'[x] = open[x]]_vars
=============================================================================
