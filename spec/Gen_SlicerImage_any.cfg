\* every geometry, admitted or not by the coded rule: does the scan line loop stay inside the image (far <= rows)?
CONSTANTS MaxCount = 4 MaxExtra = 0 Rule = "any"
SPECIFICATION Spec
INVARIANTS TypeOK
CONSTRAINT DumpGeo
CHECK_DEADLOCK FALSE
