CONSTANTS Scanning = 525 Use <- UseNtsc Geoms <- GeomsNtscQ AddSets <- AddNtsc RateCfgs <- GenRates Apis = {"new", "old"}
  Stricts = {0, 1} Ways = 8 MaxJobs = 8 MaxCalls = 9 MaxDecodes = 9 MaxCarried = 2 MaxDepth = 4 ShortOut = TRUE Fixed = TRUE SampleN = 20
SPECIFICATION GSpec
VIEW core
CONSTRAINT DepthBound
ACTION_CONSTRAINT Dump
CHECK_DEADLOCK FALSE
