CONSTANTS Pgnos = {257} Subnos = {0, 1} Sizes = {2, 3} Fns = {"unknown"} NSlots = 2 NNSlots = 2
  MaxOps = 10 MaxPuts = 4 Limits = {4} NetLimit = 1 Policy = "impl" SkipCollected = TRUE ExactFirst = TRUE
  GetMasks = {65535} ClockVals = {} MaxNets = 4
SPECIFICATION Spec
CONSTRAINT Bounded
INVARIANTS TypeOK RefsAreHandles HeldAlive ListsOK WithinLimit NetsOK StatOK NoDupVictim UniqueKey
CHECK_DEADLOCK FALSE
