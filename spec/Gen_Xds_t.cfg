CONSTANTS NK = 3 KeyCls <- Cls3 KeyTyp <- Typ3 Bytes = {64, 98} L = 32 MaxEv = 7 ErrPairs <- ErrFew HalfGuard = TRUE
SPECIFICATION GSpec
VIEW gview
CONSTRAINT Dump
CHECK_DEADLOCK FALSE
