CONSTANTS TimeBits = 64 FixedZone <- Fixed RejectZones <- Reject Refs <- RefsQ Offsets <- OffsQ
  PMonths = {1} PDays = {1} PHours = {0} PMinutes = {0} TzValues = {"U"}
SPECIFICATION GSpec
CHECK_DEADLOCK FALSE
