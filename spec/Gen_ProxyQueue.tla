---------------------------- MODULE Gen_ProxyQueue ----------------------------
(* Stimulus schedules for the proxy daemon's data path: random walks (tlc -simulate) through ProxyQueue.
   The client steps and the capture clock of a walk are executed against the real daemon (checks/c18.py);
   Send is the daemon's own step and is dropped.  A client that does not take a Read step while frames
   arrive is a stalled client. *)
EXTENDS ProxyQueue, Json
CONSTANTS Depth, WTick, WRead     \* weights: a random walk picks uniformly among the successor states
VARIABLE hist
gvars == <<vars, hist>>
H(r) == hist' = Append(hist, r)
RECURSIVE SeqOf(_)
SeqOf(T) == IF T = {} THEN <<>> ELSE LET x == CHOOSE y \in T : TRUE IN <<x>> \o SeqOf(T \ {x})
GNext ==
  \/ \E c \in Clients :
       \/ Accept(c) /\ H([a |-> "Accept", c |-> c])
       \/ \E sv \in SUBSET Services, lv \in LevelsUsed :
             Connect(c, sv, lv) /\ H([a |-> "Connect", c |-> c, srv |-> SeqOf(sv), l |-> lv])
       \/ \E sv \in SUBSET Services, lv \in LevelsUsed, rs \in BOOLEAN :
             ServiceReq(c, sv, lv, rs, FALSE) /\ H([a |-> "ServiceReq", c |-> c, srv |-> SeqOf(sv), l |-> lv, reset |-> rs])
       \/ Disconnect(c) /\ H([a |-> "Disconnect", c |-> c])
       \/ \E k \in 1..WRead : Read(c) /\ H([a |-> "Read", c |-> c, k |-> k])
       \/ Send(c) /\ UNCHANGED hist
  \/ \E k \in 1..WTick : Tick(BlockedNow, TRUE) /\ H([a |-> "Tick", k |-> k])
GSpec == Init /\ hist = <<>> /\ [][GNext]_gvars
Dump == (TLCGet("level") >= Depth => PrintT(<<"TR", ToJson(hist)>>)) /\ TLCGet("level") < Depth
=============================================================================
