CONSTANTS Mags = {8} Pages <- PagesTwo8 Rows = {1} Cids = {1, 2} Nats = {0} Flofs = {} Progs <- NoProgs
          HdrFaults <- HdrAll RowFaults <- RowFew PktFaults = {} TripFaults = {} FlofFaults <- NoFlofFaults MaxFaults = 2 MaxPk = 6 FaultFrom = {0}
SPECIFICATION GSpec
VIEW gview
INVARIANT DumpT
CHECK_DEADLOCK FALSE
