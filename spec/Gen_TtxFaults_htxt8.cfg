CONSTANTS Mags = {1, 8} Pages <- PagesH8 Rows = {1} Cids = {1} Nats = {0} Flofs = {} Progs <- NoProgs
          HdrFaults = {} RowFaults = {} PktFaults = {} TripFaults = {} FlofFaults <- NoFlofFaults MaxFaults = 1 MaxPk = 5 FaultFrom = {0}
          HdrTxtFaults <- HtxtFew
SPECIFICATION GSpec
VIEW gview
INVARIANT DumpT
CHECK_DEADLOCK FALSE
