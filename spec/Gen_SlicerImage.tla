--------------------------- MODULE Gen_SlicerImage ---------------------------
(* Behaviour generation for SlicerImage: every complete call (geometry, max_lines, signal lines)
   with the number of records and the scan lines they belong to as computed by the spec; replayed
   by checks/c05.py on the real raw decoders with exactly sized images and output arrays. *)
EXTENDS SlicerImage, Json

SetToSeq(S) == LET RECURSIVE f(_) 
                   f(T) == IF T = {} THEN <<>> ELSE LET x == CHOOSE y \in T : \A z \in T : y <= z IN <<x>> \o f(T \ {x})
               IN f(S)

Dump == pc \in {"done", "rejected"} =>
          PrintT(<<"TR", ToJson([c0 |-> c0, c1 |-> c1, il |-> il, maxl |-> maxl, svc |-> IF svc THEN 1 ELSE 0,
                                 ok |-> IF pc = "done" THEN 1 ELSE 0,
                                 sig |-> SetToSeq(sig), n |-> out, recs |-> recs])>>)

\* Rule = "any": per geometry, the worst case of the loop (all lines searched, array never full)
DumpGeo == (pc = "done" /\ svc /\ maxl = c0 + c1 /\ sig = {}) =>
          PrintT(<<"TR", ToJson([c0 |-> c0, c1 |-> c1, il |-> il, valid |-> IF Valid THEN 1 ELSE 0,
                                 rows |-> Rows, far |-> far])>>)
=============================================================================
