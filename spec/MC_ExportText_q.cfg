CONSTANTS Codes <- CodesQ SizeVals = {0, 4} MRows = 2 MCols = 2 Gfxs = {35, 32} UnreprSets <- Unr
SPECIFICATION Spec
INVARIANTS ExportShape ExportChars ExportExact TableShape TableRegion TableChars
CHECK_DEADLOCK FALSE
