CONSTANTS Codes <- CodesQ SizeVals = {0, 1, 4} MRows = 1 MCols = 3 Gfxs = {35, 32} UnreprSets <- Unr
SPECIFICATION Spec
INVARIANTS ExportShape ExportChars ExportExact TableShape TableRegion TableChars AcceptSound
CHECK_DEADLOCK FALSE
