CONSTANTS Mags = {8} Pages <- PagesOne8 Rows = {1, 24} Cids = {1, 2} Nats = {0} Flofs = {} Progs <- NoProgs
          HdrFaults <- HdrAll RowFaults <- RowAll PktFaults = {} TripFaults = {} FlofFaults <- NoFlofFaults MaxFaults = 1 MaxPk = 6 FaultFrom = {0}
SPECIFICATION GSpec
VIEW gview
INVARIANT DumpF
CHECK_DEADLOCK FALSE
