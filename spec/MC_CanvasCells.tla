--------------------------- MODULE MC_CanvasCells ---------------------------
EXTENDS CanvasCells
(* 4 x 3 cells with one double width, one double size and one double height character:
      N   DW  OT  N
      DS  OT  DH  N
      DS2 OB  DH2 N                                                                    *)
Page43 == [rows |-> 3, cols |-> 4, sz |-> <<0, 1, 4, 0,  3, 4, 2, 0,  7, 5, 6, 0>>]
(* 5 x 3: wide characters at the left and right edge *)
Page53 == [rows |-> 3, cols |-> 5, sz |-> <<1, 4, 0, 1, 4,  0, 3, 4, 2, 0,  0, 7, 5, 6, 0>>]
ASSUME SmallPagesFit == WellFormed(Page43) /\ WellFormed(Page53)
SmallPages == {Page43}
SmallPages2 == {Page53}

(* ---- Edge pages: one character of every size (and every lone continuation cell) in EVERY column and row of a page,
   including the last ones where the character is clipped by the page.

   Geometry [rows, cols, fr, fc]: an edge page stands for a real page of any larger size: row fr and column fc (the
   FILLER) stand for the run of real rows / columns between the first fr - 1 and the last rows - fr rows (fc - 1, cols -
   fc columns); all cells of the filler have normal size.  With that the model page is a homomorphic image of the real
   one: neighbours, the page's edges and Shown / Cuts / Post of a region are preserved (a region edge inside the filler
   stands for an edge anywhere in the run).  Trace_CanvasCells checks this correspondence for every page and region that
   was generated from here (Abstracts, RegionMaps).

   A page is given by a descriptor d = [via, k, r, c]:
     via = "edit"    the sizes Place writes for a character of size k at (r, c), clipped at the page's edges, k in 1..7
                     (k in 4..7: a lone continuation cell).  Any such page can be made by the application (vbi_page is a
                     public structure); the harness edits a fetched page.
     via = "copy", "blank"   what the Teletext formatter makes of an enhancement character of size k in 1..3 at (r, c),
                     c < cols (teletext.c post_enhance(), column_41()): it places the character on the 40 columns of the
                     transmitted page (clipped at column 40, i.e. the model's column cols - 1; the LAST row of the page is
                     not post-processed: a character there gets no OVER_TOP cell, a character in the row above it no lower
                     half) and then adds the 41st column, which is either a copy of the 40th (with its size attribute: a
                     double width / size cell in column 40 gives one in column 41; always so in the header row) or
                     blank.  These pages are obtained by really decoding X/26 packets.
     via = "wrap"    a wide cell of size k in the last column of row r and an OVER_TOP cell in the first column of row
                     r + 1 (neighbours in memory, not on the page): by editing.                                       *)
Normal(rows, cols) == [rows |-> rows, cols |-> cols, sz |-> [i \in 1..(rows * cols) |-> 0]]
SetSz(p, r, c, z) == IF OnPage(p, r, c) THEN [p EXCEPT !.sz[(r - 1) * p.cols + c] = z] ELSE p
Place(p, k, r, c) == CASE k = 1 -> SetSz(SetSz(p, r, c, 1), r, c + 1, 4)
                       [] k = 2 -> SetSz(SetSz(p, r, c, 2), r + 1, c, 6)
                       [] k = 3 -> SetSz(SetSz(SetSz(SetSz(p, r, c, 3), r, c + 1, 4), r + 1, c, 7), r + 1, c + 1, 5)
                       [] OTHER -> SetSz(p, r, c, k)
\* the formatter: continuation cells right of the character in all rows but the last, below it in all rows but the last two
PlaceF(p, k, r, c) == LET right(q) == IF r <= p.rows - 1 THEN SetSz(q, r, c + 1, 4) ELSE q
                          vert == r <= p.rows - 2 IN
                      CASE k = 1 -> right(SetSz(p, r, c, 1))
                        [] k = 2 -> IF vert THEN SetSz(SetSz(p, r, c, 2), r + 1, c, 6) ELSE SetSz(p, r, c, 2)
                        [] k = 3 -> IF vert THEN Place(p, 3, r, c) ELSE right(SetSz(p, r, c, 3))
\* the 41st column: p has cols - 1 columns (in the header row it is always a copy)
AddColumn(p, copy) == [rows |-> p.rows, cols |-> p.cols + 1,
                       sz |-> [i \in 1..(p.rows * (p.cols + 1)) |->
                                 LET r == ((i - 1) \div (p.cols + 1)) + 1  c == ((i - 1) % (p.cols + 1)) + 1 IN
                                 IF c <= p.cols THEN Sz(p, r, c) ELSE IF copy \/ r = 1 THEN Sz(p, r, p.cols) ELSE 0]]
PageOf(g, d) == IF d.via = "edit" THEN Place(Normal(g.rows, g.cols), d.k, d.r, d.c)
                ELSE IF d.via = "wrap" THEN SetSz(SetSz(Normal(g.rows, g.cols), d.r, g.cols, d.k), d.r + 1, 1, 4)
                ELSE AddColumn(PlaceF(Normal(g.rows, g.cols - 1), d.k, d.r, d.c), d.via = "copy")
\* the character must not touch the filler: all cells of the filler row and column keep normal size
Fits(g, d) == /\ d.c <= (IF d.via = "edit" THEN g.cols ELSE g.cols - 1)
              /\ d.via \in {"copy", "blank"} => d.k \in 1..3
              /\ d.via = "wrap" => d.c = 1 /\ Wide(d.k) /\ d.r < g.rows
              /\ LET p == PageOf(g, d) IN
                 /\ \A rc \in Cells(p) : (rc[1] = g.fr \/ rc[2] = g.fc) => Sz(p, rc[1], rc[2]) = 0
                 /\ \A rc \in Cells(p) : \A x \in CharCells(p, rc[1], rc[2]) : x[1] # g.fr /\ x[2] # g.fc      \* (a wide cell without its OVER_ cell)
Descs(g, kinds) == {d \in [via : {"edit", "copy", "blank", "wrap"}, k : kinds, r : 1..g.rows, c : 1..g.cols] : Fits(g, d)}
EdgePages(g, kinds) == {PageOf(g, d) : d \in Descs(g, kinds)} \cup {Normal(g.rows, g.cols)}

GeoQ == [rows |-> 4, cols |-> 6, fr |-> 2, fc |-> 3]         \* 1 + filler + 2 rows, 2 + filler + 3 columns
GeoT == [rows |-> 5, cols |-> 6, fr |-> 3, fc |-> 3]         \* 2 + filler + 2 rows
EdgePagesQ == EdgePages(GeoQ, 1..7)
EdgePagesT == EdgePages(GeoT, 1..7)
\* the arrangement the statement's counterexample needs is among them
ASSUME EdgeHasWideLastColumn == \E p \in EdgePagesQ : \E r \in 1..p.rows : Wide(Sz(p, r, p.cols))
=============================================================================
