--------------------------- MODULE MC_CanvasCells ---------------------------
EXTENDS CanvasCells
(* 4 x 3 cells with one double width, one double size and one double height character:
      N   DW  OT  N
      DS  OT  DH  N
      DS2 OB  DH2 N                                                                    *)
Page43 == [rows |-> 3, cols |-> 4, sz |-> <<0, 1, 4, 0,  3, 4, 2, 0,  7, 5, 6, 0>>]
(* 5 x 3: wide characters at the left and right edge *)
Page53 == [rows |-> 3, cols |-> 5, sz |-> <<1, 4, 0, 1, 4,  0, 3, 4, 2, 0,  0, 7, 5, 6, 0>>]
=============================================================================
