CONSTANTS Mags = {1, 8} Pages <- PagesMix Rows = {1, 2, 24} Cids = {1, 2, 3} Nats = {0, 1} Flofs = {1, 2} Progs <- ProgsSim
          HdrFaults <- HdrAll RowFaults <- RowAllSim PktFaults <- PktAll TripFaults <- TripAll FlofFaults <- FlofAll MaxFaults = 3 MaxPk = 16
          FaultFrom = {0, 3, 6, 9, 12} HdrTxtFaults <- HtxtSim
SPECIFICATION GSpec
INVARIANT Dump
CHECK_DEADLOCK FALSE
