CONSTANTS Prog <- CcFour ResetLocking = "release" EventUnlock = TRUE HandlerFetch = TRUE Arm = 2 GapLocked = TRUE ResizeSameUnlocks = TRUE
SPECIFICATION Spec
INVARIANTS LocksetOK NoRace CallbackUnlocked NoSelfLock SnapshotAtomic ConsistentSet ContextOK LockBalance SwitchServed HolderOK
