CONSTANTS Mags = {8} Pages <- PagesOne8 Rows = {1} Cids = {1, 2} Nats = {0} Flofs = {} Progs <- ProgsModes
          HdrFaults = {} RowFaults <- ParcModes PktFaults = {} TripFaults = {} FlofFaults <- NoFlofFaults MaxFaults = 1 MaxPk = 7 FaultFrom = {0}
SPECIFICATION GSpec
VIEW gview
INVARIANT DumpT
CHECK_DEADLOCK FALSE
