CONSTANTS Pages = {} Formats = {"RGBA32_LE"} Strides = {"exact"} MaxDraws = 0 Clip = "region"
SPECIFICATION TSpec
INVARIANT AllAccepted
POSTCONDITION TraceAccepted
CHECK_DEADLOCK FALSE
