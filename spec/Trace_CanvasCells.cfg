CONSTANTS PageM <- Page43 Formats = {"RGBA32_LE"} Strides = {"exact"} MaxDraws = 0 Clip = TRUE
SPECIFICATION TSpec
INVARIANT AllAccepted
POSTCONDITION TraceAccepted
CHECK_DEADLOCK FALSE
