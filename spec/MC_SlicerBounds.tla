--------------------------- MODULE MC_SlicerBounds ---------------------------
(* Model checking of SlicerBounds over a list of configurations dumped from the real slicer objects
   (module SlicerCfgs: written by checks/c05.py into its scratch directory; spec/SlicerCfgs.tla is a
   small sample of the same shape), and the survey that lists every scan position at which the
   bound is exceeded, with the first out-of-line byte and the worst excess, for the replay.     *)
EXTENDS SlicerBounds, SlicerCfgs, Json

\* LET: the list (thousands of records) is evaluated once, not once per index
CfgSet == LET L == CfgList IN {L[i] : i \in 1..Len(L)}

Bad == Reading /\ hi >= Limit(C)

FirstBadBit(c, m) == CHOOSE j \in 0..(DataBits(c) - 1) :
                        /\ ByteHi(c, BitLast(c, m, j)) >= Limit(c)
                        /\ (j = 0 \/ ByteHi(c, BitLast(c, m, j - 1)) < Limit(c))
\* Behind: bytes behind the line touched by a step that reads the samples a..b (an access of the real code that is
\* trapped behind an exactly sized line must be one of those of the first step that leaves the line)
SetToSeq(S) == LET RECURSIVE f(_)
                   f(T) == IF T = {} THEN <<>> ELSE LET x == CHOOSE y \in T : \A z \in T : y <= z IN <<x>> \o f(T \ {x})
               IN f(S)
Behind(c, a, b) == SetToSeq({x \in {(ByteLo(c, s) + d) : s \in a..b, d \in 0..c.wide} : x >= Limit(c)})

\* survey: one line per scan step at which the line bound is exceeded.  The data bits sampled when the run-in completes
\* in step n are judged in the state of step n itself (Rightward, checked by the model checking run, makes the last bit
\* the worst), so the survey does not walk through the bits; a search that has left the line altogether is not followed
\* any further (a wrapped search limit would be followed for 2^31 steps).
LastBad(c, m) == DataBits(c) > 0 /\ ByteHi(c, BitLast(c, m, DataBits(c) - 1)) >= Limit(c)

ReportBits(c, m) ==
  LET j == FirstBadBit(c, m)
      h == ByteHi(c, BitLast(c, m, DataBits(c) - 1))
      b == Behind(c, BitFirst(c, m, j), BitLast(c, m, j)) IN
  PrintT(<<"TR", ToJson([c |-> c.id, ph |-> "bits", n |-> m, k |-> j,
                         bad |-> [i \in 1..Len(b) |-> b[i] - Limit(c)],
                         ex |-> h + 1 - Limit(c), img |-> IF h >= 2 * Limit(c) THEN 1 ELSE 0])>>)

ReportScan ==
  LET a == IF pc = "pro" THEN 0 ELSE ScanFirst(C, n)
      b == IF pc = "pro" THEN Window - 1 ELSE ScanLast(C, n)
      s == Behind(C, a, b) IN
  PrintT(<<"TR", ToJson([c |-> C.id, ph |-> "scan", n |-> n, k |-> 0,
                         bad |-> [i \in 1..Len(s) |-> s[i] - Limit(C)],
                         ex |-> hi + 1 - Limit(C), img |-> IF hi >= 2 * Limit(C) THEN 1 ELSE 0])>>)

Survey ==
  /\ pc # "bits"
  /\ (pc = "scan" /\ LastBad(C, n)) => ReportBits(C, n)
  /\ (pc \in {"pro", "scan"} /\ Bad) => ReportScan
  /\ ~(pc = "scan" /\ lo >= Limit(C))
=============================================================================
