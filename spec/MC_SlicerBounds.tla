--------------------------- MODULE MC_SlicerBounds ---------------------------
(* Model checking of SlicerBounds over a list of configurations dumped from the real slicer objects
   (module SlicerCfgs: written by checks/c05.py into its scratch directory; spec/SlicerCfgs.tla is a
   small sample of the same shape), and the survey that lists every scan position at which the
   bound is exceeded, with the first out-of-line byte and the worst excess, for the replay.     *)
EXTENDS SlicerBounds, SlicerCfgs, Json

CfgSet == {CfgList[i] : i \in 1..Len(CfgList)}

Bad == Reading /\ hi >= Limit(C)

FirstBadBit(c, m) == CHOOSE j \in 0..(DataBits(c) - 1) :
                        /\ ByteHi(c, BitLast(c, m, j)) >= Limit(c)
                        /\ (j = 0 \/ ByteHi(c, BitLast(c, m, j - 1)) < Limit(c))
\* Behind: bytes behind the line touched by a step that reads the samples a..b (an access of the real code that is
\* trapped behind an exactly sized line must be one of those of the first step that leaves the line)
SetToSeq(S) == LET RECURSIVE f(_)
                   f(T) == IF T = {} THEN <<>> ELSE LET x == CHOOSE y \in T : \A z \in T : y <= z IN <<x>> \o f(T \ {x})
               IN f(S)
Behind(c, a, b) == SetToSeq({x \in {(ByteLo(c, s) + d) : s \in a..b, d \in 0..c.wide} : x >= Limit(c)})

\* survey: one line per scan step at which the line bound is exceeded (printed at the last bit, the worst one)
Report ==
  IF pc = "bits" /\ k + 1 = DataBits(C) /\ Bad
  THEN LET j == FirstBadBit(C, n) IN
       PrintT(<<"TR", ToJson([c |-> C.id, ph |-> "bits", n |-> n, k |-> j,
                              bad |-> [i \in 1..Len(Behind(C, BitFirst(C, n, j), BitLast(C, n, j))) |->
                                          Behind(C, BitFirst(C, n, j), BitLast(C, n, j))[i] - Limit(C)],
                              ex |-> hi + 1 - Limit(C), img |-> IF hi >= 2 * Limit(C) THEN 1 ELSE 0])>>)
  ELSE IF pc \in {"pro", "scan"} /\ Bad
  THEN LET a == IF pc = "pro" THEN 0 ELSE ScanFirst(C, n)
           b == IF pc = "pro" THEN Window - 1 ELSE ScanLast(C, n) IN
       PrintT(<<"TR", ToJson([c |-> C.id, ph |-> "scan", n |-> n, k |-> 0,
                              bad |-> [i \in 1..Len(Behind(C, a, b)) |-> Behind(C, a, b)[i] - Limit(C)],
                              ex |-> hi + 1 - Limit(C), img |-> IF hi >= 2 * Limit(C) THEN 1 ELSE 0])>>)
  ELSE TRUE
Survey == Report
=============================================================================
