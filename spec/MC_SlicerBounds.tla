--------------------------- MODULE MC_SlicerBounds ---------------------------
(* Model checking of SlicerBounds over a list of configurations dumped from the real slicer objects
   (module SlicerCfgs: written by checks/c05.py into its scratch directory; spec/SlicerCfgs.tla is a
   small sample of the same shape), and the survey that lists every scan position at which the
   bound is exceeded, with the first out-of-line byte and the worst excess, for the replay.     *)
EXTENDS SlicerBounds, SlicerCfgs, Json

Bad == Reading /\ hi >= Limit(C)

MinOf(S) == CHOOSE x \in S : \A y \in S : x <= y

FirstBadBit(c, m) == CHOOSE j \in 0..(DataBits(c) - 1) :
                        /\ ByteHi(c, BitLast(c, m, j)) >= Limit(c)
                        /\ (j = 0 \/ ByteHi(c, BitLast(c, m, j - 1)) < Limit(c))
\* lowest byte behind the line that step (m, j) touches, counted from the end of the line
FirstBadByte(c, m, j) == ByteLo(c, MinOf({s \in BitFirst(c, m, j)..BitLast(c, m, j) : ByteHi(c, s) >= Limit(c)})) - Limit(c)
ScanBadByte(c, m) == ByteLo(c, MinOf({s \in ScanFirst(c, m)..ScanLast(c, m) : ByteHi(c, s) >= Limit(c)})) - Limit(c)

Report ==
  IF pc = "bits" /\ k + 1 = DataBits(C) /\ Bad
  THEN LET j == FirstBadBit(C, n) IN
       PrintT(<<"TR", ToJson([c |-> ci, ph |-> "bits", n |-> n, k |-> j, fb |-> FirstBadByte(C, n, j),
                              ex |-> hi + 1 - Limit(C), img |-> IF hi >= Limit(C) + C.after THEN 1 ELSE 0])>>)
  ELSE IF pc \in {"pro", "scan"} /\ Bad
  THEN PrintT(<<"TR", ToJson([c |-> ci, ph |-> "scan", n |-> n, k |-> 0,
                              fb |-> IF pc = "pro" THEN 0 ELSE ScanBadByte(C, n),
                              ex |-> hi + 1 - Limit(C), img |-> IF hi >= Limit(C) + C.after THEN 1 ELSE 0])>>)
  ELSE TRUE
Survey == Report
=============================================================================
