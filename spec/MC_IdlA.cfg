CONSTANTS Lens = {0, 1, 30} Formats = {"ci", "ci+dl", "impl", "impl+dl"} SpaLens = {3, 6} StartCi = {0, 254} Bursts = {2, 16, 240, 255} MaxPk = 5
SPECIFICATION Spec
CONSTRAINT Bounded
INVARIANTS TypeOK
PROPERTIES FlagOnlyAfterLoss FlagAfterLoss
CHECK_DEADLOCK FALSE
