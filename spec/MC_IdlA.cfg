CONSTANTS Formats = {0, 4, 8, 12} SpaLens = {2, 6} StartCi = {0, 254} PayCi = {0, 9, 255} ForeignLens = {2, 3} Bursts = {2, 16, 240, 255} MaxPk = 5
  Modes = {"cont", "mix"} ContFull = TRUE
  Listen <- ListenM
  Pays <- SpecialPays
SPECIFICATION Spec
INVARIANTS TypeOK
PROPERTIES FlagOnlyAfterLoss FlagAfterLoss NothingForeign DeliveredIff DepPassed MixNeutral
CHECK_DEADLOCK FALSE
