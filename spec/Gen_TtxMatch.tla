--------------------------- MODULE Gen_TtxMatch ---------------------------
(* Generator of the C17 regular-expression layer: walks the pattern space (TtxPatSpace) -
   exhaustively up to MaxExh nodes, a strided sample (offset from Seed) of the larger strata -
   pairs every pattern, case folded and not, with caches of generated row texts (TtxMatchRows)
   and prints what the independent matcher (TtxMatch / TtxMatchPage) expects of a forward and
   of a backward pass of vbi_search_next: page and highlighted cells of the first Cap+1 reports,
   and whether the pattern is Ambiguous for ure's single path automaton (TtxMatchDet).
   The jobs are states (root -> chunk -> case) so that TLC's workers share the evaluation.     *)
EXTENDS TtxMatchRows, TtxMatchDet, Json, TLC

CONSTANTS MaxExh,        \* trees with 1..MaxExh nodes: all
          SampleSizes,   \* larger tree sizes of which NSample each are taken
          NSample,
          NNext,         \* number of trees taken from the size MaxExh + 1 (the largest stratum that is nearly covered)
          NPre, NLi,     \* number of patterns taken from the families "P" and "L" (>= count: all)
          FoldAllMax,    \* trees with more nodes and no capital letter run with ONE setting of casefold (alternating)
          NCaches,       \* caches of row texts
          CachesPer,     \* caches a pattern is run on
          Cap,           \* reports compared per pass (one more call is made to see NOT_FOUND)
          NChunks

VARIABLE job

Caches == TLCEval([c \in 1..NCaches |-> Cache(c)])    \* (TLC evaluates a function constructor lazily: evaluated once here)

Strata == {<<"T", n>> : n \in (1..MaxExh) \cup SampleSizes} \cup {<<"P", 0>>, <<"L", 0>>, <<"X", 0>>}
Want(f, n) == CASE f = "T" -> IF n <= MaxExh THEN T(n) ELSE IF n = MaxExh + 1 THEN NNext ELSE NSample
                [] f = "P" -> NPre [] f = "L" -> NLi [] f = "X" -> NNamed
\* number of indices taken from a stratum, and the j-th of them
M(f, n) == IF Want(f, n) >= CountOf(f, n) THEN CountOf(f, n) ELSE Want(f, n)
KOf(f, n, j) == LET cnt == CountOf(f, n) IN
                IF M(f, n) = cnt THEN j
                ELSE ((H2(Seed, n * 7 + Len(f)) % cnt) + j * (cnt \div M(f, n)) + (H2(Seed + j, 3) % (cnt \div M(f, n)))) % cnt
RECURSIVE HasCap(_)
HasCap(p) == CASE p.k = "chr" -> p.c \in 65..90
               [] p.k \in {"cls", "ncls"} -> \E c \in p.s : c \in 65..90
               [] p.k \in {"cat", "alt"} -> \E i \in 1..Len(p.a) : HasCap(p.a[i])
               [] p.k \in {"star", "plus", "opt"} -> HasCap(p.p)
               [] OTHER -> FALSE
Folds(f, n, k) == IF f = "L" /\ FoldAllMax < 8 THEN {(k + Seed) % 2 = 0}
                  ELSE IF f # "T" \/ n <= FoldAllMax \/ HasCap(Unrank(n, k, "none")) THEN BOOLEAN ELSE {(k + Seed) % 2 = 0}
\* a literal pattern runs on a cache whose literal row shows its metacharacter
CachesFor(f, n, k) == IF f = "L" THEN {((MetaIdx(k) - 1) % MetaClasses) + 1 + MetaClasses * ((k + Seed) % (NCaches \div MetaClasses))}
                      ELSE {((k + n + Seed + i * 5) % NCaches) + 1 : i \in 0..(CachesPer - 1)}

Init == job = [t |-> "root"]
Next ==
  \/ /\ job.t = "root"
     /\ \E st \in Strata, c \in 0..(NChunks - 1) : job' = [t |-> "chunk", f |-> st[1], n |-> st[2], c |-> c]
  \/ /\ job.t = "chunk"
     /\ \E j \in 0..(M(job.f, job.n) - 1) :
          /\ j % NChunks = job.c
          /\ LET k == KOf(job.f, job.n, j) IN
             /\ Admitted(job.f, job.n, k)
             /\ \E cf \in Folds(job.f, job.n, k), ci \in CachesFor(job.f, job.n, k) :
                  job' = [t |-> "case", f |-> job.f, n |-> job.n, k |-> k, cf |-> cf, ci |-> ci]
Spec == Init /\ [][Next]_job

CaseOut(jb) ==
  LET p == PatOf(jb.f, jb.n, jb.k)
      cache == Caches[jb.ci]
      tab == OccTab(p, jb.cf, cache)
      amb == Ambiguous(p, jb.cf, TextAlpha)
  IN [t |-> "case", f |-> jb.f, n |-> jb.n, k |-> jb.k, cf |-> jb.cf, ci |-> jb.ci, p |-> p,
      amb |-> amb,
      fwd |-> Report(cache, RefFwd(tab, cache, Cap + 1), Cap + 1),
      bwd |-> Report(cache, RefBwd(tab, cache, Cap + 1), Cap + 1),
      \* the named deviation: what the single path walk of ure_exec reports (only where it can differ and is modelled)
      ure |-> IF amb /\ ~HasAnchor(p)
              THEN LET A == Automaton(p, jb.cf, TextAlpha) IN
                   [fwd |-> Report(cache, UreFwd(A, cache, Cap + 1), Cap + 1),
                    bwd |-> Report(cache, UreBwd(A, cache, Cap + 1), Cap + 1)]
              ELSE [fwd |-> 0, bwd |-> 0]]

Dump == /\ job.t = "root" => PrintT(<<"TR", ToJson([t |-> "caches", seed |-> Seed, caches |-> Caches])>>)
        /\ job.t = "case" => PrintT(<<"TR", ToJson(CaseOut(job))>>)
=============================================================================
