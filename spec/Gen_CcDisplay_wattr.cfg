\* random walks with attributes: Flash On, all 16 background attribute codes, BT, FA / FAU between characters, mid-row codes and PACs
CONSTANTS Chans = {2, 3} Rows = {0, 5, 13, 14} Chars = {65, 98, 32} MaxPairs = 30
  Indents = {0, 8, 20} Depths = {2, 3, 4} Tabs = {1, 2, 3}
  Kinds = {"RCL", "RDC", "EOC", "EDM", "ENM", "CR", "BS", "DER", "RU", "TO", "PAC", "PACX", "MID", "SPC", "NULL", "TEXT",
           "FON", "BAOX", "BT", "FA"}
  Beyond = {}
  Mix <- MixAttr Bursts <- BurstsWalk
SPECIFICATION GSpec
INVARIANT Dump
CHECK_DEADLOCK FALSE
