--------------------------- MODULE TtxMatchRows ---------------------------
(* The ROW TEXTS of the C17 regular-expression layer: caches of three pages whose rows are
   generated from Seed (environment VERIF_MATCH_SEED, set by the check) over the alphabet of the
   pattern space:  short words at the first cell searched (row 1 column 0), at the end of row 1
   with the next word at the start of row 2 (an occurrence never runs over the row boundary), at
   the last cell searched (row 23 column 39), a row in the middle with text before and behind a
   word that is shown in normal size, double width or double height, rows filled completely with
   the whole alphabet, as row 23 of the last page a row filled with a and b only, and as row 4 of the first page
   the literal texts for the metacharacters of the literal patterns (family L) that are run on this cache.
   All other rows are blank.                                                                   *)
EXTENDS TtxMatchPage, TtxPatSpace, IOUtils

Seed == atoi(IOEnv.VERIF_MATCH_SEED)

H(x) == ((x % 65521) * 1103 + 12345) % 65521
H2(a, b) == H(H(a) + b)
\* the characters of the texts: a b A B c C blank . * +  (weighted)
AlphaW == <<97, 97, 97, 97, 98, 98, 98, 98, 65, 65, 66, 99, 99, 67, 32, 32, 46, 42, 43, 97>>
\* every character a generated text can hold
TextAlpha == {AlphaW[i] : i \in 1..Len(AlphaW)} \cup {Meta[i] : i \in {j \in 1..NMeta : Showable(Meta[j])}}
RC(key, i) == AlphaW[(H2(key, i) % Len(AlphaW)) + 1]
Word(key) == LET n == (H2(key, 77) % 4) + 1 IN [i \in 1..n |-> RC(key, i)]

Spaces(n) == [i \in 1..n |-> N(32)]
Plain(w) == [i \in 1..Len(w) |-> N(w[i])]
Styled(w, z) == [i \in 1..Len(w) |-> [c |-> w[i], z |-> z]]
Width(g) == IF g = <<>> THEN 0 ELSE RowCells(MkRow(g))
Fill(g) == g \o Spaces(40 - Width(g))

EdgeRow(wl, wr) == MkRow(Plain(wl) \o Spaces(40 - Len(wl) - Len(wr)) \o Plain(wr))
LeftRow(w)  == MkRow(Fill(Plain(w)))
RightRow(w) == MkRow(Spaces(40 - Len(w)) \o Plain(w))
\* the blanks in front of and behind the styled word carry the size control codes of the transmission
MidRow(wb, w, wa, z) == MkRow(Fill(Spaces(3) \o Plain(wb) \o Spaces(1) \o Styled(w, z) \o Spaces(1) \o Plain(wa)))
DenseRow(key) == MkRow([i \in 1..40 |-> N(RC(key, i))])
\* a row over a and b only (an A now and then): every short pattern over them has occurrences side by side, overlapping
\* and behind false starts, up to the last cell searched
ABRow(key) == MkRow([i \in 1..40 |-> N(<<97, 98, 97, 98, 97, 98, 97, 98, 65>>[(H2(key, i) % 9) + 1])])
\* the literal texts of the metacharacters of class (c - 1) % MetaClasses which a page can show: "amb bma " for each
RECURSIVE LitCells(_, _)
LitCells(c, i) ==
  IF i > NMeta THEN <<>>
  ELSE (IF (i - 1) % MetaClasses = (c - 1) % MetaClasses /\ Showable(Meta[i])
        THEN Plain(<<97, Meta[i], 98, 32, 98, Meta[i], 97, 32>>) ELSE <<>>) \o LitCells(c, i + 1)
LitRow(c) == MkRow(Fill(LitCells(c, 1)))
Blank == MkRow(Spaces(40))

NPages == 3
StyleOf(c) == <<"n", "w", "h">>[(c % 3) + 1]
\* rows of page j of cache c as a set of <<row number, row>>
PageRows(c, j) ==
  LET key == H2(Seed * 131 + c, j)
      mid == MidRow(Word(key + 5), Word(key + 6), Word(key + 7), StyleOf(c)) IN
  CASE j = 1 -> {<<1, EdgeRow(Word(key + 1), Word(key + 2))>>, <<2, LeftRow(Word(key + 3))>>, <<4, LitRow(c)>>}
    [] j = 2 -> {<<1, LeftRow(Word(key + 1))>>, <<12, mid>>, <<23, RightRow(Word(key + 4))>>}
                \cup (IF HasTall(mid) THEN {<<13, LowerRow(mid)>>} ELSE {})
    [] j = 3 -> (IF c % 2 = 0 THEN {<<1, DenseRow(key + 1)>>}
                 ELSE {<<2, LeftRow(Word(key + 3))>>, <<22, EdgeRow(Word(key + 1), Word(key + 2))>>})
                \cup {<<23, ABRow(key + 3)>>}

RECURSIVE SetToSeq(_)
SetToSeq(S) == IF S = {} THEN <<>> ELSE LET x == CHOOSE y \in S : TRUE IN <<x>> \o SetToSeq(S \ {x})
IndexOf(seq, x) == CHOOSE i \in 1..Len(seq) : seq[i] = x

Cache(c) ==
  LET pr  == [j \in 1..NPages |-> PageRows(c, j)]
      lib == <<Blank>> \o SetToSeq((UNION {{q[2] : q \in pr[j]} : j \in 1..NPages}) \ {Blank})
  IN TLCEval([lib |-> lib,
      pages |-> [j \in 1..NPages |-> [r \in 1..NRows |->
                   IF \E q \in pr[j] : q[1] = r THEN IndexOf(lib, (CHOOSE q \in pr[j] : q[1] = r)[2]) ELSE 1]],
      \* rows which the transmission does not send as text: the lower halves of a double height row
      lower |-> [j \in 1..NPages |-> {r \in 2..NRows : \E q \in pr[j] : q[1] = r - 1 /\ HasTall(q[2])}]])
=============================================================================
