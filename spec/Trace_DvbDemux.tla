--------------------------- MODULE Trace_DvbDemux ---------------------------
(* Trace validation for DvbDemux with the real layout constants.  harness/drv_dvb.c feeds a byte stream
   to the real demultiplexer in the logged chunks (callback interface: "feed", coroutine: "cor") and
   logs after every call the frames handed out and the wrap-around scalars of the context.  The
   specification replays the same chunking on the same bytes and must reproduce both, call by call.
   "end" lines carry the frames the intact tail of the stream was made from: Recovery.               *)
EXTENDS DvbDemux, Json, IOUtils

Log == ndJsonDeserialize(IOEnv.TRACEFILE)
VARIABLES l, sl, maxl, acc, s
tvars == <<l, sl, maxl, acc, s>>
Ev == Log[l]
X == Log[sl].s

Scal(t) == IF t.ts THEN ScalTs(t) ELSE ScalPes(t)

TStream == Ev.a = "stream" /\ sl' = l /\ UNCHANGED <<maxl, acc, s>>
TOpen == /\ Ev.a = "open" /\ Ev.ok
         /\ s' = S0(Ev.ts, Ev.cb, Ev.pid) /\ maxl' = Ev.maxl /\ acc' = <<>> /\ UNCHANGED sl
TZero == /\ Ev.a = "zero"
         /\ s' = S0(s.ts, s.d.cb, s.pid) /\ acc' = <<>> /\ UNCHANGED <<sl, maxl>>
TFeed == /\ Ev.a = "feed" /\ Ev.ok
         /\ LET t == Feed(X, [s EXCEPT !.d.out = <<>>], Ev.n) IN
            /\ t.d.out = Ev.d /\ Scal(t) = Ev.w /\ ~t.bad /\ t.rd = t.ce
            /\ s' = t /\ acc' = acc \o t.d.out
         /\ UNCHANGED <<sl, maxl>>
TCor == /\ Ev.a = "cor"
        /\ LET t == Cor(X, [s EXCEPT !.d.out = <<>>], Ev.n, maxl) IN
           /\ t.d.out = Ev.d /\ Scal(t) = Ev.w /\ ~t.bad /\ Ev.used = t.rd - s.rd
           /\ s' = t /\ acc' = acc \o t.d.out
        /\ UNCHANGED <<sl, maxl>>
NormF(fr) == [i \in 1..Len(fr) |-> [pts |-> <<fr[i].pts[1] % 8, fr[i].pts[2]>>,
                                      lines |-> [j \in 1..Len(fr[i].lines) |-> NormLine(fr[i].lines[j])]]]
TEnd == /\ Ev.a = "end" /\ IsSuffix(NormF(Ev.sent), NormF(acc)) /\ UNCHANGED <<sl, maxl, acc, s>>

TNext == l <= Len(Log) /\ l' = l + 1 /\ (TStream \/ TOpen \/ TZero \/ TFeed \/ TCor \/ TEnd)
TInit == l = 1 /\ sl = 1 /\ maxl = 64 /\ acc = <<>> /\ s = S0(FALSE, TRUE, 0)
TSpec == TInit /\ [][TNext]_tvars

TraceAccepted == LET n == TLCGet("stats").diameter - 1 IN
                 IF n = Len(Log) THEN TRUE
                 ELSE PrintT(<<"TV-REJECT", n + 1, Len(Log)>>) /\ FALSE
=============================================================================
