--------------------------- MODULE Trace_DvbDemux ---------------------------
(* Trace validation for DvbDemux with the real layout constants.  harness/drv_dvb.c feeds a byte stream
   to the real demultiplexer in the logged chunks (callback interface: "feed", coroutine: "cor") and
   logs after every call the frames handed out and the wrap-around scalars of the context.  The
   specification replays the same chunking on the same bytes and must reproduce both, call by call
   (TFeed / TCor block otherwise: the log is rejected at that line).

   The receiver policy `pol` (what happens to the frame in progress at damage, see DvbDemux) is chosen
   once from Policies and must explain the whole log.

   "end" lines close a run and state the two clauses of the property on what the real code delivered:
     - PartitionInvariance on recorded runs: every run over the same stream delivers the frames of the
       first run (coroutine runs: their CorView),
     - transparency: a "stream" line with same = TRUE declares a stream the transmitter may send instead of the
       previous one without any effect for the receiver (a transport packet sent twice - ISO 13818-1 2.4.3.3 -,
       packets of other PIDs / null packets / adaptation-field-only packets inserted, other stuffing data
       units): its runs have to deliver the frames of the first run of the base stream (TV-SAME),
     - Recovery: `sent` are the frames the intact packets behind the damage were made from, without the
       first and the last one; they have to be the last frames delivered.
   Both are reported (TV-PARTITION / TV-RECOVERY with the log line) without ending the validation.   *)
EXTENDS DvbDemux, Json, IOUtils

CONSTANTS Policies

Log == ndJsonDeserialize(IOEnv.TRACEFILE)
VARIABLES l, sl, maxl, acc, s, pol, first
tvars == <<l, sl, maxl, acc, s, pol, first>>
Ev == Log[l]
X == Log[sl].s

Scal(t) == IF t.ts THEN ScalTs(t) ELSE ScalPes(t)
NoRun == [set |-> FALSE, fr |-> <<>>]

TStream == Ev.a = "stream" /\ sl' = l /\ first' = (IF Ev.same THEN first ELSE NoRun) /\ UNCHANGED <<maxl, acc, s>>
TOpen == /\ Ev.a = "open" /\ Ev.ok
         /\ s' = S0(Ev.ts, Ev.cb, Ev.pid, pol) /\ maxl' = Ev.maxl /\ acc' = <<>> /\ UNCHANGED <<sl, first>>
TZero == /\ Ev.a = "zero"
         /\ s' = S0(s.ts, s.d.cb, s.pid, pol) /\ acc' = <<>> /\ UNCHANGED <<sl, maxl, first>>
TFeed == /\ Ev.a = "feed" /\ Ev.ok
         /\ LET t == Feed(X, [s EXCEPT !.d.out = <<>>], Ev.n) IN
            /\ t.d.out = Ev.d /\ Scal(t) = Ev.w /\ ~t.bad /\ t.rd = t.ce
            /\ s' = t /\ acc' = acc \o t.d.out
         /\ UNCHANGED <<sl, maxl, first>>
TCor == /\ Ev.a = "cor"
        /\ LET t == Cor(X, [s EXCEPT !.d.out = <<>>], Ev.n, maxl) IN
           /\ t.d.out = Ev.d /\ Scal(t) = Ev.w /\ ~t.bad /\ Ev.used = t.rd - s.rd
           /\ s' = t /\ acc' = acc \o t.d.out
        /\ UNCHANGED <<sl, maxl, first>>

NormF(fr) == [i \in 1..Len(fr) |-> [pts |-> <<fr[i].pts[1] % 8, fr[i].pts[2]>>,
                                      lines |-> [j \in 1..Len(fr[i].lines) |-> NormLine(fr[i].lines[j])]]]
RECURSIVE Common(_, _)           \* number of equal trailing elements
Common(a, b) == IF a = <<>> \/ b = <<>> \/ a[Len(a)] # b[Len(b)] THEN 0
                ELSE 1 + Common(SubSeq(a, 1, Len(a) - 1), SubSeq(b, 1, Len(b) - 1))
(* how Recovery failed: "merge" - the frame delivered in place of the first missing one ends with the
   lines of that frame, behind lines of an earlier frame; "lost" - anything else *)
Failure(sent, got) ==
  LET k == Common(sent, got) IN
  IF k < Len(got) /\ k < Len(sent)
     /\ LET f == sent[Len(sent) - k]  g == got[Len(got) - k] IN
        Len(g.lines) > Len(f.lines) /\ IsSuffix(f.lines, g.lines)
  THEN "merge" ELSE "lost"
View(fr) == IF s.d.cb THEN fr ELSE CorView(fr, maxl)
\* (IF, not a disjunction: TLC enumerates both disjuncts of an action)
TEnd == /\ Ev.a = "end"
        /\ IF Ev.rec /\ ~IsSuffix(NormF(Ev.sent), NormF(acc))
           THEN PrintT(<<"TV-RECOVERY", l, Failure(NormF(Ev.sent), NormF(acc)), pol>>) ELSE TRUE
        /\ IF first.set /\ Ev.cmp /\ acc # View(first.fr)
           THEN PrintT(<<(IF Log[sl].same THEN "TV-SAME" ELSE "TV-PARTITION"), l>>) ELSE TRUE
        /\ first' = IF ~first.set /\ s.d.cb /\ Ev.cmp THEN [set |-> TRUE, fr |-> acc] ELSE first
        /\ UNCHANGED <<sl, maxl, acc, s>>

TNext == l <= Len(Log) /\ l' = l + 1 /\ UNCHANGED pol /\ (TStream \/ TOpen \/ TZero \/ TFeed \/ TCor \/ TEnd)
TInit == l = 1 /\ sl = 1 /\ maxl = 64 /\ acc = <<>> /\ pol \in Policies /\ s = S0(FALSE, TRUE, 0, pol) /\ first = NoRun
TSpec == TInit /\ [][TNext]_tvars

TraceAccepted == LET n == TLCGet("stats").diameter - 1 IN
                 IF n = Len(Log) THEN TRUE
                 ELSE PrintT(<<"TV-REJECT", n + 1, Len(Log)>>) /\ FALSE
=============================================================================
