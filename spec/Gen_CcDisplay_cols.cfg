\* every column: paint-on mode, all eight indents, one or two characters / a tab offset, then BS / DER / TO / characters
CONSTANTS Chans = {3} Rows = {14} Chars = {65} MaxPairs = 5
  Indents = {0, 4, 8, 12, 16, 20, 24, 28} Depths = {2} Tabs = {1, 3}
  Kinds = {"RDC", "PAC", "BS", "DER", "TO", "TEXT"}
  Beyond = {}
  Mix <- NoMix Bursts <- NoBurst
SPECIFICATION GSpec
VIEW gview2
ACTION_CONSTRAINT TDump
CHECK_DEADLOCK FALSE
